import PyseqmVerif.Proofs.MDStateLemmas
import PyseqmVerif.Properties.C11
/-!
# C10b — values (not just labels), the nonadiabatic stream, and the double-offset label

Extends C10 ("identical content"), C11 ("the values stored for a step are those the system had at
that step") and C08 ("the energies and temperature written to the output are those of the
positions and velocities written for the same step").

## Part 1 — values
The value-level run loop `MDState.vsegment/vhistory/vfinalDisk` runs over an ABSTRACT DETERMINISTIC
DYNAMICS `D : Dyn σ κ Rec` (`Φ : σ → σ` one complete step, `obs`/`obsXyz` the per-stream
observations, `save`/`load` the checkpoint image) from a fixed initial state `σ0` (same script,
same seed).  Determinism is built into the types: `Φ`, `obs`, `save`, `load` are functions of the
complete engine state `σ` (which includes the RNG state).  Forgetting the values gives exactly the
`MDOut` machine (`erase_agrees_with_MDOut`), so the label-level theorems of C10/C11 say WHICH rows
are written; here we add WHAT they hold.

The only hypothesis is `CkptComplete D c σ0` (= `ckpt_complete`):
`∀ o, 0 < o → o ≤ c.steps → isDue c.ckpt o = true → D.load (D.save (traj D σ0 o)) = traj D σ0 o`.
It is a hypothesis about the real code, NOT discharged here: it says that `_build_checkpoint_base` /
`save_checkpoint` capture, and `run_from_checkpoint` / `_restore_rng` / `initialize` reinstate,
every component of the state that a later step or observation reads.  Components to audit in the
code: the loop-local `E0` of `run` (reset to `None` in every process) and the `scale_vel` /
`control_energy_shift` / `learned_parameters` / `seed` arguments of `run`, none of which
`run_from_checkpoint` passes on; `incomplete_checkpoint_breaks_resume` shows what happens then.

## Part 2 — the nonadiabatic stream (`Proc5`, `Disk5`), label level
## Part 3 — `i + 1 + step_offset` as the label of the nonadiabatic row: a counterexample
-/
namespace MDState
open MDOut

variable {σ κ Rec : Type}

/-! ## Part 1 -/

/-- `ckpt_complete`, spelled out -/
example (D : Dyn σ κ Rec) (c : Cfg) (σ0 : σ) :
    CkptComplete D c σ0 ↔
      ∀ o, 0 < o → o ≤ c.steps → isDue c.ckpt o = true →
        D.load (D.save (traj D σ0 o)) = traj D σ0 o := Iff.rfl

/-- in particular a checkpoint that captures the whole state, on all states, is complete -/
theorem ckptComplete_of_left_inverse (D : Dyn σ κ Rec) (c : Cfg) (σ0 : σ)
    (h : ∀ s, D.load (D.save s) = s) : CkptComplete D c σ0 := fun _ _ _ _ => h _

/-- the value-level machine is a conservative extension of `MDOut`: forgetting the values of every
    disk (and keeping the screen) of a history gives the `MDOut` history -/
theorem erase_agrees_with_MDOut (D : Dyn σ κ Rec) (c : Cfg) (σ0 : σ) (ks : List Crash) :
    (vhistory D c σ0 none ks).map (fun r => (r.1.erase, r.2)) = history c none ks :=
  erase_vhistory D c σ0 ks none

/-- the engine state of an uninterrupted process after `k` complete steps is `traj D σ0 k`, and
    inside step `k+1` (after the integrator, at every output action) it is `traj D σ0 (k+1)`:
    the state at the time of writing step `s` is `traj D σ0 s` -/
theorem state_at_write (D : Dyn σ κ Rec) (c : Cfg) (σ0 : σ) (k upto : Nat) :
    (vrunTo D c 0 k (vstartFresh D c σ0)).st = traj D σ0 k ∧
    (vstepActs D c (k + 1) upto (vrunTo D c 0 k (vstartFresh D c σ0))).st = traj D σ0 (k + 1) := by
  have h := (vstartFresh_ok D c σ0).runTo c k
  rw [Nat.zero_add] at h
  exact ⟨h.st, (h.stepActs c upto).st⟩

/-- the same after a resume from a checkpoint of step `o` whose image loads back to `traj D σ0 o` -/
theorem state_at_write_resumed (D : Dyn σ κ Rec) (c : Cfg) (σ0 : σ) (d : VDisk κ Rec) (o nx : Nat)
    (k : κ) (hd : VDiskOK D σ0 d) (hc : d.ckpt = some (o, k, nx))
    (hload : D.load (D.save (traj D σ0 o)) = traj D σ0 o) (j upto : Nat) :
    (vrunTo D c o j (vstartResume D c d o k nx)).st = traj D σ0 (o + j) ∧
    (vstepActs D c (o + j + 1) upto (vrunTo D c o j (vstartResume D c d o k nx))).st =
      traj D σ0 (o + j + 1) := by
  have h := (vstartResume_ok (c := c) hd hc hload).runTo c j
  exact ⟨h.st, (h.stepActs c upto).st⟩

/-- VALUES ARE THE STATE AT THE LABEL.  Along an arbitrary crash/resume history (any number of
    crashes; any step, any number of executed actions, soft or hard, any keep/lose mask), on every
    disk a process leaves behind (crashed or completed), a written row / frame labelled `s` holds the
    observation of `traj D σ0 s`, the state the UNINTERRUPTED dynamics has at step `s`; a
    checkpoint labelled `s` holds the image of that state. -/
theorem values_are_state_at_label (D : Dyn σ κ Rec) (c : Cfg) (σ0 : σ) (hcc : CkptComplete D c σ0)
    (ks : List Crash) :
    ∀ r ∈ vhistory D c σ0 none ks, ∀ s x,
      (some (s, x) ∈ r.1.h5.data → x = D.obs.data (traj D σ0 s)) ∧
      (some (s, x) ∈ r.1.h5.coords → x = D.obs.coords (traj D σ0 s)) ∧
      (some (s, x) ∈ r.1.h5.vels → x = D.obs.vels (traj D σ0 s)) ∧
      (some (s, x) ∈ r.1.h5.forces → x = D.obs.forces (traj D σ0 s)) ∧
      ((s, x) ∈ r.1.xyz → x = D.obsXyz (traj D σ0 s)) ∧
      (∀ k nx, r.1.ckpt = some (s, k, nx) → k = D.save (traj D σ0 s)) := by
  intro r hr s x
  have h := (vhistory_good hcc ks none none_good r hr).1
  exact ⟨h.h5.data s x, h.h5.coords s x, h.h5.vels s x, h.h5.forces s x, h.xyz s x,
    fun k nx hk => h.ckpt s k nx hk⟩

/-- the same for a process that started fresh (uninterrupted, or crashed anywhere): no hypothesis
    at all, since no checkpoint is ever loaded -/
theorem values_are_state_at_label_fresh (D : Dyn σ κ Rec) (c : Cfg) (σ0 : σ) (cr : Option Crash) :
    ∀ s x,
      (some (s, x) ∈ (vsegment D c σ0 none cr).1.h5.data → x = D.obs.data (traj D σ0 s)) ∧
      (some (s, x) ∈ (vsegment D c σ0 none cr).1.h5.coords → x = D.obs.coords (traj D σ0 s)) ∧
      (some (s, x) ∈ (vsegment D c σ0 none cr).1.h5.vels → x = D.obs.vels (traj D σ0 s)) ∧
      (some (s, x) ∈ (vsegment D c σ0 none cr).1.h5.forces → x = D.obs.forces (traj D σ0 s)) ∧
      ((s, x) ∈ (vsegment D c σ0 none cr).1.xyz → x = D.obsXyz (traj D σ0 s)) ∧
      (∀ k nx, (vsegment D c σ0 none cr).1.ckpt = some (s, k, nx) → k = D.save (traj D σ0 s)) := by
  intro s x
  have h := vsegment_fresh_ok D c σ0 cr
  exact ⟨h.h5.data s x, h.h5.coords s x, h.h5.vels s x, h.h5.forces s x, h.xyz s x,
    fun k nx hk => h.ckpt s k nx hk⟩

/-- an uninterrupted run leaves exactly the specified disk WITH VALUES: per stream the due labels,
    each with the observation of the state at that label (no hypothesis) -/
theorem uninterrupted_run_values (D : Dyn σ κ Rec) (c : Cfg) (σ0 : σ) :
    vfinalDisk D c σ0 none [] = vspecDisk D c σ0 := by
  refine eq_vspecDisk (vsegment_fresh_ok D c σ0 none) ?_
  show (vfinalDisk D c σ0 none []).erase = _
  rw [erase_vfinalDisk, Option.map_none, uninterrupted_run]

/-- THE main theorem with values: for every configuration and every finite sequence of crashes,
    resuming from the checkpointed STATE (or starting over from `σ0` when no checkpoint exists) and
    finally running to completion leaves exactly the specified value-level disk … -/
theorem resume_any_history_values (D : Dyn σ κ Rec) (c : Cfg) (σ0 : σ) (hcc : CkptComplete D c σ0)
    (ks : List Crash) : vfinalDisk D c σ0 none ks = vspecDisk D c σ0 := by
  refine eq_vspecDisk (vfinalDisk_good hcc ks none none_good).1 ?_
  rw [erase_vfinalDisk, Option.map_none, resume_any_history]

/-- … i.e. the disk, values included, of the uninterrupted run -/
theorem resume_eq_uninterrupted_values (D : Dyn σ κ Rec) (c : Cfg) (σ0 : σ)
    (hcc : CkptComplete D c σ0) (ks : List Crash) :
    vfinalDisk D c σ0 none ks = vfinalDisk D c σ0 none [] := by
  rw [resume_any_history_values D c σ0 hcc, uninterrupted_run_values]

/-- the specified value-level disk, spelled out on one stream: row `i` of `/coordinates` holds the
    label `i * e` and the coordinates of the state after `i * e` steps -/
theorem vspecDisk_coords_row (D : Dyn σ κ Rec) (c : Cfg) (σ0 : σ) (i : Nat)
    (hi : i < pre c.h5.coords c.steps) :
    (vspecDisk D c σ0).h5.coords[i]? =
      some (some (i * c.h5.coords, D.obs.coords (traj D σ0 (i * c.h5.coords)))) := by
  show (vspecRows _ _ _)[i]? = _
  unfold vspecRows
  rw [List.getElem?_map, due_getElem?]
  simp [hi]

/-- SAME SNAPSHOT.  On every disk along a history, for every step `s` there is ONE state (namely
    `traj D σ0 s`) of which the thermo row, the coordinates row, the velocities row, the forces row,
    the XYZ frame and the checkpoint labelled `s` are all observations: no mutation between the
    writes of one step, whatever the cadences of the other streams, and whichever process of the
    history wrote which of them. -/
theorem same_snapshot (D : Dyn σ κ Rec) (c : Cfg) (σ0 : σ) (hcc : CkptComplete D c σ0)
    (ks : List Crash) :
    ∀ r ∈ vhistory D c σ0 none ks, ∀ s, ∃ st : σ, st = traj D σ0 s ∧
      (∀ x, some (s, x) ∈ r.1.h5.data → x = D.obs.data st) ∧
      (∀ x, some (s, x) ∈ r.1.h5.coords → x = D.obs.coords st) ∧
      (∀ x, some (s, x) ∈ r.1.h5.vels → x = D.obs.vels st) ∧
      (∀ x, some (s, x) ∈ r.1.h5.forces → x = D.obs.forces st) ∧
      (∀ x, (s, x) ∈ r.1.xyz → x = D.obsXyz st) ∧
      (∀ k nx, r.1.ckpt = some (s, k, nx) → k = D.save st) := by
  intro r hr s
  have h := values_are_state_at_label D c σ0 hcc ks r hr s
  exact ⟨traj D σ0 s, rfl, fun x => (h x).1, fun x => (h x).2.1, fun x => (h x).2.2.1,
    fun x => (h x).2.2.2.1, fun x => (h x).2.2.2.2.1, (h (D.obs.data (traj D σ0 s))).2.2.2.2.2⟩

/-- inside ONE process the reason is structural: all output actions of a step (and its checkpoint)
    read the same engine state; no action after the integrator changes it -/
theorem writes_of_one_step_read_one_state (D : Dyn σ κ Rec) (c : Cfg) (s upto : Nat)
    (p : VProc σ κ Rec) : (vstepActs D c s upto p).st = D.Φ p.st := by
  unfold vstepActs vactCkpt vactFlush vactXyz vactVec vactData vactScreen vactAdvance VProc.flush
  repeat' split
  all_goals rfl

/-- C08, last sentence: if the thermo record is a function of the coordinates and velocities
    records (`T`, `Ek` of the velocities, `Ep` of the positions), then on every disk along a history
    the energies and temperature stored for step `s` are those of the positions and velocities
    stored for step `s` -/
theorem thermo_of_written_phase (D : Dyn σ κ Rec) (c : Cfg) (σ0 : σ) (hcc : CkptComplete D c σ0)
    (ks : List Crash) (thermo : Rec → Rec → Rec)
    (hth : ∀ st, D.obs.data st = thermo (D.obs.coords st) (D.obs.vels st)) :
    ∀ r ∈ vhistory D c σ0 none ks, ∀ s e x v,
      some (s, e) ∈ r.1.h5.data → some (s, x) ∈ r.1.h5.coords → some (s, v) ∈ r.1.h5.vels →
        e = thermo x v := by
  intro r hr s e x v he hx hv
  have h := values_are_state_at_label D c σ0 hcc ks r hr s
  rw [(h e).1 he, (h x).2.1 hx, (h v).2.2.1 hv]
  exact hth _

/-! ### an incomplete checkpoint breaks resume -/

/-- toy dynamics: state = (position, velocity); the step drifts the position by the velocity; every
    stream records the position.  The checkpoint stores ONLY the position; loading sets the
    velocity to 0: `restore = load ∘ save = π` with `π (x, v) = (x, 0)`. -/
def toyLossy : Dyn (Nat × Nat) Nat Nat :=
  { Φ := fun s => (s.1 + s.2, s.2)
    obs := { data := fun s => s.1 + s.2, coords := Prod.fst, vels := Prod.snd, forces := fun _ => 0 }
    obsXyz := Prod.fst
    save := Prod.fst
    load := fun x => (x, 0) }

/-- the same dynamics with a checkpoint that stores the whole state (`κ = σ`) -/
def toyFull : Dyn (Nat × Nat) (Nat × Nat) Nat :=
  { toyLossy with save := id, load := id }

/-- all cadences 1, checkpoint every 2, 4 steps -/
def toyCfg : Cfg := mkCfg 1 1 1 1 1 1 2 4

/-- INCOMPLETE CHECKPOINT BREAKS RESUME.  There is a dynamics whose `load ∘ save` is a projection
    `π` that forgets a component `Φ` reads (`Φ (π s) ≠ Φ s` on a reachable checkpoint state), hence
    violates `CkptComplete`, and a one-crash history after which (a) the final disk differs from the
    uninterrupted one and (b) a row labelled `s` does NOT hold the observation of `traj σ0 s`.
    So the hypothesis of `resume_any_history_values` / `values_are_state_at_label` cannot be
    dropped. -/
theorem incomplete_checkpoint_breaks_resume :
    ∃ (D : Dyn (Nat × Nat) Nat Nat) (c : Cfg) (σ0 : Nat × Nat) (ks : List Crash),
      (∀ s, D.load (D.save (D.load (D.save s))) = D.load (D.save s)) ∧
      (∃ o, 0 < o ∧ o ≤ c.steps ∧ isDue c.ckpt o = true ∧
        D.Φ (D.load (D.save (traj D σ0 o))) ≠ D.Φ (traj D σ0 o)) ∧
      ¬ CkptComplete D c σ0 ∧
      vfinalDisk D c σ0 none ks ≠ vfinalDisk D c σ0 none [] ∧
      (∃ s x, some (s, x) ∈ (vfinalDisk D c σ0 none ks).h5.coords ∧
        x ≠ D.obs.coords (traj D σ0 s)) := by
  refine ⟨toyLossy, toyCfg, (0, 1), [⟨3, 0, false, 0⟩], fun _ => rfl,
    ⟨2, by decide, by decide, by decide, by decide⟩, ?_, by decide, ⟨4, 2, by decide, by decide⟩⟩
  intro h
  have := h 2 (by decide) (by decide) (by decide)
  revert this; decide

/-- what the two runs leave in `/coordinates`: after the resume the molecule stands still -/
example : (vfinalDisk toyLossy toyCfg (0, 1) none [⟨3, 0, false, 0⟩]).h5.coords =
    [some (0, 0), some (1, 1), some (2, 2), some (3, 2), some (4, 2)] := by decide
example : (vfinalDisk toyLossy toyCfg (0, 1) none []).h5.coords =
    [some (0, 0), some (1, 1), some (2, 2), some (3, 3), some (4, 4)] := by decide

/-! ### non-vacuity of Part 1 -/

/-- the hypothesis is satisfiable by a non-trivial dynamics (state really changes, checkpoint really
    used) … -/
example : CkptComplete toyFull toyCfg (0, 1) :=
  ckptComplete_of_left_inverse toyFull toyCfg (0, 1) (fun _ => rfl)
example : traj toyFull (0, 1) 3 = (3, 1) := by decide
/-- … for which a crashed-and-resumed run (soft crash in step 3, hard kill in step 4 of the resumed
    process) indeed reproduces the values of the uninterrupted run; checked by evaluation,
    independently of the theorem -/
example : vfinalDisk toyFull toyCfg (0, 1) none [⟨3, 3, false, 0⟩, ⟨4, 5, true, 5⟩] =
    vspecDisk toyFull toyCfg (0, 1) := by decide
example : (vspecDisk toyFull toyCfg (0, 1)).h5.data =
    [some (0, 1), some (1, 2), some (2, 3), some (3, 4), some (4, 5)] := by decide
example : (vspecDisk toyFull toyCfg (0, 1)).ckpt = some (4, (4, 1), 5) := by decide
/-- the crashed process left a different disk (stale rows of step 3 beyond the checkpoint) whose
    values are nevertheless those of their labels -/
example : (vsegment toyFull toyCfg (0, 1) none (some ⟨3, 3, false, 0⟩)).1.h5.coords =
    [some (0, 0), some (1, 1), some (2, 2), some (3, 3), none] := by decide
/-- `CkptComplete` is weaker than `load ∘ save = id`: the lossy checkpoint is complete for a
    molecule at rest (the forgotten component is 0 on the whole trajectory) -/
example : CkptComplete toyLossy toyCfg (5, 0) := by
  intro o _ h2 _
  have : ∀ n, traj toyLossy (5, 0) n = (5, 0) := by
    intro n; induction n with
    | zero => rfl
    | succ n ih => show toyLossy.Φ (traj toyLossy (5, 0) n) = _; rw [ih]; rfl
  rw [this]; rfl
/-- the thermo hypothesis of `thermo_of_written_phase` is satisfiable -/
example : ∀ st, toyFull.obs.data st = (fun x v => x + v) (toyFull.obs.coords st) (toyFull.obs.vels st) :=
  fun _ => rfl
/-- the value invariant is not trivially true: a disk with a wrong value -/
example : ¬ VDiskOK toyFull (0, 1)
    { h5 := { data := [], coords := [some (3, 2)], vels := [], forces := [] }, xyz := [], ckpt := none } := by
  intro h
  have := h.h5.coords 3 2 (by simp)
  revert this; decide

/-! ## Part 2 — the nonadiabatic stream -/

/-- `DiskInv5`, spelled out -/
example (c : Cfg) (na : Nat) (d : Disk5) :
    DiskInv5 c na d ↔
      (DiskInv c d.base ∧ ∀ o nx, d.base.ckpt = some (o, nx) → Good na c.steps o d.na) := Iff.rfl

/-- `fresh_stream` for the nonadiabatic stream: in an uninterrupted run of the five-stream process
    (step-0 row from `initialize`, then per step the row is appended inside the integrator step,
    BEFORE the other outputs of that step) the stream holds the records of its due steps, in
    order, and nothing else -/
theorem na_fresh_stream (c : Cfg) (na : Nat) :
    (finalDisk5 naLabel c na none []).na = specRows na c.steps := by
  show (segment5 naLabel c na none none).na = _
  rw [segment5_complete (fun _ h => by cases h)]
  rfl

/-- the stream as a stand-alone `SW` machine is literally the machine of C11 -/
theorem na_fresh_stream_sw (na N : Nat) : (runSteps na 0 N (openFresh na N)).rows = specRows na N :=
  fresh_stream na N

/-- resume of the stand-alone stream: whatever lies beyond the rows of the due steps `≤ o`
    (stale rows of a crashed process), `_open_resume` (`i_na = o // na + 1`) followed by steps
    `o+1 … N` gives the specified stream -/
theorem na_resume_stream (na N o : Nat) (ho : o ≤ N) (rows : Rows) (h : Good na N o rows) :
    (runSteps na o (N - o) (openResume na o rows)).rows = specRows na N := by
  have h1 := runSteps_inv (openResume_inv h) (N - o) (by omega)
  have e : o + (N - o) = N := by omega
  rw [e] at h1
  exact h1.good.eq_spec

/-- the nonadiabatic component of the five-stream run loop IS the stand-alone machine -/
theorem runTo5_na (c : Cfg) (na o : Nat) (p : Proc5) :
    ∀ k, (runTo5 naLabel c na o k p).na = runSteps na o k p.na
  | 0 => rfl
  | k + 1 => by
    show SW.step na (runTo5 naLabel c na o k p).na (o + k + 1) = SW.step na (runSteps na o k p.na) (o + k + 1)
    rw [runTo5_na c na o p k]

/-- A CRASH AT ANY CRASH POINT LEAVES THE NONADIABATIC STREAM CONSISTENT WITH THE CHECKPOINT:
    every segment of the five-stream process — crashed at any step, inside the integrator step before
    or after the nonadiabatic append (`naDone`), or after any number of output actions, soft or
    hard with any keep/lose masks, or run to completion — leaves a disk satisfying `DiskInv5`,
    whatever `DiskInv5` disk it started from -/
theorem crash_keeps_na_consistent (c : Cfg) (na : Nat) (d : Option Disk5)
    (hd : ∀ dk, d = some dk → DiskInv5 c na dk) (cr : Option Crash5) :
    DiskInv5 c na (segment5 naLabel c na d cr) := segment5_inv hd cr

/-- every disk along a history of the five-stream process is resumable -/
theorem disk_invariant_along_history_with_na (c : Cfg) (na : Nat) (ks : List Crash5) :
    ∀ r ∈ history5 naLabel c na none ks, DiskInv5 c na r :=
  history5_inv c na ks none (fun _ h => by cases h)

/-- THE main theorem with the nonadiabatic stream: for every configuration, every nonadiabatic
    cadence and every finite sequence of crashes, the final disk — four HDF5 streams, XYZ file,
    checkpoint AND `/data/nonadiabatic` — is the specified one -/
theorem resume_any_history_with_na (c : Cfg) (na : Nat) (ks : List Crash5) :
    finalDisk5 naLabel c na none ks = specDisk5 c na :=
  finalDisk5_eq_spec c na ks none (fun _ h => by cases h)

theorem resume_eq_uninterrupted_with_na (c : Cfg) (na : Nat) (ks : List Crash5) :
    finalDisk5 naLabel c na none ks = finalDisk5 naLabel c na none [] := by
  rw [resume_any_history_with_na, resume_any_history_with_na]

/-- the lift is conservative: the first four streams, the XYZ file and the checkpoint of the
    five-stream history are those of the `MDOut` history with the same crashes (for ANY label
    expression of the nonadiabatic write) -/
theorem with_na_base_is_MDOut (lab : NALabel) (c : Cfg) (na : Nat) (ks : List Crash5) :
    (finalDisk5 lab c na none ks).base = finalDisk c none (ks.map (·.base)) :=
  finalDisk5_base lab c na ks none

/-! ### non-vacuity of Part 2 -/

section examples5

private def c5 : Cfg := mkCfg 3 2 3 5 4 2 4 12

/-- cadence 5 over 12 steps, checkpoints every 4 -/
example : (specDisk5 c5 5).na = [some 0, some 5, some 10] := by decide
/-- crash inside the integrator step of step 10 AFTER the nonadiabatic row of step 10 was appended
    (no other output of step 10 exists): the stale row is on disk … -/
example : (segment5 naLabel c5 5 none (some ⟨⟨10, 0, false, 0⟩, true, 0⟩)).na =
    [some 0, some 5, some 10] := by decide
example : (segment5 naLabel c5 5 none (some ⟨⟨10, 0, false, 0⟩, true, 0⟩)).base.ckpt = some (8, 3) := by
  decide
/-- … and is overwritten in place on resume -/
example : finalDisk5 naLabel c5 5 none [⟨⟨10, 0, false, 0⟩, true, 0⟩] = specDisk5 c5 5 := by decide
/-- the same crash BEFORE the append -/
example : (segment5 naLabel c5 5 none (some ⟨⟨10, 0, false, 0⟩, false, 0⟩)).na =
    [some 0, some 5, none] := by decide
example : finalDisk5 naLabel c5 5 none [⟨⟨10, 0, false, 0⟩, false, 0⟩] = specDisk5 c5 5 := by decide
/-- hard kill in step 7: the unflushed row of step 5 is lost (`naMask = 0`), the step-0 row was made
    durable by the flush that precedes the checkpoint of step 4 -/
example : (segment5 naLabel c5 5 none (some ⟨⟨7, 3, true, 10⟩, true, 0⟩)).na = [some 0, none, none] := by
  decide
/-- the invariant is not trivially true: had the step-0 row been lost as well, the disk would not be
    resumable -/
example : ¬ DiskInv5 c5 5 { base := (segment5 naLabel c5 5 none (some ⟨⟨7, 3, true, 10⟩, true, 0⟩)).base,
                            na := [none, none, none] } := by
  intro h
  have := (h.2 4 2 (by decide)).2 0 (by decide)
  revert this; decide
/-- three crashes, hard and soft -/
example : finalDisk5 naLabel c5 5 none
    [⟨⟨7, 3, true, 10⟩, true, 2⟩, ⟨⟨6, 2, false, 0⟩, true, 0⟩, ⟨⟨12, 6, true, 3⟩, true, 7⟩] =
    specDisk5 c5 5 := by decide
/-- cadence 0 switches the stream off -/
example : (finalDisk5 naLabel c5 0 none [⟨⟨7, 3, true, 10⟩, true, 2⟩]).na = [] := by decide

end examples5

/-! ## Parts 1 + 2 — the nonadiabatic stream with values

The nonadiabatic record of label `s` produced by the uninterrupted dynamics is
`naAt D O σ0 s` (`O.init σ0` for `s = 0`; `O.mid (traj D σ0 (s-1))` otherwise: the record is
appended in the middle of `_do_integrator_step`, so it is a function of the state after step
`s-1`). -/

/-- the value-level five-stream machine is a conservative extension of the label-level one -/
theorem erase_agrees_with_Proc5 (D : Dyn σ κ Rec) (O : NAObs σ Rec) (c : Cfg) (na : Nat) (σ0 : σ)
    (ks : List Crash5) :
    (vhistory5 D O c na σ0 none ks).map VDisk5.erase = history5 naLabel c na none ks :=
  erase_vhistory5 D O c na σ0 ks none

/-- along any crash/resume history of the five-stream process, on every disk left behind, a written
    nonadiabatic row labelled `s` holds the record the uninterrupted dynamics produces for `s`; the
    other streams, the XYZ file and the checkpoint satisfy `VDiskOK` (the six statements of
    `values_are_state_at_label`) -/
theorem values_are_state_at_label_na (D : Dyn σ κ Rec) (O : NAObs σ Rec) (c : Cfg) (na : Nat) (σ0 : σ)
    (hcc : CkptComplete D c σ0) (ks : List Crash5) :
    ∀ r ∈ vhistory5 D O c na σ0 none ks,
      (∀ s x, some (s, x) ∈ r.na → x = naAt D O σ0 s) ∧ VDiskOK D σ0 r.base := by
  intro r hr
  have h := (vhistory5_good hcc ks none none_good5 r hr).1
  exact ⟨h.na, h.base⟩

/-- if nothing after the append changes what the nonadiabatic row records (`_active_states`,
    `_amp_phase`, `nac_dot`: the cache shift copies `nac_dot`, the post-processing in `run` touches
    velocities only), i.e. the mid-step record equals an observation `obsNA` of the completed step,
    then the row labelled `s` holds `obsNA (traj D σ0 s)` exactly like the rows of the other streams -/
theorem naAt_eq_obs (D : Dyn σ κ Rec) (O : NAObs σ Rec) (σ0 : σ) (obsNA : σ → Rec)
    (h0 : O.init σ0 = obsNA σ0) (hmid : ∀ st, O.mid st = obsNA (D.Φ st)) :
    ∀ s, naAt D O σ0 s = obsNA (traj D σ0 s)
  | 0 => h0
  | s + 1 => hmid (traj D σ0 s)

/-- THE main theorem with values and the nonadiabatic stream -/
theorem resume_any_history_values_with_na (D : Dyn σ κ Rec) (O : NAObs σ Rec) (c : Cfg) (na : Nat)
    (σ0 : σ) (hcc : CkptComplete D c σ0) (ks : List Crash5) :
    vfinalDisk5 D O c na σ0 none ks = vspecDisk5 D O c na σ0 := by
  refine eq_vspecDisk5 (vfinalDisk5_good hcc ks none none_good5).1 ?_
  rw [erase_vfinalDisk5, Option.map_none, resume_any_history_with_na]

theorem resume_eq_uninterrupted_values_with_na (D : Dyn σ κ Rec) (O : NAObs σ Rec) (c : Cfg) (na : Nat)
    (σ0 : σ) (hcc : CkptComplete D c σ0) (ks : List Crash5) :
    vfinalDisk5 D O c na σ0 none ks = vfinalDisk5 D O c na σ0 none [] := by
  rw [resume_any_history_values_with_na D O c na σ0 hcc, resume_any_history_values_with_na D O c na σ0 hcc]

/-- the nonadiabatic record of the toy dynamics: the position mid-step (= position after the step) -/
def toyNA : NAObs (Nat × Nat) Nat := { init := Prod.fst, mid := fun s => s.1 + s.2 }

example : ∀ s, naAt toyFull toyNA (0, 1) s = Prod.fst (traj toyFull (0, 1) s) :=
  naAt_eq_obs toyFull toyNA (0, 1) Prod.fst rfl (fun _ => rfl)
/-- crash inside the integrator step of step 4 after the nonadiabatic append (stale row on disk),
    then a hard kill in the resumed process; by evaluation, independently of the theorem -/
example : vfinalDisk5 toyFull toyNA toyCfg 2 (0, 1) none
    [⟨⟨4, 0, false, 0⟩, true, 0⟩, ⟨⟨4, 5, true, 5⟩, true, 1⟩] = vspecDisk5 toyFull toyNA toyCfg 2 (0, 1) := by
  decide
example : (vspecDisk5 toyFull toyNA toyCfg 2 (0, 1)).na = [some (0, 0), some (2, 2), some (4, 4)] := by
  decide
example : (vsegment5 toyFull toyNA toyCfg 2 (0, 1) none (some ⟨⟨4, 0, false, 0⟩, true, 0⟩)).na =
    [some (0, 0), some (2, 2), some (4, 4)] := by decide
/-- with the lossy checkpoint the resumed nonadiabatic row of step 4 is wrong as well -/
example : (vfinalDisk5 toyLossy toyNA toyCfg 2 (0, 1) none [⟨⟨3, 0, false, 0⟩, false, 0⟩]).na =
    [some (0, 0), some (2, 2), some (4, 2)] := by decide

/-! ## Part 3 — the double-counted resume offset -/

/-- Without a resume the slip is invisible: for an uninterrupted run the label `i + 1 + step_offset`
    IS the correct label (`step_offset = 0`), for every configuration.  No test without a resume can
    see it. -/
theorem na_double_offset_invisible_without_resume (c : Cfg) (na : Nat) :
    finalDisk5 naLabelDouble c na none [] = specDisk5 c na := by
  rw [← resume_any_history_with_na c na []]
  show (runTo5 naLabelDouble c na 0 (c.steps - 0) (startFresh5 c na)).closeSoft =
    (runTo5 naLabel c na 0 (c.steps - 0) (startFresh5 c na)).closeSoft
  rw [runTo5_double_fresh]

/-- THE COUNTEREXAMPLE (all cadences 1, nonadiabatic every 2, checkpoint every 3, 6 steps, the
    process stops after the checkpoint of step 3 — the repository's own resume scenario): with the
    label `i + 1 + step_offset` the resumed process tests and stores 7, 8, 9 instead of 4, 5, 6;
    `/data/nonadiabatic/steps` ends as `[0, 2, 8, -]` instead of `[0, 2, 4, 6]`, while all other
    streams are correct. -/
theorem na_double_offset_counterexample :
    (finalDisk5 naLabelDouble (mkCfg 1 1 1 1 1 1 3 6) 2 none [⟨⟨4, 0, false, 0⟩, false, 0⟩]).na =
        [some 0, some 2, some 8, none] ∧
    (specDisk5 (mkCfg 1 1 1 1 1 1 3 6) 2).na = [some 0, some 2, some 4, some 6] ∧
    finalDisk5 naLabelDouble (mkCfg 1 1 1 1 1 1 3 6) 2 none [⟨⟨4, 0, false, 0⟩, false, 0⟩] ≠
        specDisk5 (mkCfg 1 1 1 1 1 1 3 6) 2 ∧
    (finalDisk5 naLabelDouble (mkCfg 1 1 1 1 1 1 3 6) 2 none [⟨⟨4, 0, false, 0⟩, false, 0⟩]).base =
        specDisk (mkCfg 1 1 1 1 1 1 3 6) := by
  decide

/-- with the label of the code (`i + 1`) the same history is fine (instance of
    `resume_any_history_with_na`, here by evaluation) -/
example : finalDisk5 naLabel (mkCfg 1 1 1 1 1 1 3 6) 2 none [⟨⟨4, 0, false, 0⟩, false, 0⟩] =
    specDisk5 (mkCfg 1 1 1 1 1 1 3 6) 2 := by decide

/-- the slip at the level of the stand-alone stream: resume at offset 3 from `[0, 2, -, -]` -/
def runStepsDouble (e o : Nat) : Nat → SW → SW
  | 0, w => w
  | k+1, w => SW.step e (runStepsDouble e o k w) (o + k + 1 + o)

example : (runStepsDouble 2 3 3 (openResume 2 3 [some 0, some 2, none, none])).rows =
    [some 0, some 2, some 8, none] := by decide
example : (runSteps 2 3 3 (openResume 2 3 [some 0, some 2, none, none])).rows = specRows 2 6 := by decide

end MDState
