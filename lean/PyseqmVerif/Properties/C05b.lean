import PyseqmVerif.Model.ScfControl
import PyseqmVerif.Model.SP2Spec
import PyseqmVerif.Proofs.ScfLemmas
import PyseqmVerif.Proofs.RowIndep
import PyseqmVerif.Proofs.AdaptiveMixLemmas
/-!
# C05b — batch transparency of the SCF control flow

> The results for a molecule are the same whether it is computed alone or inside any batch,
> regardless of the other batch members, its position in the batch …; solvers (incl. SP2 and Pulay
> whose control flow is batch-coupled).

`Properties/C05` proves the index machinery (parser, masks, packing).  This file is about
`seqm/seqm_functions/scf_loop.py`: `get_error`, the loops `scf_forward0/1/2`, `adaptive_mix`.
It is stated over the executable model `Model/ScfControl.lean`; where that model only has the
one-molecule function (`adaptiveMix` with the oracle `othersDone`) or only the abstract kernel
(`Kernels.step` for the Pulay loop) the batch-level composition is *defined here*
(`adaptiveMixBatch`, `adaptKernels`, `pulayKernels`) without touching the model.

Results.

* `get_error_rowwise`: `get_error` is a row-wise map (any scalar type); concatenation,
  re-indexing, `List.Perm`, alone = in batch.
* `row_independence_forward0` (any scalar type, NaN included; any kernels that act row-wise —
  hypothesis `RowWise`): the whole per-iteration record of a molecule in a batch is the record of
  the molecule run alone (`row_independence_two_batches` for two arbitrary batches);
  `batch_is_concat_of_alone_forward0`, `batch_permutation_equivariance_forward0`.  The hypothesis
  cannot be dropped (`row_independence_needs_rowwise`).  The proofs rest on
  `Proofs/RowIndep.lean`: `updMol_frozen_gen` (a converged record is a fixed point of the body,
  without order axioms), `loop_mols_eq_runN` (the `Nnot == 0` break is invisible in the rows),
  `traj_eq_of_sim` (simulation lemma).
* `sp2_batch_rowwise`: `SP2`'s `while notconverged.any() and k < SP2_MAX_ITER` with its per-row
  mask is the row-wise map of the one-molecule model `SP2Spec` — batch-coupled loop *condition*,
  batch transparent *result*.
* **`adaptive_mix` is NOT batch transparent** (`scf_loop.py:411-429`): the renormalisation loop
  leaves on `torch.all(done)` over the rows of the call, and a scaling round is applied to *every*
  row, done or not.  `adaptive_mix_batch_coupling_witness`: a row with
  `0 < |SUM0/SUM2 − 1| ≤ 1e-5` is returned as is when alone and rescaled by `SUM0/SUM2` when a
  batch-mate needs a round; `adaptive_mix_batch_small_trace_witness`: a row with `Σ diag ≤ 1e-3` is
  zeroed.  `adaptive_mix_row_independence_partial` (one call) and
  `row_independence_forward1_partial` (the loop) under the exact hypothesis `NotHeldBack`.
* **The Pulay loop is NOT batch transparent in its path** (`scf_loop.py:1041`,
  `reset_diis = torch.any(cond > 1e7)`, and `:1131-1144`: `counter`, `cFock`, `FOCK`, `EMAT`,
  `FPPF_packed` are reset for the whole batch): `pulay_batch_coupling_witness`;
  `row_independence_forward2_partial` under "no reset is caused by a batch-mate";
  `pulay_same_fixed_points`: the acceptance test is row-wise all the same.

Scope: the `backward=False` path modelled by `ScfControl` (see its header); restricted
`adaptive_mix` call (the unrestricted path calls it once per spin block with the same mask).
The numerical kernels (`eigh`, `fock`, `elec_energy`, norms, the DIIS linear algebra) are
parameters; that *they* act row-wise is the hypothesis `RowWise` / is built into the per-row
signatures of `AdaptOps` and `PulayOps`, not a theorem.
-/
namespace C05b
open ScfControl
set_option linter.unusedSectionVars false

/-! ## 4. `get_error` is a row-wise map -/
section GetError
variable {α : Type} [Sub α] [Mul α] [OfScientific α] [LT α] [DecidableLT α]

/-- **`get_error` is row-wise** (any scalar type).  The batch function is the map of the
    one-molecule function; hence row `i` of the result depends on row `i` of the arguments only;
    inserting / removing / replacing other molecules does not change a molecule's output; a
    molecule alone gets the same output; the function commutes with concatenation, with every
    re-indexing `π` of the batch, and maps permuted batches to permuted results. -/
theorem get_error_rowwise (abs : α → α) (eps : α) :
    (∀ ms : List (MolIn α), getError abs eps ms = ms.map (getErrorMol abs eps)) ∧
    (∀ (ms : List (MolIn α)) (i : Nat),
        (getError abs eps ms)[i]? = (ms[i]?).map (getErrorMol abs eps)) ∧
    (∀ m : MolIn α, getError abs eps [m] = [getErrorMol abs eps m]) ∧
    (∀ (pre post : List (MolIn α)) (m : MolIn α),
        (getError abs eps (pre ++ m :: post))[pre.length]? = (getError abs eps [m])[0]?) ∧
    (∀ (ms ms' : List (MolIn α)) (i j : Nat), ms[i]? = ms'[j]? →
        (getError abs eps ms)[i]? = (getError abs eps ms')[j]?) ∧
    (∀ ms ms' : List (MolIn α),
        getError abs eps (ms ++ ms') = getError abs eps ms ++ getError abs eps ms') ∧
    (∀ (ms ms' : List (MolIn α)) (π : Nat → Nat), (∀ j, ms'[j]? = ms[π j]?) →
        ∀ j, (getError abs eps ms')[j]? = (getError abs eps ms)[π j]?) ∧
    (∀ ms ms' : List (MolIn α), ms.Perm ms' →
        (getError abs eps ms).Perm (getError abs eps ms')) := by
  have hget : ∀ (ms : List (MolIn α)) (i : Nat),
      (getError abs eps ms)[i]? = (ms[i]?).map (getErrorMol abs eps) := by
    intro ms i; simp [getError]
  refine ⟨fun _ => rfl, hget, fun _ => rfl, ?_, ?_, ?_, ?_, ?_⟩
  · intro pre post m
    rw [hget, hget]
    simp
  · intro ms ms' i j h
    rw [hget, hget, h]
  · intro ms ms'; simp [getError]
  · intro ms ms' π h j
    rw [hget, hget, h]
  · intro ms ms' h
    exact h.map _

end GetError

/-! ## 1. row-wise kernels ⇒ the molecule in a batch *is* the molecule alone -/
section Transparency
variable {α : Type} [Sub α] [Mul α] [OfScientific α] [LT α] [DecidableLT α] {γ σ : Type}

/-- **The kernel acts row-wise**: the row it proposes for an (active) molecule is unchanged when
    the *other* rows of the batch are replaced, removed or added, when the molecule is moved to
    another position, and it does not read batch-global state.  (The loop index `k` may be read:
    it is the same number alone and in a batch.)  This is the contract of `make_Pnew` (`eigh` /
    SP2 with its per-row mask), `fock`, `elec_energy` and of the constant mixing of
    `scf_forward0`; it is a *hypothesis* about those kernels. -/
def RowWise (Kn : Kernels γ σ α) : Prop :=
  ∀ (k : Nat) (g g' : γ) (ms ms' : List (Mol σ α)) (i j : Nat) (m : Mol σ α),
    ms[i]? = some m → ms'[j]? = some m → m.active = true →
      (Kn.step k g ms).2 i = (Kn.step k g' ms').2 j

/-- a kernel given by a per-molecule function is row-wise … -/
theorem rowWise_of_pointwise (Kn : Kernels γ σ α) (f : Nat → Mol σ α → σ)
    (h : ∀ k g ms i m, ms[i]? = some m → m.active = true → (Kn.step k g ms).2 i = f k m) :
    RowWise Kn := by
  intro k g g' ms ms' i j m hi hj ha
  rw [h k g ms i m hi ha, h k g' ms' j m hj ha]

/-- … and every row-wise kernel is of that form: `f k m` is what it proposes for `m` alone. -/
theorem pointwise_of_rowWise (Kn : Kernels γ σ α) (h : RowWise Kn) (g0 : γ) :
    ∀ k g ms i m, ms[i]? = some m → m.active = true →
      (Kn.step k g ms).2 i = (Kn.step k g0 [m]).2 0 :=
  fun k g ms i m hi ha => h k g g0 ms [m] i 0 m hi rfl ha

/-- **Two batches.**  Row-wise kernels; molecule `s` sits at position `i` of the batch `ss` and
    at position `j` of the batch `ss'` (any other members, any sizes, any initial global states).
    Then after every number `n` of loop bodies its record — state rows `P, Pold, F, …`, energies,
    stored errors, flag, index of the last write — is the same in the two batches; and so is the
    record returned by the loop with its `Nnot == 0` break, for every cap `fuel` and start index. -/
theorem row_independence_two_batches (Kn : Kernels γ σ α) (hK : RowWise Kn) (abs : α → α)
    (eps : α) [OfNat α 0] [OfNat α 1] (g g' : γ) (ss ss' : List σ) (i j : Nat) (s : σ)
    (hi : ss[i]? = some s) (hj : ss'[j]? = some s) :
    (∀ k0 n, (runN Kn abs eps k0 n (initState Kn g ss)).mols[i]? =
        (runN Kn abs eps k0 n (initState Kn g' ss')).mols[j]?) ∧
    (∀ fuel k0, (loop Kn abs eps fuel k0 (initState Kn g ss)).mols[i]? =
        (loop Kn abs eps fuel k0 (initState Kn g' ss')).mols[j]?) := by
  have hrun : ∀ k0 n, (runN Kn abs eps k0 n (initState Kn g ss)).mols[i]? =
      (runN Kn abs eps k0 n (initState Kn g' ss')).mols[j]? := by
    intro k0 n
    refine (traj_eq_of_sim Kn abs eps k0 (fun _ _ => True) _ _ i j
      (initState_frozen Kn abs eps g ss) ?_ (fun _ _ _ => trivial) ?_ n).1
    · rw [initState_getElem?, initState_getElem?, hi, hj]
    · intro n m hB hA ha _
      exact ⟨hK _ _ _ _ _ i j m hB hA ha, trivial⟩
  refine ⟨hrun, ?_⟩
  intro fuel k0
  rw [loop_mols_eq_runN Kn abs eps fuel k0 _ (initState_frozen Kn abs eps g ss),
    loop_mols_eq_runN Kn abs eps fuel k0 _ (initState_frozen Kn abs eps g' ss'), hrun]

/-- **Batch transparency of the constant-mixing loop** (`scf_forward0`), any scalar type.
    If the kernels act row-wise, then for every batch `ss`, every position `i`, every number of
    bodies `n`, every cap `fuel` and start index `k0`: the record of molecule `i` (density rows,
    `Eelec`, `Eelec_new`, `err`, `dm_err`, `dm_element_err`, `notconverged`, last write) equals the
    record of that molecule run ALONE (batch of one).  In particular the returned record and the
    returned flag of `scf_forward0` are equal.  (Only the ghost counter `State.iters`, the number
    of bodies executed by the *batch*, differs: the batch runs until its slowest member.) -/
theorem row_independence_forward0 (Kn : Kernels γ σ α) (hK : RowWise Kn) (abs : α → α) (eps : α)
    [OfNat α 0] [OfNat α 1] (g g' : γ) (ss : List σ) (i : Nat) (s : σ) (hi : ss[i]? = some s) :
    (∀ k0 n, (runN Kn abs eps k0 n (initState Kn g ss)).mols[i]? =
        (runN Kn abs eps k0 n (initState Kn g' [s])).mols[0]?) ∧
    (∀ fuel k0, (loop Kn abs eps fuel k0 (initState Kn g ss)).mols[i]? =
        (loop Kn abs eps fuel k0 (initState Kn g' [s])).mols[0]?) ∧
    (scfForward0 Kn abs eps g ss).mols[i]? = (scfForward0 Kn abs eps g' [s]).mols[0]? ∧
    (finalFlags (scfForward0 Kn abs eps g ss))[i]? =
      (finalFlags (scfForward0 Kn abs eps g' [s]))[0]? := by
  obtain ⟨h1, h2⟩ := row_independence_two_batches Kn hK abs eps g g' ss [s] i 0 s hi rfl
  refine ⟨h1, h2, h2 _ _, ?_⟩
  unfold finalFlags
  rw [List.getElem?_map, List.getElem?_map]
  exact congrArg _ (h2 _ _)

/-- the same for the loop bounds of `scf_forward1` and of the Pulay loop, **if** their kernels
    were row-wise — which they are not, see sections 2 and 3 -/
theorem row_independence_forward12_of_rowWise (Kn : Kernels γ σ α) (hK : RowWise Kn)
    (abs : α → α) (eps : α) [OfNat α 0] [OfNat α 1] (g g' : γ) (ss : List σ) (i : Nat) (s : σ)
    (hi : ss[i]? = some s) :
    (scfForward1 Kn abs eps g ss).mols[i]? = (scfForward1 Kn abs eps g' [s]).mols[0]? ∧
    (scfForward2 Kn abs eps g ss).mols[i]? = (scfForward2 Kn abs eps g' [s]).mols[0]? := by
  obtain ⟨-, h2⟩ := row_independence_two_batches Kn hK abs eps g g' ss [s] i 0 s hi rfl
  exact ⟨h2 _ _, h2 _ _⟩

/-! ## 5. concatenation and permutation -/

/-- **The batch result is the concatenation of the results of the molecules run alone.** -/
theorem batch_is_concat_of_alone_forward0 (Kn : Kernels γ σ α) (hK : RowWise Kn) (abs : α → α)
    (eps : α) [OfNat α 0] [OfNat α 1] (g g' : γ) (ss : List σ) :
    (scfForward0 Kn abs eps g ss).mols =
      ss.flatMap (fun s => (scfForward0 Kn abs eps g' [s]).mols) := by
  apply List.ext_getElem?
  intro i
  have hlen : ∀ s, ((fun s => (scfForward0 Kn abs eps g' [s]).mols) s).length = 1 := by
    intro s
    show (loop Kn abs eps _ _ _).mols.length = 1
    rw [loop_length]; simp [initState]
  rw [flatMap_getElem?_of_length_one _ hlen]
  cases hi : ss[i]? with
  | none =>
    have : (scfForward0 Kn abs eps g ss).mols.length ≤ i := by
      show (loop Kn abs eps _ _ _).mols.length ≤ i
      rw [loop_length]
      simpa [initState] using hi
    rw [List.getElem?_eq_none this]; rfl
  | some s =>
    exact (row_independence_forward0 Kn hK abs eps g g' ss i s hi).2.2.1

/-- **Permutation equivariance.**  Re-ordering the molecules of a batch re-orders the returned
    records (and flags) in the same way and changes nothing else: explicitly for any re-indexing
    `π` (`ss'[j] = ss[π j]`), and as `List.Perm`. -/
theorem batch_permutation_equivariance_forward0 (Kn : Kernels γ σ α) (hK : RowWise Kn)
    (abs : α → α) (eps : α) [OfNat α 0] [OfNat α 1] (g g' : γ) (ss ss' : List σ) :
    (∀ π : Nat → Nat, (∀ j, ss'[j]? = ss[π j]?) →
      ∀ j, (scfForward0 Kn abs eps g' ss').mols[j]? = (scfForward0 Kn abs eps g ss).mols[π j]?) ∧
    (ss.Perm ss' →
      (scfForward0 Kn abs eps g ss).mols.Perm (scfForward0 Kn abs eps g' ss').mols ∧
      (finalFlags (scfForward0 Kn abs eps g ss)).Perm
        (finalFlags (scfForward0 Kn abs eps g' ss'))) := by
  constructor
  · intro π hπ j
    cases hj : ss'[j]? with
    | none =>
      have h1 : (scfForward0 Kn abs eps g' ss').mols.length ≤ j := by
        show (loop Kn abs eps _ _ _).mols.length ≤ j
        rw [loop_length]; simpa [initState] using hj
      have h2 : (scfForward0 Kn abs eps g ss).mols.length ≤ π j := by
        show (loop Kn abs eps _ _ _).mols.length ≤ π j
        rw [loop_length]
        have := hπ j
        rw [hj] at this
        simpa [initState] using this.symm
      rw [List.getElem?_eq_none h1, List.getElem?_eq_none h2]
    | some s =>
      have hi : ss[π j]? = some s := by rw [← hπ j, hj]
      exact (row_independence_two_batches Kn hK abs eps g' g ss' ss j (π j) s hj hi).2 _ _
  · intro hp
    have h : (scfForward0 Kn abs eps g ss).mols.Perm (scfForward0 Kn abs eps g' ss').mols := by
      rw [batch_is_concat_of_alone_forward0 Kn hK abs eps g g ss,
        batch_is_concat_of_alone_forward0 Kn hK abs eps g' g ss']
      exact hp.flatMap_right _
    exact ⟨h, h.map _⟩

end Transparency

/-! ## 2. `adaptive_mix` / `scf_forward1`: the renormalisation loop is batch-global -/
section AdaptiveBatch
variable {α : Type} [Add α] [Sub α] [Mul α] [Div α] [OfScientific α] [OfNat α 0] [OfNat α 1]
  [LT α] [DecidableLT α] [LE α] [DecidableLE α]

/-- the rows `[m]` of the tensor arguments of one `adaptive_mix` call:
    `P_prev[m]`, `P_cur[m]`, `Pold2_diag[m]` -/
structure MixIn (α : Type) where
  Pprev : Nat → Nat → α
  Pcur : Nat → Nat → α
  old2 : List α

/-- `(SUM0, di = diag_new)` of a row on entry of `for _ in range(20)` (`scf_loop.py:408-409`);
    this is literally the argument `adaptiveMix` passes to `renormLoop` -/
def renorm0 (abs sqrt sign : α → α) (n it : Nat) (unres : Bool) (x : MixIn α) : Renorm α :=
  { sum0 := lsum (diagOf n x.Pcur)
    di := mixDiag0 abs sign (damp it) (occNumber unres)
      (mixFac sqrt it (diagOf n x.Pcur) (diagOf n x.Pprev) x.old2) (diagOf n x.Pcur)
      (diagOf n x.Pprev) }

/-- `(SUM0, di)` of a row at the top of round `r`, as long as the loop has not been left: lines
    423-429 are executed for **every** row of the call in every round, done or not -/
def renormAt (occ : α) : Nat → Renorm α → Renorm α
  | 0, r0 => r0
  | r+1, r0 => renormAt occ r (renormRound occ r0)

/-- the oracle of the model made concrete: "`done[j]` in round `r` for every **other** row `j` of
    the call".  A row is a pair `(in the call?, data)`: `scf_forward1` calls `adaptive_mix` on
    `P[nz]`, the not yet converged molecules only (`scf_loop.py:532-554`). -/
def othersDone (abs sqrt sign : α → α) (n it : Nat) (unres : Bool) (rows : List (Bool × MixIn α))
    (i : Nat) : Nat → Bool :=
  fun r => rows.zipIdx.all fun xj =>
    xj.2 == i || !xj.1.1 ||
      renormDone abs (renormAt (occNumber unres) r (renorm0 abs sqrt sign n it unres xj.1.2))

/-- **`adaptive_mix` on a batch** (`scf_loop.py:375-434`, first result `Pmix`): every row is the
    one-molecule model `adaptiveMix` with its oracle instantiated by the other rows of the call. -/
def adaptiveMixBatch (abs sqrt sign : α → α) (n it : Nat) (unres : Bool) (xs : List (MixIn α)) :
    List (Nat → Nat → α) :=
  xs.mapIdx fun i x =>
    adaptiveMix abs sqrt sign (othersDone abs sqrt sign n it unres (xs.map fun y => (true, y)) i)
      n it unres x.Pprev x.Pcur x.old2

/-- `adaptiveMix` reads its oracle only through the renormalisation loop -/
theorem adaptiveMix_eq_of_renormLoop (abs sqrt sign : α → α) (od od' : Nat → Bool) (n it : Nat)
    (unres : Bool) (x : MixIn α)
    (h : renormLoop abs (occNumber unres) od 20 0 (renorm0 abs sqrt sign n it unres x) =
      renormLoop abs (occNumber unres) od' 20 0 (renorm0 abs sqrt sign n it unres x)) :
    adaptiveMix abs sqrt sign od n it unres x.Pprev x.Pcur x.old2 =
      adaptiveMix abs sqrt sign od' n it unres x.Pprev x.Pcur x.old2 := by
  unfold adaptiveMix
  unfold renorm0 at h
  simp only [h]

/-- **The exact condition under which a row is not affected by the others.**  In the first round
    `r` in which the row itself is `done` (the round in which `adaptive_mix` would leave the loop
    if the row were alone) every other row of the call is `done` too.  Otherwise `torch.all(done)`
    is `False` and lines 423-429 rescale this row as well. -/
def NotHeldBack (abs : α → α) (occ : α) (r0 : Renorm α) (od : Nat → Bool) : Prop :=
  ∀ r, r < 20 → (∀ r', r' < r → renormDone abs (renormAt occ r' r0) = false) →
    renormDone abs (renormAt occ r r0) = true → od r = true

theorem renormLoop_eq_alone (abs : α → α) (occ : α) (od : Nat → Bool) :
    ∀ (fuel rd : Nat) (r0 : Renorm α),
      (∀ r, r < fuel → (∀ r', r' < r → renormDone abs (renormAt occ r' r0) = false) →
        renormDone abs (renormAt occ r r0) = true → od (rd + r) = true) →
      renormLoop abs occ od fuel rd r0 = renormLoop abs occ (fun _ => true) fuel rd r0 := by
  intro fuel
  induction fuel with
  | zero => intro rd r0 _; rfl
  | succ fuel ih =>
    intro rd r0 h
    cases hd : renormDone abs r0 with
    | true =>
      have : od rd = true := h 0 (Nat.succ_pos _) (fun r' hr' => absurd hr' (Nat.not_lt_zero _)) hd
      simp [renormLoop, hd, this]
    | false =>
      have hstep := ih (rd + 1) (renormRound occ r0) (by
        intro r hr hbefore hdone
        have := h (r + 1) (Nat.succ_lt_succ hr) (by
          intro r' hr'
          cases r' with
          | zero => exact hd
          | succ r' => exact hbefore r' (Nat.lt_of_succ_lt_succ hr')) hdone
        rw [← this]; congr 1; omega)
      simp [renormLoop, hd, hstep]

/-- a row that is not held back gets from the batch call what it gets alone -/
theorem adaptiveMix_eq_alone (abs sqrt sign : α → α) (od : Nat → Bool) (n it : Nat)
    (unres : Bool) (x : MixIn α)
    (h : NotHeldBack abs (occNumber unres) (renorm0 abs sqrt sign n it unres x) od) :
    adaptiveMix abs sqrt sign od n it unres x.Pprev x.Pcur x.old2 =
      adaptiveMix abs sqrt sign (fun _ => true) n it unres x.Pprev x.Pcur x.old2 := by
  apply adaptiveMix_eq_of_renormLoop
  apply renormLoop_eq_alone
  intro r hr hb hd
  rw [Nat.zero_add]
  exact h r hr hb hd

/-- a call on one row has nobody to wait for -/
theorem othersDone_singleton (abs sqrt sign : α → α) (n it : Nat) (unres : Bool)
    (x : Bool × MixIn α) : othersDone abs sqrt sign n it unres [x] 0 = fun _ => true := by
  funext r
  simp [othersDone, List.zipIdx]

theorem adaptiveMixBatch_singleton (abs sqrt sign : α → α) (n it : Nat) (unres : Bool)
    (x : MixIn α) :
    adaptiveMixBatch abs sqrt sign n it unres [x] =
      [adaptiveMix abs sqrt sign (fun _ => true) n it unres x.Pprev x.Pcur x.old2] := by
  simp [adaptiveMixBatch, othersDone_singleton]

/-- **One call of `adaptive_mix`, partial transparency.**  Row `i` of the batch call equals the
    result of the call on that row alone, *provided* the row is `NotHeldBack` by the others. -/
theorem adaptive_mix_row_independence_partial (abs sqrt sign : α → α) (n it : Nat) (unres : Bool)
    (xs : List (MixIn α)) (i : Nat) (x : MixIn α) (hi : xs[i]? = some x)
    (h : NotHeldBack abs (occNumber unres) (renorm0 abs sqrt sign n it unres x)
      (othersDone abs sqrt sign n it unres (xs.map fun y => (true, y)) i)) :
    (adaptiveMixBatch abs sqrt sign n it unres xs)[i]? =
      (adaptiveMixBatch abs sqrt sign n it unres [x])[0]? := by
  rw [adaptiveMixBatch_singleton]
  simp only [adaptiveMixBatch, List.getElem?_mapIdx, hi, Option.map_some, List.getElem?_cons_zero]
  rw [adaptiveMix_eq_alone abs sqrt sign _ n it unres x h]

/-! ### the loop `scf_forward1` over the batch-level `adaptive_mix` -/

variable {σ : Type}

/-- what `scf_forward1` does around `adaptive_mix`, per molecule -/
structure AdaptOps (σ α : Type) where
  nbas : Nat
  unres : Bool
  /-- `(P[m], Pnew[m] = make_Pnew(F[m]), Pold2_diag[m])` (`scf_loop.py:521-534`) -/
  input : σ → MixIn α
  /-- `Pold[m] = P[m]; P[m] = Pmix; Pold2_diag[m] = diag_prev; F[m] = fock(P)[m]` (`562-593`) -/
  commit : σ → (Nat → Nat → α) → σ

/-- the rows handed to `adaptive_mix` in iteration `k`, with the mask `notconverged` -/
def mixRows (ops : AdaptOps σ α) (ms : List (Mol σ α)) : List (Bool × MixIn α) :=
  ms.map fun m => (m.active, ops.input m.s)

/-- the kernels of `scf_forward1`: `adaptive_mix(k, P[nz], Pnew[nz], Pold2_diag[nz])` written back
    to the rows `nz`; no batch-global state besides the loop index -/
def adaptKernels [Inhabited σ] (ops : AdaptOps σ α) (abs sqrt sign : α → α)
    (energy dmErr elemErr : σ → α) : Kernels Unit σ α where
  step := fun k _ ms => ((), fun i =>
    match ms[i]? with
    | some m => ops.commit m.s
        (adaptiveMix abs sqrt sign
          (othersDone abs sqrt sign ops.nbas k ops.unres (mixRows ops ms) i)
          ops.nbas k ops.unres (ops.input m.s).Pprev (ops.input m.s).Pcur (ops.input m.s).old2)
    | none => default)
  energy := energy
  dmErr := dmErr
  elemErr := elemErr
  diisErr := fun _ => none

/-- **Batch transparency of the adaptive loop, partial.**  FULL STATEMENT (false, see
    `adaptive_mix_batch_coupling_witness`): as `row_independence_forward0`, without `hquiet`.
    PROVED: the record of molecule `i` in the batch equals its record alone after every number of
    bodies, for every cap and start index, **provided** that in every iteration in which the
    molecule is still active it is `NotHeldBack` in the renormalisation loop of `adaptive_mix` by
    the other active molecules of the batch (hypothesis about the *batch* run only). -/
theorem row_independence_forward1_partial [Inhabited σ] (ops : AdaptOps σ α)
    (abs sqrt sign : α → α) (energy dmErr elemErr : σ → α) (eps : α) (k0 : Nat) (ss : List σ)
    (i : Nat) (s : σ) (hi : ss[i]? = some s)
    (hquiet : ∀ n m,
      (runN (adaptKernels ops abs sqrt sign energy dmErr elemErr) abs eps k0 n
        (initState (adaptKernels ops abs sqrt sign energy dmErr elemErr) () ss)).mols[i]? = some m →
      m.active = true →
      NotHeldBack abs (occNumber ops.unres)
        (renorm0 abs sqrt sign ops.nbas (k0 + n) ops.unres (ops.input m.s))
        (othersDone abs sqrt sign ops.nbas (k0 + n) ops.unres
          (mixRows ops (runN (adaptKernels ops abs sqrt sign energy dmErr elemErr) abs eps k0 n
            (initState (adaptKernels ops abs sqrt sign energy dmErr elemErr) () ss)).mols) i)) :
    (∀ n, (runN (adaptKernels ops abs sqrt sign energy dmErr elemErr) abs eps k0 n
        (initState (adaptKernels ops abs sqrt sign energy dmErr elemErr) () ss)).mols[i]? =
      (runN (adaptKernels ops abs sqrt sign energy dmErr elemErr) abs eps k0 n
        (initState (adaptKernels ops abs sqrt sign energy dmErr elemErr) () [s])).mols[0]?) ∧
    (∀ fuel, (loop (adaptKernels ops abs sqrt sign energy dmErr elemErr) abs eps fuel k0
        (initState (adaptKernels ops abs sqrt sign energy dmErr elemErr) () ss)).mols[i]? =
      (loop (adaptKernels ops abs sqrt sign energy dmErr elemErr) abs eps fuel k0
        (initState (adaptKernels ops abs sqrt sign energy dmErr elemErr) () [s])).mols[0]?) := by
  set Kn := adaptKernels ops abs sqrt sign energy dmErr elemErr with hKn
  have hrun : ∀ n, (runN Kn abs eps k0 n (initState Kn () ss)).mols[i]? =
      (runN Kn abs eps k0 n (initState Kn () [s])).mols[0]? := by
    intro n
    refine (traj_eq_of_sim Kn abs eps k0 (fun _ _ => True) _ _ i 0
      (initState_frozen Kn abs eps () ss) ?_ (fun _ _ _ => trivial) ?_ n).1
    · rw [initState_getElem?, initState_getElem?, hi]; rfl
    · intro n m hB hA ha _
      refine ⟨?_, trivial⟩
      -- the alone run is a batch of one
      have hlen : (runN Kn abs eps k0 n (initState Kn () [s])).mols.length = 1 := by
        rw [runN_length]; simp [initState]
      have hA' : (runN Kn abs eps k0 n (initState Kn () [s])).mols = [m] := by
        match hms : (runN Kn abs eps k0 n (initState Kn () [s])).mols, hlen with
        | [m'], _ =>
          rw [hms] at hA
          simp only [List.getElem?_cons_zero, Option.some.injEq] at hA
          rw [hA]
      show (match (runN Kn abs eps k0 n (initState Kn () ss)).mols[i]? with
          | some m => _ | none => _) =
        (match (runN Kn abs eps k0 n (initState Kn () [s])).mols[0]? with
          | some m => _ | none => _)
      rw [hB, hA]
      simp only
      rw [adaptiveMix_eq_alone abs sqrt sign _ _ _ _ _ (hquiet n m hB ha), hA']
      simp only [mixRows, List.map_cons, List.map_nil, othersDone_singleton]
  refine ⟨hrun, ?_⟩
  intro fuel
  rw [loop_mols_eq_runN Kn abs eps fuel k0 _ (initState_frozen Kn abs eps () ss),
    loop_mols_eq_runN Kn abs eps fuel k0 _ (initState_frozen Kn abs eps () [s]), hrun]

end AdaptiveBatch

/-! ## 3. the Pulay loop of `scf_forward2`: batch-global DIIS bookkeeping -/
section Pulay
variable {α : Type} [Sub α] [Mul α] [OfScientific α] [LT α] [DecidableLT α] {σ : Type}

/-- the batch-global Python scalars `counter` (−1 = nothing stored) and `cFock`
    (`scf_loop.py:972-973`); `reset_diis` is `False` at every loop head (`:978`, `:1132`) -/
structure DiisG where
  counter : Int
  cFock : Nat
deriving DecidableEq, Repr

/-- `counter = -1; cFock = 0` -/
def DiisG.init : DiisG := ⟨-1, 0⟩

/-- the per-molecule numerics of one Pulay body; `slot = counter`, `c = cFock` after `:1008-1010` -/
structure PulayOps (σ α : Type) where
  /-- `:1011-1027`: `FOCK[m,slot] = F[m]`, packed commutator, `diis_error[m]`, row of `EMAT[m]` -/
  push : Nat → Nat → σ → σ
  /-- `:1031-1040`: `cond[m] = max|L| / min|L|` of `EVEC[m]` -/
  cond : Nat → Nat → σ → α
  /-- `:1042-1049`: `F[m] = Σ_k coeff[m,k] FOCK[m,k]` -/
  extrap : Nat → Nat → σ → σ
  /-- `:1051-1095`: `Pnew[m] = make_Pnew(F[m])`, `Pold[m] = P[m]`,
      `P[m] = ½P[m] + ½Pnew[m]` if `cFock < 2` (the flag) else `Pnew[m]`, `F[m] = fock(P)[m]` -/
  advance : Bool → σ → σ
  /-- `:1137-1144`: `FPPF_packed.zero_()`, `EMAT` re-initialised, `FOCK.zero_()` (rows `[m]`).
      Leaves `P, Pold, F, diis_error` alone, so applying it before or after `get_error` is the same. -/
  clear : σ → σ

/-- `cFock = cFock + 1 if cFock < nFock else nFock` with `nFock = 10` -/
def nextCFock (g : DiisG) : Nat := if g.cFock < 10 then g.cFock + 1 else 10
/-- `counter = (counter + 1) % nFock` -/
def nextSlot (g : DiisG) : Nat := ((g.counter + 1) % 10).toNat

/-- `reset_diis = torch.any(cond > 1e7)` (`:1041`): over **all rows of `EMAT[notconverged]`**, and
    only evaluated when `cFock >= 2` -/
def resetFlag (ops : PulayOps σ α) (g : DiisG) (ms : List (Mol σ α)) : Bool :=
  decide (2 ≤ nextCFock g) &&
    ms.any fun m => m.active &&
      decide (1.0e7 < ops.cond (nextSlot g) (nextCFock g) (ops.push (nextSlot g) (nextCFock g) m.s))

/-- what one body proposes for a molecule, given the batch-global scalars and the global flag -/
def pulayRow (ops : PulayOps σ α) (g : DiisG) (reset : Bool) (s : σ) : σ :=
  let s1 := ops.push (nextSlot g) (nextCFock g) s
  let s2 := if 2 ≤ nextCFock g then ops.extrap (nextSlot g) (nextCFock g) s1 else s1
  let s3 := ops.advance (decide (nextCFock g < 2)) s2
  -- `if reset_diis:` … `counter = -1; cFock = 0; ….zero_()` for the whole batch
  if reset then ops.clear s3 else s3

/-- **the Pulay kernels** (`scf_loop.py:988-1144`) -/
def pulayKernels [Inhabited σ] (ops : PulayOps σ α) (energy dmErr elemErr : σ → α)
    (diisErr : σ → Option α) : Kernels DiisG σ α where
  step := fun _ g ms =>
    let reset := resetFlag ops g ms
    (if reset then DiisG.init else ⟨nextSlot g, nextCFock g⟩,
     fun i => match ms[i]? with
       | some m => pulayRow ops g reset m.s
       | none => default)
  energy := energy
  dmErr := dmErr
  elemErr := elemErr
  diisErr := diisErr

theorem resetFlag_singleton (ops : PulayOps σ α) (g : DiisG) (m : Mol σ α) (ha : m.active = true) :
    resetFlag ops g [m] = (decide (2 ≤ nextCFock g) &&
      decide (1.0e7 < ops.cond (nextSlot g) (nextCFock g) (ops.push (nextSlot g) (nextCFock g) m.s))) := by
  simp [resetFlag, ha]

/-- **Batch transparency of the Pulay loop, partial.**  FULL STATEMENT (false, see
    `pulay_batch_coupling_witness`): without `hquiet`.  PROVED: the record of molecule `i` in the
    batch equals its record alone after every number of bodies and for every cap, **provided**
    that, while the molecule is active, the batch-global `reset_diis` equals the flag the molecule
    would raise by itself, i.e. no reset is caused by a batch-mate alone. -/
theorem row_independence_forward2_partial [Inhabited σ] [OfNat α 0] [OfNat α 1]
    (ops : PulayOps σ α) (abs : α → α) (energy dmErr elemErr : σ → α) (diisErr : σ → Option α)
    (eps : α) (k0 : Nat) (g0 : DiisG) (ss : List σ) (i : Nat) (s : σ) (hi : ss[i]? = some s)
    (hquiet : ∀ n m,
      (runN (pulayKernels ops energy dmErr elemErr diisErr) abs eps k0 n
        (initState (pulayKernels ops energy dmErr elemErr diisErr) g0 ss)).mols[i]? = some m →
      m.active = true →
      resetFlag ops
        (runN (pulayKernels ops energy dmErr elemErr diisErr) abs eps k0 n
          (initState (pulayKernels ops energy dmErr elemErr diisErr) g0 ss)).g
        (runN (pulayKernels ops energy dmErr elemErr diisErr) abs eps k0 n
          (initState (pulayKernels ops energy dmErr elemErr diisErr) g0 ss)).mols =
      resetFlag ops
        (runN (pulayKernels ops energy dmErr elemErr diisErr) abs eps k0 n
          (initState (pulayKernels ops energy dmErr elemErr diisErr) g0 ss)).g [m]) :
    (∀ n, (runN (pulayKernels ops energy dmErr elemErr diisErr) abs eps k0 n
        (initState (pulayKernels ops energy dmErr elemErr diisErr) g0 ss)).mols[i]? =
      (runN (pulayKernels ops energy dmErr elemErr diisErr) abs eps k0 n
        (initState (pulayKernels ops energy dmErr elemErr diisErr) g0 [s])).mols[0]?) ∧
    (∀ fuel, (loop (pulayKernels ops energy dmErr elemErr diisErr) abs eps fuel k0
        (initState (pulayKernels ops energy dmErr elemErr diisErr) g0 ss)).mols[i]? =
      (loop (pulayKernels ops energy dmErr elemErr diisErr) abs eps fuel k0
        (initState (pulayKernels ops energy dmErr elemErr diisErr) g0 [s])).mols[0]?) := by
  set Kn := pulayKernels ops energy dmErr elemErr diisErr with hKn
  have hrun : ∀ n, (runN Kn abs eps k0 n (initState Kn g0 ss)).mols[i]? =
      (runN Kn abs eps k0 n (initState Kn g0 [s])).mols[0]? := by
    intro n
    refine (traj_eq_of_sim Kn abs eps k0 (fun a b => a = b) (initState Kn g0 ss)
      (initState Kn g0 [s]) i 0 (initState_frozen Kn abs eps g0 ss) ?_ (fun _ _ _ => rfl) ?_ n).1
    · rw [initState_getElem?, initState_getElem?, hi]; rfl
    · intro n m hB hA ha hg
      have hlen : (runN Kn abs eps k0 n (initState Kn g0 [s])).mols.length = 1 := by
        rw [runN_length]; simp [initState]
      have hA' : (runN Kn abs eps k0 n (initState Kn g0 [s])).mols = [m] := by
        match hms : (runN Kn abs eps k0 n (initState Kn g0 [s])).mols, hlen with
        | [m'], _ =>
          rw [hms] at hA
          simp only [List.getElem?_cons_zero, Option.some.injEq] at hA
          rw [hA]
      have hq := hquiet n m hB ha
      show (match (runN Kn abs eps k0 n (initState Kn g0 ss)).mols[i]? with
            | some m => _ | none => _) =
          (match (runN Kn abs eps k0 n (initState Kn g0 [s])).mols[0]? with
            | some m => _ | none => _) ∧
        (if resetFlag ops _ _ = true then DiisG.init else _) =
          (if resetFlag ops _ _ = true then DiisG.init else _)
      rw [hB, hA, hA', ← hg, hq]
      exact ⟨rfl, rfl⟩
  refine ⟨hrun, ?_⟩
  intro fuel
  rw [loop_mols_eq_runN Kn abs eps fuel k0 _ (initState_frozen Kn abs eps g0 ss),
    loop_mols_eq_runN Kn abs eps fuel k0 _ (initState_frozen Kn abs eps g0 [s]), hrun]

end Pulay

/-! ### the acceptance criterion is row-wise for every solver -/
section Acceptance
variable {K : Type} [Field K] [LinearOrder K] [IsStrictOrderedRing K] {γ σ : Type}

/-- the flag `get_error` returns for an *active* row is the four-part test on the fresh numbers;
    the stored `err / dm_err / dm_element_err` of earlier iterations do not enter -/
theorem getErrorMol_active_flag_iff (eps eN eO e dF elF d l : K) (di : Option K) :
    (getErrorMol (fun x => |x|) eps
      { active := true, eNew := eN, eOld := eO, errStored := e, dmFresh := dF, elemFresh := elF,
        dmStored := d, elemStored := l, diis := di }).notconv = false ↔
      Passed eps (eN - eO) dF elF di := by
  constructor
  · intro h
    obtain ⟨-, h2, h3, h4⟩ := getErrorMol_fresh (fun x : K => |x|) eps _ rfl h
    have hp := (getErrorMol_flag eps _).1 h
    rw [h2, h3, h4] at hp
    exact hp
  · rintro ⟨h1, h2, h3, h4⟩
    have h1' : ¬ eps < |eN - eO| := not_lt.mpr h1
    have h2' : ¬ eps * 2.0 < dF := by rw [lit2]; exact not_lt.mpr (by linarith)
    have h3' : ¬ eps * 15.0 < elF := by rw [lit15]; exact not_lt.mpr (by linarith)
    cases di with
    | none => simp [getErrorMol, h1', h2', h3']
    | some x =>
      have h4' : ¬ (50.0 : K) * eps < x := by rw [lit50]; exact not_lt.mpr (h4 x rfl)
      simp [getErrorMol, h1', h2', h3', h4']

/-- **Only the path is coupled, not the acceptance criterion.**  For *any* kernels (in particular
    the Pulay kernels with their batch-global `counter / cFock / reset_diis`, SP2, adaptive
    mixing), any batch state, any iteration `k`: whether the active molecule `i` is accepted in
    this body is the four-part test on the row `s'` that was proposed for it and on its own
    previous energy — nothing else of the batch, of the global state or of `k` enters.  Hence
    (second part) a proposed state that passes alone passes in every batch at the iteration where
    it is evaluated, and vice versa, and what is written (`P…`, flag, `Eelec_new`, `Eelec`, `err`)
    is the same.  So any state that is accepted when the molecule runs alone is accepted in the
    batch whenever the batch run proposes it: the coupling moves the *path*, not the *target*. -/
theorem pulay_same_fixed_points (Kn : Kernels γ σ K) (eps : K) :
    (∀ (k : Nat) (st : State γ σ K) (i : Nat) (m : Mol σ K), st.mols[i]? = some m →
      m.active = true →
      ∃ m', (body Kn (fun x => |x|) eps k st).mols[i]? = some m' ∧
        m'.s = (Kn.step k st.g st.mols).2 i ∧
        (m'.active = false ↔
          Passed eps (Kn.energy m'.s - m.eOld) (Kn.dmErr m'.s) (Kn.elemErr m'.s)
            (Kn.diisErr m'.s))) ∧
    (∀ (k k' : Nat) (stB stA : State γ σ K) (i j : Nat) (mB mA : Mol σ K),
      stB.mols[i]? = some mB → stA.mols[j]? = some mA → mB.active = true → mA.active = true →
      mB.eOld = mA.eOld →
      (Kn.step k stB.g stB.mols).2 i = (Kn.step k' stA.g stA.mols).2 j →
      ((body Kn (fun x => |x|) eps k stB).mols[i]?).map
          (fun m => (m.s, m.active, m.eNew, m.eOld, m.err)) =
        ((body Kn (fun x => |x|) eps k' stA).mols[j]?).map
          (fun m => (m.s, m.active, m.eNew, m.eOld, m.err))) := by
  constructor
  · intro k st i m hi ha
    refine ⟨updMol Kn (fun x => |x|) eps k ((Kn.step k st.g st.mols).2 i) m, ?_, ?_, ?_⟩
    · rw [body_getElem?, hi]; rfl
    · simp [updMol, ha]
    · simp only [updMol, ha, if_true]
      exact getErrorMol_active_flag_iff eps _ _ _ _ _ _ _ _
  · intro k k' stB stA i j mB mA hB hA haB haA heq hc
    rw [body_getElem?, body_getElem?, hB, hA, ← hc]
    simp only [Option.map_some, Option.some.injEq]
    rcases mB with ⟨sB, aB, eOB, eNB, erB, dB, lB, liB⟩
    rcases mA with ⟨sA, aA, eOA, eNA, erA, dA, lA, liA⟩
    simp only at haB haA heq
    subst haB haA heq
    simp only [updMol, if_true]
    have hflag : ∀ c : σ,
        (getErrorMol (fun x : K => |x|) eps
          { active := true, eNew := Kn.energy c, eOld := eOB, errStored := erB,
            dmFresh := Kn.dmErr c, elemFresh := Kn.elemErr c, dmStored := dB, elemStored := lB,
            diis := Kn.diisErr c }).notconv =
        (getErrorMol (fun x : K => |x|) eps
          { active := true, eNew := Kn.energy c, eOld := eOB, errStored := erA,
            dmFresh := Kn.dmErr c, elemFresh := Kn.elemErr c, dmStored := dA, elemStored := lA,
            diis := Kn.diisErr c }).notconv := by
      intro c
      have h1 := getErrorMol_active_flag_iff eps (Kn.energy c) eOB erB (Kn.dmErr c) (Kn.elemErr c)
        dB lB (Kn.diisErr c)
      have h2 := getErrorMol_active_flag_iff eps (Kn.energy c) eOB erA (Kn.dmErr c) (Kn.elemErr c)
        dA lA (Kn.diisErr c)
      cases hb1 : (getErrorMol (fun x : K => |x|) eps
          { active := true, eNew := Kn.energy c, eOld := eOB, errStored := erB,
            dmFresh := Kn.dmErr c, elemFresh := Kn.elemErr c, dmStored := dB, elemStored := lB,
            diis := Kn.diisErr c }).notconv with
      | false => exact (h2.2 (h1.1 hb1)).symm
      | true =>
        cases hb2 : (getErrorMol (fun x : K => |x|) eps
          { active := true, eNew := Kn.energy c, eOld := eOB, errStored := erA,
            dmFresh := Kn.dmErr c, elemFresh := Kn.elemErr c, dmStored := dA, elemStored := lA,
            diis := Kn.diisErr c }).notconv with
        | true => rfl
        | false => rw [h1.2 (h2.1 hb2)] at hb1; cases hb1
    rw [hflag]
    simp [getErrorMol]

end Acceptance

/-! ## 6. `SP2`: `while notconverged.any()` with a per-row mask is row-wise -/
section SP2Batch
open SP2Spec
variable {α : Type} [Add α] [Sub α] [Mul α] [Div α] [OfScientific α] [OfNat α 0]
  [LT α] [DecidableLT α]

/-- row `[m]` of the tensors of `SP2.SP2` (`a0, errm0, errm1, errm2` as `St`, `noccd[m]`) and of
    its mask `notconverged[m]` -/
structure Sp2Row (α : Type) where
  st : St α
  nocc : α
  active : Bool

/-- the body of `while notconverged.any() and k < SP2_MAX_ITER` (`SP2.py:56-89`): **every**
    statement is indexed by `[notconverged]`; the new mask entry of an active row is
    `~((errm0 < eps) * (errm1 < eps))` -/
def sp2BatchBody (abs : α → α) (eps : α) (rows : List (Sp2Row α)) : List (Sp2Row α) :=
  rows.map fun r =>
    if r.active then
      { r with st := iter abs r.nocc r.st, active := !stop eps (iter abs r.nocc r.st) }
    else r

/-- the batch loop; `fuel` is what is left of the batch-global cap `k < SP2_MAX_ITER` -/
def sp2BatchLoop (abs : α → α) (eps : α) : Nat → List (Sp2Row α) → List (Sp2Row α)
  | 0, rows => rows
  | fuel+1, rows =>
    if rows.any (·.active) then sp2BatchLoop abs eps fuel (sp2BatchBody abs eps rows) else rows

/-- the one-molecule model `SP2Spec.loop` applied to a row -/
def sp2RowRun (abs : α → α) (eps : α) (fuel : Nat) (r : Sp2Row α) : Sp2Row α :=
  if r.active then
    { r with st := (SP2Spec.loop abs eps r.nocc fuel r.st).1, active := !(SP2Spec.loop abs eps r.nocc fuel r.st).2 }
  else r

theorem sp2BatchLoop_eq_map (abs : α → α) (eps : α) :
    ∀ (fuel : Nat) (rows : List (Sp2Row α)),
      sp2BatchLoop abs eps fuel rows = rows.map (sp2RowRun abs eps fuel) := by
  intro fuel
  induction fuel with
  | zero =>
    intro rows
    show rows = _
    conv_lhs => rw [← List.map_id rows]
    apply List.map_congr_left
    intro r _
    rcases r with ⟨st, nocc, act⟩
    cases act <;> simp [sp2RowRun, SP2Spec.loop]
  | succ fuel ih =>
    intro rows
    cases hany : rows.any (·.active) with
    | true =>
      simp only [sp2BatchLoop, hany, if_true]
      rw [ih, sp2BatchBody, List.map_map]
      apply List.map_congr_left
      intro r _
      rcases r with ⟨st, nocc, act⟩
      cases act with
      | false => simp [sp2RowRun]
      | true =>
        cases hs : stop eps (iter abs nocc st) <;> simp [sp2RowRun, SP2Spec.loop, hs]
    | false =>
      simp only [sp2BatchLoop, hany, Bool.false_eq_true, if_false]
      conv_lhs => rw [← List.map_id rows]
      apply List.map_congr_left
      intro r hr
      have : r.active = false := by
        have h := List.any_eq_false.mp hany r hr
        simpa using h
      simp [sp2RowRun, this]

/-- **`SP2` is batch transparent** although its loop condition is `notconverged.any()` and its
    cap counts batch iterations: on a batch of `(nocc, occupations)` rows it returns, row by row,
    exactly what the one-molecule model `SP2Spec.sp2Spectrum` returns (state, number of bodies
    `k` of *that* row, rule-met flag) — for every cap.  Hence position, batch-mates and batch size
    are irrelevant, and permuting the batch permutes the results. -/
theorem sp2_batch_rowwise (abs : α → α) (eps : α) (fuel : Nat) (batch : List (α × List α)) :
    (sp2BatchLoop abs (clampEps eps) fuel
        (batch.map fun b => ⟨init abs b.1 b.2, b.1, true⟩)).map (fun r => (r.st, !r.active)) =
      batch.map (fun b => sp2Spectrum abs eps b.1 fuel b.2) := by
  rw [sp2BatchLoop_eq_map, List.map_map, List.map_map]
  apply List.map_congr_left
  intro b _
  simp [sp2RowRun, sp2Spectrum]

theorem sp2_batch_permutation (abs : α → α) (eps : α) (fuel : Nat) (b b' : List (α × List α))
    (h : b.Perm b') :
    ((sp2BatchLoop abs (clampEps eps) fuel
        (b.map fun x => ⟨init abs x.1 x.2, x.1, true⟩)).map (fun r => (r.st, !r.active))).Perm
      ((sp2BatchLoop abs (clampEps eps) fuel
        (b'.map fun x => ⟨init abs x.1 x.2, x.1, true⟩)).map (fun r => (r.st, !r.active))) := by
  rw [sp2_batch_rowwise, sp2_batch_rowwise]
  exact h.map _

end SP2Batch

/-! ## witnesses and non-vacuity -/
section Witnesses

/-- `sign` on `ℚ` -/
def sgn (x : ℚ) : ℚ := if 0 < x then 1 else if x < 0 then -1 else 0
/-- a diagonal matrix -/
def diagM (d : List ℚ) : Nat → Nat → ℚ := fun i j => if i = j then d.getD i 0 else 0
/-- the diagonal and one off-diagonal entry of a 3×3 result -/
def show3 (P : Nat → Nat → ℚ) : List ℚ := [P 0 0, P 1 1, P 2 2, P 0 1]

/-- molecule A in SCF iteration 5 (`DAMP = 0.05`, not a third iteration): 2 electrons,
    `diag P_prev = (1, ½, ½)`, `diag P_cur = (1.050002, 0.474999, 0.474999)`.  The first entry is
    capped to `1.05`, so `SUM2 = 1.999998`, `SUM3 = SUM0/SUM2 = 1.000001…`: **done** in round 0. -/
def rowA : MixIn ℚ :=
  ⟨diagM [1, 1/2, 1/2], diagM [1050002/1000000, 474999/1000000, 474999/1000000], [1, 1/2, 1/2]⟩
/-- a batch-mate: `diag P_prev = (1, 1, 0)`, `diag P_cur = (1.04, 0.04, 0.92)`; two entries are
    capped, `SUM2 = 2.04`, `SUM3 = 0.98…`: **not done** in round 0, done in round 1. -/
def rowMate : MixIn ℚ := ⟨diagM [1, 1, 0], diagM [104/100, 4/100, 92/100], [1, 1, 0]⟩
/-- the molecule of `C04.adaptive_mix_small_trace_counterexample` (`Σ diag = 1/2000 ≤ 1e-3`,
    `P_prev = P_cur`), padded to three orbitals -/
def rowSmall : MixIn ℚ := ⟨diagM [1/2000, 0, 0], diagM [1/2000, 0, 0], [0, 0, 0]⟩

/-- **`adaptive_mix` is not batch transparent** (`scf_loop.py:411-429`).  Molecule A alone: the
    loop is left in round 0 and its capped diagonal `(1.05, 0.474999, 0.474999)` (trace
    `1.999998`) is returned.  In a batch with `rowMate` — at either position — `torch.all(done)`
    is `False` in round 0 because of the *mate*, the scaling round is applied to A as well and A
    gets `(1.05, 0.474999, 0.474999) · 1000000/999999` (trace `2`): a relative change of `1e-6` of
    the mixed density, decided by who else is in the batch.  The mate's own result is the same
    alone and in the batch (A never holds it back). -/
theorem adaptive_mix_batch_coupling_witness :
    (adaptiveMixBatch (fun x : ℚ => |x|) id sgn 3 5 false [rowA]).map show3 =
      [[21/20, 474999/1000000, 474999/1000000, 0]] ∧
    (adaptiveMixBatch (fun x : ℚ => |x|) id sgn 3 5 false [rowA, rowMate]).map show3 =
      [[50000/47619, 22619/47619, 22619/47619, 0], [52/51, 95/102, 5/102, 0]] ∧
    (adaptiveMixBatch (fun x : ℚ => |x|) id sgn 3 5 false [rowMate, rowA]).map show3 =
      [[52/51, 95/102, 5/102, 0], [50000/47619, 22619/47619, 22619/47619, 0]] ∧
    (adaptiveMixBatch (fun x : ℚ => |x|) id sgn 3 5 false [rowMate]).map show3 =
      [[52/51, 95/102, 5/102, 0]] ∧
    (50000/47619 : ℚ) = 21/20 * (1000000/999999) ∧
    -- the oracle of the model, as computed from the mate: not done in round 0
    (List.range 3).map (othersDone (fun x : ℚ => |x|) id sgn 3 5 false
      [(true, rowA), (true, rowMate)] 0) = [false, true, true] := by
  refine ⟨?_, ?_, ?_, ?_, ?_, ?_⟩ <;> decide +kernel

/-- the same mechanism on the molecule of `C04.adaptive_mix_small_trace_counterexample`: alone its
    diagonal `1/2000` is returned, next to `rowMate` it is **zeroed** (`SUM3 = 0` for a row with
    `SUM2 ≤ 1e-3`); next to a mate that is done in round 0 (`rowA`) it is untouched. -/
theorem adaptive_mix_batch_small_trace_witness :
    (adaptiveMixBatch (fun x : ℚ => |x|) id sgn 3 5 false [rowSmall]).map show3 =
      [[1/2000, 0, 0, 0]] ∧
    (adaptiveMixBatch (fun x : ℚ => |x|) id sgn 3 5 false [rowSmall, rowMate]).map show3 =
      [[0, 0, 0, 0], [52/51, 95/102, 5/102, 0]] ∧
    (adaptiveMixBatch (fun x : ℚ => |x|) id sgn 3 5 false [rowSmall, rowA]).map show3 =
      [[1/2000, 0, 0, 0], [21/20, 474999/1000000, 474999/1000000, 0]] := by
  refine ⟨?_, ?_, ?_⟩ <;> decide +kernel

/-- the one-orbital instance is literally the model term of
    `C04.adaptive_mix_small_trace_counterexample` with its oracle `fun _ => false` now *derived*
    from a concrete batch-mate (`P_cur = 3`, clamped to `2`: not done in rounds 0 and 1; one
    round is enough to zero the small row) -/
theorem adaptive_mix_small_trace_oracle_realised :
    (List.range 3).map (othersDone (fun x : ℚ => |x|) id id 1 1 false
      [(true, ⟨fun _ _ => 1/2000, fun _ _ => 1/2000, [0]⟩), (true, ⟨fun _ _ => 3, fun _ _ => 3, [0]⟩)]
      0) = [false, false, true] ∧
    ((adaptiveMixBatch (fun x : ℚ => |x|) id id 1 1 false
      [⟨fun _ _ => 1/2000, fun _ _ => 1/2000, [0]⟩, ⟨fun _ _ => 3, fun _ _ => 3, [0]⟩]).map
        fun P => P 0 0) = [0, 1] ∧
    ((adaptiveMixBatch (fun x : ℚ => |x|) id id 1 1 false
      [⟨fun _ _ => 1/2000, fun _ _ => 1/2000, [0]⟩]).map fun P => P 0 0) = [1/2000] := by
  refine ⟨?_, ?_, ?_⟩ <;> decide +kernel

/-- `adaptive_mix_row_independence_partial` is not vacuous: in the batch `[rowA, rowSmall]` row A
    is `NotHeldBack` (the mate is done in round 0 too) … -/
example : NotHeldBack (fun x : ℚ => |x|) (occNumber false)
    (renorm0 (fun x : ℚ => |x|) id sgn 3 5 false rowA)
    (othersDone (fun x : ℚ => |x|) id sgn 3 5 false ([rowA, rowSmall].map fun y => (true, y)) 0) := by
  intro r hr _ hd
  have h : ∀ r, r < 20 → renormDone (fun x : ℚ => |x|)
      (renormAt (occNumber false) r (renorm0 (fun x : ℚ => |x|) id sgn 3 5 false rowA)) = true →
      othersDone (fun x : ℚ => |x|) id sgn 3 5 false
        ([rowA, rowSmall].map fun y => (true, y)) 0 r = true := by decide +kernel
  exact h r hr hd

/-- … and in `[rowA, rowMate]` it is held back (the hypothesis fails exactly where the conclusion
    fails) -/
example : ¬ NotHeldBack (fun x : ℚ => |x|) (occNumber false)
    (renorm0 (fun x : ℚ => |x|) id sgn 3 5 false rowA)
    (othersDone (fun x : ℚ => |x|) id sgn 3 5 false ([rowA, rowMate].map fun y => (true, y)) 0) := by
  intro h
  have := h 0 (by decide) (fun r' hr' => absurd hr' (Nat.not_lt_zero _)) (by decide +kernel)
  revert this
  decide +kernel

/-! ### Pulay -/

/-- a one-dimensional toy "molecule": `fock(P) = P`, `make_Pnew(F) = (F + tgt)/2` (fixed point
    `tgt`), the stored Fock history, its DIIS error, and whether its `EVEC` is ill-conditioned -/
structure ToyRow where
  x : ℚ
  xold : ℚ
  f : ℚ
  hist : List ℚ
  de : ℚ
  ill : Bool
  tgt : ℚ
deriving DecidableEq, Repr, Inhabited

/-- toy numerics with the control structure of the Pulay body: with `cFock < 2` a damped step
    (`½P + ½Pnew`, error × ¾), with `cFock ≥ 2` a half secant step through the last two stored
    Fock "matrices" (error × ¼); `cond = 1e8` for an `ill` molecule as soon as two are stored -/
def toyOps : PulayOps ToyRow ℚ where
  push := fun _ _ s => { s with hist := s.hist ++ [s.f], de := |s.f - s.tgt| / 2 }
  cond := fun _ c s => if s.ill && decide (2 ≤ c) then 100000000 else 1
  extrap := fun _ _ s =>
    match s.hist.reverse with
    | h2 :: h1 :: _ =>
      let r1 := (s.tgt - h1) / 2
      let r2 := (s.tgt - h2) / 2
      let sec := if r1 = r2 then h2 else (h1 * r2 - h2 * r1) / (r2 - r1)
      { s with f := h2 + (sec - h2) / 2 }
    | _ => s
  advance := fun damped s =>
    let xnew := (s.f + s.tgt) / 2
    let x' := if damped then s.x / 2 + xnew / 2 else xnew
    { s with x := x', xold := s.x, f := x' }
  clear := fun s => { s with hist := [] }

def toyPulay : Kernels DiisG ToyRow ℚ :=
  pulayKernels toyOps (fun s => (s.x - s.tgt) * (s.x - s.tgt)) (fun s => |s.x - s.xold|)
    (fun s => |s.x - s.xold|) (fun s => some s.de)

/-- molecule A: well-conditioned, fixed point `1` -/
def molA : ToyRow := ⟨0, 0, 0, [], 0, false, 1⟩
/-- its batch-mate: ill-conditioned `EVEC`, fixed point `100` -/
def molIll : ToyRow := ⟨0, 0, 0, [], 0, true, 100⟩

/-- what we look at: global DIIS scalars, and per molecule `(P, notconverged, last write)` -/
def view (st : State DiisG ToyRow ℚ) : DiisG × List (ℚ × Bool × Nat) :=
  (st.g, st.mols.map fun m => (m.s.x, m.active, m.lastIt))

/-- **The Pulay loop is not batch transparent in its path** (`scf_loop.py:1041`
    `reset_diis = torch.any(cond > 1e7)`, `:1131-1144` reset of `counter, cFock, FOCK, EMAT,
    FPPF_packed` for the whole batch).  Molecule A, threshold `1e-3`:
    * alone: `cFock` runs `1, 2, 3, …`, from the second body on every step is a DIIS step;
      iterates `¼, 13/16, 61/64, …`; accepted in body 6 with `P = 16381/16384`;
    * next to `molIll`: after the second body the *mate's* condition number resets the global
      `counter/cFock` (A's own `cond` is `1`), body 2 is a damped step again: iterates
      `¼, 13/16, 55/64, …`; accepted (same test) in body 6 with `P = 16303/16384`, further from the
      fixed point than the threshold;
    * the same at the other batch position. -/
theorem pulay_batch_coupling_witness :
    -- the first two bodies agree …
    (view (runN toyPulay (fun x => |x|) (1/1000) 0 2 (initState toyPulay DiisG.init [molA])) =
      (⟨1, 2⟩, [(13/16, true, 1)])) ∧
    -- … but the global DIIS state has been reset by the mate
    (view (runN toyPulay (fun x => |x|) (1/1000) 0 2
        (initState toyPulay DiisG.init [molA, molIll])) =
      (⟨-1, 0⟩, [(13/16, true, 1), (325/4, true, 1)])) ∧
    -- third body: DIIS step alone, damped step in the batch (A active in both)
    (view (runN toyPulay (fun x => |x|) (1/1000) 0 3 (initState toyPulay DiisG.init [molA])) =
      (⟨2, 3⟩, [(61/64, true, 2)])) ∧
    (view (runN toyPulay (fun x => |x|) (1/1000) 0 3
        (initState toyPulay DiisG.init [molA, molIll])) =
      (⟨0, 1⟩, [(55/64, true, 2), (1375/16, true, 2)])) ∧
    -- what `scf_forward2` returns: both runs report A converged, with different densities
    (view (scfForward2 toyPulay (fun x => |x|) (1/1000) DiisG.init [molA])).2 =
      [(16381/16384, false, 6)] ∧
    (view (scfForward2 toyPulay (fun x => |x|) (1/1000) DiisG.init [molA, molIll])).2 =
      [(16303/16384, false, 6), (1677666925/16777216, false, 12)] ∧
    (view (scfForward2 toyPulay (fun x => |x|) (1/1000) DiisG.init [molIll, molA])).2 =
      [(1677666925/16777216, false, 12), (16303/16384, false, 6)] ∧
    (1/1000 : ℚ) < |16303/16384 - 16381/16384| := by
  refine ⟨?_, ?_, ?_, ?_, ?_, ?_, ?_, ?_⟩ <;> decide +kernel

end Witnesses

/-! ### non-vacuity of the loop-level theorems -/
section NonVacuity

/-- a row-wise toy kernel (that of `C03.toyK`): `s = (P, Pold)`, the step halves `P` -/
def halfK : Kernels Unit (ℚ × ℚ) ℚ where
  step := fun _ g ms => (g, fun i => match ms[i]? with
    | some m => (m.s.1 / 2, m.s.1)
    | none => (0, 0))
  energy := fun s => s.1
  dmErr := fun s => |s.1 - s.2|
  elemErr := fun s => |s.1 - s.2|
  diisErr := fun _ => none

/-- `RowWise` is satisfiable by a kernel that does something -/
theorem halfK_rowWise : RowWise halfK := by
  apply rowWise_of_pointwise halfK (fun _ m => (m.s.1 / 2, m.s.1))
  intro k g ms i m hi _
  show (match ms[i]? with | some m => _ | none => _) = _
  rw [hi]

/-- … and the theorem says something about it: molecule `(1,1)` needs 7 bodies alone and sits in
    a batch that runs 10 bodies; its returned record is the same (here evaluated). -/
example :
    (scfForward0 halfK (fun x => |x|) (1/100) () [(0, 0), (1, 1), (9, 9)]).iters = 10 ∧
    (scfForward0 halfK (fun x => |x|) (1/100) () [(1, 1)]).iters = 7 ∧
    ((scfForward0 halfK (fun x => |x|) (1/100) () [(0, 0), (1, 1), (9, 9)]).mols[1]?).map
        (fun m => ([m.s.1, m.s.2, m.eOld, m.eNew, m.err, m.dm, m.elem], m.active, m.lastIt)) =
      some (([1/128, 1/64, 1/64, 1/128, -1/128, 1/128, 1/128] : List ℚ), false, 6) := by
  refine ⟨?_, ?_, ?_⟩ <;> decide +kernel

example : (scfForward0 halfK (fun x => |x|) (1/100) () [(0, 0), (1, 1), (9, 9)]).mols[1]? =
    (scfForward0 halfK (fun x => |x|) (1/100) () [(1, 1)]).mols[0]? :=
  (row_independence_forward0 halfK halfK_rowWise _ _ () () _ 1 (1, 1) rfl).2.2.1

/-- a kernel that is **not** row-wise: it adds a tenth of the *first* row's density -/
def leakK : Kernels Unit (ℚ × ℚ) ℚ where
  step := fun _ g ms => (g, fun i => match ms[i]?, ms[0]? with
    | some m, some m0 => (m.s.1 / 2 + m0.s.1 / 10, m.s.1)
    | _, _ => (0, 0))
  energy := fun s => s.1
  dmErr := fun s => |s.1 - s.2|
  elemErr := fun s => |s.1 - s.2|
  diisErr := fun _ => none

/-- **The hypothesis `RowWise` cannot be dropped**: for `leakK` the record of a molecule depends
    on its batch-mates already after the first body. -/
theorem row_independence_needs_rowwise :
    ¬ RowWise leakK ∧
    ((runN leakK (fun x => |x|) (1/100) 0 1 (initState leakK () [(5, 5), (1, 1)])).mols[1]?).map
        (fun m => m.s) ≠
      ((runN leakK (fun x => |x|) (1/100) 0 1 (initState leakK () [(1, 1)])).mols[0]?).map
        (fun m => m.s) := by
  constructor
  · intro h
    have := h 0 () () (initState leakK () [(5, 5), (1, 1)]).mols (initState leakK () [(1, 1)]).mols
      1 0 _ rfl rfl rfl
    revert this
    decide +kernel
  · decide +kernel

variable {K : Type} [Field K] [LinearOrder K] [IsStrictOrderedRing K]

/-- a row with `P_prev = P_cur` and admissible diagonal is `done` in round 0 of every iteration -/
theorem renormDone_of_fixed (sqrt sign : K → K) (n it : Nat) (unres : Bool) (x : MixIn K)
    (hx : x.Pprev = x.Pcur)
    (hdiag : ∀ d ∈ diagOf n x.Pcur, 0 ≤ d ∧ d ≤ (occNumber unres : K)) :
    renormDone (fun y : K => |y|) (renorm0 (fun y : K => |y|) sqrt sign n it unres x) = true := by
  unfold renorm0
  rw [hx, mixDiag0_self sign _ _ _ _ (damp_pos it) hdiag]
  exact renormDone_self _

theorem othersDone_of_all_done (abs sqrt sign : K → K) (n it : Nat) (unres : Bool)
    (rows : List (Bool × MixIn K)) (i r : Nat)
    (h : ∀ x ∈ rows, renormDone abs
      (renormAt (occNumber unres) r (renorm0 abs sqrt sign n it unres x.2)) = true) :
    othersDone abs sqrt sign n it unres rows i r = true := by
  unfold othersDone
  rw [List.all_eq_true]
  intro xj hxj
  simp [h xj.1 (List.fst_mem_of_mem_zipIdx hxj)]

/-- closed-shell two-orbital density `diag(2, 0)` at self-consistency (`P_cur = P_prev`) -/
def fixedRow : MixIn ℚ :=
  ⟨fun i j => if i = 0 ∧ j = 0 then 2 else 0, fun i j => if i = 0 ∧ j = 0 then 2 else 0, [2, 0]⟩

/-- toy `scf_forward1` operations: the state is a counter of commits, the density handed to
    `adaptive_mix` is `fixedRow` -/
def fixedOps : AdaptOps Nat ℚ where
  nbas := 2
  unres := false
  input := fun _ => fixedRow
  commit := fun s _ => s + 1

/-- **`row_independence_forward1_partial` is not vacuous**: its hypothesis holds in every
    iteration for every batch of molecules at self-consistency (everybody is `done` in round 0,
    nobody holds anybody back) — the situation of a restart from converged densities. -/
example (ss : List Nat) (i k0 : Nat) (energy dmErr elemErr : Nat → ℚ) (eps : ℚ) : ∀ n m,
    (runN (adaptKernels fixedOps (fun x : ℚ => |x|) id sgn energy dmErr elemErr)
      (fun x : ℚ => |x|) eps k0 n
      (initState (adaptKernels fixedOps (fun x : ℚ => |x|) id sgn energy dmErr elemErr) ()
        ss)).mols[i]? = some m →
    m.active = true →
    NotHeldBack (fun x : ℚ => |x|) (occNumber fixedOps.unres)
      (renorm0 (fun x : ℚ => |x|) id sgn fixedOps.nbas (k0 + n) fixedOps.unres
        (fixedOps.input m.s))
      (othersDone (fun x : ℚ => |x|) id sgn fixedOps.nbas (k0 + n) fixedOps.unres
        (mixRows fixedOps
          (runN (adaptKernels fixedOps (fun x : ℚ => |x|) id sgn energy dmErr elemErr)
            (fun x : ℚ => |x|) eps k0 n
            (initState (adaptKernels fixedOps (fun x : ℚ => |x|) id sgn energy dmErr elemErr) ()
              ss)).mols) i) := by
  intro n m _ _ r _ hbefore _
  have hdone : ∀ it, renormDone (fun y : ℚ => |y|)
      (renorm0 (fun y : ℚ => |y|) id sgn 2 it false fixedRow) = true := by
    intro it
    apply renormDone_of_fixed id sgn 2 it false fixedRow rfl
    intro d hd
    obtain ⟨j, hj, rfl⟩ := mem_diagOf 2 _ d hd
    rw [occNumber_eq]
    have hj' : j = 0 ∨ j = 1 := by omega
    rcases hj' with rfl | rfl <;> simp [fixedRow]
  cases r with
  | zero =>
    apply othersDone_of_all_done
    intro x hx
    simp only [mixRows, List.mem_map] at hx
    obtain ⟨m', -, rfl⟩ := hx
    exact hdone _
  | succ r =>
    have := hbefore 0 (Nat.succ_pos _)
    rw [show renormAt (occNumber fixedOps.unres) 0
      (renorm0 (fun x : ℚ => |x|) id sgn fixedOps.nbas (k0 + n) fixedOps.unres
        (fixedOps.input m.s)) = renorm0 (fun y : ℚ => |y|) id sgn 2 (k0 + n) false fixedRow from rfl,
      hdone] at this
    cases this

/-- the toy Pulay numerics with a well-conditioned `EVEC` for everybody -/
def toyOpsWell : PulayOps ToyRow ℚ := { toyOps with cond := fun _ _ _ => 1 }

/-- **`row_independence_forward2_partial` is not vacuous**: with condition numbers below `1e7`
    no reset ever fires, the hypothesis holds for every batch, position and iteration (and the
    DIIS extrapolation *is* active from the second body on). -/
example (energy dmErr elemErr : ToyRow → ℚ) (diisErr : ToyRow → Option ℚ) (eps : ℚ) (k0 : Nat)
    (g0 : DiisG) (ss : List ToyRow) (i : Nat) : ∀ n m,
    (runN (pulayKernels toyOpsWell energy dmErr elemErr diisErr) (fun x : ℚ => |x|) eps k0 n
      (initState (pulayKernels toyOpsWell energy dmErr elemErr diisErr) g0 ss)).mols[i]? = some m →
    m.active = true →
    resetFlag toyOpsWell
      (runN (pulayKernels toyOpsWell energy dmErr elemErr diisErr) (fun x : ℚ => |x|) eps k0 n
        (initState (pulayKernels toyOpsWell energy dmErr elemErr diisErr) g0 ss)).g
      (runN (pulayKernels toyOpsWell energy dmErr elemErr diisErr) (fun x : ℚ => |x|) eps k0 n
        (initState (pulayKernels toyOpsWell energy dmErr elemErr diisErr) g0 ss)).mols =
    resetFlag toyOpsWell
      (runN (pulayKernels toyOpsWell energy dmErr elemErr diisErr) (fun x : ℚ => |x|) eps k0 n
        (initState (pulayKernels toyOpsWell energy dmErr elemErr diisErr) g0 ss)).g [m] := by
  intro n m _ _
  have h : ∀ g (ms : List (Mol ToyRow ℚ)), resetFlag toyOpsWell g ms = false := by
    intro g ms
    have h1 : ¬ ((1.0e7 : ℚ) < 1) := by norm_num
    simp [resetFlag, toyOpsWell, h1]
  rw [h, h]

/-- and its conclusion, evaluated: with well-conditioned mates molecule A returns what it returns
    alone -/
example :
    ((scfForward2 (pulayKernels toyOpsWell (fun s => (s.x - s.tgt) * (s.x - s.tgt))
        (fun s => |s.x - s.xold|) (fun s => |s.x - s.xold|) (fun s => some s.de))
        (fun x => |x|) (1/1000) DiisG.init [molIll, molA]).mols.map
          fun m => (m.s.x, m.active, m.lastIt)) =
      [(26214325/262144, false, 9), (16381/16384, false, 6)] := by
  decide +kernel

/-- `pulay_same_fixed_points` on the witness: both returned states of molecule A pass the same
    four-part test (`flag_truthful`), although one was reached through resets -/
example :
    Passed (1/1000 : ℚ) ((16381/16384 - 1) * (16381/16384 - 1) - (4093/4096 - 1) * (4093/4096 - 1))
      |16381/16384 - 4093/4096| |16381/16384 - 4093/4096| (some (|4093/4096 - 1| / 2)) := by
  refine ⟨?_, ?_, ?_, ?_⟩
  · norm_num [abs_le]
  · norm_num [abs_le]
  · norm_num [abs_le]
  · intro d hd
    cases hd
    norm_num [abs_le]

/-- `sp2_batch_rowwise`, evaluated: a non-degenerate spectrum (rule met after 6 bodies) next to a
    degenerate HOMO/LUMO pair that runs into the cap of 12 bodies: the first row stops being
    updated after its own 6 bodies, although the batch loop goes on -/
example : (sp2BatchLoop (fun x : ℚ => |x|) (SP2Spec.clampEps (1/1000)) 12
      ([((1:ℚ), [1, 7/10, 0]), (1, [1/2, 1/2])].map fun b =>
        ⟨SP2Spec.init (fun x : ℚ => |x|) b.1 b.2, b.1, true⟩)).map (fun r => (r.st.k, r.active)) =
      [(6, false), (12, true)] ∧
    (SP2Spec.sp2Spectrum (fun x : ℚ => |x|) (1/1000) 1 12 [1, 7/10, 0]).1.k = 6 := by
  constructor <;> decide +kernel

end NonVacuity

end C05b
