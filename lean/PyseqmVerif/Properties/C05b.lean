import PyseqmVerif.Model.ScfControl
import PyseqmVerif.Proofs.ScfLemmas
import PyseqmVerif.Proofs.RowIndep
/-!
# C05b — batch transparency of the SCF control flow

> The results for a molecule are the same whether it is computed alone or inside any batch,
> regardless of the other batch members, its position in the batch …; solvers (incl. SP2 and Pulay
> whose control flow is batch-coupled).

`Properties/C05` proves the index machinery (parser, masks, packing).  This file is about
`seqm/seqm_functions/scf_loop.py`: `get_error`, the loops `scf_forward0/1/2`, `adaptive_mix`.
It is stated over the executable model `Model/ScfControl.lean`; where that model only has the
one-molecule function (`adaptiveMix` with the oracle `othersDone`) or only the abstract kernel
(`Kernels.step` for the Pulay loop) the batch-level composition is *defined here*
(`adaptiveMixBatch`, `adaptKernels`, `pulayKernels`) without touching the model.

Results.

* `get_error_rowwise`: `get_error` is a row-wise map (any scalar type).
* `row_independence_forward0` (any scalar type, NaN included; any kernels that act row-wise —
  hypothesis `RowWise`): the whole per-iteration record of a molecule in a batch is the record of
  the molecule run alone; `batch_is_concat_of_alone_forward0`,
  `batch_permutation_equivariance_forward0`.  The hypothesis cannot be dropped
  (`row_independence_needs_rowwise`).
* **`adaptive_mix` is NOT batch transparent** (`scf_loop.py:411-429`): the renormalisation loop
  leaves on `torch.all(done)` over the rows of the call, and a scaling round is applied to *every*
  row, done or not.  `adaptive_mix_batch_coupling_witness`: a row with
  `0 < |SUM0/SUM2 − 1| ≤ 1e-5` is returned as is when alone and rescaled by `SUM0/SUM2` when a
  batch-mate needs a round; `adaptive_mix_batch_small_trace_witness`: a row with `Σ diag ≤ 1e-3` is
  zeroed.  `row_independence_forward1_partial` under the exact hypothesis `NotHeldBack`.
* **The Pulay loop is NOT batch transparent in its path** (`scf_loop.py:1041`,
  `reset_diis = torch.any(cond > 1e7)`, and `1131-1144`: `counter`, `cFock`, `FOCK`, `EMAT`,
  `FPPF_packed` are reset for the whole batch): `pulay_batch_coupling_witness`;
  `row_independence_forward2_partial` under "no reset is caused by a batch-mate";
  `pulay_same_fixed_points`: the acceptance test is row-wise all the same.
-/
namespace C05b
open ScfControl
set_option linter.unusedSectionVars false

/-! ## 4. `get_error` is a row-wise map -/
section GetError
variable {α : Type} [Sub α] [Mul α] [OfScientific α] [LT α] [DecidableLT α]

/-- **`get_error` is row-wise** (any scalar type).  The batch function is the map of the
    one-molecule function; hence row `i` of the result depends on row `i` of the arguments only;
    inserting / removing / replacing other molecules does not change a molecule's output; a
    molecule alone gets the same output; the function commutes with concatenation, with every
    re-indexing `π` of the batch, and maps permuted batches to permuted results. -/
theorem get_error_rowwise (abs : α → α) (eps : α) :
    (∀ ms : List (MolIn α), getError abs eps ms = ms.map (getErrorMol abs eps)) ∧
    (∀ (ms : List (MolIn α)) (i : Nat),
        (getError abs eps ms)[i]? = (ms[i]?).map (getErrorMol abs eps)) ∧
    (∀ m : MolIn α, getError abs eps [m] = [getErrorMol abs eps m]) ∧
    (∀ (pre post : List (MolIn α)) (m : MolIn α),
        (getError abs eps (pre ++ m :: post))[pre.length]? = (getError abs eps [m])[0]?) ∧
    (∀ (ms ms' : List (MolIn α)) (i j : Nat), ms[i]? = ms'[j]? →
        (getError abs eps ms)[i]? = (getError abs eps ms')[j]?) ∧
    (∀ ms ms' : List (MolIn α),
        getError abs eps (ms ++ ms') = getError abs eps ms ++ getError abs eps ms') ∧
    (∀ (ms ms' : List (MolIn α)) (π : Nat → Nat), (∀ j, ms'[j]? = ms[π j]?) →
        ∀ j, (getError abs eps ms')[j]? = (getError abs eps ms)[π j]?) ∧
    (∀ ms ms' : List (MolIn α), ms.Perm ms' →
        (getError abs eps ms).Perm (getError abs eps ms')) := by
  have hget : ∀ (ms : List (MolIn α)) (i : Nat),
      (getError abs eps ms)[i]? = (ms[i]?).map (getErrorMol abs eps) := by
    intro ms i; simp [getError]
  refine ⟨fun _ => rfl, hget, fun _ => rfl, ?_, ?_, ?_, ?_, ?_⟩
  · intro pre post m
    rw [hget, hget]
    simp
  · intro ms ms' i j h
    rw [hget, hget, h]
  · intro ms ms'; simp [getError]
  · intro ms ms' π h j
    rw [hget, hget, h]
  · intro ms ms' h
    exact h.map _

end GetError

/-! ## 1. row-wise kernels ⇒ the molecule in a batch *is* the molecule alone -/
section Transparency
variable {α : Type} [Sub α] [Mul α] [OfScientific α] [LT α] [DecidableLT α] {γ σ : Type}

/-- **The kernel acts row-wise**: the row it proposes for an (active) molecule is unchanged when
    the *other* rows of the batch are replaced, removed or added, when the molecule is moved to
    another position, and it does not read batch-global state.  (The loop index `k` may be read:
    it is the same number alone and in a batch.)  This is the contract of `make_Pnew` (`eigh` /
    SP2 with its per-row mask), `fock`, `elec_energy` and of the constant mixing of
    `scf_forward0`; it is a *hypothesis* about those kernels. -/
def RowWise (Kn : Kernels γ σ α) : Prop :=
  ∀ (k : Nat) (g g' : γ) (ms ms' : List (Mol σ α)) (i j : Nat) (m : Mol σ α),
    ms[i]? = some m → ms'[j]? = some m → m.active = true →
      (Kn.step k g ms).2 i = (Kn.step k g' ms').2 j

/-- a kernel given by a per-molecule function is row-wise … -/
theorem rowWise_of_pointwise (Kn : Kernels γ σ α) (f : Nat → Mol σ α → σ)
    (h : ∀ k g ms i m, ms[i]? = some m → m.active = true → (Kn.step k g ms).2 i = f k m) :
    RowWise Kn := by
  intro k g g' ms ms' i j m hi hj ha
  rw [h k g ms i m hi ha, h k g' ms' j m hj ha]

/-- … and every row-wise kernel is of that form: `f k m` is what it proposes for `m` alone. -/
theorem pointwise_of_rowWise (Kn : Kernels γ σ α) (h : RowWise Kn) (g0 : γ) :
    ∀ k g ms i m, ms[i]? = some m → m.active = true →
      (Kn.step k g ms).2 i = (Kn.step k g0 [m]).2 0 :=
  fun k g ms i m hi ha => h k g g0 ms [m] i 0 m hi rfl ha

/-- **Two batches.**  Row-wise kernels; molecule `s` sits at position `i` of the batch `ss` and
    at position `j` of the batch `ss'` (any other members, any sizes, any initial global states).
    Then after every number `n` of loop bodies its record — state rows `P, Pold, F, …`, energies,
    stored errors, flag, index of the last write — is the same in the two batches; and so is the
    record returned by the loop with its `Nnot == 0` break, for every cap `fuel` and start index. -/
theorem row_independence_two_batches (Kn : Kernels γ σ α) (hK : RowWise Kn) (abs : α → α)
    (eps : α) [OfNat α 0] [OfNat α 1] (g g' : γ) (ss ss' : List σ) (i j : Nat) (s : σ)
    (hi : ss[i]? = some s) (hj : ss'[j]? = some s) :
    (∀ k0 n, (runN Kn abs eps k0 n (initState Kn g ss)).mols[i]? =
        (runN Kn abs eps k0 n (initState Kn g' ss')).mols[j]?) ∧
    (∀ fuel k0, (loop Kn abs eps fuel k0 (initState Kn g ss)).mols[i]? =
        (loop Kn abs eps fuel k0 (initState Kn g' ss')).mols[j]?) := by
  have hrun : ∀ k0 n, (runN Kn abs eps k0 n (initState Kn g ss)).mols[i]? =
      (runN Kn abs eps k0 n (initState Kn g' ss')).mols[j]? := by
    intro k0 n
    refine (traj_eq_of_sim Kn abs eps k0 (fun _ _ => True) _ _ i j
      (initState_frozen Kn abs eps g ss) ?_ (fun _ _ _ => trivial) ?_ n).1
    · rw [initState_getElem?, initState_getElem?, hi, hj]
    · intro n m hB hA ha _
      exact ⟨hK _ _ _ _ _ i j m hB hA ha, trivial⟩
  refine ⟨hrun, ?_⟩
  intro fuel k0
  rw [loop_mols_eq_runN Kn abs eps fuel k0 _ (initState_frozen Kn abs eps g ss),
    loop_mols_eq_runN Kn abs eps fuel k0 _ (initState_frozen Kn abs eps g' ss'), hrun]

/-- **Batch transparency of the constant-mixing loop** (`scf_forward0`), any scalar type.
    If the kernels act row-wise, then for every batch `ss`, every position `i`, every number of
    bodies `n`, every cap `fuel` and start index `k0`: the record of molecule `i` (density rows,
    `Eelec`, `Eelec_new`, `err`, `dm_err`, `dm_element_err`, `notconverged`, last write) equals the
    record of that molecule run ALONE (batch of one).  In particular the returned record and the
    returned flag of `scf_forward0` are equal.  (Only the ghost counter `State.iters`, the number
    of bodies executed by the *batch*, differs: the batch runs until its slowest member.) -/
theorem row_independence_forward0 (Kn : Kernels γ σ α) (hK : RowWise Kn) (abs : α → α) (eps : α)
    [OfNat α 0] [OfNat α 1] (g g' : γ) (ss : List σ) (i : Nat) (s : σ) (hi : ss[i]? = some s) :
    (∀ k0 n, (runN Kn abs eps k0 n (initState Kn g ss)).mols[i]? =
        (runN Kn abs eps k0 n (initState Kn g' [s])).mols[0]?) ∧
    (∀ fuel k0, (loop Kn abs eps fuel k0 (initState Kn g ss)).mols[i]? =
        (loop Kn abs eps fuel k0 (initState Kn g' [s])).mols[0]?) ∧
    (scfForward0 Kn abs eps g ss).mols[i]? = (scfForward0 Kn abs eps g' [s]).mols[0]? ∧
    (finalFlags (scfForward0 Kn abs eps g ss))[i]? =
      (finalFlags (scfForward0 Kn abs eps g' [s]))[0]? := by
  obtain ⟨h1, h2⟩ := row_independence_two_batches Kn hK abs eps g g' ss [s] i 0 s hi rfl
  refine ⟨h1, h2, h2 _ _, ?_⟩
  unfold finalFlags
  rw [List.getElem?_map, List.getElem?_map]
  exact congrArg _ (h2 _ _)

/-- the same for the loop bounds of `scf_forward1` and of the Pulay loop, **if** their kernels
    were row-wise — which they are not, see sections 2 and 3 -/
theorem row_independence_forward12_of_rowWise (Kn : Kernels γ σ α) (hK : RowWise Kn)
    (abs : α → α) (eps : α) [OfNat α 0] [OfNat α 1] (g g' : γ) (ss : List σ) (i : Nat) (s : σ)
    (hi : ss[i]? = some s) :
    (scfForward1 Kn abs eps g ss).mols[i]? = (scfForward1 Kn abs eps g' [s]).mols[0]? ∧
    (scfForward2 Kn abs eps g ss).mols[i]? = (scfForward2 Kn abs eps g' [s]).mols[0]? := by
  obtain ⟨-, h2⟩ := row_independence_two_batches Kn hK abs eps g g' ss [s] i 0 s hi rfl
  exact ⟨h2 _ _, h2 _ _⟩

/-! ## 5. concatenation and permutation -/

/-- **The batch result is the concatenation of the results of the molecules run alone.** -/
theorem batch_is_concat_of_alone_forward0 (Kn : Kernels γ σ α) (hK : RowWise Kn) (abs : α → α)
    (eps : α) [OfNat α 0] [OfNat α 1] (g g' : γ) (ss : List σ) :
    (scfForward0 Kn abs eps g ss).mols =
      ss.flatMap (fun s => (scfForward0 Kn abs eps g' [s]).mols) := by
  apply List.ext_getElem?
  intro i
  have hlen : ∀ s, ((fun s => (scfForward0 Kn abs eps g' [s]).mols) s).length = 1 := by
    intro s
    show (loop Kn abs eps _ _ _).mols.length = 1
    rw [loop_length]; simp [initState]
  rw [flatMap_getElem?_of_length_one _ hlen]
  cases hi : ss[i]? with
  | none =>
    have : (scfForward0 Kn abs eps g ss).mols.length ≤ i := by
      show (loop Kn abs eps _ _ _).mols.length ≤ i
      rw [loop_length]
      simpa [initState] using hi
    rw [List.getElem?_eq_none this]; rfl
  | some s =>
    exact (row_independence_forward0 Kn hK abs eps g g' ss i s hi).2.2.1

/-- **Permutation equivariance.**  Re-ordering the molecules of a batch re-orders the returned
    records (and flags) in the same way and changes nothing else: explicitly for any re-indexing
    `π` (`ss'[j] = ss[π j]`), and as `List.Perm`. -/
theorem batch_permutation_equivariance_forward0 (Kn : Kernels γ σ α) (hK : RowWise Kn)
    (abs : α → α) (eps : α) [OfNat α 0] [OfNat α 1] (g g' : γ) (ss ss' : List σ) :
    (∀ π : Nat → Nat, (∀ j, ss'[j]? = ss[π j]?) →
      ∀ j, (scfForward0 Kn abs eps g' ss').mols[j]? = (scfForward0 Kn abs eps g ss).mols[π j]?) ∧
    (ss.Perm ss' →
      (scfForward0 Kn abs eps g ss).mols.Perm (scfForward0 Kn abs eps g' ss').mols ∧
      (finalFlags (scfForward0 Kn abs eps g ss)).Perm
        (finalFlags (scfForward0 Kn abs eps g' ss'))) := by
  constructor
  · intro π hπ j
    cases hj : ss'[j]? with
    | none =>
      have h1 : (scfForward0 Kn abs eps g' ss').mols.length ≤ j := by
        show (loop Kn abs eps _ _ _).mols.length ≤ j
        rw [loop_length]; simpa [initState] using hj
      have h2 : (scfForward0 Kn abs eps g ss).mols.length ≤ π j := by
        show (loop Kn abs eps _ _ _).mols.length ≤ π j
        rw [loop_length]
        have := hπ j
        rw [hj] at this
        simpa [initState] using this.symm
      rw [List.getElem?_eq_none h1, List.getElem?_eq_none h2]
    | some s =>
      have hi : ss[π j]? = some s := by rw [← hπ j, hj]
      exact (row_independence_two_batches Kn hK abs eps g' g ss' ss j (π j) s hj hi).2 _ _
  · intro hp
    have h : (scfForward0 Kn abs eps g ss).mols.Perm (scfForward0 Kn abs eps g' ss').mols := by
      rw [batch_is_concat_of_alone_forward0 Kn hK abs eps g g ss,
        batch_is_concat_of_alone_forward0 Kn hK abs eps g' g ss']
      exact hp.flatMap_right _
    exact ⟨h, h.map _⟩

end Transparency

/-! ## 2. `adaptive_mix` / `scf_forward1`: the renormalisation loop is batch-global -/
section AdaptiveBatch
variable {α : Type} [Add α] [Sub α] [Mul α] [Div α] [OfScientific α] [OfNat α 0] [OfNat α 1]
  [LT α] [DecidableLT α] [LE α] [DecidableLE α]

/-- the rows `[m]` of the tensor arguments of one `adaptive_mix` call:
    `P_prev[m]`, `P_cur[m]`, `Pold2_diag[m]` -/
structure MixIn (α : Type) where
  Pprev : Nat → Nat → α
  Pcur : Nat → Nat → α
  old2 : List α

/-- `(SUM0, di = diag_new)` of a row on entry of `for _ in range(20)` (`scf_loop.py:408-409`);
    this is literally the argument `adaptiveMix` passes to `renormLoop` -/
def renorm0 (abs sqrt sign : α → α) (n it : Nat) (unres : Bool) (x : MixIn α) : Renorm α :=
  { sum0 := lsum (diagOf n x.Pcur)
    di := mixDiag0 abs sign (damp it) (occNumber unres)
      (mixFac sqrt it (diagOf n x.Pcur) (diagOf n x.Pprev) x.old2) (diagOf n x.Pcur)
      (diagOf n x.Pprev) }

/-- `(SUM0, di)` of a row at the top of round `r`, as long as the loop has not been left: lines
    423-429 are executed for **every** row of the call in every round, done or not -/
def renormAt (occ : α) : Nat → Renorm α → Renorm α
  | 0, r0 => r0
  | r+1, r0 => renormAt occ r (renormRound occ r0)

/-- the oracle of the model made concrete: "`done[j]` in round `r` for every **other** row `j` of
    the call".  A row is a pair `(in the call?, data)`: `scf_forward1` calls `adaptive_mix` on
    `P[nz]`, the not yet converged molecules only (`scf_loop.py:532-554`). -/
def othersDone (abs sqrt sign : α → α) (n it : Nat) (unres : Bool) (rows : List (Bool × MixIn α))
    (i : Nat) : Nat → Bool :=
  fun r => rows.zipIdx.all fun xj =>
    xj.2 == i || !xj.1.1 ||
      renormDone abs (renormAt (occNumber unres) r (renorm0 abs sqrt sign n it unres xj.1.2))

/-- **`adaptive_mix` on a batch** (`scf_loop.py:375-434`, first result `Pmix`): every row is the
    one-molecule model `adaptiveMix` with its oracle instantiated by the other rows of the call. -/
def adaptiveMixBatch (abs sqrt sign : α → α) (n it : Nat) (unres : Bool) (xs : List (MixIn α)) :
    List (Nat → Nat → α) :=
  xs.mapIdx fun i x =>
    adaptiveMix abs sqrt sign (othersDone abs sqrt sign n it unres (xs.map fun y => (true, y)) i)
      n it unres x.Pprev x.Pcur x.old2

/-- `adaptiveMix` reads its oracle only through the renormalisation loop -/
theorem adaptiveMix_eq_of_renormLoop (abs sqrt sign : α → α) (od od' : Nat → Bool) (n it : Nat)
    (unres : Bool) (x : MixIn α)
    (h : renormLoop abs (occNumber unres) od 20 0 (renorm0 abs sqrt sign n it unres x) =
      renormLoop abs (occNumber unres) od' 20 0 (renorm0 abs sqrt sign n it unres x)) :
    adaptiveMix abs sqrt sign od n it unres x.Pprev x.Pcur x.old2 =
      adaptiveMix abs sqrt sign od' n it unres x.Pprev x.Pcur x.old2 := by
  unfold adaptiveMix
  unfold renorm0 at h
  simp only [h]

/-- **The exact condition under which a row is not affected by the others.**  In the first round
    `r` in which the row itself is `done` (the round in which `adaptive_mix` would leave the loop
    if the row were alone) every other row of the call is `done` too.  Otherwise `torch.all(done)`
    is `False` and lines 423-429 rescale this row as well. -/
def NotHeldBack (abs : α → α) (occ : α) (r0 : Renorm α) (od : Nat → Bool) : Prop :=
  ∀ r, r < 20 → (∀ r', r' < r → renormDone abs (renormAt occ r' r0) = false) →
    renormDone abs (renormAt occ r r0) = true → od r = true

theorem renormLoop_eq_alone (abs : α → α) (occ : α) (od : Nat → Bool) :
    ∀ (fuel rd : Nat) (r0 : Renorm α),
      (∀ r, r < fuel → (∀ r', r' < r → renormDone abs (renormAt occ r' r0) = false) →
        renormDone abs (renormAt occ r r0) = true → od (rd + r) = true) →
      renormLoop abs occ od fuel rd r0 = renormLoop abs occ (fun _ => true) fuel rd r0 := by
  intro fuel
  induction fuel with
  | zero => intro rd r0 _; rfl
  | succ fuel ih =>
    intro rd r0 h
    cases hd : renormDone abs r0 with
    | true =>
      have : od rd = true := h 0 (Nat.succ_pos _) (fun r' hr' => absurd hr' (Nat.not_lt_zero _)) hd
      simp [renormLoop, hd, this]
    | false =>
      have hstep := ih (rd + 1) (renormRound occ r0) (by
        intro r hr hbefore hdone
        have := h (r + 1) (Nat.succ_lt_succ hr) (by
          intro r' hr'
          cases r' with
          | zero => exact hd
          | succ r' => exact hbefore r' (Nat.lt_of_succ_lt_succ hr')) hdone
        rw [← this]; congr 1; omega)
      simp [renormLoop, hd, hstep]

/-- a row that is not held back gets from the batch call what it gets alone -/
theorem adaptiveMix_eq_alone (abs sqrt sign : α → α) (od : Nat → Bool) (n it : Nat)
    (unres : Bool) (x : MixIn α)
    (h : NotHeldBack abs (occNumber unres) (renorm0 abs sqrt sign n it unres x) od) :
    adaptiveMix abs sqrt sign od n it unres x.Pprev x.Pcur x.old2 =
      adaptiveMix abs sqrt sign (fun _ => true) n it unres x.Pprev x.Pcur x.old2 := by
  apply adaptiveMix_eq_of_renormLoop
  apply renormLoop_eq_alone
  intro r hr hb hd
  rw [Nat.zero_add]
  exact h r hr hb hd

/-- a call on one row has nobody to wait for -/
theorem othersDone_singleton (abs sqrt sign : α → α) (n it : Nat) (unres : Bool)
    (x : Bool × MixIn α) : othersDone abs sqrt sign n it unres [x] 0 = fun _ => true := by
  funext r
  simp [othersDone, List.zipIdx]

theorem adaptiveMixBatch_singleton (abs sqrt sign : α → α) (n it : Nat) (unres : Bool)
    (x : MixIn α) :
    adaptiveMixBatch abs sqrt sign n it unres [x] =
      [adaptiveMix abs sqrt sign (fun _ => true) n it unres x.Pprev x.Pcur x.old2] := by
  simp [adaptiveMixBatch, othersDone_singleton]

/-- **One call of `adaptive_mix`, partial transparency.**  Row `i` of the batch call equals the
    result of the call on that row alone, *provided* the row is `NotHeldBack` by the others. -/
theorem adaptive_mix_row_independence_partial (abs sqrt sign : α → α) (n it : Nat) (unres : Bool)
    (xs : List (MixIn α)) (i : Nat) (x : MixIn α) (hi : xs[i]? = some x)
    (h : NotHeldBack abs (occNumber unres) (renorm0 abs sqrt sign n it unres x)
      (othersDone abs sqrt sign n it unres (xs.map fun y => (true, y)) i)) :
    (adaptiveMixBatch abs sqrt sign n it unres xs)[i]? =
      (adaptiveMixBatch abs sqrt sign n it unres [x])[0]? := by
  rw [adaptiveMixBatch_singleton]
  simp only [adaptiveMixBatch, List.getElem?_mapIdx, hi, Option.map_some, List.getElem?_cons_zero]
  rw [adaptiveMix_eq_alone abs sqrt sign _ n it unres x h]

/-! ### the loop `scf_forward1` over the batch-level `adaptive_mix` -/

variable {σ : Type}

/-- what `scf_forward1` does around `adaptive_mix`, per molecule -/
structure AdaptOps (σ α : Type) where
  nbas : Nat
  unres : Bool
  /-- `(P[m], Pnew[m] = make_Pnew(F[m]), Pold2_diag[m])` (`scf_loop.py:521-534`) -/
  input : σ → MixIn α
  /-- `Pold[m] = P[m]; P[m] = Pmix; Pold2_diag[m] = diag_prev; F[m] = fock(P)[m]` (`562-593`) -/
  commit : σ → (Nat → Nat → α) → σ

/-- the rows handed to `adaptive_mix` in iteration `k`, with the mask `notconverged` -/
def mixRows (ops : AdaptOps σ α) (ms : List (Mol σ α)) : List (Bool × MixIn α) :=
  ms.map fun m => (m.active, ops.input m.s)

/-- the kernels of `scf_forward1`: `adaptive_mix(k, P[nz], Pnew[nz], Pold2_diag[nz])` written back
    to the rows `nz`; no batch-global state besides the loop index -/
def adaptKernels [Inhabited σ] (ops : AdaptOps σ α) (abs sqrt sign : α → α)
    (energy dmErr elemErr : σ → α) : Kernels Unit σ α where
  step := fun k _ ms => ((), fun i =>
    match ms[i]? with
    | some m => ops.commit m.s
        (adaptiveMix abs sqrt sign
          (othersDone abs sqrt sign ops.nbas k ops.unres (mixRows ops ms) i)
          ops.nbas k ops.unres (ops.input m.s).Pprev (ops.input m.s).Pcur (ops.input m.s).old2)
    | none => default)
  energy := energy
  dmErr := dmErr
  elemErr := elemErr
  diisErr := fun _ => none

/-- **Batch transparency of the adaptive loop, partial.**  FULL STATEMENT (false, see
    `adaptive_mix_batch_coupling_witness`): as `row_independence_forward0`, without `hquiet`.
    PROVED: the record of molecule `i` in the batch equals its record alone after every number of
    bodies, for every cap and start index, **provided** that in every iteration in which the
    molecule is still active it is `NotHeldBack` in the renormalisation loop of `adaptive_mix` by
    the other active molecules of the batch (hypothesis about the *batch* run only). -/
theorem row_independence_forward1_partial [Inhabited σ] (ops : AdaptOps σ α)
    (abs sqrt sign : α → α) (energy dmErr elemErr : σ → α) (eps : α) (k0 : Nat) (ss : List σ)
    (i : Nat) (s : σ) (hi : ss[i]? = some s)
    (hquiet : ∀ n m,
      (runN (adaptKernels ops abs sqrt sign energy dmErr elemErr) abs eps k0 n
        (initState (adaptKernels ops abs sqrt sign energy dmErr elemErr) () ss)).mols[i]? = some m →
      m.active = true →
      NotHeldBack abs (occNumber ops.unres)
        (renorm0 abs sqrt sign ops.nbas (k0 + n) ops.unres (ops.input m.s))
        (othersDone abs sqrt sign ops.nbas (k0 + n) ops.unres
          (mixRows ops (runN (adaptKernels ops abs sqrt sign energy dmErr elemErr) abs eps k0 n
            (initState (adaptKernels ops abs sqrt sign energy dmErr elemErr) () ss)).mols) i)) :
    (∀ n, (runN (adaptKernels ops abs sqrt sign energy dmErr elemErr) abs eps k0 n
        (initState (adaptKernels ops abs sqrt sign energy dmErr elemErr) () ss)).mols[i]? =
      (runN (adaptKernels ops abs sqrt sign energy dmErr elemErr) abs eps k0 n
        (initState (adaptKernels ops abs sqrt sign energy dmErr elemErr) () [s])).mols[0]?) ∧
    (∀ fuel, (loop (adaptKernels ops abs sqrt sign energy dmErr elemErr) abs eps fuel k0
        (initState (adaptKernels ops abs sqrt sign energy dmErr elemErr) () ss)).mols[i]? =
      (loop (adaptKernels ops abs sqrt sign energy dmErr elemErr) abs eps fuel k0
        (initState (adaptKernels ops abs sqrt sign energy dmErr elemErr) () [s])).mols[0]?) := by
  set Kn := adaptKernels ops abs sqrt sign energy dmErr elemErr with hKn
  have hrun : ∀ n, (runN Kn abs eps k0 n (initState Kn () ss)).mols[i]? =
      (runN Kn abs eps k0 n (initState Kn () [s])).mols[0]? := by
    intro n
    refine (traj_eq_of_sim Kn abs eps k0 (fun _ _ => True) _ _ i 0
      (initState_frozen Kn abs eps () ss) ?_ (fun _ _ _ => trivial) ?_ n).1
    · rw [initState_getElem?, initState_getElem?, hi]; rfl
    · intro n m hB hA ha _
      refine ⟨?_, trivial⟩
      -- the alone run is a batch of one
      have hlen : (runN Kn abs eps k0 n (initState Kn () [s])).mols.length = 1 := by
        rw [runN_length]; simp [initState]
      have hA' : (runN Kn abs eps k0 n (initState Kn () [s])).mols = [m] := by
        match hms : (runN Kn abs eps k0 n (initState Kn () [s])).mols, hlen with
        | [m'], _ =>
          rw [hms] at hA
          simp only [List.getElem?_cons_zero, Option.some.injEq] at hA
          rw [hA]
      show (match (runN Kn abs eps k0 n (initState Kn () ss)).mols[i]? with
          | some m => _ | none => _) =
        (match (runN Kn abs eps k0 n (initState Kn () [s])).mols[0]? with
          | some m => _ | none => _)
      rw [hB, hA]
      simp only
      rw [adaptiveMix_eq_alone abs sqrt sign _ _ _ _ _ (hquiet n m hB ha), hA']
      simp only [mixRows, List.map_cons, List.map_nil, othersDone_singleton]
  refine ⟨hrun, ?_⟩
  intro fuel
  rw [loop_mols_eq_runN Kn abs eps fuel k0 _ (initState_frozen Kn abs eps () ss),
    loop_mols_eq_runN Kn abs eps fuel k0 _ (initState_frozen Kn abs eps () [s]), hrun]

end AdaptiveBatch

/-! ## 3. the Pulay loop of `scf_forward2`: batch-global DIIS bookkeeping -/
section Pulay
variable {α : Type} [Sub α] [Mul α] [OfScientific α] [LT α] [DecidableLT α] {σ : Type}

/-- the batch-global Python scalars `counter` (−1 = nothing stored) and `cFock`
    (`scf_loop.py:972-973`); `reset_diis` is `False` at every loop head (`:978`, `:1132`) -/
structure DiisG where
  counter : Int
  cFock : Nat
deriving DecidableEq, Repr

/-- `counter = -1; cFock = 0` -/
def DiisG.init : DiisG := ⟨-1, 0⟩

/-- the per-molecule numerics of one Pulay body; `slot = counter`, `c = cFock` after `:1008-1010` -/
structure PulayOps (σ α : Type) where
  /-- `:1011-1027`: `FOCK[m,slot] = F[m]`, packed commutator, `diis_error[m]`, row of `EMAT[m]` -/
  push : Nat → Nat → σ → σ
  /-- `:1031-1040`: `cond[m] = max|L| / min|L|` of `EVEC[m]` -/
  cond : Nat → Nat → σ → α
  /-- `:1042-1049`: `F[m] = Σ_k coeff[m,k] FOCK[m,k]` -/
  extrap : Nat → Nat → σ → σ
  /-- `:1051-1095`: `Pnew[m] = make_Pnew(F[m])`, `Pold[m] = P[m]`,
      `P[m] = ½P[m] + ½Pnew[m]` if `cFock < 2` (the flag) else `Pnew[m]`, `F[m] = fock(P)[m]` -/
  advance : Bool → σ → σ
  /-- `:1137-1144`: `FPPF_packed.zero_()`, `EMAT` re-initialised, `FOCK.zero_()` (rows `[m]`).
      Leaves `P, Pold, F, diis_error` alone, so applying it before or after `get_error` is the same. -/
  clear : σ → σ

/-- `cFock = cFock + 1 if cFock < nFock else nFock` with `nFock = 10` -/
def nextCFock (g : DiisG) : Nat := if g.cFock < 10 then g.cFock + 1 else 10
/-- `counter = (counter + 1) % nFock` -/
def nextSlot (g : DiisG) : Nat := ((g.counter + 1) % 10).toNat

/-- `reset_diis = torch.any(cond > 1e7)` (`:1041`): over **all rows of `EMAT[notconverged]`**, and
    only evaluated when `cFock >= 2` -/
def resetFlag (ops : PulayOps σ α) (g : DiisG) (ms : List (Mol σ α)) : Bool :=
  decide (2 ≤ nextCFock g) &&
    ms.any fun m => m.active &&
      decide (1.0e7 < ops.cond (nextSlot g) (nextCFock g) (ops.push (nextSlot g) (nextCFock g) m.s))

/-- what one body proposes for a molecule, given the batch-global scalars and the global flag -/
def pulayRow (ops : PulayOps σ α) (g : DiisG) (reset : Bool) (s : σ) : σ :=
  let s1 := ops.push (nextSlot g) (nextCFock g) s
  let s2 := if 2 ≤ nextCFock g then ops.extrap (nextSlot g) (nextCFock g) s1 else s1
  let s3 := ops.advance (decide (nextCFock g < 2)) s2
  -- `if reset_diis:` … `counter = -1; cFock = 0; ….zero_()` for the whole batch
  if reset then ops.clear s3 else s3

/-- **the Pulay kernels** (`scf_loop.py:988-1144`) -/
def pulayKernels [Inhabited σ] (ops : PulayOps σ α) (energy dmErr elemErr : σ → α)
    (diisErr : σ → Option α) : Kernels DiisG σ α where
  step := fun _ g ms =>
    let reset := resetFlag ops g ms
    (if reset then DiisG.init else ⟨nextSlot g, nextCFock g⟩,
     fun i => match ms[i]? with
       | some m => pulayRow ops g reset m.s
       | none => default)
  energy := energy
  dmErr := dmErr
  elemErr := elemErr
  diisErr := diisErr

theorem resetFlag_singleton (ops : PulayOps σ α) (g : DiisG) (m : Mol σ α) (ha : m.active = true) :
    resetFlag ops g [m] = (decide (2 ≤ nextCFock g) &&
      decide (1.0e7 < ops.cond (nextSlot g) (nextCFock g) (ops.push (nextSlot g) (nextCFock g) m.s))) := by
  simp [resetFlag, ha]

/-- **Batch transparency of the Pulay loop, partial.**  FULL STATEMENT (false, see
    `pulay_batch_coupling_witness`): without `hquiet`.  PROVED: the record of molecule `i` in the
    batch equals its record alone after every number of bodies and for every cap, **provided**
    that, while the molecule is active, the batch-global `reset_diis` equals the flag the molecule
    would raise by itself, i.e. no reset is caused by a batch-mate alone. -/
theorem row_independence_forward2_partial [Inhabited σ] [OfNat α 0] [OfNat α 1]
    (ops : PulayOps σ α) (abs : α → α) (energy dmErr elemErr : σ → α) (diisErr : σ → Option α)
    (eps : α) (k0 : Nat) (g0 : DiisG) (ss : List σ) (i : Nat) (s : σ) (hi : ss[i]? = some s)
    (hquiet : ∀ n m,
      (runN (pulayKernels ops energy dmErr elemErr diisErr) abs eps k0 n
        (initState (pulayKernels ops energy dmErr elemErr diisErr) g0 ss)).mols[i]? = some m →
      m.active = true →
      resetFlag ops
        (runN (pulayKernels ops energy dmErr elemErr diisErr) abs eps k0 n
          (initState (pulayKernels ops energy dmErr elemErr diisErr) g0 ss)).g
        (runN (pulayKernels ops energy dmErr elemErr diisErr) abs eps k0 n
          (initState (pulayKernels ops energy dmErr elemErr diisErr) g0 ss)).mols =
      resetFlag ops
        (runN (pulayKernels ops energy dmErr elemErr diisErr) abs eps k0 n
          (initState (pulayKernels ops energy dmErr elemErr diisErr) g0 ss)).g [m]) :
    (∀ n, (runN (pulayKernels ops energy dmErr elemErr diisErr) abs eps k0 n
        (initState (pulayKernels ops energy dmErr elemErr diisErr) g0 ss)).mols[i]? =
      (runN (pulayKernels ops energy dmErr elemErr diisErr) abs eps k0 n
        (initState (pulayKernels ops energy dmErr elemErr diisErr) g0 [s])).mols[0]?) ∧
    (∀ fuel, (loop (pulayKernels ops energy dmErr elemErr diisErr) abs eps fuel k0
        (initState (pulayKernels ops energy dmErr elemErr diisErr) g0 ss)).mols[i]? =
      (loop (pulayKernels ops energy dmErr elemErr diisErr) abs eps fuel k0
        (initState (pulayKernels ops energy dmErr elemErr diisErr) g0 [s])).mols[0]?) := by
  set Kn := pulayKernels ops energy dmErr elemErr diisErr with hKn
  have hrun : ∀ n, (runN Kn abs eps k0 n (initState Kn g0 ss)).mols[i]? =
      (runN Kn abs eps k0 n (initState Kn g0 [s])).mols[0]? := by
    intro n
    refine (traj_eq_of_sim Kn abs eps k0 (fun a b => a = b) (initState Kn g0 ss)
      (initState Kn g0 [s]) i 0 (initState_frozen Kn abs eps g0 ss) ?_ (fun _ _ _ => rfl) ?_ n).1
    · rw [initState_getElem?, initState_getElem?, hi]; rfl
    · intro n m hB hA ha hg
      have hlen : (runN Kn abs eps k0 n (initState Kn g0 [s])).mols.length = 1 := by
        rw [runN_length]; simp [initState]
      have hA' : (runN Kn abs eps k0 n (initState Kn g0 [s])).mols = [m] := by
        match hms : (runN Kn abs eps k0 n (initState Kn g0 [s])).mols, hlen with
        | [m'], _ =>
          rw [hms] at hA
          simp only [List.getElem?_cons_zero, Option.some.injEq] at hA
          rw [hA]
      have hq := hquiet n m hB ha
      show (match (runN Kn abs eps k0 n (initState Kn g0 ss)).mols[i]? with
            | some m => _ | none => _) =
          (match (runN Kn abs eps k0 n (initState Kn g0 [s])).mols[0]? with
            | some m => _ | none => _) ∧
        (if resetFlag ops _ _ = true then DiisG.init else _) =
          (if resetFlag ops _ _ = true then DiisG.init else _)
      rw [hB, hA, hA', ← hg, hq]
      exact ⟨rfl, rfl⟩
  refine ⟨hrun, ?_⟩
  intro fuel
  rw [loop_mols_eq_runN Kn abs eps fuel k0 _ (initState_frozen Kn abs eps g0 ss),
    loop_mols_eq_runN Kn abs eps fuel k0 _ (initState_frozen Kn abs eps g0 [s]), hrun]

end Pulay

/-! ### the acceptance criterion is row-wise for every solver -/
section Acceptance
variable {K : Type} [Field K] [LinearOrder K] [IsStrictOrderedRing K] {γ σ : Type}

/-- the flag `get_error` returns for an *active* row is the four-part test on the fresh numbers;
    the stored `err / dm_err / dm_element_err` of earlier iterations do not enter -/
theorem getErrorMol_active_flag_iff (eps eN eO e dF elF d l : K) (di : Option K) :
    (getErrorMol (fun x => |x|) eps
      { active := true, eNew := eN, eOld := eO, errStored := e, dmFresh := dF, elemFresh := elF,
        dmStored := d, elemStored := l, diis := di }).notconv = false ↔
      Passed eps (eN - eO) dF elF di := by
  constructor
  · intro h
    obtain ⟨-, h2, h3, h4⟩ := getErrorMol_fresh (fun x : K => |x|) eps _ rfl h
    have hp := (getErrorMol_flag eps _).1 h
    rw [h2, h3, h4] at hp
    exact hp
  · rintro ⟨h1, h2, h3, h4⟩
    have h1' : ¬ eps < |eN - eO| := not_lt.mpr h1
    have h2' : ¬ eps * 2.0 < dF := by rw [lit2]; exact not_lt.mpr (by linarith)
    have h3' : ¬ eps * 15.0 < elF := by rw [lit15]; exact not_lt.mpr (by linarith)
    cases di with
    | none => simp [getErrorMol, h1', h2', h3']
    | some x =>
      have h4' : ¬ (50.0 : K) * eps < x := by rw [lit50]; exact not_lt.mpr (h4 x rfl)
      simp [getErrorMol, h1', h2', h3', h4']

/-- **Only the path is coupled, not the acceptance criterion.**  For *any* kernels (in particular
    the Pulay kernels with their batch-global `counter / cFock / reset_diis`, SP2, adaptive
    mixing), any batch state, any iteration `k`: whether the active molecule `i` is accepted in
    this body is the four-part test on the row `s'` that was proposed for it and on its own
    previous energy — nothing else of the batch, of the global state or of `k` enters.  Hence
    (second part) a proposed state that passes alone passes in every batch at the iteration where
    it is evaluated, and vice versa, and what is written (`P…`, flag, `Eelec_new`, `Eelec`, `err`)
    is the same.  So any state that is accepted when the molecule runs alone is accepted in the
    batch whenever the batch run proposes it: the coupling moves the *path*, not the *target*. -/
theorem pulay_same_fixed_points (Kn : Kernels γ σ K) (eps : K) :
    (∀ (k : Nat) (st : State γ σ K) (i : Nat) (m : Mol σ K), st.mols[i]? = some m →
      m.active = true →
      ∃ m', (body Kn (fun x => |x|) eps k st).mols[i]? = some m' ∧
        m'.s = (Kn.step k st.g st.mols).2 i ∧
        (m'.active = false ↔
          Passed eps (Kn.energy m'.s - m.eOld) (Kn.dmErr m'.s) (Kn.elemErr m'.s)
            (Kn.diisErr m'.s))) ∧
    (∀ (k k' : Nat) (stB stA : State γ σ K) (i j : Nat) (mB mA : Mol σ K),
      stB.mols[i]? = some mB → stA.mols[j]? = some mA → mB.active = true → mA.active = true →
      mB.eOld = mA.eOld →
      (Kn.step k stB.g stB.mols).2 i = (Kn.step k' stA.g stA.mols).2 j →
      ((body Kn (fun x => |x|) eps k stB).mols[i]?).map
          (fun m => (m.s, m.active, m.eNew, m.eOld, m.err)) =
        ((body Kn (fun x => |x|) eps k' stA).mols[j]?).map
          (fun m => (m.s, m.active, m.eNew, m.eOld, m.err))) := by
  constructor
  · intro k st i m hi ha
    refine ⟨updMol Kn (fun x => |x|) eps k ((Kn.step k st.g st.mols).2 i) m, ?_, ?_, ?_⟩
    · rw [body_getElem?, hi]; rfl
    · simp [updMol, ha]
    · simp only [updMol, ha, if_true]
      exact getErrorMol_active_flag_iff eps _ _ _ _ _ _ _ _
  · intro k k' stB stA i j mB mA hB hA haB haA heq hc
    rw [body_getElem?, body_getElem?, hB, hA, ← hc]
    simp only [Option.map_some, Option.some.injEq]
    rcases mB with ⟨sB, aB, eOB, eNB, erB, dB, lB, liB⟩
    rcases mA with ⟨sA, aA, eOA, eNA, erA, dA, lA, liA⟩
    simp only at haB haA heq
    subst haB haA heq
    simp only [updMol, if_true]
    have hflag : ∀ c : σ,
        (getErrorMol (fun x : K => |x|) eps
          { active := true, eNew := Kn.energy c, eOld := eOB, errStored := erB,
            dmFresh := Kn.dmErr c, elemFresh := Kn.elemErr c, dmStored := dB, elemStored := lB,
            diis := Kn.diisErr c }).notconv =
        (getErrorMol (fun x : K => |x|) eps
          { active := true, eNew := Kn.energy c, eOld := eOB, errStored := erA,
            dmFresh := Kn.dmErr c, elemFresh := Kn.elemErr c, dmStored := dA, elemStored := lA,
            diis := Kn.diisErr c }).notconv := by
      intro c
      have h1 := getErrorMol_active_flag_iff eps (Kn.energy c) eOB erB (Kn.dmErr c) (Kn.elemErr c)
        dB lB (Kn.diisErr c)
      have h2 := getErrorMol_active_flag_iff eps (Kn.energy c) eOB erA (Kn.dmErr c) (Kn.elemErr c)
        dA lA (Kn.diisErr c)
      cases hb1 : (getErrorMol (fun x : K => |x|) eps
          { active := true, eNew := Kn.energy c, eOld := eOB, errStored := erB,
            dmFresh := Kn.dmErr c, elemFresh := Kn.elemErr c, dmStored := dB, elemStored := lB,
            diis := Kn.diisErr c }).notconv with
      | false => exact (h2.2 (h1.1 hb1)).symm
      | true =>
        cases hb2 : (getErrorMol (fun x : K => |x|) eps
          { active := true, eNew := Kn.energy c, eOld := eOB, errStored := erA,
            dmFresh := Kn.dmErr c, elemFresh := Kn.elemErr c, dmStored := dA, elemStored := lA,
            diis := Kn.diisErr c }).notconv with
        | true => rfl
        | false => rw [h1.2 (h2.1 hb2)] at hb1; cases hb1
    rw [hflag]
    simp [getErrorMol]

end Acceptance

end C05b
