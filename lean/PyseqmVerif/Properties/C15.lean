import PyseqmVerif.Properties.CensusState
import PyseqmVerif.Model.History
import Mathlib.Tactic.Common
/-!
# C15 — results depend only on the call's inputs (register part)

"The result of a calculation is the same whether it is the first thing a process does or follows
any sequence of other calculations …, whether driver and parameter objects are fresh or reused …"

The process-global state modelled in `Model/History.lean` is the set of class attributes of
`scf_loop.SCF`.  Full statement: for ALL histories `run jobs c ops = ownOutputs jobs ops`.

* Live code (`History.run`: `backward` takes `eps`/method from its own `ctx`): the full statement
  holds — `fixed_model_noninterfering`.
* Pinned commit (`History.runLegacy`: `backward` read the class attributes): FALSE —
  `interleaving_leak_counterexample` (finding F13, kept as the historical witness); it held only
  for nested histories — `nested_histories_noninterfering`.

Not expressible in this model (runtime behaviour, covered by probes only): thread-count
independence and bitwise repeatability.
-/
namespace C15
open History

/-- `Nested jobs owner ops`: walking through `ops` with `owner` = the job whose forward ran last,
    every `bwd j` finds `owner = j` (so no other forward ran between `fwd j` and `bwd j`), and
    every forwarded job exists. `Nested jobs none ops` is the property of a whole history. -/
def Nested (jobs : List Settings) : Option Nat → List Op → Prop
  | _, [] => True
  | _, .fwd j :: ops => j < jobs.length ∧ Nested jobs (some j) ops
  | o, .bwd j :: ops => o = some j ∧ Nested jobs o ops

instance (jobs : List Settings) : ∀ o ops, Decidable (Nested jobs o ops)
  | _, [] => isTrue trivial
  | _, .fwd j :: ops => by unfold Nested; exact @instDecidableAnd _ _ _ (instDecidableNested jobs (some j) ops)
  | o, .bwd j :: ops => by unfold Nested; exact @instDecidableAnd _ _ _ (instDecidableNested jobs o ops)

theorem lastFwd_append_fwd (p : List Op) (j : Nat) : lastFwd (p ++ [.fwd j]) = some j := by
  induction p with
  | nil => simp [lastFwd]
  | cons op p ih => cases op <;> simp [lastFwd, ih]

theorem lastFwd_append_bwd (p : List Op) (j : Nat) : lastFwd (p ++ [.bwd j]) = lastFwd p := by
  induction p with
  | nil => simp [lastFwd]
  | cons op p ih => cases op <;> simp [lastFwd, ih]

/-- the recursive definition says what the prose says: in a nested history, the most recent
    forward before any `bwd j` is `fwd j` (stated for a history appended to a prefix `h`) -/
theorem nested_prefix_characterisation (jobs : List Settings) (h ops : List Op)
    (hn : Nested jobs (lastFwd h) ops) :
    ∀ p j rest, ops = p ++ .bwd j :: rest → lastFwd (h ++ p) = some j := by
  induction ops generalizing h with
  | nil => intro p j rest e; simp at e
  | cons op ops ih =>
    intro p j rest e
    cases p with
    | nil =>
      simp only [List.nil_append, List.cons.injEq] at e
      obtain ⟨rfl, -⟩ := e
      simpa [Nested] using hn.1
    | cons q p =>
      simp only [List.cons_append, List.cons.injEq] at e
      obtain ⟨hq, e⟩ := e
      subst hq
      have : h ++ op :: p = (h ++ [op]) ++ p := by simp
      rw [this]
      apply ih (h ++ [op]) _ p j rest e
      cases op with
      | fwd k => rw [lastFwd_append_fwd]; exact hn.2
      | bwd k => rw [lastFwd_append_bwd]; exact hn.2

theorem forward_read (r : Regs) (s : Settings) : (r.forward s).read = some (s.eps, s.method) := rfl

theorem own_of_lt (jobs : List Settings) (j : Nat) (h : j < jobs.length) :
    job? jobs j = some jobs[j] := by
  simp [job?, h]

/-- generalised form: the registers are currently owned by `o` -/
theorem nested_aux (jobs : List Settings) (ops : List Op) :
    ∀ (r : Regs) (o : Option Nat), (∀ j, o = some j → r.read = own jobs j) →
      Nested jobs o ops → runLegacy jobs r ops = ownOutputs jobs ops := by
  induction ops with
  | nil => intro r o _ _; rfl
  | cons op ops ih =>
    intro r o hr hn
    cases op with
    | fwd j =>
      obtain ⟨hj, hn⟩ := hn
      have hjob := own_of_lt jobs j hj
      simp only [runLegacy, stepLegacy, hjob, ownOutputs]
      apply ih _ (some j) _ hn
      intro k hk
      cases hk
      simp [own, hjob, forward_read]
    | bwd j =>
      obtain ⟨ho, hn⟩ := hn
      simp only [runLegacy, stepLegacy, ownOutputs]
      rw [hr j ho]
      congr 1
      exact ih r o hr hn

/-- **C15 (1), pinned commit, nested histories**: whatever state `r` earlier calculations left in the class
    registers, a nested history produces exactly the outputs each job would produce alone. -/
theorem nested_histories_noninterfering (jobs : List Settings) (r : Regs) (ops : List Op)
    (hn : Nested jobs none ops) : runLegacy jobs r ops = ownOutputs jobs ops :=
  nested_aux jobs ops r none (by intro j h; cases h) hn

theorem run_append (jobs : List Settings) (h ops : List Op) (r : Regs) :
    runLegacy jobs r (h ++ ops) = runLegacy jobs r h ++ runLegacy jobs (after jobs r h) ops := by
  induction h generalizing r with
  | nil => rfl
  | cons op h ih =>
    cases op with
    | fwd j =>
      cases hjob : job? jobs j with
      | none => simp only [List.cons_append, runLegacy, after, stepLegacy, hjob]; exact ih _
      | some s => simp only [List.cons_append, runLegacy, after, stepLegacy, hjob]; exact ih _
    | bwd j => simp only [List.cons_append, runLegacy, after, stepLegacy, List.cons_append, ih]

/-- the same, "for every prefix history": appending a nested history to ANY history `h`
    (nested or not, from any initial state) yields the stand-alone outputs for the appended part -/
theorem nested_after_any_prefix (jobs : List Settings) (r : Regs) (h ops : List Op)
    (hn : Nested jobs none ops) :
    runLegacy jobs r (h ++ ops) = runLegacy jobs r h ++ ownOutputs jobs ops := by
  rw [run_append, nested_histories_noninterfering jobs _ ops hn]

/-- non-vacuity: two jobs, used one after the other, twice -/
example :
    let jobs : List Settings := [{ eps := 1, method := 10 }, { eps := 2, method := 20 }]
    Nested jobs none [.fwd 0, .bwd 0, .fwd 1, .bwd 1, .bwd 1, .fwd 0, .bwd 0] ∧
    runLegacy jobs {} [.fwd 0, .bwd 0, .fwd 1, .bwd 1, .bwd 1, .fwd 0, .bwd 0]
      = [some (1, 10), some (2, 20), some (2, 20), some (1, 10)] := by decide

/-- **C15 (2), finding F13**: the full statement was false of the code at the pinned commit.  Two jobs with different
    tolerances/methods; the forward of job 1 runs between the forward and the backward of job 0
    (two loss terms built first, back-propagated afterwards): the backward of job 0 uses job 1's
    tolerance and method. -/
theorem interleaving_leak_counterexample :
    ∃ (jobs : List Settings) (ops : List Op),
      runLegacy jobs {} ops ≠ ownOutputs jobs ops ∧
      runLegacy jobs {} ops = [own jobs 1] ∧ ownOutputs jobs ops = [own jobs 0] ∧
      ops = [.fwd 0, .fwd 1, .bwd 0] :=
  ⟨[{ eps := 1, method := 10 }, { eps := 2, method := 20 }], [.fwd 0, .fwd 1, .bwd 0],
    by decide, by decide, by decide, rfl⟩

/-! ## the live (repaired) semantics -/

/-- every `bwd j` has *some* earlier `fwd j` (arbitrary interleaving allowed); `seen` = jobs
    forwarded so far -/
def Preceded (jobs : List Settings) : List Nat → List Op → Prop
  | _, [] => True
  | seen, .fwd j :: ops => j < jobs.length ∧ Preceded jobs (j :: seen) ops
  | seen, .bwd j :: ops => j ∈ seen ∧ Preceded jobs seen ops

instance (jobs : List Settings) : ∀ seen ops, Decidable (Preceded jobs seen ops)
  | _, [] => isTrue trivial
  | seen, .fwd j :: ops => by unfold Preceded; exact @instDecidableAnd _ _ _ (instDecidablePreceded jobs (j :: seen) ops)
  | seen, .bwd j :: ops => by unfold Preceded; exact @instDecidableAnd _ _ _ (instDecidablePreceded jobs seen ops)

theorem fixed_aux (jobs : List Settings) (ops : List Op) :
    ∀ (c : Ctx) (seen : List Nat), (∀ j ∈ seen, c j = own jobs j) →
      Preceded jobs seen ops → run jobs c ops = ownOutputs jobs ops := by
  induction ops with
  | nil => intro c seen _ _; rfl
  | cons op ops ih =>
    intro c seen hc hp
    cases op with
    | fwd j =>
      obtain ⟨hj, hp⟩ := hp
      have hjob := own_of_lt jobs j hj
      simp only [run, step, hjob, ownOutputs]
      apply ih _ (j :: seen) _ hp
      intro k hk
      by_cases hkj : k = j
      · subst hkj; simp [Ctx.save, own, hjob]
      · have : k ∈ seen := by simpa [hkj] using hk
        simp [Ctx.save, hkj, hc k this]
    | bwd j =>
      obtain ⟨hj, hp⟩ := hp
      simp only [run, step, ownOutputs]
      rw [hc j hj]
      congr 1
      exact ih c seen hc hp

/-- **C15 (3), live code**: with `eps`/method carried in `ctx`, EVERY history in which each backward has an
    earlier forward of its job — interleaved or not, from any initial context — produces the
    stand-alone outputs. -/
theorem fixed_model_noninterfering (jobs : List Settings) (c : Ctx) (ops : List Op)
    (hp : Preceded jobs [] ops) : run jobs c ops = ownOutputs jobs ops :=
  fixed_aux jobs ops c [] (by intro j h; cases h) hp

/-- non-vacuity: the leaking history of F13 is covered by the repaired semantics -/
example :
    let jobs : List Settings := [{ eps := 1, method := 10 }, { eps := 2, method := 20 }]
    Preceded jobs [] [.fwd 0, .fwd 1, .bwd 0, .bwd 1] ∧ ¬ Nested jobs none [.fwd 0, .fwd 1, .bwd 0, .bwd 1] ∧
    run jobs (fun _ => none) [.fwd 0, .fwd 1, .bwd 0, .bwd 1] = [some (1, 10), some (2, 20)] := by
  decide

/-- nested histories are a special case of the histories the repaired semantics covers -/
theorem nested_imp_preceded (jobs : List Settings) (ops : List Op) :
    ∀ (o : Option Nat) (seen : List Nat), (∀ j, o = some j → j ∈ seen) →
      Nested jobs o ops → Preceded jobs seen ops := by
  induction ops with
  | nil => intro _ _ _ _; trivial
  | cons op ops ih =>
    intro o seen ho hn
    cases op with
    | fwd j =>
      exact ⟨hn.1, ih (some j) (j :: seen) (by intro k hk; cases hk; simp) hn.2⟩
    | bwd j => exact ⟨ho j hn.1, ih o seen ho hn.2⟩

end C15
