import PyseqmVerif.Generated.RotGen
import PyseqmVerif.Model.Rotation
import Mathlib.Data.Real.Basic
import Mathlib.Tactic.NormNum
/-!
# Translator tie for the local-frame rotation (C02)

`Generated/RotGen.lean`: the forward part of `rotate_with_quaternion` for one unit vector, translated component by component from the source on every
run (column assignments, `torch.cat`, the antipodal mask `|1 + v_x| < eps`, the masked overwrite with the constant quaternion, `torch.norm`, the
division, `unbind`, the nine entries) and the two dtype thresholds.  `rotForward_is_model`: it is `Rotation.rotq`, the function about which `C02.*`
proves orthonormal rows for every unit quaternion, first row `= v` on the regular chart, and exactness of the antipodal branch only at `v = (−1,0,0)`
(known finding F2).  The proof is a case split on the mask and `rfl`, for every scalar type.
-/
set_option linter.unusedSectionVars false
namespace RotTie
open Generated Rotation

section
variable {α : Type} [Add α] [Sub α] [Mul α] [Div α] [Neg α]
  [OfNat α 0] [OfNat α 1] [OfNat α 2] [OfNat α 4] [OfScientific α] [LT α] [DecidableLT α]

theorem rotForward_is_model (sqrt abs : α → α) (eps vx vy vz : α) :
    RotGen.rotForward sqrt abs eps vx vy vz = (rotq sqrt abs eps vx vy vz).toList := by
  unfold RotGen.rotForward rotq qRaw qNorm rotOfQ inAntipodal M3.toList
  dsimp only
  generalize (decide (abs (1.0 + vx) < eps)) = b
  cases b <;> rfl

end

/-- the float64 threshold of the source is the model's (`1e-07` and `1.0e-7` are different literals, equal as numbers) -/
theorem eps64_is_model : (RotGen.eps64 : ℝ) = (eps64 : ℝ) := by
  unfold RotGen.eps64 eps64
  norm_num

example : RotGen.rotForward (fun x : ℚ => x) (fun x => if x < 0 then -x else x) (1/10) 1 0 0 = [1, 0, 0, 0, 1, 0, 0, 0, 1] := by
  unfold RotGen.rotForward
  norm_num

end RotTie
