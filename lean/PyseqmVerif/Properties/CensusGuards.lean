import PyseqmVerif.Generated.Guards
/-! Guard census (C18): see `CensusLoops.lean` for the conventions. -/
namespace Census
open Generated

structure Req where
  file : String
  func : String
  exc : String
  atLeast : Nat
deriving Repr, DecidableEq

/-- the documented guards: (file, function, exception class, minimal number of such `raise` statements) -/
def required : List Req := [
  ⟨"seqm/Molecule.py", "check_input", "ValueError", 1⟩,                       -- species rows sorted
  ⟨"seqm/basics.py", "forward", "ValueError", 3⟩,                             -- UHF charge/multiplicity, RHF parity, occupation range
  ⟨"seqm/basics.py", "__init__", "NotImplementedError", 1⟩,                   -- unrestricted + excited states
  ⟨"seqm/basics.py", "forward", "Exception", 1⟩,                              -- excited active state without settings
  ⟨"seqm/basics.py", "forward", "NotImplementedError", 2⟩,                    -- heterogeneous batch: RPA, analytical excited gradient
  ⟨"seqm/seqm_functions/scf_loop.py", "make_Pnew_factory", "ValueError", 2⟩,  -- open shell + PM6 / SP2
  ⟨"seqm/seqm_functions/scf_loop.py", "forward", "NotImplementedError", 2⟩,   -- UHF + Pulay / KSA
  ⟨"seqm/MolecularDynamics.py", "initialize", "ValueError", 1⟩                -- unknown COM removal mode
]

def count (r : Req) : Nat :=
  (Guards.raises.filter (fun g => g.file == r.file && g.func == r.func && g.exc == r.exc)).length

/-- every documented guard is present in the source -/
theorem documented_guards_present : ∀ r ∈ required, r.atLeast ≤ count r := by decide

structure ReqCond where
  file : String
  func : String
  exc : String
  cond : String
deriving Repr, DecidableEq

/-- the conditions under which the documented guards fire (test of the innermost enclosing `if`, as unparsed by Python's `ast`):
the audited text at the verified commit.  A rewritten condition breaks this obligation; the C18 probes then search the malformed
variants along that precondition for an input that is now silently accepted. -/
def requiredCond : List ReqCond := [
  ⟨"seqm/Molecule.py", "check_input", "ValueError", "not row_ok.all()"⟩,
  ⟨"seqm/basics.py", "forward", "ValueError", "(n_charge % 2 == 1).any()"⟩,
  ⟨"seqm/basics.py", "forward", "ValueError", "(nocc_min < 0).any() or (nocc_max > norb_per_mol).any()"⟩,
  ⟨"seqm/basics.py", "__init__", "NotImplementedError", "self.uhf and self.excited_states is not None"⟩,
  ⟨"seqm/basics.py", "forward", "Exception", "excited_mask.any() and (not self.excited_states) and (not self.xlesmd)"⟩,
  ⟨"seqm/basics.py", "forward", "NotImplementedError", "not all_same_mols"⟩,
  ⟨"seqm/seqm_functions/scf_loop.py", "make_Pnew_factory", "ValueError", "openshell and method == 'PM6'"⟩,
  ⟨"seqm/seqm_functions/scf_loop.py", "make_Pnew_factory", "ValueError", "openshell and sp2[0]"⟩,
  ⟨"seqm/seqm_functions/scf_loop.py", "forward", "NotImplementedError", "unrestricted"⟩,
  ⟨"seqm/MolecularDynamics.py", "initialize", "ValueError", "mode not in ('linear', 'angular')"⟩
]

/-- every documented guard fires under its audited condition -/
theorem documented_guard_conditions :
    ∀ r ∈ requiredCond, ∃ g ∈ Guards.raises, g.file = r.file ∧ g.func = r.func ∧ g.exc = r.exc ∧ g.cond = r.cond := by decide

end Census
