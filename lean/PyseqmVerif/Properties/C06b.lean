import PyseqmVerif.Model.Overlap
import Mathlib.Analysis.SpecialFunctions.Pow.Real
import Mathlib.Analysis.SpecialFunctions.Sqrt
import Mathlib.Analysis.SpecialFunctions.Integrals.Basic
import Mathlib.Analysis.Calculus.Deriv.Pow
import Mathlib.Analysis.Calculus.Deriv.Mul
import Mathlib.Analysis.Calculus.Deriv.Add
import Mathlib.Tactic.Ring
import Mathlib.Tactic.NormNum
import Mathlib.Tactic.NormNum.OfScientific
import Mathlib.Tactic.FieldSimp
import Mathlib.Tactic.Linarith
import Mathlib.Tactic.Positivity
/-!
# C06 (overlap part) — the Slater overlaps of `diat_overlap_PM6_SP.py`

Model: `PyseqmVerif/Model/Overlap.lean` (mirrors `aintgs`, `bintgs`, `SET` and the six `jcall` branches).
All theorems are over `ℝ` with `Real.exp`, `Real.sqrt`, `Real.rpow`, `|·|` and `x ^ n`.

1. auxiliary integrals `A_k`: `aintgs_recurrence` (the integration-by-parts identity
   `x·A_k = e^{-x} + k·A_{k-1}` of `∫₁^∞ ξ^k e^{-xξ} dξ`), `aintgs_closed_form`.
2. auxiliary integrals `B_k`, TWO regimes (the code after the repair F27: `cond1 = absx > 0.5`,
   `cond2 = absx <= 0.5`; the former third regime "constants `B_k(0)` for `|x| ≤ 1e-6`" no longer exists):
   * `|x| > 0.5`: `bintgs_recurrence` (`x·B_k = k·B_{k-1} + ((-1)^k e^{x} − e^{-x})`, the identity of
     `∫₋₁^¹ η^k e^{-xη} dη`), `bintgs_recursion_satisfies_relation`;
   * `|x| ≤ 0.5`, `x = 0` INCLUDED: `bintgs_series_branch` (the model is the polynomial table `seriesR`),
     `bintgs_series_is_truncated_maclaurin` (Maclaurin series cut after `m = 6`), `bintgs_at_zero` (value at
     `x = 0`: `2/(k+1)` / `0`), `bintgs_at_zero_is_integral` (these are `∫₋₁^¹ η^k e^{-0·η} dη`),
     `bintgs_near_zero` (`|B_k(x) − B_k(0)| ≤ x²` even columns, `≤ |x|` odd columns);
   * `bintgs_parity` (`B_k(−x) = (−1)^k B_k(x)`, both regimes);
   * the FINDING `bintgs_series_violates_exact_recurrence`: every family obeying the integration-by-parts
     identities satisfies `x·(B₂ − B₀) = 2·B₁` (`exact_B_relation`), whereas the series branch misses it by
     exactly `−x⁷/11340` (`bintgs_series_relation_defect`, all `|x| ≤ 0.5`), which is `≠ 0` iff `x ≠ 0`
     (`bintgs_series_relation_iff`; `bintgs_zero_satisfies_relation`): the code's `B_k` are truncated
     Maclaurin polynomials there;
   * derivative in `x`: `bintgs_series_hasDerivAt` (`|x₀| < 0.5`), `bintgs_odd_slope_at_zero` (REPAIRED F27:
     `b2, b4, b6` have slope `−2/3, −2/5, −2/7` at `0`, even columns slope `0`), and about the code BEFORE the
     repair (`bintgsOld`): `bintgsOld_eq_outside_window`, `bintgsOld_zero`, `old_branch_dropped_slope` (the
     removed constant branch has derivative `0 ≠ −2/(k+2)` at `0`).
3. equal exponents: the `jcall = 2, 4, 6` branches reproduce closed forms obtained independently:
   `overlap_1s1s_equal_zeta`, `overlap_22_equal_zeta`, `overlap_33_equal_zeta` (all five entries each).
4. SPECIFICATION `stoSpec`: normalisation constants × angular constant × `(R/2)^{n₁+n₂+1}` × the
   contraction of the MECHANICALLY expanded prolate-coordinate polynomial `stoPoly` with the tables.
   `poly*_spec` (20 theorems: every polynomial the code writes is ± the mechanical expansion),
   `pref*` (20 lemmas: every prefactor is the product of the normalisation/angular constants).
5. `local_eq_spec_11/21/22/31/32/33`: for every `jcall` every entry of the molecular-frame factors
   (`diFactors`) equals `stoSpec` on the tables the code computes; unset entries are zero.
6. exchange of the two centres (equal principal quantum numbers): `local_swap_11/22/33`:
   `S111, S221, S222` invariant, `S211 ↔ S121` (parity `(−1)^{l₁+l₂}` of the σ overlaps).

What is NOT proved: that `A_k`, `B_k` ARE the integrals (only that they satisfy the integration-by-parts
recurrences that determine the integrals given `A_0`, `B_0`), and nothing about floating point rounding;
the Float instance of the model is tied to the Python by the driver ops `aintgs`, `bintgs`, `sto_local`,
`sto_overlap` (bit-identical A/B tables, overlaps within 5e-15 on random inputs).
-/
namespace C06b
open Overlap

noncomputable section

/-- `x ** n` -/
abbrev pwR (x : ℝ) (n : ℕ) : ℝ := x ^ n
/-- `torch.abs` -/
abbrev absR (x : ℝ) : ℝ := |x|

abbrev AR (jcall : ℕ) (x : ℝ) : Aux ℝ := aintgs Real.exp jcall x
abbrev BR (x : ℝ) : Aux ℝ := bintgs Real.exp absR pwR x
abbrev locR (jcall : ℕ) (zsa zpa zsb zpb r : ℝ) : Local ℝ :=
  localOverlap Real.exp Real.sqrt absR Real.rpow pwR jcall zsa zpa zsb zpb r

/-! ## 1. A integrals -/

/-- integration by parts of `A_k(x) = ∫₁^∞ ξ^k e^{-xξ} dξ`: `x A_0 = e^{-x}`, `x A_k = e^{-x} + k A_{k-1}` -/
theorem aintgs_recurrence {x : ℝ} (hx : x ≠ 0) :
    x * (AR 6 x).c0 = Real.exp (-x) ∧
    x * (AR 6 x).c1 = Real.exp (-x) + 1 * (AR 6 x).c0 ∧
    x * (AR 6 x).c2 = Real.exp (-x) + 2 * (AR 6 x).c1 ∧
    x * (AR 6 x).c3 = Real.exp (-x) + 3 * (AR 6 x).c2 ∧
    x * (AR 6 x).c4 = Real.exp (-x) + 4 * (AR 6 x).c3 ∧
    x * (AR 6 x).c5 = Real.exp (-x) + 5 * (AR 6 x).c4 ∧
    x * (AR 6 x).c6 = Real.exp (-x) + 6 * (AR 6 x).c5 := by
  simp only [AR, aintgs]
  norm_num
  refine ⟨?_, ?_, ?_, ?_, ?_, ?_, ?_⟩ <;> field_simp

/-- `A_k(x) = e^{-x} Σ_{j=0}^{k} k!/(k-j)! / x^{j+1}` -/
theorem aintgs_closed_form {x : ℝ} (hx : x ≠ 0) :
    (AR 6 x).c0 = Real.exp (-x) * (1 / x) ∧
    (AR 6 x).c1 = Real.exp (-x) * (1 / x + 1 / x ^ 2) ∧
    (AR 6 x).c2 = Real.exp (-x) * (1 / x + 2 / x ^ 2 + 2 / x ^ 3) ∧
    (AR 6 x).c3 = Real.exp (-x) * (1 / x + 3 / x ^ 2 + 6 / x ^ 3 + 6 / x ^ 4) ∧
    (AR 6 x).c4 = Real.exp (-x) * (1 / x + 4 / x ^ 2 + 12 / x ^ 3 + 24 / x ^ 4 + 24 / x ^ 5) ∧
    (AR 6 x).c5 = Real.exp (-x) * (1 / x + 5 / x ^ 2 + 20 / x ^ 3 + 60 / x ^ 4 + 120 / x ^ 5 + 120 / x ^ 6) ∧
    (AR 6 x).c6 = Real.exp (-x) * (1 / x + 6 / x ^ 2 + 30 / x ^ 3 + 120 / x ^ 4 + 360 / x ^ 5 + 720 / x ^ 6
                                    + 720 / x ^ 7) := by
  simp only [AR, aintgs]
  norm_num
  refine ⟨?_, ?_, ?_, ?_, ?_, ?_, ?_⟩ <;> field_simp <;> ring

/-! ## 2. B integrals -/

/-- regime `|x| > 0.5`: integration by parts of `B_k(x) = ∫₋₁^¹ η^k e^{-xη} dη`:
    `x B_0 = e^{x} − e^{-x}`, `x B_k = k B_{k-1} + ((−1)^k e^{x} − e^{-x})` -/
theorem bintgs_recurrence {x : ℝ} (hx : 0.5 < |x|) :
    x * (BR x).c0 = Real.exp x - Real.exp (-x) ∧
    x * (BR x).c1 = 1 * (BR x).c0 + (-Real.exp x - Real.exp (-x)) ∧
    x * (BR x).c2 = 2 * (BR x).c1 + (Real.exp x - Real.exp (-x)) ∧
    x * (BR x).c3 = 3 * (BR x).c2 + (-Real.exp x - Real.exp (-x)) ∧
    x * (BR x).c4 = 4 * (BR x).c3 + (Real.exp x - Real.exp (-x)) ∧
    x * (BR x).c5 = 5 * (BR x).c4 + (-Real.exp x - Real.exp (-x)) ∧
    x * (BR x).c6 = 6 * (BR x).c5 + (Real.exp x - Real.exp (-x)) := by
  have hx0 : x ≠ 0 := by
    intro h; rw [h, abs_zero] at hx; norm_num at hx
  simp only [BR, bintgs, absR, if_pos hx]
  norm_num
  refine ⟨?_, ?_, ?_, ?_, ?_, ?_, ?_⟩ <;> field_simp <;> ring

/-- the seven polynomials of the branch `|x| ≤ 0.5` (`cond2`), written over `ℝ` -/
def seriesR (x : ℝ) : Aux ℝ :=
  ⟨2 + x ^ 2 / 3 + x ^ 4 / 60 + x ^ 6 / 2520,
   -2 / 3 * x - x ^ 3 / 15 - x ^ 5 / 420,
   2 / 3 + x ^ 2 / 5 + x ^ 4 / 84 + x ^ 6 / 3240,
   -2 / 5 * x - x ^ 3 / 21 - x ^ 5 / 540,
   2 / 5 + x ^ 2 / 7 + x ^ 4 / 108 + x ^ 6 / 3960,
   -2 / 7 * x - x ^ 3 / 27 - x ^ 5 / 660,
   2 / 7 + x ^ 2 / 9 + x ^ 4 / 132 + x ^ 6 / 4680⟩

/-- regime `|x| ≤ 0.5` (all of it, `x = 0` included): the model IS the polynomial table `seriesR` -/
theorem bintgs_series_branch {x : ℝ} (h : |x| ≤ 0.5) : BR x = seriesR x := by
  have h0 : ¬ (0.5 < |x|) := not_lt.mpr h
  simp only [BR, bintgs, absR, pwR, if_neg h0, seriesR]
  norm_num

/-- the value at `x = 0` (now computed by the series): exactly `∫₋₁^¹ η^k dη`, i.e. `2/(k+1)` for even
    `k` and `0` for odd `k` -/
theorem bintgs_at_zero :
    (BR 0).c0 = 2 ∧ (BR 0).c1 = 0 ∧ (BR 0).c2 = 2 / 3 ∧ (BR 0).c3 = 0 ∧ (BR 0).c4 = 2 / 5 ∧
    (BR 0).c5 = 0 ∧ (BR 0).c6 = 2 / 7 := by
  rw [bintgs_series_branch (by norm_num)]
  simp only [seriesR]
  norm_num

/-- … and these ARE the defining integrals `B_k(0) = ∫₋₁^¹ η^k e^{-0·η} dη` -/
theorem bintgs_at_zero_is_integral :
    (∫ η in (-1:ℝ)..1, η ^ 0 * Real.exp (-(0:ℝ) * η)) = (BR 0).c0 ∧
    (∫ η in (-1:ℝ)..1, η ^ 1 * Real.exp (-(0:ℝ) * η)) = (BR 0).c1 ∧
    (∫ η in (-1:ℝ)..1, η ^ 2 * Real.exp (-(0:ℝ) * η)) = (BR 0).c2 ∧
    (∫ η in (-1:ℝ)..1, η ^ 3 * Real.exp (-(0:ℝ) * η)) = (BR 0).c3 ∧
    (∫ η in (-1:ℝ)..1, η ^ 4 * Real.exp (-(0:ℝ) * η)) = (BR 0).c4 ∧
    (∫ η in (-1:ℝ)..1, η ^ 5 * Real.exp (-(0:ℝ) * η)) = (BR 0).c5 ∧
    (∫ η in (-1:ℝ)..1, η ^ 6 * Real.exp (-(0:ℝ) * η)) = (BR 0).c6 := by
  obtain ⟨h0, h1, h2, h3, h4, h5, h6⟩ := bintgs_at_zero
  rw [h0, h1, h2, h3, h4, h5, h6]
  simp only [neg_zero, zero_mul, Real.exp_zero, mul_one, integral_pow]
  norm_num

/-- distance of the series values from the `x = 0` constants (which the removed branch returned for
    `|x| ≤ 1e-6`): second order in the even columns, FIRST order in the odd ones -/
theorem bintgs_near_zero {x : ℝ} (h : |x| ≤ 0.5) :
    |(BR x).c0 - 2| ≤ x ^ 2 ∧ |(BR x).c1| ≤ |x| ∧ |(BR x).c2 - 2 / 3| ≤ x ^ 2 ∧ |(BR x).c3| ≤ |x| ∧
    |(BR x).c4 - 2 / 5| ≤ x ^ 2 ∧ |(BR x).c5| ≤ |x| ∧ |(BR x).c6 - 2 / 7| ≤ x ^ 2 := by
  rw [bintgs_series_branch h]
  have hx2 : x ^ 2 ≤ 1 / 4 := by
    have := pow_le_pow_left₀ (abs_nonneg x) h 2
    rw [sq_abs] at this
    norm_num at this
    linarith
  have n2 : 0 ≤ x ^ 2 := sq_nonneg x
  have n4 : 0 ≤ x ^ 4 := by positivity
  have n6 : 0 ≤ x ^ 6 := by positivity
  have h4 : x ^ 4 ≤ x ^ 2 / 4 := by nlinarith
  have h6 : x ^ 6 ≤ x ^ 2 / 16 := by nlinarith
  have odd : ∀ a b c : ℝ, 0 ≤ a → 0 < b → 0 < c → a + 1 / (4 * b) + 1 / (16 * c) ≤ 1 →
      |-a * x - x ^ 3 / b - x ^ 5 / c| ≤ |x| := by
    intro a b c ha hb hc habc
    have e : -a * x - x ^ 3 / b - x ^ 5 / c = -(x * (a + x ^ 2 / b + x ^ 4 / c)) := by ring
    have q0 : 0 ≤ a + x ^ 2 / b + x ^ 4 / c := by positivity
    rw [e, abs_neg, abs_mul, abs_of_nonneg q0]
    apply mul_le_of_le_one_right (abs_nonneg x)
    have t1 : x ^ 2 / b ≤ 1 / (4 * b) := by
      rw [div_le_div_iff₀ hb (by positivity)]; nlinarith
    have t2 : x ^ 4 / c ≤ 1 / (16 * c) := by
      rw [div_le_div_iff₀ hc (by positivity)]; nlinarith
    linarith
  simp only [seriesR]
  refine ⟨?_, ?_, ?_, ?_, ?_, ?_, ?_⟩
  · rw [abs_le]; constructor <;> linarith
  · have := odd (2 / 3) 15 420 (by norm_num) (by norm_num) (by norm_num) (by norm_num)
    convert this using 2; ring
  · rw [abs_le]; constructor <;> linarith
  · have := odd (2 / 5) 21 540 (by norm_num) (by norm_num) (by norm_num) (by norm_num)
    convert this using 2; ring
  · rw [abs_le]; constructor <;> linarith
  · have := odd (2 / 7) 27 660 (by norm_num) (by norm_num) (by norm_num) (by norm_num)
    convert this using 2; ring
  · rw [abs_le]; constructor <;> linarith

example : |(1.0e-7:ℝ)| ≤ 0.5 := by rw [abs_of_pos (by norm_num)]; norm_num

/-- regime `|x| ≤ 0.5` (no lower cut-off any more): the Maclaurin series
    `B_k(x) = Σ_m (−x)^m/m! · ∫₋₁^¹ η^{m+k} dη = Σ_{m+k even} (−x)^m · 2/(m!(m+k+1))` cut after `m = 6` -/
theorem bintgs_series_is_truncated_maclaurin {x : ℝ} (h2 : |x| ≤ 0.5) :
    let T : ℕ → ℝ := fun k => ∑ m ∈ Finset.range 7,
      if (m + k) % 2 = 0 then (-x) ^ m * 2 / ((m.factorial : ℝ) * ((m : ℝ) + (k : ℝ) + 1)) else 0
    (BR x).c0 = T 0 ∧ (BR x).c1 = T 1 ∧ (BR x).c2 = T 2 ∧ (BR x).c3 = T 3 ∧ (BR x).c4 = T 4 ∧
    (BR x).c5 = T 5 ∧ (BR x).c6 = T 6 := by
  rw [bintgs_series_branch h2]
  simp only [seriesR, Finset.sum_range_succ, Finset.sum_range_zero, Nat.factorial]
  norm_num
  refine ⟨?_, ?_, ?_, ?_, ?_, ?_, ?_⟩ <;> ring

example : |(0:ℝ)| ≤ 0.5 ∧ |(0.3:ℝ)| ≤ 0.5 := by
  rw [abs_zero, abs_of_pos (by norm_num)]; norm_num

/-- `B_k(−x) = (−1)^k B_k(x)` in both regimes (the regime only depends on `|x|`) -/
theorem bintgs_parity (x : ℝ) :
    (BR (-x)).c0 = (BR x).c0 ∧ (BR (-x)).c1 = -(BR x).c1 ∧ (BR (-x)).c2 = (BR x).c2 ∧
    (BR (-x)).c3 = -(BR x).c3 ∧ (BR (-x)).c4 = (BR x).c4 ∧ (BR (-x)).c5 = -(BR x).c5 ∧
    (BR (-x)).c6 = (BR x).c6 := by
  by_cases h0 : 0.5 < |x|
  · have hx0 : x ≠ 0 := by
      intro h; rw [h, abs_zero] at h0; norm_num at h0
    simp only [BR, bintgs, absR, abs_neg, if_pos h0, neg_neg]
    norm_num
    refine ⟨?_, ?_, ?_, ?_, ?_, ?_, ?_⟩ <;> field_simp <;> ring
  · have h1 : |x| ≤ 0.5 := not_lt.mp h0
    have h2 : |-x| ≤ 0.5 := by rwa [abs_neg]
    rw [bintgs_series_branch h1, bintgs_series_branch h2]
    simp only [seriesR]
    refine ⟨?_, ?_, ?_, ?_, ?_, ?_, ?_⟩ <;> ring

/-- Any family obeying the integration-by-parts identities of `∫₋₁^¹ η^k e^{-xη} dη` (k = 1, 2)
    satisfies `x·(B₂ − B₀) = 2·B₁` (the exponentials cancel). -/
theorem exact_B_relation {x ep em b0 b1 b2 : ℝ} (h0 : x * b0 = ep - em) (h2 : x * b2 = 2 * b1 + (ep - em)) :
    x * (b2 - b0) = 2 * b1 := by linarith

/-- the recursion branch satisfies it … -/
theorem bintgs_recursion_satisfies_relation {x : ℝ} (hx : 0.5 < |x|) :
    x * ((BR x).c2 - (BR x).c0) = 2 * (BR x).c1 := by
  obtain ⟨h0, _, h2, _⟩ := bintgs_recurrence hx
  exact exact_B_relation h0 h2

/-- … and so does the series at `x = 0` (where it is exact) … -/
theorem bintgs_zero_satisfies_relation : (0:ℝ) * ((BR 0).c2 - (BR 0).c0) = 2 * (BR 0).c1 := by
  obtain ⟨_, h1, _⟩ := bintgs_at_zero
  rw [h1]; ring

/-- the defect of the series branch, for every `|x| ≤ 0.5` -/
theorem bintgs_series_relation_defect {x : ℝ} (h2 : |x| ≤ 0.5) :
    x * ((BR x).c2 - (BR x).c0) - 2 * (BR x).c1 = -x ^ 7 / 11340 := by
  rw [bintgs_series_branch h2]
  simp only [seriesR]
  ring

/-- FINDING (accuracy): … but the series branch does NOT for any `x ≠ 0` with `|x| ≤ 0.5` (the exact
    hypothesis, see `bintgs_series_relation_iff`): it misses the exact relation by `−x⁷/11340`, i.e. the
    `B_k` the code uses there are not the integrals but their Maclaurin polynomials cut after `x⁶`
    (relative error up to `~1e-8` at `|x| = 0.5`, which limits the overlaps to `~1e-7`; measured against
    the quadrature oracle in `vf/oracle_nddo.py`). -/
theorem bintgs_series_violates_exact_recurrence {x : ℝ} (hx0 : x ≠ 0) (h2 : |x| ≤ 0.5) :
    x * ((BR x).c2 - (BR x).c0) - 2 * (BR x).c1 = -x ^ 7 / 11340 ∧
    x * ((BR x).c2 - (BR x).c0) ≠ 2 * (BR x).c1 := by
  have key := bintgs_series_relation_defect h2
  refine ⟨key, fun h => ?_⟩
  rw [h, sub_self] at key
  have : x ^ 7 = 0 := by linarith
  exact hx0 (pow_eq_zero_iff (by norm_num) |>.mp this)

/-- the hypothesis `x ≠ 0` is exact: inside `|x| ≤ 0.5` the relation holds ONLY at `x = 0` -/
theorem bintgs_series_relation_iff {x : ℝ} (h2 : |x| ≤ 0.5) :
    x * ((BR x).c2 - (BR x).c0) = 2 * (BR x).c1 ↔ x = 0 := by
  constructor
  · intro h
    by_contra hx0
    exact (bintgs_series_violates_exact_recurrence hx0 h2).2 h
  · rintro rfl
    exact bintgs_zero_satisfies_relation

example : (0.3:ℝ) ≠ 0 ∧ |(0.3:ℝ)| ≤ 0.5 ∧ (1.0e-7:ℝ) ≠ 0 ∧ |(1.0e-7:ℝ)| ≤ 0.5 := by
  rw [abs_of_pos (by norm_num), abs_of_pos (by norm_num)]; norm_num

section slope
open Filter Topology

/-! ### derivative with respect to `x` (what autograd differentiates: `beta = 0.5·R·(ζ₁−ζ₂)` depends on `R`) -/

lemma hasDerivAt_oddPoly (a b c x : ℝ) :
    HasDerivAt (fun x : ℝ => a * x - x ^ 3 / b - x ^ 5 / c) (a - 3 * x ^ 2 / b - 5 * x ^ 4 / c) x := by
  have h : HasDerivAt (fun x : ℝ => a * x - x ^ 3 / b - x ^ 5 / c)
      (a * 1 - ((3:ℕ):ℝ) * x ^ (3 - 1) / b - ((5:ℕ):ℝ) * x ^ (5 - 1) / c) x :=
    (((hasDerivAt_id' x).const_mul a).sub ((hasDerivAt_pow 3 x).div_const b)).sub
      ((hasDerivAt_pow 5 x).div_const c)
  exact h.congr_deriv (by norm_num)

lemma hasDerivAt_evenPoly (a b c d x : ℝ) :
    HasDerivAt (fun x : ℝ => a + x ^ 2 / b + x ^ 4 / c + x ^ 6 / d)
      (2 * x / b + 4 * x ^ 3 / c + 6 * x ^ 5 / d) x := by
  have h : HasDerivAt (fun x : ℝ => a + x ^ 2 / b + x ^ 4 / c + x ^ 6 / d)
      (0 + ((2:ℕ):ℝ) * x ^ (2 - 1) / b + ((4:ℕ):ℝ) * x ^ (4 - 1) / c + ((6:ℕ):ℝ) * x ^ (6 - 1) / d) x :=
    (((hasDerivAt_const x a).add ((hasDerivAt_pow 2 x).div_const b)).add
      ((hasDerivAt_pow 4 x).div_const c)).add ((hasDerivAt_pow 6 x).div_const d)
  exact h.congr_deriv (by norm_num)

lemma eventually_series_branch {x₀ : ℝ} (h : |x₀| < 0.5) : ∀ᶠ x in 𝓝 x₀, BR x = seriesR x := by
  have ho : IsOpen {x : ℝ | |x| < 0.5} := isOpen_lt continuous_abs continuous_const
  filter_upwards [ho.mem_nhds h] with x hx
  exact bintgs_series_branch (le_of_lt hx)

/-- derivative of every column inside the series regime (`|x₀| < 0.5`) -/
theorem bintgs_series_hasDerivAt {x₀ : ℝ} (h : |x₀| < 0.5) :
    HasDerivAt (fun x => (BR x).c0) (2 * x₀ / 3 + 4 * x₀ ^ 3 / 60 + 6 * x₀ ^ 5 / 2520) x₀ ∧
    HasDerivAt (fun x => (BR x).c1) (-2 / 3 - 3 * x₀ ^ 2 / 15 - 5 * x₀ ^ 4 / 420) x₀ ∧
    HasDerivAt (fun x => (BR x).c2) (2 * x₀ / 5 + 4 * x₀ ^ 3 / 84 + 6 * x₀ ^ 5 / 3240) x₀ ∧
    HasDerivAt (fun x => (BR x).c3) (-2 / 5 - 3 * x₀ ^ 2 / 21 - 5 * x₀ ^ 4 / 540) x₀ ∧
    HasDerivAt (fun x => (BR x).c4) (2 * x₀ / 7 + 4 * x₀ ^ 3 / 108 + 6 * x₀ ^ 5 / 3960) x₀ ∧
    HasDerivAt (fun x => (BR x).c5) (-2 / 7 - 3 * x₀ ^ 2 / 27 - 5 * x₀ ^ 4 / 660) x₀ ∧
    HasDerivAt (fun x => (BR x).c6) (2 * x₀ / 9 + 4 * x₀ ^ 3 / 132 + 6 * x₀ ^ 5 / 4680) x₀ := by
  have ev := eventually_series_branch h
  refine ⟨?_, ?_, ?_, ?_, ?_, ?_, ?_⟩
  · exact (hasDerivAt_evenPoly 2 3 60 2520 x₀).congr_of_eventuallyEq (ev.mono fun x hx => by simp only [hx, seriesR])
  · exact (hasDerivAt_oddPoly (-2 / 3) 15 420 x₀).congr_of_eventuallyEq (ev.mono fun x hx => by simp only [hx, seriesR])
  · exact (hasDerivAt_evenPoly (2 / 3) 5 84 3240 x₀).congr_of_eventuallyEq (ev.mono fun x hx => by simp only [hx, seriesR])
  · exact (hasDerivAt_oddPoly (-2 / 5) 21 540 x₀).congr_of_eventuallyEq (ev.mono fun x hx => by simp only [hx, seriesR])
  · exact (hasDerivAt_evenPoly (2 / 5) 7 108 3960 x₀).congr_of_eventuallyEq (ev.mono fun x hx => by simp only [hx, seriesR])
  · exact (hasDerivAt_oddPoly (-2 / 7) 27 660 x₀).congr_of_eventuallyEq (ev.mono fun x hx => by simp only [hx, seriesR])
  · exact (hasDerivAt_evenPoly (2 / 7) 9 132 4680 x₀).congr_of_eventuallyEq (ev.mono fun x hx => by simp only [hx, seriesR])

example : |(0:ℝ)| < 0.5 ∧ |(-0.2:ℝ)| < 0.5 := by
  rw [abs_zero, abs_of_neg (by norm_num)]; norm_num

/-- REPAIRED (F27): at `x = 0` (equal exponents, `beta = 0`) the odd columns `b2, b4, b6` have the slope
    `B_k'(0) = −∫₋₁^¹ η^{k+1} dη = −2/(k+2)` of the integrals, the even columns have slope `0` -/
theorem bintgs_odd_slope_at_zero :
    HasDerivAt (fun x => (BR x).c1) (-2 / 3) 0 ∧
    HasDerivAt (fun x => (BR x).c3) (-2 / 5) 0 ∧
    HasDerivAt (fun x => (BR x).c5) (-2 / 7) 0 ∧
    HasDerivAt (fun x => (BR x).c0) 0 0 ∧
    HasDerivAt (fun x => (BR x).c2) 0 0 ∧
    HasDerivAt (fun x => (BR x).c4) 0 0 ∧
    HasDerivAt (fun x => (BR x).c6) 0 0 := by
  obtain ⟨d0, d1, d2, d3, d4, d5, d6⟩ := bintgs_series_hasDerivAt (x₀ := 0) (by norm_num)
  refine ⟨?_, ?_, ?_, ?_, ?_, ?_, ?_⟩
  · convert d1 using 1; norm_num
  · convert d3 using 1; norm_num
  · convert d5 using 1; norm_num
  · convert d0 using 1; norm_num
  · convert d2 using 1; norm_num
  · convert d4 using 1; norm_num
  · convert d6 using 1; norm_num

/-- `bintgs` as it was BEFORE the repair (three regimes: recursion, series for `1e-6 < |x| ≤ 0.5`,
    the constants `B_k(0)` for `|x| ≤ 1e-6`) -/
def bintgsOld (x : ℝ) : Aux ℝ :=
  if 0.5 < |x| then BR x else if 1.0e-6 < |x| then seriesR x else ⟨2, 0, 2 / 3, 0, 2 / 5, 0, 2 / 7⟩

/-- the repair changed nothing outside the window `|x| ≤ 1e-6` … -/
theorem bintgsOld_eq_outside_window {x : ℝ} (h : 1.0e-6 < |x|) : bintgsOld x = BR x := by
  unfold bintgsOld
  by_cases h0 : 0.5 < |x|
  · rw [if_pos h0]
  · rw [if_neg h0, if_pos h, bintgs_series_branch (not_lt.mp h0)]

/-- … and nothing AT `x = 0` as far as values go … -/
theorem bintgsOld_zero : bintgsOld 0 = BR 0 := by
  rw [bintgs_series_branch (by norm_num)]
  simp only [bintgsOld, seriesR, abs_zero]
  norm_num

/-- … but (DEFECT F27, repaired) the removed branch is locally constant at `0`: every column of the old
    function has derivative `0` there, so the odd columns lost the slope `−2/(k+2)` (`0 ≠ −2/3`): for equal
    exponents the `B`-part of `d(overlap)/dR` was dropped by autograd. -/
theorem old_branch_dropped_slope :
    HasDerivAt (fun x => (bintgsOld x).c1) 0 0 ∧
    HasDerivAt (fun x => (bintgsOld x).c3) 0 0 ∧
    HasDerivAt (fun x => (bintgsOld x).c5) 0 0 ∧
    ¬ HasDerivAt (fun x => (bintgsOld x).c1) (-2 / 3) 0 ∧
    ¬ HasDerivAt (fun x => (bintgsOld x).c3) (-2 / 5) 0 ∧
    ¬ HasDerivAt (fun x => (bintgsOld x).c5) (-2 / 7) 0 := by
  have ev : ∀ᶠ x in 𝓝 (0:ℝ), bintgsOld x = ⟨2, 0, 2 / 3, 0, 2 / 5, 0, 2 / 7⟩ := by
    filter_upwards [Metric.ball_mem_nhds (0:ℝ) (by norm_num : (0:ℝ) < 1.0e-6)] with x hx
    rw [Metric.mem_ball, Real.dist_eq, sub_zero] at hx
    have h1 : ¬ (1.0e-6 < |x|) := not_lt.mpr hx.le
    have h0 : ¬ (0.5 < |x|) := fun h => h1 (lt_trans (by norm_num) h)
    rw [bintgsOld, if_neg h0, if_neg h1]
  have d1 : HasDerivAt (fun x => (bintgsOld x).c1) 0 0 :=
    (hasDerivAt_const (0:ℝ) (0:ℝ)).congr_of_eventuallyEq (ev.mono fun x hx => by simp only [hx])
  have d3 : HasDerivAt (fun x => (bintgsOld x).c3) 0 0 :=
    (hasDerivAt_const (0:ℝ) (0:ℝ)).congr_of_eventuallyEq (ev.mono fun x hx => by simp only [hx])
  have d5 : HasDerivAt (fun x => (bintgsOld x).c5) 0 0 :=
    (hasDerivAt_const (0:ℝ) (0:ℝ)).congr_of_eventuallyEq (ev.mono fun x hx => by simp only [hx])
  refine ⟨d1, d3, d5, fun h => ?_, fun h => ?_, fun h => ?_⟩
  · have := d1.unique h; norm_num at this
  · have := d3.unique h; norm_num at this
  · have := d5.unique h; norm_num at this

end slope

/-! ## 3. equal exponents: the closed forms

`beta = 0`, so the `B` tables are the series branch evaluated at `x = 0` (`bintgs_at_zero`).  The right-hand sides were obtained independently
(symbolic integration of the normalised STO products in prolate spheroidal coordinates with sympy, checked
against the quadrature oracle `vf/oracle_nddo.py` to 3e-14); orbitals on both centres oriented along common
axes, centre j at `+R` on the local z axis (`diFactors` convention), `p = ζR`. -/

lemma rpow_sq_eq {y : ℝ} (hy : 0 ≤ y) {e : ℝ} {n : ℕ} (h : 2 * e = n) :
    (y * y) ^ e = y ^ n := by
  rw [← sq, ← Real.rpow_natCast y 2, ← Real.rpow_mul hy, ← Real.rpow_natCast y n]
  congr 1

lemma rpow_half_mul_self {y : ℝ} (hy : 0 < y) {e : ℝ} {n : ℕ} (h : 2 * e = n) :
    y ^ e * y ^ e = y ^ n := by
  rw [← Real.rpow_add hy, ← Real.rpow_natCast y n]
  congr 1; linarith

/-- 1s–1s (`jcall = 2`) -/
theorem overlap_1s1s_equal_zeta {ζ r : ℝ} (hζ : 0 < ζ) (hr : 0 < r) (zpa zpb : ℝ) :
    (locR 2 ζ zpa ζ zpb r).s111 = Real.exp (-(ζ * r)) * (1 + ζ * r + (ζ * r) ^ 2 / 3) := by
  have hp : ζ * r ≠ 0 := (mul_pos hζ hr).ne'
  have hα : 1 / 2 * r * (ζ + ζ) = ζ * r := by ring
  have e1 : (ζ * ζ * r ^ 2) ^ ((3:ℝ) / 2) = (ζ * r) ^ 3 := by
    have : ζ * ζ * r ^ 2 = (ζ * r) * (ζ * r) := by ring
    rw [this]; exact rpow_sq_eq (by positivity) (by norm_num)
  simp only [locR, localOverlap, tables, setAB, aintgs, bintgs, poly11ss, absR, pwR, sub_self, mul_zero, abs_zero]
  norm_num
  rw [hα, e1]
  field_simp
  ring


example : (0:ℝ) < 1.2 ∧ (0:ℝ) < 1.4 := by norm_num

/-- equal exponents, both atoms in the second row (`jcall = 4`), `p = ζ R` -/
theorem overlap_22_equal_zeta {ζ r : ℝ} (hζ : 0 < ζ) (hr : 0 < r) :
    let p := ζ * r
    let E := Real.exp (-p)
    let S := diFactors (locR 4 ζ ζ ζ ζ r)
    S.s111 = E * (1 + p + 4 * p ^ 2 / 9 + p ^ 3 / 9 + p ^ 4 / 45) ∧
    S.s211 = E * (p / 2 + p ^ 2 / 2 + 7 * p ^ 3 / 30 + p ^ 4 / 15) / Real.sqrt 3 ∧
    S.s121 = -(E * (p / 2 + p ^ 2 / 2 + 7 * p ^ 3 / 30 + p ^ 4 / 15) / Real.sqrt 3) ∧
    S.s221 = E * (1 + p + p ^ 2 / 5 - 2 * p ^ 3 / 15 - p ^ 4 / 15) ∧
    S.s222 = E * (1 + p + 2 * p ^ 2 / 5 + p ^ 3 / 15) := by
  intro p E S
  have hp : ζ * r ≠ 0 := (mul_pos hζ hr).ne'
  have hr0 : r ≠ 0 := hr.ne'
  have hz0 : ζ ≠ 0 := hζ.ne'
  have h3 : Real.sqrt 3 ≠ 0 := by positivity
  have hα : 1 / 2 * r * (ζ + ζ) = ζ * r := by ring
  have e1 : (ζ * ζ) ^ ((5:ℝ) / 2) = ζ ^ 5 := rpow_sq_eq hζ.le (by norm_num)
  refine ⟨?_, ?_, ?_, ?_, ?_⟩ <;>
  · simp only [S, E, p, diFactors, locR, localOverlap, tables, setAB, aintgs, bintgs, poly22ss, poly22ps, poly22sp,
      poly22sig, poly22pi, absR, pwR, sub_self, mul_zero, abs_zero]
    norm_num
    simp only [hα, e1]
    field_simp
    ring

/-- equal exponents, both atoms in the third row (`jcall = 6`) -/
theorem overlap_33_equal_zeta {ζ r : ℝ} (hζ : 0 < ζ) (hr : 0 < r) :
    let p := ζ * r
    let E := Real.exp (-p)
    let S := diFactors (locR 6 ζ ζ ζ ζ r)
    S.s111 = E * (1 + p + 7 * p ^ 2 / 15 + 2 * p ^ 3 / 15 + 2 * p ^ 4 / 75 + p ^ 5 / 225 + p ^ 6 / 1575) ∧
    S.s211 = E * (p / 3 + p ^ 2 / 3 + 4 * p ^ 3 / 25 + 11 * p ^ 4 / 225 + 17 * p ^ 5 / 1575 + p ^ 6 / 525)
               / Real.sqrt 3 ∧
    S.s121 = -(E * (p / 3 + p ^ 2 / 3 + 4 * p ^ 3 / 25 + 11 * p ^ 4 / 225 + 17 * p ^ 5 / 1575 + p ^ 6 / 525)
               / Real.sqrt 3) ∧
    S.s221 = E * (1 + p + 9 * p ^ 2 / 25 + 2 * p ^ 3 / 75 - 34 * p ^ 4 / 1575 - 13 * p ^ 5 / 1575 - p ^ 6 / 525) ∧
    S.s222 = E * (1 + p + 34 * p ^ 2 / 75 + 3 * p ^ 3 / 25 + 31 * p ^ 4 / 1575 + p ^ 5 / 525) := by
  intro p E S
  have hp : ζ * r ≠ 0 := (mul_pos hζ hr).ne'
  have hr0 : r ≠ 0 := hr.ne'
  have hz0 : ζ ≠ 0 := hζ.ne'
  have h3 : Real.sqrt 3 ≠ 0 := by positivity
  have hα : 1 / 2 * r * (ζ + ζ) = ζ * r := by ring
  have e1 : (ζ * ζ) ^ ((7:ℝ) / 2) = ζ ^ 7 := rpow_sq_eq hζ.le (by norm_num)
  have e2 : ζ ^ ((7:ℝ) / 2) * ζ ^ ((7:ℝ) / 2) = ζ ^ 7 := rpow_half_mul_self hζ (by norm_num)
  refine ⟨?_, ?_, ?_, ?_, ?_⟩ <;>
  · simp only [S, E, p, diFactors, locR, localOverlap, tables, setAB, aintgs, bintgs, poly33ss, poly33ps, poly33sp,
      poly33sig, poly33pi, absR, pwR, sub_self, mul_zero, abs_zero]
    norm_num
    simp only [hα, e1, e2]
    field_simp
    ring

/-! ## 4. SPECIFICATION: the overlap of two normalised real Slater orbitals in prolate spheroidal coordinates

Orbital `(n l m)` with exponent `ζ`: `N r^{n-1} e^{-ζr} Y_{lm}`, `N² = (2ζ)^{2n+1}/(2n)!`, real harmonics
`s = 1/√(4π)`, `p_σ = √(3/4π)·z/r`, `p_π = √(3/4π)·x/r`; centre 1 at the origin, centre 2 at `(0,0,R)`,
both with the same axes.  With `r₁ = (R/2)(ξ+η)`, `r₂ = (R/2)(ξ−η)`, `z₁ = (R/2)(1+ξη)`, `z₂ = (R/2)(ξη−1)`,
`ρ² = (R/2)²(ξ²−1)(1−η²)`, `dV = (R/2)³(ξ²−η²) dξ dη dφ` the product of the two orbitals times the volume
element is `(R/2)^{n₁+n₂+1} · P(ξ,η) · e^{-αξ-βη}` with the polynomial
`P = (ξ+η)^{n₁-1-l₁} (ξ−η)^{n₂-1-l₂} · [(1+ξη)^{l₁}(ξη−1)^{l₂}  or  (ξ²−1)(1−η²)] · (ξ²−η²)`,
`α = R(ζ₁+ζ₂)/2`, `β = R(ζ₁−ζ₂)/2`; the φ integral gives `2π` (σ) or `π` (π).  Integrating the monomial
`ξ^i η^j e^{-αξ-βη}` gives `A_i(α)·B_j(β)`: `contract`.  `stoPoly` builds `P` by MECHANICAL polynomial
multiplication — no coefficient is typed in by hand. -/

/-- polynomials in `(ξ, η)` as lists of monomials `(i, j, c)` = `c·ξ^i·η^j` -/
abbrev Poly2 := List (ℕ × ℕ × ℤ)

def pmul (p q : Poly2) : Poly2 :=
  p.flatMap fun a => q.map fun b => (a.1 + b.1, a.2.1 + b.2.1, a.2.2 * b.2.2)

def ppow (p : Poly2) : ℕ → Poly2
  | 0 => [(0, 0, 1)]
  | n + 1 => pmul p (ppow p n)

def Aux.get (a : Aux ℝ) : ℕ → ℝ
  | 0 => a.c0 | 1 => a.c1 | 2 => a.c2 | 3 => a.c3 | 4 => a.c4 | 5 => a.c5 | 6 => a.c6 | _ => 0

/-- the linear functional `ξ^i η^j ↦ A_i·B_j` -/
def contract (A B : Aux ℝ) (p : Poly2) : ℝ :=
  (p.map fun t => (t.2.2 : ℝ) * Aux.get A t.1 * Aux.get B t.2.1).sum

def pRA : Poly2 := [(1, 0, 1), (0, 1, 1)]       -- r₁/(R/2) = ξ + η
def pRB : Poly2 := [(1, 0, 1), (0, 1, -1)]      -- r₂/(R/2) = ξ − η
def pZA : Poly2 := [(0, 0, 1), (1, 1, 1)]       -- z₁/(R/2) = 1 + ξη
def pZB : Poly2 := [(1, 1, 1), (0, 0, -1)]      -- z₂/(R/2) = ξη − 1
def pRho2 : Poly2 := pmul [(2, 0, 1), (0, 0, -1)] [(0, 0, 1), (0, 2, -1)]   -- ρ²/(R/2)² = (ξ²−1)(1−η²)
def pJac : Poly2 := [(2, 0, 1), (0, 2, -1)]     -- dV/((R/2)³ dξ dη dφ) = ξ² − η²

def stoPoly (n1 l1 n2 l2 m : ℕ) : Poly2 :=
  let radial := pmul (ppow pRA (n1 - 1 - l1)) (ppow pRB (n2 - 1 - l2))
  let ang := if m = 0 then pmul (ppow pZA l1) (ppow pZB l2) else pRho2
  pmul (pmul radial ang) pJac

/-- `N = √((2ζ)^{2n+1}/(2n)!)` -/
def stoNorm (n : ℕ) (ζ : ℝ) : ℝ := Real.sqrt ((2 * ζ) ^ (2 * n + 1) / ((2 * n).factorial : ℝ))

/-- harmonics constants times the φ integral: `√((2l₁+1)(2l₂+1))/(4π)·2π` (σ), `3/(4π)·π` (π) -/
def angFactor (l1 l2 m : ℕ) : ℝ :=
  if m = 0 then Real.sqrt (((2 * l1 + 1) * (2 * l2 + 1) : ℕ)) / 2 else 3 / 4

def specPref (n1 l1 n2 l2 m : ℕ) (ζ1 ζ2 R : ℝ) : ℝ :=
  stoNorm n1 ζ1 * stoNorm n2 ζ2 * angFactor l1 l2 m * (R / 2) ^ (n1 + n2 + 1)

/-- the overlap `⟨n₁l₁m, ζ₁ @ 0 | n₂l₂m, ζ₂ @ (0,0,R)⟩` given tables `A_i(α)`, `B_j(β)` -/
def stoSpec (n1 l1 n2 l2 m : ℕ) (ζ1 ζ2 R : ℝ) (A B : Aux ℝ) : ℝ :=
  specPref n1 l1 n2 l2 m ζ1 ζ2 R * contract A B (stoPoly n1 l1 n2 l2 m)

lemma specPref_nonneg (n1 l1 n2 l2 m : ℕ) {ζ1 ζ2 R : ℝ} (hR : 0 ≤ R) : 0 ≤ specPref n1 l1 n2 l2 m ζ1 ζ2 R := by
  unfold specPref stoNorm angFactor
  split_ifs <;> positivity

lemma specPref_sq (n1 l1 n2 l2 m : ℕ) {ζ1 ζ2 R : ℝ} (h1 : 0 ≤ ζ1) (h2 : 0 ≤ ζ2) :
    specPref n1 l1 n2 l2 m ζ1 ζ2 R ^ 2 =
      (2 * ζ1) ^ (2 * n1 + 1) / ((2 * n1).factorial : ℝ) * ((2 * ζ2) ^ (2 * n2 + 1) / ((2 * n2).factorial : ℝ))
        * (if m = 0 then (((2 * l1 + 1) * (2 * l2 + 1) : ℕ) : ℝ) / 4 else 9 / 16) * (R / 2) ^ (2 * (n1 + n2 + 1)) := by
  unfold specPref stoNorm angFactor
  have a1 : 0 ≤ (2 * ζ1) ^ (2 * n1 + 1) / ((2 * n1).factorial : ℝ) := by positivity
  have a2 : 0 ≤ (2 * ζ2) ^ (2 * n2 + 1) / ((2 * n2).factorial : ℝ) := by positivity
  rw [mul_pow, mul_pow, mul_pow, Real.sq_sqrt a1, Real.sq_sqrt a2, ← pow_mul, mul_comm (n1 + n2 + 1) 2]
  split_ifs
  · rw [div_pow, Real.sq_sqrt (by positivity)]; norm_num
  · norm_num

lemma sq_rpow_half {z : ℝ} (hz : 0 ≤ z) {e : ℝ} {k : ℕ} (h : e * 2 = k) : (z ^ e) ^ 2 = z ^ k := by
  rw [← Real.rpow_natCast (z ^ e) 2, ← Real.rpow_mul hz, ← Real.rpow_natCast z k]
  congr 1

lemma sq32 {z : ℝ} (hz : 0 ≤ z) : (z ^ ((3:ℝ) / 2)) ^ 2 = z ^ 3 := sq_rpow_half hz (k := 3) (by norm_num)
lemma sq52 {z : ℝ} (hz : 0 ≤ z) : (z ^ ((5:ℝ) / 2)) ^ 2 = z ^ 5 := sq_rpow_half hz (k := 5) (by norm_num)
lemma sq72 {z : ℝ} (hz : 0 ≤ z) : (z ^ ((7:ℝ) / 2)) ^ 2 = z ^ 7 := sq_rpow_half hz (k := 7) (by norm_num)
lemma sqrt3_sq : Real.sqrt 3 ^ 2 = 3 := Real.sq_sqrt (by norm_num)
lemma sqrt10_sq : Real.sqrt 10 ^ 2 = 10 := Real.sq_sqrt (by norm_num)
lemma sqrt30_sq : Real.sqrt 30 ^ 2 = 30 := Real.sq_sqrt (by norm_num)

lemma eq_of_sq {x y : ℝ} (hx : 0 ≤ x) (hy : 0 ≤ y) (h : x ^ 2 = y ^ 2) : x = y :=
  (sq_eq_sq₀ hx hy).mp h

/-! ### every polynomial the code writes is (±) the mechanical expansion -/

macro "poly_tac" : tactic =>
  `(tactic| (simp only [poly11ss, poly21ss, poly21ps, poly22ss, poly22ps, poly22sp, poly22sig, poly22pi, poly31ss,
      poly31ps, poly32ss, poly32ps, poly32sp, poly32sig, poly32pi, poly33ss, poly33ps, poly33sp, poly33sig, poly33pi]
             norm_num [contract, stoPoly, pmul, ppow, pRA, pRB, pZA, pZB, pRho2, pJac, Aux.get]
             ring))

theorem poly11ss_spec (A B : Aux ℝ) : poly11ss A B = contract A B (stoPoly 1 0 1 0 0) := by poly_tac
theorem poly21ss_spec (A B : Aux ℝ) : poly21ss A B = contract A B (stoPoly 2 0 1 0 0) := by poly_tac
theorem poly21ps_spec (A B : Aux ℝ) : poly21ps A B = contract A B (stoPoly 2 1 1 0 0) := by poly_tac
theorem poly22ss_spec (A B : Aux ℝ) : poly22ss A B = contract A B (stoPoly 2 0 2 0 0) := by poly_tac
theorem poly22ps_spec (A B : Aux ℝ) : poly22ps A B = contract A B (stoPoly 2 1 2 0 0) := by poly_tac
theorem poly22sp_spec (A B : Aux ℝ) : poly22sp A B = -contract A B (stoPoly 2 0 2 1 0) := by poly_tac
theorem poly22sig_spec (A B : Aux ℝ) : poly22sig A B = contract A B (stoPoly 2 1 2 1 0) := by poly_tac
theorem poly22pi_spec (A B : Aux ℝ) : poly22pi A B = contract A B (stoPoly 2 1 2 1 1) := by poly_tac
theorem poly31ss_spec (A B : Aux ℝ) : poly31ss A B = contract A B (stoPoly 3 0 1 0 0) := by poly_tac
theorem poly31ps_spec (A B : Aux ℝ) : poly31ps A B = contract A B (stoPoly 3 1 1 0 0) := by poly_tac
theorem poly32ss_spec (A B : Aux ℝ) : poly32ss A B = contract A B (stoPoly 3 0 2 0 0) := by poly_tac
theorem poly32ps_spec (A B : Aux ℝ) : poly32ps A B = contract A B (stoPoly 3 1 2 0 0) := by poly_tac
theorem poly32sp_spec (A B : Aux ℝ) : poly32sp A B = -contract A B (stoPoly 3 0 2 1 0) := by poly_tac
theorem poly32sig_spec (A B : Aux ℝ) : poly32sig A B = -contract A B (stoPoly 3 1 2 1 0) := by poly_tac
theorem poly32pi_spec (A B : Aux ℝ) : poly32pi A B = contract A B (stoPoly 3 1 2 1 1) := by poly_tac
theorem poly33ss_spec (A B : Aux ℝ) : poly33ss A B = contract A B (stoPoly 3 0 3 0 0) := by poly_tac
theorem poly33ps_spec (A B : Aux ℝ) : poly33ps A B = contract A B (stoPoly 3 1 3 0 0) := by poly_tac
theorem poly33sp_spec (A B : Aux ℝ) : poly33sp A B = -contract A B (stoPoly 3 0 3 1 0) := by poly_tac
theorem poly33sig_spec (A B : Aux ℝ) : poly33sig A B = -contract A B (stoPoly 3 1 3 1 0) := by poly_tac
theorem poly33pi_spec (A B : Aux ℝ) : poly33pi A B = contract A B (stoPoly 3 1 3 1 1) := by poly_tac

/-! ### every prefactor the code writes is the product of the two normalisation constants, the angular
constant and `(R/2)^{n₁+n₂+1}` -/

macro "pref_tac" hza:term "," hzb:term "," hr:term : tactic =>
  `(tactic| (apply eq_of_sq (by positivity) (specPref_nonneg _ _ _ _ _ (le_of_lt $hr))
             rw [specPref_sq _ _ _ _ _ (le_of_lt $hza) (le_of_lt $hzb)]
             simp only [div_pow, mul_pow, sq32 (le_of_lt $hza), sq52 (le_of_lt $hza), sq72 (le_of_lt $hza), sq32 (le_of_lt $hzb),
               sq52 (le_of_lt $hzb), sq72 (le_of_lt $hzb), sq52 (le_of_lt (mul_pos $hzb $hza)), sq72 (le_of_lt (mul_pos $hzb $hza)),
               sq32 (le_of_lt (mul_pos (mul_pos $hza $hzb) (pow_pos $hr 2))), sqrt3_sq, sqrt10_sq, sqrt30_sq]
             norm_num [Nat.factorial]
             try ring))

lemma pref11ss {za zb r : ℝ} (hza : 0 < za) (hzb : 0 < zb) (hr : 0 < r) :
    (za * zb * r ^ 2) ^ ((3:ℝ) / 2) / 4 = specPref 1 0 1 0 0 za zb r := by
  pref_tac hza, hzb, hr
lemma pref21ss {za zb r : ℝ} (hza : 0 < za) (hzb : 0 < zb) (hr : 0 < r) :
    zb ^ ((3:ℝ) / 2) * za ^ ((5:ℝ) / 2) * r ^ 4 / (Real.sqrt 3 * 8) = specPref 2 0 1 0 0 za zb r := by
  pref_tac hza, hzb, hr
lemma pref21ps {za zb r : ℝ} (hza : 0 < za) (hzb : 0 < zb) (hr : 0 < r) :
    zb ^ ((3:ℝ) / 2) * za ^ ((5:ℝ) / 2) * r ^ 4 / 8 = specPref 2 1 1 0 0 za zb r := by
  pref_tac hza, hzb, hr
lemma pref22ss {za zb r : ℝ} (hza : 0 < za) (hzb : 0 < zb) (hr : 0 < r) :
    (zb * za) ^ ((5:ℝ) / 2) * r ^ 5 / 48 = specPref 2 0 2 0 0 za zb r := by
  pref_tac hza, hzb, hr
lemma pref22ps {za zb r : ℝ} (hza : 0 < za) (hzb : 0 < zb) (hr : 0 < r) :
    (zb * za) ^ ((5:ℝ) / 2) * r ^ 5 / (16 * Real.sqrt 3) = specPref 2 1 2 0 0 za zb r := by
  pref_tac hza, hzb, hr
lemma pref22sp {za zb r : ℝ} (hza : 0 < za) (hzb : 0 < zb) (hr : 0 < r) :
    (zb * za) ^ ((5:ℝ) / 2) * r ^ 5 / (16 * Real.sqrt 3) = specPref 2 0 2 1 0 za zb r := by
  pref_tac hza, hzb, hr
lemma pref22sig {za zb r : ℝ} (hza : 0 < za) (hzb : 0 < zb) (hr : 0 < r) :
    (zb * za) ^ ((5:ℝ) / 2) * r ^ 5 / 16 = specPref 2 1 2 1 0 za zb r := by
  pref_tac hza, hzb, hr
lemma pref22pi {za zb r : ℝ} (hza : 0 < za) (hzb : 0 < zb) (hr : 0 < r) :
    (zb * za) ^ ((5:ℝ) / 2) * r ^ 5 / 32 = specPref 2 1 2 1 1 za zb r := by
  pref_tac hza, hzb, hr
lemma pref31ss {za zb r : ℝ} (hza : 0 < za) (hzb : 0 < zb) (hr : 0 < r) :
    zb ^ ((3:ℝ) / 2) * za ^ ((7:ℝ) / 2) * r ^ 5 / (Real.sqrt 10 * 24) = specPref 3 0 1 0 0 za zb r := by
  pref_tac hza, hzb, hr
lemma pref31ps {za zb r : ℝ} (hza : 0 < za) (hzb : 0 < zb) (hr : 0 < r) :
    zb ^ ((3:ℝ) / 2) * za ^ ((7:ℝ) / 2) * r ^ 5 / (8 * Real.sqrt 30) = specPref 3 1 1 0 0 za zb r := by
  pref_tac hza, hzb, hr
lemma pref32ss {za zb r : ℝ} (hza : 0 < za) (hzb : 0 < zb) (hr : 0 < r) :
    zb ^ ((5:ℝ) / 2) * za ^ ((7:ℝ) / 2) * r ^ 6 / (Real.sqrt 30 * 48) = specPref 3 0 2 0 0 za zb r := by
  pref_tac hza, hzb, hr
lemma pref32ps {za zb r : ℝ} (hza : 0 < za) (hzb : 0 < zb) (hr : 0 < r) :
    zb ^ ((5:ℝ) / 2) * za ^ ((7:ℝ) / 2) * r ^ 6 / (48 * Real.sqrt 10) = specPref 3 1 2 0 0 za zb r := by
  pref_tac hza, hzb, hr
lemma pref32sp {za zb r : ℝ} (hza : 0 < za) (hzb : 0 < zb) (hr : 0 < r) :
    zb ^ ((5:ℝ) / 2) * za ^ ((7:ℝ) / 2) * r ^ 6 / (48 * Real.sqrt 10) = specPref 3 0 2 1 0 za zb r := by
  pref_tac hza, hzb, hr
lemma pref32sig {za zb r : ℝ} (hza : 0 < za) (hzb : 0 < zb) (hr : 0 < r) :
    zb ^ ((5:ℝ) / 2) * za ^ ((7:ℝ) / 2) * r ^ 6 / (16 * Real.sqrt 30) = specPref 3 1 2 1 0 za zb r := by
  pref_tac hza, hzb, hr
lemma pref32pi {za zb r : ℝ} (hza : 0 < za) (hzb : 0 < zb) (hr : 0 < r) :
    zb ^ ((5:ℝ) / 2) * za ^ ((7:ℝ) / 2) * r ^ 6 / (32 * Real.sqrt 30) = specPref 3 1 2 1 1 za zb r := by
  pref_tac hza, hzb, hr
lemma pref33ss {za zb r : ℝ} (hza : 0 < za) (hzb : 0 < zb) (hr : 0 < r) :
    (zb * za) ^ ((7:ℝ) / 2) * r ^ 7 / 1440 = specPref 3 0 3 0 0 za zb r := by
  pref_tac hza, hzb, hr
lemma pref33ps {za zb r : ℝ} (hza : 0 < za) (hzb : 0 < zb) (hr : 0 < r) :
    (zb * za) ^ ((7:ℝ) / 2) * r ^ 7 / (480 * Real.sqrt 3) = specPref 3 1 3 0 0 za zb r := by
  pref_tac hza, hzb, hr
lemma pref33sp {za zb r : ℝ} (hza : 0 < za) (hzb : 0 < zb) (hr : 0 < r) :
    (zb * za) ^ ((7:ℝ) / 2) * r ^ 7 / (480 * Real.sqrt 3) = specPref 3 0 3 1 0 za zb r := by
  pref_tac hza, hzb, hr
lemma pref33sig {za zb r : ℝ} (hza : 0 < za) (hzb : 0 < zb) (hr : 0 < r) :
    zb ^ ((7:ℝ) / 2) * za ^ ((7:ℝ) / 2) * r ^ 7 / 480 = specPref 3 1 3 1 0 za zb r := by
  pref_tac hza, hzb, hr
lemma pref33pi {za zb r : ℝ} (hza : 0 < za) (hzb : 0 < zb) (hr : 0 < r) :
    zb ^ ((7:ℝ) / 2) * za ^ ((7:ℝ) / 2) * r ^ 7 / 960 = specPref 3 1 3 1 1 za zb r := by
  pref_tac hza, hzb, hr

/-! ## 5. the code equals the specification, branch by branch

For every `jcall` and every entry: the factor with which the entry enters the molecular-frame block `di`
(`diFactors`: `S111, S211, −S121, −S221, S222`) equals `stoSpec` evaluated on the SAME `A`/`B` tables the
code computes (`tables`).  Together with `aintgs_recurrence`/`bintgs_recurrence` (the tables obey the
integration-by-parts identities of the defining integrals, exactly for `A` and in the regime `|β| > 0.5`
for `B`) this identifies the code's overlaps with the STO overlap integrals; the only deviation is the
truncated `B` series (`bintgs_series_violates_exact_recurrence`).  Entries the Python leaves at zero
(p functions on hydrogen) are zero here too. -/

abbrev tabR (jcall : ℕ) (r z1 z2 : ℝ) : Aux ℝ × Aux ℝ := tables Real.exp absR pwR jcall r z1 z2

macro "close_tac" : tactic => `(tactic| first | done | exact Or.inl trivial | ring1 | (left; simp only [pwR]; ring1))

theorem local_eq_spec_11 {zsa zpa zsb zpb r : ℝ} (hzsa : 0 < zsa) (hzsb : 0 < zsb)
    (hr : 0 < r) :
    let S := diFactors (locR 2 zsa zpa zsb zpb r)
    S.s111 = stoSpec 1 0 1 0 0 zsa zsb r (tabR 2 r zsa zsb).1 (tabR 2 r zsa zsb).2 ∧
    S.s211 = 0 ∧
    S.s121 = 0 ∧
    S.s221 = 0 ∧
    S.s222 = 0 := by
  intro S
  refine ⟨?_, ?_, ?_, ?_, ?_⟩
  · simp only [S, diFactors, locR, localOverlap, stoSpec, tabR, ← pref11ss hzsa hzsb hr, poly11ss_spec]
    norm_num
    close_tac
  · simp only [S, diFactors, locR, localOverlap]
    norm_num
  · simp only [S, diFactors, locR, localOverlap]
    norm_num
  · simp only [S, diFactors, locR, localOverlap]
    norm_num
  · simp only [S, diFactors, locR, localOverlap]
    norm_num

theorem local_eq_spec_21 {zsa zpa zsb zpb r : ℝ} (hzsa : 0 < zsa) (hzpa : 0 < zpa) (hzsb : 0 < zsb)
    (hr : 0 < r) :
    let S := diFactors (locR 3 zsa zpa zsb zpb r)
    S.s111 = stoSpec 2 0 1 0 0 zsa zsb r (tabR 3 r zsa zsb).1 (tabR 3 r zsa zsb).2 ∧
    S.s211 = stoSpec 2 1 1 0 0 zpa zsb r (tabR 3 r zpa zsb).1 (tabR 3 r zpa zsb).2 ∧
    S.s121 = 0 ∧
    S.s221 = 0 ∧
    S.s222 = 0 := by
  intro S
  refine ⟨?_, ?_, ?_, ?_, ?_⟩
  · simp only [S, diFactors, locR, localOverlap, stoSpec, tabR, ← pref21ss hzsa hzsb hr, poly21ss_spec]
    norm_num
    close_tac
  · simp only [S, diFactors, locR, localOverlap, stoSpec, tabR, ← pref21ps hzpa hzsb hr, poly21ps_spec]
    norm_num
    close_tac
  · simp only [S, diFactors, locR, localOverlap]
    norm_num
  · simp only [S, diFactors, locR, localOverlap]
    norm_num
  · simp only [S, diFactors, locR, localOverlap]
    norm_num

theorem local_eq_spec_22 {zsa zpa zsb zpb r : ℝ} (hzsa : 0 < zsa) (hzpa : 0 < zpa) (hzsb : 0 < zsb) (hzpb : 0 < zpb)
    (hr : 0 < r) :
    let S := diFactors (locR 4 zsa zpa zsb zpb r)
    S.s111 = stoSpec 2 0 2 0 0 zsa zsb r (tabR 4 r zsa zsb).1 (tabR 4 r zsa zsb).2 ∧
    S.s211 = stoSpec 2 1 2 0 0 zpa zsb r (tabR 4 r zpa zsb).1 (tabR 4 r zpa zsb).2 ∧
    S.s121 = stoSpec 2 0 2 1 0 zsa zpb r (tabR 4 r zsa zpb).1 (tabR 4 r zsa zpb).2 ∧
    S.s221 = stoSpec 2 1 2 1 0 zpa zpb r (tabR 4 r zpa zpb).1 (tabR 4 r zpa zpb).2 ∧
    S.s222 = stoSpec 2 1 2 1 1 zpa zpb r (tabR 4 r zpa zpb).1 (tabR 4 r zpa zpb).2 := by
  intro S
  refine ⟨?_, ?_, ?_, ?_, ?_⟩
  · simp only [S, diFactors, locR, localOverlap, stoSpec, tabR, ← pref22ss hzsa hzsb hr, poly22ss_spec]
    norm_num
    close_tac
  · simp only [S, diFactors, locR, localOverlap, stoSpec, tabR, ← pref22ps hzpa hzsb hr, poly22ps_spec]
    norm_num
    close_tac
  · simp only [S, diFactors, locR, localOverlap, stoSpec, tabR, ← pref22sp hzsa hzpb hr, poly22sp_spec]
    norm_num
    close_tac
  · simp only [S, diFactors, locR, localOverlap, stoSpec, tabR, ← pref22sig hzpa hzpb hr, poly22sig_spec]
    norm_num
  · simp only [S, diFactors, locR, localOverlap, stoSpec, tabR, ← pref22pi hzpa hzpb hr, poly22pi_spec]
    norm_num
    close_tac

theorem local_eq_spec_31 {zsa zpa zsb zpb r : ℝ} (hzsa : 0 < zsa) (hzpa : 0 < zpa) (hzsb : 0 < zsb)
    (hr : 0 < r) :
    let S := diFactors (locR 431 zsa zpa zsb zpb r)
    S.s111 = stoSpec 3 0 1 0 0 zsa zsb r (tabR 431 r zsa zsb).1 (tabR 431 r zsa zsb).2 ∧
    S.s211 = stoSpec 3 1 1 0 0 zpa zsb r (tabR 431 r zpa zsb).1 (tabR 431 r zpa zsb).2 ∧
    S.s121 = 0 ∧
    S.s221 = 0 ∧
    S.s222 = 0 := by
  intro S
  refine ⟨?_, ?_, ?_, ?_, ?_⟩
  · simp only [S, diFactors, locR, localOverlap, stoSpec, tabR, ← pref31ss hzsa hzsb hr, poly31ss_spec]
    norm_num
    close_tac
  · simp only [S, diFactors, locR, localOverlap, stoSpec, tabR, ← pref31ps hzpa hzsb hr, poly31ps_spec]
    norm_num
    close_tac
  · simp only [S, diFactors, locR, localOverlap]
    norm_num
  · simp only [S, diFactors, locR, localOverlap]
    norm_num
  · simp only [S, diFactors, locR, localOverlap]
    norm_num

theorem local_eq_spec_32 {zsa zpa zsb zpb r : ℝ} (hzsa : 0 < zsa) (hzpa : 0 < zpa) (hzsb : 0 < zsb) (hzpb : 0 < zpb)
    (hr : 0 < r) :
    let S := diFactors (locR 5 zsa zpa zsb zpb r)
    S.s111 = stoSpec 3 0 2 0 0 zsa zsb r (tabR 5 r zsa zsb).1 (tabR 5 r zsa zsb).2 ∧
    S.s211 = stoSpec 3 1 2 0 0 zpa zsb r (tabR 5 r zpa zsb).1 (tabR 5 r zpa zsb).2 ∧
    S.s121 = stoSpec 3 0 2 1 0 zsa zpb r (tabR 5 r zsa zpb).1 (tabR 5 r zsa zpb).2 ∧
    S.s221 = stoSpec 3 1 2 1 0 zpa zpb r (tabR 5 r zpa zpb).1 (tabR 5 r zpa zpb).2 ∧
    S.s222 = stoSpec 3 1 2 1 1 zpa zpb r (tabR 5 r zpa zpb).1 (tabR 5 r zpa zpb).2 := by
  intro S
  refine ⟨?_, ?_, ?_, ?_, ?_⟩
  · simp only [S, diFactors, locR, localOverlap, stoSpec, tabR, ← pref32ss hzsa hzsb hr, poly32ss_spec]
    norm_num
    close_tac
  · simp only [S, diFactors, locR, localOverlap, stoSpec, tabR, ← pref32ps hzpa hzsb hr, poly32ps_spec]
    norm_num
    close_tac
  · simp only [S, diFactors, locR, localOverlap, stoSpec, tabR, ← pref32sp hzsa hzpb hr, poly32sp_spec]
    norm_num
    close_tac
  · simp only [S, diFactors, locR, localOverlap, stoSpec, tabR, ← pref32sig hzpa hzpb hr, poly32sig_spec]
    norm_num
    close_tac
  · simp only [S, diFactors, locR, localOverlap, stoSpec, tabR, ← pref32pi hzpa hzpb hr, poly32pi_spec]
    norm_num
    close_tac

theorem local_eq_spec_33 {zsa zpa zsb zpb r : ℝ} (hzsa : 0 < zsa) (hzpa : 0 < zpa) (hzsb : 0 < zsb) (hzpb : 0 < zpb)
    (hr : 0 < r) :
    let S := diFactors (locR 6 zsa zpa zsb zpb r)
    S.s111 = stoSpec 3 0 3 0 0 zsa zsb r (tabR 6 r zsa zsb).1 (tabR 6 r zsa zsb).2 ∧
    S.s211 = stoSpec 3 1 3 0 0 zpa zsb r (tabR 6 r zpa zsb).1 (tabR 6 r zpa zsb).2 ∧
    S.s121 = stoSpec 3 0 3 1 0 zsa zpb r (tabR 6 r zsa zpb).1 (tabR 6 r zsa zpb).2 ∧
    S.s221 = stoSpec 3 1 3 1 0 zpa zpb r (tabR 6 r zpa zpb).1 (tabR 6 r zpa zpb).2 ∧
    S.s222 = stoSpec 3 1 3 1 1 zpa zpb r (tabR 6 r zpa zpb).1 (tabR 6 r zpa zpb).2 := by
  intro S
  refine ⟨?_, ?_, ?_, ?_, ?_⟩
  · simp only [S, diFactors, locR, localOverlap, stoSpec, tabR, ← pref33ss hzsa hzsb hr, poly33ss_spec]
    norm_num
    close_tac
  · simp only [S, diFactors, locR, localOverlap, stoSpec, tabR, ← pref33ps hzpa hzsb hr, poly33ps_spec]
    norm_num
    close_tac
  · simp only [S, diFactors, locR, localOverlap, stoSpec, tabR, ← pref33sp hzsa hzpb hr, poly33sp_spec]
    norm_num
    close_tac
  · simp only [S, diFactors, locR, localOverlap, stoSpec, tabR, ← pref33sig hzpa hzpb hr, poly33sig_spec]
    norm_num
    close_tac
  · simp only [S, diFactors, locR, localOverlap, stoSpec, tabR, ← pref33pi hzpa hzpb hr, poly33pi_spec]
    norm_num
    close_tac


example : (0:ℝ) < 1.8 ∧ (0:ℝ) < 2.4 ∧ (0:ℝ) < 0.9 := by norm_num

/-! ## 6. exchange of the two centres (equal principal quantum numbers) -/

/-- exchanging the exponents: `alpha` is unchanged, `beta` changes sign, so `A` is unchanged and
    `B_k` picks up `(−1)^k` -/
lemma tables_swap (jcall : ℕ) (r z1 z2 : ℝ) :
    (tabR jcall r z2 z1).1 = (tabR jcall r z1 z2).1 ∧
    (tabR jcall r z2 z1).2.c0 = (tabR jcall r z1 z2).2.c0 ∧
    (tabR jcall r z2 z1).2.c1 = -(tabR jcall r z1 z2).2.c1 ∧
    (tabR jcall r z2 z1).2.c2 = (tabR jcall r z1 z2).2.c2 ∧
    (tabR jcall r z2 z1).2.c3 = -(tabR jcall r z1 z2).2.c3 ∧
    (tabR jcall r z2 z1).2.c4 = (tabR jcall r z1 z2).2.c4 ∧
    (tabR jcall r z2 z1).2.c5 = -(tabR jcall r z1 z2).2.c5 ∧
    (tabR jcall r z2 z1).2.c6 = (tabR jcall r z1 z2).2.c6 := by
  have hb : (0.5:ℝ) * r * (z2 - z1) = -(0.5 * r * (z1 - z2)) := by ring
  simp only [tabR, tables, setAB, add_comm z2 z1, hb]
  exact ⟨trivial, bintgs_parity _⟩

macro "swap_close" : tactic =>
  `(tactic| first | done | ring1 | simp only [true_or, or_true] | (left; ring1) | (left; left; ring1))

set_option linter.unusedSimpArgs false in
/-- H–H -/
theorem local_swap_11 (zsa zpa zsb zpb r : ℝ) :
    let S := locR 2 zsa zpa zsb zpb r
    let S' := locR 2 zsb zpb zsa zpa r
    S'.s111 = S.s111 ∧ S'.s211 = S.s121 ∧ S'.s121 = S.s211 ∧ S'.s221 = S.s221 ∧ S'.s222 = S.s222 := by
  intro S S'
  obtain ⟨a1, b10, b11, b12, b13, b14, b15, b16⟩ := tables_swap 2 r zsa zsb
  obtain ⟨a2, b20, b21, b22, b23, b24, b25, b26⟩ := tables_swap 2 r zpa zsb
  obtain ⟨a3, b30, b31, b32, b33, b34, b35, b36⟩ := tables_swap 2 r zsa zpb
  obtain ⟨a4, b40, b41, b42, b43, b44, b45, b46⟩ := tables_swap 2 r zpa zpb
  simp only [tabR] at a1 b10 b11 b12 b13 b14 b15 b16 a2 b20 b21 b22 b23 b24 b25 b26 a3 b30 b31 b32 b33 b34 b35 b36 a4 b40 b41 b42 b43 b44 b45 b46
  refine ⟨?_, ?_, ?_, ?_, ?_⟩ <;>
  · simp only [S, S', locR, localOverlap, poly11ss, poly22ss, poly22ps, poly22sp, poly22sig, poly22pi, poly33ss,
      poly33ps, poly33sp, poly33sig, poly33pi, a1, b10, b11, b12, b13, b14, b15, b16, a2, b20, b21, b22, b23, b24,
      b25, b26, a3, b30, b31, b32, b33, b34, b35, b36, a4, b40, b41, b42, b43, b44, b45, b46,
      mul_comm zsa zsb, mul_comm zpa zsb, mul_comm zsa zpb, mul_comm zpa zpb]
    norm_num

set_option linter.unusedSimpArgs false in
/-- second row – second row: `S211 ↔ S121`, the others invariant; in the molecular frame
    `(pσ|s)` of the exchanged pair is `−(s|pσ)` of the original one: parity `(−1)^{l₁+l₂}` -/
theorem local_swap_22 (zsa zpa zsb zpb r : ℝ) :
    let S := locR 4 zsa zpa zsb zpb r
    let S' := locR 4 zsb zpb zsa zpa r
    S'.s111 = S.s111 ∧ S'.s211 = S.s121 ∧ S'.s121 = S.s211 ∧ S'.s221 = S.s221 ∧ S'.s222 = S.s222 := by
  intro S S'
  obtain ⟨a1, b10, b11, b12, b13, b14, b15, b16⟩ := tables_swap 4 r zsa zsb
  obtain ⟨a2, b20, b21, b22, b23, b24, b25, b26⟩ := tables_swap 4 r zpa zsb
  obtain ⟨a3, b30, b31, b32, b33, b34, b35, b36⟩ := tables_swap 4 r zsa zpb
  obtain ⟨a4, b40, b41, b42, b43, b44, b45, b46⟩ := tables_swap 4 r zpa zpb
  simp only [tabR] at a1 b10 b11 b12 b13 b14 b15 b16 a2 b20 b21 b22 b23 b24 b25 b26 a3 b30 b31 b32 b33 b34 b35 b36 a4 b40 b41 b42 b43 b44 b45 b46
  refine ⟨?_, ?_, ?_, ?_, ?_⟩ <;>
  · simp only [S, S', locR, localOverlap, poly11ss, poly22ss, poly22ps, poly22sp, poly22sig, poly22pi, poly33ss,
      poly33ps, poly33sp, poly33sig, poly33pi, a1, b10, b11, b12, b13, b14, b15, b16, a2, b20, b21, b22, b23, b24,
      b25, b26, a3, b30, b31, b32, b33, b34, b35, b36, a4, b40, b41, b42, b43, b44, b45, b46,
      mul_comm zsa zsb, mul_comm zpa zsb, mul_comm zsa zpb, mul_comm zpa zpb]
    norm_num
    swap_close

set_option linter.unusedSimpArgs false in
/-- third row – third row -/
theorem local_swap_33 (zsa zpa zsb zpb r : ℝ) :
    let S := locR 6 zsa zpa zsb zpb r
    let S' := locR 6 zsb zpb zsa zpa r
    S'.s111 = S.s111 ∧ S'.s211 = S.s121 ∧ S'.s121 = S.s211 ∧ S'.s221 = S.s221 ∧ S'.s222 = S.s222 := by
  intro S S'
  obtain ⟨a1, b10, b11, b12, b13, b14, b15, b16⟩ := tables_swap 6 r zsa zsb
  obtain ⟨a2, b20, b21, b22, b23, b24, b25, b26⟩ := tables_swap 6 r zpa zsb
  obtain ⟨a3, b30, b31, b32, b33, b34, b35, b36⟩ := tables_swap 6 r zsa zpb
  obtain ⟨a4, b40, b41, b42, b43, b44, b45, b46⟩ := tables_swap 6 r zpa zpb
  simp only [tabR] at a1 b10 b11 b12 b13 b14 b15 b16 a2 b20 b21 b22 b23 b24 b25 b26 a3 b30 b31 b32 b33 b34 b35 b36 a4 b40 b41 b42 b43 b44 b45 b46
  refine ⟨?_, ?_, ?_, ?_, ?_⟩ <;>
  · simp only [S, S', locR, localOverlap, poly11ss, poly22ss, poly22ps, poly22sp, poly22sig, poly22pi, poly33ss,
      poly33ps, poly33sp, poly33sig, poly33pi, a1, b10, b11, b12, b13, b14, b15, b16, a2, b20, b21, b22, b23, b24,
      b25, b26, a3, b30, b31, b32, b33, b34, b35, b36, a4, b40, b41, b42, b43, b44, b45, b46,
      mul_comm zsa zsb, mul_comm zpa zsb, mul_comm zsa zpb, mul_comm zpa zpb]
    norm_num
    swap_close

end

end C06b
