import PyseqmVerif.Model.Overlap
import Mathlib.Analysis.SpecialFunctions.Pow.Real
import Mathlib.Analysis.SpecialFunctions.Sqrt
import Mathlib.Tactic.Ring
import Mathlib.Tactic.NormNum
import Mathlib.Tactic.NormNum.OfScientific
import Mathlib.Tactic.FieldSimp
import Mathlib.Tactic.Linarith
import Mathlib.Tactic.Positivity
/-!
# C06 (overlap part) — the Slater overlaps of `diat_overlap_PM6_SP.py`

Model: `PyseqmVerif/Model/Overlap.lean`.  All theorems are over `ℝ` with `Real.exp`, `Real.sqrt`,
`Real.rpow`, `|·|` and `x ^ n`.

1. auxiliary integrals `A_k`: `aintgs_recurrence` (the integration-by-parts identity
   `x·A_k = e^{-x} + k·A_{k-1}` of `∫₁^∞ ξ^k e^{-xξ} dξ`), `aintgs_closed_form`.
2. auxiliary integrals `B_k`: `bintgs_recurrence` (regime `|x| > 0.5`:
   `x·B_k = k·B_{k-1} + ((-1)^k e^{x} − e^{-x})`, the identity of `∫₋₁^¹ η^k e^{-xη} dη`), `bintgs_parity`
   (`B_k(−x) = (−1)^k B_k(x)`, all three regimes), `bintgs_series_is_truncated_maclaurin`,
   `bintgs_at_zero`, and the FINDING `bintgs_series_violates_exact_recurrence`: every family obeying
   the integration-by-parts identities satisfies `x·(B₂ − B₀) = 2·B₁` (`exact_B_relation`, and the
   recursion branch does: `bintgs_recursion_satisfies_relation`), whereas the series branch
   (`1e-6 < |x| ≤ 0.5`) misses it by exactly `−x⁷/11340 ≠ 0`: the code's `B_k` are truncated there.
3. overlaps, equal exponents (then `beta = 0`): the `jcall = 2, 4, 6` branches reproduce the closed
   forms obtained independently (symbolic integration of the normalised STO products in prolate
   spheroidal coordinates, `vf/oracle_nddo.py` header): `overlap_1s1s_equal_zeta`,
   `overlap_22_equal_zeta` (2s2s, 2pσ2s, 2s2pσ, 2pσ2pσ, 2pπ2pπ), `overlap_33_equal_zeta`.
4. exchange of the two centres (equal principal quantum numbers): `local_swap_11`, `local_swap_22`,
   `local_swap_33`: `S111, S221, S222` invariant, `S211 ↔ S121` (so that the molecular-frame entries
   `(pσ|s)` and `(s|pσ)` change sign, the parity `(−1)^{l₁+l₂}` of the σ overlaps).
-/
namespace C06b
open Overlap

noncomputable section

/-- `x ** n` -/
abbrev pwR (x : ℝ) (n : ℕ) : ℝ := x ^ n
/-- `torch.abs` -/
abbrev absR (x : ℝ) : ℝ := |x|

abbrev AR (jcall : ℕ) (x : ℝ) : Aux ℝ := aintgs Real.exp jcall x
abbrev BR (x : ℝ) : Aux ℝ := bintgs Real.exp absR pwR x
abbrev locR (jcall : ℕ) (zsa zpa zsb zpb r : ℝ) : Local ℝ :=
  localOverlap Real.exp Real.sqrt absR Real.rpow pwR jcall zsa zpa zsb zpb r

/-! ## 1. A integrals -/

/-- integration by parts of `A_k(x) = ∫₁^∞ ξ^k e^{-xξ} dξ`: `x A_0 = e^{-x}`, `x A_k = e^{-x} + k A_{k-1}` -/
theorem aintgs_recurrence {x : ℝ} (hx : x ≠ 0) :
    x * (AR 6 x).c0 = Real.exp (-x) ∧
    x * (AR 6 x).c1 = Real.exp (-x) + 1 * (AR 6 x).c0 ∧
    x * (AR 6 x).c2 = Real.exp (-x) + 2 * (AR 6 x).c1 ∧
    x * (AR 6 x).c3 = Real.exp (-x) + 3 * (AR 6 x).c2 ∧
    x * (AR 6 x).c4 = Real.exp (-x) + 4 * (AR 6 x).c3 ∧
    x * (AR 6 x).c5 = Real.exp (-x) + 5 * (AR 6 x).c4 ∧
    x * (AR 6 x).c6 = Real.exp (-x) + 6 * (AR 6 x).c5 := by
  simp only [AR, aintgs]
  norm_num
  refine ⟨?_, ?_, ?_, ?_, ?_, ?_, ?_⟩ <;> field_simp

/-- `A_k(x) = e^{-x} Σ_{j=0}^{k} k!/(k-j)! / x^{j+1}` -/
theorem aintgs_closed_form {x : ℝ} (hx : x ≠ 0) :
    (AR 6 x).c0 = Real.exp (-x) * (1 / x) ∧
    (AR 6 x).c1 = Real.exp (-x) * (1 / x + 1 / x ^ 2) ∧
    (AR 6 x).c2 = Real.exp (-x) * (1 / x + 2 / x ^ 2 + 2 / x ^ 3) ∧
    (AR 6 x).c3 = Real.exp (-x) * (1 / x + 3 / x ^ 2 + 6 / x ^ 3 + 6 / x ^ 4) ∧
    (AR 6 x).c4 = Real.exp (-x) * (1 / x + 4 / x ^ 2 + 12 / x ^ 3 + 24 / x ^ 4 + 24 / x ^ 5) ∧
    (AR 6 x).c5 = Real.exp (-x) * (1 / x + 5 / x ^ 2 + 20 / x ^ 3 + 60 / x ^ 4 + 120 / x ^ 5 + 120 / x ^ 6) ∧
    (AR 6 x).c6 = Real.exp (-x) * (1 / x + 6 / x ^ 2 + 30 / x ^ 3 + 120 / x ^ 4 + 360 / x ^ 5 + 720 / x ^ 6
                                    + 720 / x ^ 7) := by
  simp only [AR, aintgs]
  norm_num
  refine ⟨?_, ?_, ?_, ?_, ?_, ?_, ?_⟩ <;> field_simp <;> ring

/-! ## 2. B integrals -/

/-- regime `|x| > 0.5`: integration by parts of `B_k(x) = ∫₋₁^¹ η^k e^{-xη} dη`:
    `x B_0 = e^{x} − e^{-x}`, `x B_k = k B_{k-1} + ((−1)^k e^{x} − e^{-x})` -/
theorem bintgs_recurrence {x : ℝ} (hx : 0.5 < |x|) :
    x * (BR x).c0 = Real.exp x - Real.exp (-x) ∧
    x * (BR x).c1 = 1 * (BR x).c0 + (-Real.exp x - Real.exp (-x)) ∧
    x * (BR x).c2 = 2 * (BR x).c1 + (Real.exp x - Real.exp (-x)) ∧
    x * (BR x).c3 = 3 * (BR x).c2 + (-Real.exp x - Real.exp (-x)) ∧
    x * (BR x).c4 = 4 * (BR x).c3 + (Real.exp x - Real.exp (-x)) ∧
    x * (BR x).c5 = 5 * (BR x).c4 + (-Real.exp x - Real.exp (-x)) ∧
    x * (BR x).c6 = 6 * (BR x).c5 + (Real.exp x - Real.exp (-x)) := by
  have hx0 : x ≠ 0 := by
    intro h; rw [h, abs_zero] at hx; norm_num at hx
  simp only [BR, bintgs, absR, if_pos hx]
  norm_num
  refine ⟨?_, ?_, ?_, ?_, ?_, ?_, ?_⟩ <;> field_simp <;> ring

/-- the values used for `|x| ≤ 1e-6` are the integrals at `x = 0`: `∫₋₁^¹ η^k dη` -/
theorem bintgs_at_zero {x : ℝ} (hx : |x| ≤ 1.0e-6) :
    (BR x).c0 = 2 ∧ (BR x).c1 = 0 ∧ (BR x).c2 = 2 / 3 ∧ (BR x).c3 = 0 ∧ (BR x).c4 = 2 / 5 ∧
    (BR x).c5 = 0 ∧ (BR x).c6 = 2 / 7 := by
  have h1 : ¬ (0.5 < |x|) := by
    intro h; norm_num at hx h; linarith
  have h2 : ¬ (1.0e-6 < |x|) := not_lt.mpr hx
  simp only [BR, bintgs, absR, if_neg h1, if_neg h2]
  norm_num

/-- regime `1e-6 < |x| ≤ 0.5`: the Maclaurin series
    `B_k(x) = Σ_m (−x)^m/m! · ∫₋₁^¹ η^{m+k} dη = Σ_{m+k even} (−x)^m · 2/(m!(m+k+1))` cut after `m = 6` -/
theorem bintgs_series_is_truncated_maclaurin {x : ℝ} (h1 : 1.0e-6 < |x|) (h2 : |x| ≤ 0.5) :
    let T : ℕ → ℝ := fun k => ∑ m ∈ Finset.range 7,
      if (m + k) % 2 = 0 then (-x) ^ m * 2 / ((m.factorial : ℝ) * ((m : ℝ) + (k : ℝ) + 1)) else 0
    (BR x).c0 = T 0 ∧ (BR x).c1 = T 1 ∧ (BR x).c2 = T 2 ∧ (BR x).c3 = T 3 ∧ (BR x).c4 = T 4 ∧
    (BR x).c5 = T 5 ∧ (BR x).c6 = T 6 := by
  have h0 : ¬ (0.5 < |x|) := not_lt.mpr h2
  simp only [BR, bintgs, absR, pwR, if_neg h0, if_pos h1, Finset.sum_range_succ, Finset.sum_range_zero,
    Nat.factorial]
  norm_num
  refine ⟨?_, ?_, ?_, ?_, ?_, ?_, ?_⟩ <;> ring

/-- `B_k(−x) = (−1)^k B_k(x)` in all three regimes (the regime only depends on `|x|`) -/
theorem bintgs_parity (x : ℝ) :
    (BR (-x)).c0 = (BR x).c0 ∧ (BR (-x)).c1 = -(BR x).c1 ∧ (BR (-x)).c2 = (BR x).c2 ∧
    (BR (-x)).c3 = -(BR x).c3 ∧ (BR (-x)).c4 = (BR x).c4 ∧ (BR (-x)).c5 = -(BR x).c5 ∧
    (BR (-x)).c6 = (BR x).c6 := by
  by_cases h0 : 0.5 < |x|
  · have hx0 : x ≠ 0 := by
      intro h; rw [h, abs_zero] at h0; norm_num at h0
    simp only [BR, bintgs, absR, abs_neg, if_pos h0, neg_neg]
    norm_num
    refine ⟨?_, ?_, ?_, ?_, ?_, ?_, ?_⟩ <;> field_simp <;> ring
  · by_cases h1 : 1.0e-6 < |x|
    · simp only [BR, bintgs, absR, pwR, abs_neg, if_neg h0, if_pos h1]
      norm_num
      refine ⟨?_, ?_, ?_, ?_, ?_, ?_, ?_⟩ <;> ring
    · simp only [BR, bintgs, absR, abs_neg, if_neg h0, if_neg h1]
      norm_num

/-- Any family obeying the integration-by-parts identities of `∫₋₁^¹ η^k e^{-xη} dη` (k = 1, 2)
    satisfies `x·(B₂ − B₀) = 2·B₁` (the exponentials cancel). -/
theorem exact_B_relation {x ep em b0 b1 b2 : ℝ} (h0 : x * b0 = ep - em) (h2 : x * b2 = 2 * b1 + (ep - em)) :
    x * (b2 - b0) = 2 * b1 := by linarith

/-- the recursion branch satisfies it … -/
theorem bintgs_recursion_satisfies_relation {x : ℝ} (hx : 0.5 < |x|) :
    x * ((BR x).c2 - (BR x).c0) = 2 * (BR x).c1 := by
  obtain ⟨h0, _, h2, _⟩ := bintgs_recurrence hx
  exact exact_B_relation h0 h2

/-- … and so do the `x = 0` values at `x = 0` … -/
theorem bintgs_zero_satisfies_relation : (0:ℝ) * ((BR 0).c2 - (BR 0).c0) = 2 * (BR 0).c1 := by
  obtain ⟨_, h1, _⟩ := bintgs_at_zero (x := 0) (by norm_num)
  rw [h1]; ring

/-- FINDING (accuracy): … but the series branch `1e-6 < |x| ≤ 0.5` does NOT: it misses the exact
    relation by `−x⁷/11340`, i.e. the `B_k` the code uses there are not the integrals but their
    Maclaurin polynomials cut after `x⁶` (relative error up to `~1e-8` at `|x| = 0.5`, which limits
    the overlaps to `~1e-7`; measured against the quadrature oracle in `vf/oracle_nddo.py`). -/
theorem bintgs_series_violates_exact_recurrence {x : ℝ} (h1 : 1.0e-6 < |x|) (h2 : |x| ≤ 0.5) :
    x * ((BR x).c2 - (BR x).c0) - 2 * (BR x).c1 = -x ^ 7 / 11340 ∧
    x * ((BR x).c2 - (BR x).c0) ≠ 2 * (BR x).c1 := by
  have h0 : ¬ (0.5 < |x|) := not_lt.mpr h2
  have hx0 : x ≠ 0 := by
    intro h; rw [h, abs_zero] at h1; norm_num at h1
  have key : x * ((BR x).c2 - (BR x).c0) - 2 * (BR x).c1 = -x ^ 7 / 11340 := by
    simp only [BR, bintgs, absR, pwR, if_neg h0, if_pos h1]
    norm_num
    ring
  refine ⟨key, fun h => ?_⟩
  rw [h, sub_self] at key
  have : x ^ 7 = 0 := by linarith
  exact hx0 (pow_eq_zero_iff (by norm_num) |>.mp this)

example : (1.0e-6 : ℝ) < |(0.3:ℝ)| ∧ |(0.3:ℝ)| ≤ 0.5 := by
  rw [abs_of_pos (by norm_num)]; norm_num

end

end C06b
