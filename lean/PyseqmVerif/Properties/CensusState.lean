import PyseqmVerif.Generated.ProcState
/-! Process-state census (C15): see `CensusLoops.lean` for the conventions. -/
namespace Census
open Generated

/-! ### Process-global mutable state (C15)

`Generated.ProcState.items`: every module-level container (with the expression its entries are keyed by, and whether any function
writes it), every run-time write to a class attribute, every mutable default argument, every `global` statement and memoising
decorator in the package.  History can only hide in these places (plus objects the caller keeps, which the C15 probes reuse on
purpose).  The audited list below is the census at the verified commit; each entry is covered by the `History` model (class
attributes of `SCF`) or by a probe stratum of C15 (dictionary reuse, shape-collision histories, learned-parameter dictionaries).
A NEW place where state survives a call (e.g. a cache keyed by tensor shape) is not in the list and breaks the obligation. -/

def audited : List ProcState.Item := [
  ⟨"seqm/ElectronicStructure.py", "forward(learned_parameters)", "mutable-default", false⟩,
  ⟨"seqm/ElectronicStructure.py", "forward(xl_bomd_params)", "mutable-default", false⟩,
  ⟨"seqm/MolecularDynamics.py", "__init__(xl_bomd_params)", "mutable-default", false⟩,
  ⟨"seqm/MolecularDynamics.py", "initialize(learned_parameters)", "mutable-default", false⟩,
  ⟨"seqm/MolecularDynamics.py", "one_step(learned_parameters)", "mutable-default", false⟩,
  ⟨"seqm/MolecularDynamics.py", "onestep(learned_parameters)", "mutable-default", false⟩,
  ⟨"seqm/MolecularDynamics.py", "run(learned_parameters)", "mutable-default", false⟩,
  ⟨"seqm/Molecule.py", "__init__(learned_parameters)", "mutable-default", false⟩,
  ⟨"seqm/__init__.py", "_MODULE_ALIASES", "module-container", false⟩,
  ⟨"seqm/basics.py", "forward(learned_parameters)", "mutable-default", false⟩,
  ⟨"seqm/basics.py", "forward(learned_params)", "mutable-default", false⟩,
  ⟨"seqm/basics.py", "parameterlist", "module-container", false⟩,
  ⟨"seqm/dynamics/xlbomd.py", "forward(learned_parameters)", "mutable-default", false⟩,
  ⟨"seqm/dynamics/xlbomd.py", "forward(xl_bomd_params)", "mutable-default", false⟩,
  ⟨"seqm/optimization/geometry.py", "__init__(learned_parameters)", "mutable-default", false⟩,
  ⟨"seqm/seqm_functions/fock.py", "PM6_FLOCAL_MAP", "module-container", false⟩,
  ⟨"seqm/seqm_functions/fock.py", "_INDEX_CACHE keyed by (id(base), device)", "module-container", true⟩,
  ⟨"seqm/seqm_functions/fock.py", "_WEIGHT_CACHE keyed by (id(base), device, dtype or base.dtype)", "module-container", true⟩,
  ⟨"seqm/seqm_functions/make_dm_guess.py", "make_dm_guess(learned_parameters)", "mutable-default", false⟩,
  ⟨"seqm/seqm_functions/parameters.py", "PWCCT(elements)", "mutable-default", false⟩,
  ⟨"seqm/seqm_functions/parameters.py", "PWCCT(parameters)", "mutable-default", false⟩,
  ⟨"seqm/seqm_functions/parameters.py", "params(elements)", "mutable-default", false⟩,
  ⟨"seqm/seqm_functions/parameters.py", "params(parameters)", "mutable-default", false⟩,
  ⟨"seqm/seqm_functions/read_xyz.py", "_element_dict", "module-container", false⟩,
  ⟨"seqm/seqm_functions/scf_loop.py", "SCF.converger", "class-attr-write", true⟩,
  ⟨"seqm/seqm_functions/scf_loop.py", "SCF.scf_backward_eps", "class-attr-write", true⟩,
  ⟨"seqm/seqm_functions/scf_loop.py", "SCF.sp2", "class-attr-write", true⟩,
  ⟨"seqm/seqm_functions/scf_loop.py", "SCF.themethod", "class-attr-write", true⟩,
  ⟨"seqm/seqm_functions/scf_loop.py", "__init__(scf_converger)", "mutable-default", false⟩,
  ⟨"seqm/seqm_functions/scf_loop.py", "__init__(use_sp2)", "mutable-default", false⟩,
  ⟨"seqm/seqm_functions/scf_loop.py", "scf_forward0(scf_converger)", "mutable-default", false⟩,
  ⟨"seqm/seqm_functions/scf_loop.py", "scf_forward0(sp2)", "mutable-default", false⟩,
  ⟨"seqm/seqm_functions/scf_loop.py", "scf_forward1(scf_converger)", "mutable-default", false⟩,
  ⟨"seqm/seqm_functions/scf_loop.py", "scf_forward1(sp2)", "mutable-default", false⟩,
  ⟨"seqm/seqm_functions/scf_loop.py", "scf_forward2(sp2)", "mutable-default", false⟩,
  ⟨"seqm/seqm_functions/scf_loop.py", "scf_loop(scf_converger)", "mutable-default", false⟩,
  ⟨"seqm/seqm_functions/scf_loop.py", "scf_loop(sp2)", "mutable-default", false⟩,
  ⟨"seqm/seqm_functions/spherical_pot_force.py", "Spherical_Pot_Force(center)", "mutable-default", false⟩,
  ⟨"seqm/seqm_functions/two_elec_two_center_int.py", "_PM6_D_PARAM_CACHE keyed by argument key", "module-container", true⟩
]

/-- no process-global mutable state outside the audited list (same place, same keying, same written/read-only status) -/
theorem process_state_is_audited : ∀ i ∈ ProcState.items, i ∈ audited := by decide

/-- the class attributes the `History` model is about are in the census (so the statement above covers them) -/
theorem scf_registers_in_census :
    ∀ n ∈ ["SCF.converger", "SCF.scf_backward_eps", "SCF.sp2", "SCF.themethod"],
      ∃ i ∈ ProcState.items, i.name = n ∧ i.kind = "class-attr-write" := by decide

end Census
