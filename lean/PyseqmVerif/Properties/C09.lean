import PyseqmVerif.Proofs.XLLemmas
import PyseqmVerif.Generated.XLCoeffs
import PyseqmVerif.Proofs.LyapK3
import Mathlib.Tactic.Positivity
import Mathlib.Tactic.FieldSimp
import Mathlib.Data.Rat.Cast.Order
import Mathlib.Algebra.Order.BigOperators.Ring.Finset
/-!
# C09 — XL-BOMD propagation

> For every supported dissipation order, an auxiliary density equal to the converged ground-state
> density makes the extended-Lagrangian energy and forces coincide with the SCF ones, and a
> stationary system keeps its auxiliary density unchanged forever, whatever the phase of the
> internal history buffer. The auxiliary-density recurrence actually executed is the published
> dissipative Verlet scheme: it is linearly stable over the whole admissible response range, so
> shadow-energy fluctuations scale with the square of the time step and do not drift, and the
> trajectory converges to the Born-Oppenheimer one as the time step decreases.

Model: `PyseqmVerif/Model/XLBuffer.lean` (statement-by-statement mirror of `XL_BOMD.__init__`,
`_propagate_P`, `one_step`, `initialize`, `KSA_XL_BOMD._propagate_P`, `run_from_checkpoint`),
table: `Generated.XLCoeffs` (regenerated from the live Python, with probed effective weights).

Sections
1. refinement: circular buffer ⊑ history recurrence (∀ m, ∀ n, any weights), restart, resume;
2. table theorems, all `k ∈ {3..9}`;
3. stationary system keeps `P` forever, at any phase, plain and KSA;
4. `E_XL(P, P) = E_SCF(P)` (and the gradient/docstring identities);
5. stability: characteristic polynomial, necessary conditions for all `k` on the whole range
   `λ ∈ (0, 0.95κ]`, linearised response;
6. `k = 3`: interval Lyapunov certificates (generated, `Proofs/LyapK3.lean`) ⇒ geometric decay of
   the error for every `λ ∈ [1/50, 0.95·1.69]`.

NOT proved here (validated numerically by the harness instead): the continuum stability claim for
`k ≥ 4` (only the necessary conditions of section 5 are theorems) and for `k = 3`, `λ ∈ (0, 1/50)`;
the `dt²` scaling / absence of drift of the shadow energy and the `dt → 0` convergence to BOMD.
-/
namespace C09
open XLBuffer Finset Generated.XLCoeffs

/-! ## 1. refinement -/

section structural
variable {α : Type} [Add α] [Sub α] [Mul α] [OfScientific α] [OfNat α 0]

theorem length_step (coeffD : α) (coeff : List α) (m i : ℕ) (D P : α) (Pt : List α) :
    (step coeffD coeff m i D P Pt).2.length = Pt.length := by
  simp [step, stepAt]

/-- the buffer always has `m` slots (any scalar type, in particular `Float`) -/
theorem length_xlRun (coeffD : α) (coeff : List α) (m : ℕ) (D : ℕ → α) (P0 : α) (n : ℕ) :
    (xlRun coeffD coeff m D P0 n).2.length = m := by
  induction n with
  | zero => simp [xlRun, init]
  | succ n ih => rw [xlRun, length_step, ih]

theorem restoreIndex_pos (m s : ℕ) (hs : 1 ≤ s) : restoreIndex m s = m - 1 - (s - 1) % m := by
  unfold restoreIndex
  have h : ((s : Int) - 1) = ((s - 1 : ℕ) : Int) := by omega
  rw [h, ← Int.natCast_mod, Int.toNat_natCast]

/-- **restart**: for every `step_done ≥ 1` the formula of `run_from_checkpoint`,
`Pt[m-1-((step_done-1) % m)]`, returns exactly the `P` that the uninterrupted run holds after
`step_done` steps (the newest history entry).  Purely structural: holds for every scalar type
(so also for the `Float` instance that the driver executes), every coefficient vector and every
`D` sequence. -/
theorem restart_restores_newest (coeffD : α) (coeff : List α) (m : ℕ) (hm : 0 < m) (D : ℕ → α)
    (P0 : α) (stepDone : ℕ) (hs : 1 ≤ stepDone) :
    restorePhase m stepDone (xlRun coeffD coeff m D P0 stepDone).2
      = some (xlRun coeffD coeff m D P0 stepDone).1 := by
  obtain ⟨n, rfl⟩ : ∃ n, stepDone = n + 1 := ⟨stepDone - 1, by omega⟩
  unfold restorePhase
  rw [restoreIndex_pos m (n + 1) hs]
  have hc : n % m < m := Nat.mod_lt _ hm
  have hl := length_xlRun coeffD coeff m D P0 n
  simp only [xlRun, step, stepAt, Nat.add_sub_cancel]
  rw [List.getElem?_set_self (by rw [hl]; omega)]

/-- **resumed = uninterrupted**, at every buffer phase: restoring `P` from the checkpointed buffer
after `step_done` steps and continuing with loop indices `step_done, step_done+1, …` reproduces the
uninterrupted run state for state (any scalar type). -/
theorem resume_equals_uninterrupted (coeffD : α) (coeff : List α) (m : ℕ) (hm : 0 < m) (D : ℕ → α)
    (P0 : α) (stepDone : ℕ) (hs : 1 ≤ stepDone) (j : ℕ) :
    ∃ P, restorePhase m stepDone (xlRun coeffD coeff m D P0 stepDone).2 = some P ∧
      xlRunFrom coeffD coeff m D stepDone (P, (xlRun coeffD coeff m D P0 stepDone).2) j
        = xlRun coeffD coeff m D P0 (stepDone + j) := by
  refine ⟨_, restart_restores_newest coeffD coeff m hm D P0 stepDone hs, ?_⟩
  induction j with
  | zero => rfl
  | succ j ih =>
    rw [xlRunFrom, ih]
    rfl

end structural

/-- the refinement invariant, `getD` form -/
theorem refine_inv (m : ℕ) (hm : 0 < m) (coeffD : ℝ) (coeff : List ℝ)
    (hclen : coeff.length = 2 * m) (hrot : ∀ j, j < m → coeff[j + m]? = coeff[j]?)
    (D : ℕ → ℝ) (P0 : ℝ) (n : ℕ) :
    (xlRun coeffD coeff m D P0 n).1 = hist coeffD (fun j => coeff.getD j 0) m D P0 n 0 ∧
    ∀ q < m, (xlRun coeffD coeff m D P0 n).2.getD q 0
      = hist coeffD (fun j => coeff.getD j 0) m D P0 n ((n % m + q) % m) := by
  induction n with
  | zero =>
    refine ⟨by simp [xlRun, init, hist], fun q hq => ?_⟩
    simp [xlRun, init, hist, List.getD_eq_getElem?_getD, hq]
  | succ n ih =>
    obtain ⟨ihP, ihPt⟩ := ih
    have hl := length_xlRun coeffD coeff m D P0 n
    have hsum := histTerm_hist m n hm coeff _ _ hclen hrot hl ihPt
    have hP : (xlRun coeffD coeff m D P0 (n + 1)).1
        = hist coeffD (fun j => coeff.getD j 0) m D P0 (n + 1) 0 := by
      simp only [xlRun, step, stepAt, propagate, hist]
      rw [hsum, ihP]
    refine ⟨hP, ?_⟩
    have hset : (xlRun coeffD coeff m D P0 (n + 1)).2
        = (xlRun coeffD coeff m D P0 n).2.set (m - 1 - n % m) (xlRun coeffD coeff m D P0 (n + 1)).1 := rfl
    rw [hset]
    exact slots_step m n hm _ _ _ _ hl ihPt hP.symm (fun j => rfl)

/-- **Refinement** (lift of prototype B.8; ∀ m > 0, ∀ n, any coefficient vector with the rotation
property, any `D` sequence).  After `n` steps of the implementation (`cindx = step % m`, window
`coeff[cindx : cindx+m]`, write slot `m-1-cindx`)
* `P` is the newest entry of the history generated by the recurrence
  `P(n+1) = coeff_D (0.95 D(n) + (1-0.95) P(n)) + Σ_{j<m} coeff[j] P(n-j)`,
  i.e. history entry `j` always meets coefficient index `j` (the newest meets index 0);
* the buffer has `m` slots and slot `q` holds history entry `(n % m + q) % m`. -/
theorem buffer_refines_history (m : ℕ) (hm : 0 < m) (coeffD : ℝ) (coeff : List ℝ)
    (hclen : coeff.length = 2 * m) (hrot : ∀ j, j < m → coeff[j + m]? = coeff[j]?)
    (D : ℕ → ℝ) (P0 : ℝ) (n : ℕ) :
    (xlRun coeffD coeff m D P0 n).1 = hist coeffD (fun j => coeff.getD j 0) m D P0 n 0 ∧
    (xlRun coeffD coeff m D P0 n).2.length = m ∧
    ∀ q < m, (xlRun coeffD coeff m D P0 n).2[q]?
      = some (hist coeffD (fun j => coeff.getD j 0) m D P0 n ((n % m + q) % m)) := by
  obtain ⟨h1, h2⟩ := refine_inv m hm coeffD coeff hclen hrot D P0 n
  have hl := length_xlRun coeffD coeff m D P0 n
  refine ⟨h1, hl, fun q hq => ?_⟩
  rw [← h2 q hq, List.getD_eq_getElem?_getD, List.getElem?_eq_getElem (by rw [hl]; exact hq)]
  rfl

/-- the same for the KSA propagation `coeff_D (dP2dt2 + P) + Σ …` -/
theorem buffer_refines_history_ksa (m : ℕ) (hm : 0 < m) (coeffD : ℝ) (coeff : List ℝ)
    (hclen : coeff.length = 2 * m) (hrot : ∀ j, j < m → coeff[j + m]? = coeff[j]?)
    (d2 : ℕ → ℝ) (P0 : ℝ) (n : ℕ) :
    (xlRunKSA coeffD coeff m d2 P0 n).1 = histKSA coeffD (fun j => coeff.getD j 0) m d2 P0 n 0 ∧
    (xlRunKSA coeffD coeff m d2 P0 n).2.length = m ∧
    ∀ q < m, (xlRunKSA coeffD coeff m d2 P0 n).2.getD q 0
      = histKSA coeffD (fun j => coeff.getD j 0) m d2 P0 n ((n % m + q) % m) := by
  induction n with
  | zero =>
    refine ⟨by simp [xlRunKSA, init, histKSA], by simp [xlRunKSA, init], fun q hq => ?_⟩
    simp [xlRunKSA, init, histKSA, List.getD_eq_getElem?_getD, hq]
  | succ n ih =>
    obtain ⟨ihP, hl, ihPt⟩ := ih
    have hsum := histTerm_hist m n hm coeff _ _ hclen hrot hl ihPt
    have hP : (xlRunKSA coeffD coeff m d2 P0 (n + 1)).1
        = histKSA coeffD (fun j => coeff.getD j 0) m d2 P0 (n + 1) 0 := by
      simp only [xlRunKSA, stepKSA, stepAtKSA, propagateKSA, histKSA]
      rw [hsum, ihP]
    have hset : (xlRunKSA coeffD coeff m d2 P0 (n + 1)).2
        = (xlRunKSA coeffD coeff m d2 P0 n).2.set (m - 1 - n % m)
            (xlRunKSA coeffD coeff m d2 P0 (n + 1)).1 := rfl
    refine ⟨hP, by rw [hset, List.length_set, hl], ?_⟩
    rw [hset]
    exact slots_step m n hm _ _ _ _ hl ihPt hP.symm (fun j => rfl)

/-! non-vacuity: a concrete run on `ℚ` (k = 3 published weights, phase wraps around after 4
steps), and the restart formula at every phase of that run -/

/-- exact `tmp` for `k = 3` (`κ = 169/100`, `α = 3/20`, `c = [-2,3,0,-1]`) -/
def tmp3 : List ℚ := mkTmp (169/100) (3/20) [-2, 3, 0, -1]

example : tmp3 = [1/100, -11/20, 0, -3/20] := by decide +kernel
example : mkCoeff (169/100 : ℚ) (3/20) [-2, 3, 0, -1]
    = [1/100, -11/20, 0, -3/20, 1/100, -11/20, 0, -3/20] := by decide +kernel

/-- steps with `D = 1, 2, 3, 4, 5`, `P0 = 1`: after 2 steps slots 3 and 2 are written; after 5 steps
    slot 3 was overwritten a second time (phase wrapped) -/
example : (xlRun (169/100 : ℚ) (tmp3 ++ tmp3) 4 (fun n => (n : ℚ) + 1) 1 5).2.length = 4 := by
  decide +kernel
example : (xlRun (169/100 : ℚ) (tmp3 ++ tmp3) 4 (fun n => (n : ℚ) + 1) 1 2)
    = (5211/2000, [1, 1, 5211/2000, 1]) := by decide +kernel
example : (xlRun (169/100 : ℚ) (tmp3 ++ tmp3) 4 (fun n => (n : ℚ) + 1) 1 5)
    = (95587959248759/16000000000000,
       [42010016131/8000000000, 17450879/4000000, 5211/2000, 95587959248759/16000000000000]) := by
  decide +kernel
example : ∀ s ∈ [1, 2, 3, 4, 5, 6, 7, 8, 9],
    restorePhase 4 s (xlRun (169/100 : ℚ) (tmp3 ++ tmp3) 4 (fun n => (n : ℚ) + 1) 1 s).2
      = some (xlRun (169/100 : ℚ) (tmp3 ++ tmp3) 4 (fun n => (n : ℚ) + 1) 1 s).1 := by
  decide +kernel
/-- the hypotheses of `buffer_refines_history` are satisfiable by the real coefficient vector -/
example : (tmp3 ++ tmp3).length = 2 * 4 ∧ ∀ j, j < 4 → (tmp3 ++ tmp3)[j + 4]? = (tmp3 ++ tmp3)[j]? := by
  decide +kernel

/-! ## 2. table theorems (all k ∈ {3..9}); every statement is about `Generated.XLCoeffs.table`,
which is rewritten from the live Python on every run -/

/-- the table has exactly the supported orders -/
theorem table_orders : table.map (·.k) = [3, 4, 5, 6, 7, 8, 9] := by decide +kernel

theorem table_k_range : ∀ r ∈ table, 3 ≤ r.k ∧ r.k ≤ 9 := by decide +kernel

/-- (a) `Σ_j c_j = 0` for the integer coefficients stored in `coeffs` (and there are `k+1` of them) -/
theorem coeff_sum_zero : ∀ r ∈ table, r.c.length = r.k + 1 ∧ r.c.sum = 0 := by decide +kernel

/-- (b) `md.coeff` has length `2(k+1)` and is the `(k+1)`-vector stored twice:
`coeff[j + m] = coeff[j]`, so every window `coeff[cindx : cindx+m]` is a rotation of the first -/
theorem window_is_rotation : ∀ r ∈ table,
    r.coeff.length = 2 * (r.k + 1) ∧ (∀ j, j < r.k + 1 → r.coeff[j + (r.k + 1)]? = r.coeff[j]?) ∧
    r.coeff = r.coeff.take (r.k + 1) ++ r.coeff.take (r.k + 1) := by decide +kernel

/-- (c) the probed weights of the real `_propagate_P` (unit impulses, every phase) equal the closed
form: `D` enters with `fl(coeff_D·0.95)` (within 2⁻⁵⁰ of `0.95 κ`), `P` with `fl(coeff_D·(1-0.95))`
(within 2⁻⁵⁰ of `0.05 κ`), slot `q` at phase `ph` with exactly `coeff[ph+q]`;
KSA: `dP2dt2` and `P` enter with exactly `coeff_D`, slots as before; `coeff_D = κ` (`cc = 1.00`) -/
theorem effective_weights_match : ∀ r ∈ table,
    r.coeffD = r.kappa ∧
    r.wD.length = r.k + 1 ∧ (∀ w ∈ r.wD, |w - 95/100 * r.coeffD| ≤ 1 / 2^50) ∧
    r.wP.length = r.k + 1 ∧ (∀ w ∈ r.wP, |w - 5/100 * r.coeffD| ≤ 1 / 2^50) ∧
    r.wPt = (List.range (r.k + 1)).map (fun ph => (r.coeff.drop ph).take (r.k + 1)) ∧
    r.kwD = List.replicate (r.k + 1) r.coeffD ∧
    r.kwP = List.replicate (r.k + 1) r.coeffD ∧
    r.kwPt = (List.range (r.k + 1)).map (fun ph => (r.coeff.drop ph).take (r.k + 1)) := by
  decide +kernel

/-- (d, executed float weights) for every phase the probed weights of `D`, `P` and the `k+1` slots
sum to 1 within 2⁻⁴⁴; KSA (with `dP2dt2 = 0`): weights of `P` and the slots sum to 1 within 2⁻⁴⁴ -/
theorem fixed_point_weight_sum : ∀ r ∈ table, ∀ ph, ph < r.k + 1 →
    |r.wD.getD ph 0 + r.wP.getD ph 0 + (r.wPt.getD ph []).sum - 1| ≤ 1 / 2^44 ∧
    |r.kwP.getD ph 0 + (r.kwPt.getD ph []).sum - 1| ≤ 1 / 2^44 := by decide +kernel

/-- the same with the bound that the present table actually meets (one ulp of 1; 2⁻⁵³ fails) -/
theorem fixed_point_weight_sum_sharp : ∀ r ∈ table, ∀ ph, ph < r.k + 1 →
    |r.wD.getD ph 0 + r.wP.getD ph 0 + (r.wPt.getD ph []).sum - 1| ≤ 1 / 2^52 ∧
    |r.kwP.getD ph 0 + (r.kwPt.getD ph []).sum - 1| ≤ 1 / 2^52 := by decide +kernel

structure Pub where
  k : ℕ
  kappa : ℚ
  alpha : ℚ
  c : List ℚ
deriving DecidableEq

/-- Niklasson, Steneteg, Odell, Bock, Challacombe, Tymczak, Holmström, Zheng, Weber,
J. Chem. Phys. 130, 214109 (2009), Table I — entered here independently of the code -/
def published : List Pub :=
  [ ⟨3, 169/100, 150/1000,   [-2, 3, 0, -1]⟩,
    ⟨4, 175/100, 57/1000,    [-3, 6, -2, -2, 1]⟩,
    ⟨5, 182/100, 18/1000,    [-6, 14, -8, -3, 4, -1]⟩,
    ⟨6, 184/100, 55/10000,   [-14, 36, -27, -2, 12, -6, 1]⟩,
    ⟨7, 186/100, 16/10000,   [-36, 99, -88, 11, 32, -25, 8, -1]⟩,
    ⟨8, 188/100, 44/100000,  [-99, 286, -286, 78, 78, -90, 42, -10, 1]⟩,
    ⟨9, 189/100, 12/100000,  [-286, 858, -936, 364, 168, -300, 184, -63, 12, -1]⟩ ]

/-- (e) row by row the code's `(κ, α, c)` are the published ones: `c` exactly, `κ` and `α` within
float64 rounding (relative 2⁻⁵³) -/
theorem published_scheme : table.length = published.length ∧ ∀ rp ∈ table.zip published,
    rp.1.k = rp.2.k ∧ rp.1.c = rp.2.c ∧
    |rp.1.kappa - rp.2.kappa| ≤ rp.2.kappa / 2^53 ∧ |rp.1.alpha - rp.2.alpha| ≤ rp.2.alpha / 2^53 := by
  decide +kernel

/-- `md.coeff` (float64, built by the real `__init__`) agrees with the exact-arithmetic `__init__`
formula (`mkCoeff`) applied to the stored `(κ, α, c)` within 2⁻⁵² per entry -/
theorem coeff_matches_init : ∀ r ∈ table, ∀ j, j < 2 * (r.k + 1) →
    |r.coeff.getD j 0 - (mkCoeff r.kappa r.alpha r.c).getD j 0| ≤ 1 / 2^52 := by
  decide +kernel

/-! ### the real-number scheme built by `__init__` -/

theorem mkTmp_cons (kappa alpha c0 c1 : ℝ) (rest : List ℝ) :
    mkTmp kappa alpha (c0 :: c1 :: rest)
      = (c0 * alpha + (2 - kappa)) :: (c1 * alpha - 1) :: rest.map (· * alpha) := by
  simp [mkTmp, List.modify]
  norm_num

theorem mkTmp_length (kappa alpha : ℝ) (c : List ℝ) : (mkTmp kappa alpha c).length = c.length := by
  simp [mkTmp]

theorem mkTmp_sum (kappa alpha : ℝ) (c : List ℝ) (hc : 2 ≤ c.length) :
    (mkTmp kappa alpha c).sum = alpha * c.sum + 1 - kappa := by
  match c, hc with
  | c0 :: c1 :: rest, _ =>
    rw [mkTmp_cons]
    simp only [List.sum_cons, List.sum_map_mul_right, List.map_id']
    ring

theorem mkCoeffD_eq (kappa : ℝ) : mkCoeffD kappa = kappa := by
  simp only [mkCoeffD]; norm_num

theorem rot_of_double (tmp : List ℝ) :
    ∀ j, j < tmp.length → (tmp ++ tmp)[j + tmp.length]? = (tmp ++ tmp)[j]? := by
  intro j hj
  rw [List.getElem?_append_right (by omega), List.getElem?_append_left hj]
  simp

theorem sum_double_getD (tmp : List ℝ) :
    ∑ j ∈ range tmp.length, (tmp ++ tmp).getD j 0 = tmp.sum := by
  rw [list_sum_eq_range]
  refine Finset.sum_congr rfl (fun j hj => ?_)
  have := mem_range.mp hj
  simp [List.getD_eq_getElem?_getD, List.getElem?_append_left this]

/-! ## 3. a stationary system keeps its auxiliary density forever, at any buffer phase -/

/-- the history term on a constant buffer is `(Σ_j coeff[j]) · P0` at every phase -/
theorem histTerm_const (m c : ℕ) (hc : c < m) (coeff : List ℝ) (hclen : coeff.length = 2 * m)
    (hrot : ∀ j, j < m → coeff[j + m]? = coeff[j]?) (P0 : ℝ) :
    histTerm coeff m c (List.replicate m P0) = (∑ j ∈ range m, coeff.getD j 0) * P0 := by
  rw [histTerm_eq coeff _ m c (by simp) (by omega), Finset.sum_mul,
    ← sum_rotate m c hc (fun j => coeff.getD j 0 * P0)]
  refine Finset.sum_congr rfl (fun q hq => ?_)
  have hq' := mem_range.mp hq
  rw [coeff_rot coeff m hrot c q hc hq']
  simp [List.getD_eq_getElem?_getD, hq']

theorem set_replicate_self (m i : ℕ) (P0 : ℝ) : (List.replicate m P0).set i P0 = List.replicate m P0 := by
  apply List.ext_getElem?
  intro q
  simp only [List.getElem?_set, List.getElem?_replicate, List.length_replicate]
  by_cases h1 : i = q
  · subst h1
    by_cases h2 : i < m <;> simp [h2]
  · simp [h1]

/-- **one step, any phase**: with weights summing to one, `D = P = ` every buffer entry `= P0` is a
fixed point of `_propagate_P` + buffer write, whatever `cindx` -/
theorem fixed_point_step (m c : ℕ) (hc : c < m) (coeffD : ℝ) (coeff : List ℝ)
    (hclen : coeff.length = 2 * m) (hrot : ∀ j, j < m → coeff[j + m]? = coeff[j]?)
    (hw : coeffD + ∑ j ∈ range m, coeff.getD j 0 = 1) (P0 : ℝ) :
    stepAt coeffD coeff m c P0 P0 (List.replicate m P0) = (P0, List.replicate m P0) := by
  have hP : propagate coeffD coeff m c P0 P0 (List.replicate m P0) = P0 := by
    simp only [propagate]
    rw [histTerm_const m c hc coeff hclen hrot]
    have h95 : (0.95 : ℝ) * P0 + (1.0 - 0.95) * P0 = P0 := by
      rw [← add_mul]; norm_num
    have : coeffD * P0 + (∑ j ∈ range m, coeff.getD j 0) * P0
        = (coeffD + ∑ j ∈ range m, coeff.getD j 0) * P0 := by ring
    rw [h95, this, hw, one_mul]
  simp only [stepAt, hP, set_replicate_self]

theorem fixed_point_step_ksa (m c : ℕ) (hc : c < m) (coeffD : ℝ) (coeff : List ℝ)
    (hclen : coeff.length = 2 * m) (hrot : ∀ j, j < m → coeff[j + m]? = coeff[j]?)
    (hw : coeffD + ∑ j ∈ range m, coeff.getD j 0 = 1) (P0 : ℝ) :
    stepAtKSA coeffD coeff m c 0 P0 (List.replicate m P0) = (P0, List.replicate m P0) := by
  have hP : propagateKSA coeffD coeff m c 0 P0 (List.replicate m P0) = P0 := by
    simp only [propagateKSA]
    rw [histTerm_const m c hc coeff hclen hrot]
    have : coeffD * (0 + P0) + (∑ j ∈ range m, coeff.getD j 0) * P0
        = (coeffD + ∑ j ∈ range m, coeff.getD j 0) * P0 := by ring
    rw [this, hw, one_mul]
  simp only [stepAtKSA, hP, set_replicate_self]

theorem stationary_forever_general (m : ℕ) (hm : 0 < m) (coeffD : ℝ) (coeff : List ℝ)
    (hclen : coeff.length = 2 * m) (hrot : ∀ j, j < m → coeff[j + m]? = coeff[j]?)
    (hw : coeffD + ∑ j ∈ range m, coeff.getD j 0 = 1) (P0 : ℝ) (D : ℕ → ℝ) (hD : ∀ n, D n = P0)
    (n : ℕ) : xlRun coeffD coeff m D P0 n = (P0, List.replicate m P0) := by
  induction n with
  | zero => rfl
  | succ n ih =>
    rw [xlRun, ih, hD]
    exact fixed_point_step m (n % m) (Nat.mod_lt _ hm) coeffD coeff hclen hrot hw P0

theorem stationary_from_any_phase_general (m : ℕ) (hm : 0 < m) (coeffD : ℝ) (coeff : List ℝ)
    (hclen : coeff.length = 2 * m) (hrot : ∀ j, j < m → coeff[j + m]? = coeff[j]?)
    (hw : coeffD + ∑ j ∈ range m, coeff.getD j 0 = 1) (P0 : ℝ) (D : ℕ → ℝ) (hD : ∀ n, D n = P0)
    (offset j : ℕ) :
    xlRunFrom coeffD coeff m D offset (P0, List.replicate m P0) j = (P0, List.replicate m P0) := by
  induction j with
  | zero => rfl
  | succ j ih =>
    rw [xlRunFrom, ih, hD]
    exact fixed_point_step m _ (Nat.mod_lt _ hm) coeffD coeff hclen hrot hw P0

theorem stationary_forever_ksa_general (m : ℕ) (hm : 0 < m) (coeffD : ℝ) (coeff : List ℝ)
    (hclen : coeff.length = 2 * m) (hrot : ∀ j, j < m → coeff[j + m]? = coeff[j]?)
    (hw : coeffD + ∑ j ∈ range m, coeff.getD j 0 = 1) (P0 : ℝ) (d2 : ℕ → ℝ) (hd : ∀ n, d2 n = 0)
    (n : ℕ) : xlRunKSA coeffD coeff m d2 P0 n = (P0, List.replicate m P0) := by
  induction n with
  | zero => rfl
  | succ n ih =>
    rw [xlRunKSA, ih, hd]
    exact fixed_point_step_ksa m (n % m) (Nat.mod_lt _ hm) coeffD coeff hclen hrot hw P0

/-- hypotheses of the general theorems for the real-number scheme built by `__init__` -/
theorem scheme_hyps (kappa alpha : ℝ) (c : List ℝ) (hc : 2 ≤ c.length) :
    (mkCoeff kappa alpha c).length = 2 * c.length ∧
    (∀ j, j < c.length → (mkCoeff kappa alpha c)[j + c.length]? = (mkCoeff kappa alpha c)[j]?) ∧
    mkCoeffD kappa + ∑ j ∈ range c.length, (mkCoeff kappa alpha c).getD j 0 = 1 + alpha * c.sum := by
  have hl := mkTmp_length kappa alpha c
  refine ⟨by simp [mkCoeff, hl]; omega, ?_, ?_⟩
  · intro j hj
    have := rot_of_double (mkTmp kappa alpha c) j (by rw [hl]; exact hj)
    rw [hl] at this
    exact this
  · have := sum_double_getD (mkTmp kappa alpha c)
    rw [hl] at this
    simp only [mkCoeff]
    rw [this, mkTmp_sum kappa alpha c hc, mkCoeffD_eq]
    ring

theorem cast_sum (c : List ℚ) : (c.map (fun x : ℚ => (x : ℝ))).sum = ((c.sum : ℚ) : ℝ) := by
  induction c with
  | nil => simp
  | cons x xs ih => simp [ih]

/-- **stationary forever** (all k ∈ {3..9}, every real κ, α — in particular the published ones;
every `n`, hence every buffer phase `n % (k+1)`): if `D(n) = P0` for all `n`, the real-number scheme
built by `XL_BOMD.__init__` from the stored integer coefficients keeps `P = P0` and the whole buffer
`= P0` -/
theorem stationary_forever : ∀ r ∈ table, ∀ (kappa alpha P0 : ℝ) (D : ℕ → ℝ), (∀ n, D n = P0) →
    ∀ n, xlRun (mkCoeffD kappa) (mkCoeff kappa alpha (r.c.map (fun x : ℚ => (x : ℝ)))) (r.k + 1) D P0 n
      = (P0, List.replicate (r.k + 1) P0) := by
  intro r hr kappa alpha P0 D hD n
  obtain ⟨hlen, hsum⟩ := coeff_sum_zero r hr
  have hk := (table_k_range r hr).1
  have hlen' : (r.c.map (fun x : ℚ => (x : ℝ))).length = r.k + 1 := by simp [hlen]
  obtain ⟨h1, h2, h3⟩ := scheme_hyps kappa alpha (r.c.map (fun x : ℚ => (x : ℝ))) (by rw [hlen']; omega)
  rw [hlen'] at h1 h2 h3
  rw [cast_sum, hsum] at h3
  exact stationary_forever_general (r.k + 1) (by omega) _ _ h1 h2 (by rw [h3]; simp) P0 D hD n

/-- hypotheses of the general stationary theorems, discharged for every table row by (a) -/
theorem table_scheme_hyps : ∀ r ∈ table, ∀ (kappa alpha : ℝ),
    let coeff := mkCoeff kappa alpha (r.c.map (fun x : ℚ => (x : ℝ)))
    0 < r.k + 1 ∧ coeff.length = 2 * (r.k + 1) ∧
    (∀ j, j < r.k + 1 → coeff[j + (r.k + 1)]? = coeff[j]?) ∧
    mkCoeffD kappa + ∑ j ∈ range (r.k + 1), coeff.getD j 0 = 1 := by
  intro r hr kappa alpha
  obtain ⟨hlen, hsum⟩ := coeff_sum_zero r hr
  have hk := (table_k_range r hr).1
  have hlen' : (r.c.map (fun x : ℚ => (x : ℝ))).length = r.k + 1 := by simp [hlen]
  obtain ⟨h1, h2, h3⟩ := scheme_hyps kappa alpha (r.c.map (fun x : ℚ => (x : ℝ))) (by rw [hlen']; omega)
  rw [hlen'] at h1 h2 h3
  rw [cast_sum, hsum] at h3
  exact ⟨by omega, h1, h2, by rw [h3]; simp⟩

theorem stationary_from_any_phase : ∀ r ∈ table, ∀ (kappa alpha P0 : ℝ) (D : ℕ → ℝ),
    (∀ n, D n = P0) → ∀ offset j,
    xlRunFrom (mkCoeffD kappa) (mkCoeff kappa alpha (r.c.map (fun x : ℚ => (x : ℝ)))) (r.k + 1) D offset
      (P0, List.replicate (r.k + 1) P0) j = (P0, List.replicate (r.k + 1) P0) := by
  intro r hr kappa alpha P0 D hD offset j
  obtain ⟨h0, h1, h2, h3⟩ := table_scheme_hyps r hr kappa alpha
  exact stationary_from_any_phase_general (r.k + 1) h0 _ _ h1 h2 h3 P0 D hD offset j

theorem stationary_forever_ksa : ∀ r ∈ table, ∀ (kappa alpha P0 : ℝ) (d2 : ℕ → ℝ),
    (∀ n, d2 n = 0) → ∀ n,
    xlRunKSA (mkCoeffD kappa) (mkCoeff kappa alpha (r.c.map (fun x : ℚ => (x : ℝ)))) (r.k + 1) d2 P0 n
      = (P0, List.replicate (r.k + 1) P0) := by
  intro r hr kappa alpha P0 d2 hd n
  obtain ⟨h0, h1, h2, h3⟩ := table_scheme_hyps r hr kappa alpha
  exact stationary_forever_ksa_general (r.k + 1) h0 _ _ h1 h2 h3 P0 d2 hd n

/-- (d, real-number scheme) `κ + (2 − κ + α c_0) + (α c_1 − 1) + α Σ_{j≥2} c_j = 1 + α Σ_j c_j`:
the weights of the scheme sum to one **iff** `α Σ c_j = 0` -/
theorem weight_sum_exact (kappa alpha : ℝ) (c : List ℝ) (hc : 2 ≤ c.length) :
    (mkCoeffD kappa + ∑ j ∈ range c.length, (mkCoeff kappa alpha c).getD j 0 = 1) ↔ alpha * c.sum = 0 := by
  rw [(scheme_hyps kappa alpha c hc).2.2]
  constructor <;> intro h <;> linarith

/-- non-vacuity on ℚ: the exact k = 3 scheme keeps `P0 = 7/3` for 9 steps (two buffer wrap-arounds),
and a non-stationary `D` does move it (so the statement is not trivially true of the model) -/
example : ∀ n ∈ List.range 10,
    xlRun (mkCoeffD (169/100 : ℚ)) (mkCoeff (169/100) (3/20) [-2, 3, 0, -1]) 4 (fun _ => 7/3) (7/3) n
      = (7/3, [7/3, 7/3, 7/3, 7/3]) := by decide +kernel
example : (xlRun (mkCoeffD (169/100 : ℚ)) (mkCoeff (169/100) (3/20) [-2, 3, 0, -1]) 4
    (fun n => if n = 2 then 1 else 7/3) (7/3) 3).1 ≠ 7/3 := by decide +kernel
/-- … and a coefficient set whose sum is not zero does not keep it -/
example : (xlRun (mkCoeffD (169/100 : ℚ)) (mkCoeff (169/100) (3/20) [-2, 3, 0, 1]) 4 (fun _ => 7/3) (7/3) 1).1
    ≠ 7/3 := by decide +kernel

/-! ## 4. shadow energy: `E_XL(D, P)` against `E_SCF(P)`

Matrices are functions `Fin n → Fin n → ℝ`; the Python sums elementwise products over both matrix
indices (`torch.sum(…, dim=(1,2))`).  The identity below holds for **every** `Hcore` and **every**
`F`, hence along every path of the integrals at fixed `P`: the shadow forces (variation of `E_XL`
in the integrals at fixed `(D, P)`) coincide with the corresponding variation of `E_SCF` when
`D = P`. -/

variable {n : ℕ}

/-- `h = Hcore.triu() + Hcore.triu(1).transpose(1, 2)` -/
def symTriu (H : Fin n → Fin n → ℝ) : Fin n → Fin n → ℝ := fun i j => if i ≤ j then H i j else H j i

/-- `energy.elec_energy` (closed shell): `0.5 * torch.sum(P * (h + F), dim=(1,2))` -/
noncomputable def elecEnergy (P F Hcore : Fin n → Fin n → ℝ) : ℝ :=
  0.5 * ∑ i, ∑ j, P i j * (symTriu Hcore i j + F i j)

/-- `energy.elec_energy_xl`: `torch.sum(D * F - 0.5 * (F - h) * P, dim=(1,2))` -/
noncomputable def elecEnergyXL (D P F Hcore : Fin n → Fin n → ℝ) : ℝ :=
  ∑ i, ∑ j, (D i j * F i j - 0.5 * (F i j - symTriu Hcore i j) * P i j)

/-- **`E_XL(D, P) = E_SCF(P)` when `D = P`** — for every `Hcore` and every Fock matrix `F` -/
theorem shadow_energy_consistent_any_F (P F Hcore : Fin n → Fin n → ℝ) :
    elecEnergyXL P P F Hcore = elecEnergy P F Hcore := by
  unfold elecEnergyXL elecEnergy
  rw [Finset.mul_sum]
  refine Finset.sum_congr rfl (fun i _ => ?_)
  rw [Finset.mul_sum]
  refine Finset.sum_congr rfl (fun j _ => ?_)
  norm_num
  ring

theorem shadow_energy_consistent (P Hcore : Fin n → Fin n → ℝ)
    (G : (Fin n → Fin n → ℝ) → Fin n → Fin n → ℝ) :
    elecEnergyXL P P (fun i j => symTriu Hcore i j + G P i j) Hcore
      = elecEnergy P (fun i j => symTriu Hcore i j + G P i j) Hcore :=
  shadow_energy_consistent_any_F P _ Hcore

/-- the docstring identity `E(D,P) = (2 tr(h D) + tr((2D − P) G(P))) / 2` for `F = h + G(P)` -/
theorem shadow_energy_docstring (D P Hcore : Fin n → Fin n → ℝ)
    (G : (Fin n → Fin n → ℝ) → Fin n → Fin n → ℝ) :
    elecEnergyXL D P (fun i j => symTriu Hcore i j + G P i j) Hcore
      = ∑ i, ∑ j, symTriu Hcore i j * D i j + 0.5 * ∑ i, ∑ j, (2 * D i j - P i j) * G P i j := by
  unfold elecEnergyXL
  rw [Finset.mul_sum, ← Finset.sum_add_distrib]
  refine Finset.sum_congr rfl (fun i _ => ?_)
  rw [Finset.mul_sum, ← Finset.sum_add_distrib]
  refine Finset.sum_congr rfl (fun j _ => ?_)
  norm_num
  ring

/-- `E_XL` is affine in `D` with gradient `F`: `E_XL(D + δ, P) − E_XL(D, P) = Σ δ_ij F_ij`
(`∂E_XL/∂D = F(P)`, the Fock matrix the SCF-free step diagonalises) -/
theorem shadow_energy_grad_D (D δ P F Hcore : Fin n → Fin n → ℝ) :
    elecEnergyXL (fun i j => D i j + δ i j) P F Hcore - elecEnergyXL D P F Hcore
      = ∑ i, ∑ j, δ i j * F i j := by
  unfold elecEnergyXL
  rw [← Finset.sum_sub_distrib]
  refine Finset.sum_congr rfl (fun i _ => ?_)
  rw [← Finset.sum_sub_distrib]
  refine Finset.sum_congr rfl (fun j _ => ?_)
  ring

/-- non-vacuity: a concrete 2×2 instance, `E_XL(P,P) = 5` (`= E_SCF(P) = ½ Σ P (h+F)`); the lower
triangle of `Hcore` (the entry 100) is ignored, as in the code -/
example : elecEnergyXL (n := 2) (fun _ _ => 1) (fun _ _ => 1) (fun i j => if i = j then 2 else 1)
    (fun i j => if i ≤ j then 1 else 100) = 5 := by
  simp [elecEnergyXL, symTriu, Fin.sum_univ_two]; norm_num

/-! ## 5. stability: characteristic polynomial, necessary conditions for all k -/

/-- Horner evaluation `(((init·z + a_0)·z + a_1)·z + …) + a_last` -/
def horner (z init : ℝ) (a : List ℝ) : ℝ := a.foldl (fun acc x => acc * z + x) init

/-- characteristic polynomial of `x_{t+1} = Σ_{j<m} a_j x_{t-j}`: `χ(z) = z^m − Σ_j a_j z^(m-1-j)` -/
def chi (a : List ℝ) (z : ℝ) : ℝ := z ^ a.length - horner z 0 a

/-- weights of the error recurrence at response `λ`: the `__init__` formula with `κ` replaced by
`λ`, i.e. `a_0 = 2 − λ + α c_0`, `a_1 = α c_1 − 1`, `a_j = α c_j` (see `linear_response`) -/
def chiXL (alpha : ℝ) (c : List ℝ) (lam z : ℝ) : ℝ := chi (mkTmp lam alpha c) z

theorem horner_append (z init : ℝ) (a : List ℝ) (x : ℝ) :
    horner z init (a ++ [x]) = horner z init a * z + x := by
  simp [horner, List.foldl_append]

theorem horner_eq_sum (z : ℝ) (a : List ℝ) :
    horner z 0 a = ∑ j ∈ range a.length, a.getD j 0 * z ^ (a.length - 1 - j) := by
  induction a using List.reverseRecOn with
  | nil => simp [horner]
  | append_singleton a x ih =>
    rw [horner_append, ih, List.length_append, List.length_singleton, Finset.sum_range_succ,
      Finset.sum_mul]
    congr 1
    · refine Finset.sum_congr rfl (fun j hj => ?_)
      have hj' := mem_range.mp hj
      have e : a.length + 1 - 1 - j = (a.length - 1 - j) + 1 := by omega
      rw [e, pow_succ]
      simp [List.getD_eq_getElem?_getD, List.getElem?_append_left hj']
      ring
    · simp [List.getD_eq_getElem?_getD]

/-- `χ` is the characteristic polynomial: the geometric sequence `x_t = z^t` satisfies the
recurrence at time `t = n + m - 1` iff `z^n χ(z) = 0` -/
theorem chi_is_characteristic (a : List ℝ) (z : ℝ) (n : ℕ) :
    z ^ (n + a.length) - ∑ j ∈ range a.length, a.getD j 0 * z ^ (n + a.length - 1 - j)
      = z ^ n * chi a z := by
  unfold chi
  rw [horner_eq_sum, mul_sub, Finset.mul_sum, pow_add]
  congr 1
  refine Finset.sum_congr rfl (fun j hj => ?_)
  have hj' := mem_range.mp hj
  have e : n + a.length - 1 - j = n + (a.length - 1 - j) := by omega
  rw [e, pow_add]; ring

theorem horner_one (init : ℝ) (a : List ℝ) : horner 1 init a = init + a.sum := by
  induction a generalizing init with
  | nil => simp [horner]
  | cons x xs ih =>
    have : horner 1 init (x :: xs) = horner 1 (init * 1 + x) xs := rfl
    rw [this, ih, List.sum_cons]; ring

/-- alternating sum `x_0 − x_1 + x_2 − …` -/
def alt {R : Type} [Ring R] : List R → R
  | [] => 0
  | x :: xs => x - alt xs

theorem horner_neg_one (init : ℝ) (a : List ℝ) :
    (-1) ^ a.length * horner (-1) init a = init - alt a := by
  induction a generalizing init with
  | nil => simp [horner, alt]
  | cons x xs ih =>
    have : horner (-1) init (x :: xs) = horner (-1) (init * (-1) + x) xs := rfl
    rw [this, List.length_cons, pow_succ, mul_assoc, mul_comm (-1 : ℝ), ← mul_assoc, ih]
    simp [alt]; ring

theorem alt_map_mul (alpha : ℝ) (l : List ℝ) : alt (l.map (· * alpha)) = alpha * alt l := by
  induction l with
  | nil => simp [alt]
  | cons x xs ih => simp [alt, ih]; ring

theorem alt_cast (l : List ℚ) : alt (l.map (fun x : ℚ => (x : ℝ))) = ((alt l : ℚ) : ℝ) := by
  induction l with
  | nil => simp [alt]
  | cons x xs ih => simp [alt, ih]

/-- `χ_λ(1) = λ − α Σ c_j` for every coefficient list (`≥ 2` entries) -/
theorem chiXL_one (alpha : ℝ) (c : List ℝ) (hc : 2 ≤ c.length) (lam : ℝ) :
    chiXL alpha c lam 1 = lam - alpha * c.sum := by
  unfold chiXL chi
  rw [horner_one, mkTmp_sum lam alpha c hc]; simp; ring

/-- `(−1)^m χ_λ(−1) = 4 − λ + α Σ (−1)^j c_j` -/
theorem chiXL_neg_one (alpha : ℝ) (c : List ℝ) (hc : 2 ≤ c.length) (lam : ℝ) :
    (-1) ^ c.length * chiXL alpha c lam (-1) = 4 - lam + alpha * alt c := by
  unfold chiXL chi
  have hl := mkTmp_length lam alpha c
  have := horner_neg_one 0 (mkTmp lam alpha c)
  rw [hl] at this ⊢
  rw [mul_sub, ← pow_add, ← two_mul, pow_mul, this]
  match c, hc with
  | c0 :: c1 :: rest, _ =>
    rw [mkTmp_cons]
    simp only [alt, alt_map_mul]
    norm_num; ring

theorem mkTmp_append (lam alpha : ℝ) (c' : List ℝ) (ck : ℝ) (hc : 2 ≤ c'.length) :
    mkTmp lam alpha (c' ++ [ck]) = mkTmp lam alpha c' ++ [ck * alpha] := by
  match c', hc with
  | c0 :: c1 :: rest, _ =>
    rw [List.cons_append, List.cons_append, mkTmp_cons, mkTmp_cons]; simp

/-- constant term: `χ_λ(0) = −α c_k` (so the product of the roots is `±α c_k`) -/
theorem chiXL_zero (alpha : ℝ) (c' : List ℝ) (ck : ℝ) (hc : 2 ≤ c'.length) (lam : ℝ) :
    chiXL alpha (c' ++ [ck]) lam 0 = -(ck * alpha) := by
  unfold chiXL chi
  rw [mkTmp_append lam alpha c' ck hc, horner_append]
  simp

/-- **χ_λ(1) = λ** for all k ∈ {3..9} and all real λ: no root at `z = 1` unless `λ = 0` -/
theorem chi_at_one : ∀ r ∈ table, ∀ lam : ℝ,
    chiXL (r.alpha : ℝ) (r.c.map (fun x : ℚ => (x : ℝ))) lam 1 = lam := by
  intro r hr lam
  obtain ⟨hlen, hsum⟩ := coeff_sum_zero r hr
  have hk := (table_k_range r hr).1
  rw [chiXL_one _ _ (by simp [hlen]; omega), cast_sum, hsum]; simp

/-- table fact behind `chi_at_minus_one`: `0.95 κ < 4 + α Σ (−1)^j c_j` -/
theorem minus_one_margin : ∀ r ∈ table, 95/100 * r.kappa < 4 + r.alpha * alt r.c := by
  decide +kernel

/-- **sign of χ_λ(−1)** for all k ∈ {3..9}, on the whole admissible range `λ ≤ 0.95 κ`
(`λ = 0.95 κ (1 − Γ)`): `(−1)^(k+1) χ_λ(−1) = 4 − λ + α Σ (−1)^j c_j > 0`, the sign of a monic
polynomial of degree `k+1` without real root `≤ −1`; in particular `−1` is not a root -/
theorem chi_at_minus_one : ∀ r ∈ table, ∀ lam : ℝ, lam ≤ 0.95 * (r.kappa : ℝ) →
    0 < (-1) ^ (r.k + 1) * chiXL (r.alpha : ℝ) (r.c.map (fun x : ℚ => (x : ℝ))) lam (-1) := by
  intro r hr lam hlam
  obtain ⟨hlen, -⟩ := coeff_sum_zero r hr
  have hk := (table_k_range r hr).1
  have hlen' : (r.c.map (fun x : ℚ => (x : ℝ))).length = r.k + 1 := by simp [hlen]
  have h := chiXL_neg_one (r.alpha : ℝ) (r.c.map (fun x : ℚ => (x : ℝ))) (by rw [hlen']; omega) lam
  rw [hlen'] at h
  rw [h, alt_cast]
  have hm : ((95/100 * r.kappa : ℚ) : ℝ) < ((4 + r.alpha * alt r.c : ℚ) : ℝ) :=
    Rat.cast_lt.mpr (minus_one_margin r hr)
  push_cast at hm
  have e : (0.95 : ℝ) = 95 / 100 := by norm_num
  rw [e] at hlam
  linarith

/-- table fact behind `root_product` -/
theorem last_coeff_small : ∀ r ∈ table,
    r.c = r.c.dropLast ++ [r.c.getLastD 0] ∧ |r.c.getLastD 0 * r.alpha| < 1 := by decide +kernel

/-- **product of the roots**: `χ_λ(0) = −α c_k` independently of `λ`, and `|α c_k| < 1`
for all k ∈ {3..9} -/
theorem root_product : ∀ r ∈ table, ∀ lam : ℝ,
    chiXL (r.alpha : ℝ) (r.c.map (fun x : ℚ => (x : ℝ))) lam 0
      = -(((r.c.getLastD 0 * r.alpha : ℚ)) : ℝ) ∧
    |chiXL (r.alpha : ℝ) (r.c.map (fun x : ℚ => (x : ℝ))) lam 0| < 1 := by
  intro r hr lam
  obtain ⟨hlen, -⟩ := coeff_sum_zero r hr
  have hk := (table_k_range r hr).1
  obtain ⟨hsplit, hsmall⟩ := last_coeff_small r hr
  have hd : 2 ≤ (r.c.dropLast.map (fun x : ℚ => (x : ℝ))).length := by simp [hlen]; omega
  have e : r.c.map (fun x : ℚ => (x : ℝ))
      = r.c.dropLast.map (fun x : ℚ => (x : ℝ)) ++ [((r.c.getLastD 0 : ℚ) : ℝ)] := by
    conv_lhs => rw [hsplit]
    simp
  have h0 : chiXL (r.alpha : ℝ) (r.c.map (fun x : ℚ => (x : ℝ))) lam 0
      = -(((r.c.getLastD 0 * r.alpha : ℚ)) : ℝ) := by
    rw [e, chiXL_zero _ _ _ hd]; push_cast; ring
  refine ⟨h0, ?_⟩
  rw [h0, abs_neg, ← Rat.cast_abs]
  exact_mod_cast hsmall

theorem mkTmp_getD_shift (kappa lam alpha : ℝ) (c : List ℝ) (hc : 2 ≤ c.length) (j : ℕ) :
    (mkTmp lam alpha c).getD j 0
      = (mkTmp kappa alpha c).getD j 0 + (if j = 0 then kappa - lam else 0) := by
  match c, hc with
  | c0 :: c1 :: rest, _ =>
    rw [mkTmp_cons, mkTmp_cons]
    cases j with
    | zero => simp; ring
    | succ j => simp

/-- **linearised response**: if the SCF-free density responds linearly to the auxiliary density
around a fixed point `D*`, `D(n) = D* + Γ (P(n) − D*)`, then the error `x = P − D*` obeys the
homogeneous recurrence `x_{n+1} = Σ_j a_j(λ) x_{n−j}` whose weights are the `__init__` formula with
`κ` replaced by `λ = 0.95 κ (1 − Γ)` — the recurrence whose characteristic polynomial is `chiXL`.
(`0.95` is the literal `c` of `_propagate_P`; requires `α Σ c_j = 0`.) -/
theorem linear_response (kappa alpha : ℝ) (c : List ℝ) (hc : 2 ≤ c.length)
    (hsum : alpha * c.sum = 0) (Dstar Γ P0 : ℝ) (D : ℕ → ℝ)
    (hD : ∀ n, D n = Dstar + Γ *
      (hist (mkCoeffD kappa) (fun j => (mkCoeff kappa alpha c).getD j 0) c.length D P0 n 0 - Dstar))
    (n : ℕ) :
    hist (mkCoeffD kappa) (fun j => (mkCoeff kappa alpha c).getD j 0) c.length D P0 (n + 1) 0 - Dstar
      = ∑ j ∈ range c.length, (mkTmp (0.95 * kappa * (1 - Γ)) alpha c).getD j 0 *
          (hist (mkCoeffD kappa) (fun j => (mkCoeff kappa alpha c).getD j 0) c.length D P0 n j - Dstar) := by
  have hw := (scheme_hyps kappa alpha c hc).2.2
  rw [hsum, mkCoeffD_eq] at hw
  rw [mkCoeffD_eq] at hD ⊢
  set h := hist kappa (fun j => (mkCoeff kappa alpha c).getD j 0) c.length D P0 with hh
  have hstep : h (n + 1) 0 = kappa * (0.95 * D n + (1.0 - 0.95) * h n 0)
      + ∑ j ∈ range c.length, (mkCoeff kappa alpha c).getD j 0 * h n j := by
    rw [hh]; simp only [hist]
  have hcoef : ∀ j ∈ range c.length,
      (mkTmp (0.95 * kappa * (1 - Γ)) alpha c).getD j 0 * (h n j - Dstar)
        = (mkCoeff kappa alpha c).getD j 0 * h n j - Dstar * (mkCoeff kappa alpha c).getD j 0
          + (if j = 0 then (kappa - 0.95 * kappa * (1 - Γ)) * (h n 0 - Dstar) else 0) := by
    intro j hj
    have hj' := mem_range.mp hj
    have e : (mkCoeff kappa alpha c).getD j 0 = (mkTmp kappa alpha c).getD j 0 := by
      have : j < (mkTmp kappa alpha c).length := by rw [mkTmp_length]; exact hj'
      simp [mkCoeff, List.getD_eq_getElem?_getD, List.getElem?_append_left this]
    rw [mkTmp_getD_shift kappa _ alpha c hc j, e]
    split_ifs with h0
    · subst h0; ring
    · ring
  rw [Finset.sum_congr rfl hcoef, Finset.sum_add_distrib, Finset.sum_sub_distrib, ← Finset.mul_sum,
    Finset.sum_ite_eq' (range c.length) 0, if_pos (mem_range.mpr (by omega)), hstep, hD n]
  have hS : ∑ j ∈ range c.length, (mkCoeff kappa alpha c).getD j 0 = 1 - kappa := by linarith
  rw [hS]
  norm_num
  ring

/-! ## 6. Lyapunov stability of the k = 3 scheme on the continuum `λ ∈ [1/50, 0.95·1.69]` -/

/-- `Lyap.next3` is the error recurrence of the model for the published k = 3 constants:
`Σ_j a_j(λ) x_j` with `a(λ) = mkTmp λ (3/20) [-2, 3, 0, -1]` -/
theorem next3_eq_mkTmp (lam x0 x1 x2 x3 : ℝ) :
    Lyap.next3 lam x0 x1 x2 x3
      = (mkTmp lam (3/20) [-2, 3, 0, -1]).getD 0 0 * x0 + (mkTmp lam (3/20) [-2, 3, 0, -1]).getD 1 0 * x1
        + (mkTmp lam (3/20) [-2, 3, 0, -1]).getD 2 0 * x2 + (mkTmp lam (3/20) [-2, 3, 0, -1]).getD 3 0 * x3 := by
  rw [mkTmp_cons]
  simp [Lyap.next3]
  ring

/-- the constants used by the certificates are the published k = 3 row, which is the code's row 3
within float rounding (`published_scheme`) -/
theorem k3_constants : published.head? = some ⟨3, 169/100, 3/20, [-2, 3, 0, -1]⟩ := by decide +kernel

/-- **one interval** (`k3_stable_on_interval_i` for every `i`: apply to `LyapK3.raw_i`): from the two
end-point certificates and concavity in `λ`, `V(C(λ)x) ≤ θ V(x)` for every `λ ∈ [lo, hi]` -/
theorem k3_stable_on_interval (r : Lyap.Raw) (lam : ℝ) (h1 : (r.lo : ℝ) ≤ lam) (h2 : lam ≤ (r.hi : ℝ))
    (x0 x1 x2 x3 : ℝ) :
    r.V (Lyap.next3 lam x0 x1 x2 x3) x0 x1 x2 ≤ r.theta * r.V x0 x1 x2 x3 := by
  rw [r.lo_cast] at h1
  rw [r.hi_cast] at h2
  exact Lyap.interval_of_endpoints _ _ _ _ _ _ _ _ _ _ _ r.p00_nonneg r.loR r.hiR lam h1 h2 x0 x1 x2 x3
    (r.cert_lo x0 x1 x2 x3) (r.cert_hi x0 x1 x2 x3)

/-- instance: the first generated interval -/
theorem k3_stable_on_interval_0 (lam : ℝ) (h1 : (LyapK3.raw_0.lo : ℝ) ≤ lam)
    (h2 : lam ≤ (LyapK3.raw_0.hi : ℝ)) (x0 x1 x2 x3 : ℝ) :
    LyapK3.raw_0.V (Lyap.next3 lam x0 x1 x2 x3) x0 x1 x2 ≤ LyapK3.raw_0.theta * LyapK3.raw_0.V x0 x1 x2 x3 :=
  k3_stable_on_interval LyapK3.raw_0 lam h1 h2 x0 x1 x2 x3

/-- the generated intervals are chained and reach from `1/50` to `3211/2000 = 0.95 · 1.69` -/
theorem k3_intervals_cover :
    Lyap.chained LyapK3.all = true ∧ LyapK3.first.lo = 1/50 ∧
    Lyap.lastHi LyapK3.first LyapK3.rest = 3211/2000 := by
  refine ⟨?_, ?_, ?_⟩ <;> decide +kernel

/-- **k = 3 is stable on the whole range** `λ ∈ [1/50, 0.95·1.69]`: for every such `λ` there is a
positive definite quadratic Lyapunov function that contracts by a factor `θ < 1` in every step of
the error recurrence `x ↦ (next3 λ x, x0, x1, x2)` -/
theorem k3_stable (lam : ℝ) (h1 : 1/50 ≤ lam) (h2 : lam ≤ 0.95 * 1.69) :
    ∃ (V : ℝ → ℝ → ℝ → ℝ → ℝ) (mu theta : ℝ), 0 < mu ∧ 0 ≤ theta ∧ theta < 1 ∧
      (∀ x0 x1 x2 x3, mu * (x0^2 + x1^2 + x2^2 + x3^2) ≤ V x0 x1 x2 x3) ∧
      (∀ x0 x1 x2 x3, V (Lyap.next3 lam x0 x1 x2 x3) x0 x1 x2 ≤ theta * V x0 x1 x2 x3) := by
  obtain ⟨hc, hlo, hhi⟩ := k3_intervals_cover
  have a1 : ((LyapK3.first.lo : ℚ) : ℝ) ≤ lam := by rw [hlo]; norm_num; linarith
  have a2 : lam ≤ ((Lyap.lastHi LyapK3.first LyapK3.rest : ℚ) : ℝ) := by
    rw [hhi]; norm_num at h2 ⊢; linarith
  obtain ⟨r, -, hr1, hr2⟩ := Lyap.cover LyapK3.first LyapK3.rest hc lam a1 a2
  exact ⟨r.V, r.mu, r.theta, r.mu_pos, r.theta_nonneg, r.theta_lt_one, r.pos,
    k3_stable_on_interval r lam hr1 hr2⟩

/-- state of the k = 3 error recurrence after `n` steps -/
noncomputable def traj3 (lam : ℝ) (x : ℝ × ℝ × ℝ × ℝ) : ℕ → ℝ × ℝ × ℝ × ℝ
  | 0 => x
  | n+1 =>
    let s := traj3 lam x n
    (Lyap.next3 lam s.1 s.2.1 s.2.2.1 s.2.2.2, s.1, s.2.1, s.2.2.1)

/-- every trajectory of the error recurrence decays geometrically: `x_n² ≤ (V(x(0))/μ) θⁿ` -/
theorem k3_trajectories_decay (lam : ℝ) (h1 : 1/50 ≤ lam) (h2 : lam ≤ 0.95 * 1.69) :
    ∃ (V : ℝ → ℝ → ℝ → ℝ → ℝ) (mu theta : ℝ), 0 < mu ∧ 0 ≤ theta ∧ theta < 1 ∧
      ∀ (x : ℝ × ℝ × ℝ × ℝ) (n : ℕ),
        mu * (traj3 lam x n).1 ^ 2 ≤ theta ^ n * V x.1 x.2.1 x.2.2.1 x.2.2.2 := by
  obtain ⟨V, mu, theta, hmu, hth0, hth1, hpos, hdec⟩ := k3_stable lam h1 h2
  refine ⟨V, mu, theta, hmu, hth0, hth1, fun x n => ?_⟩
  have hV : ∀ n, V (traj3 lam x n).1 (traj3 lam x n).2.1 (traj3 lam x n).2.2.1 (traj3 lam x n).2.2.2
      ≤ theta ^ n * V x.1 x.2.1 x.2.2.1 x.2.2.2 := by
    intro n
    induction n with
    | zero => simp [traj3]
    | succ n ih =>
      have := hdec (traj3 lam x n).1 (traj3 lam x n).2.1 (traj3 lam x n).2.2.1 (traj3 lam x n).2.2.2
      calc V (traj3 lam x (n+1)).1 (traj3 lam x (n+1)).2.1 (traj3 lam x (n+1)).2.2.1 (traj3 lam x (n+1)).2.2.2
          ≤ theta * V (traj3 lam x n).1 (traj3 lam x n).2.1 (traj3 lam x n).2.2.1 (traj3 lam x n).2.2.2 := this
        _ ≤ theta * (theta ^ n * V x.1 x.2.1 x.2.2.1 x.2.2.2) := mul_le_mul_of_nonneg_left ih hth0
        _ = theta ^ (n + 1) * V x.1 x.2.1 x.2.2.1 x.2.2.2 := by ring
  have hp := hpos (traj3 lam x n).1 (traj3 lam x n).2.1 (traj3 lam x n).2.2.1 (traj3 lam x n).2.2.2
  have : mu * (traj3 lam x n).1 ^ 2
      ≤ mu * ((traj3 lam x n).1 ^ 2 + (traj3 lam x n).2.1 ^ 2 + (traj3 lam x n).2.2.1 ^ 2
          + (traj3 lam x n).2.2.2 ^ 2) := by
    apply mul_le_mul_of_nonneg_left _ hmu.le
    nlinarith [sq_nonneg (traj3 lam x n).2.1, sq_nonneg (traj3 lam x n).2.2.1, sq_nonneg (traj3 lam x n).2.2.2]
  linarith [hV n]

/-- **the model's auxiliary density converges**: for the published k = 3 scheme
(`κ = 1.69`, `α = 0.15`) with a linear response `D(n) = D* + Γ (P(n) − D*)` whose `λ = 0.95 κ (1 − Γ)`
lies in `[1/50, 0.95·1.69]`, the error `P(n) − D*` of the history recurrence (which the circular
buffer implementation computes, `buffer_refines_history`) decays geometrically -/
theorem k3_linear_response_converges (Dstar Γ P0 : ℝ) (D : ℕ → ℝ)
    (hD : ∀ n, D n = Dstar + Γ *
      (hist (mkCoeffD (169/100)) (fun j => (mkCoeff (169/100) (3/20) [-2, 3, 0, -1]).getD j 0) 4 D P0 n 0 - Dstar))
    (h1 : 1/50 ≤ 0.95 * (169/100) * (1 - Γ)) (h2 : 0.95 * (169/100) * (1 - Γ) ≤ 0.95 * 1.69) :
    ∃ (B theta : ℝ), 0 ≤ theta ∧ theta < 1 ∧ ∀ n,
      (hist (mkCoeffD (169/100)) (fun j => (mkCoeff (169/100) (3/20) [-2, 3, 0, -1]).getD j 0) 4 D P0 n 0
        - Dstar) ^ 2 ≤ B * theta ^ n := by
  obtain ⟨V, mu, theta, hmu, hth0, hth1, hpos, hdec⟩ := k3_stable _ h1 h2
  set h := hist (mkCoeffD (169/100)) (fun j => (mkCoeff (169/100) (3/20) [-2, 3, 0, -1]).getD j 0) 4 D P0
    with hh
  have hlin : ∀ n, h (n + 1) 0 - Dstar = Lyap.next3 (0.95 * (169/100) * (1 - Γ))
      (h n 0 - Dstar) (h n 1 - Dstar) (h n 2 - Dstar) (h n 3 - Dstar) := by
    intro n
    have := linear_response (169/100) (3/20) [-2, 3, 0, -1] (by simp) (by norm_num) Dstar Γ P0 D hD n
    have e4 : ([-2, 3, 0, -1] : List ℝ).length = 4 := rfl
    rw [e4, Finset.sum_range_succ, Finset.sum_range_succ, Finset.sum_range_succ, Finset.sum_range_one] at this
    rw [next3_eq_mkTmp]
    exact this
  have hshift : ∀ n j, h (n + 1) (j + 1) = h n j := fun n j => rfl
  have hV : ∀ n, V (h n 0 - Dstar) (h n 1 - Dstar) (h n 2 - Dstar) (h n 3 - Dstar)
      ≤ theta ^ n * V (P0 - Dstar) (P0 - Dstar) (P0 - Dstar) (P0 - Dstar) := by
    intro n
    induction n with
    | zero => simp [hh, hist]
    | succ n ih =>
      have e1 : h (n + 1) 1 = h n 0 := hshift n 0
      have e2 : h (n + 1) 2 = h n 1 := hshift n 1
      have e3 : h (n + 1) 3 = h n 2 := hshift n 2
      rw [hlin n, e1, e2, e3]
      calc _ ≤ theta * V (h n 0 - Dstar) (h n 1 - Dstar) (h n 2 - Dstar) (h n 3 - Dstar) := hdec _ _ _ _
        _ ≤ theta * (theta ^ n * V (P0 - Dstar) (P0 - Dstar) (P0 - Dstar) (P0 - Dstar)) :=
            mul_le_mul_of_nonneg_left ih hth0
        _ = theta ^ (n + 1) * V (P0 - Dstar) (P0 - Dstar) (P0 - Dstar) (P0 - Dstar) := by ring
  refine ⟨V (P0 - Dstar) (P0 - Dstar) (P0 - Dstar) (P0 - Dstar) / mu, theta, hth0, hth1, fun n => ?_⟩
  have hp := hpos (h n 0 - Dstar) (h n 1 - Dstar) (h n 2 - Dstar) (h n 3 - Dstar)
  have h3 : mu * (h n 0 - Dstar) ^ 2 ≤ theta ^ n * V (P0 - Dstar) (P0 - Dstar) (P0 - Dstar) (P0 - Dstar) := by
    have : mu * (h n 0 - Dstar) ^ 2 ≤ mu * ((h n 0 - Dstar) ^ 2 + (h n 1 - Dstar) ^ 2
        + (h n 2 - Dstar) ^ 2 + (h n 3 - Dstar) ^ 2) := by
      apply mul_le_mul_of_nonneg_left _ hmu.le
      nlinarith [sq_nonneg (h n 1 - Dstar), sq_nonneg (h n 2 - Dstar), sq_nonneg (h n 3 - Dstar)]
    linarith [hV n]
  rw [div_mul_eq_mul_div, le_div_iff₀ hmu]
  linarith

/-- non-vacuity of the range hypotheses: `Γ = 1/2` gives `λ = 0.80275 ∈ [1/50, 1.6055]` -/
example : (1/50 : ℝ) ≤ 0.95 * (169/100) * (1 - 1/2) ∧ (0.95 : ℝ) * (169/100) * (1 - 1/2) ≤ 0.95 * 1.69 := by
  norm_num

/-! ## 7. the executed coefficient vector; further non-vacuity examples -/

/-- the hypotheses of `buffer_refines_history` hold for the coefficient vector that is actually
executed (`md.coeff` of every table row, as reals) -/
theorem executed_coeff_hyps : ∀ r ∈ table,
    0 < r.k + 1 ∧ (r.coeff.map (fun x : ℚ => (x : ℝ))).length = 2 * (r.k + 1) ∧
    ∀ j, j < r.k + 1 → (r.coeff.map (fun x : ℚ => (x : ℝ)))[j + (r.k + 1)]?
      = (r.coeff.map (fun x : ℚ => (x : ℝ)))[j]? := by
  intro r hr
  obtain ⟨h1, h2, -⟩ := window_is_rotation r hr
  refine ⟨by omega, by simp [h1], fun j hj => ?_⟩
  simp only [List.getElem?_map, h2 j hj]

/-- **the recurrence actually executed** (all k ∈ {3..9}, every `n`, every `D` sequence): the
circular-buffer code run with the real `coeff_D` and `md.coeff` computes the history recurrence
`P(n+1) = coeff_D (0.95 D(n) + 0.05 P(n)) + Σ_{j ≤ k} coeff[j] P(n−j)`, whose weights are the
published ones within float rounding (`coeff_matches_init`, `published_scheme`) -/
theorem buffer_refines_history_executed : ∀ r ∈ table, ∀ (D : ℕ → ℝ) (P0 : ℝ) (n : ℕ),
    (xlRun (r.coeffD : ℝ) (r.coeff.map (fun x : ℚ => (x : ℝ))) (r.k + 1) D P0 n).1
      = hist (r.coeffD : ℝ) (fun j => (r.coeff.map (fun x : ℚ => (x : ℝ))).getD j 0) (r.k + 1) D P0 n 0 ∧
    ∀ q < r.k + 1, (xlRun (r.coeffD : ℝ) (r.coeff.map (fun x : ℚ => (x : ℝ))) (r.k + 1) D P0 n).2[q]?
      = some (hist (r.coeffD : ℝ) (fun j => (r.coeff.map (fun x : ℚ => (x : ℝ))).getD j 0) (r.k + 1) D P0 n
          ((n % (r.k + 1) + q) % (r.k + 1))) := by
  intro r hr D P0 n
  obtain ⟨h0, h1, h2⟩ := executed_coeff_hyps r hr
  obtain ⟨a, -, b⟩ := buffer_refines_history (r.k + 1) h0 (r.coeffD : ℝ) _ h1 h2 D P0 n
  exact ⟨a, b⟩

/-- concrete value of the characteristic polynomial (k = 3, `λ = 1`): `χ(2) = 16 − (0.7·8 − 0.55·4 − 0.15) = 12.75` -/
example : chiXL (3/20) [-2, 3, 0, -1] 1 2 = 51/4 := by
  unfold chiXL chi
  rw [mkTmp_cons]
  simp [horner]
  norm_num

/-- non-vacuity of `k3_linear_response_converges`: `Γ = 0` (`D ≡ D*`), i.e. `λ = 0.95 κ` -/
example : ∃ (B theta : ℝ), 0 ≤ theta ∧ theta < 1 ∧ ∀ n,
    (hist (mkCoeffD (169/100)) (fun j => (mkCoeff (169/100) (3/20) [-2, 3, 0, -1]).getD j 0) 4
      (fun _ => 1) 2 n 0 - 1) ^ 2 ≤ B * theta ^ n :=
  k3_linear_response_converges 1 0 2 (fun _ => 1) (by intro n; simp) (by norm_num) (by norm_num)

end C09
