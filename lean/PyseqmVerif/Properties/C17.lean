import PyseqmVerif.Proofs.HopLemmas
import PyseqmVerif.Proofs.RK4Lemmas
import PyseqmVerif.Proofs.RelabelLemmas
import Mathlib.Algebra.Order.Floor.Ring
import Mathlib.Tactic.IntervalCases
/-!
# C17 — surface hopping: population norm, hop probabilities, energy-conserving rescale, relabel, isolation

Property (verbatim): "Propagation of the electronic amplitudes preserves the total population to the
accuracy order of the integrator for any antisymmetric coupling matrix and state energies; hop
probabilities lie in [0,1] with row sum at most one. An accepted hop changes the velocities only
along the mass-weighted coupling vector, by the smaller of the two adjustments that conserve total
energy exactly, a frustrated hop leaves state and velocities untouched, a trivial-crossing
relabelling is a permutation of amplitudes and active index, and nothing done to one trajectory of
a batch affects another."

All statements are about the executable models `Hop` and `RK4` (diffed against the live Python by
the driver) instantiated at `ℝ`.

Findings (each proved below as a `…_counterexample` of the model, i.e. of the code):
* `rescale_sign_zero_counterexample` — `torch.sign(0) = 0`: a downward hop with `v·d = 0` is
  accepted with `α = 0`; total energy drops by `|ΔE|` (F14).  This is the PRE-REPAIR formula; the live
  code now uses `sgn = torch.where(v_dot_d < 0, -1, 1)` = `rescaleVelocityFixed`, for which
  `rescale_fixed_conserves_energy` holds without the `v·d ≠ 0` hypothesis.
* `relabel_three_cycle_counterexample` — a 3-cycle of the state assignment yields the swap vector
  `[1,0,1]`, whose scatter duplicates one amplitude and loses another (F15).
* `nsub_batch_global_counterexample` — the adaptive sub-step count is a batch-global maximum, so a
  coupling spike in one trajectory changes the integration of every other one (F16).
* `chooseHop_zero_draw_counterexample` — `cumsum >= r` with `r = 0` (which `torch.rand` can
  return) selects state 0 even though its probability is 0, including `0 → 0`.
-/
namespace C17
open Hop

/-! ## hop probabilities -/

/-- `_attempt_hop`, for every real hop-integral row and population: after clamp and conditional
normalisation every `g_j ∈ [0,1]`, `Σ_j g_j ≤ 1`, and an entry whose hop integral is 0 (the active
one, see `hop_prob_active_zero`) has probability 0. -/
theorem hop_prob_bounds (hopRow : List ℝ) (popActive : ℝ) :
    (∀ g ∈ hopProbabilities hopRow popActive, 0 ≤ g ∧ g ≤ 1) ∧
    sumL (hopProbabilities hopRow popActive) ≤ 1 ∧
    (∀ a : Nat, hopRow[a]? = some 0 → (hopProbabilities hopRow popActive)[a]? = some 0) := by
  set denom := clampMin (1e-10 : ℝ) popActive with hden
  set g0 := hopRow.map (fun h => clampMin (0 : ℝ) (h / denom)) with hg0
  have hnn : ∀ x ∈ g0, 0 ≤ x := by
    intro x hx
    obtain ⟨h, _, rfl⟩ := List.mem_map.mp hx
    exact clampMin_ge 0 _
  have hzero : ∀ a : Nat, hopRow[a]? = some 0 → g0[a]? = some 0 := by
    intro a ha
    rw [hg0, List.getElem?_map, ha]
    simp [clampMin]
  have hunf : hopProbabilities hopRow popActive =
      if 1 < sumL g0 then g0.map (fun gi => gi / clampMin (1e-12 : ℝ) (sumL g0)) else g0 := rfl
  rw [hunf, sumL_eq_sum g0]
  by_cases h : 1 < g0.sum
  · have hS : 0 < g0.sum := by linarith
    have hc : clampMin (1e-12 : ℝ) g0.sum = g0.sum := clampMin_eq_of_le _ _ (by norm_num at *; linarith)
    simp only [h, if_true, hc]
    have hnn' : ∀ x ∈ g0.map (fun gi => gi / g0.sum), 0 ≤ x := by
      intro x hx
      obtain ⟨y, hy, rfl⟩ := List.mem_map.mp hx
      exact div_nonneg (hnn y hy) hS.le
    have hsum : (g0.map (fun gi => gi / g0.sum)).sum ≤ 1 := by
      rw [sum_map_div, div_self hS.ne']
    refine ⟨fun g hg => ⟨hnn' g hg, le_one_of_nonneg_sum_le_one _ hnn' hsum g hg⟩, ?_, ?_⟩
    · rw [sumL_eq_sum]; exact hsum
    · intro a ha
      rw [List.getElem?_map, hzero a ha]; simp
  · simp only [h, if_false]
    have hsum : g0.sum ≤ 1 := not_lt.mp h
    refine ⟨fun g hg => ⟨hnn g hg, le_one_of_nonneg_sum_le_one _ hnn hsum g hg⟩, ?_, hzero⟩
    rw [sumL_eq_sum]; exact hsum

/-- when the normalisation branch is taken the row sum is exactly 1 -/
theorem hop_prob_sum_eq_one_of_normalised (hopRow : List ℝ) (popActive : ℝ)
    (h : 1 < sumL (hopRow.map fun h => clampMin (0 : ℝ) (h / clampMin (1e-10 : ℝ) popActive))) :
    sumL (hopProbabilities hopRow popActive) = 1 := by
  set g0 := hopRow.map (fun h => clampMin (0 : ℝ) (h / clampMin (1e-10 : ℝ) popActive)) with hg0
  have hunf : hopProbabilities hopRow popActive =
      if 1 < sumL g0 then g0.map (fun gi => gi / clampMin (1e-12 : ℝ) (sumL g0)) else g0 := rfl
  rw [hunf, if_pos h, sumL_eq_sum, sumL_eq_sum] at *
  have hc : clampMin (1e-12 : ℝ) g0.sum = g0.sum := clampMin_eq_of_le _ _ (by norm_num at *; linarith)
  rw [hc, sum_map_div, div_self (by linarith)]

/-- non-vacuity: a row that needs the normalisation, and one that does not -/
example : hopProbabilities [0, 3, 1] (1 : ℝ) = [0 / 4, 3 / 4, 1 / 4] := by
  norm_num [hopProbabilities, clampMin, sumL]
example : hopProbabilities [0, -2, 1/4] (1/2 : ℝ) = [0, 0, 1/2] := by
  norm_num [hopProbabilities, clampMin, sumL]

/-! ## stochastic choice -/

theorem findIdx_cumsumFrom (ξ : ℝ) (gs : List ℝ) (acc : ℝ) (hacc : acc < ξ) (j : Nat)
    (h : (cumsumFrom acc gs).findIdx? (fun c => decide (ξ ≤ c)) = some j) :
    ∃ g, gs[j]? = some g ∧ 0 < g := by
  induction gs generalizing acc j with
  | nil => simp [cumsumFrom] at h
  | cons g gs ih =>
    simp only [cumsumFrom, List.findIdx?_cons] at h
    by_cases hc : ξ ≤ acc + g
    · simp only [hc, decide_true, if_true, Option.some.injEq] at h
      subst h
      exact ⟨g, by simp, by linarith⟩
    · simp only [hc, decide_false, Bool.false_eq_true, if_false, Option.map_eq_some_iff] at h
      obtain ⟨k, hk, rfl⟩ := h
      obtain ⟨g', hg', hpos⟩ := ih (acc + g) (not_le.mp hc) k hk
      exact ⟨g', by simpa using hg', hpos⟩

/-- With a draw `ξ > 0` the selected target has strictly positive probability (in particular it is
never the active state, whose probability is 0). -/
theorem chooseHop_target_has_positive_probability (g : List ℝ) (ξ : ℝ) (hξ : 0 < ξ) (j : Nat)
    (h : chooseHop g ξ = some j) : ∃ gj, g[j]? = some gj ∧ 0 < gj := by
  unfold chooseHop at h
  cases g with
  | nil => simp [cumsum] at h
  | cons g0 gs =>
    simp only [cumsum, List.findIdx?_cons] at h
    by_cases hc : ξ ≤ g0
    · simp only [hc, decide_true, if_true, Option.some.injEq] at h
      subst h
      exact ⟨g0, by simp, by linarith⟩
    · simp only [hc, decide_false, Bool.false_eq_true, if_false, Option.map_eq_some_iff] at h
      obtain ⟨k, hk, rfl⟩ := h
      obtain ⟨g', hg', hpos⟩ := findIdx_cumsumFrom ξ gs g0 (not_le.mp hc) k hk
      exact ⟨g', by simpa using hg', hpos⟩

/-- FINDING: `torch.rand` samples `[0,1)`, and `cmp = cumsum >= r` with `r = 0` is true at index 0
whatever `g_0` is: the routine then "hops" to state 0 although `g_0 = 0` — here from active state 0
to itself.  (The hypothesis `0 < ξ` above is forced.) -/
theorem chooseHop_zero_draw_counterexample :
    (hopProbabilities [0, 3/10] (1 : ℝ))[0]? = some 0 ∧
    chooseHop (hopProbabilities [0, 3/10] (1 : ℝ)) 0 = some 0 := by
  have h : hopProbabilities [0, 3/10] (1 : ℝ) = [0, 3/10] := by
    norm_num [hopProbabilities, clampMin, sumL]
  rw [h]
  exact ⟨rfl, by simp [chooseHop, cumsum, List.findIdx?_cons]⟩

/-! ## velocity rescaling -/

section rescale
variable (kes dE : ℝ) (as : List Atom)

/-- the code's quantities on a well-shaped molecule -/
noncomputable abbrev D2 (as : List Atom) : ℝ := d2ByM (flatD as) (as.map (·.w))
noncomputable abbrev VD (as : List Atom) : ℝ := dot (flatV as) (flatD as)
/-- total kinetic energy as `_kinetic_energy` computes it -/
noncomputable abbrev KE (kes : ℝ) (as : List Atom) (v : List ℝ) : ℝ := kineticEnergy kes (as.map (·.m)) v

/-- Unfolding of the routine on a well-shaped molecule. -/
theorem rescaleVelocity_eq (sqrt sign : ℝ → ℝ) :
    rescaleVelocity sqrt sign kes (flatV as) (flatD as) (as.map (·.w)) dE =
      if D2 as ≤ 1e-12 then (false, flatV as)
      else if VD as * VD as - 2 * (dE / kes) * D2 as ≤ 0 then (false, flatV as)
      else (true, flatV (as.map (Atom.kick
        ((-VD as + sign (VD as) * sqrt (VD as * VD as - 2 * (dE / kes) * D2 as)) / D2 as)))) := by
  unfold rescaleVelocity rescaleAlpha
  by_cases h1 : D2 as ≤ 1e-12
  · simp only [h1, if_true]
  · by_cases h2 : VD as * VD as - 2 * (dE / kes) * D2 as ≤ 0
    · simp only [h1, h2, if_true, if_false]
    · simp only [h1, h2, if_false, applyAlpha_flat]

/-- core of both conservation theorems: any sign function with `sign(v·d)² = 1` -/
theorem rescale_conserves_of_sign (sign : ℝ → ℝ) (hk : kes ≠ 0) (hok : ∀ a ∈ as, a.ok)
    (hs : sign (VD as) * sign (VD as) = 1)
    (hsgn : (0 < VD as → sign (VD as) = 1) ∧ (VD as < 0 → sign (VD as) = -1) ∧
      (VD as = 0 → sign (VD as) = 1 ∨ sign (VD as) = -1))
    (v' : List ℝ)
    (h : rescaleVelocity Real.sqrt sign kes (flatV as) (flatD as) (as.map (·.w)) dE = (true, v')) :
    ∃ al : ℝ,
      -- the velocity change is `α d_A / m_A` on every atom
      v' = flatV (as.map (Atom.kick al)) ∧
      -- total energy is conserved exactly
      KE kes as v' - KE kes as (flatV as) + dE = 0 ∧
      -- `α` is the root of smaller modulus: any other energy-conserving `β` is at least as large
      (∀ be : ℝ, KE kes as (flatV (as.map (Atom.kick be))) - KE kes as (flatV as) + dE = 0 →
        |al| ≤ |be|) := by
  rw [rescaleVelocity_eq] at h
  by_cases h1 : D2 as ≤ 1e-12
  · simp [h1] at h
  by_cases h2 : VD as * VD as - 2 * (dE / kes) * D2 as ≤ 0
  · simp [h1, h2] at h
  simp only [h1, h2, if_false, Prod.mk.injEq, true_and] at h
  have hD : 0 < D2 as := by
    have : (0:ℝ) < 1e-12 := by norm_num
    linarith [not_le.mp h1]
  have hrad : 0 < VD as * VD as - 2 * (dE / kes) * D2 as := not_lt.mp (fun hh => h2 hh.le) |>.lt_of_ne'
    (fun hh => h2 (le_of_eq hh))
  -- energy difference for an arbitrary kick
  have hke : ∀ b : ℝ, KE kes as (flatV (as.map (Atom.kick b))) - KE kes as (flatV as) =
      dKE (D2 as) (VD as) b * kes := by
    intro b
    have e1 : KE kes as (flatV (as.map (Atom.kick b))) = ((as.map (Atom.kick b)).map Atom.ke).sum * kes := by
      have := kinetic_flat kes (as.map (Atom.kick b))
      rw [map_m_kick] at this; exact this
    rw [e1, show KE kes as (flatV as) = (as.map Atom.ke).sum * kes from kinetic_flat kes as,
      ← sub_mul, ke_kick_sum b as hok, ← d2ByM_flat, ← dot_flat]
  set al := (-VD as + sign (VD as) * Real.sqrt (VD as * VD as - 2 * (dE / kes) * D2 as)) / D2 as with hal
  have hroot : dKE (D2 as) (VD as) al + dE / kes = 0 :=
    rescale_alg_sign (D2 as) (VD as) (dE / kes) _ hD.ne' hs hrad.le
  refine ⟨al, h.symm, ?_, ?_⟩
  · rw [← h, hke al]
    have : dKE (D2 as) (VD as) al = -(dE / kes) := by linarith
    rw [this]; field_simp; ring
  · intro be hbe
    rw [hke be] at hbe
    have hb : dKE (D2 as) (VD as) be + dE / kes = 0 := by
      field_simp; linarith
    have hc := chosen_num_le (VD as) (Real.sqrt (VD as * VD as - 2 * (dE / kes) * D2 as))
      (sign (VD as)) (Real.sqrt_nonneg _) hsgn
    rw [hal, abs_div, abs_of_pos hD]
    rcases root_cases (D2 as) (VD as) (dE / kes) be hD.ne' hrad.le hb with hbe | hbe
    · rw [hbe, abs_div, abs_of_pos hD]; exact div_le_div_of_nonneg_right hc.1 hD.le
    · rw [hbe, abs_div, abs_of_pos hD]; exact div_le_div_of_nonneg_right hc.2 hD.le

/-- **Accepted hop, `v·d ≠ 0`** (`_rescale_velocity_along_nac` with the pre-repair `torch.sign`;
for the live code see `rescale_fixed_conserves_energy`): the new
velocities are `v_A + α d_A/m_A` for one scalar `α` (change only along the mass-weighted coupling
vector), `ΔKE + ΔE = 0` exactly with the code's `_kinetic_energy`
(`Σ ½ m v² · KINETIC_ENERGY_SCALE`), and `α` has the smallest modulus among all energy-conserving
adjustments along that vector.  Atoms are real (`m·m_inv = 1`) or padding (`m = m_inv = 0`,
no `v·d` contribution).  The hypothesis `v·d ≠ 0` is forced: see
`rescale_sign_zero_counterexample`. -/
theorem rescale_conserves_energy (hk : kes ≠ 0) (hok : ∀ a ∈ as, a.ok) (hvd : VD as ≠ 0)
    (v' : List ℝ)
    (h : rescaleVelocity Real.sqrt tsign kes (flatV as) (flatD as) (as.map (·.w)) dE = (true, v')) :
    ∃ al : ℝ,
      v' = flatV (as.map (Atom.kick al)) ∧
      KE kes as v' - KE kes as (flatV as) + dE = 0 ∧
      (∀ be : ℝ, KE kes as (flatV (as.map (Atom.kick be))) - KE kes as (flatV as) + dE = 0 →
        |al| ≤ |be|) := by
  refine rescale_conserves_of_sign kes dE as tsign hk hok (tsign_mul_self _ hvd) ⟨?_, ?_, ?_⟩ v' h
  · intro hp; simp [tsign, hp]
  · intro hn; simp [tsign, hn, not_lt.mpr hn.le]
  · intro h0; exact absurd h0 hvd

/-- **The routine as it stands in the live code** (F14 repaired:
`sgn = torch.where(v_dot_d < 0, -1, 1)`, i.e. `sign(0) := +1`) conserves energy for every accepted
hop, with no hypothesis on `v·d`. -/
theorem rescale_fixed_conserves_energy (hk : kes ≠ 0) (hok : ∀ a ∈ as, a.ok) (v' : List ℝ)
    (h : rescaleVelocityFixed Real.sqrt kes (flatV as) (flatD as) (as.map (·.w)) dE = (true, v')) :
    ∃ al : ℝ,
      v' = flatV (as.map (Atom.kick al)) ∧
      KE kes as v' - KE kes as (flatV as) + dE = 0 ∧
      (∀ be : ℝ, KE kes as (flatV (as.map (Atom.kick be))) - KE kes as (flatV as) + dE = 0 →
        |al| ≤ |be|) := by
  refine rescale_conserves_of_sign kes dE as signFixed hk hok (signFixed_mul_self _) ⟨?_, ?_, ?_⟩ v' h
  · intro hp; simp [signFixed, not_lt.mpr hp.le]
  · intro hn; simp [signFixed, hn]
  · intro h0; left; simp [signFixed, h0]

/-- **Frustrated hop**: a non-positive discriminant (or a vanishing coupling vector) returns
`False` and the velocities unchanged, and `_after_electronic_update` keeps the active state
(any `sign`, any `sqrt`). -/
theorem frustrated_hop_untouched (sqrt sign : ℝ → ℝ) (v d minv : List ℝ) (active target : Nat)
    (h : d2ByM d minv ≤ 1e-12 ∨ dot v d * dot v d - 2 * (dE / kes) * d2ByM d minv ≤ 0) :
    rescaleVelocity sqrt sign kes v d minv dE = (false, v) ∧
    hopOutcome sqrt sign kes active target v d minv dE = (active, v, false) := by
  have h1 : rescaleVelocity sqrt sign kes v d minv dE = (false, v) := by
    unfold rescaleVelocity rescaleAlpha
    by_cases h1 : d2ByM d minv ≤ 1e-12
    · simp only [h1, if_true]
    · rcases h with h | h
      · exact absurd h h1
      · simp only [h1, h, if_true, if_false]
  exact ⟨h1, by unfold hopOutcome; rw [h1]⟩

/-- … and conversely the hop is accepted exactly when both tests pass -/
theorem accepted_iff (sqrt sign : ℝ → ℝ) (v d minv : List ℝ) :
    (rescaleVelocity sqrt sign kes v d minv dE).1 = true ↔
      (1e-12 < d2ByM d minv ∧ 0 < dot v d * dot v d - 2 * (dE / kes) * d2ByM d minv) := by
  unfold rescaleVelocity rescaleAlpha
  by_cases h1 : d2ByM d minv ≤ 1e-12
  · simp [h1, not_lt.mpr h1]
  · by_cases h2 : dot v d * dot v d - 2 * (dE / kes) * d2ByM d minv ≤ 0
    · simp [h1, h2, not_lt.mpr h2]
    · simp [h1, h2, not_le.mp h1, not_le.mp h2]

/-- FINDING F14 (general form): `v·d = 0`, downward hop (`ΔE < 0`), non-degenerate coupling vector.
`torch.sign(0) = 0` makes `α = 0`: the hop is ACCEPTED, the velocities are returned unchanged and
the total energy changes by `ΔE ≠ 0`. -/
theorem rescale_sign_zero_defect (hk : 0 < kes) (hD : 1e-12 < D2 as) (hvd : VD as = 0) (hE : dE < 0) :
    rescaleVelocity Real.sqrt tsign kes (flatV as) (flatD as) (as.map (·.w)) dE = (true, flatV as) ∧
    KE kes as (flatV as) - KE kes as (flatV as) + dE ≠ 0 := by
  have hD0 : 0 < D2 as := by linarith [show (0:ℝ) < 1e-12 by norm_num]
  refine ⟨?_, by simpa using hE.ne⟩
  rw [rescaleVelocity_eq, if_neg (not_le.mpr hD), hvd]
  have hw : dE / kes < 0 := div_neg_of_neg_of_pos hE hk
  have h2 : ¬ ((0:ℝ) * 0 - 2 * (dE / kes) * D2 as ≤ 0) := by
    have : 0 < -(dE / kes) * D2 as := mul_pos (by linarith) hD0
    intro hh; linarith
  rw [if_neg h2]
  have hal : (-(0:ℝ) + tsign (0:ℝ) * Real.sqrt (0 * 0 - 2 * (dE / kes) * D2 as)) / D2 as = 0 := by
    simp [tsign]
  rw [hal]
  congr 1
  have : as.map (Atom.kick 0) = as := by
    conv_rhs => rw [← List.map_id as]
    apply List.map_congr_left
    intro a _
    simp [Atom.kick]
  rw [this]

/-- FINDING F14, concrete rational witness of the model: one atom of unit mass moving along `x`,
coupling vector along `y`, `ΔE = −1/2`, `KINETIC_ENERGY_SCALE = 1`: accepted, velocities unchanged,
`ΔKE + ΔE = −1/2 ≠ 0`. -/
theorem rescale_sign_zero_counterexample :
    rescaleVelocity Real.sqrt tsign (1 : ℝ) [1, 0, 0] [0, 1, 0] [1] (-1/2) = (true, [1, 0, 0]) ∧
    kineticEnergy (1 : ℝ) [1] [1, 0, 0] - kineticEnergy (1 : ℝ) [1] [1, 0, 0] + (-1/2 : ℝ) ≠ 0 := by
  let a : Atom := { m := 1, w := 1, vx := 1, vy := 0, vz := 0, dx := 0, dy := 1, dz := 0 }
  have hD : D2 [a] = 1 := by rw [D2, d2ByM_flat]; simp [a, Atom.dd]
  have hV : VD [a] = 0 := by rw [VD, dot_flat]; simp [a, Atom.vd]
  have h := (rescale_sign_zero_defect 1 (-1/2) [a] one_pos (by rw [hD]; norm_num) hV (by norm_num)).1
  refine ⟨?_, by norm_num⟩
  simpa [a] using h

/-- the repaired routine on the same input: accepted with `α = +√rad/D = 1`, energy conserved -/
example :
    rescaleVelocityFixed Real.sqrt (1 : ℝ) [1, 0, 0] [0, 1, 0] [1] (-1/2) = (true, [1, 1, 0]) ∧
    kineticEnergy (1 : ℝ) [1] [1, 1, 0] - kineticEnergy (1 : ℝ) [1] [1, 0, 0] + (-1/2 : ℝ) = 0 := by
  constructor
  · have hs : Real.sqrt 1 = 1 := Real.sqrt_one
    norm_num [rescaleVelocityFixed, rescaleVelocity, rescaleAlpha, d2ByM, dot, atomSq, sumL,
      applyAlpha, expand3, signFixed, hs]
  · norm_num [kineticEnergy, expand3, sumL]

/-- non-vacuity of `rescale_conserves_energy`: an upward hop that is accepted with `v·d = 2 ≠ 0`
(`rad = 4 − 2·(3/2)·1 = 1`, `α = (−2 + 1)/1 = −1`) -/
example :
    rescaleVelocity Real.sqrt tsign (1 : ℝ) [2, 0, 0] [1, 0, 0] [1] (3/2) = (true, [1, 0, 0]) := by
  have hs : Real.sqrt 1 = 1 := Real.sqrt_one
  norm_num [rescaleVelocity, rescaleAlpha, d2ByM, dot, atomSq, sumL, applyAlpha, expand3, tsign, hs]

/-- non-vacuity of `frustrated_hop_untouched`: the same hop with `ΔE = 5/2` is frustrated -/
example : rescaleVelocity Real.sqrt tsign (1 : ℝ) [2, 0, 0] [1, 0, 0] [1] (5/2) = (false, [2, 0, 0]) :=
  (frustrated_hop_untouched 1 (5/2) Real.sqrt tsign [2, 0, 0] [1, 0, 0] [1] 0 1
    (Or.inr (by norm_num [d2ByM, dot, atomSq, sumL]))).1

end rescale

/-! ## electronic propagation -/

section flow
open RK4

/-- **The exact flow conserves the total population.**  For the model's right-hand side `rhsAmp`
(= `rhs_amp` of `_propagate_electronic`), any number of states, any phases `θ` (hence any state
energies), any antisymmetric time-derivative coupling `D` (and in fact any functions in place of
`cos`, `sin`):  `½ d/dt Σ_i (x_i² + y_i²) = Σ_i (x_i ẋ_i + y_i ẏ_i) = 0`.
A list of length `n` is `List.ofFn` of its entries, so this covers every well-shaped input. -/
theorem flow_conserves_norm {n : ℕ} (cos sin : ℝ → ℝ) (x y th : Fin n → ℝ) (D : Fin n → Fin n → ℝ)
    (hD : ∀ i j, D j i = -D i j) :
    let r := rhsAmp cos sin (List.ofFn x) (List.ofFn y) (List.ofFn th) (List.ofFn fun i => List.ofFn (D i))
    sumL (List.zipWith (· * ·) (List.ofFn x) r.1) + sumL (List.zipWith (· * ·) (List.ofFn y) r.2) = 0 := by
  intro r
  have hr : r = (List.ofFn (fDX cos sin D x y th), List.ofFn (fDY cos sin D x y th)) :=
    rhsAmp_ofFn cos sin D x y th
  rw [hr]
  simp only [zipWith_ofFn, sumL_ofFn]
  rw [← Finset.sum_add_distrib]
  exact norm_derivative_zero cos sin D hD x y th

/-- non-vacuity / sanity: three states, a genuinely antisymmetric coupling, concrete amplitudes;
and the same statement FAILS for a symmetric coupling (so the hypothesis is used). -/
example :
    let r := rhsAmp (fun _ => (1:ℝ)) (fun _ => 0) [1, 2, 3] [0, 1, -1] [0, 0, 0] [[0, 1, -2], [-1, 0, 5], [2, -5, 0]]
    sumL (List.zipWith (· * ·) [1, 2, 3] r.1) + sumL (List.zipWith (· * ·) [0, 1, -1] r.2) = 0 := by
  norm_num [rhsAmp, matVec, uRe, uIm, sumL]
example :
    let r := rhsAmp (fun _ => (1:ℝ)) (fun _ => 0) [1, 2] [0, 0] [0, 0] [[0, 1], [1, 0]]
    sumL (List.zipWith (· * ·) [1, 2] r.1) + sumL (List.zipWith (· * ·) [0, 0] r.2) ≠ 0 := by
  norm_num [rhsAmp, matVec, uRe, uIm, sumL]

/-- **One RK4 sub-step, two states, constant coupling `d`, equal energies** (so both phases stay
equal): the sub-step of the model multiplies the total population by exactly
`1 − z⁶/72 + z⁸/576`, `z = d·dt_sub`.  The defect is `O(dt_sub⁶)` per sub-step (5th order locally,
4th order over a fixed time) and is always a LOSS for `0 < |z| < 2√2`. -/
theorem rk4_two_state_norm_defect (ofNat : ℕ → ℝ) (dt hbar : ℝ) (nsub : ℕ)
    (tau d E δ θ x1 x2 y1 y2 : ℝ) :
    ∃ x1' x2' y1' y2' θ' : ℝ,
      substep Real.cos Real.sin (mkConsts ofNat dt hbar nsub) tau [E, E] [δ, δ] [[0, d], [-d, 0]]
        [[0, 0], [0, 0]] [x1, x2] [y1, y2] [θ, θ] = ([x1', x2'], [y1', y2'], [θ', θ']) ∧
      totalPopulation [x1', x2'] [y1', y2'] =
        (1 - (d * (mkConsts ofNat dt hbar nsub).dtSub) ^ 6 / 72 +
          (d * (mkConsts ofNat dt hbar nsub).dtSub) ^ 8 / 576) * totalPopulation [x1, x2] [y1, y2] :=
  two_state_substep ofNat dt hbar nsub tau d E δ θ x1 x2 y1 y2

/-- … and the whole `_propagate_electronic` loop (before the phase wrap, which does not touch
`x, y`) with `nsub` sub-steps multiplies the population by that factor to the power `nsub`,
where `z = d·dt/nsub`. -/
theorem rk4_two_state_norm_defect_propagate (dt hbar : ℝ) (nsub : ℕ) (d E E' θ x1 x2 y1 y2 : ℝ) :
    ∃ x1' x2' y1' y2' θ' : ℝ,
      propagateRaw Real.cos Real.sin (fun k => (k : ℝ)) dt hbar nsub [x1, x2] [y1, y2] [θ, θ]
        [E, E] [E', E'] [[0, d], [-d, 0]] [[0, d], [-d, 0]] = ([x1', x2'], [y1', y2'], [θ', θ']) ∧
      totalPopulation [x1', x2'] [y1', y2'] =
        rk4Factor (d * (dt * (1 / (nsub : ℝ)))) ^ nsub * totalPopulation [x1, x2] [y1, y2] := by
  have h := two_state_loop (fun k => (k : ℝ)) dt hbar nsub d E (E' - E) nsub 0 θ x1 x2 y1 y2
  simpa [propagateRaw, vecSub, matSub, mkConsts] using h

/-- the factor is `< 1` for every non-zero `z` of modulus below `2√2` (population is lost, never
gained), e.g. `z = 1/80` (the default 8 sub-steps with `d·dt = 0.1`) -/
example : rk4Factor (1/80) < 1 ∧ 1 - rk4Factor (1/80) < 1e-13 := by
  norm_num [rk4Factor]

/-- the active entry of the model's hop integral is 0, so `g_active = 0` for the probabilities
computed from the propagated state (composition of `propagate` and `attemptHop`) -/
theorem hop_prob_active_zero (cos sin : ℝ → ℝ) (dt : ℝ) (x y th : List ℝ) (nd : List (List ℝ))
    (a : ℕ) (ξ g : ℝ)
    (hg : (attemptHop x y (hopIntegral cos sin dt x y th nd) a ξ).1[a]? = some g) : g = 0 := by
  unfold attemptHop at hg
  simp only at hg
  set H := hopIntegral cos sin dt x y th nd with hH
  cases hrow : H[a]? with
  | none =>
    have : H.getD a [] = [] := by simp [List.getD, hrow]
    rw [this] at hg
    simp [hopProbabilities, sumL] at hg
  | some row =>
    have hrow' : H.getD a [] = row := by simp [List.getD, hrow]
    rw [hrow'] at hg
    have hlen : (hopProbabilities row (population (x.getD a 0) (y.getD a 0))).length = row.length := by
      unfold hopProbabilities; simp only; split_ifs <;> simp
    have ha : a < row.length := by
      rw [← hlen]
      by_contra hcon
      rw [List.getElem?_eq_none (not_lt.mp hcon)] at hg
      exact absurd hg (by simp)
    have hv : row[a]? = some row[a] := List.getElem?_eq_getElem ha
    have h0 : row[a] = 0 := hopIntegral_diag cos sin dt x y th nd a row hrow _ hv
    rw [h0] at hv
    have := (hop_prob_bounds row (population (x.getD a 0) (y.getD a 0))).2.2 a hv
    rw [this] at hg
    exact (Option.some.inj hg).symm

end flow

/-! ## trivial-crossing relabel -/

section relabel

/-- the index vector maps `{0,…,n-1}` into itself (torch raises otherwise) -/
def InRange (p : List Nat) : Prop := ∀ i ∈ p, i < p.length

/-- `p ∘ p = id` -/
def IsInvolution (p : List Nat) : Prop :=
  ∀ i, i < p.length → p[i]?.bind (fun j => p[j]?) = some i

/-- "a permutation of amplitudes and active index": whatever the active state `i` is, after the
relabel the new active index points at the amplitude row that belonged to state `i`
(`new_coeff[p(i)] = old_coeff[i]`, the comment in the code), for every amplitude content. -/
def RelabelConsistent (swapTo : List Int) : Prop :=
  ∀ (β : Type) (amps : List β), amps.length = swapTo.length → ∀ i, i < swapTo.length →
    (relabel swapTo amps i).1[(relabel swapTo amps i).2]? = amps[i]?

theorem length_permOfSwap (sw : List Int) : (permOfSwap sw).length = sw.length := by
  simp [permOfSwap]

theorem permOfSwap_getElem? (sw : List Int) (i : Nat) (hi : i < sw.length) :
    (permOfSwap sw)[i]? = some (if 0 ≤ sw[i] then sw[i].toNat else i) := by
  simp [permOfSwap, List.getElem?_map, List.getElem?_zipIdx, List.getElem?_eq_getElem hi]

theorem relabel_active (sw : List Int) {β : Type} (amps : List β) (a : Nat) (ha : a < sw.length) :
    (permOfSwap sw)[a]? = some (relabel sw amps a).2 := by
  have h := permOfSwap_getElem? sw a ha
  simp only [relabel, List.getD, h, Option.getD_some]

/-- **The relabel is a permutation of amplitudes and active index iff the index vector is a
bijection** (no duplicate targets).  Under that condition the new amplitude list is a
rearrangement of the old one (in particular the total population is unchanged). -/
theorem relabel_is_permutation_iff_bijective (sw : List Int) (hr : InRange (permOfSwap sw)) :
    RelabelConsistent sw ↔ (permOfSwap sw).Nodup := by
  set p := permOfSwap sw with hp
  have hpl : p.length = sw.length := length_permOfSwap sw
  constructor
  · intro hc
    rw [List.nodup_iff_injective_get]
    intro ⟨i, hi⟩ ⟨j, hj⟩ hij
    simp only [List.get_eq_getElem] at hij
    have hi' : i < sw.length := hpl ▸ hi
    have hj' : j < sw.length := hpl ▸ hj
    -- use the state labels themselves as amplitude content
    have h1 := hc ℕ (List.range sw.length) (by simp) i hi'
    have h2 := hc ℕ (List.range sw.length) (by simp) j hj'
    have a1 := relabel_active sw (List.range sw.length) i hi'
    have a2 := relabel_active sw (List.range sw.length) j hj'
    rw [← hp, List.getElem?_eq_getElem hi, Option.some.injEq] at a1
    rw [← hp, List.getElem?_eq_getElem hj, Option.some.injEq] at a2
    rw [← a1] at h1
    rw [← a2, ← hij] at h2
    have hs : (relabel sw (List.range sw.length) i).1 = (relabel sw (List.range sw.length) j).1 := rfl
    rw [hs, h2] at h1
    simp only [List.getElem?_range hi', List.getElem?_range hj', Option.some.injEq] at h1
    exact Fin.ext h1.symm
  · intro hnd β amps hlen i hi
    have hi' : i < p.length := hpl ▸ hi
    have ha := relabel_active sw amps i hi
    rw [← hp, List.getElem?_eq_getElem hi', Option.some.injEq] at ha
    rw [← ha]
    exact scatterInto_nodup p amps amps hnd (by rw [hpl, hlen]) (fun k hk => by
      have := hr k hk; rw [hpl] at this; rw [hlen]; exact this) i hi'

/-- under the bijection condition the relabelled amplitudes are a rearrangement of the old ones -/
theorem relabel_perm_of_bijective (sw : List Int) (hr : InRange (permOfSwap sw))
    (hnd : (permOfSwap sw).Nodup) {β : Type} (amps : List β) (hlen : amps.length = sw.length)
    (a : Nat) : (relabel sw amps a).1.Perm amps :=
  scatter_perm (permOfSwap sw) amps hnd (by rw [length_permOfSwap, hlen]) hr

theorem involution_inRange (p : List Nat) (h : IsInvolution p) : InRange p := by
  intro k hk
  obtain ⟨i, hi, rfl⟩ := List.getElem_of_mem hk
  have := h i hi
  rw [List.getElem?_eq_getElem hi, Option.bind_some] at this
  by_contra hcon
  rw [List.getElem?_eq_none (not_lt.mp hcon)] at this
  exact absurd this (by simp)

theorem involution_nodup (p : List Nat) (h : IsInvolution p) : p.Nodup := by
  rw [List.nodup_iff_injective_get]
  intro ⟨i, hi⟩ ⟨j, hj⟩ hij
  simp only [List.get_eq_getElem] at hij
  have h1 := h i hi
  have h2 := h j hj
  rw [List.getElem?_eq_getElem hi, Option.bind_some] at h1
  rw [List.getElem?_eq_getElem hj, Option.bind_some, ← hij, h1] at h2
  exact Fin.ext (Option.some.inj h2)

/-- **Swap form.**  The index vector is an involution (`p[p[i]] = i`: disjoint symmetric swaps,
what `swap_to[i] = j; swap_to[j] = i` intends) iff the relabel is a permutation of amplitudes and
active index AND undoes itself on the active index (relabelling twice returns every active state).
-/
theorem relabel_is_permutation_iff_involution (sw : List Int) :
    IsInvolution (permOfSwap sw) ↔
      (InRange (permOfSwap sw) ∧ RelabelConsistent sw ∧
        ∀ a, a < sw.length → (relabel sw ([] : List Unit) (relabel sw ([] : List Unit) a).2).2 = a) := by
  set p := permOfSwap sw with hp
  have hpl : p.length = sw.length := length_permOfSwap sw
  constructor
  · intro hinv
    have hr := involution_inRange p hinv
    refine ⟨hr, (relabel_is_permutation_iff_bijective sw hr).mpr (involution_nodup p hinv), ?_⟩
    intro a ha
    have ha' : a < p.length := hpl ▸ ha
    have h1 := relabel_active sw ([] : List Unit) a ha
    have hlt : (relabel sw ([] : List Unit) a).2 < sw.length := by
      rw [← hpl]; apply hr
      rw [← hp, List.getElem?_eq_getElem ha', Option.some.injEq] at h1
      rw [← h1]; exact List.getElem_mem ha'
    have h2 := relabel_active sw ([] : List Unit) _ hlt
    have := hinv a ha'
    rw [h1, Option.bind_some, h2] at this
    exact Option.some.inj this
  · rintro ⟨hr, _, hself⟩ a ha
    have ha' : a < sw.length := hpl ▸ ha
    have h1 := relabel_active sw ([] : List Unit) a ha'
    have hlt : (relabel sw ([] : List Unit) a).2 < sw.length := by
      rw [← hpl]; apply hr
      rw [← hp, List.getElem?_eq_getElem ha, Option.some.injEq] at h1
      rw [← h1]; exact List.getElem_mem ha
    have h2 := relabel_active sw ([] : List Unit) _ hlt
    rw [h1, Option.bind_some, h2, hself a ha']

/-- non-vacuity: the swap of states 1 and 2 of four is an involution, and is applied as intended -/
example : IsInvolution (permOfSwap [-1, 2, 1, -1]) := by
  intro i hi
  have : i < 4 := by simpa [permOfSwap] using hi
  interval_cases i <;> rfl
example (a0 a1 a2 a3 : ℝ × ℝ × ℝ) :
    relabel [-1, 2, 1, -1] [a0, a1, a2, a3] 2 = ([a0, a2, a1, a3], 1) := rfl

/-- FINDING F15.  The state assignment `perm = [1, 2, 0]` (a 3-cycle: three states rotate within
one step, each overlap `≥ 0.9`) passes the test `(perm != i) & (i < perm) & (ov >= thr)` for the
pairs `(0,1)` and `(1,2)`; the two-phase assignment yields `swap_to = [1, 0, 1]`.  The scatter
with the duplicate index 1 overwrites: the amplitude of state 0 is lost, that of state 2 appears
twice.  With populations `[.36, .41, .23]` the total population becomes `.87 ≠ 1`; the relabel
is not a permutation, and the index vector is neither duplicate-free nor an involution. -/
theorem relabel_three_cycle_counterexample :
    buildSwap 3 (trivialPairs [1, 2, 0] fun _ => true) = [1, 0, 1] ∧
    (∀ (β : Type) (a0 a1 a2 : β) (act : Nat),
      (relabel [1, 0, 1] [a0, a1, a2] act).1 = [a1, a2, a2]) ∧
    (∀ (pop : ℝ × ℝ × ℝ → ℝ) (a0 a1 a2 : ℝ × ℝ × ℝ),
      pop a0 = 0.36 → pop a1 = 0.41 → pop a2 = 0.23 →
      (((relabel [1, 0, 1] [a0, a1, a2] 0).1.map pop).sum = 0.87 ∧
       ((relabel [1, 0, 1] [a0, a1, a2] 0).1.map pop).sum ≠ 1)) ∧
    ¬ (permOfSwap [1, 0, 1]).Nodup ∧ ¬ IsInvolution (permOfSwap [1, 0, 1]) ∧
    ¬ RelabelConsistent [1, 0, 1] := by
  have hp : permOfSwap [1, 0, 1] = [1, 0, 1] := rfl
  have hnd : ¬ (permOfSwap [1, 0, 1]).Nodup := by rw [hp]; decide
  refine ⟨rfl, fun _ _ _ _ _ => rfl, ?_, hnd, ?_, ?_⟩
  · intro pop a0 a1 a2 h0 h1 h2
    have : (relabel [1, 0, 1] [a0, a1, a2] 0).1 = [a1, a2, a2] := rfl
    rw [this]
    simp only [List.map_cons, List.map_nil, List.sum_cons, List.sum_nil, h1, h2]
    constructor <;> norm_num
  · intro h; exact hnd (involution_nodup _ h)
  · intro h
    exact hnd ((relabel_is_permutation_iff_bijective [1, 0, 1] (by rw [hp]; intro i hi; simp only [List.mem_cons, List.not_mem_nil, or_false] at hi; simp only [List.length_cons, List.length_nil]; omega)).mp h)

end relabel

/-! ## isolation of the trajectories of a batch -/

section isolation
open RK4

/-- replacing row `i` of the input of a row-wise map leaves every other output row unchanged -/
theorem map_set_ne {γ δ : Type} (f : γ → δ) (rows : List γ) (i j : Nat) (r' : γ) (h : i ≠ j) :
    ((rows.set i r').map f)[j]? = (rows.map f)[j]? := by
  simp [List.getElem?_map, List.getElem?_set_ne h]

/-- **Row-wise isolation.**  Hop attempt, velocity rescale / accept-reject, trivial-crossing
relabel and the electronic propagation *with a given sub-step count* treat the batch row by row:
whatever is done to trajectory `i`'s input, the output of trajectory `j ≠ i` does not change. -/
theorem rowwise_isolation (i j : Nat) (hij : i ≠ j) :
    (∀ (rows : List (List ℝ × List ℝ × List (List ℝ) × Nat × ℝ)) r',
      (attemptHopBatch (rows.set i r'))[j]? = (attemptHopBatch rows)[j]?) ∧
    (∀ (sqrt sign : ℝ → ℝ) (kes : ℝ) (rows : List (Nat × Nat × List ℝ × List ℝ × List ℝ × ℝ)) r',
      (hopOutcomeBatch sqrt sign kes (rows.set i r'))[j]? = (hopOutcomeBatch sqrt sign kes rows)[j]?) ∧
    (∀ (rows : List (List Int × List (ℝ × ℝ × ℝ) × Nat)) r',
      (relabelBatch (rows.set i r'))[j]? = (relabelBatch rows)[j]?) ∧
    (∀ (cos sin : ℝ → ℝ) (rem : ℝ → ℝ → ℝ) (pi : ℝ) (ofNat : ℕ → ℝ) (dt hbar : ℝ) (nsub : ℕ)
        (rows : List (TrajIn ℝ)) r',
      (propagateBatchWith cos sin rem pi ofNat dt hbar nsub (rows.set i r'))[j]? =
        (propagateBatchWith cos sin rem pi ofNat dt hbar nsub rows)[j]?) :=
  ⟨fun rows r' => map_set_ne _ rows i j r' hij,
   fun _ _ _ rows r' => map_set_ne _ rows i j r' hij,
   fun rows r' => map_set_ne _ rows i j r' hij,
   fun _ _ _ _ _ _ _ _ rows r' => map_set_ne _ rows i j r' hij⟩

/-- **Isolation up to the sub-step count.**  `_propagate_electronic` with the adaptive count
(`substeps=None`): if two batches agree on trajectory `j` and lead to the same (batch-global)
sub-step count, trajectory `j`'s new amplitudes, phases and hop integral are identical. -/
theorem isolation_up_to_nsub (cos sin abs : ℝ → ℝ) (rem : ℝ → ℝ → ℝ) (pi : ℝ) (ofNat : ℕ → ℝ)
    (ceilNat : ℝ → ℕ) (dt hbar : ℝ) (b b' : List (TrajIn ℝ)) (j : Nat) (hj : b[j]? = b'[j]?)
    (hn : nsubBatch abs ceilNat dt b = nsubBatch abs ceilNat dt b') :
    (propagateBatch cos sin abs rem pi ofNat ceilNat dt hbar b)[j]? =
      (propagateBatch cos sin abs rem pi ofNat ceilNat dt hbar b')[j]? := by
  unfold propagateBatch propagateBatchWith
  rw [hn, List.getElem?_map, List.getElem?_map, hj]

/-- two-state trajectory with constant coupling `d` -/
noncomputable def spikeTraj (d : ℝ) : TrajIn ℝ :=
  { x := [1, 0], y := [0, 0], th := [0, 0], e0 := [0, 0], e1 := [0, 0],
    ndOld := [[0, d], [-d, 0]], ndNew := [[0, d], [-d, 0]] }

/-- FINDING F16: the hypothesis `hn` is forced.  Same trajectory 1 (`d = 1 fs⁻¹`, `dt = 0.1 fs`);
trajectory 0 calm (`d = 1`) or spiking (`d = 20`): the sub-step count used for trajectory 1 is 8
in the first batch and 12 in the second … -/
theorem nsub_batch_global_counterexample :
    nsubBatch (fun a : ℝ => |a|) Nat.ceil (1/10) [spikeTraj 1, spikeTraj 1] = 8 ∧
    nsubBatch (fun a : ℝ => |a|) Nat.ceil (1/10) [spikeTraj 20, spikeTraj 1] = 12 := by
  constructor <;>
  · simp only [nsubBatch, spikeTraj, List.flatMap_cons, List.flatMap_nil, matSub, vecSub,
      List.zipWith_cons_cons, List.zipWith_nil_right, List.flatten_cons, List.flatten_nil,
      List.map_cons, List.map_nil, amax, fmax, clampMin, List.append_nil, List.cons_append,
      List.nil_append, List.foldl_cons, List.foldl_nil]
    norm_num

/-- … and therefore trajectory 1's total population after the step differs between the two
batches (`rk4Factor(1/80)^8` vs `rk4Factor(1/120)^12`): what happens to trajectory 0 does affect
trajectory 1, by the integrator's local error. -/
theorem nsub_changes_other_trajectory :
    rk4Factor ((1:ℝ) * ((1/10) * (1 / ((8:ℕ):ℝ)))) ^ 8 ≠ rk4Factor ((1:ℝ) * ((1/10) * (1 / ((12:ℕ):ℝ)))) ^ 12 := by
  norm_num [rk4Factor]

end isolation

end C17
