import PyseqmVerif.Proofs.HopLemmas
import PyseqmVerif.Proofs.RK4Lemmas
/-!
# C17 — surface hopping: population norm, hop probabilities, energy-conserving rescale, relabel, isolation

Property (verbatim): "Propagation of the electronic amplitudes preserves the total population to the
accuracy order of the integrator for any antisymmetric coupling matrix and state energies; hop
probabilities lie in [0,1] with row sum at most one. An accepted hop changes the velocities only
along the mass-weighted coupling vector, by the smaller of the two adjustments that conserve total
energy exactly, a frustrated hop leaves state and velocities untouched, a trivial-crossing
relabelling is a permutation of amplitudes and active index, and nothing done to one trajectory of
a batch affects another."

All statements are about the executable models `Hop` and `RK4` (diffed against the live Python by
the driver) instantiated at `ℝ`.

Findings (each proved below as a `…_counterexample` of the model, i.e. of the code):
* `rescale_sign_zero_counterexample` — `torch.sign(0) = 0`: a downward hop with `v·d = 0` is
  accepted with `α = 0`; total energy drops by `|ΔE|` (F14; `rescaleVelocityFixed` is the repair).
* `relabel_three_cycle_counterexample` — a 3-cycle of the state assignment yields the swap vector
  `[1,0,1]`, whose scatter duplicates one amplitude and loses another (F15).
* `nsub_batch_global_counterexample` — the adaptive sub-step count is a batch-global maximum, so a
  coupling spike in one trajectory changes the integration of every other one (F16).
* `chooseHop_zero_draw_counterexample` — `cumsum >= r` with `r = 0` (which `torch.rand` can
  return) selects state 0 even though its probability is 0, including `0 → 0`.
-/
namespace C17
open Hop

/-! ## hop probabilities -/

/-- `_attempt_hop`, for every real hop-integral row and population: after clamp and conditional
normalisation every `g_j ∈ [0,1]`, `Σ_j g_j ≤ 1`, and an entry whose hop integral is 0 (the active
one, see `hop_prob_active_zero`) has probability 0. -/
theorem hop_prob_bounds (hopRow : List ℝ) (popActive : ℝ) :
    (∀ g ∈ hopProbabilities hopRow popActive, 0 ≤ g ∧ g ≤ 1) ∧
    sumL (hopProbabilities hopRow popActive) ≤ 1 ∧
    (∀ a : Nat, hopRow[a]? = some 0 → (hopProbabilities hopRow popActive)[a]? = some 0) := by
  set denom := clampMin (1e-10 : ℝ) popActive with hden
  set g0 := hopRow.map (fun h => clampMin (0 : ℝ) (h / denom)) with hg0
  have hnn : ∀ x ∈ g0, 0 ≤ x := by
    intro x hx
    obtain ⟨h, _, rfl⟩ := List.mem_map.mp hx
    exact clampMin_ge 0 _
  have hzero : ∀ a : Nat, hopRow[a]? = some 0 → g0[a]? = some 0 := by
    intro a ha
    rw [hg0, List.getElem?_map, ha]
    simp [clampMin]
  have hunf : hopProbabilities hopRow popActive =
      if 1 < sumL g0 then g0.map (fun gi => gi / clampMin (1e-12 : ℝ) (sumL g0)) else g0 := rfl
  rw [hunf, sumL_eq_sum g0]
  by_cases h : 1 < g0.sum
  · have hS : 0 < g0.sum := by linarith
    have hc : clampMin (1e-12 : ℝ) g0.sum = g0.sum := clampMin_eq_of_le _ _ (by norm_num at *; linarith)
    simp only [h, if_true, hc]
    have hnn' : ∀ x ∈ g0.map (fun gi => gi / g0.sum), 0 ≤ x := by
      intro x hx
      obtain ⟨y, hy, rfl⟩ := List.mem_map.mp hx
      exact div_nonneg (hnn y hy) hS.le
    have hsum : (g0.map (fun gi => gi / g0.sum)).sum ≤ 1 := by
      rw [sum_map_div, div_self hS.ne']
    refine ⟨fun g hg => ⟨hnn' g hg, le_one_of_nonneg_sum_le_one _ hnn' hsum g hg⟩, ?_, ?_⟩
    · rw [sumL_eq_sum]; exact hsum
    · intro a ha
      rw [List.getElem?_map, hzero a ha]; simp
  · simp only [h, if_false]
    have hsum : g0.sum ≤ 1 := not_lt.mp h
    refine ⟨fun g hg => ⟨hnn g hg, le_one_of_nonneg_sum_le_one _ hnn hsum g hg⟩, ?_, hzero⟩
    rw [sumL_eq_sum]; exact hsum

/-- when the normalisation branch is taken the row sum is exactly 1 -/
theorem hop_prob_sum_eq_one_of_normalised (hopRow : List ℝ) (popActive : ℝ)
    (h : 1 < sumL (hopRow.map fun h => clampMin (0 : ℝ) (h / clampMin (1e-10 : ℝ) popActive))) :
    sumL (hopProbabilities hopRow popActive) = 1 := by
  set g0 := hopRow.map (fun h => clampMin (0 : ℝ) (h / clampMin (1e-10 : ℝ) popActive)) with hg0
  have hunf : hopProbabilities hopRow popActive =
      if 1 < sumL g0 then g0.map (fun gi => gi / clampMin (1e-12 : ℝ) (sumL g0)) else g0 := rfl
  rw [hunf, if_pos h, sumL_eq_sum, sumL_eq_sum] at *
  have hc : clampMin (1e-12 : ℝ) g0.sum = g0.sum := clampMin_eq_of_le _ _ (by norm_num at *; linarith)
  rw [hc, sum_map_div, div_self (by linarith)]

/-- non-vacuity: a row that needs the normalisation, and one that does not -/
example : hopProbabilities [0, 3, 1] (1 : ℝ) = [0 / 4, 3 / 4, 1 / 4] := by
  norm_num [hopProbabilities, clampMin, sumL]
example : hopProbabilities [0, -2, 1/4] (1/2 : ℝ) = [0, 0, 1/2] := by
  norm_num [hopProbabilities, clampMin, sumL]

/-! ## stochastic choice -/

theorem findIdx_cumsumFrom (ξ : ℝ) (gs : List ℝ) (acc : ℝ) (hacc : acc < ξ) (j : Nat)
    (h : (cumsumFrom acc gs).findIdx? (fun c => decide (ξ ≤ c)) = some j) :
    ∃ g, gs[j]? = some g ∧ 0 < g := by
  induction gs generalizing acc j with
  | nil => simp [cumsumFrom] at h
  | cons g gs ih =>
    simp only [cumsumFrom, List.findIdx?_cons] at h
    by_cases hc : ξ ≤ acc + g
    · simp only [hc, decide_true, if_true, Option.some.injEq] at h
      subst h
      exact ⟨g, by simp, by linarith⟩
    · simp only [hc, decide_false, Bool.false_eq_true, if_false, Option.map_eq_some_iff] at h
      obtain ⟨k, hk, rfl⟩ := h
      obtain ⟨g', hg', hpos⟩ := ih (acc + g) (not_le.mp hc) k hk
      exact ⟨g', by simpa using hg', hpos⟩

/-- With a draw `ξ > 0` the selected target has strictly positive probability (in particular it is
never the active state, whose probability is 0). -/
theorem chooseHop_target_has_positive_probability (g : List ℝ) (ξ : ℝ) (hξ : 0 < ξ) (j : Nat)
    (h : chooseHop g ξ = some j) : ∃ gj, g[j]? = some gj ∧ 0 < gj := by
  unfold chooseHop at h
  cases g with
  | nil => simp [cumsum] at h
  | cons g0 gs =>
    simp only [cumsum, List.findIdx?_cons] at h
    by_cases hc : ξ ≤ g0
    · simp only [hc, decide_true, if_true, Option.some.injEq] at h
      subst h
      exact ⟨g0, by simp, by linarith⟩
    · simp only [hc, decide_false, Bool.false_eq_true, if_false, Option.map_eq_some_iff] at h
      obtain ⟨k, hk, rfl⟩ := h
      obtain ⟨g', hg', hpos⟩ := findIdx_cumsumFrom ξ gs g0 (not_le.mp hc) k hk
      exact ⟨g', by simpa using hg', hpos⟩

/-- FINDING: `torch.rand` samples `[0,1)`, and `cmp = cumsum >= r` with `r = 0` is true at index 0
whatever `g_0` is: the routine then "hops" to state 0 although `g_0 = 0` — here from active state 0
to itself.  (The hypothesis `0 < ξ` above is forced.) -/
theorem chooseHop_zero_draw_counterexample :
    (hopProbabilities [0, 3/10] (1 : ℝ))[0]? = some 0 ∧
    chooseHop (hopProbabilities [0, 3/10] (1 : ℝ)) 0 = some 0 := by
  have h : hopProbabilities [0, 3/10] (1 : ℝ) = [0, 3/10] := by
    norm_num [hopProbabilities, clampMin, sumL]
  rw [h]
  exact ⟨rfl, by simp [chooseHop, cumsum, List.findIdx?_cons]⟩

/-! ## velocity rescaling -/

section rescale
variable (kes dE : ℝ) (as : List Atom)

/-- the code's quantities on a well-shaped molecule -/
noncomputable abbrev D2 (as : List Atom) : ℝ := d2ByM (flatD as) (as.map (·.w))
noncomputable abbrev VD (as : List Atom) : ℝ := dot (flatV as) (flatD as)
/-- total kinetic energy as `_kinetic_energy` computes it -/
noncomputable abbrev KE (kes : ℝ) (as : List Atom) (v : List ℝ) : ℝ := kineticEnergy kes (as.map (·.m)) v

/-- Unfolding of the routine on a well-shaped molecule. -/
theorem rescaleVelocity_eq (sqrt sign : ℝ → ℝ) :
    rescaleVelocity sqrt sign kes (flatV as) (flatD as) (as.map (·.w)) dE =
      if D2 as ≤ 1e-12 then (false, flatV as)
      else if VD as * VD as - 2 * (dE / kes) * D2 as ≤ 0 then (false, flatV as)
      else (true, flatV (as.map (Atom.kick
        ((-VD as + sign (VD as) * sqrt (VD as * VD as - 2 * (dE / kes) * D2 as)) / D2 as)))) := by
  unfold rescaleVelocity rescaleAlpha
  by_cases h1 : D2 as ≤ 1e-12
  · simp only [h1, if_true]
  · by_cases h2 : VD as * VD as - 2 * (dE / kes) * D2 as ≤ 0
    · simp only [h1, h2, if_true, if_false]
    · simp only [h1, h2, if_false, applyAlpha_flat]

/-- core of both conservation theorems: any sign function with `sign(v·d)² = 1` -/
theorem rescale_conserves_of_sign (sign : ℝ → ℝ) (hk : kes ≠ 0) (hok : ∀ a ∈ as, a.ok)
    (hs : sign (VD as) * sign (VD as) = 1)
    (hsgn : (0 < VD as → sign (VD as) = 1) ∧ (VD as < 0 → sign (VD as) = -1) ∧
      (VD as = 0 → sign (VD as) = 1 ∨ sign (VD as) = -1))
    (v' : List ℝ)
    (h : rescaleVelocity Real.sqrt sign kes (flatV as) (flatD as) (as.map (·.w)) dE = (true, v')) :
    ∃ al : ℝ,
      -- the velocity change is `α d_A / m_A` on every atom
      v' = flatV (as.map (Atom.kick al)) ∧
      -- total energy is conserved exactly
      KE kes as v' - KE kes as (flatV as) + dE = 0 ∧
      -- `α` is the root of smaller modulus: any other energy-conserving `β` is at least as large
      (∀ be : ℝ, KE kes as (flatV (as.map (Atom.kick be))) - KE kes as (flatV as) + dE = 0 →
        |al| ≤ |be|) := by
  rw [rescaleVelocity_eq] at h
  by_cases h1 : D2 as ≤ 1e-12
  · simp [h1] at h
  by_cases h2 : VD as * VD as - 2 * (dE / kes) * D2 as ≤ 0
  · simp [h1, h2] at h
  simp only [h1, h2, if_false, Prod.mk.injEq, true_and] at h
  have hD : 0 < D2 as := by
    have : (0:ℝ) < 1e-12 := by norm_num
    linarith [not_le.mp h1]
  have hrad : 0 < VD as * VD as - 2 * (dE / kes) * D2 as := not_lt.mp (fun hh => h2 hh.le) |>.lt_of_ne'
    (fun hh => h2 (le_of_eq hh))
  -- energy difference for an arbitrary kick
  have hke : ∀ b : ℝ, KE kes as (flatV (as.map (Atom.kick b))) - KE kes as (flatV as) =
      dKE (D2 as) (VD as) b * kes := by
    intro b
    have e1 : KE kes as (flatV (as.map (Atom.kick b))) = ((as.map (Atom.kick b)).map Atom.ke).sum * kes := by
      have := kinetic_flat kes (as.map (Atom.kick b))
      rw [map_m_kick] at this; exact this
    rw [e1, show KE kes as (flatV as) = (as.map Atom.ke).sum * kes from kinetic_flat kes as,
      ← sub_mul, ke_kick_sum b as hok, ← d2ByM_flat, ← dot_flat]
  set al := (-VD as + sign (VD as) * Real.sqrt (VD as * VD as - 2 * (dE / kes) * D2 as)) / D2 as with hal
  have hroot : dKE (D2 as) (VD as) al + dE / kes = 0 :=
    rescale_alg_sign (D2 as) (VD as) (dE / kes) _ hD.ne' hs hrad.le
  refine ⟨al, h.symm, ?_, ?_⟩
  · rw [← h, hke al]
    have : dKE (D2 as) (VD as) al = -(dE / kes) := by linarith
    rw [this]; field_simp; ring
  · intro be hbe
    rw [hke be] at hbe
    have hb : dKE (D2 as) (VD as) be + dE / kes = 0 := by
      field_simp; linarith
    have hc := chosen_num_le (VD as) (Real.sqrt (VD as * VD as - 2 * (dE / kes) * D2 as))
      (sign (VD as)) (Real.sqrt_nonneg _) hsgn
    rw [hal, abs_div, abs_of_pos hD]
    rcases root_cases (D2 as) (VD as) (dE / kes) be hD.ne' hrad.le hb with hbe | hbe
    · rw [hbe, abs_div, abs_of_pos hD]; exact div_le_div_of_nonneg_right hc.1 hD.le
    · rw [hbe, abs_div, abs_of_pos hD]; exact div_le_div_of_nonneg_right hc.2 hD.le

/-- **Accepted hop, `v·d ≠ 0`** (`_rescale_velocity_along_nac` with `torch.sign`): the new
velocities are `v_A + α d_A/m_A` for one scalar `α` (change only along the mass-weighted coupling
vector), `ΔKE + ΔE = 0` exactly with the code's `_kinetic_energy`
(`Σ ½ m v² · KINETIC_ENERGY_SCALE`), and `α` has the smallest modulus among all energy-conserving
adjustments along that vector.  Atoms are real (`m·m_inv = 1`) or padding (`m = m_inv = 0`,
no `v·d` contribution).  The hypothesis `v·d ≠ 0` is forced: see
`rescale_sign_zero_counterexample`. -/
theorem rescale_conserves_energy (hk : kes ≠ 0) (hok : ∀ a ∈ as, a.ok) (hvd : VD as ≠ 0)
    (v' : List ℝ)
    (h : rescaleVelocity Real.sqrt tsign kes (flatV as) (flatD as) (as.map (·.w)) dE = (true, v')) :
    ∃ al : ℝ,
      v' = flatV (as.map (Atom.kick al)) ∧
      KE kes as v' - KE kes as (flatV as) + dE = 0 ∧
      (∀ be : ℝ, KE kes as (flatV (as.map (Atom.kick be))) - KE kes as (flatV as) + dE = 0 →
        |al| ≤ |be|) := by
  refine rescale_conserves_of_sign kes dE as tsign hk hok (tsign_mul_self _ hvd) ⟨?_, ?_, ?_⟩ v' h
  · intro hp; simp [tsign, hp]
  · intro hn; simp [tsign, hn, not_lt.mpr hn.le]
  · intro h0; exact absurd h0 hvd

/-- **The repaired routine** (`sign(0) := +1`) conserves energy for every accepted hop, with no
hypothesis on `v·d`. -/
theorem rescale_fixed_conserves_energy (hk : kes ≠ 0) (hok : ∀ a ∈ as, a.ok) (v' : List ℝ)
    (h : rescaleVelocityFixed Real.sqrt kes (flatV as) (flatD as) (as.map (·.w)) dE = (true, v')) :
    ∃ al : ℝ,
      v' = flatV (as.map (Atom.kick al)) ∧
      KE kes as v' - KE kes as (flatV as) + dE = 0 ∧
      (∀ be : ℝ, KE kes as (flatV (as.map (Atom.kick be))) - KE kes as (flatV as) + dE = 0 →
        |al| ≤ |be|) := by
  refine rescale_conserves_of_sign kes dE as signFixed hk hok (signFixed_mul_self _) ⟨?_, ?_, ?_⟩ v' h
  · intro hp; simp [signFixed, hp.le]
  · intro hn; simp [signFixed, not_le.mpr hn]
  · intro h0; left; simp [signFixed, h0]

/-- **Frustrated hop**: a non-positive discriminant (or a vanishing coupling vector) returns
`False` and the velocities unchanged, and `_after_electronic_update` keeps the active state
(any `sign`, any `sqrt`). -/
theorem frustrated_hop_untouched (sqrt sign : ℝ → ℝ) (v d minv : List ℝ) (active target : Nat)
    (h : d2ByM d minv ≤ 1e-12 ∨ dot v d * dot v d - 2 * (dE / kes) * d2ByM d minv ≤ 0) :
    rescaleVelocity sqrt sign kes v d minv dE = (false, v) ∧
    hopOutcome sqrt sign kes active target v d minv dE = (active, v, false) := by
  have h1 : rescaleVelocity sqrt sign kes v d minv dE = (false, v) := by
    unfold rescaleVelocity rescaleAlpha
    by_cases h1 : d2ByM d minv ≤ 1e-12
    · simp only [h1, if_true]
    · rcases h with h | h
      · exact absurd h h1
      · simp only [h1, h, if_true, if_false]
  exact ⟨h1, by unfold hopOutcome; rw [h1]⟩

/-- … and conversely the hop is accepted exactly when both tests pass -/
theorem accepted_iff (sqrt sign : ℝ → ℝ) (v d minv : List ℝ) :
    (rescaleVelocity sqrt sign kes v d minv dE).1 = true ↔
      (1e-12 < d2ByM d minv ∧ 0 < dot v d * dot v d - 2 * (dE / kes) * d2ByM d minv) := by
  unfold rescaleVelocity rescaleAlpha
  by_cases h1 : d2ByM d minv ≤ 1e-12
  · simp [h1, not_lt.mpr h1]
  · by_cases h2 : dot v d * dot v d - 2 * (dE / kes) * d2ByM d minv ≤ 0
    · simp [h1, h2, not_lt.mpr h2]
    · simp [h1, h2, not_le.mp h1, not_le.mp h2]

/-- FINDING F14 (general form): `v·d = 0`, downward hop (`ΔE < 0`), non-degenerate coupling vector.
`torch.sign(0) = 0` makes `α = 0`: the hop is ACCEPTED, the velocities are returned unchanged and
the total energy changes by `ΔE ≠ 0`. -/
theorem rescale_sign_zero_defect (hk : 0 < kes) (hD : 1e-12 < D2 as) (hvd : VD as = 0) (hE : dE < 0) :
    rescaleVelocity Real.sqrt tsign kes (flatV as) (flatD as) (as.map (·.w)) dE = (true, flatV as) ∧
    KE kes as (flatV as) - KE kes as (flatV as) + dE ≠ 0 := by
  have hD0 : 0 < D2 as := by linarith [show (0:ℝ) < 1e-12 by norm_num]
  refine ⟨?_, by simpa using hE.ne⟩
  rw [rescaleVelocity_eq, if_neg (not_le.mpr hD), hvd]
  have hw : dE / kes < 0 := div_neg_of_neg_of_pos hE hk
  have h2 : ¬ ((0:ℝ) * 0 - 2 * (dE / kes) * D2 as ≤ 0) := by
    have : 0 < -(dE / kes) * D2 as := mul_pos (by linarith) hD0
    intro hh; linarith
  rw [if_neg h2]
  have hal : (-(0:ℝ) + tsign (0:ℝ) * Real.sqrt (0 * 0 - 2 * (dE / kes) * D2 as)) / D2 as = 0 := by
    simp [tsign]
  rw [hal]
  congr 1
  have : as.map (Atom.kick 0) = as := by
    conv_rhs => rw [← List.map_id as]
    apply List.map_congr_left
    intro a _
    simp [Atom.kick]
  rw [this]

/-- FINDING F14, concrete rational witness of the model: one atom of unit mass moving along `x`,
coupling vector along `y`, `ΔE = −1/2`, `KINETIC_ENERGY_SCALE = 1`: accepted, velocities unchanged,
`ΔKE + ΔE = −1/2 ≠ 0`. -/
theorem rescale_sign_zero_counterexample :
    rescaleVelocity Real.sqrt tsign (1 : ℝ) [1, 0, 0] [0, 1, 0] [1] (-1/2) = (true, [1, 0, 0]) ∧
    kineticEnergy (1 : ℝ) [1] [1, 0, 0] - kineticEnergy (1 : ℝ) [1] [1, 0, 0] + (-1/2 : ℝ) ≠ 0 := by
  let a : Atom := { m := 1, w := 1, vx := 1, vy := 0, vz := 0, dx := 0, dy := 1, dz := 0 }
  have hD : D2 [a] = 1 := by rw [D2, d2ByM_flat]; simp [a, Atom.dd]
  have hV : VD [a] = 0 := by rw [VD, dot_flat]; simp [a, Atom.vd]
  have h := (rescale_sign_zero_defect 1 (-1/2) [a] one_pos (by rw [hD]; norm_num) hV (by norm_num)).1
  refine ⟨?_, by norm_num⟩
  simpa [a] using h

/-- the repaired routine on the same input: accepted with `α = +√rad/D = 1`, energy conserved -/
example :
    rescaleVelocityFixed Real.sqrt (1 : ℝ) [1, 0, 0] [0, 1, 0] [1] (-1/2) = (true, [1, 1, 0]) ∧
    kineticEnergy (1 : ℝ) [1] [1, 1, 0] - kineticEnergy (1 : ℝ) [1] [1, 0, 0] + (-1/2 : ℝ) = 0 := by
  constructor
  · have hs : Real.sqrt 1 = 1 := Real.sqrt_one
    norm_num [rescaleVelocityFixed, rescaleVelocity, rescaleAlpha, d2ByM, dot, atomSq, sumL,
      applyAlpha, expand3, signFixed, hs]
  · norm_num [kineticEnergy, expand3, sumL]

/-- non-vacuity of `rescale_conserves_energy`: an upward hop that is accepted with `v·d = 2 ≠ 0`
(`rad = 4 − 2·(3/2)·1 = 1`, `α = (−2 + 1)/1 = −1`) -/
example :
    rescaleVelocity Real.sqrt tsign (1 : ℝ) [2, 0, 0] [1, 0, 0] [1] (3/2) = (true, [1, 0, 0]) := by
  have hs : Real.sqrt 1 = 1 := Real.sqrt_one
  norm_num [rescaleVelocity, rescaleAlpha, d2ByM, dot, atomSq, sumL, applyAlpha, expand3, tsign, hs]

/-- non-vacuity of `frustrated_hop_untouched`: the same hop with `ΔE = 5/2` is frustrated -/
example : rescaleVelocity Real.sqrt tsign (1 : ℝ) [2, 0, 0] [1, 0, 0] [1] (5/2) = (false, [2, 0, 0]) :=
  (frustrated_hop_untouched 1 (5/2) Real.sqrt tsign [2, 0, 0] [1, 0, 0] [1] 0 1
    (Or.inr (by norm_num [d2ByM, dot, atomSq, sumL]))).1

end rescale

end C17
