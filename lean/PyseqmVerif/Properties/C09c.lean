import PyseqmVerif.Properties.C09
/-!
# C09c — the executed auxiliary-density recurrence preserves every linear invariant (electron count)

`XL_BOMD._propagate_P` acts entry by entry on the density matrix.  For a finite family of entries (e.g. the diagonal:
their sum is the trace = number of electrons) the sum of the propagated entries is the propagated sum; with weights
summing to one (`C09.weight_sum_exact` for the real tables) a buffer whose every slot has trace `N`, a current
auxiliary density of trace `N` and an electron-conserving `D[P]` (resp. a trace-free Krylov update `dP2dt2`) give a new
auxiliary density of trace `N`, at every buffer phase.  The `aux_trace` probe of C09 observes exactly this on the real
code (padded batch members, fractional occupations).
-/
namespace C09c
open XLBuffer Finset

variable {ι : Type}

/-- slot-wise sum over a family of entries of their history buffers (each of length `m`) -/
noncomputable def sumBuf (s : Finset ι) (m : ℕ) (Pt : ι → List ℝ) : List ℝ :=
  (List.range m).map (fun q => ∑ e ∈ s, (Pt e).getD q 0)

theorem sumBuf_length (s : Finset ι) (m : ℕ) (Pt : ι → List ℝ) : (sumBuf s m Pt).length = m := by
  simp [sumBuf]

theorem sumBuf_getD (s : Finset ι) (m : ℕ) (Pt : ι → List ℝ) (q : ℕ) (hq : q < m) :
    (sumBuf s m Pt).getD q 0 = ∑ e ∈ s, (Pt e).getD q 0 := by
  simp [sumBuf, List.getD_eq_getElem?_getD, hq]

/-- the history term is additive over entries -/
theorem histTerm_sum (s : Finset ι) (coeff : List ℝ) (m c : ℕ) (hc : c + m ≤ coeff.length)
    (Pt : ι → List ℝ) (hPt : ∀ e ∈ s, (Pt e).length = m) :
    ∑ e ∈ s, histTerm coeff m c (Pt e) = histTerm coeff m c (sumBuf s m Pt) := by
  rw [histTerm_eq coeff (sumBuf s m Pt) m c (sumBuf_length s m Pt) hc]
  rw [Finset.sum_congr rfl (fun e he => histTerm_eq coeff (Pt e) m c (hPt e he) hc)]
  rw [Finset.sum_comm]
  refine Finset.sum_congr rfl (fun q hq => ?_)
  rw [sumBuf_getD s m Pt q (mem_range.mp hq), Finset.mul_sum]

/-- **additivity of `_propagate_P`**: the sum over a family of matrix entries of the propagated values is the
propagated value of the sums -/
theorem propagate_sum (s : Finset ι) (coeffD : ℝ) (coeff : List ℝ) (m c : ℕ) (hc : c + m ≤ coeff.length)
    (D P : ι → ℝ) (Pt : ι → List ℝ) (hPt : ∀ e ∈ s, (Pt e).length = m) :
    ∑ e ∈ s, propagate coeffD coeff m c (D e) (P e) (Pt e)
      = propagate coeffD coeff m c (∑ e ∈ s, D e) (∑ e ∈ s, P e) (sumBuf s m Pt) := by
  simp only [propagate]
  rw [Finset.sum_add_distrib, histTerm_sum s coeff m c hc Pt hPt]
  congr 1
  rw [← Finset.mul_sum, Finset.sum_add_distrib, ← Finset.mul_sum, ← Finset.mul_sum]

theorem propagateKSA_sum (s : Finset ι) (coeffD : ℝ) (coeff : List ℝ) (m c : ℕ) (hc : c + m ≤ coeff.length)
    (d2 P : ι → ℝ) (Pt : ι → List ℝ) (hPt : ∀ e ∈ s, (Pt e).length = m) :
    ∑ e ∈ s, propagateKSA coeffD coeff m c (d2 e) (P e) (Pt e)
      = propagateKSA coeffD coeff m c (∑ e ∈ s, d2 e) (∑ e ∈ s, P e) (sumBuf s m Pt) := by
  simp only [propagateKSA]
  rw [Finset.sum_add_distrib, histTerm_sum s coeff m c hc Pt hPt]
  congr 1
  rw [← Finset.mul_sum, Finset.sum_add_distrib]

theorem sumBuf_const (s : Finset ι) (m : ℕ) (Pt : ι → List ℝ) (N : ℝ)
    (hN : ∀ q, q < m → ∑ e ∈ s, (Pt e).getD q 0 = N) : sumBuf s m Pt = List.replicate m N := by
  apply List.ext_getElem?
  intro q
  by_cases hq : q < m
  · have := hN q hq
    simp only [List.getD_eq_getElem?_getD] at this
    simp [sumBuf, hq, this]
  · simp [sumBuf, hq]

/-- **electron count of the auxiliary density is preserved by one step, any phase** (plain XL-BOMD): if every slot of
the history buffer, the current auxiliary density and `D[P]` all have the linear invariant `N` (trace = number of
electrons), so has the propagated density -/
theorem aux_invariant_step (s : Finset ι) (m c : ℕ) (hc : c < m) (coeffD : ℝ) (coeff : List ℝ)
    (hclen : coeff.length = 2 * m) (hrot : ∀ j, j < m → coeff[j + m]? = coeff[j]?)
    (hw : coeffD + ∑ j ∈ range m, coeff.getD j 0 = 1)
    (D P : ι → ℝ) (Pt : ι → List ℝ) (hPt : ∀ e ∈ s, (Pt e).length = m) (N : ℝ)
    (hD : ∑ e ∈ s, D e = N) (hP : ∑ e ∈ s, P e = N)
    (hbuf : ∀ q, q < m → ∑ e ∈ s, (Pt e).getD q 0 = N) :
    ∑ e ∈ s, propagate coeffD coeff m c (D e) (P e) (Pt e) = N := by
  rw [propagate_sum s coeffD coeff m c (by omega) D P Pt hPt, hD, hP, sumBuf_const s m Pt N hbuf]
  have h := C09.fixed_point_step m c hc coeffD coeff hclen hrot hw N
  simp only [stepAt] at h
  exact (Prod.mk.inj h).1

/-- the same for the Krylov (KSA) variant: the response update `dP2dt2` must be trace free -/
theorem aux_invariant_step_ksa (s : Finset ι) (m c : ℕ) (hc : c < m) (coeffD : ℝ) (coeff : List ℝ)
    (hclen : coeff.length = 2 * m) (hrot : ∀ j, j < m → coeff[j + m]? = coeff[j]?)
    (hw : coeffD + ∑ j ∈ range m, coeff.getD j 0 = 1)
    (d2 P : ι → ℝ) (Pt : ι → List ℝ) (hPt : ∀ e ∈ s, (Pt e).length = m) (N : ℝ)
    (hd : ∑ e ∈ s, d2 e = 0) (hP : ∑ e ∈ s, P e = N)
    (hbuf : ∀ q, q < m → ∑ e ∈ s, (Pt e).getD q 0 = N) :
    ∑ e ∈ s, propagateKSA coeffD coeff m c (d2 e) (P e) (Pt e) = N := by
  rw [propagateKSA_sum s coeffD coeff m c (by omega) d2 P Pt hPt, hd, hP, sumBuf_const s m Pt N hbuf]
  have h := C09.fixed_point_step_ksa m c hc coeffD coeff hclen hrot hw N
  simp only [stepAtKSA] at h
  exact (Prod.mk.inj h).1

/-- sharpness: a response update that is not trace free changes the electron count by exactly `coeffD` times its trace
(what a response kernel that forgets the padding mask does) -/
theorem aux_invariant_ksa_defect (s : Finset ι) (m c : ℕ) (hc : c < m) (coeffD : ℝ) (coeff : List ℝ)
    (hclen : coeff.length = 2 * m) (hrot : ∀ j, j < m → coeff[j + m]? = coeff[j]?)
    (hw : coeffD + ∑ j ∈ range m, coeff.getD j 0 = 1)
    (d2 P : ι → ℝ) (Pt : ι → List ℝ) (hPt : ∀ e ∈ s, (Pt e).length = m) (N t : ℝ)
    (hd : ∑ e ∈ s, d2 e = t) (hP : ∑ e ∈ s, P e = N)
    (hbuf : ∀ q, q < m → ∑ e ∈ s, (Pt e).getD q 0 = N) :
    ∑ e ∈ s, propagateKSA coeffD coeff m c (d2 e) (P e) (Pt e) = N + coeffD * t := by
  rw [propagateKSA_sum s coeffD coeff m c (by omega) d2 P Pt hPt, hd, hP, sumBuf_const s m Pt N hbuf]
  simp only [propagateKSA]
  rw [C09.histTerm_const m c hc coeff hclen hrot N]
  have : coeffD * (t + N) + (∑ j ∈ range m, coeff.getD j 0) * N
      = (coeffD + ∑ j ∈ range m, coeff.getD j 0) * N + coeffD * t := by ring
  rw [this, hw, one_mul]

/-- non-vacuity (direct evaluation of an instance whose hypotheses hold: two entries with sums 8 in every slot, buffer
length 2, weights 1/2 + 1/4 + 1/4 = 1) -/
example : propagate (1/2 : ℝ) [1/4, 1/4, 1/4, 1/4] 2 1 3 2 [1, 7]
    + propagate (1/2 : ℝ) [1/4, 1/4, 1/4, 1/4] 2 1 5 6 [7, 1] = 8 := by
  simp [propagate, histTerm, window, sumSeq]; norm_num

example : (1/2 : ℝ) + ∑ j ∈ range 2, ([1/4, 1/4, 1/4, 1/4] : List ℝ).getD j 0 = 1 := by
  simp [Finset.sum_range_succ]; norm_num

end C09c
