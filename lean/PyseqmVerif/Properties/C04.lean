import PyseqmVerif.Proofs.ScfLemmas
import PyseqmVerif.Proofs.AdaptiveMixLemmas
import PyseqmVerif.Properties.C03
import Mathlib.LinearAlgebra.Matrix.Trace
import Mathlib.Data.Matrix.Mul
import Mathlib.Algebra.Module.LinearMap.Defs
import Mathlib.Tactic.Module
import Mathlib.Tactic.FieldSimp
/-!
# C04 — solver-path independence

> For molecules with a single stable closed-shell solution, every selectable way of reaching
> self-consistency (fixed or adaptive mixing, Pulay DIIS, Krylov, SP2 or diagonalisation,
> restricted or unrestricted singlet, cold start or restart from a previous or perturbed density)
> yields the same energy, forces, charges and orbital energies within a small multiple of the
> convergence threshold. Tightening the threshold moves results monotonically toward the same
> limit.

**Partial by nature.**  "Single stable solution", hence *uniqueness* of the limit and *monotone*
approach under tightening, are properties of the molecule (of the map `P ↦ makePnew(F(P))`), not of
the code; they are NOT proved here (they are probed numerically by the harness).  What is proved is
everything the code contributes to the claim:

* every update rule has the same fixed points as the bare map `g = makePnew ∘ fock`
  (`mixing_fixed_points`, `adaptive_mix_identity_at_fixed_point`, `diis_affine`);
* SP2 and diagonalisation produce the same density (`C03.sp2_is_aufbau` + `C03.aufbau_density`);
* restricted and unrestricted-singlet Fock builds coincide (`uhf_singlet_fock_equals_rhf`,
  `uhf_singlet_one_center_terms` for the formulas of `fock.py` / `fock_u_batch.py`);
* every solver stops by the same test with the same factors (`same_stopping_rule`), so any two
  converged answers are both `eps`-approximate fixed points in the same sense.
-/
namespace C04
open ScfControl

/-! ## 1. all update rules have the fixed points of `g` -/

/-- **Constant mixing.**  For `α ≠ 1`: `α P + (1−α) g(P) = P ⇔ g(P) = P`, for any map `g` on any
    module over a field (no linearity, continuity, … of `g`). -/
theorem mixing_fixed_points {k M : Type*} [Field k] [AddCommGroup M] [Module k M]
    (α : k) (hα : α ≠ 1) (g : M → M) (P : M) :
    α • P + (1 - α) • g P = P ↔ g P = P := by
  have h1 : (1 - α) ≠ 0 := sub_ne_zero.mpr (Ne.symm hα)
  constructor
  · intro h
    have h2 : (1 - α) • g P = (1 - α) • P := by
      rw [sub_smul _ _ P, one_smul, eq_sub_iff_add_eq, add_comm]; exact h
    exact smul_right_injective M h1 h2
  · intro h
    rw [h, ← add_smul]; simp

/-- the excluded case is genuinely degenerate: with `α = 1` every `P` is a fixed point -/
theorem mixing_alpha_one_all_fixed {k M : Type*} [Field k] [AddCommGroup M] [Module k M]
    (g : M → M) (P : M) : (1 : k) • P + (1 - 1 : k) • g P = P := by simp

/-- **Adaptive mixing** (`adaptive_mix`, model `ScfControl.adaptiveMix`): when the fresh density
    equals the current one, `P_prev = P_cur = P`, the routine returns `P` — on every iteration
    (third or not, damped or not), for any `Pold2_diag`, any `sqrt`/`sign` kernels.

    Hypotheses the proof forces (admissible diagonal):
    * `0 ≤ P_ii ≤ occ` (`occ = 2`, or `1` for a spin block): otherwise `clamp_(0, occ)` moves it;
    * `Σ_i P_ii > 1e-3` **or** every other molecule of the batch is already `done` in round 0 of the
      renormalisation loop.  The loop's exit test is batch-global (`torch.all(done)`), and a
      molecule with `Σ_i P_ii ≤ 1e-3` that is dragged into a scaling round by *another* molecule gets
      `SUM3 = 0`, i.e. its diagonal is zeroed (`adaptive_mix_small_trace_counterexample`). -/
theorem adaptive_mix_identity_at_fixed_point {K : Type} [Field K] [LinearOrder K]
    [IsStrictOrderedRing K] (sqrt sign : K → K) (othersDone : Nat → Bool) (n it : Nat)
    (unres : Bool) (P : Nat → Nat → K) (old2 : List K)
    (hdiag : ∀ i, i < n → 0 ≤ P i i ∧ P i i ≤ (if unres then 1 else 2))
    (hadm : (1/1000 : K) < (diagOf n P).sum ∨ othersDone 0 = true) :
    ∀ i j, i < n → j < n →
      adaptiveMix (fun x => |x|) sqrt sign othersDone n it unres P P old2 i j = P i j := by
  intro i j hi hj
  have hmem : ∀ x ∈ diagOf n P, 0 ≤ x ∧ x ≤ (occNumber unres : K) := by
    intro x hx
    obtain ⟨i, hi, rfl⟩ := mem_diagOf n P x hx
    rw [occNumber_eq]; exact hdiag i hi
  unfold adaptiveMix
  simp only [mixDiag0_self sign _ _ _ (diagOf n P) (damp_pos it) hmem]
  have hloop : renormLoop (fun x : K => |x|) (occNumber unres) othersDone 20 0
      { sum0 := lsum (diagOf n P), di := diagOf n P } = diagOf n P := by
    rcases hadm with h | h
    · exact renormLoop_of_fixed _ othersDone _ (renormRound_fixed _ _ hmem h) 20 0
    · exact renormLoop_exit0 _ othersDone _ 19 h
  rw [hloop]
  by_cases hij : i = j
  · subst hij; rw [if_pos rfl]; exact getD_diagOf n P i hi
  · simp [hij, mixOff_self]

/-- the second admissibility hypothesis cannot be dropped: one orbital, `P_00 = 1/2000`, some other
    molecule of the batch never `done` ⇒ the returned diagonal is `0 ≠ P_00`. -/
theorem adaptive_mix_small_trace_counterexample :
    adaptiveMix (fun x : ℚ => |x|) id id (fun _ => false) 1 1 false
      (fun _ _ => 1/2000) (fun _ _ => 1/2000) [0] 0 0 = 0 := by
  decide +kernel

/-- **DIIS is affine.**  A combination with `Σ c_i = 1` of equal Fock matrices is that Fock
    matrix (so at self-consistency, where all stored `F_i` agree, the extrapolated `F` is `F`). -/
theorem diis_affine {ι M : Type*} [Fintype ι] [AddCommGroup M] [Module ℝ M]
    (c : ι → ℝ) (hc : ∑ i, c i = 1) (Fs : ι → M) (F : M) (hF : ∀ i, Fs i = F) :
    ∑ i, c i • Fs i = F := by
  simp only [hF]
  rw [← Finset.sum_smul, hc, one_smul]

/-- … and the coefficients of the bordered (Lagrange) system do sum to one.  `none` is the
    Lagrange index: last row `(-1, …, -1, 0)`, right-hand side `-1` there — exactly the `EVEC` of
    `scf_forward2` (`coeff = -(EVEC⁻¹)[:cFock, -1]`, i.e. `EVEC · c_aug = -e_last`).
    Hypothesis `hsol` is that `c_aug` *solves* the system; the code uses an eigenvalue-truncated
    pseudo-inverse (`|L| > eval_eps`), so `hsol` holds when no eigenvalue is truncated. -/
theorem diis_coefficients_sum_one {ι : Type*} [Fintype ι] [DecidableEq ι]
    (B : Matrix (Option ι) (Option ι) ℝ) (c rhs : Option ι → ℝ)
    (hrow : ∀ i, B none (some i) = -1) (hcorner : B none none = 0) (hrhs : rhs none = -1)
    (hsol : B.mulVec c = rhs) :
    ∑ i, c (some i) = 1 := by
  have h := congrFun hsol none
  simp only [Matrix.mulVec, dotProduct, Fintype.sum_option, hcorner, hrow, hrhs, zero_mul, zero_add,
    neg_one_mul, Finset.sum_neg_distrib, neg_inj] at h
  exact h

/-! ## 2. restricted = unrestricted singlet -/

/-- **UHF singlet = RHF.**  For linear Coulomb and exchange maps `J`, `K`: with
    `P_α = P_β = P/2` the UHF Fock matrix `h + J(P_α + P_β) − K(P_α)` (both spins) equals the RHF
    `h + J(P) − ½ K(P)`. -/
theorem uhf_singlet_fock_equals_rhf {M : Type*} [AddCommGroup M] [Module ℝ M]
    (J K : M →ₗ[ℝ] M) (h P : M) :
    h + J ((1/2 : ℝ) • P + (1/2 : ℝ) • P) - K ((1/2 : ℝ) • P) = h + J P - (1/2 : ℝ) • K P := by
  rw [← add_smul, map_smul]
  norm_num

/-- the four one-centre sp term types as written in `fock_u_batch._one_center_u` (left) and
    `fock._one_center` (right), with `P_spin = P_opp = P/2`, `P_tot = P`:
    `F(s,s)`, `F(p_i,p_i)`, `F(s,p_i)`, `F(p_i,p_j)`. -/
theorem uhf_singlet_one_center_terms (gss gpp gsp gp2 hsp Pss Pii Pptot Psp Pij : ℝ) :
    ((Pss/2) * gss + Pptot * gsp - (Pptot/2) * hsp
        = 0.5 * Pss * gss + Pptot * (gsp - 0.5 * hsp)) ∧
    (Pss * gsp - (Pss/2) * hsp + (Pii/2) * gpp + (Pptot - Pii) * gp2
        - 0.5 * (Pptot/2 - Pii/2) * (gpp - gp2)
        = Pss * (gsp - 0.5 * hsp) + 0.5 * Pii * gpp + (Pptot - Pii) * (1.25 * gp2 - 0.25 * gpp)) ∧
    (2 * Psp * hsp - (Psp/2) * (hsp + gsp) = Psp * (1.5 * hsp - 0.5 * gsp)) ∧
    (Pij * (gpp - gp2) - 0.5 * (Pij/2) * (gpp + gp2) = Pij * (0.75 * gpp - 1.25 * gp2)) := by
  refine ⟨?_, ?_, ?_, ?_⟩ <;> ring

/-! ## 3. one stopping rule for all solvers -/

/-- **Same stopping rule.**  `scf_forward0`, `scf_forward1`, `scf_forward2` all decide convergence
    by the same `get_error` with the same factors.  Hence for *any* two solvers (kernel sets `K₁`,
    `K₂`: constant / adaptive mixing, Pulay, diagonalisation or SP2, cold or warm start — they are
    all just kernels and initial rows), any two molecules returned converged satisfy the *same*
    `eps`-approximate fixed-point inequalities, each on its own returned state:
    `|E(P) − E_prev| ≤ eps`, `‖P − P_prev‖/n ≤ 2 eps`, `max|P − P_prev| ≤ 15 eps`.

    This is all that can be said in general: that the two returned densities are close to *each
    other* needs uniqueness/stability of the fixed point (a contraction estimate for the molecule),
    which is NOT proved; neither is monotone approach under tightening of `eps`. -/
theorem same_stopping_rule {K : Type} [Field K] [LinearOrder K] [IsStrictOrderedRing K]
    {γ₁ σ₁ γ₂ σ₂ : Type} (K₁ : Kernels γ₁ σ₁ K) (K₂ : Kernels γ₂ σ₂ K) (eps : K)
    (g₁ : γ₁) (ss₁ : List σ₁) (g₂ : γ₂) (ss₂ : List σ₂) (fuel₁ k₁ fuel₂ k₂ : Nat)
    (m₁ : Mol σ₁ K) (m₂ : Mol σ₂ K)
    (h₁ : m₁ ∈ (loop K₁ (fun x => |x|) eps fuel₁ k₁ (initState K₁ g₁ ss₁)).mols)
    (h₂ : m₂ ∈ (loop K₂ (fun x => |x|) eps fuel₂ k₂ (initState K₂ g₂ ss₂)).mols)
    (c₁ : m₁.active = false) (c₂ : m₂.active = false) :
    (|K₁.energy m₁.s - m₁.eOld| ≤ eps ∧ K₁.dmErr m₁.s ≤ 2 * eps ∧ K₁.elemErr m₁.s ≤ 15 * eps) ∧
    (|K₂.energy m₂.s - m₂.eOld| ≤ eps ∧ K₂.dmErr m₂.s ≤ 2 * eps ∧ K₂.elemErr m₂.s ≤ 15 * eps) := by
  obtain ⟨-, a2, a3, a4, a5, a6, a7, -⟩ := C03.flag_truthful K₁ eps g₁ ss₁ fuel₁ k₁ m₁ h₁ c₁
  obtain ⟨-, b2, b3, b4, b5, b6, b7, -⟩ := C03.flag_truthful K₂ eps g₂ ss₂ fuel₂ k₂ m₂ h₂ c₂
  exact ⟨⟨a2 ▸ a3, a4 ▸ a5, a6 ▸ a7⟩, ⟨b2 ▸ b3, b4 ▸ b5, b6 ▸ b7⟩⟩

/-- tightening: a state that passes the test at `eps` passes it at every larger threshold
    (monotonicity of the *test*; monotone convergence of the *results* is not a theorem). -/
theorem passed_mono {K : Type} [Field K] [LinearOrder K] [IsStrictOrderedRing K]
    (eps eps' err dm elem : K) (diis : Option K) (h : eps ≤ eps')
    (hp : Passed eps err dm elem diis) : Passed eps' err dm elem diis := by
  obtain ⟨h1, h2, h3, h4⟩ := hp
  exact ⟨le_trans h1 h, by linarith, by linarith, fun d hd => by have := h4 d hd; linarith⟩

/-! ## non-vacuity -/
section Examples

/-- `mixing_fixed_points` with a non-trivial `g` on `ℝ`: `g x = x²`, `α = 1/2`, fixed point `1` -/
example : (1/2 : ℝ) • (1:ℝ) + (1 - 1/2 : ℝ) • ((fun x : ℝ => x * x) 1) = 1 := by norm_num

/-- `adaptive_mix_identity_at_fixed_point`: a 2-orbital closed-shell diagonal `(2, 0)` in a batch
    whose other molecules are never done -/
example : ∀ i j, i < 2 → j < 2 →
    adaptiveMix (fun x : ℚ => |x|) id id (fun _ => false) 2 6 false
      (fun i j => if i = 0 ∧ j = 0 then 2 else 0) (fun i j => if i = 0 ∧ j = 0 then 2 else 0) [1, 1] i j
      = (if i = 0 ∧ j = 0 then 2 else 0) := by
  apply adaptive_mix_identity_at_fixed_point
  · intro i hi
    interval_cases i <;> simp
  · left
    norm_num [diagOf, List.range, List.range.loop]

/-- `diis_coefficients_sum_one`: two stored vectors, `B = [[2,0,-1],[0,2,-1],[-1,-1,0]]`,
    solution `c = (1/2, 1/2)`, `λ = 1` -/
example : ∃ (B : Matrix (Option (Fin 2)) (Option (Fin 2)) ℝ) (c rhs : Option (Fin 2) → ℝ),
    (∀ i, B none (some i) = -1) ∧ B none none = 0 ∧ rhs none = -1 ∧ B.mulVec c = rhs ∧
    c (some 0) ≠ 0 := by
  refine ⟨fun a b => match a, b with
      | none, none => 0
      | none, some _ => -1
      | some _, none => -1
      | some i, some j => if i = j then 2 else 0,
    fun a => match a with | none => 1 | some _ => 1/2,
    fun a => match a with | none => -1 | some _ => 0, ?_, rfl, rfl, ?_, ?_⟩
  · intro i; rfl
  · funext a
    unfold Matrix.mulVec dotProduct
    rw [Fintype.sum_option, Fin.sum_univ_two]
    cases a with
    | none => norm_num
    | some i => fin_cases i <;> norm_num
  · norm_num

end Examples

end C04
