import PyseqmVerif.Model.Pack
/-!
# C05c — the batch shortcut of `pack` / `unpack` is transparent exactly under the code's condition

`pack(x, nHeavy, nHydro)` on a batch takes a fast path when `same = (nho.unique().numel() == 1) and (nHydro.unique().numel() == 1)`:
every row is packed with the layout `(nho[0], nHydro[0])`; otherwise each row is packed with its own layout
(`torch.stack(map(packone, x, nho, nHydro))`).  Batch transparency (C05) needs the fast path to give what the slow path gives.
That holds for the condition the code tests (both counts equal in every row) and FAILS for the weaker condition "equal number of
orbitals" — the slip three independent testers seeded (`(nho + nHydro).unique().numel() == 1`): CH4 (4 + 4) and CO (8 + 0)
have 8 orbitals each and different layouts.  Core Lean only.
-/
namespace C05c
open Pack
variable {α : Type}

/-- the layouts `(nho, nHydro)` of the rows -/
abbrev Layout := Nat × Nat

/-- the code's test: `nho.unique().numel() == 1 and nHydro.unique().numel() == 1` -/
def same (rows : List Layout) : Bool :=
  match rows with
  | [] => true
  | r :: rs => rs.all (fun q => q.1 == r.1 && q.2 == r.2)

/-- the weakened test: equal orbital count only -/
def sameCoarse (rows : List Layout) : Bool :=
  match rows with
  | [] => true
  | r :: rs => rs.all (fun q => q.1 + q.2 == r.1 + r.2)

/-- slow path: every row with its own layout -/
def packRows (zero : α) (rows : List Layout) (xs : List (Nat → Nat → α)) : List (Nat → Nat → α) :=
  List.zipWith (fun r x => pack zero r.1 r.2 x) rows xs

/-- `pack` on a batch, with an arbitrary shortcut test `t` -/
def packBatchWith (t : List Layout → Bool) (zero : α) (rows : List Layout) (xs : List (Nat → Nat → α)) :
    List (Nat → Nat → α) :=
  if t rows then
    match rows with
    | [] => []
    | r :: _ => (List.zipWith (fun _ x => pack zero r.1 r.2 x) rows xs)
  else packRows zero rows xs

/-- the code -/
def packBatch (zero : α) := packBatchWith (α := α) same zero

theorem same_all_eq (r : Layout) (rs : List Layout) (h : same (r :: rs) = true) : ∀ q ∈ r :: rs, q = r := by
  intro q hq
  simp only [same, List.all_eq_true, Bool.and_eq_true, beq_iff_eq] at h
  rcases List.mem_cons.mp hq with rfl | hq
  · rfl
  · exact Prod.ext (h q hq).1 (h q hq).2

/-- **the code's shortcut is transparent**: the fast path equals the row-wise slow path, for every batch -/
theorem packBatch_rowwise (zero : α) (rows : List Layout) (xs : List (Nat → Nat → α)) :
    packBatch zero rows xs = packRows zero rows xs := by
  unfold packBatch packBatchWith
  split
  · rename_i h
    cases rows with
    | nil => simp [packRows]
    | cons r rs =>
      simp only [packRows]
      have hall := same_all_eq r rs h
      -- every row's own layout equals r
      induction xs generalizing r rs with
      | nil => simp
      | cons x xs ih =>
        simp only [List.zipWith_cons_cons]
        congr 1
        clear ih
        -- remaining rows
        revert hall
        generalize hrs : rs = rs'
        intro hall
        have : ∀ q ∈ rs', q = r := fun q hq => hall q (List.mem_cons_of_mem _ hq)
        clear hall hrs h
        induction rs' generalizing xs with
        | nil => simp
        | cons q qs ihq =>
          cases xs with
          | nil => simp
          | cons y ys =>
            simp only [List.zipWith_cons_cons]
            rw [this q (List.mem_cons_self ..)]
            congr 1
            exact ihq ys (fun q' hq' => this q' (List.mem_cons_of_mem _ hq'))
  · rfl

/-- consequently a row's packed matrix does not depend on its batch mates -/
theorem packBatch_row_independent (zero : α) (rows : List Layout) (xs : List (Nat → Nat → α)) (m : Nat)
    (r : Layout) (x : Nat → Nat → α) (hr : rows[m]? = some r) (hx : xs[m]? = some x) :
    (packBatch zero rows xs)[m]? = some (pack zero r.1 r.2 x) := by
  rw [packBatch_rowwise, packRows, List.getElem?_zipWith, hr, hx]

/-- **the weakened test is NOT transparent**: CH4-like `(4, 4)` and CO-like `(8, 0)` rows have 8 orbitals each; with the coarse
test the second row is packed with the first row's layout and reads a different entry of the padded matrix -/
theorem coarse_shortcut_witness :
    let rows : List Layout := [(4, 4), (8, 0)]
    let x : Nat → Nat → Nat := fun i j => 100 * i + j
    sameCoarse rows = true ∧ same rows = false ∧
    ((packBatchWith sameCoarse 0 rows [x, x]).map (fun f => f 5 5)) = [808, 808] ∧
    ((packRows 0 rows [x, x]).map (fun f => f 5 5)) = [808, 505] := by
  decide

/-- the row that is damaged is never the first one (its own layout is the one applied): why a seeded coarse test only showed
for targets in later rows -/
theorem coarse_first_row_ok (zero : α) (r : Layout) (rs : List Layout) (x : Nat → Nat → α) (xs : List (Nat → Nat → α)) :
    (packBatchWith sameCoarse zero (r :: rs) (x :: xs))[0]? = some (pack zero r.1 r.2 x) := by
  unfold packBatchWith
  split <;> simp [packRows]

example : same [(4, 4), (4, 4), (4, 4)] = true ∧ same [(4, 4), (8, 0)] = false := by decide

end C05c
