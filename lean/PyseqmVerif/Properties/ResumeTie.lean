import PyseqmVerif.Generated.ResumeIdx
import PyseqmVerif.Model.MDOut
import PyseqmVerif.Model.XLBuffer
/-!
# Translator tie for the resume indices (C10, C09)

`Generated/ResumeIdx.lean` holds the integer expressions that decide where a resumed process continues, extracted from the
bodies of `HDF5Writer._open_resume` and `Molecular_Dynamics_Basic.run_from_checkpoint` by AST on every run.  The theorems below
say that the hand-written models use exactly these expressions: the row cursor of `MDOut.openResume` for every HDF5 stream
kind, and `XLBuffer.restoreIndex` for the slot of the XL history buffer the auxiliary density is restored from.
If the source changes one of the expressions (an off-by-one in a cursor, a different phase convention) the corresponding
theorem stops checking and the crash-history probes look for the history on which the resumed files differ.
-/
namespace ResumeTie
open Generated

/-- `self.i_data[mol] = (step_offset // self._data_every) + 1 if self._data_every > 0 else 0` is the model's resume cursor -/
theorem iData_is_model_cursor (e o : Nat) (disk : List (Option Nat)) :
    ResumeIdx.iData (o : Int) (e : Int) = ((MDOut.openResume e o disk).cur : Int) := by
  unfold ResumeIdx.iData MDOut.openResume
  rcases Nat.eq_zero_or_pos e with he | he
  · subst he; simp
  · have h1 : ((e : Int) > 0) := by omega
    have h2 : e ≠ 0 := by omega
    simp only [h1, h2, if_false, if_true]
    rw [Int.fdiv_eq_ediv_of_nonneg _ (by omega)]
    push_cast
    rfl

/-- the vector streams (coordinates, velocities, forces) and the TDM stream use the same expression -/
theorem iVec_eq_iData (o e : Int) : ResumeIdx.iVec o e = ResumeIdx.iData o e := rfl
theorem iTdm_eq_iData (o e : Int) : ResumeIdx.iTdm o e = ResumeIdx.iData o e := rfl

/-- the nonadiabatic stream (its assignment sits under the guard `write_nonadiabatic > 0`) -/
theorem iNa_is_model_cursor (e o : Nat) (he : 0 < e) (disk : List (Option Nat)) :
    ResumeIdx.iNa (o : Int) (e : Int) = ((MDOut.openResume e o disk).cur : Int) := by
  rw [← iData_is_model_cursor e o disk]
  unfold ResumeIdx.iNa ResumeIdx.iData
  have h1 : ((e : Int) > 0) := by omega
  simp only [h1, if_true]

/-- `cindx = (ckpt["step_done"] - 1) % xl_m;  P = Pt[xl_m - 1 - cindx]` is `XLBuffer.restoreIndex` -/
theorem xlSlot_is_restoreIndex (m stepDone : Nat) (hm : 0 < m) :
    ResumeIdx.xlSlot (ResumeIdx.xlCindx (stepDone : Int) (m : Int)) (m : Int) = (XLBuffer.restoreIndex m stepDone : Int) := by
  unfold ResumeIdx.xlSlot ResumeIdx.xlCindx XLBuffer.restoreIndex
  have hm' : (0 : Int) < (m : Int) := by omega
  have hmod : Int.fmod ((stepDone : Int) - 1) (m : Int) = ((stepDone : Int) - 1) % (m : Int) := by
    rw [Int.fmod_eq_emod_of_nonneg _ (by omega)]
  rw [hmod]
  have h0 : 0 ≤ ((stepDone : Int) - 1) % (m : Int) := Int.emod_nonneg _ (by omega)
  have h1 : ((stepDone : Int) - 1) % (m : Int) < (m : Int) := Int.emod_lt_of_pos _ hm'
  omega

/-- non-vacuity / sanity: the values for a run resumed from step 6 with cadence 4 and for the XL buffer of length 5 -/
example : ResumeIdx.iData 6 4 = 2 ∧ ResumeIdx.iNa 6 2 = 4 ∧ ResumeIdx.xlSlot (ResumeIdx.xlCindx 7 5) 5 = 3 := by decide

end ResumeTie
