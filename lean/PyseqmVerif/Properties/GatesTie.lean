import PyseqmVerif.Generated.Gates
import PyseqmVerif.Model.MDOut
/-!
# Translator tie for the output gates of the MD step loop (C11, C10)

`Generated/Gates.lean`: the tests that decide whether step `i` (0-based loop index, absolute step `i+1`) writes the thermo row,
an XYZ frame, a checkpoint, a screen line (`Molecular_Dynamics_Basic.run`) and whether `append_vectors(step_idx, …)` writes a
vector stream, extracted by AST on every run.  Each equals the model's `MDOut.isDue cadence step`.  (The XYZ and screen tests
carry their `cadence > 0` part as the flags `do_xyz` / `do_screen`, which the translator drops; the theorems for them assume it.)
-/
namespace GatesTie
open Generated

theorem gateData_is_isDue (i e : Nat) : Gates.gateData (i : Int) (e : Int) = MDOut.isDue e (i + 1) := by
  unfold Gates.gateData MDOut.isDue
  rcases Nat.eq_zero_or_pos e with he | he
  · subst he; simp
  · have h1 : ((e : Int) > 0) := by omega
    have h2 : 0 < e := he
    rw [Int.fmod_eq_emod_of_nonneg _ (by omega)]
    simp only [h1, h2, true_and, decide_true, Bool.true_and]
    have : (((i : Int) + 1) % (e : Int) = 0) ↔ ((i + 1) % e = 0) := by
      norm_cast
    simp only [this]
    by_cases hh : (i + 1) % e = 0 <;> simp [hh]

theorem gateCkpt_is_isDue (i e : Nat) : Gates.gateCkpt (i : Int) (e : Int) = MDOut.isDue e (i + 1) := by
  have := gateData_is_isDue i e
  unfold Gates.gateData at this
  unfold Gates.gateCkpt
  exact this

theorem gateVec_is_isDue (s e : Nat) : Gates.gateVec (s : Int) (e : Int) = MDOut.isDue e s := by
  unfold Gates.gateVec MDOut.isDue
  rcases Nat.eq_zero_or_pos e with he | he
  · subst he; simp
  · have h1 : ((e : Int) > 0) := by omega
    have h2 : 0 < e := he
    rw [Int.fmod_eq_emod_of_nonneg _ (by omega)]
    simp only [h1, h2, true_and, decide_true, Bool.true_and]
    have : (((s : Int)) % (e : Int) = 0) ↔ (s % e = 0) := by
      norm_cast
    simp only [this]
    by_cases hh : s % e = 0 <;> simp [hh]

theorem gateXyz_is_isDue (i e : Nat) (he : 0 < e) : Gates.gateXyz (i : Int) (e : Int) = MDOut.isDue e (i + 1) := by
  rw [← gateData_is_isDue]
  unfold Gates.gateXyz Gates.gateData
  have h1 : ((e : Int) > 0) := by omega
  simp only [h1, true_and]

theorem gateScreen_is_isDue (i e : Nat) (he : 0 < e) : Gates.gateScreen (i : Int) (e : Int) = MDOut.isDue e (i + 1) := by
  rw [← gateData_is_isDue]
  unfold Gates.gateScreen Gates.gateData
  have h1 : ((e : Int) > 0) := by omega
  simp only [h1, true_and]

/-- the nonadiabatic stream (written inside the surface-hopping integrator step): due exactly at the multiples of its own cadence of the ABSOLUTE
    step `i + 1` (the loop index is already absolute in a resumed run), and labelled with that step -/
theorem gateNa_is_isDue (i e : Nat) : Gates.gateNa (i : Int) (e : Int) = MDOut.isDue e (i + 1) := by
  have := gateData_is_isDue i e
  unfold Gates.gateData at this
  unfold Gates.gateNa
  exact this

theorem naLabel_is_step (i : Nat) : Gates.naLabel (i : Int) = ((i + 1 : Nat) : Int) := by
  unfold Gates.naLabel
  push_cast
  rfl

example : Gates.gateData 5 3 = true ∧ Gates.gateData 4 3 = false ∧ Gates.gateVec 6 0 = false := by decide

end GatesTie
