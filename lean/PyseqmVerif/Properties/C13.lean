import PyseqmVerif.Proofs.InitVelLemmas
import Mathlib.Tactic.IntervalCases
/-!
# C13 — initial conditions: Maxwell–Boltzmann velocities, exact temperature, `_zero_com`

Statements about the executable model `InitVel` (`Model/InitVel.lean`, diffed against
`Molecular_Dynamics_Basic.initialize_velocity/_zero_com` through the driver ops `mbscale`, `rescale`,
`zerocom_linear`) instantiated at `ℝ` with `sqrt = Real.sqrt`.  `solve I L` stands for
`pinv(I, hermitian=True) @ L`; its contract `I (solve I L) = L` is a hypothesis.
`dotm m w = Σ mᵢ wᵢ` is one Cartesian component of the linear momentum (`w` = that column of the
velocities), `angMom m r v = Σ mᵢ rᵢ × vᵢ`, 3-vectors are triples.
-/
namespace C13
open Verlet InitVel MDL Finset

/-! ### exact initial temperature -/

/-- after `v *= sqrt(Temp / T1)` the model's temperature is exactly `Temp` (`T1 > 0`) -/
theorem rescale_exact_temperature (kes ts ndof Temp : ℝ) (m v : List ℝ) (h : m.length = v.length)
    (hT : 0 ≤ Temp) (hT1 : 0 < temperature (kineticEnergy kes m v) ts ndof) :
    temperature (kineticEnergy kes m
      (rescale Real.sqrt Temp (temperature (kineticEnergy kes m v) ts ndof) v)) ts ndof = Temp := by
  unfold rescale
  simp only []
  rw [kineticEnergy_scale kes _ m v h, temperature_scale, Real.sq_sqrt (div_nonneg hT hT1.le)]
  field_simp

/-- the same for the code path of `initialize_velocity` (fresh velocities, `Temp ≠ 0`) -/
theorem init_velocity_exact_temperature (vel kes ts ndof Temp : ℝ) (m minv xi : List ℝ)
    (h : m.length = minv.length) (hxi : xi.length = minv.length) (hT : 0 < Temp)
    (hT1 : 0 < temperature (kineticEnergy kes m (mbScale Real.sqrt Temp vel minv xi)) ts ndof) :
    temperature (kineticEnergy kes m (initVelocityFlat Real.sqrt Temp vel kes ts ndof m minv xi)) ts ndof
      = Temp := by
  unfold initVelocityFlat
  have hne : (Temp == 0.0) = false := by
    rw [beq_eq_false_iff_ne]; norm_num; exact hT.ne'
  simp only [hne]
  exact rescale_exact_temperature kes ts ndof Temp m _ (by simp [mbScale, h, hxi]) hT.le hT1

/-! ### zero temperature -/

/-- `Temp = 0`: the code path returns zeros, and the Maxwell–Boltzmann scale is zero anyway -/
theorem zero_temperature_velocities_zero (vel kes ts ndof : ℝ) (m minv xi : List ℝ) :
    initVelocityFlat Real.sqrt 0 vel kes ts ndof m minv xi = List.replicate minv.length 0 ∧
    ∀ i, (mbScale Real.sqrt 0 vel minv xi).getD i 0 = 0 := by
  constructor
  · unfold initVelocityFlat
    have : ((0 : ℝ) == 0.0) = true := by rw [beq_iff_eq]; norm_num
    simp only [this]; rfl
  · intro i
    unfold mbScale
    by_cases hi : i < minv.length ∧ i < xi.length
    · rw [getD_zipWith _ minv xi i 0 0 0 hi.1 hi.2]; simp
    · exact getD_default _ _ (by simp; omega)

/-! ### `_zero_com`, linear part -/

/-- after the (unmasked) linear step `Σ mᵢ vᵢ = 0`; padding atoms do not contribute (mass 0) -/
theorem linear_momentum_removed (m v : List ℝ) (h : m.length = v.length) (hM : lsum m ≠ 0) :
    dotm m (removeCom m v) = 0 := by
  rw [dotm_eq m _ (by simp [removeCom, h])]
  have : ∀ i ∈ range m.length, m.getD i 0 * (removeCom m v).getD i 0
      = m.getD i 0 * v.getD i 0 - dotm m v / lsum m * m.getD i 0 := by
    intro i hi
    rw [removeCom_getD m v i (h ▸ Finset.mem_range.mp hi)]; ring
  rw [Finset.sum_congr rfl this, Finset.sum_sub_distrib, ← Finset.mul_sum, ← dotm_eq m v h,
    ← lsum_eq_range m m.length rfl]
  field_simp
  ring

/-- **finding**: the unmasked linear step of the current code sets a padding atom (mass 0, at rest)
    in motion whenever the molecule has net momentum -/
theorem padding_velocity_counterexample :
    ∃ (m v : List ℚ) (i : ℕ), m.getD i 0 = 0 ∧ v.getD i 0 = 0 ∧ (removeCom m v).getD i 0 ≠ 0 :=
  ⟨[16, 1, 0], [1, 0, 0], 2, by decide, by decide, by norm_num [removeCom, dotm, lsum]⟩

/-- the witness in full: O–H–padding with the oxygen moving -/
theorem padding_velocity_witness :
    removeCom ([16, 1, 0] : List ℚ) [1, 0, 0] = [1 / 17, -16 / 17, -16 / 17] := by
  norm_num [removeCom, dotm, lsum]

/-! ### `_zero_com`, angular part -/

/-- whatever solution `ω` of `I ω = L` the pseudo-inverse returns, subtracting `ω × r` removes the
    angular momentum -/
theorem angular_momentum_removed (solve : M3 ℝ → V3 ℝ → V3 ℝ) (m : List ℝ) (r v : List (V3 ℝ))
    (hr : r.length = m.length) (hv : v.length = m.length)
    (hsolve : mulVec3 (inertia m r) (solve (inertia m r) (angMom m r v)) = angMom m r v) :
    angMom m r (removeAngular solve m r v) = (0, 0, 0) := by
  unfold removeAngular
  simp only []
  rw [angMom_subCross m r v _ hr hv, hsolve]
  simp [sub3]

/-- ... and does not re-introduce linear momentum when `r` is relative to the centre of mass -/
theorem linear_kept (solve : M3 ℝ → V3 ℝ → V3 ℝ) (m : List ℝ) (r v : List (V3 ℝ))
    (hr : r.length = m.length) (hv : v.length = m.length)
    (hcom : dotm m (col1 r) = 0 ∧ dotm m (col2 r) = 0 ∧ dotm m (col3 r) = 0)
    (hp : dotm m (col1 v) = 0 ∧ dotm m (col2 v) = 0 ∧ dotm m (col3 v) = 0) :
    dotm m (col1 (removeAngular solve m r v)) = 0 ∧ dotm m (col2 (removeAngular solve m r v)) = 0 ∧
    dotm m (col3 (removeAngular solve m r v)) = 0 := by
  unfold removeAngular
  simp only []
  generalize solve (inertia m r) (angMom m r v) = ω
  obtain ⟨a, b, c⟩ := ω
  obtain ⟨hc1, hc2, hc3⟩ := hcom
  obtain ⟨hp1, hp2, hp3⟩ := hp
  unfold col1 col2 col3 at *
  rw [dotm_map _ m r hr] at hc1 hc2 hc3
  rw [dotm_map _ m v hv] at hp1 hp2 hp3
  have hlen : (List.zipWith (fun vi ri => sub3 vi (cross (a, b, c) ri)) v r).length = m.length := by
    simp [hr, hv]
  have hget : ∀ i ∈ range m.length,
      (List.zipWith (fun vi ri => sub3 vi (cross (a, b, c) ri)) v r).getD i z3
        = sub3 (v.getD i z3) (cross (a, b, c) (r.getD i z3)) := fun i hi =>
    subCross_getD (a, b, c) r v (by rw [hr, hv]) i (hr ▸ Finset.mem_range.mp hi)
  rw [dotm_map _ m _ hlen, dotm_map _ m _ hlen, dotm_map _ m _ hlen]
  refine ⟨?_, ?_, ?_⟩
  · rw [Finset.sum_congr rfl (fun i hi => by rw [hget i hi])]
    have : ∀ i ∈ range m.length, m.getD i 0 * (sub3 (v.getD i z3) (cross (a, b, c) (r.getD i z3))).1
        = m.getD i 0 * (v.getD i z3).1 - b * (m.getD i 0 * (r.getD i z3).2.2)
          + c * (m.getD i 0 * (r.getD i z3).2.1) := by
      intro i _; simp only [sub3, cross]; ring
    rw [Finset.sum_congr rfl this, Finset.sum_add_distrib, Finset.sum_sub_distrib, ← Finset.mul_sum,
      ← Finset.mul_sum, hp1, hc3, hc2]; ring
  · rw [Finset.sum_congr rfl (fun i hi => by rw [hget i hi])]
    have : ∀ i ∈ range m.length, m.getD i 0 * (sub3 (v.getD i z3) (cross (a, b, c) (r.getD i z3))).2.1
        = m.getD i 0 * (v.getD i z3).2.1 - c * (m.getD i 0 * (r.getD i z3).1)
          + a * (m.getD i 0 * (r.getD i z3).2.2) := by
      intro i _; simp only [sub3, cross]; ring
    rw [Finset.sum_congr rfl this, Finset.sum_add_distrib, Finset.sum_sub_distrib, ← Finset.mul_sum,
      ← Finset.mul_sum, hp2, hc1, hc3]; ring
  · rw [Finset.sum_congr rfl (fun i hi => by rw [hget i hi])]
    have : ∀ i ∈ range m.length, m.getD i 0 * (sub3 (v.getD i z3) (cross (a, b, c) (r.getD i z3))).2.2
        = m.getD i 0 * (v.getD i z3).2.2 - a * (m.getD i 0 * (r.getD i z3).2.1)
          + b * (m.getD i 0 * (r.getD i z3).1) := by
      intro i _; simp only [sub3, cross]; ring
    rw [Finset.sum_congr rfl this, Finset.sum_add_distrib, Finset.sum_sub_distrib, ← Finset.mul_sum,
      ← Finset.mul_sum, hp3, hc2, hc1]; ring

/-! ### restoration of the kinetic energy -/

/-- after `v *= sqrt(Ek0 / Ek1)` the kinetic energy is `Ek0` and a zero momentum stays zero -/
theorem ke_restored (kes ek0 : ℝ) (m v : List ℝ) (h : m.length = v.length) (h0 : 0 ≤ ek0)
    (h1 : 0 < kineticEnergy kes m v) :
    kineticEnergy kes m (restoreKE Real.sqrt ek0 (kineticEnergy kes m v) v) = ek0 ∧
    (dotm m v = 0 → dotm m (restoreKE Real.sqrt ek0 (kineticEnergy kes m v) v) = 0) := by
  unfold restoreKE
  simp only []
  constructor
  · rw [kineticEnergy_scale kes _ m v h, Real.sq_sqrt (div_nonneg h0 h1.le)]
    field_simp
  · intro hp
    rw [restoreKE_dotm _ m v h, hp, mul_zero]

/-! ### the masked variant (planned repair) -/

/-- masked variant: an atom of mass 0 keeps its velocity (in particular 0) -/
theorem masked_padding_stays_zero (m v : List ℝ) (h : m.length = v.length) (i : ℕ)
    (hmi : m.getD i 0 = 0) : (removeComMasked m v).getD i 0 = v.getD i 0 := by
  rw [removeComMasked_getD m v h, hmi]; simp

/-- masked variant: the linear momentum is still removed (masses `≥ 0`) -/
theorem masked_momentum_removed (m v : List ℝ) (h : m.length = v.length) (hM : lsum m ≠ 0)
    (hpos : ∀ i, 0 ≤ m.getD i 0) : dotm m (removeComMasked m v) = 0 := by
  rw [dotm_eq m _ (by simp [removeComMasked, massMask, h])]
  have : ∀ i ∈ range m.length, m.getD i 0 * (removeComMasked m v).getD i 0
      = m.getD i 0 * v.getD i 0 - dotm m v / lsum m * m.getD i 0 := by
    intro i _
    rw [removeComMasked_getD m v h]
    rcases (hpos i).lt_or_eq with hlt | heq
    · rw [if_pos hlt]; ring
    · rw [← heq]; simp
  rw [Finset.sum_congr rfl this, Finset.sum_sub_distrib, ← Finset.mul_sum, ← dotm_eq m v h,
    ← lsum_eq_range m m.length rfl]
  field_simp
  ring

/-! ### the whole `_zero_com(remove_angular=True, restore_kinetic_energy=True)` -/

/-- If the call does not raise, the returned velocities have zero linear momentum, zero angular
    momentum about the centre of mass and the kinetic energy of the input velocities; the returned
    coordinates are the input ones or the ones relative to the centre of mass. -/
theorem zero_com_spec (solve : M3 ℝ → V3 ℝ → V3 ℝ) (kes : ℝ) (translate : Bool) (m : List ℝ)
    (r v r' v' : List (V3 ℝ)) (hr : r.length = m.length) (hv : v.length = m.length)
    (hM : lsum m ≠ 0) (hek0 : 0 ≤ kineticEnergy3 kes m v)
    (hsolve : mulVec3 (inertia m (removeCom3 m r))
        (solve (inertia m (removeCom3 m r)) (angMom m (removeCom3 m r) (removeCom3 m v)))
          = angMom m (removeCom3 m r) (removeCom3 m v))
    (hz : zeroCom Real.sqrt solve kes true translate true m r v = some (r', v')) :
    (dotm m (col1 v') = 0 ∧ dotm m (col2 v') = 0 ∧ dotm m (col3 v') = 0) ∧
    angMom m (removeCom3 m r) v' = (0, 0, 0) ∧
    kineticEnergy3 kes m v' = kineticEnergy3 kes m v ∧
    r' = (if translate then removeCom3 m r else r) := by
  have hrr : (removeCom3 m r).length = m.length := by rw [removeCom3_length, hr]
  have hv1 : (removeCom3 m v).length = m.length := by rw [removeCom3_length, hv]
  have hv2 : (removeAngular solve m (removeCom3 m r) (removeCom3 m v)).length = m.length := by
    simp [removeAngular, hrr, hv1]
  -- linear momentum is zero after the linear step, for coordinates and velocities
  have lin : ∀ w : List (V3 ℝ), w.length = m.length →
      dotm m (col1 (removeCom3 m w)) = 0 ∧ dotm m (col2 (removeCom3 m w)) = 0 ∧
      dotm m (col3 (removeCom3 m w)) = 0 := by
    intro w hw
    obtain ⟨e1, e2, e3⟩ := removeCom3_cols m w
    rw [e1, e2, e3]
    exact ⟨linear_momentum_removed m _ (by simp [col1, hw]) hM,
      linear_momentum_removed m _ (by simp [col2, hw]) hM,
      linear_momentum_removed m _ (by simp [col3, hw]) hM⟩
  have hp2 := linear_kept solve m _ _ hrr hv1 (lin r hr) (lin v hv)
  have hL2 := angular_momentum_removed solve m _ _ hrr hv1 hsolve
  unfold zeroCom at hz
  simp only [if_true] at hz
  split at hz
  · exact absurd hz (by simp)
  · rename_i hguard
    have hek1 : 0 < kineticEnergy3 kes m (removeAngular solve m (removeCom3 m r) (removeCom3 m v)) := by
      have : (0 : ℝ) < 1e-12 := by norm_num
      linarith [not_lt.mp hguard]
    simp only [Option.some.injEq, Prod.mk.injEq] at hz
    obtain ⟨hr', hv'⟩ := hz
    subst hv'
    refine ⟨?_, ?_, ?_, hr'.symm⟩
    · obtain ⟨e1, e2, e3⟩ := cols_map_scale
        (Real.sqrt (kineticEnergy3 kes m v /
          kineticEnergy3 kes m (removeAngular solve m (removeCom3 m r) (removeCom3 m v))))
        (removeAngular solve m (removeCom3 m r) (removeCom3 m v))
      change dotm m (col1 (List.map (scale3 _) _)) = 0 ∧ dotm m (col2 (List.map (scale3 _) _)) = 0 ∧
        dotm m (col3 (List.map (scale3 _) _)) = 0
      rw [e1, e2, e3, restoreKE_dotm _ m _ (by simp [col1, hv2]), restoreKE_dotm _ m _ (by simp [col2, hv2]),
        restoreKE_dotm _ m _ (by simp [col3, hv2]), hp2.1, hp2.2.1, hp2.2.2]
      simp
    · change angMom m (removeCom3 m r) (List.map (scale3 _) _) = (0, 0, 0)
      rw [angMom_map_scale _ m _ _ hrr hv2, hL2]; simp
    · change kineticEnergy3 kes m (List.map (scale3 _) _) = _
      rw [kineticEnergy3_scale kes _ m _ hv2, Real.sq_sqrt (div_nonneg hek0 hek1.le)]
      field_simp

/-! ### non-vacuity -/
section examples

/-- `rescale_exact_temperature`: a state with positive temperature -/
example : 0 < temperature (kineticEnergy (2 : ℝ) [1, 3] [2, 1]) 1 2 := by
  norm_num [temperature, kineticEnergy, lsum]

/-- `linear_momentum_removed`, `masked_momentum_removed`: O–H plus a padding atom -/
example : lsum ([16, 1, 0] : List ℝ) ≠ 0 ∧ ∀ i, 0 ≤ ([16, 1, 0] : List ℝ).getD i 0 := by
  refine ⟨by norm_num [lsum], fun i => ?_⟩
  by_cases h : i < 3
  · interval_cases i <;> simp
  · rw [getD_default _ _ (by simp; omega)]

/-- a rotating and vibrating diatomic along `x` (a LINEAR molecule: the inertia matrix
    `diag(0,2,2)` is singular, `solve` is a pseudo-inverse, not an inverse) -/
def mEx : List ℝ := [1, 1]
def rEx : List (V3 ℝ) := [(1, 0, 0), (-1, 0, 0)]
def vEx : List (V3 ℝ) := [(1, 1, 0), (-1, -1, 0)]
/-- `pinv(diag(0,2,2)) @ L` -/
noncomputable def solveEx : M3 ℝ → V3 ℝ → V3 ℝ := fun _ L => (0, L.2.1 / 2, L.2.2 / 2)

theorem ex_inertia : inertia mEx rEx = ((0, 0, 0), (0, 2, 0), (0, 0, 2)) := by
  norm_num [inertia, inertiaTrace, outerSum, lsum, dot3, mEx, rEx]

theorem ex_angMom : angMom mEx rEx vEx = (0, 0, 2) := by
  norm_num [InitVel.angMom, sum3, smul3, cross, lsum, mEx, rEx, vEx]

/-- the contract of `solve` holds and the angular momentum to remove is not zero -/
theorem ex_solve : mulVec3 (inertia mEx rEx) (solveEx (inertia mEx rEx) (angMom mEx rEx vEx))
    = angMom mEx rEx vEx := by
  rw [ex_inertia, ex_angMom]; norm_num [mulVec3, dot3, solveEx]

example : angMom mEx rEx (removeAngular solveEx mEx rEx vEx) = (0, 0, 0) :=
  angular_momentum_removed solveEx mEx rEx vEx rfl rfl ex_solve

theorem ex_removeCom3_r : removeCom3 mEx rEx = rEx := by
  norm_num [removeCom3, removeCom, zip3, col1, col2, col3, dotm, lsum, mEx, rEx]

theorem ex_removeCom3_v : removeCom3 mEx vEx = vEx := by
  norm_num [removeCom3, removeCom, zip3, col1, col2, col3, dotm, lsum, mEx, vEx]

/-- `zero_com_spec`: the call succeeds on the example (the guard does not fire), so all
    hypotheses hold together -/
example : ∃ r' v', zeroCom Real.sqrt solveEx 1 true true true mEx rEx vEx = some (r', v') := by
  have hv2 : removeAngular solveEx mEx rEx vEx = [(1, 0, 0), (-1, 0, 0)] := by
    unfold removeAngular
    rw [ex_inertia, ex_angMom]
    norm_num [solveEx, sub3, cross, rEx, vEx]
  have hek1 : kineticEnergy3 (1 : ℝ) mEx [(1, 0, 0), (-1, 0, 0)] = 1 := by
    norm_num [kineticEnergy3, kineticEnergy, rep3, flatten3, lsum, mEx]
  unfold zeroCom
  simp only [if_true, ex_removeCom3_r, ex_removeCom3_v, hv2, hek1]
  rw [if_neg (by norm_num)]
  exact ⟨_, _, rfl⟩

/-- `init_velocity_exact_temperature`: a draw with positive kinetic energy -/
example : 0 < temperature (kineticEnergy (1 : ℝ) [1] (mbScale Real.sqrt 1 1 [1] [1])) 1 3 := by
  norm_num [temperature, kineticEnergy, mbScale, lsum]

/-- `linear_kept`: the example is already in its centre-of-mass frame -/
example : dotm mEx (col1 (removeAngular solveEx mEx rEx vEx)) = 0 :=
  (linear_kept solveEx mEx rEx vEx rfl rfl
    (by norm_num [dotm, lsum, col1, col2, col3, mEx, rEx])
    (by norm_num [dotm, lsum, col1, col2, col3, mEx, vEx])).1

/-- `ke_restored`: positive kinetic energy before the restoration -/
example : kineticEnergy (2 : ℝ) [1, 3] (restoreKE Real.sqrt 5 (kineticEnergy 2 [1, 3] [2, 1]) [2, 1]) = 5 :=
  (ke_restored 2 5 [1, 3] [2, 1] rfl (by norm_num) (by norm_num [kineticEnergy, lsum])).1

/-- `zero_com_spec`: every hypothesis holds on the diatomic example -/
example (r' v' : List (V3 ℝ))
    (hz : zeroCom Real.sqrt solveEx 1 true true true mEx rEx vEx = some (r', v')) :
    kineticEnergy3 1 mEx v' = kineticEnergy3 1 mEx vEx :=
  (zero_com_spec solveEx 1 true mEx rEx vEx r' v' rfl rfl (by norm_num [lsum, mEx])
    (by norm_num [kineticEnergy3, kineticEnergy, rep3, flatten3, lsum, mEx, vEx])
    (by rw [ex_removeCom3_r, ex_removeCom3_v]; exact ex_solve) hz).2.2.1

end examples
end C13
