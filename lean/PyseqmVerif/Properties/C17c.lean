import PyseqmVerif.Model.Util
/-!
# C17c — the hop loop of `SurfaceHoppingDynamics._after_electronic_update` uses each trajectory's OWN energy gap

```
hop_idx = torch.nonzero(hop_targets_t >= 0).squeeze(1)            # batch indices of the trajectories that attempt a hop
hop_targets_sel = hop_targets_t[hop_idx]                          # compact list, indexed by POSITION among the hoppers
for pos, mol in enumerate(hop_idx_list):
    target  = hop_targets_sel[pos]                                # position index
    exc_idx = self._active_states[mol]                            # batch index
    dE      = excitation_energies[mol, target] - excitation_energies[mol, exc_idx]     # batch index
```
Two index spaces (position among the hoppers / batch index) meet in one loop.  The model keeps both; the theorem says the gap
handed to the velocity rescaling for trajectory `mol` is a function of row `mol` of the energy table only (per-trajectory
isolation of C17).  The variant that gathers the gap by position (`excitation_energies[pos, …]`, a seeded slip) is shown to
differ on a concrete batch and to coincide with the code whenever the hoppers are exactly the first rows (so no single-trajectory
or all-hop test can see it).  Energies are integers (any fixed-point scale); core Lean only.
-/
namespace C17c

/-- `torch.nonzero(hop_targets_t >= 0)`: batch indices with a target -/
def hopIdx (targets : List Int) : List Nat :=
  (List.range targets.length).filter (fun m => decide (0 ≤ targets.getD m (-1)))

def entry (E : List (List Int)) (row col : Nat) : Int := (E.getD row []).getD col 0

/-- the code: `(mol, dE)` for every hopper, `dE` from row `mol` -/
def gaps (E : List (List Int)) (active : List Nat) (targets : List Int) : List (Nat × Int) :=
  (hopIdx targets).map (fun m => (m, entry E m (targets.getD m 0).toNat - entry E m (active.getD m 0)))

/-- the seeded variant: the gap gathered by POSITION among the hoppers -/
def gapsByPosition (E : List (List Int)) (active : List Nat) (targets : List Int) : List (Nat × Int) :=
  (hopIdx targets).zipIdx.map (fun (m, pos) => (m, entry E pos (targets.getD m 0).toNat - entry E pos (active.getD m 0)))

/-- **isolation**: the gap used for trajectory `m` depends on row `m` of the energy table only -/
theorem gap_depends_on_own_row (E E' : List (List Int)) (active : List Nat) (targets : List Int) (m : Nat) (d : Int)
    (hrow : E.getD m [] = E'.getD m []) (h : (m, d) ∈ gaps E active targets) : (m, d) ∈ gaps E' active targets := by
  simp only [gaps, List.mem_map] at h ⊢
  obtain ⟨m', hm', heq⟩ := h
  have hm : m' = m := by simpa using congrArg Prod.fst heq
  subst hm
  refine ⟨m', hm', ?_⟩
  rw [← heq]
  have hr : E'.getD m' [] = E.getD m' [] := hrow.symm
  simp only [entry, hr]

/-- every hopper gets exactly one gap, in batch order -/
theorem gaps_fst (E : List (List Int)) (active : List Nat) (targets : List Int) :
    (gaps E active targets).map Prod.fst = hopIdx targets := by
  simp [gaps, List.map_map, Function.comp_def]

/-- **witness**: trajectory 0 does not hop, trajectory 1 hops 0 → 1; the code uses trajectory 1's gap (7 − 5 = 2), the
position-gathered variant trajectory 0's (40 − 10 = 30) -/
theorem position_gather_witness :
    gaps [[10, 40], [5, 7]] [0, 0] [-1, 1] = [(1, 2)] ∧ gapsByPosition [[10, 40], [5, 7]] [0, 0] [-1, 1] = [(1, 30)] := by
  decide

/-- if the hoppers are exactly the first `k` rows, position and batch index coincide … -/
theorem hopIdx_prefix_zipIdx (k : Nat) (l : List Nat) (hl : l = List.range k) :
    ∀ p ∈ l.zipIdx, p.1 = p.2 := by
  subst hl
  intro p hp
  have := List.mem_zipIdx hp
  simp only [List.getElem_range, Nat.zero_add] at this
  omega

/-- … so the variant is **invisible** on such batches (all trajectories hop, or a single trajectory) -/
theorem position_gather_invisible_on_prefix (E : List (List Int)) (active : List Nat) (targets : List Int) (k : Nat)
    (h : hopIdx targets = List.range k) : gapsByPosition E active targets = gaps E active targets := by
  unfold gapsByPosition gaps
  have hz : ∀ p ∈ (hopIdx targets).zipIdx, p.1 = p.2 := hopIdx_prefix_zipIdx k (hopIdx targets) h
  have hmap : (hopIdx targets).map (fun m => (m, entry E m (targets.getD m 0).toNat - entry E m (active.getD m 0)))
      = (hopIdx targets).zipIdx.map (fun p => (p.1, entry E p.1 (targets.getD p.1 0).toNat - entry E p.1 (active.getD p.1 0))) := by
    have h1 := List.zipIdx_map_fst 0 (hopIdx targets)
    have h2 : (hopIdx targets).zipIdx.map (fun p => (p.1, entry E p.1 (targets.getD p.1 0).toNat - entry E p.1 (active.getD p.1 0)))
        = ((hopIdx targets).zipIdx.map Prod.fst).map (fun m => (m, entry E m (targets.getD m 0).toNat - entry E m (active.getD m 0))) := by
      rw [List.map_map]; rfl
    rw [h2, h1]
  rw [hmap]
  apply List.map_congr_left
  intro p hp
  have := hz p hp
  obtain ⟨m, pos⟩ := p
  simp only at this ⊢
  subst this
  rfl

example : hopIdx [0, 1, -1] = List.range 2 := by decide

end C17c
