import PyseqmVerif.Model.Davidson
import Mathlib.Analysis.InnerProductSpace.Spectrum
import Mathlib.Analysis.InnerProductSpace.PiL2
import Mathlib.LinearAlgebra.Matrix.Determinant.Basic
import Mathlib.Analysis.Real.Sqrt
import Mathlib.Tactic.Linarith
import Mathlib.Tactic.Ring
/-!
# C16 — CIS/RPA states are true eigenpairs

Proved here:
* `ritz_residual_bound` — symmetric `T`, unit `x`, residual `r = T x − θ x` ⇒ an eigenvalue of `T`
  lies within `‖r‖₂` of `θ` (what a small residual certifies); `residual_two_norm_le` converts the
  ∞-norm the code actually tests (`vector_norm(residual, ord=inf) > root_tol`) into the 2-norm:
  the certified distance is `√nov · root_tol`, not `root_tol`.
* `rayleigh_upper_bound` — the Rayleigh quotient of a unit vector lies between the extreme
  eigenvalues; in particular every Ritz value is ≥ λ_min (a skipped lowest root shows as an excess).
* `davidson_terminates` — the loop model returns or raises within `max_iter + 1` iterations and
  never leaves through its `while` condition.
* `returned_residuals_partial` — every molecule of a returned batch has all residuals ≤ tol
  **unless it left through the empty-expansion exit**; `empty_expansion_exit_witness` shows the
  exception is real: a molecule is marked done, and its amplitudes returned, with residual > tol.
* `rpa_le_cis_2x2` — single-excitation block: `ω_RPA = √((A−B)(A+B)) ≤ A = ω_CIS` when `|B| ≤ A`.

NOT proved (validated against dense diagonalisation by the harness): that the converged roots are
the *lowest* ones (needs Cauchy interlacing plus a completeness argument for the guess space),
independence of guess/history beyond what the residual bound gives, and `ω_RPA ≤ ω_CIS` for
general blocks.
-/
namespace C16

open scoped RealInnerProductSpace
open Finset

section spectral
variable {E : Type*} [NormedAddCommGroup E] [InnerProductSpace ℝ E] [FiniteDimensional ℝ E]
variable {n : ℕ}

/-- coefficients of `T x − θ x` in the eigenbasis -/
theorem residual_coeff (T : E →ₗ[ℝ] E) (hT : T.IsSymmetric) (hn : Module.finrank ℝ E = n)
    (x : E) (θ : ℝ) (i : Fin n) :
    ⟪hT.eigenvectorBasis hn i, T x - θ • x⟫ =
      (hT.eigenvalues hn i - θ) * ⟪hT.eigenvectorBasis hn i, x⟫ := by
  rw [inner_sub_right, inner_smul_right, ← hT (hT.eigenvectorBasis hn i) x,
    hT.apply_eigenvectorBasis hn i]
  simp only [RCLike.ofReal_real_eq_id, id_eq, inner_smul_left, conj_trivial]
  ring

/-- **C16 (1) residual bound** behind the Davidson stopping rule: for a symmetric operator, a unit
    vector `x` and a Ritz value `θ`, some eigenvalue lies within `‖T x − θ x‖` of `θ`. -/
theorem ritz_residual_bound (T : E →ₗ[ℝ] E) (hT : T.IsSymmetric) (hn : Module.finrank ℝ E = n)
    (x : E) (hx : ‖x‖ = 1) (θ : ℝ) :
    ∃ i : Fin n, |hT.eigenvalues hn i - θ| ≤ ‖T x - θ • x‖ := by
  by_contra hcon
  push Not at hcon
  set b := hT.eigenvectorBasis hn with hb
  set r := ‖T x - θ • x‖ with hr
  have hcoef : ∀ i, ⟪b i, T x - θ • x⟫ = (hT.eigenvalues hn i - θ) * ⟪b i, x⟫ :=
    fun i => residual_coeff T hT hn x θ i
  have h1 : ∑ i, ⟪b i, T x - θ • x⟫ ^ 2 = r ^ 2 := b.sum_sq_inner_right _
  have h2 : ∑ i, ⟪b i, x⟫ ^ 2 = 1 := by rw [b.sum_sq_inner_right, hx]; norm_num
  have hterm : ∀ i, r ^ 2 * ⟪b i, x⟫ ^ 2 ≤ ⟪b i, T x - θ • x⟫ ^ 2 := by
    intro i
    rw [hcoef i, mul_pow]
    have : r ^ 2 ≤ (hT.eigenvalues hn i - θ) ^ 2 := by
      have := hcon i
      rw [← sq_abs (hT.eigenvalues hn i - θ)]
      exact pow_le_pow_left₀ (norm_nonneg _) this.le 2
    exact mul_le_mul_of_nonneg_right this (sq_nonneg _)
  obtain ⟨j, hj⟩ : ∃ j, ⟪b j, x⟫ ≠ 0 := by
    by_contra hall
    push Not at hall
    have : ∑ i, ⟪b i, x⟫ ^ 2 = 0 := by simp [hall]
    rw [h2] at this; exact one_ne_zero this
  have hstrict : r ^ 2 * ⟪b j, x⟫ ^ 2 < ⟪b j, T x - θ • x⟫ ^ 2 := by
    rw [hcoef j, mul_pow]
    have hlt : r ^ 2 < (hT.eigenvalues hn j - θ) ^ 2 := by
      rw [← sq_abs (hT.eigenvalues hn j - θ)]
      exact pow_lt_pow_left₀ (hcon j) (norm_nonneg _) (by norm_num)
    exact mul_lt_mul_of_pos_right hlt (by positivity)
  have : ∑ i, r ^ 2 * ⟪b i, x⟫ ^ 2 < ∑ i, ⟪b i, T x - θ • x⟫ ^ 2 :=
    sum_lt_sum (fun i _ => hterm i) ⟨j, mem_univ j, hstrict⟩
  rw [← mul_sum, h2, h1, mul_one] at this
  exact lt_irrefl _ this

/-- the Rayleigh quotient in the eigenbasis: `⟪x, T x⟫ = Σ λ_i ⟪b_i, x⟫²` -/
theorem rayleigh_expansion (T : E →ₗ[ℝ] E) (hT : T.IsSymmetric) (hn : Module.finrank ℝ E = n)
    (x : E) :
    ⟪x, T x⟫ = ∑ i, hT.eigenvalues hn i * ⟪hT.eigenvectorBasis hn i, x⟫ ^ 2 := by
  set b := hT.eigenvectorBasis hn with hb
  rw [← b.sum_inner_mul_inner x (T x)]
  refine Finset.sum_congr rfl fun i _ => ?_
  have h := residual_coeff T hT hn x 0 i
  simp only [zero_smul, sub_zero] at h
  rw [← hb] at h
  rw [h, real_inner_comm x (b i)]
  ring

/-- **C16 (2) Rayleigh–Ritz bounds**: for a unit vector the Ritz value `⟪x, T x⟫` is at least some
    eigenvalue (hence ≥ λ_min) and at most some eigenvalue (hence ≤ λ_max). -/
theorem rayleigh_upper_bound (T : E →ₗ[ℝ] E) (hT : T.IsSymmetric) (hn : Module.finrank ℝ E = n)
    (x : E) (hx : ‖x‖ = 1) :
    (∃ i : Fin n, hT.eigenvalues hn i ≤ ⟪x, T x⟫) ∧ (∃ j : Fin n, ⟪x, T x⟫ ≤ hT.eigenvalues hn j) := by
  set b := hT.eigenvectorBasis hn with hb
  have h2 : ∑ i, ⟪b i, x⟫ ^ 2 = 1 := by rw [b.sum_sq_inner_right, hx]; norm_num
  have hexp := rayleigh_expansion T hT hn x
  rw [← hb] at hexp
  obtain ⟨k, hk⟩ : ∃ k, ⟪b k, x⟫ ≠ 0 := by
    by_contra hall
    push Not at hall
    have : ∑ i, ⟪b i, x⟫ ^ 2 = 0 := by simp [hall]
    rw [h2] at this; exact one_ne_zero this
  have hkpos : 0 < ⟪b k, x⟫ ^ 2 := by positivity
  constructor
  · by_contra hcon
    push Not at hcon
    have : ∑ i, ⟪x, T x⟫ * ⟪b i, x⟫ ^ 2 < ∑ i, hT.eigenvalues hn i * ⟪b i, x⟫ ^ 2 :=
      sum_lt_sum (fun i _ => mul_le_mul_of_nonneg_right (hcon i).le (sq_nonneg _))
        ⟨k, mem_univ k, mul_lt_mul_of_pos_right (hcon k) hkpos⟩
    rw [← mul_sum, h2, mul_one, ← hexp] at this
    exact lt_irrefl _ this
  · by_contra hcon
    push Not at hcon
    have : ∑ i, hT.eigenvalues hn i * ⟪b i, x⟫ ^ 2 < ∑ i, ⟪x, T x⟫ * ⟪b i, x⟫ ^ 2 :=
      sum_lt_sum (fun i _ => mul_le_mul_of_nonneg_right (hcon i).le (sq_nonneg _))
        ⟨k, mem_univ k, mul_lt_mul_of_pos_right (hcon k) hkpos⟩
    rw [← mul_sum, h2, mul_one, ← hexp] at this
    exact lt_irrefl _ this

/-- corollary in the form used for Ritz values: any lower bound of the spectrum bounds them -/
theorem ritz_value_ge_of_spectrum_ge (T : E →ₗ[ℝ] E) (hT : T.IsSymmetric)
    (hn : Module.finrank ℝ E = n) (x : E) (hx : ‖x‖ = 1) (m : ℝ)
    (hm : ∀ i, m ≤ hT.eigenvalues hn i) : m ≤ ⟪x, T x⟫ := by
  obtain ⟨i, hi⟩ := (rayleigh_upper_bound T hT hn x hx).1
  exact (hm i).trans hi

end spectral

/-- the code tests the ∞-norm of the residual; in the 2-norm of `ritz_residual_bound` that is
    `√N` times larger (N = `nov`) -/
theorem residual_two_norm_le {N : ℕ} (r : EuclideanSpace ℝ (Fin N)) (tol : ℝ) (htol : 0 ≤ tol)
    (h : ∀ i, |r i| ≤ tol) : ‖r‖ ≤ Real.sqrt N * tol := by
  rw [EuclideanSpace.norm_eq]
  have hsum : ∑ i, ‖r i‖ ^ 2 ≤ N * tol ^ 2 := by
    calc ∑ i, ‖r i‖ ^ 2 ≤ ∑ _i : Fin N, tol ^ 2 := by
          refine Finset.sum_le_sum fun i _ => ?_
          rw [Real.norm_eq_abs]
          exact pow_le_pow_left₀ (abs_nonneg _) (h i) 2
      _ = N * tol ^ 2 := by simp
  calc Real.sqrt (∑ i, ‖r i‖ ^ 2) ≤ Real.sqrt (N * tol ^ 2) := Real.sqrt_le_sqrt hsum
    _ = Real.sqrt N * tol := by
      rw [Real.sqrt_mul (Nat.cast_nonneg N), Real.sqrt_sq htol]

/-- non-vacuity of the spectral hypotheses: `T = diag(1, 3)` on `ℝ²`, `x = e₀`, `θ = 1` -/
example : ∃ (T : EuclideanSpace ℝ (Fin 2) →ₗ[ℝ] EuclideanSpace ℝ (Fin 2)) (x : EuclideanSpace ℝ (Fin 2)),
    T.IsSymmetric ∧ ‖x‖ = 1 ∧ T ≠ 0 := by
  refine ⟨LinearMap.id, EuclideanSpace.single 0 1, ?_, ?_, ?_⟩
  · intro a b; simp
  · simp
  · intro h
    have := congrArg (fun f => f (EuclideanSpace.single (0 : Fin 2) (1 : ℝ)) 0) h
    simp at this

/-! ## the Davidson loop -/
section davidson
open Davidson

/-- outcome is a return or a raise, after more than `start` and at most `max_iter + 1` iterations -/
def Terminated (c : Cfg) (start : Nat) : Outcome → Prop
  | .returned st => start < st.iter ∧ st.iter ≤ c.maxIter + 1 ∧ st.mols.all (·.done) = true
  | .raised _ st => start < st.iter ∧ st.iter ≤ c.maxIter + 1
  | .fellThrough _ => False
  | .outOfData _ => False

theorem Terminated.mono {c : Cfg} {a b : Nat} (h : a ≤ b) {o : Outcome} (ht : Terminated c b o) :
    Terminated c a o := by
  cases o with
  | returned st => exact ⟨by have := ht.1; omega, ht.2.1, ht.2.2⟩
  | raised e st => exact ⟨by have := ht.1; omega, ht.2⟩
  | fellThrough st => exact ht
  | outOfData st => exact ht

/-- **C16 (4a) termination**: started inside the loop bound with kernel data for the remaining
    iterations, the loop returns (all molecules done) or raises, within `max_iter + 1`
    iterations in total; the `while` condition is never the exit. -/
theorem davidson_terminates_aux (c : Cfg) (ds : List (List MolData)) :
    ∀ st : State, st.iter ≤ c.maxIter → c.maxIter + 1 ≤ st.iter + ds.length →
      Terminated c st.iter (run c st ds) := by
  induction ds with
  | nil => intro st h1 h2; simp at h2; omega
  | cons d ds ih =>
    intro st h1 h2
    simp only [run, h1, if_true]
    cases hm : molSteps c (st.iter + 1) st.mols d with
    | error e => simp only [Terminated]; omega
    | ok ms =>
      simp only
      by_cases hall : ms.all (·.done) = true
      · simp only [hall, if_true, Terminated]
        exact ⟨by omega, by omega, trivial⟩
      · simp only [hall, Bool.false_eq_true, if_false]
        by_cases hgt : st.iter + 1 > c.maxIter
        · simp only [hgt, if_true, Terminated]; omega
        · simp only [hgt, if_false]
          have := ih { iter := st.iter + 1, mols := ms } (by simp only; omega)
            (by simp only [List.length_cons] at h2 ⊢; omega)
          exact Terminated.mono (by simp) this

theorem davidson_terminates (c : Cfg) (nmol : Nat) (data : List (List MolData))
    (hdata : c.maxIter + 1 ≤ data.length) :
    Terminated c 0 (run c (init c nmol) data) :=
  davidson_terminates_aux c data (init c nmol) (Nat.zero_le _) (by simpa [init] using hdata)

/-- what is known about the amplitudes a molecule has stored -/
def Good (c : Cfg) (s : MolState) : Prop :=
  (s.done = true → ∃ r, s.stored = some r ∧ (s.viaEmpty = false → ∀ x ∈ r, x ≤ c.tol)) ∧
  (s.done = false → s.viaEmpty = false)

theorem filter_length_zero {l : List Nat} {t : Nat} (h : (l.filter (t < ·)).length = 0) :
    ∀ x ∈ l, x ≤ t := by
  intro x hx
  by_contra hlt
  have : x ∈ l.filter (t < ·) := List.mem_filter.2 ⟨hx, by simpa using Nat.lt_of_not_le hlt⟩
  rw [List.length_eq_zero_iff.1 h] at this
  simp at this

theorem molStep_good (c : Cfg) (iter : Nat) (s s' : MolState) (d : MolData)
    (hg : Good c s) (h : molStep c iter s d = .ok s') : Good c s' := by
  unfold molStep at h
  by_cases hd : s.done = true
  · simp only [hd, if_true, Except.ok.injEq] at h; subst h; exact hg
  · have hv : s.viaEmpty = false := hg.2 (by simpa using hd)
    simp only [hd, Bool.false_eq_true, if_false] at h
    by_cases hn : (d.resid.filter (c.tol < ·)).length = 0
    · simp only [hn, if_true, Except.ok.injEq] at h
      subst h
      exact ⟨fun _ => ⟨d.resid, rfl, fun _ => filter_length_zero hn⟩, by simp⟩
    · simp only [hn, if_false] at h
      split at h
      · cases h
      · split at h
        · simp only [Except.ok.injEq] at h; subst h
          exact ⟨fun _ => ⟨d.resid, rfl, by simp⟩, by simp⟩
        · simp only [Except.ok.injEq] at h; subst h
          refine ⟨?_, ?_⟩
          · intro hdone
            split at hdone <;> simp at hdone
          · intro _
            split <;> simp [hv]

theorem molSteps_good (c : Cfg) (iter : Nat) :
    ∀ (ss : List MolState) (ds : List MolData) (ss' : List MolState),
      (∀ s ∈ ss, Good c s) → molSteps c iter ss ds = .ok ss' → ∀ s ∈ ss', Good c s := by
  intro ss
  induction ss with
  | nil =>
    intro ds ss' _ h
    cases ds with
    | nil => simp only [molSteps, Except.ok.injEq] at h; subst h; simp
    | cons d ds => simp [molSteps] at h
  | cons s ss ih =>
    intro ds ss' hg h
    cases ds with
    | nil => simp [molSteps] at h
    | cons d ds =>
      simp only [molSteps] at h
      cases h1 : molStep c iter s d with
      | error e => simp [h1] at h
      | ok s1 =>
        cases h2 : molSteps c iter ss ds with
        | error e => simp [h1, h2] at h
        | ok ss1 =>
          simp only [h1, h2, Except.ok.injEq] at h
          subst h
          intro t ht
          rcases List.mem_cons.1 ht with rfl | ht
          · exact molStep_good c iter s _ d (hg s (List.mem_cons_self)) h1
          · exact ih ds ss1 (fun s hs => hg s (List.mem_cons_of_mem _ hs)) h2 t ht

theorem run_good (c : Cfg) (ds : List (List MolData)) :
    ∀ (st st' : State), (∀ s ∈ st.mols, Good c s) → run c st ds = .returned st' →
      ∀ s ∈ st'.mols, Good c s := by
  induction ds with
  | nil => intro st st' _ h; simp only [run] at h; split at h <;> cases h
  | cons d ds ih =>
    intro st st' hg h
    simp only [run] at h
    split at h
    · cases hm : molSteps c (st.iter + 1) st.mols d with
      | error e => simp [hm] at h
      | ok ms =>
        have hms := molSteps_good c _ _ _ _ hg hm
        simp only [hm] at h
        split at h
        · cases h; exact hms
        · split at h
          · cases h
          · exact ih _ _ hms h
    · cases h

/-- **C16 (4b), partial**: when the loop returns, every molecule is done and has stored amplitudes;
    their residuals are all ≤ tol — EXCEPT for molecules that left through the empty-expansion
    exit, about which nothing is guaranteed.
    (Full statement "all returned residuals ≤ tol" is false: `empty_expansion_exit_witness`.) -/
theorem returned_residuals_partial (c : Cfg) (nmol : Nat) (data : List (List MolData)) (st : State)
    (h : run c (init c nmol) data = .returned st) :
    ∀ s ∈ st.mols, ∃ r, s.stored = some r ∧ (s.viaEmpty = false → ∀ x ∈ r, x ≤ c.tol) := by
  have hinit : ∀ s ∈ (init c nmol).mols, Good c s := by
    intro s hs
    simp only [init, List.mem_replicate] at hs
    rw [hs.2]
    exact ⟨by simp, by simp⟩
  have hdone : st.mols.all (·.done) = true := by
    -- read off from the only place `returned` is produced
    have key : ∀ (ds : List (List MolData)) (s0 : State), run c s0 ds = .returned st →
        st.mols.all (·.done) = true := by
      intro ds
      induction ds with
      | nil => intro s0 h; simp only [run] at h; split at h <;> cases h
      | cons d ds ih =>
        intro s0 h
        simp only [run] at h
        split at h
        · cases hm : molSteps c (s0.iter + 1) s0.mols d with
          | error e => simp [hm] at h
          | ok ms =>
            simp only [hm] at h
            split at h
            · rename_i hall; cases h; exact hall
            · split at h
              · cases h
              · exact ih _ h
        · cases h
    exact key data _ h
  intro s hs
  have hg := run_good c data _ _ hinit h s hs
  exact hg.1 (by simpa using (List.all_eq_true.1 hdone) s hs)

/-- **C16 (4c) witness**: one molecule, one root, `tol = 10`.  In the first iteration the residual
    is 50 (> tol) but the correction vector does not survive orthogonalisation (`kept = 0`):
    the molecule is marked done through the "no new vectors" exit, the loop returns normally after
    one iteration, and the stored amplitudes have residual 50 > tol. -/
theorem empty_expansion_exit_witness :
    ∃ (c : Cfg) (data : List (List MolData)) (st : State),
      run c (init c 1) data = .returned st ∧ st.iter = 1 ∧
      ∃ s ∈ st.mols, s.done = true ∧ s.viaEmpty = true ∧ ∃ r, s.stored = some r ∧ ∃ x ∈ r, c.tol < x :=
  ⟨{ nroots := 1, nstart := 1, maxSub := 4, nov := 4, maxIter := 200, tol := 10 },
   [[{ resid := [50], kept := 0 }]], _, rfl, rfl, _, List.mem_cons_self, rfl, rfl, [50], rfl, 50,
   by simp, by decide⟩

/-- observable summary of an outcome: kind (0 returned, 1 maxiter, 2 other raise, 3 other),
    iteration count, final `vend`s, `viaEmpty` flags -/
def summary : Outcome → Nat × Nat × List Nat × List Bool
  | .returned st => (0, st.iter, st.mols.map (·.vend), st.mols.map (·.viaEmpty))
  | .raised .maxIter st => (1, st.iter, st.mols.map (·.vend), st.mols.map (·.viaEmpty))
  | .raised _ st => (2, st.iter, st.mols.map (·.vend), st.mols.map (·.viaEmpty))
  | .fellThrough st => (3, st.iter, [], [])
  | .outOfData st => (3, st.iter, [], [])

def cEx : Cfg := { nroots := 2, nstart := 2, maxSub := 6, nov := 6, maxIter := 3, tol := 10 }
def dataEx : List (List MolData) :=
  [[{ resid := [50, 60], kept := 2 }, { resid := [5, 70], kept := 1 }],
   [{ resid := [1, 2], kept := 0 }, { resid := [3, 4], kept := 0 }],
   [{ resid := [0, 0], kept := 0 }, { resid := [0, 0], kept := 0 }],
   [{ resid := [0, 0], kept := 0 }, { resid := [0, 0], kept := 0 }]]

/-- non-vacuity of `returned_residuals_partial`/`davidson_terminates`: a two-molecule run that
    converges in the ordinary way (second iteration), with a collapse-free expansion -/
example : cEx.maxIter + 1 ≤ dataEx.length ∧
    summary (run cEx (init cEx 2) dataEx) = (0, 2, [4, 3], [false, false]) := by
  decide

/-- the `max_iter` exit raises -/
example :
    summary (run { nroots := 1, nstart := 1, maxSub := 9, nov := 9, maxIter := 1, tol := 10 }
      (init { nroots := 1, nstart := 1, maxSub := 9, nov := 9, maxIter := 1, tol := 10 } 1)
      [[{ resid := [50], kept := 1 }], [{ resid := [40], kept := 1 }]]) = (1, 2, [3], [false]) := by
  decide

/-- a collapse: `maxSub = 3 < nov`, two unconverged roots on a subspace of 2 -/
example :
    summary (run { nroots := 2, nstart := 2, maxSub := 3, nov := 9, maxIter := 5, tol := 10 }
      (init { nroots := 2, nstart := 2, maxSub := 3, nov := 9, maxIter := 5, tol := 10 } 1)
      [[{ resid := [50, 60], kept := 2 }]]) = (2, 1, [2], [false]) := by
  decide

end davidson

/-! ## RPA vs CIS, single-excitation block -/

/-- **C16 (5)**: for one occupied–virtual pair the RPA matrix is `[[A, B], [−B, −A]]`; when
    `|B| ≤ A` (stable reference) `ω² = (A−B)(A+B) ≥ 0`, `ω = √((A−B)(A+B))` is an eigenvalue of the
    RPA matrix (root of its characteristic polynomial), and `ω ≤ A`, the CIS energy. -/
theorem rpa_le_cis_2x2 (A B : ℝ) (hB : |B| ≤ A) :
    0 ≤ (A - B) * (A + B) ∧
    Real.sqrt ((A - B) * (A + B)) ≤ A ∧
    (!![A, B; -B, -A] - Real.sqrt ((A - B) * (A + B)) • (1 : Matrix (Fin 2) (Fin 2) ℝ)).det = 0 := by
  have hA : 0 ≤ A := (abs_nonneg B).trans hB
  have hsq : B ^ 2 ≤ A ^ 2 := by
    have := sq_le_sq' (by linarith [neg_abs_le B, abs_nonneg B] : -A ≤ B) ((le_abs_self B).trans hB)
    exact this
  have h0 : 0 ≤ (A - B) * (A + B) := by nlinarith
  refine ⟨h0, ?_, ?_⟩
  · calc Real.sqrt ((A - B) * (A + B)) ≤ Real.sqrt (A ^ 2) := Real.sqrt_le_sqrt (by nlinarith)
      _ = A := Real.sqrt_sq hA
  · have hω := Real.sq_sqrt h0
    set ω := Real.sqrt ((A - B) * (A + B)) with hωdef
    simp only [Matrix.det_fin_two, Matrix.sub_apply, Matrix.smul_apply, Matrix.one_apply,
      Matrix.of_apply, Matrix.cons_val', Matrix.cons_val_zero, Matrix.cons_val_one,
      Matrix.empty_val', Matrix.cons_val_fin_one, smul_eq_mul]
    simp
    nlinarith [hω]

/-- non-vacuity: `A = 5, B = 3` gives `ω = 4 ≤ 5` -/
example : Real.sqrt ((5 - 3) * (5 + 3)) = 4 ∧ |(3 : ℝ)| ≤ 5 := by
  constructor
  · rw [show ((5 : ℝ) - 3) * (5 + 3) = 4 ^ 2 by norm_num]
    exact Real.sqrt_sq (by norm_num)
  · rw [abs_of_pos] <;> norm_num

end C16
