import PyseqmVerif.Proofs.MDOutLemmas
import PyseqmVerif.Generated.Cadence
/-!
# C11 — every output stream is written at exactly its own cadence

Statements about the executable model `MDOut` (which is diffed against the live Python code by the
driver) and about the AST translation `Generated.Cadence.nTimepoints` of
`HDF5Writer._n_timepoints`.
-/
namespace MDOut

/-! ## the specification `due` -/

theorem mem_due (e N s : Nat) : s ∈ due e N ↔ 0 < e ∧ s ≤ N ∧ s % e = 0 := by
  unfold due
  rw [List.mem_filter, List.mem_range, isDue_iff]
  constructor
  · rintro ⟨h1, h2, h3⟩; exact ⟨h2, by omega, h3⟩
  · rintro ⟨h1, h2, h3⟩; exact ⟨by omega, h1, h3⟩

/-- cadence 0 switches the stream off -/
theorem due_zero_cadence (N : Nat) : due 0 N = [] := by
  rw [due_eq_map, pre_zero_cadence]; rfl

theorem due_sorted (e N : Nat) : (due e N).Pairwise (· < ·) :=
  List.Pairwise.filter _ List.pairwise_lt_range

theorem due_length (e N : Nat) (he : 0 < e) : (due e N).length = N / e + 1 := by
  rw [due_length_pre, pre_pos he]

/-! ## capacity -/

/-- the pre-allocated capacity is exactly the number of due rows: no filler rows, none missing -/
theorem cap_eq_due_length (e N : Nat) : cap e N = (due e N).length := by
  rw [due_length_pre, cap_eq_pre]

/-- the model's `cap` is the AST translation of the real `HDF5Writer._n_timepoints` -/
theorem cap_eq_generated (e N : Nat) :
    Generated.Cadence.nTimepoints (N : Int) (e : Int) true = (cap e N : Int) := by
  unfold Generated.Cadence.nTimepoints cap
  rcases Nat.eq_zero_or_pos e with he | he
  · subst he; simp
  · have h1 : ¬ ((e : Int) ≤ 0) := by omega
    have h2 : e ≠ 0 := by omega
    simp only [h1, h2, if_false, if_true]
    rw [Int.fdiv_eq_ediv_of_nonneg _ (by omega), Int.natCast_ediv, Int.natCast_add]

/-! ## the run loop writes exactly the due rows -/

/-- one HDF5 stream of a fresh run: the rows on file are the records of the due steps, in order,
    and nothing else -/
theorem fresh_stream (e N : Nat) : (runSteps e 0 N (openFresh e N)).rows = specRows e N := by
  have h := runSteps_inv (openFresh_inv e N) N (by omega)
  rw [Nat.zero_add] at h
  exact h.good.eq_spec

/-- an uninterrupted run leaves exactly the specified disk: every one of the four HDF5 streams and
    the XYZ file at its own cadence, the checkpoint at the last due step -/
theorem uninterrupted_run (c : Cfg) : finalDisk c none [] = specDisk c := by
  show (segment c none none).1 = specDisk c
  rw [segment_eq]
  exact (startFresh_inv c).complete

/-- one screen line per due step, none for step 0 -/
theorem uninterrupted_screen (c : Cfg) : (segment c none none).2 = specScreen c := by
  rw [segment_eq]
  show (runTo c 0 (c.steps - 0) (startFresh c)).screen = specScreen c
  rw [runTo_screen c (startFresh c) rfl, Nat.sub_zero]
  rfl

/-! ## the historical defect: vector streams gated by the smallest vector cadence -/

/-- the run loop of one stream with an extra gate in front of the per-stream modulo test -/
def gatedRun (gate : Nat → Bool) (e : Nat) : Nat → SW → SW
  | 0, w => w
  | k+1, w => let w' := gatedRun gate e k w
              if gate (k + 1) then SW.step e w' (k + 1) else w'

/-- without a gate this is the model's run loop -/
theorem gatedRun_true (e : Nat) (w : SW) : ∀ k, gatedRun (fun _ => true) e k w = runSteps e 0 k w
  | 0 => rfl
  | k + 1 => by
    simp only [gatedRun, runSteps, if_true, Nat.zero_add]
    rw [gatedRun_true e w k]

/-- cadences (2,3,·): the velocities stream (cadence 3) gated by `min = 2` gets rows 0,6,12 and two
    never-written filler rows … -/
example : (gatedRun (fun s => s % 2 == 0) 3 12 (openFresh 3 12)).rows =
    [some 0, some 6, some 12, none, none] := by decide
/-- … while the specification asks for -/
example : due 3 12 = [0, 3, 6, 9, 12] := by decide
example : (gatedRun (fun s => s % 2 == 0) 3 12 (openFresh 3 12)).rows ≠ specRows 3 12 := by decide

/-! ## non-vacuity on a concrete configuration -/

example : specDisk (mkCfg 3 2 3 5 4 2 4 12) =
    { h5 := { data := [some 0, some 3, some 6, some 9, some 12]
              coords := [some 0, some 2, some 4, some 6, some 8, some 10, some 12]
              vels := [some 0, some 3, some 6, some 9, some 12]
              forces := [some 0, some 5, some 10] }
      xyz := [0, 4, 8, 12], ckpt := some (12, 4) } := by decide
example : finalDisk (mkCfg 3 2 3 5 4 2 4 12) none [] = specDisk (mkCfg 3 2 3 5 4 2 4 12) := by decide
example : (segment (mkCfg 3 2 3 5 4 2 4 12) none none).2 = [2, 4, 6, 8, 10, 12] := by decide
example : (runSteps 5 0 12 (openFresh 5 12)).rows = [some 0, some 5, some 10] := by decide
example : cap 5 12 = 3 ∧ cap 0 12 = 0 ∧ cap 13 12 = 1 := by decide
example : Generated.Cadence.nTimepoints 12 5 true = 3 := by decide

end MDOut
