import PyseqmVerif.Properties.C02
import PyseqmVerif.Proofs.Covariance

namespace C02b
open Rotation C02 Covariance Matrix

/-- unpacked 4-index tensor -/
noncomputable def W4 (ri : ℕ → ℝ) (F : M3 ℝ) (μ ν lam σ : Fin 4) : ℝ :=
  wElem ri (F.row 0) (F.row 1) (F.row 2) (max μ.val ν.val) (min μ.val ν.val) (max lam.val σ.val)
    (min lam.val σ.val)

def pairIdx (μ ν : Fin 4) : ℕ := max μ.val ν.val * (max μ.val ν.val + 1) / 2 + min μ.val ν.val

theorem combos_get : ∀ μ ν lam σ : Fin 4, combos[10 * pairIdx μ ν + pairIdx lam σ]?
    = some (max μ.val ν.val, min μ.val ν.val, max lam.val σ.val, min lam.val σ.val) := by
  decide

def frameV (F : M3 ℝ) (i : Fin 3) : ℝ := F.row 0 i.val
def frameD (F : M3 ℝ) (i j : Fin 3) : ℝ := projD (F.row 1) (F.row 2) i.val j.val

inductive PairKind
  | ss
  | sp (k : Fin 3)
  | pp (k l : Fin 3)

def pairKind (μ ν : Fin 4) : PairKind :=
  Fin.cases (motive := fun _ => PairKind)
    (Fin.cases (motive := fun _ => PairKind) .ss (fun l => .sp l) ν)
    (fun k => Fin.cases (motive := fun _ => PairKind) (.sp k) (fun l => .pp k l) ν) μ

/-- `(p_k p_l | p_m s)`-type (pair `k l`, single index `m`) -/
def f3' (a b c : ℝ) (v : Fin 3 → ℝ) (D : Fin 3 → Fin 3 → ℝ) (k l m : Fin 3) : ℝ :=
  a * (v k * v l * v m) + b * (D k l * v m) + c * (v k * D l m + v l * D k m)

noncomputable def W4idx (ri : ℕ → ℝ) (v : Fin 3 → ℝ) (D : Fin 3 → Fin 3 → ℝ) (μ ν lam σ : Fin 4) : ℝ :=
  match pairKind μ ν, pairKind lam σ with
  | .ss, .ss => ri 0
  | .ss, .sp m => f1 (ri 4) v m
  | .ss, .pp m n => f2 (ri 10) (ri 11) v D m n
  | .sp k, .ss => f1 (ri 1) v k
  | .sp k, .sp m => f2 (ri 5) (ri 6) v D k m
  | .sp k, .pp m n => f3 (ri 12) (ri 13) (ri 14) v D k m n
  | .pp k l, .ss => f2 (ri 2) (ri 3) v D k l
  | .pp k l, .sp m => f3' (ri 7) (ri 8) (ri 9) v D k l m
  | .pp k l, .pp m n => f4 (ri 15) (ri 16) (ri 17) (ri 18) (ri 19) (ri 20) v D k l m n

theorem maxmin_cases (a b : ℕ) : (max a b = a ∧ min a b = b) ∨ (max a b = b ∧ min a b = a) := by
  rcases le_total a b with h | h
  · exact Or.inr ⟨max_eq_right h, min_eq_left h⟩
  · exact Or.inl ⟨max_eq_left h, min_eq_right h⟩

theorem W4_eq_idx (ri : ℕ → ℝ) (hax : ri 21 = (1/2) * (ri 18 - ri 20)) (F : M3 ℝ) (μ ν lam σ : Fin 4) :
    W4 ri F μ ν lam σ = W4idx ri (frameV F) (frameD F) μ ν lam σ := by
  unfold W4
  rw [wElem_eq_poly _ _ _ _ hax]
  refine Fin.cases ?_ (fun k => ?_) μ <;> refine Fin.cases ?_ (fun l => ?_) ν <;>
    refine Fin.cases ?_ (fun m => ?_) lam <;> refine Fin.cases ?_ (fun n => ?_) σ
  all_goals simp [W4idx, pairKind, wElemPoly, frameV, frameD, f1, f2, f3, f3', f4]
  all_goals try (rcases maxmin_cases (k : ℕ) l with ⟨h1, h2⟩ | ⟨h1, h2⟩ <;> simp only [h1, h2])
  all_goals try (rcases maxmin_cases (m : ℕ) n with ⟨h3, h4⟩ | ⟨h3, h4⟩ <;> simp only [h3, h4])
  all_goals (simp only [projD]; ring)

theorem cov_f3' (R : Matrix (Fin 3) (Fin 3) ℝ) (v : Fin 3 → ℝ) (D : Fin 3 → Fin 3 → ℝ) (a b c : ℝ)
    (k l m : Fin 3) : f3' a b c (rot1 R v) (rot2 R D) k l m = rot3 R (f3' a b c v D) k l m := by
  simp only [f3', rot1, rot2, rot3, Fin.sum_univ_three]; ring

theorem W4idx_covariant (R : Matrix (Fin 3) (Fin 3) ℝ) (ri : ℕ → ℝ) (v : Fin 3 → ℝ) (D : Fin 3 → Fin 3 → ℝ)
    (μ ν lam σ : Fin 4) :
    W4idx ri (rot1 R v) (rot2 R D) μ ν lam σ = rot4 (orbRot R) (W4idx ri v D) μ ν lam σ := by
  unfold rot4
  refine Fin.cases ?_ (fun k => ?_) μ <;> refine Fin.cases ?_ (fun l => ?_) ν <;>
    refine Fin.cases ?_ (fun m => ?_) lam <;> refine Fin.cases ?_ (fun n => ?_) σ
  all_goals simp only [sum_orbRot_zero, sum_orbRot_succ]
  all_goals simp only [W4idx, pairKind, Fin.cases_zero, Fin.cases_succ]
  all_goals first
    | exact cov_f1 R v _ _ | exact cov_f2 R v D _ _ _ _ | exact cov_f3 R v D _ _ _ _ _ _
    | exact cov_f3' R v D _ _ _ _ _ _ | exact cov_f4 R v D _ _ _ _ _ _ _ _ _ _

end C02b
