import PyseqmVerif.Properties.C02
import PyseqmVerif.Proofs.Covariance
import Mathlib.LinearAlgebra.Matrix.Notation
/-!
# C02b — rotational covariance of the rotated two-centre two-electron integral block

The piece of C02 ("rotating the whole input geometry leaves every scalar result unchanged and rotates every
vector result") that `Properties/C02.lean` lists as *not proved*: the covariance
`w(R v) = (T⊗T) w(v) (T⊗T)ᵀ`, `T = diag(1, R)`, of the block `w[pair, :]` that `w_withquaternion`
(`seqm/seqm_functions/two_elec_two_center_int.py:1384–1574`, model `Rotation.wElem` / `Rotation.wRot`)
produces for a heavy–heavy pair.

Setting.  `ri` are the 22 local-frame integrals (functions of the distance only, which a rigid rotation
does not change).  The frame is `rot = rotate_with_quaternion(v)`, `v = −x̂_ij`; rotating the geometry by `R`
maps `v ↦ R v`.  The code stores the block packed: `w.view(-1, 10, 10)[pair, p(μ,ν), p(λ,σ)]` with
`p(μ,ν) = μ(μ+1)/2 + ν` for `μ ≥ ν` (lower triangle, `combos`), orbital index `0 = s`, `1,2,3 = p_x,p_y,p_z`.

Results (all for ANY orthogonal `R`, proper or improper: hypothesis `R ∈ Matrix.orthogonalGroup (Fin 3) ℝ`).

* `W4` — the unpacked tensor `(μν|λσ)`, read off the packed list by `wRot_getD`;
* `W4_eq_idx` — the index-notation closed form of all nine integral classes
  `(ss|ss) (ss|sp) (ss|pp) (sp|ss) (sp|sp) (sp|pp) (pp|ss) (pp|sp) (pp|pp)` in terms of the first frame row `v`
  and the transverse projector `D` (`W4idx`, forms `f1 f2 f3 f3' f4` of `Proofs/Covariance.lean`);
* `w4_covariant` / **`w_block_covariant`** — for two column-orthonormal frames whose first rows are `v` and
  `R v`:  `(μν|λσ)[R v] = Σ T_{μμ'} T_{νν'} T_{λλ'} T_{σσ'} (μ'ν'|λ'σ')[v]`, for all 256 index quadruples
  (ALL nine classes, nothing left out), on `W4` and on the packed `wRot` lists respectively;
* `w_block_covariant_code` — the same for the frames the code actually builds (`C02.rotR`), under the
  regular-chart hypotheses `eps ≤ |1 + v_x|`, `eps ≤ |1 + (R v)_x|` (outside the F2 cone, see C02);
  `w_block_covariant_two_chart` — for the repaired frame `C02.rotR2` and every unit vector;
* `two_center_coulomb_energy_invariant`, `coulomb_matrix_covariant`, `core_electron_attraction_covariant`;
* `w_block_covariant_needs_axial_identity` — the hypothesis `ri[21] = ½ (ri[18] − ri[20])` cannot be dropped;
  `w_block_not_invariant` — the block really changes under rotation (covariance is not invariance).
-/

namespace C02b
open Rotation C02 Covariance Matrix

/-! ## the unpacked tensor and the packing of `wRot` -/

/-- `(μν|λσ)` of a heavy–heavy pair for the frame `F`: the code evaluates `wElem` only for the sorted pairs
    `kk ≥ ll`, `mm ≥ nn` (`combos`) and relies on the symmetry `(μν| = (νμ|`; for unsorted arguments `wElem`
    is NOT symmetric (its `kk = 0` branch ignores `ll`), hence the explicit `max`/`min`. -/
noncomputable def W4 (ri : ℕ → ℝ) (F : M3 ℝ) (μ ν lam σ : Fin 4) : ℝ :=
  wElem ri (F.row 0) (F.row 1) (F.row 2) (max μ.val ν.val) (min μ.val ν.val) (max lam.val σ.val)
    (min lam.val σ.val)

/-- packed index of the symmetric pair `{μ, ν}`: `a(a+1)/2 + b`, `a = max`, `b = min` -/
def pairIdx (μ ν : Fin 4) : ℕ := max μ.val ν.val * (max μ.val ν.val + 1) / 2 + min μ.val ν.val

/-- position `10·p(μ,ν) + p(λ,σ)` of `combos` holds the sorted quadruple -/
theorem combos_get : ∀ μ ν lam σ : Fin 4, combos[10 * pairIdx μ ν + pairIdx lam σ]?
    = some (max μ.val ν.val, min μ.val ν.val, max lam.val σ.val, min lam.val σ.val) := by
  decide

/-- `W4` is exactly what is stored in the packed list `w[pair, :]` (`w.view(-1,10,10)[p(μ,ν), p(λ,σ)]`) -/
theorem wRot_getD (ri : ℕ → ℝ) (F : M3 ℝ) (μ ν lam σ : Fin 4) :
    (wRot ri F).getD (10 * pairIdx μ ν + pairIdx lam σ) 0 = W4 ri F μ ν lam σ := by
  rw [List.getD_eq_getElem?_getD]
  simp only [wRot, List.getElem?_map, combos_get]
  rfl

/-- the block has `10 × 10` entries, so every index `10·p(μ,ν) + p(λ,σ) ≤ 99` is in range -/
theorem wRot_length (ri : ℕ → ℝ) (F : M3 ℝ) : (wRot ri F).length = 100 := by
  simp only [wRot, List.length_map]; decide

theorem W4_symm_left (ri : ℕ → ℝ) (F : M3 ℝ) (μ ν lam σ : Fin 4) : W4 ri F μ ν lam σ = W4 ri F ν μ lam σ := by
  simp only [W4, max_comm μ.val, min_comm μ.val]

theorem W4_symm_right (ri : ℕ → ℝ) (F : M3 ℝ) (μ ν lam σ : Fin 4) : W4 ri F μ ν lam σ = W4 ri F μ ν σ lam := by
  simp only [W4, max_comm lam.val, min_comm lam.val]

/-! ## index notation: the nine classes -/

/-- first row of the frame as a Cartesian vector -/
def frameV (F : M3 ℝ) (i : Fin 3) : ℝ := F.row 0 i.val

/-- transverse projector `r1 r1ᵀ + r2 r2ᵀ` of the frame -/
def frameD (F : M3 ℝ) (i j : Fin 3) : ℝ := projD (F.row 1) (F.row 2) i.val j.val

/-- kind of an orbital pair: `(s s)`, `(s p_k)` / `(p_k s)`, `(p_k p_l)` -/
inductive PairKind
  | ss
  | sp (k : Fin 3)
  | pp (k l : Fin 3)

def pairKind (μ ν : Fin 4) : PairKind :=
  Fin.cases (motive := fun _ => PairKind)
    (Fin.cases (motive := fun _ => PairKind) .ss (fun l => .sp l) ν)
    (fun k => Fin.cases (motive := fun _ => PairKind) (.sp k) (fun l => .pp k l) ν) μ

/-- `(p_k p_l | p_m s)`-type (pair `k l`, single index `m`): `a v_k v_l v_m + b D_kl v_m + c (v_k D_lm + v_l D_km)` -/
def f3' (a b c : ℝ) (v : Fin 3 → ℝ) (D : Fin 3 → Fin 3 → ℝ) (k l m : Fin 3) : ℝ :=
  a * (v k * v l * v m) + b * (D k l * v m) + c * (v k * D l m + v l * D k m)

/-- **Index-notation form of the whole block**: by the number of `p` indices on each side,
```
(ss|ss)           = ri0
(ss|s p_m)        = ri4 v_m                          (s p_k|ss)   = ri1 v_k
(ss|p_m p_n)      = ri10 v_m v_n + ri11 D_mn         (p_k p_l|ss) = ri2 v_k v_l + ri3 D_kl
(s p_k|s p_m)     = ri5 v_k v_m + ri6 D_km
(s p_k|p_m p_n)   = ri12 v_k v_m v_n + ri13 D_mn v_k + ri14 (D_kn v_m + D_km v_n)
(p_k p_l|s p_m)   = ri7 v_k v_l v_m + ri8 D_kl v_m + ri9 (v_k D_lm + v_l D_km)
(p_k p_l|p_m p_n) = ri15 v_k v_l v_m v_n + ri16 D_kl v_m v_n + ri17 D_mn v_k v_l
                    + ri19 (v_k v_m D_ln + v_k v_n D_lm + v_l v_m D_kn + v_l v_n D_km)
                    + ri20 D_kl D_mn + ½ (ri18 − ri20) (D_km D_ln + D_kn D_lm)
``` -/
noncomputable def W4idx (ri : ℕ → ℝ) (v : Fin 3 → ℝ) (D : Fin 3 → Fin 3 → ℝ) (μ ν lam σ : Fin 4) : ℝ :=
  match pairKind μ ν, pairKind lam σ with
  | .ss, .ss => ri 0
  | .ss, .sp m => f1 (ri 4) v m
  | .ss, .pp m n => f2 (ri 10) (ri 11) v D m n
  | .sp k, .ss => f1 (ri 1) v k
  | .sp k, .sp m => f2 (ri 5) (ri 6) v D k m
  | .sp k, .pp m n => f3 (ri 12) (ri 13) (ri 14) v D k m n
  | .pp k l, .ss => f2 (ri 2) (ri 3) v D k l
  | .pp k l, .sp m => f3' (ri 7) (ri 8) (ri 9) v D k l m
  | .pp k l, .pp m n => f4 (ri 15) (ri 16) (ri 17) (ri 18) (ri 19) (ri 20) v D k l m n

theorem maxmin_cases (a b : ℕ) : (max a b = a ∧ min a b = b) ∨ (max a b = b ∧ min a b = a) := by
  rcases le_total a b with h | h
  · exact Or.inr ⟨max_eq_right h, min_eq_left h⟩
  · exact Or.inl ⟨max_eq_left h, min_eq_right h⟩

/-- all 256 unpacked entries of the model's block have the index-notation form (any frame `F`; only the axial
    identity of the local-frame integrals is used) -/
theorem W4_eq_idx (ri : ℕ → ℝ) (hax : ri 21 = (1/2) * (ri 18 - ri 20)) (F : M3 ℝ) (μ ν lam σ : Fin 4) :
    W4 ri F μ ν lam σ = W4idx ri (frameV F) (frameD F) μ ν lam σ := by
  unfold W4
  rw [wElem_eq_poly _ _ _ _ hax]
  refine Fin.cases ?_ (fun k => ?_) μ <;> refine Fin.cases ?_ (fun l => ?_) ν <;>
    refine Fin.cases ?_ (fun m => ?_) lam <;> refine Fin.cases ?_ (fun n => ?_) σ
  all_goals simp [W4idx, pairKind, wElemPoly, frameV, frameD, f1, f2, f3, f3', f4]
  all_goals try (rcases maxmin_cases (k : ℕ) l with ⟨h1, h2⟩ | ⟨h1, h2⟩ <;> simp only [h1, h2])
  all_goals try (rcases maxmin_cases (m : ℕ) n with ⟨h3, h4⟩ | ⟨h3, h4⟩ <;> simp only [h3, h4])
  all_goals (simp only [projD]; ring)

/-- for a frame with orthonormal columns the projector is `δ − v vᵀ` -/
theorem frameD_eq_transverse (F : M3 ℝ) (hc : ColsOrthonormal F) (i j : Fin 3) :
    frameD F i j = transverse (frameV F) i j := by
  obtain ⟨c1, c2, c3, c4, c5, c6⟩ := hc
  fin_cases i <;> fin_cases j <;> simp [frameD, frameV, projD, transverse, M3.row, M3.get] <;> linarith

theorem frameV_eq (F : M3 ℝ) (v : Fin 3 → ℝ) (h : Row0Is F (v 0) (v 1) (v 2)) : frameV F = v := by
  obtain ⟨h0, h1, h2⟩ := h
  funext i
  fin_cases i <;> simp [frameV, M3.row, M3.get, h0, h1, h2]

/-! ## covariance of the index-notation form -/

theorem cov_f3' (R : Matrix (Fin 3) (Fin 3) ℝ) (v : Fin 3 → ℝ) (D : Fin 3 → Fin 3 → ℝ) (a b c : ℝ)
    (k l m : Fin 3) : f3' a b c (rot1 R v) (rot2 R D) k l m = rot3 R (f3' a b c v D) k l m := by
  simp only [f3', rot1, rot2, rot3, Fin.sum_univ_three]; ring

/-- a tensor assembled from a covariant vector `v` and a covariant 2-tensor `D` is covariant under
    `T(R) = diag(1, R)` — any matrix `R`, no orthogonality needed here: nine classes, sixteen index patterns -/
theorem W4idx_covariant (R : Matrix (Fin 3) (Fin 3) ℝ) (ri : ℕ → ℝ) (v : Fin 3 → ℝ) (D : Fin 3 → Fin 3 → ℝ)
    (μ ν lam σ : Fin 4) :
    W4idx ri (rot1 R v) (rot2 R D) μ ν lam σ = rot4 (orbRot R) (W4idx ri v D) μ ν lam σ := by
  unfold rot4
  refine Fin.cases ?_ (fun k => ?_) μ <;> refine Fin.cases ?_ (fun l => ?_) ν <;>
    refine Fin.cases ?_ (fun m => ?_) lam <;> refine Fin.cases ?_ (fun n => ?_) σ
  all_goals simp only [sum_orbRot_zero, sum_orbRot_succ]
  all_goals simp only [W4idx, pairKind, Fin.cases_zero, Fin.cases_succ]
  all_goals first
    | exact cov_f1 R v _ _ | exact cov_f2 R v D _ _ _ _ | exact cov_f3 R v D _ _ _ _ _ _
    | exact cov_f3' R v D _ _ _ _ _ _ | exact cov_f4 R v D _ _ _ _ _ _ _ _ _ _

/-! ## the main theorem -/

/-- nested form on the unpacked tensor -/
theorem w4_covariant_nested (ri : ℕ → ℝ) (hax : ri 21 = (1/2) * (ri 18 - ri 20))
    (R : Matrix (Fin 3) (Fin 3) ℝ) (hR : R ∈ Matrix.orthogonalGroup (Fin 3) ℝ) (v : Fin 3 → ℝ)
    (F F' : M3 ℝ) (hc : ColsOrthonormal F) (hc' : ColsOrthonormal F')
    (h0 : Row0Is F (v 0) (v 1) (v 2)) (h0' : Row0Is F' ((R *ᵥ v) 0) ((R *ᵥ v) 1) ((R *ᵥ v) 2)) :
    W4 ri F' = rot4 (orbRot R) (W4 ri F) := by
  have hRR : R * Rᵀ = 1 := (Matrix.mem_orthogonalGroup_iff (Fin 3) ℝ).mp hR
  have hv : frameV F = v := frameV_eq F v h0
  have hv' : frameV F' = rot1 R v := by rw [frameV_eq F' (R *ᵥ v) h0']; rfl
  have hD : frameD F = transverse v := by
    funext i j; rw [frameD_eq_transverse F hc, hv]
  have hD' : frameD F' = rot2 R (transverse v) := by
    funext i j; rw [frameD_eq_transverse F' hc', hv', cov_transverse R v hRR]
  have hW : W4 ri F = W4idx ri v (transverse v) := by
    funext a b c d; rw [W4_eq_idx ri hax, hv, hD]
  funext μ ν lam σ
  rw [W4_eq_idx ri hax, hv', hD', hW]
  exact W4idx_covariant R ri v _ μ ν lam σ

/-- **Covariance of the unpacked tensor** (all nine classes, all 256 entries):
    `(μν|λσ)[R v] = Σ_{μ'ν'λ'σ'} T_{μμ'} T_{νν'} T_{λλ'} T_{σσ'} (μ'ν'|λ'σ')[v]`, `T = diag(1, R)`.

`F`, `F'` are ANY two frames with orthonormal columns whose first rows are `v` and `R v` (so `v` is a unit
vector); `R` is any orthogonal matrix, `det R = ±1`. -/
theorem w4_covariant (ri : ℕ → ℝ) (hax : ri 21 = (1/2) * (ri 18 - ri 20))
    (R : Matrix (Fin 3) (Fin 3) ℝ) (hR : R ∈ Matrix.orthogonalGroup (Fin 3) ℝ) (v : Fin 3 → ℝ)
    (F F' : M3 ℝ) (hc : ColsOrthonormal F) (hc' : ColsOrthonormal F')
    (h0 : Row0Is F (v 0) (v 1) (v 2)) (h0' : Row0Is F' ((R *ᵥ v) 0) ((R *ᵥ v) 1) ((R *ᵥ v) 2))
    (μ ν lam σ : Fin 4) :
    W4 ri F' μ ν lam σ
      = ∑ a, ∑ b, ∑ c, ∑ d, orbRot R μ a * orbRot R ν b * orbRot R lam c * orbRot R σ d * W4 ri F a b c d := by
  rw [w4_covariant_nested ri hax R hR v F F' hc hc' h0 h0', rot4_flat]

/-- **C02b main theorem, on the model's packed 10×10 block** `wRot` (= `w[pair, :]`): entry
    `10·p(μ,ν) + p(λ,σ)` of the block computed for the rotated bond direction `R v` is the rank-(2,2) tensor
    transform of the block computed for `v`. -/
theorem w_block_covariant (ri : ℕ → ℝ) (hax : ri 21 = (1/2) * (ri 18 - ri 20))
    (R : Matrix (Fin 3) (Fin 3) ℝ) (hR : R ∈ Matrix.orthogonalGroup (Fin 3) ℝ) (v : Fin 3 → ℝ)
    (F F' : M3 ℝ) (hc : ColsOrthonormal F) (hc' : ColsOrthonormal F')
    (h0 : Row0Is F (v 0) (v 1) (v 2)) (h0' : Row0Is F' ((R *ᵥ v) 0) ((R *ᵥ v) 1) ((R *ᵥ v) 2))
    (μ ν lam σ : Fin 4) :
    (wRot ri F').getD (10 * pairIdx μ ν + pairIdx lam σ) 0
      = ∑ a, ∑ b, ∑ c, ∑ d, orbRot R μ a * orbRot R ν b * orbRot R lam c * orbRot R σ d
          * (wRot ri F).getD (10 * pairIdx a b + pairIdx c d) 0 := by
  simp only [wRot_getD]
  exact w4_covariant ri hax R hR v F F' hc hc' h0 h0' μ ν lam σ

/-! ### for the frames the code builds -/

/-- an orthogonal matrix maps unit vectors to unit vectors -/
theorem mulVec_unit (R : Matrix (Fin 3) (Fin 3) ℝ) (hR : R ∈ Matrix.orthogonalGroup (Fin 3) ℝ) (v : Fin 3 → ℝ)
    (hu : v 0 * v 0 + v 1 * v 1 + v 2 * v 2 = 1) :
    (R *ᵥ v) 0 * (R *ᵥ v) 0 + (R *ᵥ v) 1 * (R *ᵥ v) 1 + (R *ᵥ v) 2 * (R *ᵥ v) 2 = 1 := by
  have hRR : Rᵀ * R = 1 := (Matrix.mem_orthogonalGroup_iff' (Fin 3) ℝ).mp hR
  have e : ∀ i j : Fin 3, R 0 i * R 0 j + R 1 i * R 1 j + R 2 i * R 2 j = if i = j then 1 else 0 := by
    intro i j
    have h := congrFun (congrFun hRR i) j
    simpa [Matrix.mul_apply, Fin.sum_univ_three, Matrix.one_apply] using h
  have e00 := e 0 0; have e11 := e 1 1; have e22 := e 2 2
  have e01 := e 0 1; have e02 := e 0 2; have e12 := e 1 2
  simp only [Fin.isValue, if_true] at e00 e11 e22
  simp only [Fin.isValue, Fin.reduceEq, if_false] at e01 e02 e12
  simp only [Matrix.mulVec, dotProduct, Fin.sum_univ_three]
  linear_combination hu + (v 0 * v 0) * e00 + (v 1 * v 1) * e11 + (v 2 * v 2) * e22
    + (2 * v 0 * v 1) * e01 + (2 * v 0 * v 2) * e02 + (2 * v 1 * v 2) * e12

/-- **The code as it stands** (`C02.rotR` = `rotate_with_quaternion` at `ℝ`): for a unit bond direction `v`
    such that neither `v` nor `R v` lies in the antipodal branch (known defect F2, see `C02`), the packed
    block transforms covariantly. -/
theorem w_block_covariant_code (ri : ℕ → ℝ) (hax : ri 21 = (1/2) * (ri 18 - ri 20))
    (R : Matrix (Fin 3) (Fin 3) ℝ) (hR : R ∈ Matrix.orthogonalGroup (Fin 3) ℝ) (eps : ℝ) (heps : 0 < eps)
    (v : Fin 3 → ℝ) (hu : v 0 * v 0 + v 1 * v 1 + v 2 * v 2 = 1)
    (hchart : eps ≤ |1 + v 0|) (hchart' : eps ≤ |1 + (R *ᵥ v) 0|) (μ ν lam σ : Fin 4) :
    (wRot ri (rotR eps ((R *ᵥ v) 0) ((R *ᵥ v) 1) ((R *ᵥ v) 2))).getD (10 * pairIdx μ ν + pairIdx lam σ) 0
      = ∑ a, ∑ b, ∑ c, ∑ d, orbRot R μ a * orbRot R ν b * orbRot R lam c * orbRot R σ d
          * (wRot ri (rotR eps (v 0) (v 1) (v 2))).getD (10 * pairIdx a b + pairIdx c d) 0 :=
  w_block_covariant ri hax R hR v _ _ (rot_orthonormal eps _ _ _ heps hchart).2
    (rot_orthonormal eps _ _ _ heps hchart').2 (rot_row0 eps _ _ _ heps hu hchart)
    (rot_row0 eps _ _ _ heps (mulVec_unit R hR v hu) hchart') μ ν lam σ

/-- **The repaired two-chart frame** (`C02.rotR2`, DESIGN Appendix C.12 — not the code in /repo): covariance
    for EVERY unit vector and every orthogonal `R`. -/
theorem w_block_covariant_two_chart (ri : ℕ → ℝ) (hax : ri 21 = (1/2) * (ri 18 - ri 20))
    (R : Matrix (Fin 3) (Fin 3) ℝ) (hR : R ∈ Matrix.orthogonalGroup (Fin 3) ℝ) (eps : ℝ) (heps : 0 < eps)
    (heps1 : eps ≤ 1) (v : Fin 3 → ℝ) (hu : v 0 * v 0 + v 1 * v 1 + v 2 * v 2 = 1) (μ ν lam σ : Fin 4) :
    (wRot ri (rotR2 eps ((R *ᵥ v) 0) ((R *ᵥ v) 1) ((R *ᵥ v) 2))).getD (10 * pairIdx μ ν + pairIdx lam σ) 0
      = ∑ a, ∑ b, ∑ c, ∑ d, orbRot R μ a * orbRot R ν b * orbRot R lam c * orbRot R σ d
          * (wRot ri (rotR2 eps (v 0) (v 1) (v 2))).getD (10 * pairIdx a b + pairIdx c d) 0 := by
  obtain ⟨_, hc, _, h0⟩ := two_chart_rotation_total eps (v 0) (v 1) (v 2) heps heps1 hu
  obtain ⟨_, hc', _, h0'⟩ := two_chart_rotation_total eps _ _ _ heps heps1 (mulVec_unit R hR v hu)
  exact w_block_covariant ri hax R hR v _ _ hc hc' h0 h0' μ ν lam σ

/-! ## corollaries -/

/-- **Coulomb matrix**: `J_{λσ} = Σ_{μν} P^A_{μν} (μν|λσ)` (`J_A = (PA * w).sum(dim=1)` in
    `fock.py::_two_center`) built from the covariantly transformed density `T P^A Tᵀ` and the block of the
    rotated geometry is `T J Tᵀ`. -/
theorem coulomb_matrix_covariant (ri : ℕ → ℝ) (hax : ri 21 = (1/2) * (ri 18 - ri 20))
    (R : Matrix (Fin 3) (Fin 3) ℝ) (hR : R ∈ Matrix.orthogonalGroup (Fin 3) ℝ) (v : Fin 3 → ℝ)
    (F F' : M3 ℝ) (hc : ColsOrthonormal F) (hc' : ColsOrthonormal F')
    (h0 : Row0Is F (v 0) (v 1) (v 2)) (h0' : Row0Is F' ((R *ᵥ v) 0) ((R *ᵥ v) 1) ((R *ᵥ v) 2))
    (PA : Matrix (Fin 4) (Fin 4) ℝ) :
    coulombJ (W4 ri F') (orbRot R * PA * (orbRot R)ᵀ) = orbRot R * coulombJ (W4 ri F) PA * (orbRot R)ᵀ := by
  rw [w4_covariant_nested ri hax R hR v F F' hc hc' h0 h0']
  exact coulombJ_covariant _ (orbRot_transpose_mul R ((Matrix.mem_orthogonalGroup_iff (Fin 3) ℝ).mp hR)) _ _

/-- **Two-centre Coulomb energy**: for one-centre density blocks transformed covariantly
    (`P^A ↦ T P^A Tᵀ`, `P^B ↦ T P^B Tᵀ`) the contraction `Σ P^A_{μν} (μν|λσ) P^B_{λσ}` is invariant. -/
theorem two_center_coulomb_energy_invariant (ri : ℕ → ℝ) (hax : ri 21 = (1/2) * (ri 18 - ri 20))
    (R : Matrix (Fin 3) (Fin 3) ℝ) (hR : R ∈ Matrix.orthogonalGroup (Fin 3) ℝ) (v : Fin 3 → ℝ)
    (F F' : M3 ℝ) (hc : ColsOrthonormal F) (hc' : ColsOrthonormal F')
    (h0 : Row0Is F (v 0) (v 1) (v 2)) (h0' : Row0Is F' ((R *ᵥ v) 0) ((R *ᵥ v) 1) ((R *ᵥ v) 2))
    (PA PB : Matrix (Fin 4) (Fin 4) ℝ) :
    ∑ μ, ∑ ν, ∑ lam, ∑ σ, (orbRot R * PA * (orbRot R)ᵀ) μ ν * W4 ri F' μ ν lam σ
        * (orbRot R * PB * (orbRot R)ᵀ) lam σ
      = ∑ μ, ∑ ν, ∑ lam, ∑ σ, PA μ ν * W4 ri F μ ν lam σ * PB lam σ := by
  rw [coulomb_energy_flat, coulomb_energy_flat, w4_covariant_nested ri hax R hR v F F' hc hc' h0 h0']
  exact coulomb_energy_invariant _ (orbRot_transpose_mul R ((Matrix.mem_orthogonalGroup_iff (Fin 3) ℝ).mp hR)) _ _ _

/-- **Core–electron attraction**: the `(μν|ss)` column and the `(ss|λσ)` row of the block — in the code
    `e1b[ν,μ] = −tore[nj]·w_[p(μ,ν), 0]`, `e2a[σ,λ] = −tore[ni]·w_[0, p(λ,σ)]` (`ZB`, `ZA` are the core
    charges) — transform as rank-2 tensors `T · Tᵀ`, so the one-electron matrix contribution is covariant. -/
theorem core_electron_attraction_covariant (ri : ℕ → ℝ) (hax : ri 21 = (1/2) * (ri 18 - ri 20))
    (R : Matrix (Fin 3) (Fin 3) ℝ) (hR : R ∈ Matrix.orthogonalGroup (Fin 3) ℝ) (v : Fin 3 → ℝ)
    (F F' : M3 ℝ) (hc : ColsOrthonormal F) (hc' : ColsOrthonormal F')
    (h0 : Row0Is F (v 0) (v 1) (v 2)) (h0' : Row0Is F' ((R *ᵥ v) 0) ((R *ᵥ v) 1) ((R *ᵥ v) 2))
    (ZA ZB : ℝ) :
    (Matrix.of fun μ ν => -ZB * W4 ri F' μ ν 0 0)
        = orbRot R * (Matrix.of fun μ ν => -ZB * W4 ri F μ ν 0 0) * (orbRot R)ᵀ ∧
    (Matrix.of fun lam σ => -ZA * W4 ri F' 0 0 lam σ)
        = orbRot R * (Matrix.of fun lam σ => -ZA * W4 ri F 0 0 lam σ) * (orbRot R)ᵀ := by
  have hW := w4_covariant_nested ri hax R hR v F F' hc hc' h0 h0'
  constructor
  · ext μ ν
    rw [← rot2_eq_conj, hW]
    simp only [Matrix.of_apply, rot4, rot2, sum_orbRot_zero]
    simp only [Finset.mul_sum]
    refine Finset.sum_congr rfl fun a _ => Finset.sum_congr rfl fun b _ => ?_
    ring
  · ext lam σ
    rw [← rot2_eq_conj, hW]
    simp only [Matrix.of_apply, rot4, rot2, sum_orbRot_zero]
    simp only [Finset.mul_sum]
    refine Finset.sum_congr rfl fun a _ => Finset.sum_congr rfl fun b _ => ?_
    ring

/-! ## non-vacuity and sharpness -/

/-- the (3,4,5)-triangle rotation about `z` (proper) -/
noncomputable def R345 : Matrix (Fin 3) (Fin 3) ℝ := !![3/5, -4/5, 0; 4/5, 3/5, 0; 0, 0, 1]

/-- the quarter turn about `z` (proper): `x ↦ y` -/
noncomputable def Rz90 : Matrix (Fin 3) (Fin 3) ℝ := !![0, -1, 0; 1, 0, 0; 0, 0, 1]

/-- the mirror `x ↔ y` (improper, `det = −1`) -/
noncomputable def Mxy : Matrix (Fin 3) (Fin 3) ℝ := !![0, 1, 0; 1, 0, 0; 0, 0, 1]

theorem R345_orthogonal : R345 ∈ Matrix.orthogonalGroup (Fin 3) ℝ := by
  rw [Matrix.mem_orthogonalGroup_iff]
  ext i j
  fin_cases i <;> fin_cases j <;> simp [R345, Matrix.mul_apply, Fin.sum_univ_three] <;> norm_num

theorem Rz90_orthogonal : Rz90 ∈ Matrix.orthogonalGroup (Fin 3) ℝ := by
  rw [Matrix.mem_orthogonalGroup_iff]
  ext i j
  fin_cases i <;> fin_cases j <;> simp [Rz90, Matrix.mul_apply, Fin.sum_univ_three]

theorem Mxy_orthogonal : Mxy ∈ Matrix.orthogonalGroup (Fin 3) ℝ ∧ Mxy.det = -1 := by
  constructor
  · rw [Matrix.mem_orthogonalGroup_iff]
    ext i j
    fin_cases i <;> fin_cases j <;> simp [Mxy, Matrix.mul_apply, Fin.sum_univ_three]
  · simp [Mxy, Matrix.det_fin_three]

/-- concrete local-frame integrals obeying the axial identity, all 22 distinct from their neighbours -/
noncomputable def riEx (i : ℕ) : ℝ := if i = 21 then 1 else if i = 18 then 5 else if i = 20 then 3 else (i : ℝ) + 1

theorem riEx_axial : riEx 21 = (1/2) * (riEx 18 - riEx 20) := by
  simp [riEx]; norm_num

/-- non-vacuity of `w_block_covariant_code`: the bond direction `v = (3/5, 0, 4/5)`, the (3,4,5) rotation
    (`R v = (9/25, 12/25, 4/5)`) and the float64 threshold satisfy every hypothesis -/
example : ∀ μ ν lam σ : Fin 4,
    (wRot riEx (rotR eps64 ((R345 *ᵥ ![3/5, 0, 4/5]) 0) ((R345 *ᵥ ![3/5, 0, 4/5]) 1)
        ((R345 *ᵥ ![3/5, 0, 4/5]) 2))).getD (10 * pairIdx μ ν + pairIdx lam σ) 0
      = ∑ a, ∑ b, ∑ c, ∑ d, orbRot R345 μ a * orbRot R345 ν b * orbRot R345 lam c * orbRot R345 σ d
          * (wRot riEx (rotR eps64 ((![3/5, 0, 4/5] : Fin 3 → ℝ) 0) ((![3/5, 0, 4/5] : Fin 3 → ℝ) 1)
              ((![3/5, 0, 4/5] : Fin 3 → ℝ) 2))).getD (10 * pairIdx a b + pairIdx c d) 0 := by
  have h0 : (R345 *ᵥ ![3/5, 0, 4/5]) 0 = 9/25 := by
    simp [R345, Matrix.mulVec, dotProduct, Fin.sum_univ_three]; norm_num
  refine w_block_covariant_code riEx riEx_axial R345 R345_orthogonal eps64 (by norm_num [eps64]) _
    (by simp; norm_num) ?_ ?_
  · simp only [Matrix.cons_val_zero]
    rw [abs_of_pos (by norm_num)]; norm_num [eps64]
  · rw [h0, abs_of_pos (by norm_num)]; norm_num [eps64]

/-- non-vacuity of `w_block_covariant_two_chart` with an IMPROPER `R` and the bond direction `v = −x`
    (the centre of the F2 cone, where the code as it stands is singular) -/
example : ∀ μ ν lam σ : Fin 4,
    (wRot riEx (rotR2 eps64 ((Mxy *ᵥ ![-1, 0, 0]) 0) ((Mxy *ᵥ ![-1, 0, 0]) 1)
        ((Mxy *ᵥ ![-1, 0, 0]) 2))).getD (10 * pairIdx μ ν + pairIdx lam σ) 0
      = ∑ a, ∑ b, ∑ c, ∑ d, orbRot Mxy μ a * orbRot Mxy ν b * orbRot Mxy lam c * orbRot Mxy σ d
          * (wRot riEx (rotR2 eps64 ((![-1, 0, 0] : Fin 3 → ℝ) 0) ((![-1, 0, 0] : Fin 3 → ℝ) 1)
              ((![-1, 0, 0] : Fin 3 → ℝ) 2))).getD (10 * pairIdx a b + pairIdx c d) 0 :=
  w_block_covariant_two_chart riEx riEx_axial Mxy Mxy_orthogonal.1 eps64 (by norm_num [eps64])
    (by norm_num [eps64]) _ (by simp)

/-- the frame `(x; y; z)` of the bond direction `x`, and a frame `(y; −x; z)` of the bond direction `y = Rz90 x` -/
def Fx : M3 ℝ := ⟨1, 0, 0, 0, 1, 0, 0, 0, 1⟩
def Fy : M3 ℝ := ⟨0, 1, 0, -1, 0, 0, 0, 0, 1⟩

/-- **Covariance is not invariance**: under the quarter turn the entry `(p_x p_x|ss)` changes from `ri[2]`
    to `ri[3]`, and its old value reappears at `(p_y p_y|ss)` as the theorem says (all hypotheses of
    `w4_covariant` hold for this data). -/
theorem w_block_not_invariant :
    ColsOrthonormal Fx ∧ ColsOrthonormal Fy ∧
    Row0Is Fx ((![1, 0, 0] : Fin 3 → ℝ) 0) ((![1, 0, 0] : Fin 3 → ℝ) 1) ((![1, 0, 0] : Fin 3 → ℝ) 2) ∧
    Row0Is Fy ((Rz90 *ᵥ ![1, 0, 0]) 0) ((Rz90 *ᵥ ![1, 0, 0]) 1) ((Rz90 *ᵥ ![1, 0, 0]) 2) ∧
    W4 riEx Fy 1 1 0 0 ≠ W4 riEx Fx 1 1 0 0 ∧ W4 riEx Fy 2 2 0 0 = W4 riEx Fx 1 1 0 0 := by
  refine ⟨?_, ?_, ?_, ?_, ?_, ?_⟩
  · simp [ColsOrthonormal, Fx]
  · simp [ColsOrthonormal, Fy]
  · simp [Row0Is, Fx]
  · simp [Row0Is, Fy, Rz90, Matrix.mulVec, dotProduct, Fin.sum_univ_three]
  · simp [W4, wElem, M3.row, M3.get, Fx, Fy, riEx]
  · simp [W4, wElem, M3.row, M3.get, Fx, Fy, riEx]

/-- a second frame of the bond direction `x`: transverse axes turned by the (3,4,5) angle about the bond -/
noncomputable def Fx' : M3 ℝ := ⟨1, 0, 0, 0, 3/5, 4/5, 0, -4/5, 3/5⟩

/-- **The axial identity `ri[21] = ½ (ri[18] − ri[20])` cannot be dropped**: with `ri[18] = 1`,
    `ri[20] = ri[21] = 0` and `R = 1` every other hypothesis of `w4_covariant` holds for the two frames
    `Fx`, `Fx'` of the same bond direction, but the conclusion fails at `(p_y p_y|p_y p_y)`. -/
theorem w_block_covariant_needs_axial_identity :
    ∃ (ri : ℕ → ℝ) (R : Matrix (Fin 3) (Fin 3) ℝ) (v : Fin 3 → ℝ) (F F' : M3 ℝ),
      R ∈ Matrix.orthogonalGroup (Fin 3) ℝ ∧ ColsOrthonormal F ∧ ColsOrthonormal F' ∧
      Row0Is F (v 0) (v 1) (v 2) ∧ Row0Is F' ((R *ᵥ v) 0) ((R *ᵥ v) 1) ((R *ᵥ v) 2) ∧
      W4 ri F' 2 2 2 2 ≠ ∑ a, ∑ b, ∑ c, ∑ d,
        orbRot R 2 a * orbRot R 2 b * orbRot R 2 c * orbRot R 2 d * W4 ri F a b c d := by
  refine ⟨fun i => if i = 18 then 1 else 0, 1, ![1, 0, 0], Fx, Fx', ?_, ?_, ?_, ?_, ?_, ?_⟩
  · rw [Matrix.mem_orthogonalGroup_iff]; simp
  · simp [ColsOrthonormal, Fx]
  · simp [ColsOrthonormal, Fx']; norm_num
  · simp [Row0Is, Fx]
  · simp [Row0Is, Fx']
  · rw [← rot4_flat, orbRot_one, rot4_one]
    simp [W4, wElem, M3.row, M3.get, Fx, Fx']
    norm_num

end C02b
