import PyseqmVerif.Properties.C11
import PyseqmVerif.Properties.GatesTie
/-!
# C11Tdm — the transition-density-matrix (TDM) stream of `HDF5Writer.append_data`

The TDM rows are written INSIDE `append_data`, which the run loop calls only at the data cadence `d` (and once for the initial
snapshot when `d > 0`); inside, the stream applies its own test `do_tdm = t > 0 and step % t == 0` (AST-translated as
`Generated.Gates.gateTdm`) and the capacity guard `i_tdm < Tw_tdm` with `Tw_tdm = _n_timepoints(steps, t)`.

Model: the rows written so far in file order (cursor = their number) and the pre-allocated capacity.  Theorems, for every data
cadence `d`, TDM cadence `t` and run length `N`: the written labels are exactly the steps due for BOTH cadences (the capacity guard
never drops one); that equals the stream's own specification `due t N` **iff** every multiple of `t` within the run is a multiple
of `d`; in particular whenever `d ∣ t`; the never-written filler rows are counted exactly.  The `(d,t) = (2,3)` witness is the
recorded finding F10 (outside the letter of C11: the TDM stream is not among the streams the property enumerates).
-/
namespace MDOut

theorem tdmDue_succ (d t N : Nat) :
    tdmDue d t (N + 1) = tdmDue d t N ++ (if isDue d (N + 1) && isDue t (N + 1) then [N + 1] else []) := by
  unfold tdmDue
  rw [List.range_succ, List.filter_append]
  congr 1
  cases h : (isDue d (N + 1) && isDue t (N + 1)) <;> simp [h]

theorem tdmDue_length_le (d t N : Nat) : (tdmDue d t N).length ≤ pre t N := by
  induction N with
  | zero =>
    unfold tdmDue pre
    rcases Nat.eq_zero_or_pos t with ht | ht
    · subst ht; simp [isDue]
    · have : t ≠ 0 := by omega
      simp only [this, if_false]
      exact Nat.le_trans (List.length_filter_le _ _) (by simp)
  | succ k ih =>
    rw [tdmDue_succ, pre_succ, List.length_append]
    cases h1 : isDue t (k + 1) <;> cases h2 : isDue d (k + 1) <;> simp <;> omega

theorem tdmRun_capacity (d t : Nat) (w : TW) : ∀ k, (tdmRun d t k w).capacity = w.capacity := by
  have hw : ∀ (w : TW) (s : Nat), (tdmStep d t w s).capacity = w.capacity := by
    intro w s; unfold tdmStep TW.write
    split
    · split <;> rfl
    · rfl
  intro k
  induction k with
  | zero => exact hw w 0
  | succ k ih => rw [tdmRun, hw, ih]

/-- **the capacity guard never drops a row**: after `k ≤ N` steps the rows on file are exactly the steps due for both cadences -/
theorem tdmRun_labels (d t N : Nat) : ∀ k, k ≤ N → (tdmRun d t k (tdmOpen t N)).labels = tdmDue d t k := by
  intro k
  induction k with
  | zero =>
    intro _
    unfold tdmRun tdmStep tdmDue TW.write tdmOpen
    rcases Nat.eq_zero_or_pos t with ht | ht
    · subst ht; simp [isDue]
    · have hc : 0 < cap t N := by
        rw [cap_eq_pre, pre_pos ht]; exact Nat.succ_pos _
      rcases Nat.eq_zero_or_pos d with hd | hd
      · subst hd; simp [isDue]
      · simp [isDue, ht, hd, hc]
  | succ k ih =>
    intro hk
    have ih' := ih (by omega)
    rw [tdmRun, tdmDue_succ]
    unfold tdmStep
    cases h : (isDue d (k + 1) && isDue t (k + 1))
    · simp [ih']
    · simp only [if_true]
      have ht : isDue t (k + 1) = true := by
        cases h1 : isDue t (k + 1) <;> simp_all
      have hlen : (tdmDue d t k).length < cap t N := by
        have h1 := tdmDue_length_le d t k
        have h2 : pre t (k + 1) = pre t k + 1 := by rw [pre_succ, ht]; rfl
        have h3 := pre_mono t hk
        rw [cap_eq_pre]; omega
      unfold TW.write
      rw [tdmRun_capacity, ih']
      have : (tdmOpen t N).capacity = cap t N := rfl
      rw [this]
      simp [hlen]

/-- a complete run: the TDM stream holds exactly the steps due for both the data and the TDM cadence -/
theorem tdm_stream (d t N : Nat) : (tdmRun d t N (tdmOpen t N)).labels = tdmDue d t N :=
  tdmRun_labels d t N N (Nat.le_refl N)

/-- the stream is at exactly its own cadence **iff** every multiple of `t` within the run is a multiple of `d` -/
theorem tdm_eq_spec_iff (d t N : Nat) :
    (tdmRun d t N (tdmOpen t N)).labels = due t N ↔ ∀ s, s ≤ N → isDue t s = true → isDue d s = true := by
  rw [tdm_stream]
  unfold tdmDue due
  constructor
  · intro h s hs hts
    have hm : s ∈ (List.range (N + 1)).filter (isDue t) := by
      rw [List.mem_filter, List.mem_range]; exact ⟨by omega, hts⟩
    rw [← h, List.mem_filter] at hm
    have := hm.2
    simp only [Bool.and_eq_true] at this
    exact this.1
  · intro h
    apply List.filter_congr
    intro s hs
    rw [List.mem_range] at hs
    cases hts : isDue t s
    · simp
    · simp [h s (by omega) hts]

/-- sufficient and checkable before the run: the TDM cadence is a multiple of the data cadence -/
theorem tdm_exact_of_dvd (d t N : Nat) (hd : 0 < d) (h : d ∣ t) :
    (tdmRun d t N (tdmOpen t N)).labels = due t N := by
  rw [tdm_eq_spec_iff]
  intro s _ hts
  rw [isDue_iff] at hts ⊢
  refine ⟨hd, ?_⟩
  have h1 : t ∣ s := Nat.dvd_of_mod_eq_zero hts.2
  exact Nat.mod_eq_zero_of_dvd (Nat.dvd_trans h h1)

/-- data stream off ⇒ nothing is ever written to the TDM stream, whatever its cadence -/
theorem tdm_data_off (t N : Nat) : (tdmRun 0 t N (tdmOpen t N)).labels = [] := by
  rw [tdm_stream]; unfold tdmDue
  simp [isDue_zero_cadence]

/-- the never-written filler rows are exactly the steps due for `t` that the data cadence skipped -/
theorem tdm_filler_count (d t N : Nat) :
    (tdmRun d t N (tdmOpen t N)).capacity - (tdmRun d t N (tdmOpen t N)).labels.length
      = (due t N).length - (tdmDue d t N).length := by
  rw [tdm_stream, tdmRun_capacity, ← cap_eq_due_length]; rfl

/-- **resume**: `_open_resume` sets the cursor to `pre t o = o / t + 1` (`ResumeIdx.iTdm`).  In the exact regime that is the number of rows on file at
    the checkpoint step `o`, so a resumed run continues where the interrupted one stopped … -/
theorem tdm_resume_cursor_exact (d t o : Nat) (h : ∀ s, s ≤ o → isDue t s = true → isDue d s = true) :
    (tdmDue d t o).length = pre t o := by
  have : tdmDue d t o = due t o := by
    unfold tdmDue due
    apply List.filter_congr
    intro s hs
    rw [List.mem_range] at hs
    cases hts : isDue t s
    · simp
    · simp [h s (by omega) hts]
  rw [this, due_length_pre]

/-- … while in the lcm regime the cursor jumps past never-written rows: data every 2, TDM every 3, checkpoint at step 8: two rows on file, cursor 3 -/
example : (tdmDue 2 3 8).length = 2 ∧ pre 3 8 = 3 := by decide

/-- the model's test is the AST translation of `do_tdm` in the live `append_data` -/
theorem gateTdm_is_isDue (s e : Nat) : Generated.Gates.gateTdm (s : Int) (e : Int) = isDue e s := by
  have := GatesTie.gateVec_is_isDue s e
  unfold Generated.Gates.gateVec at this
  unfold Generated.Gates.gateTdm
  exact this

/-! ## F10 as a witness, and non-vacuity -/

/-- data every 2, TDM every 3, 12 steps: rows 0, 6, 12 and two filler rows (reproduced on the real code, DESIGN §6-F10) -/
example : (tdmRun 2 3 12 (tdmOpen 3 12)).labels = [0, 6, 12] ∧ (tdmOpen 3 12).capacity = 5 ∧ due 3 12 = [0, 3, 6, 9, 12] := by decide
example : (tdmRun 2 4 12 (tdmOpen 4 12)).labels = due 4 12 := tdm_exact_of_dvd 2 4 12 (by decide) (by decide)
example : (tdmRun 2 4 12 (tdmOpen 4 12)).labels = [0, 4, 8, 12] := by decide
/-- `t` larger than the run: only the initial snapshot, whatever `d > 0` -/
example : (tdmRun 5 13 12 (tdmOpen 13 12)).labels = [0] ∧ due 13 12 = [0] := by decide

end MDOut
