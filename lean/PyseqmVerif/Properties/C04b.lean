import Mathlib.Topology.MetricSpace.Contracting
import Mathlib.Analysis.Normed.Module.Basic
import Mathlib.Tactic.Module
/-!
# C04b — how far a stopped solver is from the common answer (the constant behind "a small multiple of the threshold")

`C04.lean` shows that every update rule has the fixed points of the SCF map `g` and that all solvers stop on the same test.  This file gives the
quantitative half, for any complete normed space (densities with any norm) and any SCF map `g` that is a contraction with constant `q < 1` near the
solution (the "single stable closed-shell solution" of the property's hypothesis):

* `mix_contracting`: constant mixing `P ↦ α P + (1-α) g(P)`, `0 ≤ α < 1`, is a contraction with constant `α + (1-α) q`;
* `mix_fixedPoint_eq`: it has the same fixed point as `g` (so fixed mixing with any admissible `α` converges to the same density);
* `residual_bound`: a density whose `g`-residual is `‖g P - P‖ ≤ r` lies within `r / (1 - q)` of the solution, whatever produced it
  (mixing, DIIS, SP2 or diagonalisation, cold start or restart): solver independence with an explicit constant;
* `stopped_mixing_bound`: what the convergence test actually measures is the change of the density in one mixing step,
  `‖mix(P) - P‖ = (1-α) ‖g P - P‖`; if that is `≤ ε` then `‖P - P*‖ ≤ ε / ((1-α)(1-q))`.  This is the factor `K = 1/(1-α)` that the C03/C04
  probes multiply the requested threshold with;
* `two_solvers_agree`: two stopped runs (thresholds `ε₁`, `ε₂`, mixing parameters `α₁`, `α₂`) differ by at most the sum of their bounds;
* `tighter_is_closer`: the bound is monotone in the threshold (tightening moves the guaranteed ball inwards, towards the same limit).
-/
set_option linter.unusedSectionVars false
namespace C04b
open Function

variable {E : Type*} [NormedAddCommGroup E] [NormedSpace ℝ E]

/-- constant mixing `P ↦ α P + (1-α) g(P)` -/
def mix (α : ℝ) (g : E → E) (P : E) : E := α • P + (1 - α) • g P

theorem mix_sub_self (α : ℝ) (g : E → E) (P : E) : mix α g P - P = (1 - α) • (g P - P) := by
  unfold mix
  module

/-- the change of the density in one mixing step is `(1-α)` times the residual of the SCF map -/
theorem norm_mix_sub_self (α : ℝ) (hα : α ≤ 1) (g : E → E) (P : E) : ‖mix α g P - P‖ = (1 - α) * ‖g P - P‖ := by
  rw [mix_sub_self, norm_smul, Real.norm_of_nonneg (by linarith)]

theorem mix_lipschitz (α q : ℝ) (hα0 : 0 ≤ α) (hα1 : α ≤ 1) (g : E → E)
    (hg : ∀ x y, ‖g x - g y‖ ≤ q * ‖x - y‖) (x y : E) :
    ‖mix α g x - mix α g y‖ ≤ (α + (1 - α) * q) * ‖x - y‖ := by
  have h : mix α g x - mix α g y = α • (x - y) + (1 - α) • (g x - g y) := by
    unfold mix; rw [smul_sub, smul_sub]; abel
  rw [h]
  calc ‖α • (x - y) + (1 - α) • (g x - g y)‖
      ≤ ‖α • (x - y)‖ + ‖(1 - α) • (g x - g y)‖ := norm_add_le _ _
    _ = α * ‖x - y‖ + (1 - α) * ‖g x - g y‖ := by
        rw [norm_smul, norm_smul, Real.norm_of_nonneg hα0, Real.norm_of_nonneg (by linarith)]
    _ ≤ α * ‖x - y‖ + (1 - α) * (q * ‖x - y‖) := by
        have := mul_le_mul_of_nonneg_left (hg x y) (by linarith : 0 ≤ 1 - α)
        linarith
    _ = (α + (1 - α) * q) * ‖x - y‖ := by ring

/-- a density with `g`-residual `r` is within `r / (1-q)` of any fixed point of `g` -/
theorem residual_bound (q : ℝ) (hq : q < 1) (g : E → E) (hg : ∀ x y, ‖g x - g y‖ ≤ q * ‖x - y‖)
    (Pstar : E) (hfix : g Pstar = Pstar) (P : E) :
    ‖P - Pstar‖ ≤ ‖g P - P‖ / (1 - q) := by
  have h1 : ‖P - Pstar‖ ≤ ‖g P - P‖ + q * ‖P - Pstar‖ := by
    calc ‖P - Pstar‖ = ‖(P - g P) + (g P - g Pstar)‖ := by rw [hfix]; congr 1; abel
      _ ≤ ‖P - g P‖ + ‖g P - g Pstar‖ := norm_add_le _ _
      _ ≤ ‖g P - P‖ + q * ‖P - Pstar‖ := by rw [norm_sub_rev P (g P)]; linarith [hg P Pstar]
  have h2 : (1 - q) * ‖P - Pstar‖ ≤ ‖g P - P‖ := by nlinarith
  rw [le_div_iff₀ (by linarith)]
  linarith [mul_comm (1 - q) ‖P - Pstar‖]

/-- the fixed point is unique (so "the common answer" makes sense) -/
theorem fixed_point_unique (q : ℝ) (hq : q < 1) (g : E → E) (hg : ∀ x y, ‖g x - g y‖ ≤ q * ‖x - y‖)
    (P Q : E) (hP : g P = P) (hQ : g Q = Q) : P = Q := by
  have h := residual_bound q hq g hg Q hQ P
  rw [hP, sub_self, norm_zero, zero_div] at h
  exact sub_eq_zero.mp (norm_le_zero_iff.mp h)

/-- mixing has exactly the fixed points of `g` (quantitative companion of `C04.mixing_fixed_points`) -/
theorem mix_fixedPoint_eq (α : ℝ) (hα : α < 1) (g : E → E) (P : E) : mix α g P = P ↔ g P = P := by
  rw [← sub_eq_zero, mix_sub_self, smul_eq_zero, sub_eq_zero (a := g P)]
  constructor
  · rintro (h | h)
    · exact absurd h (by linarith)
    · exact h
  · exact Or.inr

/-- **what a stopped mixing run guarantees**: if the density changed by at most `ε` in the last mixing step, it is within
    `ε / ((1-α)(1-q))` of the solution -/
theorem stopped_mixing_bound (α q ε : ℝ) (hα : α < 1) (hq : q < 1) (g : E → E)
    (hg : ∀ x y, ‖g x - g y‖ ≤ q * ‖x - y‖) (Pstar : E) (hfix : g Pstar = Pstar) (P : E)
    (hstop : ‖mix α g P - P‖ ≤ ε) :
    ‖P - Pstar‖ ≤ ε / ((1 - α) * (1 - q)) := by
  have h1 := residual_bound q hq g hg Pstar hfix P
  rw [norm_mix_sub_self α hα.le] at hstop
  have hr : ‖g P - P‖ ≤ ε / (1 - α) := by
    rw [le_div_iff₀ (by linarith)]; linarith [mul_comm (1 - α) ‖g P - P‖]
  calc ‖P - Pstar‖ ≤ ‖g P - P‖ / (1 - q) := h1
    _ ≤ (ε / (1 - α)) / (1 - q) := by
        apply div_le_div_of_nonneg_right hr (by linarith)
    _ = ε / ((1 - α) * (1 - q)) := by rw [div_div]

/-- two stopped runs with different mixing parameters and thresholds agree within the sum of their bounds -/
theorem two_solvers_agree (α₁ α₂ q ε₁ ε₂ : ℝ) (h1 : α₁ < 1) (h2 : α₂ < 1) (hq : q < 1) (g : E → E)
    (hg : ∀ x y, ‖g x - g y‖ ≤ q * ‖x - y‖) (Pstar : E) (hfix : g Pstar = Pstar) (P₁ P₂ : E)
    (hs1 : ‖mix α₁ g P₁ - P₁‖ ≤ ε₁) (hs2 : ‖mix α₂ g P₂ - P₂‖ ≤ ε₂) :
    ‖P₁ - P₂‖ ≤ ε₁ / ((1 - α₁) * (1 - q)) + ε₂ / ((1 - α₂) * (1 - q)) := by
  have a := stopped_mixing_bound α₁ q ε₁ h1 hq g hg Pstar hfix P₁ hs1
  have b := stopped_mixing_bound α₂ q ε₂ h2 hq g hg Pstar hfix P₂ hs2
  calc ‖P₁ - P₂‖ = ‖(P₁ - Pstar) - (P₂ - Pstar)‖ := by congr 1; abel
    _ ≤ ‖P₁ - Pstar‖ + ‖P₂ - Pstar‖ := norm_sub_le _ _
    _ ≤ _ := add_le_add a b

/-- the guaranteed distance is monotone in the threshold -/
theorem tighter_is_closer (α q ε ε' : ℝ) (hα : α < 1) (hq : q < 1) (h : ε' ≤ ε) :
    ε' / ((1 - α) * (1 - q)) ≤ ε / ((1 - α) * (1 - q)) := by
  apply div_le_div_of_nonneg_right h
  exact (mul_pos (by linarith) (by linarith)).le

/-- non-vacuity: `g x = x/2 + 1` on ℝ is a contraction with `q = 1/2` and fixed point 2; the point 2.02 changes by 0.005 under mixing with
    `α = 1/2` and is within `0.005 / (1/2 · 1/2) = 0.02` of the solution -/
example : ‖mix (1/2 : ℝ) (fun x : ℝ => x / 2 + 1) 2.02 - 2.02‖ ≤ 0.005 ∧ ‖(2.02 : ℝ) - 2‖ ≤ 0.005 / ((1 - 1/2) * (1 - 1/2)) := by
  constructor
  · unfold mix; norm_num [abs_le]
  · norm_num [abs_le]

end C04b
