import PyseqmVerif.Generated.Thermo
import PyseqmVerif.Model.Langevin
import PyseqmVerif.Model.InitVel
/-!
# Translator tie for the thermodynamic bookkeeping and the initial-velocity scale (C08, C13, C12)

`Generated/Thermo.lean`: the summand and factor of `_kinetic_energy` (with its reduction axes checked by the translator: one molecule, atoms and
components), `_calc_temperature`, the three `set_dof` variants and the Maxwell–Boltzmann scale / draw / exact-temperature factor of
`initialize_velocity`, translated from the method bodies on every run.  The theorems identify them with the definitions the C08 (thermo row of the
stored phase point), C13 (exact requested temperature under the count of degrees of freedom in force) and C12 (3N count for thermostatted engines)
theorems are about.  All proofs are `rfl` for an arbitrary scalar type.
-/
set_option linter.unusedSectionVars false
namespace ThermoTie
open Generated

section
variable {α : Type} [Add α] [Sub α] [Mul α] [Div α] [OfScientific α] [OfNat α 0] [OfNat α 1]

theorem kineticEnergy_is_model (kes : α) (m v : List α) :
    Verlet.kineticEnergy kes m v = Verlet.lsum (List.zipWith Thermo.keSummand m v) * Thermo.keScale kes := rfl

theorem temperature_is_model (ek ts ndof : α) : Thermo.temperature ek ts ndof = Verlet.temperature ek ts ndof := rfl

theorem setDofBasic_is_model (b : Bool) (n c : α) : Thermo.setDofBasic b n c = Langevin.setDofBasic n c := rfl
theorem setDofLangevin_is_model (b : Bool) (n c : α) : Thermo.setDofLangevin b n c = Langevin.setDofLangevin n c := rfl
theorem setDofXL_is_model (b : Bool) (n c : α) : Thermo.setDofXL b n c = Langevin.setDofXL b n c := rfl

theorem mbScale_is_model (sqrt : α → α) (temp vel : α) (minv xi : List α) :
    InitVel.mbScale sqrt temp vel minv xi = List.zipWith (fun mi xii => Thermo.mbDraw xii (Thermo.mbScale sqrt temp vel mi)) minv xi := rfl

theorem rescale_is_model (sqrt : α → α) (temp t1 : α) (v : List α) :
    InitVel.rescale sqrt temp t1 v = v.map (fun vi => vi * Thermo.rescaleAlpha sqrt temp t1) := rfl

end

example : Thermo.setDofXL true (3.0 : Float) 6.0 = 9.0 ∧ Thermo.setDofXL false (3.0 : Float) 6.0 = 3.0 := by
  constructor <;> rfl

end ThermoTie
