import PyseqmVerif.Model.ScfControl
import Mathlib.Tactic.NormNum
/-!
# C03c — the stopping rule of the Krylov-subspace SCF solver (`scf_forward3`) is weaker than `get_error` (known finding F29)

`scf_forward0/1/2` decide convergence with `get_error`: energy change, density-matrix change (norm and largest element) and, for
Pulay, the DIIS error must all be below their multiples of `eps`.  `scf_forward3` ends each iteration with

```
err[notconverged] = |Eelec_new - Eelec|;  dm_err[notconverged] = ||D - P||_F   # computed, printed, never tested
notconverged = err > eps                                                       # over ALL molecules: not sticky
```
The model below is that rule; the theorems say (1) whatever `get_error` accepts the KSA rule accepts (for an active molecule
without DIIS), (2) the converse fails: a molecule whose density is still far from self-consistent is accepted as soon as the
energy happens to stall.  This is the formal content of F29; the numbers are in `known_findings.json`.
-/
namespace C03c
open ScfControl

/-- `notconverged = err > eps` of `scf_forward3` for one molecule (`err` is the stored absolute energy change) -/
def ksaNotConverged (eps err : ℚ) : Bool := decide (eps < err)

/-- (1) `get_error` is at least as strict: if it reports an active molecule (no DIIS) converged, so does the KSA rule -/
theorem getError_accepts_imp_ksa_accepts (eps : ℚ) (m : MolIn ℚ) (ha : m.active = true) (hd : m.diis = none)
    (h : (getErrorMol (fun x => |x|) eps m).notconv = false) :
    ksaNotConverged eps |m.eNew - m.eOld| = false := by
  unfold getErrorMol at h
  simp only [ha, hd, if_true] at h
  unfold ksaNotConverged
  by_cases hb : eps < |m.eNew - m.eOld|
  · simp [hb] at h
  · simp [hb]

/-- (2) the converse fails: energy stalled (change 0), density residual 1 (eps = 1e-6): accepted by the KSA rule, rejected by
`get_error` -/
theorem ksa_accepts_unconverged_density :
    let eps : ℚ := 1 / 1000000
    let m : MolIn ℚ := { active := true, eNew := -350, eOld := -350, errStored := 1, diis := none, dmFresh := 1, elemFresh := 1 / 2,
                         dmStored := 1, elemStored := 1 }
    ksaNotConverged eps |m.eNew - m.eOld| = false ∧ (getErrorMol (fun x => |x|) eps m).notconv = true := by
  constructor
  · simp [ksaNotConverged]
  · simp [getErrorMol]; norm_num

end C03c
