import PyseqmVerif.Proofs.ParserLemmas
import PyseqmVerif.Model.Pack
/-!
# C05 — batching, padding, ordering and relabelling are transparent (index machinery)

"The results for a molecule are the same whether it is computed alone or inside any batch,
regardless of the other batch members, its position in the batch, the amount of zero padding and
the coordinate values stored in padding slots.  Exchanging two atoms of the same element permutes
per-atom outputs accordingly and changes nothing else."

This file proves the part of the property that is decided by the integer bookkeeping of
`Parser.forward` (model: `Parser.run`, `Model/Parser.lean`), `pack`/`unpack` and the block views
(`Model/Pack.lean`).  All theorems hold for every batch size, molecule size, species array and
closeness table.  `sp` is the flattened species array, `close i j` stands for
`pairdist_sq < outercutoff**2` of the flat atoms `i, j`; `molSp ms sp m` / `molClose ms close m`
are the species row / closeness table of molecule `m` taken alone.
-/
namespace C05
open Parser

/-! ## (1) compaction of real atoms -/

/-- `real_atoms` lists exactly the non-padding flat indices, in increasing order, and
    `inv_real_atoms` is its inverse: an order-preserving bijection between the real flat indices
    and `0 … n_real-1`; `inv_real_atoms[i]` is the number of real atoms before `i`. -/
theorem compaction_bijection (nmol ms : Nat) (sp : Nat → Nat) :
    let ra := realAtoms nmol ms sp
    (∀ i, i ∈ ra ↔ i < nmol * ms ∧ 0 < sp i) ∧
    ra.Pairwise (· < ·) ∧
    (∀ k (hk : k < ra.length), invReal ra ra[k] = k) ∧
    (∀ i, i ∈ ra → invReal ra i < ra.length ∧ ra.getD (invReal ra i) 0 = i) ∧
    (∀ i j, i ∈ ra → j ∈ ra → i < j → invReal ra i < invReal ra j) ∧
    (∀ i, i ∈ ra → invReal ra i = rank sp i) := by
  intro ra
  refine ⟨fun i => mem_realAtoms, realAtoms_pairwise, fun k hk => invReal_getElem hk,
    fun i hi => ⟨invReal_lt hi, getD_invReal hi⟩, ?_, fun i hi => invReal_eq_rank hi⟩
  intro i j hi hj hij
  rw [invReal_eq_rank hi, invReal_eq_rank hj]
  exact rank_lt_of_lt hij (mem_realAtoms.mp hi).2

/-! ## (2) the pair list of a batch is the concatenation of the molecules' pair lists -/

/-- flat pair list = concatenation over the molecules of the per-molecule `(a, b)` enumerations,
    shifted by the molecule's atom offset `m*ms` -/
theorem pairs_concat (nmol ms : Nat) (sp : Nat → Nat) (close : Nat → Nat → Bool) :
    pairList nmol ms sp close =
      (List.range nmol).flatMap fun m =>
        (molPairs ms (keepPair ms sp close m)).map fun p => (m * ms + p.1, m * ms + p.2) :=
  pairList_concat nmol ms sp close

/-- no pair crosses molecules; the first index is the smaller one; both atoms are real -/
theorem pairs_no_cross {nmol ms : Nat} {sp : Nat → Nat} {close : Nat → Nat → Bool} {p : Nat × Nat}
    (h : p ∈ pairList nmol ms sp close) :
    p.1 / ms = p.2 / ms ∧ p.1 < p.2 ∧ p.2 < nmol * ms ∧ 0 < sp p.1 ∧ 0 < sp p.2 := by
  obtain ⟨h1, h2, h3, h4, h5, _⟩ := mem_pairList'.mp h
  exact ⟨h3, h1, h2, h4, h5⟩

/-- the batch pair list is the concatenation of the pair lists of the molecules computed ALONE
    (1-molecule batches with the same `molsize`), each shifted by its atom offset -/
theorem pairs_single_vs_batch (nmol ms : Nat) (sp : Nat → Nat) (close : Nat → Nat → Bool) :
    pairList nmol ms sp close =
      (List.range nmol).flatMap fun m =>
        (pairList 1 ms (molSp ms sp m) (molClose ms close m)).map
          fun p => (m * ms + p.1, m * ms + p.2) :=
  pairList_alone nmol ms sp close

theorem flatMap_ite_range {β : Type} (n m : Nat) (hm : m < n) (c : List β) :
    (List.range n).flatMap (fun m' => if m' = m then c else []) = c := by
  induction n with
  | zero => omega
  | succ n ih =>
    rw [List.range_succ, List.flatMap_append, List.flatMap_singleton]
    by_cases h : m = n
    · subst h
      have : (List.range m).flatMap (fun m' => if m' = m then c else []) = [] := by
        rw [List.flatMap_eq_nil_iff]
        intro x hx
        have : x ≠ m := Nat.ne_of_lt (List.mem_range.mp hx)
        simp [this]
      simp [this]
    · have hlt : m < n := by omega
      rw [ih hlt]
      have : n ≠ m := fun e => h e.symm
      simp [this]

/-- the sub-list of the batch pair list that belongs to molecule `m` is the pair list of molecule
    `m` computed alone, shifted by `m*ms` — whatever the other molecules are -/
theorem pairs_of_molecule (nmol ms : Nat) (sp : Nat → Nat) (close : Nat → Nat → Bool) (m : Nat)
    (hm : m < nmol) :
    (pairList nmol ms sp close).filter (fun p => p.1 / ms == m) =
      (pairList 1 ms (molSp ms sp m) (molClose ms close m)).map
        fun p => (m * ms + p.1, m * ms + p.2) := by
  rw [pairs_single_vs_batch, List.filter_flatMap]
  rw [← flatMap_ite_range nmol m hm
    ((pairList 1 ms (molSp ms sp m) (molClose ms close m)).map fun p => (m * ms + p.1, m * ms + p.2))]
  apply flatMap_congr'
  intro m' _
  by_cases h : m' = m
  · subst h
    rw [if_pos rfl, List.filter_eq_self]
    intro q hq
    obtain ⟨p, hp, rfl⟩ := List.mem_map.mp hq
    simp [mul_add_div m' (mem_pairList_one hp).1]
  · rw [if_neg h, List.filter_eq_nil_iff]
    intro q hq
    obtain ⟨p, hp, rfl⟩ := List.mem_map.mp hq
    simp [mul_add_div m' (mem_pairList_one hp).1, h]

/-- ALL integer outputs of the parser for a batch are the concatenation of the outputs for the
    molecules computed alone, with explicit offsets (flat atom index `+ m*ms`, block index
    `+ m*ms²`, molecule id `+ m`, compacted atom index `+ rank sp (m*ms)` = number of real atoms in
    the preceding molecules).  Other batch members and the position in the batch enter only
    through these offsets. -/
theorem batch_is_concat_of_alone (nmol ms : Nat) (sp : Nat → Nat) (close : Nat → Nat → Bool) :
    let o := run nmol ms sp close
    let o1 := fun m => run 1 ms (molSp ms sp m) (molClose ms close m)
    o.real = (List.range nmol).flatMap (fun m => (o1 m).real.map (m * ms + ·)) ∧
    o.Z = (List.range nmol).flatMap (fun m => (o1 m).Z) ∧
    o.nHeavy = (List.range nmol).flatMap (fun m => (o1 m).nHeavy) ∧
    o.nHydro = (List.range nmol).flatMap (fun m => (o1 m).nHydro) ∧
    o.maskd = (List.range nmol).flatMap (fun m => (o1 m).maskd.map (m * (ms * ms) + ·)) ∧
    o.atomMolid = (List.range nmol).flatMap (fun m => (o1 m).atomMolid.map (m + ·)) ∧
    o.idxi = (List.range nmol).flatMap (fun m => (o1 m).idxi.map (rank sp (m * ms) + ·)) ∧
    o.idxj = (List.range nmol).flatMap (fun m => (o1 m).idxj.map (rank sp (m * ms) + ·)) ∧
    o.ni = (List.range nmol).flatMap (fun m => (o1 m).ni) ∧
    o.nj = (List.range nmol).flatMap (fun m => (o1 m).nj) ∧
    o.mask = (List.range nmol).flatMap (fun m => (o1 m).mask.map (m * (ms * ms) + ·)) ∧
    o.maskL = (List.range nmol).flatMap (fun m => (o1 m).maskL.map (m * (ms * ms) + ·)) ∧
    o.pairMolid = (List.range nmol).flatMap (fun m => (o1 m).pairMolid.map (m + ·)) :=
  run_alone nmol ms sp close

/-- the number of valence electrons and of orbitals (hence `nocc`, RHF and UHF, including whether
    the Python raises) of molecule `m` are those of the molecule alone -/
theorem nocc_single_vs_batch (ms : Nat) (sp : Nat → Nat) (tore : Nat → Nat) (charge : Nat → Int)
    (mult : Nat → Int) (m : Nat) :
    noccRHF1 (nCharge ms sp tore charge m) (norbAt ms sp m) =
      noccRHF1 (nCharge ms (molSp ms sp m) tore (fun _ => charge m) 0) (norbAt ms (molSp ms sp m) 0) ∧
    noccUHF1 (nCharge ms sp tore charge m) (mult m) (norbAt ms sp m) =
      noccUHF1 (nCharge ms (molSp ms sp m) tore (fun _ => charge m) 0) (mult m)
        (norbAt ms (molSp ms sp m) 0) := by
  simp [nCharge, nValence, molSp, norbAt]

/-! ## (4) padding -/

/-- Entries of the closeness table that involve a padding slot (or two different molecules, or
    `i ≥ j`) are never used: if two tables agree on ordered pairs of real atoms of one molecule,
    every output is the same.  (Coordinates stored in padding slots only enter through such
    entries.) -/
theorem padding_independent_close (nmol ms : Nat) (sp : Nat → Nat) (close close' : Nat → Nat → Bool)
    (h : ∀ i j, i < j → j < nmol * ms → i / ms = j / ms → 0 < sp i → 0 < sp j →
      close i j = close' i j) :
    run nmol ms sp close = run nmol ms sp close' :=
  run_congr_close (pairList_congr_close h)

/-- Storing the same batch with `k` more padding columns (`Grown`: old columns keep their species,
    new columns are 0, closeness of real atoms unchanged, nothing assumed about padding entries):
    the compacted outputs (`Z, nHeavy, nHydro, atom_molid, idxi, idxj, ni, nj, pair_molid`, the
    electron count and the orbital count, hence `nocc`) are identical, flat atom indices are re-indexed by
    `regrow : m*ms + a ↦ m*(ms+k) + a` and block indices (`maskd, mask, mask_l`) by
    `reblock : m*ms² + a*ms + b ↦ m*(ms+k)² + a*(ms+k) + b`. -/
theorem padding_independent_growth {nmol ms k : Nat} {sp sp' : Nat → Nat} {close close' : Nat → Nat → Bool}
    (hms : 0 < ms) (g : Grown nmol ms k sp sp' close close') :
    let o := run nmol ms sp close
    let o' := run nmol (ms + k) sp' close'
    o'.real = o.real.map (regrow ms (ms + k)) ∧
    o'.Z = o.Z ∧ o'.nHeavy = o.nHeavy ∧ o'.nHydro = o.nHydro ∧ o'.atomMolid = o.atomMolid ∧
    o'.idxi = o.idxi ∧ o'.idxj = o.idxj ∧ o'.ni = o.ni ∧ o'.nj = o.nj ∧ o'.pairMolid = o.pairMolid ∧
    o'.maskd = o.maskd.map (reblock ms (ms + k)) ∧
    o'.mask = o.mask.map (reblock ms (ms + k)) ∧
    o'.maskL = o.maskL.map (reblock ms (ms + k)) ∧
    (∀ tore : Nat → Nat, tore 0 = 0 → ∀ m, m < nmol →
      nValence (ms + k) sp' tore m = nValence ms sp tore m) ∧
    (∀ m, m < nmol → norbAt (ms + k) sp' m = norbAt ms sp m) := by
  intro o o'
  have hinj := regrow_injective hms (Nat.le_add_right ms k)
  have hra := g.realAtoms
  have hpl := g.pairList
  -- facts about real atoms / pairs in `m*ms + a` form
  have real_form : ∀ i, i ∈ realAtoms nmol ms sp → ∃ m a, m < nmol ∧ a < ms ∧ i = m * ms + a := by
    intro i hi
    obtain ⟨d1, d2, d3⟩ := flat_decomp (mem_realAtoms.mp hi).1
    exact ⟨i / ms, i % ms, d1, d2, d3.symm⟩
  have hZ : o'.Z = o.Z := by
    show (realAtoms nmol (ms + k) sp').map sp' = (realAtoms nmol ms sp).map sp
    rw [hra, List.map_map]
    apply List.map_congr_left
    intro i hi
    obtain ⟨m, a, hm, ha, rfl⟩ := real_form i hi
    simp only [Function.comp, regrow_flat (ms + k) m ha, g.sp_old hm ha]
  have hamol : o'.atomMolid = o.atomMolid := by
    show (realAtoms nmol (ms + k) sp').map (· / (ms + k)) = (realAtoms nmol ms sp).map (· / ms)
    rw [hra, List.map_map]
    apply List.map_congr_left
    intro i hi
    obtain ⟨m, a, hm, ha, rfl⟩ := real_form i hi
    simp only [Function.comp, regrow_flat (ms + k) m ha, mul_add_div m ha,
      mul_add_div m (Nat.lt_of_lt_of_le ha (Nat.le_add_right ms k))]
  have hidxi : o'.idxi = o.idxi := by
    show (pairList nmol (ms + k) sp' close').map (fun p => invReal (realAtoms nmol (ms + k) sp') p.1) =
      (pairList nmol ms sp close).map (fun p => invReal (realAtoms nmol ms sp) p.1)
    rw [hpl, hra, List.map_map]
    apply List.map_congr_left
    intro p _
    exact invReal_map_injective hinj _ _
  have hidxj : o'.idxj = o.idxj := by
    show (pairList nmol (ms + k) sp' close').map (fun p => invReal (realAtoms nmol (ms + k) sp') p.2) =
      (pairList nmol ms sp close).map (fun p => invReal (realAtoms nmol ms sp) p.2)
    rw [hpl, hra, List.map_map]
    apply List.map_congr_left
    intro p _
    exact invReal_map_injective hinj _ _
  have pair_form : ∀ p, p ∈ pairList nmol ms sp close →
      ∃ m a b, m < nmol ∧ a < ms ∧ b < ms ∧ p = (m * ms + a, m * ms + b) := by
    intro p hp
    obtain ⟨m, a, b, hm, ha, hb, _, _, _, _, rfl⟩ := mem_pairList.mp hp
    exact ⟨m, a, b, hm, ha, hb, rfl⟩
  have hk : ∀ {a}, a < ms → a < ms + k := fun h => Nat.lt_of_lt_of_le h (Nat.le_add_right ms k)
  refine ⟨hra, hZ, g.nHeavy, g.nHydro, hamol, hidxi, hidxj, ?_, ?_, ?_, ?_, ?_, ?_,
    fun tore h0 m hm => g.nValence tore h0 hm, fun m hm => g.norbAt hm⟩
  · show o'.idxi.map (fun j => o'.Z.getD j 0) = o.idxi.map (fun j => o.Z.getD j 0)
    rw [hidxi, hZ]
  · show o'.idxj.map (fun j => o'.Z.getD j 0) = o.idxj.map (fun j => o.Z.getD j 0)
    rw [hidxj, hZ]
  · show o'.idxi.map (fun j => o'.atomMolid.getD j 0) = o.idxi.map (fun j => o.atomMolid.getD j 0)
    rw [hidxi, hamol]
  · show (realAtoms nmol (ms + k) sp').map (maskdAt (ms + k)) =
      ((realAtoms nmol ms sp).map (maskdAt ms)).map (reblock ms (ms + k))
    rw [hra, List.map_map, List.map_map]
    apply List.map_congr_left
    intro i hi
    obtain ⟨m, a, hm, ha, rfl⟩ := real_form i hi
    simp only [Function.comp, regrow_flat (ms + k) m ha, maskdAt_flat m ha, maskdAt_flat m (hk ha)]
    unfold blockIdx
    rw [reblock_flat (ms + k) m ha ha]
  · rw [run_mask, run_mask, hpl, List.map_map, List.map_map]
    apply List.map_congr_left
    intro p hp
    obtain ⟨m, a, b, hm, ha, hb, rfl⟩ := pair_form p hp
    simp only [Function.comp, regrow_flat (ms + k) m ha, regrow_flat (ms + k) m hb,
      mask_flat m hb, mask_flat m (hk hb)]
    unfold blockIdx
    rw [reblock_flat (ms + k) m ha hb]
  · rw [run_maskL, run_maskL, hpl, List.map_map, List.map_map]
    apply List.map_congr_left
    intro p hp
    obtain ⟨m, a, b, hm, ha, hb, rfl⟩ := pair_form p hp
    simp only [Function.comp, regrow_flat (ms + k) m ha, regrow_flat (ms + k) m hb,
      mask_flat m ha, mask_flat m (hk ha)]
    unfold blockIdx
    rw [reblock_flat (ms + k) m hb ha]

/-! ## (3) `maskd` / `mask` address the right blocks, injectively -/

/-- `maskd` of the real atom `m*ms + a` is the diagonal block `(m, a, a)` -/
theorem maskd_addresses_block {ms : Nat} (m : Nat) {a : Nat} (ha : a < ms) :
    maskdAt ms (m * ms + a) = blockIdx ms m a a := maskdAt_flat m ha

theorem maskd_injective {nmol ms : Nat} {i j : Nat} (hi : i < nmol * ms) (hj : j < nmol * ms)
    (h : maskdAt ms i = maskdAt ms j) : i = j := by
  obtain ⟨_, a2, a3⟩ := flat_decomp hi
  obtain ⟨_, b2, b3⟩ := flat_decomp hj
  rw [← a3, ← b3, maskdAt_flat _ a2, maskdAt_flat _ b2] at h
  obtain ⟨e1, e2, _⟩ := blockIdx_injective a2 a2 b2 b2 h
  rw [← a3, ← b3, e1, e2]

/-- no two real atoms share a diagonal block -/
theorem maskd_nodup (nmol ms : Nat) (sp : Nat → Nat) : (maskd nmol ms sp).Nodup := by
  unfold maskd
  apply List.Nodup.map_on _ realAtoms_nodup
  intro x hx y hy h
  exact maskd_injective (mem_realAtoms.mp hx).1 (mem_realAtoms.mp hy).1 h

/-- `mask = real_atoms[idxi]*molsize + real_atoms[idxj] % molsize` is, pair by pair, the block
    `(m, a, b)` of the pair `(m*ms+a, m*ms+b)`, `a < b` (strict upper triangle of molecule `m`);
    `mask_l` is the transposed block `(m, b, a)`; `pair_molid = m` -/
theorem mask_addresses_block (nmol ms : Nat) (sp : Nat → Nat) (close : Nat → Nat → Bool) :
    let o := run nmol ms sp close
    o.mask = (pairList nmol ms sp close).map (fun p => blockIdx ms (p.1 / ms) (p.1 % ms) (p.2 % ms)) ∧
    o.maskL = (pairList nmol ms sp close).map (fun p => blockIdx ms (p.1 / ms) (p.2 % ms) (p.1 % ms)) ∧
    o.pairMolid = (pairList nmol ms sp close).map (fun p => p.1 / ms) ∧
    ∀ p ∈ pairList nmol ms sp close, p.1 / ms < nmol ∧ p.1 % ms < p.2 % ms ∧ p.2 % ms < ms := by
  intro o
  have form : ∀ p, p ∈ pairList nmol ms sp close →
      ∃ m a b, m < nmol ∧ a < ms ∧ b < ms ∧ a < b ∧ p = (m * ms + a, m * ms + b) := by
    intro p hp
    obtain ⟨m, a, b, hm, ha, hb, hab, _, _, _, rfl⟩ := mem_pairList.mp hp
    exact ⟨m, a, b, hm, ha, hb, hab, rfl⟩
  refine ⟨?_, ?_, run_pairMolid, ?_⟩
  · rw [run_mask]
    apply List.map_congr_left
    intro p hp
    obtain ⟨m, a, b, _, ha, hb, _, rfl⟩ := form p hp
    simp only [mul_add_div m ha, mul_add_mod m ha, mul_add_mod m hb]
    unfold blockIdx; ring
  · rw [run_maskL]
    apply List.map_congr_left
    intro p hp
    obtain ⟨m, a, b, _, ha, hb, _, rfl⟩ := form p hp
    simp only [mul_add_div m ha, mul_add_mod m ha, mul_add_mod m hb]
    unfold blockIdx; ring
  · intro p hp
    obtain ⟨m, a, b, hm, ha, hb, hab, rfl⟩ := form p hp
    simp only [mul_add_div m ha, mul_add_mod m ha, mul_add_mod m hb]
    exact ⟨hm, hab, hb⟩

/-- no two pairs share a block, and no pair block is a diagonal (atom) block -/
theorem mask_injective (nmol ms : Nat) (sp : Nat → Nat) (close : Nat → Nat → Bool) :
    (run nmol ms sp close).mask.Nodup ∧
    ∀ x ∈ (run nmol ms sp close).mask, x ∉ (run nmol ms sp close).maskd := by
  obtain ⟨hmask, _, _, hform⟩ := mask_addresses_block nmol ms sp close
  constructor
  · rw [hmask]
    apply List.Nodup.map_on _ (pairList_nodup _ _ _ _)
    intro p hp q hq h
    obtain ⟨_, p2, p3⟩ := hform p hp
    obtain ⟨_, q2, q3⟩ := hform q hq
    obtain ⟨e1, e2, e3⟩ := blockIdx_injective (Nat.lt_trans p2 p3) p3 (Nat.lt_trans q2 q3) q3 h
    have hms : 0 < ms := Nat.lt_of_le_of_lt (Nat.zero_le _) p3
    have h3p := (mem_pairList'.mp hp).2.2.1
    have h3q := (mem_pairList'.mp hq).2.2.1
    apply Prod.ext
    · rw [← Nat.div_add_mod p.1 ms, ← Nat.div_add_mod q.1 ms, e1, e2]
    · rw [← Nat.div_add_mod p.2 ms, ← Nat.div_add_mod q.2 ms, ← h3p, ← h3q, e1, e3]
  · intro x hx hx'
    rw [hmask] at hx
    obtain ⟨p, hp, rfl⟩ := List.mem_map.mp hx
    rw [run_maskd] at hx'
    obtain ⟨i, hi, hi'⟩ := List.mem_map.mp hx'
    obtain ⟨_, p2, p3⟩ := hform p hp
    obtain ⟨_, d2, d3⟩ := flat_decomp (mem_realAtoms.mp hi).1
    rw [← d3, maskdAt_flat _ d2] at hi'
    obtain ⟨_, e2, e3⟩ := blockIdx_injective d2 d2 (Nat.lt_trans p2 p3) p3 hi'
    omega

/-- block `(m, a, b)` of the block array is the `(atom a, atom b)` sub-matrix of molecule `m` in
    the `(nmol, nbf*ms, nbf*ms)` matrices (`reshape_Hcore`, end of `fock`) -/
theorem block_is_atom_pair_submatrix {α : Type} (ms nbf : Nat) (M : Nat → Nat → Nat → α)
    (m a b x y : Nat) (hx : x < nbf) (hy : y < nbf) :
    Pack.reshapeHcore ms nbf M m (a * nbf + x) (b * nbf + y) = M (blockIdx ms m a b) x y := by
  unfold Pack.reshapeHcore blockIdx
  rw [mul_add_div a hx, mul_add_div b hy, mul_add_mod a hx, mul_add_mod b hy]

/-- the two block views are inverse to each other -/
theorem block_view_roundtrip {α : Type} (ms nbf : Nat) (M : Nat → Nat → Nat → α)
    (blk x y : Nat) (hx : x < nbf) (hy : y < nbf) :
    Pack.toBlocks ms nbf (Pack.reshapeHcore ms nbf M) blk x y = M blk x y := by
  unfold Pack.toBlocks Pack.reshapeHcore
  rw [mul_add_div _ hx, mul_add_div _ hy, mul_add_mod _ hx, mul_add_mod _ hy, ← flat_reconstruct]

theorem block_view_roundtrip' {α : Type} (ms nbf : Nat) (P : Nat → Nat → Nat → α)
    (m r c : Nat) (hr : r < nbf * ms) (hc : c < nbf * ms) :
    Pack.reshapeHcore ms nbf (Pack.toBlocks ms nbf P) m r c = P m r c := by
  have ha : r / nbf < ms := Nat.div_lt_of_lt_mul hr
  have hb : c / nbf < ms := Nat.div_lt_of_lt_mul hc
  obtain ⟨h1, h2, h3⟩ := blockIdx_decode m ha hb
  unfold blockIdx at h1 h2 h3
  unfold Pack.reshapeHcore Pack.toBlocks
  rw [h1, h2, h3, Nat.mul_comm (r / nbf), Nat.mul_comm (c / nbf), Nat.div_add_mod, Nat.div_add_mod]

/-! ## (5) pack / unpack (prototype B_14) -/

section pack
open Pack
variable {α : Type}

theorem down_up (nho i : Nat) : down nho (up nho i) = i := by
  unfold down up; split <;> rename_i h
  · simp
  · have : ¬ (nho + 4 * (i - nho) < nho) := by omega
    simp only [this, if_false]; omega

theorem up_isOrb (nho nH i : Nat) (hi : i < nho + nH) : isOrb nho nH (up nho i) = true := by
  unfold isOrb up; split <;> rename_i h
  · simp [h]
  · have h1 : nho ≤ nho + 4 * (i - nho) := by omega
    have h2 : nho + 4 * (i - nho) < nho + 4 * nH := by omega
    simp [h1, h2]

theorem up_lt (nho nH i : Nat) (hi : i < nho + nH) : up nho i < nho + 4 * nH := by
  unfold up; split <;> omega

theorem up_down (nho nH I : Nat) (h : isOrb nho nH I = true) : up nho (down nho I) = I := by
  unfold isOrb at h; unfold up down
  by_cases h1 : I < nho
  · simp [h1]
  · simp only [h1, decide_false, Bool.false_or, Bool.and_eq_true, decide_eq_true_eq, beq_iff_eq] at h
    have : ¬ (nho + (I - nho) / 4 < nho) := by omega
    simp only [h1, if_false, this]; omega

theorem down_lt (nho nH I : Nat) (h : isOrb nho nH I = true) : down nho I < nho + nH := by
  unfold isOrb at h; unfold down
  by_cases h1 : I < nho
  · simp only [h1, if_true]; omega
  · simp only [h1, decide_false, Bool.false_or, Bool.and_eq_true, decide_eq_true_eq, beq_iff_eq] at h
    simp only [h1, if_false]; omega

/-- `pack ∘ unpack = id` on the `norb × norb` block (`norb = nho + nH`), whenever the padded
    size can hold the layout (`nho + 4*nH ≤ size`, the precondition of the Python) -/
theorem pack_unpack (zero : α) (nho nH size : Nat) (hsize : nho + 4 * nH ≤ size) (y : Nat → Nat → α)
    (i j : Nat) (hi : i < nho + nH) (hj : j < nho + nH) :
    pack zero nho nH (unpack zero nho nH size y) i j = y i j := by
  have h1 := up_lt nho nH i hi
  have h2 := up_lt nho nH j hj
  simp only [pack, unpack, hi, hj, and_self, if_true, up_isOrb nho nH i hi, up_isOrb nho nH j hj,
    down_up, Nat.lt_of_lt_of_le h1 hsize, Nat.lt_of_lt_of_le h2 hsize]

/-- `unpack ∘ pack = id` on padded matrices that vanish outside the orbital rows/columns -/
theorem unpack_pack (zero : α) (nho nH size : Nat) (x : Nat → Nat → α)
    (hx : ∀ I J, ¬ (isOrb nho nH I = true ∧ isOrb nho nH J = true) → x I J = zero)
    (I J : Nat) (hI : I < size) (hJ : J < size) :
    unpack zero nho nH size (pack zero nho nH x) I J = x I J := by
  unfold unpack
  by_cases h : isOrb nho nH I = true ∧ isOrb nho nH J = true
  · rw [if_pos ⟨hI, hJ, h.1, h.2⟩]
    unfold pack
    rw [if_pos ⟨down_lt nho nH I h.1, down_lt nho nH J h.2⟩, up_down nho nH I h.1, up_down nho nH J h.2]
  · rw [if_neg (fun c => h ⟨c.2.2.1, c.2.2.2⟩)]
    exact (hx I J h).symm

/-- symmetric ↦ symmetric -/
theorem pack_symmetric (zero : α) (nho nH : Nat) (x : Nat → Nat → α) (hx : ∀ I J, x I J = x J I)
    (i j : Nat) : pack zero nho nH x i j = pack zero nho nH x j i := by
  unfold pack
  by_cases h : i < nho + nH ∧ j < nho + nH
  · rw [if_pos h, if_pos ⟨h.2, h.1⟩, hx]
  · rw [if_neg h, if_neg (fun c => h ⟨c.2, c.1⟩)]

theorem unpack_symmetric (zero : α) (nho nH size : Nat) (y : Nat → Nat → α) (hy : ∀ i j, y i j = y j i)
    (I J : Nat) : unpack zero nho nH size y I J = unpack zero nho nH size y J I := by
  unfold unpack
  by_cases h : I < size ∧ J < size ∧ isOrb nho nH I = true ∧ isOrb nho nH J = true
  · rw [if_pos h, if_pos ⟨h.2.1, h.1, h.2.2.2, h.2.2.1⟩, hy]
  · rw [if_neg h, if_neg (fun c => h ⟨c.2.1, c.1, c.2.2.2, c.2.2.1⟩)]

end pack

/-! ## (6) exchanging atoms of the same element -/

/-- Relabel the slots of a batch by a permutation `σ` (inverse `τ`) that only exchanges atoms of
    the same element inside a molecule (`Relabel`): slot `i` now holds the atom formerly in slot
    `σ i`, so the new species array is `sp ∘ σ` and the new closeness table `close (σ i) (σ j)`.
    Then the species array is literally unchanged, hence so is every output that does not read
    coordinates (`real_atoms, Z, nHeavy, nHydro, maskd, atom_molid`, electron counts/`nocc`), and
    the new pair list, mapped back through `σ` and re-oriented, is a permutation (`List.Perm`) of
    the old pair list: sums over pairs see the same multiset of atom pairs. -/
theorem same_element_relabel {nmol ms : Nat} {sp : Nat → Nat} {σ τ : Nat → Nat}
    (r : Relabel nmol ms sp σ τ) (close : Nat → Nat → Bool) (hsym : ∀ i j, close i j = close j i) :
    let sp' := fun i => sp (σ i)
    let close' := fun i j => close (σ i) (σ j)
    sp' = sp ∧
    realAtoms nmol ms sp' = realAtoms nmol ms sp ∧ Zs nmol ms sp' = Zs nmol ms sp ∧
    nHeavy nmol ms sp' = nHeavy nmol ms sp ∧ nHydro nmol ms sp' = nHydro nmol ms sp ∧
    maskd nmol ms sp' = maskd nmol ms sp ∧ atomMolid nmol ms sp' = atomMolid nmol ms sp ∧
    (∀ tore charge, noccRHF nmol ms sp' tore charge = noccRHF nmol ms sp tore charge) ∧
    (∀ tore charge mult, noccUHF nmol ms sp' tore charge mult = noccUHF nmol ms sp tore charge mult) ∧
    ((pairList nmol ms sp' close').map fun x => orient (σ x.1, σ x.2)).Perm
      (pairList nmol ms sp close) := by
  intro sp' close'
  have h : sp' = sp := r.sp_comp
  refine ⟨h, by rw [h], by rw [h], by rw [h], by rw [h], by rw [h], by rw [h],
    fun _ _ => by rw [h], fun _ _ _ => by rw [h], r.pairList_perm close hsym⟩

/-- the special case named in the property: swapping two slots `p, q` of the same molecule that
    hold the same element -/
theorem same_element_swap {nmol ms : Nat} {sp : Nat → Nat} {p q : Nat}
    (hp : p < nmol * ms) (hq : q < nmol * ms) (hmol : p / ms = q / ms) (hsp : sp p = sp q)
    (close : Nat → Nat → Bool) (hsym : ∀ i j, close i j = close j i) :
    let σ := swapIdx p q
    let sp' := fun i => sp (σ i)
    let close' := fun i j => close (σ i) (σ j)
    sp' = sp ∧
    realAtoms nmol ms sp' = realAtoms nmol ms sp ∧ Zs nmol ms sp' = Zs nmol ms sp ∧
    nHeavy nmol ms sp' = nHeavy nmol ms sp ∧ nHydro nmol ms sp' = nHydro nmol ms sp ∧
    maskd nmol ms sp' = maskd nmol ms sp ∧ atomMolid nmol ms sp' = atomMolid nmol ms sp ∧
    (∀ tore charge, noccRHF nmol ms sp' tore charge = noccRHF nmol ms sp tore charge) ∧
    (∀ tore charge mult, noccUHF nmol ms sp' tore charge mult = noccUHF nmol ms sp tore charge mult) ∧
    ((pairList nmol ms sp' close').map fun x => orient (σ x.1, σ x.2)).Perm
      (pairList nmol ms sp close) :=
  same_element_relabel (swap_relabel hp hq hmol hsp) close hsym

/-! ## batches given as lists of rows -/

/-- The list-of-rows entry point `forward` is `run` on the flattened species; molecule `m` computed
    alone through `forward [row m]` is exactly the `run 1 ms (molSp …)` of the theorems above. -/
theorem forward_is_run (species : List (List Nat)) (ms : Nat) (hrows : ∀ r ∈ species, r.length = ms)
    (hne : species ≠ []) (close : Nat → Nat → Bool) :
    forward species close = run species.length ms (spOf species) close ∧
    ∀ m (hm : m < species.length) (close0 : Nat → Nat → Bool),
      forward [species[m]] close0 = run 1 ms (molSp ms (spOf species) m) close0 :=
  ⟨forward_batch species ms hrows hne close, fun m hm close0 => forward_row species ms hrows m hm close0⟩

/-! ## non-vacuity: a concrete padded 2-molecule batch -/

/-- H2O (O,H,H + 1 padding slot) and CH4-fragment (C,H,H,H) -/
def exSpecies : List (List Nat) := [[8, 1, 1, 0], [6, 1, 1, 1]]
/-- everything close except atoms 4 and 7 -/
def exClose : Nat → Nat → Bool := fun i j => !((i == 4 && j == 7) || (i == 7 && j == 4))

example : (forward exSpecies exClose).real = [0, 1, 2, 4, 5, 6, 7] := by decide
example : (forward exSpecies exClose).maskd = [0, 5, 10, 16, 21, 26, 31] := by decide
example : (forward exSpecies exClose).idxi = [0, 0, 1, 3, 3, 4, 4, 5] := by decide
example : (forward exSpecies exClose).idxj = [1, 2, 2, 4, 5, 5, 6, 6] := by decide
example : (forward exSpecies exClose).mask = [1, 2, 6, 17, 18, 22, 23, 27] := by decide
example : (forward exSpecies exClose).pairMolid = [0, 0, 0, 1, 1, 1, 1, 1] := by decide
example : (forward exSpecies exClose).nHeavy = [1, 1] ∧ (forward exSpecies exClose).nHydro = [2, 3] := by
  decide

/-- the same batch stored with 2 more padding columns satisfies `Grown` -/
def exSpecies' : List (List Nat) := [[8, 1, 1, 0, 0, 0], [6, 1, 1, 1, 0, 0]]
def exClose' : Nat → Nat → Bool := fun i j => !((i == 6 && j == 9) || (i == 9 && j == 6))

example : Grown 2 4 2 (spOf exSpecies) (spOf exSpecies') exClose exClose' := by
  have h1 : ∀ m, m < 2 → ∀ a, a < 4 + 2 →
      spOf exSpecies' (m * (4 + 2) + a) = if a < 4 then spOf exSpecies (m * 4 + a) else 0 := by decide
  have h2 : ∀ m, m < 2 → ∀ b, b < 4 → ∀ a, a < b → 0 < spOf exSpecies (m * 4 + a) →
      0 < spOf exSpecies (m * 4 + b) →
      exClose' (m * (4 + 2) + a) (m * (4 + 2) + b) = exClose (m * 4 + a) (m * 4 + b) := by decide
  exact ⟨fun m a hm ha => h1 m hm a ha, fun m a b hm hab hb => h2 m hm b hb a hab⟩

example : (forward exSpecies' exClose').idxi = (forward exSpecies exClose).idxi ∧
    (forward exSpecies' exClose').mask = (forward exSpecies exClose).mask.map (reblock 4 6) := by
  decide

/-- garbage in the closeness entries of the padding slot 3 changes nothing -/
example : run 2 4 (spOf exSpecies) exClose =
    run 2 4 (spOf exSpecies) (fun i j => (exClose i j != (i == 3)) != (j == 3)) := by
  apply padding_independent_close
  have h : ∀ j, j < 2 * 4 → ∀ i, i < j → i / 4 = j / 4 → 0 < spOf exSpecies i → 0 < spOf exSpecies j →
      exClose i j = ((exClose i j != (i == 3)) != (j == 3)) := by decide
  exact fun i j h1 h2 => h j h2 i h1

/-- water: 1 heavy atom, 2 hydrogens, `size = 4*molsize = 16 ≥ 4 + 4*2` -/
example : Pack.pack (0 : Nat) 4 2 (Pack.unpack 0 4 2 16 (fun i j => 10 * i + j + 1)) 5 4 = 55 :=
  pack_unpack 0 4 2 16 (by decide) _ 5 4 (by decide) (by decide)

/-- the two hydrogens of the water molecule (slots 1, 2) can be swapped: `Relabel` is satisfiable -/
example : Relabel 2 4 (spOf exSpecies) (swapIdx 1 2) (swapIdx 1 2) :=
  swap_relabel (by decide) (by decide) (by decide) (by decide)

end C05
