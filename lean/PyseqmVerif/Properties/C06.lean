import PyseqmVerif.Proofs.NDDOLemmas
/-!
# C06 — the energies equal the published NDDO model (integral layer, Fock contraction, additive terms)

Model: `PyseqmVerif/Model/NDDO.lean` (code-shaped functions mirroring
`two_elec_two_center_int_local_frame.py`, `fock.py::_one_center/_two_center`, `cal_par.py`, and the
Dewar–Thiel point-charge SPECIFICATION `riSpec`).  All theorems are over `ℝ` with `Real.sqrt`.

Contents
1. Klopman–Ohno kernel: `ko_symmetric`, `ko_positive`, `ko_le_coulomb`, `ko_lt_coulomb`,
   `ko_one_center_limit`.
2. `ri_eq_multipole_sums` (ALL 22 integrals; per index `ri_eq_spec_k`), `riHH_eq_riSpec`,
   `ri_ss_ss_is_ko`, `ri21_axial_identity`, `ri21_ne_square_quadrupole_counterexample`,
   `riXH_eq_multipole_sums`, `riXH_eq_riHH_prefix`, `riHyd_eq`.
3. index tables: `K_ind_4_is_tril_index`, `WEIGHT_10_spec`, `TRIL_IDX_4_row_major`, `TRIL_IDX_4_onto`,
   `K_ind_4_inverts_TRIL`, `eri_bra_ket_symmetry`, `eri_pair_symmetry`.
4. `two_center_G_linear`, `G_linear`, `two_center_eq_textbook`, `two_center_G_symmetric`, `G_self_adjoint`.
5. `one_center_factors_published`, `oneCenterERI_symmetry`.
6. `rho_residual_characterisation`, `rho1_residual_strictAnti`, `rho1_unique`, `rho2_residual_strictAnti`,
   `rho2_unique`.
-/
namespace C06
open NDDO Generated.FockTables Finset


/-! ## 1. the Klopman–Ohno kernel -/

theorem ko_eq (ev r ρ : ℝ) : ko Real.sqrt ev r ρ = ev / Real.sqrt (r ^ 2 + ρ ^ 2) := by
  simp only [ko, isq, sqr]; norm_num; ring_nf

/-- the kernel does not distinguish the two centres: symmetric in the two additive terms and even
    in the separation -/
theorem ko_symmetric (ev r ρa ρb : ℝ) :
    ko Real.sqrt ev r (ρa + ρb) = ko Real.sqrt ev r (ρb + ρa) ∧
    ko Real.sqrt ev (-r) (ρa + ρb) = ko Real.sqrt ev r (ρa + ρb) := by
  constructor
  · rw [add_comm]
  · simp only [ko_eq]; ring_nf

theorem ko_positive {ev r ρ : ℝ} (hev : 0 < ev) (h : r ≠ 0 ∨ ρ ≠ 0) : 0 < ko Real.sqrt ev r ρ := by
  rw [ko_eq]
  have : 0 < r ^ 2 + ρ ^ 2 := by
    rcases h with h | h
    · have := pow_pos (abs_pos.mpr h) 2; rw [sq_abs] at this; nlinarith [sq_nonneg ρ]
    · have := pow_pos (abs_pos.mpr h) 2; rw [sq_abs] at this; nlinarith [sq_nonneg r]
  exact div_pos hev (Real.sqrt_pos.mpr this)

/-- the semiempirical integral never exceeds the point-charge Coulomb value `ev/R` -/
theorem ko_le_coulomb {ev r ρ : ℝ} (hev : 0 ≤ ev) (hr : 0 < r) : ko Real.sqrt ev r ρ ≤ ev / r := by
  rw [ko_eq]
  have h : r ≤ Real.sqrt (r ^ 2 + ρ ^ 2) := Real.le_sqrt_of_sq_le (by nlinarith [sq_nonneg ρ])
  exact div_le_div_of_nonneg_left hev hr h

theorem ko_lt_coulomb {ev r ρ : ℝ} (hev : 0 < ev) (hr : 0 < r) (hρ : ρ ≠ 0) : ko Real.sqrt ev r ρ < ev / r := by
  rw [ko_eq]
  have hp : 0 < ρ ^ 2 := by have := pow_pos (abs_pos.mpr hρ) 2; rwa [sq_abs] at this
  have h : r < Real.sqrt (r ^ 2 + ρ ^ 2) := Real.lt_sqrt_of_sq_lt (by linarith)
  exact div_lt_div_of_pos_left hev hr h

/-- one-centre limit: with `ρ₀ = 0.5·ev/g_ss` (the code's `rho_0`) the kernel at `R = 0` is `g_ss` -/
theorem ko_one_center_limit {ev gss : ℝ} (hev : 0 < ev) (hg : 0 < gss) :
    ko Real.sqrt ev 0 (0.5 * ev / gss + 0.5 * ev / gss) = gss := by
  rw [ko_eq]
  have h : (0:ℝ) ^ 2 + (0.5 * ev / gss + 0.5 * ev / gss) ^ 2 = (ev / gss) ^ 2 := by ring
  rw [h, Real.sqrt_sq (by positivity)]
  field_simp

example : ko Real.sqrt 1 3 4 = 1 / 5 := by
  rw [ko_eq]; rw [show (3:ℝ) ^ 2 + 4 ^ 2 = 5 ^ 2 by norm_num, Real.sqrt_sq (by norm_num)]


/-! ## 2. the 22 local-frame integrals are the Dewar–Thiel point-charge double sums -/

section ri
variable (ev r da db qa qb ρ0a ρ0b ρ1a ρ1b ρ2a ρ2b : ℝ)

/-- `ri[0]`: (ss|ss) = [q,q] -/
theorem ri_eq_spec_0 : riC ev r da db qa qb ρ0a ρ0b ρ1a ρ1b ρ2a ρ2b 0 = riS ev r da db qa qb ρ0a ρ0b ρ1a ρ1b ρ2a ρ2b 0 := by
  nddo_ring
/-- `ri[1]`: (sσ|ss) = [μz,q] -/
theorem ri_eq_spec_1 : riC ev r da db qa qb ρ0a ρ0b ρ1a ρ1b ρ2a ρ2b 1 = riS ev r da db qa qb ρ0a ρ0b ρ1a ρ1b ρ2a ρ2b 1 := by
  nddo_ring
/-- `ri[2]`: (σσ|ss) = [q,q]+[Qzz,q] -/
theorem ri_eq_spec_2 : riC ev r da db qa qb ρ0a ρ0b ρ1a ρ1b ρ2a ρ2b 2 = riS ev r da db qa qb ρ0a ρ0b ρ1a ρ1b ρ2a ρ2b 2 := by
  nddo_ring
/-- `ri[3]`: (ππ|ss) = [q,q]+[Qxx,q] -/
theorem ri_eq_spec_3 : riC ev r da db qa qb ρ0a ρ0b ρ1a ρ1b ρ2a ρ2b 3 = riS ev r da db qa qb ρ0a ρ0b ρ1a ρ1b ρ2a ρ2b 3 := by
  nddo_ring
/-- `ri[4]`: (ss|σs) = [q,μz] -/
theorem ri_eq_spec_4 : riC ev r da db qa qb ρ0a ρ0b ρ1a ρ1b ρ2a ρ2b 4 = riS ev r da db qa qb ρ0a ρ0b ρ1a ρ1b ρ2a ρ2b 4 := by
  nddo_ring
/-- `ri[5]`: (sσ|sσ) = [μz,μz] -/
theorem ri_eq_spec_5 : riC ev r da db qa qb ρ0a ρ0b ρ1a ρ1b ρ2a ρ2b 5 = riS ev r da db qa qb ρ0a ρ0b ρ1a ρ1b ρ2a ρ2b 5 := by
  nddo_ring
/-- `ri[6]`: (sπ|sπ) = [μx,μx] -/
theorem ri_eq_spec_6 : riC ev r da db qa qb ρ0a ρ0b ρ1a ρ1b ρ2a ρ2b 6 = riS ev r da db qa qb ρ0a ρ0b ρ1a ρ1b ρ2a ρ2b 6 := by
  nddo_ring
/-- `ri[7]`: (σσ|sσ) = [q,μz]+[Qzz,μz] -/
theorem ri_eq_spec_7 : riC ev r da db qa qb ρ0a ρ0b ρ1a ρ1b ρ2a ρ2b 7 = riS ev r da db qa qb ρ0a ρ0b ρ1a ρ1b ρ2a ρ2b 7 := by
  nddo_ring
/-- `ri[8]`: (ππ|sσ) = [q,μz]+[Qxx,μz] -/
theorem ri_eq_spec_8 : riC ev r da db qa qb ρ0a ρ0b ρ1a ρ1b ρ2a ρ2b 8 = riS ev r da db qa qb ρ0a ρ0b ρ1a ρ1b ρ2a ρ2b 8 := by
  nddo_ring
/-- `ri[9]`: (πσ|sπ) = [Qxz,μx] -/
theorem ri_eq_spec_9 : riC ev r da db qa qb ρ0a ρ0b ρ1a ρ1b ρ2a ρ2b 9 = riS ev r da db qa qb ρ0a ρ0b ρ1a ρ1b ρ2a ρ2b 9 := by
  nddo_ring
/-- `ri[10]`: (ss|σσ) = [q,q]+[q,Qzz] -/
theorem ri_eq_spec_10 : riC ev r da db qa qb ρ0a ρ0b ρ1a ρ1b ρ2a ρ2b 10 = riS ev r da db qa qb ρ0a ρ0b ρ1a ρ1b ρ2a ρ2b 10 := by
  nddo_ring
/-- `ri[11]`: (ss|ππ) = [q,q]+[q,Qxx] -/
theorem ri_eq_spec_11 : riC ev r da db qa qb ρ0a ρ0b ρ1a ρ1b ρ2a ρ2b 11 = riS ev r da db qa qb ρ0a ρ0b ρ1a ρ1b ρ2a ρ2b 11 := by
  nddo_ring
/-- `ri[12]`: (sσ|σσ) = [μz,q]+[μz,Qzz] -/
theorem ri_eq_spec_12 : riC ev r da db qa qb ρ0a ρ0b ρ1a ρ1b ρ2a ρ2b 12 = riS ev r da db qa qb ρ0a ρ0b ρ1a ρ1b ρ2a ρ2b 12 := by
  nddo_ring
/-- `ri[13]`: (sσ|ππ) = [μz,q]+[μz,Qxx] -/
theorem ri_eq_spec_13 : riC ev r da db qa qb ρ0a ρ0b ρ1a ρ1b ρ2a ρ2b 13 = riS ev r da db qa qb ρ0a ρ0b ρ1a ρ1b ρ2a ρ2b 13 := by
  nddo_ring
/-- `ri[14]`: (sπ|σπ) = [μx,Qxz] -/
theorem ri_eq_spec_14 : riC ev r da db qa qb ρ0a ρ0b ρ1a ρ1b ρ2a ρ2b 14 = riS ev r da db qa qb ρ0a ρ0b ρ1a ρ1b ρ2a ρ2b 14 := by
  nddo_ring
/-- `ri[15]`: (σσ|σσ) = [q,q]+[q,Qzz]+[Qzz,q]+[Qzz,Qzz] -/
theorem ri_eq_spec_15 : riC ev r da db qa qb ρ0a ρ0b ρ1a ρ1b ρ2a ρ2b 15 = riS ev r da db qa qb ρ0a ρ0b ρ1a ρ1b ρ2a ρ2b 15 := by
  nddo_ring
/-- `ri[16]`: (ππ|σσ) = [q,q]+[q,Qzz]+[Qxx,q]+[Qxx,Qzz] -/
theorem ri_eq_spec_16 : riC ev r da db qa qb ρ0a ρ0b ρ1a ρ1b ρ2a ρ2b 16 = riS ev r da db qa qb ρ0a ρ0b ρ1a ρ1b ρ2a ρ2b 16 := by
  nddo_ring
/-- `ri[17]`: (σσ|ππ) = [q,q]+[q,Qxx]+[Qzz,q]+[Qzz,Qxx] -/
theorem ri_eq_spec_17 : riC ev r da db qa qb ρ0a ρ0b ρ1a ρ1b ρ2a ρ2b 17 = riS ev r da db qa qb ρ0a ρ0b ρ1a ρ1b ρ2a ρ2b 17 := by
  nddo_ring
/-- `ri[18]`: (ππ|ππ) = [q,q]+[q,Qxx]+[Qxx,q]+[Qxx,Qxx] -/
theorem ri_eq_spec_18 : riC ev r da db qa qb ρ0a ρ0b ρ1a ρ1b ρ2a ρ2b 18 = riS ev r da db qa qb ρ0a ρ0b ρ1a ρ1b ρ2a ρ2b 18 := by
  nddo_ring
/-- `ri[19]`: (πσ|πσ) = [Qxz,Qxz] -/
theorem ri_eq_spec_19 : riC ev r da db qa qb ρ0a ρ0b ρ1a ρ1b ρ2a ρ2b 19 = riS ev r da db qa qb ρ0a ρ0b ρ1a ρ1b ρ2a ρ2b 19 := by
  nddo_ring
/-- `ri[20]`: (ππ|π'π') = [q,q]+[q,Qyy]+[Qxx,q]+[Qxx,Qyy] -/
theorem ri_eq_spec_20 : riC ev r da db qa qb ρ0a ρ0b ρ1a ρ1b ρ2a ρ2b 20 = riS ev r da db qa qb ρ0a ρ0b ρ1a ρ1b ρ2a ρ2b 20 := by
  nddo_ring
/-- `ri[21]`: (π'π|π'π) = ½[(ππ|ππ) − (ππ|π'π')] (rotational-invariance prescription, see `ri21_*`) -/
theorem ri_eq_spec_21 : riC ev r da db qa qb ρ0a ρ0b ρ1a ρ1b ρ2a ρ2b 21 = riS ev r da db qa qb ρ0a ρ0b ρ1a ρ1b ρ2a ρ2b 21 := by
  nddo_ring

/-- ALL 22 integrals: the code-shaped closed forms equal the multipole point-charge double sums
    (index 21 in its rotational-invariance form, as published for MNDO and implemented in MOPAC) -/
theorem ri_eq_multipole_sums :
    ∀ k < 22, riC ev r da db qa qb ρ0a ρ0b ρ1a ρ1b ρ2a ρ2b k = riS ev r da db qa qb ρ0a ρ0b ρ1a ρ1b ρ2a ρ2b k := by
  intro k hk
  interval_cases k
  · exact ri_eq_spec_0 ..
  · exact ri_eq_spec_1 ..
  · exact ri_eq_spec_2 ..
  · exact ri_eq_spec_3 ..
  · exact ri_eq_spec_4 ..
  · exact ri_eq_spec_5 ..
  · exact ri_eq_spec_6 ..
  · exact ri_eq_spec_7 ..
  · exact ri_eq_spec_8 ..
  · exact ri_eq_spec_9 ..
  · exact ri_eq_spec_10 ..
  · exact ri_eq_spec_11 ..
  · exact ri_eq_spec_12 ..
  · exact ri_eq_spec_13 ..
  · exact ri_eq_spec_14 ..
  · exact ri_eq_spec_15 ..
  · exact ri_eq_spec_16 ..
  · exact ri_eq_spec_17 ..
  · exact ri_eq_spec_18 ..
  · exact ri_eq_spec_19 ..
  · exact ri_eq_spec_20 ..
  · exact ri_eq_spec_21 ..

/-- the two lists have exactly 22 entries, so the lists themselves coincide -/
theorem riHH_eq_riSpec :
    riHH Real.sqrt ev r da db qa qb ρ0a ρ0b ρ1a ρ1b ρ2a ρ2b
      = riSpec Real.sqrt ev r ⟨da, qa, ρ0a, ρ1a, ρ2a⟩ ⟨db, qb, ρ0b, ρ1b, ρ2b⟩ := by
  apply List.ext_getElem?
  intro k
  by_cases hk : k < 22
  · have h := ri_eq_multipole_sums ev r da db qa qb ρ0a ρ0b ρ1a ρ1b ρ2a ρ2b k hk
    have l1 : (riHH Real.sqrt ev r da db qa qb ρ0a ρ0b ρ1a ρ1b ρ2a ρ2b).length = 22 := by simp [riHH]
    have l2 : (riSpec Real.sqrt ev r ⟨da, qa, ρ0a, ρ1a, ρ2a⟩ ⟨db, qb, ρ0b, ρ1b, ρ2b⟩).length = 22 := by simp [riSpec]
    simp only [riC, riS, List.getD_eq_getElem?_getD] at h
    rw [List.getElem?_eq_getElem (by omega), List.getElem?_eq_getElem (by omega)] at h ⊢
    simpa using h
  · have l1 : (riHH Real.sqrt ev r da db qa qb ρ0a ρ0b ρ1a ρ1b ρ2a ρ2b).length = 22 := by simp [riHH]
    have l2 : (riSpec Real.sqrt ev r ⟨da, qa, ρ0a, ρ1a, ρ2a⟩ ⟨db, qb, ρ0b, ρ1b, ρ2b⟩).length = 22 := by simp [riSpec]
    rw [List.getElem?_eq_none (by omega), List.getElem?_eq_none (by omega)]

/-- `(ss|ss) = ev/√(R² + (ρ0a+ρ0b)²)` -/
theorem ri_ss_ss_is_ko :
    riC ev r da db qa qb ρ0a ρ0b ρ1a ρ1b ρ2a ρ2b 0 = ko Real.sqrt ev r (ρ0a + ρ0b) ∧
    riC ev r da db qa qb ρ0a ρ0b ρ1a ρ1b ρ2a ρ2b 0 = ev / Real.sqrt (r ^ 2 + (ρ0a + ρ0b) ^ 2) := by
  constructor
  · nddo_unfold
  · nddo_ring

/-- the code computes `ri[21] = 0.5*(qxxqxx - qxxqyy)`; this is `½(ri[18] − ri[20])` -/
theorem ri21_axial_identity :
    riC ev r da db qa qb ρ0a ρ0b ρ1a ρ1b ρ2a ρ2b 21 =
      1 / 2 * (riC ev r da db qa qb ρ0a ρ0b ρ1a ρ1b ρ2a ρ2b 18 - riC ev r da db qa qb ρ0a ρ0b ρ1a ρ1b ρ2a ρ2b 20) := by
  nddo_ring

/-- closed form of the code's `ri[21]` (`s = ρ2a+ρ2b`, `qa qb` un-doubled) -/
theorem ri21_closed :
    riC ev r da db qa qb ρ0a ρ0b ρ1a ρ1b ρ2a ρ2b 21 =
      ev * (1 / 16 * (1 / Real.sqrt (r ^ 2 + 4 * (qa - qb) ^ 2 + (ρ2a + ρ2b) ^ 2))
          + 1 / 16 * (1 / Real.sqrt (r ^ 2 + 4 * (qa + qb) ^ 2 + (ρ2a + ρ2b) ^ 2))
          - 1 / 8 * (1 / Real.sqrt (r ^ 2 + 4 * qa ^ 2 + 4 * qb ^ 2 + (ρ2a + ρ2b) ^ 2))) := by
  nddo_ring

/-- closed form of the square-quadrupole double sum `[Q_xy,Q_xy]` (Dewar–Thiel point charges) -/
theorem specQxyQxy_closed :
    specQxyQxy Real.sqrt ev r ⟨da, qa, ρ0a, ρ1a, ρ2a⟩ ⟨db, qb, ρ0b, ρ1b, ρ2b⟩ =
      ev * (1 / 4 * (1 / Real.sqrt (r ^ 2 + 2 * (qa - qb) ^ 2 + (ρ2a + ρ2b) ^ 2))
          + 1 / 4 * (1 / Real.sqrt (r ^ 2 + 2 * (qa + qb) ^ 2 + (ρ2a + ρ2b) ^ 2))
          - 1 / 2 * (1 / Real.sqrt (r ^ 2 + 2 * qa ^ 2 + 2 * qb ^ 2 + (ρ2a + ρ2b) ^ 2))) := by
  nddo_ring

end ri

/-- FINDING (known MNDO convention, not a defect w.r.t. MOPAC): the last integral `(π'π|π'π)` of the
    code is NOT the point-charge double sum of two square quadrupoles `[Q_xy,Q_xy]`; witness
    `ev = 1, R = 4, D₂ = 1 (both atoms), ρ₂ = 3/2 (both atoms)`: code ≈ 5.0e-4, `[Q_xy,Q_xy]` ≈ 6.7e-4 -/
theorem ri21_ne_square_quadrupole_counterexample :
    riC 1 4 1 1 1 1 1 1 1 1 (3/2) (3/2) 21 < specQxyQxy Real.sqrt 1 4 ⟨1, 1, 1, 1, 3/2⟩ ⟨1, 1, 1, 1, 3/2⟩ ∧
    riC 1 4 1 1 1 1 1 1 1 1 (3/2) (3/2) 21 ≠ specQxyQxy Real.sqrt 1 4 ⟨1, 1, 1, 1, 3/2⟩ ⟨1, 1, 1, 1, 3/2⟩ := by
  have key : riC 1 4 1 1 1 1 1 1 1 1 (3/2) (3/2) 21 <
      specQxyQxy Real.sqrt 1 4 ⟨1, 1, 1, 1, 3/2⟩ ⟨1, 1, 1, 1, 3/2⟩ := by
    rw [ri21_closed, specQxyQxy_closed]
    norm_num
    have h25 : Real.sqrt 25 = 5 := by
      rw [show (25:ℝ) = 5 ^ 2 by norm_num, Real.sqrt_sq (by norm_num)]
    obtain ⟨a1, a2⟩ := inv_sqrt_bounds (x := 41) (lo := 6.4031) (hi := 6.4032) (by norm_num) (by norm_num) (by norm_num) (by norm_num)
    obtain ⟨b1, b2⟩ := inv_sqrt_bounds (x := 33) (lo := 5.7445) (hi := 5.7446) (by norm_num) (by norm_num) (by norm_num) (by norm_num)
    obtain ⟨c1, c2⟩ := inv_sqrt_bounds (x := 29) (lo := 5.3851) (hi := 5.3852) (by norm_num) (by norm_num) (by norm_num) (by norm_num)
    simp only [h25, one_div] at *
    norm_num at *
    linarith
  exact ⟨key, ne_of_lt key⟩



/-! ## 3. the index tables of `fock.py` (regenerated from the live code) -/

/-- `K_ind_4[i][j]` is the row-major lower-triangle index of `(max i j, min i j)` -/
theorem K_ind_4_is_tril_index : ∀ i < 4, ∀ j < 4, kind i j = tri (max i j) (min i j) := by decide
theorem K_ind_4_symmetric : ∀ i < 4, ∀ j < 4, kind i j = kind j i := by decide
theorem K_ind_4_range : ∀ i < 4, ∀ j < 4, kind i j < 10 := by decide
/-- `WEIGHT_10[t]` is 1 on the diagonal entries of `TRIL_IDX_4` and 2 elsewhere -/
theorem WEIGHT_10_spec : ∀ t < 10, WEIGHT_10.getD t 0 = if i0 t = i1 t then 1 else 2 := by decide
/-- `TRIL_IDX_4` enumerates the lower triangle (incl. diagonal) in row-major order, bijectively -/
theorem TRIL_IDX_4_row_major : ∀ t < 10, i1 t ≤ i0 t ∧ i0 t < 4 ∧ tri (i0 t) (i1 t) = t := by decide
theorem TRIL_IDX_4_onto : ∀ i < 4, ∀ j ≤ i, tri i j < 10 ∧ i0 (tri i j) = i ∧ i1 (tri i j) = j := by decide
/-- `K_ind_4` inverts `TRIL_IDX_4` (both orders of the pair) -/
theorem K_ind_4_inverts_TRIL : ∀ t < 10, kind (i1 t) (i0 t) = t ∧ kind (i0 t) (i1 t) = t := by decide
theorem table_shapes : K_ind_4.length = 16 ∧ TRIL_IDX_4.length = 20 ∧ WEIGHT_10.length = 10 ∧
    P_INDEX_3 = [1, 2, 3] ∧ List.zip P_OFF_I P_OFF_J = [(1, 2), (1, 3), (2, 3)] := by decide

/-- what the packed layout encodes: `(μν|λσ)` is read at `w[K_ind[μ][ν], K_ind[λ][σ]]`, hence it is
    invariant under `μ↔ν` and under `λ↔σ` (for ANY content of `w`) -/
theorem eri_bra_ket_symmetry (w : ℕ → ℕ → ℝ) :
    ∀ m < 4, ∀ n < 4, ∀ l < 4, ∀ s < 4,
      eri w m n l s = eri w n m l s ∧ eri w m n l s = eri w m n s l := by
  intro m hm n hn l hl s hs
  simp only [eri, K_ind_4_symmetric m hm n hn, K_ind_4_symmetric l hl s hs, and_self]



/-! ## 4. the two-electron operator: linear, symmetric, self-adjoint -/

/-- `c•P + d•Q` blockwise -/
def lin (c d : ℝ) (P Q : Blk ℝ) : Blk ℝ := fun i j => c * P i j + d * Q i j

theorem scatter_fold_lin (L : List ℕ) (c d : ℝ) (J K : ℕ → ℝ) (i j : ℕ) :
    ∀ (B BJ BK : Blk ℝ), B i j = c * BJ i j + d * BK i j →
    (L.foldl (fun B t => setAt B (i1 t) (i0 t) (c * J t + d * K t)) B) i j
      = c * (L.foldl (fun B t => setAt B (i1 t) (i0 t) (J t)) BJ) i j
        + d * (L.foldl (fun B t => setAt B (i1 t) (i0 t) (K t)) BK) i j := by
  induction L with
  | nil => intro B BJ BK h; simpa using h
  | cons a L ih =>
    intro B BJ BK h
    simp only [List.foldl_cons]
    apply ih
    simp only [setAt]
    split_ifs
    · rfl
    · exact h

theorem scatterU_lin (c d : ℝ) (J K : ℕ → ℝ) (i j : ℕ) :
    scatterU (fun t => c * J t + d * K t) i j = c * scatterU J i j + d * scatterU K i j := by
  unfold scatterU
  apply scatter_fold_lin
  norm_num

theorem jA_lin (w : ℕ → ℕ → ℝ) (c d : ℝ) (P Q : Blk ℝ) (k : ℕ) :
    jA w (lin c d P Q) k = c * jA w P k + d * jA w Q k := by
  simp only [jA, sumTo_eq_sum, packU, lin, Finset.mul_sum, ← Finset.sum_add_distrib]
  apply Finset.sum_congr rfl; intros; ring

theorem jB_lin (w : ℕ → ℕ → ℝ) (c d : ℝ) (P Q : Blk ℝ) (t : ℕ) :
    jB w (lin c d P Q) t = c * jB w P t + d * jB w Q t := by
  simp only [jB, sumTo_eq_sum, packU, lin, Finset.mul_sum, ← Finset.sum_add_distrib]
  apply Finset.sum_congr rfl; intros; ring

theorem kSum_lin (w : ℕ → ℕ → ℝ) (c d : ℝ) (P Q : Blk ℝ) (i j : ℕ) :
    kSum w (lin c d P Q) i j = c * kSum w P i j + d * kSum w Q i j := by
  simp only [kSum, sumTo_eq_sum, lin, Finset.mul_sum, ← Finset.sum_add_distrib]
  apply Finset.sum_congr rfl; intros
  apply Finset.sum_congr rfl; intros; ring

/-- the modelled J/K contraction is linear in the density (additive and homogeneous), for every
    entry of the three blocks it writes -/
theorem two_center_G_linear (w : ℕ → ℕ → ℝ) (c d : ℝ) (PA PB PAB QA QB QAB : Blk ℝ) (i j : ℕ) :
    (twoCenterJK w (lin c d PA QA) (lin c d PB QB) (lin c d PAB QAB)).fA i j
        = c * (twoCenterJK w PA PB PAB).fA i j + d * (twoCenterJK w QA QB QAB).fA i j ∧
    (twoCenterJK w (lin c d PA QA) (lin c d PB QB) (lin c d PAB QAB)).fB i j
        = c * (twoCenterJK w PA PB PAB).fB i j + d * (twoCenterJK w QA QB QAB).fB i j ∧
    (twoCenterJK w (lin c d PA QA) (lin c d PB QB) (lin c d PAB QAB)).fAB i j
        = c * (twoCenterJK w PA PB PAB).fAB i j + d * (twoCenterJK w QA QB QAB).fAB i j := by
  simp only [twoCenterJK]
  refine ⟨?_, ?_, ?_⟩
  · rw [← scatterU_lin]; congr 1; funext t; exact jB_lin w c d PB QB t
  · rw [← scatterU_lin]; congr 1; funext t; exact jA_lin w c d PA QA t
  · exact kSum_lin w c d PAB QAB i j

theorem oneCenterTmp_lin (gss gsp gpp gp2 hsp c d : ℝ) (P Q : Blk ℝ) : ∀ i < 4, ∀ j < 4,
    oneCenterTmp gss gsp gpp gp2 hsp (lin c d P Q) i j
      = c * oneCenterTmp gss gsp gpp gp2 hsp P i j + d * oneCenterTmp gss gsp gpp gp2 hsp Q i j := by
  intro i hi j hj
  interval_cases i <;> interval_cases j <;>
    norm_num [oneCenterTmp, setAt, lin, P_INDEX_3, P_OFF_I, P_OFF_J] <;> ring


/-- linearity of the whole two-atom operator `G` (one-centre + two-centre, mirrored) -/
theorem G_linear (pa pb : Par ℝ) (w : ℕ → ℕ → ℝ) (c d : ℝ) (P Q : Mat2 ℝ) : ∀ i < 4, ∀ j < 4,
    let R : Mat2 ℝ := ⟨lin c d P.a Q.a, lin c d P.b Q.b, lin c d P.ab Q.ab⟩
    (gTwoAtoms pa pb w R).a i j = c * (gTwoAtoms pa pb w P).a i j + d * (gTwoAtoms pa pb w Q).a i j ∧
    (gTwoAtoms pa pb w R).b i j = c * (gTwoAtoms pa pb w P).b i j + d * (gTwoAtoms pa pb w Q).b i j ∧
    (gTwoAtoms pa pb w R).ab i j = c * (gTwoAtoms pa pb w P).ab i j + d * (gTwoAtoms pa pb w Q).ab i j := by
  intro i hi j hj
  have hJ := fun i j => two_center_G_linear w c d P.a P.b P.ab Q.a Q.b Q.ab i j
  simp only [gTwoAtoms, symU, blkAdd]
  refine ⟨?_, ?_, ?_⟩
  · split_ifs
    · rw [(hJ i j).1, oneCenterTmp_lin _ _ _ _ _ c d P.a Q.a i hi j hj]; ring
    · rw [(hJ j i).1, oneCenterTmp_lin _ _ _ _ _ c d P.a Q.a j hj i hi]; ring
  · split_ifs
    · rw [(hJ i j).2.1, oneCenterTmp_lin _ _ _ _ _ c d P.b Q.b i hi j hj]; ring
    · rw [(hJ j i).2.1, oneCenterTmp_lin _ _ _ _ _ c d P.b Q.b j hj i hi]; ring
  · exact (hJ i j).2.2

/-! ### agreement with the textbook contraction, symmetry -/

/-- symmetric block -/
def BSymm (P : Blk ℝ) : Prop := ∀ i j, P i j = P j i

/-- for symmetric densities the packed, weighted, mirrored J blocks and the K block are the plain
    NDDO sums `J^A_{μν} = Σ_{λσ∈B} P_{λσ}(μν|λσ)`, `J^B_{λσ} = Σ_{μν∈A} P_{μν}(μν|λσ)`,
    `K_{μλ} = −½ Σ_{ν∈A,σ∈B} P_{νσ}(μν|λσ)` with `(μν|λσ) = w[K_ind[μ][ν], K_ind[λ][σ]]` -/
theorem two_center_eq_textbook (w : ℕ → ℕ → ℝ) (PA PB PAB : Blk ℝ) (hA : BSymm PA) (hB : BSymm PB) :
    ∀ i < 4, ∀ j < 4,
    symU (twoCenterJK w PA PB PAB).fA i j = ∑ l ∈ range 4, ∑ s ∈ range 4, PB l s * eri w i j l s ∧
    symU (twoCenterJK w PA PB PAB).fB i j = ∑ m ∈ range 4, ∑ n ∈ range 4, PA m n * eri w m n i j ∧
    (twoCenterJK w PA PB PAB).fAB i j
      = - (1 / 2) * ∑ n ∈ range 4, ∑ s ∈ range 4, PAB n s * eri w i n j s := by
  intro i hi j hj
  simp only [twoCenterJK, eri]
  refine ⟨?_, ?_, ?_⟩
  · rw [scatterU_sym _ i hi j hj, jB, packU_sum PB hB]
  · rw [scatterU_sym _ i hi j hj, jA, packU_sum PA hA]
  · simp only [kSum, sumTo_eq_sum, Finset.mul_sum]
    apply Finset.sum_congr rfl; intros
    apply Finset.sum_congr rfl; intros
    norm_num; ring

/-- symmetric `P` ↦ symmetric contribution: the mirrored diagonal blocks are symmetric, and they
    are not an artefact of the mirroring: the textbook sums are symmetric in `(i,j)` themselves -/
theorem two_center_G_symmetric (w : ℕ → ℕ → ℝ) (PA PB PAB : Blk ℝ) :
    (∀ i j, symU (twoCenterJK w PA PB PAB).fA i j = symU (twoCenterJK w PA PB PAB).fA j i) ∧
    (∀ i j, symU (twoCenterJK w PA PB PAB).fB i j = symU (twoCenterJK w PA PB PAB).fB j i) ∧
    (∀ i < 4, ∀ j < 4, (∑ l ∈ range 4, ∑ s ∈ range 4, PB l s * eri w i j l s)
        = ∑ l ∈ range 4, ∑ s ∈ range 4, PB l s * eri w j i l s) ∧
    (∀ i < 4, ∀ j < 4, (∑ m ∈ range 4, ∑ n ∈ range 4, PA m n * eri w m n i j)
        = ∑ m ∈ range 4, ∑ n ∈ range 4, PA m n * eri w m n j i) := by
  refine ⟨fun i j => symU_symm _ i j, fun i j => symU_symm _ i j, ?_, ?_⟩
  · intro i hi j hj; simp only [eri, K_ind_4_symmetric i hi j hj]
  · intro i hi j hj; simp only [eri, K_ind_4_symmetric i hi j hj]

/-! ### self-adjointness -/

/-- Frobenius product of two blocks -/
def blkDot (X Y : Blk ℝ) : ℝ := ∑ i ∈ range 4, ∑ j ∈ range 4, X i j * Y i j

/-- trace product `tr(XY)` of two symmetric two-atom matrices given by their AA, BB, AB blocks -/
def matDot (X Y : Mat2 ℝ) : ℝ := blkDot X.a Y.a + blkDot X.b Y.b + 2 * blkDot X.ab Y.ab

/-- `Σ_{μν∈A} Σ_{λσ∈B} X_{μν} Y_{λσ} (μν|λσ)` -/
def coul (w : ℕ → ℕ → ℝ) (X Y : Blk ℝ) : ℝ :=
  ∑ i ∈ range 4, ∑ j ∈ range 4, ∑ l ∈ range 4, ∑ s ∈ range 4, X i j * Y l s * eri w i j l s

theorem blkDot_jB (w : ℕ → ℕ → ℝ) (X Y : Blk ℝ) (hY : BSymm Y) :
    blkDot X (symU (scatterU (jB w Y))) = coul w X Y := by
  unfold blkDot coul
  apply Finset.sum_congr rfl; intro i hi
  apply Finset.sum_congr rfl; intro j hj
  rw [scatterU_sym _ i (Finset.mem_range.mp hi) j (Finset.mem_range.mp hj), jB, packU_sum Y hY, Finset.mul_sum]
  apply Finset.sum_congr rfl; intro l _
  rw [Finset.mul_sum]
  apply Finset.sum_congr rfl; intro s _
  simp only [eri]; ring

theorem blkDot_jA (w : ℕ → ℕ → ℝ) (X Y : Blk ℝ) (hY : BSymm Y) :
    blkDot X (symU (scatterU (jA w Y))) = coul w Y X := by
  unfold blkDot coul
  have : ∀ i ∈ range 4, ∀ j ∈ range 4, X i j * symU (scatterU (jA w Y)) i j
      = ∑ m ∈ range 4, ∑ n ∈ range 4, Y m n * X i j * eri w m n i j := by
    intro i hi j hj
    rw [scatterU_sym _ i (Finset.mem_range.mp hi) j (Finset.mem_range.mp hj), jA, packU_sum Y hY, Finset.mul_sum]
    apply Finset.sum_congr rfl; intro l _
    rw [Finset.mul_sum]
    apply Finset.sum_congr rfl; intro s _
    simp only [eri]; ring
  rw [Finset.sum_congr rfl (fun i hi => Finset.sum_congr rfl (fun j hj => this i hi j hj))]
  simp only [Finset.sum_range_succ, Finset.sum_range_zero]
  ring




theorem blkDot_kSum (w : ℕ → ℕ → ℝ) (X Y : Blk ℝ) :
    blkDot X (kSum w Y) = blkDot Y (kSum w X) := by
  simp only [blkDot, kSum, sumTo_eq_sum, Finset.sum_range_succ, Finset.sum_range_zero]
  norm_num [kind, K_ind_4]
  ring

theorem blkDot_oneCenter (gss gsp gpp gp2 hsp : ℝ) (X Y : Blk ℝ) (hX : BSymm X) (hY : BSymm Y) :
    blkDot X (symU (oneCenterTmp gss gsp gpp gp2 hsp Y)) = blkDot Y (symU (oneCenterTmp gss gsp gpp gp2 hsp X)) := by
  simp only [blkDot, Finset.sum_range_succ, Finset.sum_range_zero]
  norm_num [symU, oneCenterTmp, setAt, P_INDEX_3, P_OFF_I, P_OFF_J]
  rw [hX 1 0, hX 2 0, hX 2 1, hX 3 0, hX 3 1, hX 3 2, hY 1 0, hY 2 0, hY 2 1, hY 3 0, hY 3 1, hY 3 2]
  ring

theorem blkDot_add (X U V : Blk ℝ) : blkDot X (symU (blkAdd U V)) = blkDot X (symU U) + blkDot X (symU V) := by
  simp only [blkDot, symU_blkAdd, mul_add, Finset.sum_add_distrib]

/-- `⟨X, G Y⟩ = ⟨Y, G X⟩` for symmetric two-atom matrices (diagonal blocks symmetric; the BA block
    is the transpose of the AB block by representation): one-centre + two-centre J + K -/
theorem G_self_adjoint (pa pb : Par ℝ) (w : ℕ → ℕ → ℝ) (X Y : Mat2 ℝ)
    (hXa : BSymm X.a) (hXb : BSymm X.b) (hYa : BSymm Y.a) (hYb : BSymm Y.b) :
    matDot X (gTwoAtoms pa pb w Y) = matDot Y (gTwoAtoms pa pb w X) := by
  simp only [matDot, gTwoAtoms, twoCenterJK, blkDot_add]
  rw [blkDot_jB w X.a Y.b hYb, blkDot_jA w X.b Y.a hYa, blkDot_jB w Y.a X.b hXb, blkDot_jA w Y.b X.a hXa,
    blkDot_oneCenter _ _ _ _ _ X.a Y.a hXa hYa, blkDot_oneCenter _ _ _ _ _ X.b Y.b hXb hYb,
    blkDot_kSum w X.ab Y.ab]
  ring

/-- pair symmetry `(μν|λσ) = (λσ|μν)` as far as the layout encodes it: the pair (A,B) owns ONE block
    `w`; the Coulomb term of A (from the density on B) reads `w[t,k]` and the Coulomb term of B
    (from the density on A) reads the SAME `w[t,k]` with the roles of the two packed indices
    exchanged.  Operationally: `⟨X_A, J^A[Y_B]⟩ = ⟨Y_B, J^B[X_A]⟩`. -/
theorem eri_pair_symmetry (w : ℕ → ℕ → ℝ) (X Y : Blk ℝ) (hX : BSymm X) (hY : BSymm Y) :
    blkDot X (symU (twoCenterJK w X Y (fun _ _ => 0)).fA)
      = blkDot Y (symU (twoCenterJK w X Y (fun _ _ => 0)).fB) := by
  simp only [twoCenterJK]
  rw [blkDot_jB w X Y hY, blkDot_jA w Y X hX]



/-! ## 5. one-centre Fock terms -/

/-- the published one-centre integrals have the full 8-fold permutational symmetry -/
theorem oneCenterERI_symmetry (gss gsp gpp gp2 hsp : ℝ) : ∀ m < 4, ∀ n < 4, ∀ l < 4, ∀ s < 4,
    oneCenterERI gss gsp gpp gp2 hsp m n l s = oneCenterERI gss gsp gpp gp2 hsp n m l s ∧
    oneCenterERI gss gsp gpp gp2 hsp m n l s = oneCenterERI gss gsp gpp gp2 hsp m n s l ∧
    oneCenterERI gss gsp gpp gp2 hsp m n l s = oneCenterERI gss gsp gpp gp2 hsp l s m n := by
  intro m hm n hn l hl s hs
  interval_cases m <;> interval_cases n <;> interval_cases l <;> interval_cases s <;>
    simp [oneCenterERI]

/-- the values of the one-centre integrals -/
theorem oneCenterERI_values (gss gsp gpp gp2 hsp : ℝ) :
    oneCenterERI gss gsp gpp gp2 hsp 0 0 0 0 = gss ∧ oneCenterERI gss gsp gpp gp2 hsp 0 0 2 2 = gsp ∧
    oneCenterERI gss gsp gpp gp2 hsp 1 1 1 1 = gpp ∧ oneCenterERI gss gsp gpp gp2 hsp 1 1 3 3 = gp2 ∧
    oneCenterERI gss gsp gpp gp2 hsp 0 2 0 2 = hsp ∧ oneCenterERI gss gsp gpp gp2 hsp 1 2 1 2 = 1 / 2 * (gpp - gp2) ∧
    oneCenterERI gss gsp gpp gp2 hsp 0 1 0 2 = 0 ∧ oneCenterERI gss gsp gpp gp2 hsp 1 1 1 2 = 0 := by
  norm_num [oneCenterERI]

/-- the code's one-centre factors are the RHF NDDO contraction
    `F_{μν} = Σ_{λσ} P_{λσ} [ (μν|λσ) − ½ (μλ|νσ) ]` over the published one-centre integrals, for an
    arbitrary symmetric density block (all 16 entries of the mirrored block) -/
theorem one_center_factors_published (gss gsp gpp gp2 hsp : ℝ) (P : Blk ℝ) (hP : BSymm P) :
    ∀ i < 4, ∀ j < 4,
    oneCenterFock gss gsp gpp gp2 hsp P i j
      = ∑ l ∈ range 4, ∑ s ∈ range 4, P l s *
          (oneCenterERI gss gsp gpp gp2 hsp i j l s - 1 / 2 * oneCenterERI gss gsp gpp gp2 hsp i l j s) := by
  intro i hi j hj
  interval_cases i <;> interval_cases j <;>
    simp only [Finset.sum_range_succ, Finset.sum_range_zero] <;>
    norm_num [oneCenterFock, symU, oneCenterTmp, setAt, P_INDEX_3, P_OFF_I, P_OFF_J, oneCenterERI] <;>
    (try rw [hP 1 0]) <;> (try rw [hP 2 0]) <;> (try rw [hP 2 1]) <;> (try rw [hP 3 0]) <;>
    (try rw [hP 3 1]) <;> (try rw [hP 3 2]) <;> ring

/-- the explicit published expressions of the entries -/
theorem one_center_entries (gss gsp gpp gp2 hsp : ℝ) (P : Blk ℝ) :
    oneCenterFock gss gsp gpp gp2 hsp P 0 0 = P 0 0 * gss / 2 + (P 1 1 + P 2 2 + P 3 3) * (gsp - hsp / 2) ∧
    oneCenterFock gss gsp gpp gp2 hsp P 0 1 = P 0 1 * (3 * hsp - gsp) / 2 ∧
    oneCenterFock gss gsp gpp gp2 hsp P 1 0 = P 0 1 * (3 * hsp - gsp) / 2 ∧
    oneCenterFock gss gsp gpp gp2 hsp P 1 1
      = P 0 0 * (gsp - hsp / 2) + P 1 1 * gpp / 2 + (P 2 2 + P 3 3) * (5 * gp2 - gpp) / 4 ∧
    oneCenterFock gss gsp gpp gp2 hsp P 1 2 = P 1 2 * (3 * gpp - 5 * gp2) / 4 := by
  refine ⟨?_, ?_, ?_, ?_, ?_⟩ <;>
    norm_num [oneCenterFock, symU, oneCenterTmp, setAt, P_INDEX_3, P_OFF_I, P_OFF_J] <;> ring



section xh
variable (ev r da db qa qb ρ0a ρ0b ρ1a ρ1b ρ2a ρ2b : ℝ)

/-- heavy atom – hydrogen: the four integrals are the multipole sums against the monopole of H
    (whatever dipole/quadrupole parameters are attached to the hydrogen) -/
theorem riXH_eq_multipole_sums :
    riXH Real.sqrt ev r da qa ρ0a ρ0b ρ1a ρ2a
      = riXHSpec Real.sqrt ev r ⟨da, qa, ρ0a, ρ1a, ρ2a⟩ ⟨db, qb, ρ0b, ρ1b, ρ2b⟩ := by
  simp only [riXH, riXHSpec, List.cons.injEq, and_true]
  refine ⟨?_, ?_, ?_, ?_⟩ <;> nddo_ring

/-- … and coincide with the first four heavy–heavy integrals -/
theorem riXH_eq_riHH_prefix :
    riXH Real.sqrt ev r da qa ρ0a ρ0b ρ1a ρ2a
      = (riHH Real.sqrt ev r da db qa qb ρ0a ρ0b ρ1a ρ1b ρ2a ρ2b).take 4 := by
  simp only [riXH, riHH, List.take_succ_cons, List.take_zero, List.cons.injEq, and_true]
  refine ⟨?_, ?_, ?_, ?_⟩ <;> nddo_ring

/-- hydrogen – hydrogen: the single integral is the kernel = monopole–monopole sum -/
theorem riHyd_eq :
    riHyd Real.sqrt ev r ρ0a ρ0b = ko Real.sqrt ev r (ρ0a + ρ0b) ∧
    riHyd Real.sqrt ev r ρ0a ρ0b
      = interact Real.sqrt ev r (dSS ⟨da, qa, ρ0a, ρ1a, ρ2a⟩) (dSS ⟨db, qb, ρ0b, ρ1b, ρ2b⟩) := by
  constructor
  · nddo_unfold
  · nddo_ring
end xh

/-! ## 6. the additive terms `ρ₁`, `ρ₂` -/

theorem sqrt_four_mul {x : ℝ} (_hx : 0 ≤ x) : Real.sqrt (4 * x) = 2 * Real.sqrt x := by
  rw [show (4:ℝ) * x = 2 ^ 2 * x by ring, Real.sqrt_mul (by positivity), Real.sqrt_sq (by norm_num)]

/-- the code's function of `d = 1/(2ρ)` in terms of `ρ`: `¼ (1/ρ − 1/√(D₁²+ρ²))` (atomic units) -/
theorem hspOfD_of_rho {D ρ : ℝ} (hρ : 0 < ρ) :
    hspOfD Real.sqrt D (0.5 / ρ) = 1 / 4 * (1 / ρ - 1 / Real.sqrt (D ^ 2 + ρ ^ 2)) := by
  have h : 4.0 * sqr D + 1.0 / sqr (0.5 / ρ) = 4 * (D ^ 2 + ρ ^ 2) := by
    simp only [sqr]; norm_num; field_simp; ring
  simp only [hspOfD, isq, h, sqrt_four_mul (by positivity : (0:ℝ) ≤ D ^ 2 + ρ ^ 2)]
  have : 0 < Real.sqrt (D ^ 2 + ρ ^ 2) := Real.sqrt_pos.mpr (by positivity)
  norm_num; field_simp; ring

/-- `⅛ (1/ρ − 2/√(D₂²+ρ²) + 1/√(2D₂²+ρ²))` -/
theorem hppOfQ_of_rho {D ρ : ℝ} (hρ : 0 < ρ) :
    hppOfQ Real.sqrt D (0.5 / ρ)
      = 1 / 8 * (1 / ρ - 2 / Real.sqrt (D ^ 2 + ρ ^ 2) + 1 / Real.sqrt (2 * D ^ 2 + ρ ^ 2)) := by
  have h1 : 4.0 * sqr D + 1.0 / sqr (0.5 / ρ) = 4 * (D ^ 2 + ρ ^ 2) := by
    simp only [sqr]; norm_num; field_simp; ring
  have h2 : 8.0 * sqr D + 1.0 / sqr (0.5 / ρ) = 4 * (2 * D ^ 2 + ρ ^ 2) := by
    simp only [sqr]; norm_num; field_simp; ring
  simp only [hppOfQ, isq, h1, h2, sqrt_four_mul (by positivity : (0:ℝ) ≤ D ^ 2 + ρ ^ 2),
    sqrt_four_mul (by positivity : (0:ℝ) ≤ 2 * D ^ 2 + ρ ^ 2)]
  have : 0 < Real.sqrt (D ^ 2 + ρ ^ 2) := Real.sqrt_pos.mpr (by positivity)
  have : 0 < Real.sqrt (2 * D ^ 2 + ρ ^ 2) := Real.sqrt_pos.mpr (by positivity)
  norm_num; field_simp; ring

/-- published defining equation of `ρ₁`: the one-centre limit (`R = 0`, same atom) of the
    dipole–dipole sum `[μ_π,μ_π]` with additive term `ρ₁+ρ₁` reproduces `h_sp` -/
theorem dipole_self_interaction {ev D ρ : ℝ} (hρ : 0 < ρ) :
    interactMP Real.sqrt ev 0 ⟨ρ, dipoleX D⟩ ⟨ρ, dipoleX D⟩
      = ev * (1 / 4 * (1 / ρ - 1 / Real.sqrt (D ^ 2 + ρ ^ 2))) := by
  have e : ∀ f : ℝ → ℝ, interactMP f ev 0 ⟨ρ, dipoleX D⟩ ⟨ρ, dipoleX D⟩
      = ev * (1 / 2 * (1 / f (4 * ρ ^ 2)) - 1 / 2 * (1 / f (4 * (D ^ 2 + ρ ^ 2)))) := by
    intro f; nddo_ring
  rw [e Real.sqrt, sqrt_four_mul (by positivity), sqrt_four_mul (by positivity), Real.sqrt_sq hρ.le]
  have : 0 < Real.sqrt (D ^ 2 + ρ ^ 2) := Real.sqrt_pos.mpr (by positivity)
  field_simp; ring

/-- published defining equation of `ρ₂`: one-centre limit of the square-quadrupole sum `[Q_xy,Q_xy]`
    reproduces `h_pp = ½(g_pp − g_p2)` -/
theorem quadrupole_self_interaction {ev D ρ : ℝ} (hρ : 0 < ρ) :
    interactMP Real.sqrt ev 0 ⟨ρ, quadXY D⟩ ⟨ρ, quadXY D⟩
      = ev * (1 / 8 * (1 / ρ - 2 / Real.sqrt (D ^ 2 + ρ ^ 2) + 1 / Real.sqrt (2 * D ^ 2 + ρ ^ 2))) := by
  have e : ∀ f : ℝ → ℝ, interactMP f ev 0 ⟨ρ, quadXY D⟩ ⟨ρ, quadXY D⟩
      = ev * (1 / 4 * (1 / f (4 * ρ ^ 2)) - 1 / 2 * (1 / f (4 * (D ^ 2 + ρ ^ 2)))
          + 1 / 4 * (1 / f (4 * (2 * D ^ 2 + ρ ^ 2)))) := by
    intro f; nddo_ring
  rw [e Real.sqrt, sqrt_four_mul (by positivity), sqrt_four_mul (by positivity), sqrt_four_mul (by positivity),
    Real.sqrt_sq hρ.le]
  have : 0 < Real.sqrt (D ^ 2 + ρ ^ 2) := Real.sqrt_pos.mpr (by positivity)
  have : 0 < Real.sqrt (2 * D ^ 2 + ρ ^ 2) := Real.sqrt_pos.mpr (by positivity)
  field_simp; ring

/-- a positive `ρ` is the additive term (= satisfies the published one-centre condition) iff the
    residual of the code's root problem vanishes at `d = 0.5/ρ` -/
theorem rho_residual_characterisation {ev : ℝ} (hev : 0 < ev) {ρ : ℝ} (hρ : 0 < ρ) (hsp_ev hpp_ev D1 D2 : ℝ) :
    (rho1Residual Real.sqrt ev hsp_ev D1 ρ = 0 ↔
        interactMP Real.sqrt ev 0 ⟨ρ, dipoleX D1⟩ ⟨ρ, dipoleX D1⟩ = hsp_ev) ∧
    (rho2Residual Real.sqrt ev hpp_ev D2 ρ = 0 ↔
        interactMP Real.sqrt ev 0 ⟨ρ, quadXY D2⟩ ⟨ρ, quadXY D2⟩ = hpp_ev) := by
  constructor
  · rw [dipole_self_interaction hρ, rho1Residual, hspOfD_of_rho hρ, sub_eq_zero, eq_div_iff hev.ne']
    constructor <;> intro h <;> linarith
  · rw [quadrupole_self_interaction hρ, rho2Residual, hppOfQ_of_rho hρ, sub_eq_zero, eq_div_iff hev.ne']
    constructor <;> intro h <;> linarith




/-- `ρ ↦ 1/ρ − 1/√(D²+ρ²)` is strictly decreasing on `ρ > 0` when `D ≠ 0` -/
theorem g1_strictAnti {D a b : ℝ} (hD : D ≠ 0) (ha : 0 < a) (hab : a < b) :
    1 / b - 1 / Real.sqrt (D ^ 2 + b ^ 2) < 1 / a - 1 / Real.sqrt (D ^ 2 + a ^ 2) := by
  have hb : 0 < b := lt_trans ha hab
  have hD2 : 0 < D ^ 2 := by have := pow_pos (abs_pos.mpr hD) 2; rwa [sq_abs] at this
  set sa := Real.sqrt (D ^ 2 + a ^ 2) with hsa_def
  set sb := Real.sqrt (D ^ 2 + b ^ 2) with hsb_def
  have hsa2 : sa ^ 2 = D ^ 2 + a ^ 2 := Real.sq_sqrt (by positivity)
  have hsb2 : sb ^ 2 = D ^ 2 + b ^ 2 := Real.sq_sqrt (by positivity)
  have hasa : a < sa := Real.lt_sqrt_of_sq_lt (by linarith)
  have hbsb : b < sb := Real.lt_sqrt_of_sq_lt (by linarith)
  have hsa : 0 < sa := lt_trans ha hasa
  have hsb : 0 < sb := lt_trans hb hbsb
  have hsasb : sa < sb := Real.sqrt_lt_sqrt (by positivity) (by nlinarith)
  have h1 : (sb - b) * (sb + b) = D ^ 2 := by linear_combination hsb2
  have h2 : (sa - a) * (sa + a) = D ^ 2 := by linear_combination hsa2
  have hA : a * sa * (sa + a) < b * sb * (sb + b) := by
    have : a * sa < b * sb := mul_lt_mul'' hab hsasb ha.le hsa.le
    exact mul_lt_mul'' this (by linarith) (by positivity) (by positivity)
  have key : (sb - b) * (a * sa) * ((sa + a) * (sb + b)) < (sa - a) * (b * sb) * ((sa + a) * (sb + b)) := by
    calc (sb - b) * (a * sa) * ((sa + a) * (sb + b)) = D ^ 2 * (a * sa * (sa + a)) := by
            linear_combination (a * sa * (sa + a)) * h1
      _ < D ^ 2 * (b * sb * (sb + b)) := mul_lt_mul_of_pos_left hA hD2
      _ = (sa - a) * (b * sb) * ((sa + a) * (sb + b)) := by
            linear_combination (-(b * sb * (sb + b))) * h2
  have key2 : (sb - b) * (a * sa) < (sa - a) * (b * sb) := lt_of_mul_lt_mul_right key (by positivity)
  rw [div_sub_div _ _ hb.ne' hsb.ne', div_sub_div _ _ ha.ne' hsa.ne', div_lt_div_iff₀ (by positivity) (by positivity)]
  linarith

/-- the residual of the `ρ₁` problem is strictly decreasing in `ρ` on `ρ > 0` (for `D₁ ≠ 0`) -/
theorem rho1_residual_strictAnti {ev : ℝ} (hsp_ev : ℝ) {D : ℝ} (hD : D ≠ 0) :
    StrictAntiOn (fun ρ => rho1Residual Real.sqrt ev hsp_ev D ρ) (Set.Ioi 0) := by
  intro a ha b hb hab
  simp only [Set.mem_Ioi] at ha hb
  simp only [rho1Residual, hspOfD_of_rho ha, hspOfD_of_rho hb]
  have := g1_strictAnti hD ha hab
  linarith

/-- hence the additive term `ρ₁` is unique: two positive roots of the residual coincide -/
theorem rho1_unique {ev hsp_ev D ρ ρ' : ℝ} (hD : D ≠ 0) (h : 0 < ρ) (h' : 0 < ρ')
    (hr : rho1Residual Real.sqrt ev hsp_ev D ρ = 0) (hr' : rho1Residual Real.sqrt ev hsp_ev D ρ' = 0) :
    ρ = ρ' := by
  have hs := rho1_residual_strictAnti (ev := ev) hsp_ev hD
  exact hs.injOn (Set.mem_Ioi.mpr h) (Set.mem_Ioi.mpr h') (by simp only [hr, hr'])

/-- non-vacuity: `D₁ = 4`, `ρ₁ = 3`: residual zero for `h_sp/ev = ¼(1/3 − 1/5) = 1/30` -/
example : rho1Residual Real.sqrt 30 1 4 3 = 0 := by
  rw [rho1Residual, hspOfD_of_rho (by norm_num)]
  rw [show (4:ℝ) ^ 2 + 3 ^ 2 = 5 ^ 2 by norm_num, Real.sqrt_sq (by norm_num)]
  norm_num



/-- auxiliary symmetric function: `1/ρ − 2/σ + 1/τ = 2 D⁴ · F3 ρ σ τ` when `σ² = D²+ρ²`, `τ² = 2D²+ρ²` -/
noncomputable def F3 (x y z : ℝ) : ℝ := (x + y + z) / (x * y * z * ((x + y) * (y + z) * (z + x)))

theorem F3_anti_first {x x' y z : ℝ} (hx : 0 < x) (hxx : x < x') (hy : 0 < y) (hz : 0 < z) :
    F3 x' y z < F3 x y z := by
  have hx' : 0 < x' := lt_trans hx hxx
  obtain ⟨h, hh, rfl⟩ : ∃ h, 0 < h ∧ x' = x + h := ⟨x' - x, by linarith, by ring⟩
  unfold F3
  rw [div_lt_div_iff₀ (by positivity) (by positivity)]
  have e : (x + y + z) * ((x + h) * y * z * ((x + h + y) * (y + z) * (z + (x + h))))
         - (x + h + y + z) * (x * y * z * ((x + y) * (y + z) * (z + x)))
         = y * z * (y + z) * h * (h ^ 2 * x + h ^ 2 * y + h ^ 2 * z + 3 * h * x ^ 2 + 4 * h * x * y + 4 * h * x * z
            + h * y ^ 2 + 2 * h * y * z + h * z ^ 2 + 2 * x ^ 3 + 4 * x ^ 2 * y + 4 * x ^ 2 * z + 2 * x * y ^ 2
            + 4 * x * y * z + 2 * x * z ^ 2 + y ^ 2 * z + y * z ^ 2) := by ring
  have p : 0 < y * z * (y + z) * h * (h ^ 2 * x + h ^ 2 * y + h ^ 2 * z + 3 * h * x ^ 2 + 4 * h * x * y + 4 * h * x * z
            + h * y ^ 2 + 2 * h * y * z + h * z ^ 2 + 2 * x ^ 3 + 4 * x ^ 2 * y + 4 * x ^ 2 * z + 2 * x * y ^ 2
            + 4 * x * y * z + 2 * x * z ^ 2 + y ^ 2 * z + y * z ^ 2) := by positivity
  linarith

theorem F3_perm (x y z : ℝ) : F3 x y z = F3 y x z ∧ F3 x y z = F3 z y x := by
  unfold F3; constructor <;> ring

theorem F3_anti {a b sa sb ta tb : ℝ} (ha : 0 < a) (hab : a < b) (hsa : 0 < sa) (hs : sa < sb)
    (hta : 0 < ta) (ht : ta < tb) : F3 b sb tb < F3 a sa ta := by
  have hb := lt_trans ha hab
  have hsb := lt_trans hsa hs
  have htb := lt_trans hta ht
  calc F3 b sb tb < F3 a sb tb := F3_anti_first ha hab hsb htb
    _ = F3 sb a tb := (F3_perm _ _ _).1
    _ < F3 sa a tb := F3_anti_first hsa hs ha htb
    _ = F3 tb a sa := (F3_perm _ _ _).2
    _ < F3 ta a sa := F3_anti_first hta ht ha hsa
    _ = F3 sa a ta := (F3_perm _ _ _).2
    _ = F3 a sa ta := (F3_perm _ _ _).1

theorem h2_eq_F3 {D ρ : ℝ} (hρ : 0 < ρ) :
    1 / ρ - 2 / Real.sqrt (D ^ 2 + ρ ^ 2) + 1 / Real.sqrt (2 * D ^ 2 + ρ ^ 2)
      = 2 * D ^ 4 * F3 ρ (Real.sqrt (D ^ 2 + ρ ^ 2)) (Real.sqrt (2 * D ^ 2 + ρ ^ 2)) := by
  set s := Real.sqrt (D ^ 2 + ρ ^ 2)
  set t := Real.sqrt (2 * D ^ 2 + ρ ^ 2)
  have hs2 : s ^ 2 = D ^ 2 + ρ ^ 2 := Real.sq_sqrt (by positivity)
  have ht2 : t ^ 2 = 2 * D ^ 2 + ρ ^ 2 := Real.sq_sqrt (by positivity)
  have hs : 0 < s := Real.sqrt_pos.mpr (by positivity)
  have ht : 0 < t := Real.sqrt_pos.mpr (by positivity)
  have num : (s * t - 2 * ρ * t + ρ * s) * ((ρ + s) * (s + t) * (t + ρ)) = 2 * D ^ 4 * (ρ + s + t) := by
    linear_combination ((ρ + t) * (ρ ^ 2 + ρ * s + s * t + t ^ 2)) * hs2
      + (D ^ 2 * ρ + D ^ 2 * s + D ^ 2 * t - ρ ^ 3 - ρ ^ 2 * s - ρ ^ 2 * t - ρ * s * t) * ht2
  have e1 : 1 / ρ - 2 / s + 1 / t = (s * t - 2 * ρ * t + ρ * s) / (ρ * s * t) := by
    field_simp
  have e2 : 2 * D ^ 4 * F3 ρ s t = (2 * D ^ 4 * (ρ + s + t)) / ((ρ + s) * (s + t) * (t + ρ)) / (ρ * s * t) := by
    unfold F3; field_simp
  rw [e1, e2, ← num]
  field_simp

/-- the residual of the `ρ₂` problem is strictly decreasing in `ρ` on `ρ > 0` (for `D₂ ≠ 0`) -/
theorem rho2_residual_strictAnti {ev : ℝ} (hpp_ev : ℝ) {D : ℝ} (hD : D ≠ 0) :
    StrictAntiOn (fun ρ => rho2Residual Real.sqrt ev hpp_ev D ρ) (Set.Ioi 0) := by
  intro a ha b hb hab
  simp only [Set.mem_Ioi] at ha hb
  simp only [rho2Residual, hppOfQ_of_rho ha, hppOfQ_of_rho hb, h2_eq_F3 ha, h2_eq_F3 hb]
  have hD4 : 0 < D ^ 4 := by
    have := pow_pos (abs_pos.mpr hD) 4
    rwa [show |D| ^ 4 = D ^ 4 by rw [show (4:ℕ) = 2 * 2 by norm_num, pow_mul, pow_mul, sq_abs]] at this
  have hF := F3_anti ha hab (Real.sqrt_pos.mpr (by positivity : (0:ℝ) < D ^ 2 + a ^ 2))
    (Real.sqrt_lt_sqrt (by positivity) (by nlinarith : D ^ 2 + a ^ 2 < D ^ 2 + b ^ 2))
    (Real.sqrt_pos.mpr (by positivity : (0:ℝ) < 2 * D ^ 2 + a ^ 2))
    (Real.sqrt_lt_sqrt (by positivity) (by nlinarith : 2 * D ^ 2 + a ^ 2 < 2 * D ^ 2 + b ^ 2))
  nlinarith

theorem rho2_unique {ev hpp_ev D ρ ρ' : ℝ} (hD : D ≠ 0) (h : 0 < ρ) (h' : 0 < ρ')
    (hr : rho2Residual Real.sqrt ev hpp_ev D ρ = 0) (hr' : rho2Residual Real.sqrt ev hpp_ev D ρ' = 0) :
    ρ = ρ' := by
  have hs := rho2_residual_strictAnti (ev := ev) hpp_ev hD
  exact hs.injOn (Set.mem_Ioi.mpr h) (Set.mem_Ioi.mpr h') (by simp only [hr, hr'])




/-! ## non-vacuity: concrete evaluations -/

/-- (ss|ss) at `R = 3`, `ρ0a = ρ0b = 2`, `ev = 5`: `5/√(9+16) = 1` -/
example : riC 5 3 1 1 1 1 2 2 1 1 1 1 0 = 1 := by
  rw [(ri_ss_ss_is_ko 5 3 1 1 1 1 2 2 1 1 1 1).2]
  rw [show (3:ℝ) ^ 2 + (2 + 2) ^ 2 = 5 ^ 2 by norm_num, Real.sqrt_sq (by norm_num)]; norm_num

/-- (sσ|ss) at `R = 4`, `D₁ = 1`, `ρ1a+ρ0b = 0`: `½(1/5 − 1/3)·ev`, negative (z axis points B → A) -/
example : riC 30 4 1 0 0 0 0 0 0 0 0 0 1 = -2 := by
  have h : riC 30 4 1 0 0 0 0 0 0 0 0 0 1 = 30 * (1 / 2 * (1 / Real.sqrt (5 ^ 2)) - 1 / 2 * (1 / Real.sqrt (3 ^ 2))) := by
    have e : ∀ f : ℝ → ℝ, (riHH f 30 4 1 0 0 0 0 0 0 0 0 0).getD 1 0 = 30 * (1 / 2 * (1 / f (5 ^ 2)) - 1 / 2 * (1 / f (3 ^ 2))) := by
      intro f; nddo_ring
    exact e Real.sqrt
  rw [h, Real.sqrt_sq (by norm_num), Real.sqrt_sq (by norm_num)]; norm_num

example : ko Real.sqrt 1 3 4 = 1 / 5 ∧ 0 < ko Real.sqrt 1 3 4 ∧ ko Real.sqrt 1 3 4 < 1 / 3 :=
  ⟨by rw [ko_eq, show (3:ℝ) ^ 2 + 4 ^ 2 = 5 ^ 2 by norm_num, Real.sqrt_sq (by norm_num)],
   ko_positive (by norm_num) (Or.inl (by norm_num)), ko_lt_coulomb (by norm_num) (by norm_num) (by norm_num)⟩

/-- a concrete symmetric density block -/
def Pex : Blk ℝ := fun i j => (i : ℝ) + j + i * j
theorem Pex_symm : BSymm Pex := by intro i j; simp only [Pex]; ring

example : oneCenterFock 12 11 10 9 3 Pex 0 0 = 0 * 12 / 2 + (3 + 8 + 15) * (11 - 3 / 2) := by
  rw [(one_center_entries 12 11 10 9 3 Pex).1]; norm_num [Pex]

example : oneCenterFock 12 11 10 9 3 Pex 2 1
    = ∑ l ∈ range 4, ∑ s ∈ range 4, Pex l s *
        (oneCenterERI 12 11 10 9 3 2 1 l s - 1 / 2 * oneCenterERI 12 11 10 9 3 2 l 1 s) :=
  one_center_factors_published 12 11 10 9 3 Pex Pex_symm 2 (by norm_num) 1 (by norm_num)

/-- the exchange block of a concrete pair: `w[t,k] = t + 10 k`, `P_AB = Pex` -/
example : (twoCenterJK (fun t k => (t : ℝ) + 10 * k) Pex Pex Pex).fAB 0 0 = -1705 := by
  simp only [twoCenterJK, kSum, sumTo]
  norm_num [kind, K_ind_4, Pex]

/-- hypotheses of `G_self_adjoint` are satisfiable with non-trivial blocks -/
example : matDot ⟨Pex, Pex, fun i j => (i : ℝ) - 2 * j⟩
      (gTwoAtoms ⟨12, 11, 10, 9, 3⟩ ⟨13, 12, 11, 10, 4⟩ (fun t k => (t : ℝ) + 10 * k) ⟨Pex, Pex, Pex⟩)
    = matDot ⟨Pex, Pex, Pex⟩
      (gTwoAtoms ⟨12, 11, 10, 9, 3⟩ ⟨13, 12, 11, 10, 4⟩ (fun t k => (t : ℝ) + 10 * k) ⟨Pex, Pex, fun i j => (i : ℝ) - 2 * j⟩) :=
  G_self_adjoint _ _ _ _ _ Pex_symm Pex_symm Pex_symm Pex_symm

/-- a positive `h_pp` whose additive term is `ρ₂ = 1` for `D₂ = 1` exists (residual root) -/
example : ∃ hpp_ev : ℝ, 0 < hpp_ev ∧ rho2Residual Real.sqrt 1 hpp_ev 1 1 = 0 := by
  refine ⟨hppOfQ Real.sqrt 1 (0.5 / 1), ?_, by simp [rho2Residual]⟩
  rw [hppOfQ_of_rho (by norm_num), h2_eq_F3 (by norm_num)]
  have : 0 < F3 1 (Real.sqrt (1 ^ 2 + 1 ^ 2)) (Real.sqrt (2 * 1 ^ 2 + 1 ^ 2)) := by
    have h1 : 0 < Real.sqrt (1 ^ 2 + 1 ^ 2) := Real.sqrt_pos.mpr (by norm_num)
    have h2 : 0 < Real.sqrt (2 * 1 ^ 2 + 1 ^ 2) := Real.sqrt_pos.mpr (by norm_num)
    unfold F3; positivity
  positivity


end C06
