import PyseqmVerif.Generated.RootGen
import PyseqmVerif.Model.RootSolve
import Mathlib.Data.Real.Basic
import Mathlib.Tactic.NormNum
/-!
# Translator tie for the additive terms rho1, rho2 and their hand-written backward (C07, C06)

`Generated/RootGen.lean`: for `additive_term_rho1` and `additive_term_rho2` of `seqm_functions/cal_par.py`, translated statement by statement on every
run: the start values (with the sign flip `d1[c] *= -1.0`), the body of the secant loop and its trip count `range(1, 6)`, the final expression, the
dtype thresholds and the hand-written `backward`.

* `rho?Backward_is_model`: the backward of the source is the implicit-function derivative `RootSolve.rho?BackwardTrue` (the form that `C07.*`
  proves to be the derivative of the root; the reciprocal form `rho?BackwardCode` that the package had before the repair of F1 is a different term,
  so a regression to it fails here);
* `rho?Step_is_model`: one pass of the loop is a secant step on the residual function `hspOfD` / `hppOfQ` (whose root `C06.*` characterises);
* `rho?Forward_is_model` (over ℝ, because the source writes `1e-16` where the model writes `1.0e-16`): start values, five passes and the final
  expression compose to `RootSolve.rho?Forward`.
-/
set_option linter.unusedSectionVars false
namespace RootTie
open Generated RootSolve

section
variable {α : Type} [Add α] [Sub α] [Mul α] [Div α] [Neg α] [OfScientific α] [LT α] [DecidableLT α]

theorem rho1Backward_is_model (pow15 : α → α) (ev ρ D g : α) : RootGen.rho1Backward pow15 ev ρ D g = rho1BackwardTrue pow15 ev ρ D g := rfl

theorem rho2Backward_is_model (pow15 : α → α) (ev ρ D g : α) : RootGen.rho2Backward pow15 ev ρ D g = rho2BackwardTrue pow15 ev ρ D g := rfl

theorem rho1Step_is_model (sqrt abs : α → α) (eps h D d1 d2 : α) :
    RootGen.rho1Step sqrt abs eps h D d1 d2 = secantStep (hspOfD sqrt D) abs eps h (d1, d2) := rfl

theorem rho2Step_is_model (sqrt abs : α → α) (eps h D q1 q2 : α) :
    RootGen.rho2Step sqrt abs eps h D q1 q2 = secantStep (hppOfQ sqrt D) abs eps h (q1, q2) := rfl

theorem trips : RootGen.rho1Trips = 5 ∧ RootGen.rho2Trips = 5 := ⟨rfl, rfl⟩

end

theorem rho1Forward_is_model (sqrt abs : ℝ → ℝ) (pow : ℝ → ℝ → ℝ) (ev hEv D : ℝ) :
    rho1Forward sqrt abs pow ev hEv D =
      (let i := RootGen.rho1Init abs pow ev hEv D
       RootGen.rho1Final (iter (fun p => RootGen.rho1Step sqrt abs RootGen.rho1Eps64 i.1 D p.1 p.2) RootGen.rho1Trips (i.2.1, i.2.2)).2) := by
  have he : (RootGen.rho1Eps64 : ℝ) = (1.0e-16 : ℝ) := by unfold RootGen.rho1Eps64; norm_num
  have hs : ∀ (h : ℝ), (fun p : ℝ × ℝ => RootGen.rho1Step sqrt abs RootGen.rho1Eps64 h D p.1 p.2) = secantStep (hspOfD sqrt D) abs (1.0e-16 : ℝ) h := by
    intro h; funext p; rw [he]; rfl
  unfold rho1Forward RootGen.rho1Init RootGen.rho1Final RootGen.rho1Trips
  simp only [hs]
  by_cases hc : hEv / ev < (0.0 : ℝ) <;> simp [hc]

theorem rho2Forward_is_model (sqrt abs : ℝ → ℝ) (pow : ℝ → ℝ → ℝ) (ev hEv D : ℝ) :
    rho2Forward sqrt abs pow ev hEv D =
      (let i := RootGen.rho2Init abs pow ev hEv D
       RootGen.rho2Final (iter (fun p => RootGen.rho2Step sqrt abs RootGen.rho2Eps64 i.1 D p.1 p.2) RootGen.rho2Trips (i.2.1, i.2.2)).2) := by
  have he : (RootGen.rho2Eps64 : ℝ) = (1.0e-16 : ℝ) := by unfold RootGen.rho2Eps64; norm_num
  have hs : ∀ (h : ℝ), (fun p : ℝ × ℝ => RootGen.rho2Step sqrt abs RootGen.rho2Eps64 h D p.1 p.2) = secantStep (hppOfQ sqrt D) abs (1.0e-16 : ℝ) h := by
    intro h; funext p; rw [he]; rfl
  unfold rho2Forward RootGen.rho2Init RootGen.rho2Final RootGen.rho2Trips
  simp only [hs]
  by_cases hc : hEv / ev < (0.0 : ℝ) <;> simp [hc]

/-- the regression the tie is there to catch: the pre-repair reciprocal form is a different function (witness) -/
example : RootGen.rho1Backward (fun x : ℚ => x) 1 1 1 1 ≠ rho1BackwardCode (fun x : ℚ => x) 1 1 1 1 := by
  unfold RootGen.rho1Backward rho1BackwardCode
  norm_num

end RootTie
