import PyseqmVerif.Proofs.SDLemmas
/-!
# C20 — the built-in steepest-descent optimiser

Property (verbatim): "With a sufficiently small step factor every iteration of the built-in
optimiser lowers (never raises) the energy of each molecule in the batch, and the run ends exactly
when the largest force component first drops to the tolerance or when the evaluation cap is
reached, which is then reported as not converged. The residual force and energy change it returns
are those of the last geometry evaluated, padding atoms never move, and the path followed by one
molecule does not depend on the other molecules in the batch."

Statements are about the executable model `SD` (`Model/SteepestDescent.lean`, diffed against
`Geometry_Optimization_SD.run` by the driver) at `ℝ`.

Forced edges / findings, all proved of the model (= of the code):
* `sd_converged_at_cap_reports_not_converged` — convergence exactly at the last allowed evaluation
  prints "not converged" although the returned `force_err ≤ tol` (the message rule tests the loop
  index, not the stop test).
* `sd_returns_last_evaluated` — when the first evaluation already stops, `energy_err` is
  `Σ(E₁ − 0)/nmol`, i.e. the mean total energy, not an energy change.
* `sd_coordinates_one_update_past` — the stored coordinates are one update past the geometry whose
  force and energy are returned.
* `path_length_is_batch_global` — the number of updates a molecule receives depends on its batch
  mates (the stop test uses the batch maximum), so its FINAL geometry does.
* `run` is undefined for `max_evl = 0` (Python: `UnboundLocalError`), `sd_max_evl_zero`.
-/
namespace C20
open SD Hop

/-! ## control flow on supplied records -/

/-- 1-based index of the first evaluation with `force_err ≤ tol` (`length + 1` when there is none) -/
noncomputable def firstWithin (tol : ℝ) (recs : List (Rec ℝ)) : ℕ := recs.findIdx (within tol) + 1

/-- meaning of `firstWithin`: all earlier evaluations exceed the tolerance, and the one at that
index (if it exists) is within it -/
theorem firstWithin_spec (tol : ℝ) (recs : List (Rec ℝ)) :
    (∀ t r, t + 1 < firstWithin tol recs → recs[t]? = some r → tol < r.forceErr) ∧
    (∀ r, recs[firstWithin tol recs - 1]? = some r → r.forceErr ≤ tol) := by
  unfold firstWithin
  constructor
  · intro t r ht hr
    have ht' : t < recs.findIdx (within tol) := by omega
    have hlt : t < recs.length := lt_of_lt_of_le ht' List.findIdx_le_length
    have := List.not_of_lt_findIdx ht'
    rw [List.getElem?_eq_getElem hlt, Option.some.injEq] at hr
    rw [hr] at this
    simpa [within] using this
  · intro r hr
    simp only [Nat.add_sub_cancel] at hr
    have hlt : recs.findIdx (within tol) < recs.length := by
      by_contra hcon
      rw [List.getElem?_eq_none (not_lt.mp hcon)] at hr
      exact absurd hr (by simp)
    have := List.findIdx_getElem (w := hlt)
    rw [List.getElem?_eq_getElem hlt, Option.some.injEq] at hr
    rw [hr] at this
    simpa [within] using this

/-- Everything `run` does, in one statement (the named theorems below are its projections).
`Lold` of the last evaluation is the previous record's energies, or the initial zeros. -/
theorem run_spec (ofNat : ℕ → ℝ) (maxEvl : ℕ) (tol : ℝ) (nmol : ℕ) (recs : List (Rec ℝ))
    (h1 : 1 ≤ maxEvl) (hlen : maxEvl ≤ recs.length) :
    ∃ out r, run ofNat maxEvl tol nmol recs = some out ∧
      out.nEvals = min (firstWithin tol recs) maxEvl ∧
      recs[out.nEvals - 1]? = some r ∧
      out.forceErr = r.forceErr ∧
      out.energyErr = energyErr (ofNat nmol) r.E
        (if out.nEvals = 1 then List.replicate nmol 0
         else ((recs[out.nEvals - 2]?).map (·.E)).getD []) ∧
      (out.notConverged = true ↔ out.nEvals = maxEvl) := by
  obtain ⟨r, hr, hl⟩ := loop_spec tol (ofNat nmol) maxEvl 0 (List.replicate nmol 0) none recs h1 hlen
  set K := lastIdx tol maxEvl recs with hK
  have hKdef : K = min (recs.findIdx (within tol)) (maxEvl - 1) := rfl
  refine ⟨{ nEvals := 0 + K + 1, notConverged := (0 + K == maxEvl - 1), forceErr := r.forceErr,
            energyErr := energyErr (ofNat nmol) r.E (prevE (List.replicate nmol 0) recs K) }, r, ?_, ?_, ?_,
          rfl, ?_, ?_⟩
  · unfold run; rw [hl]; rfl
  · simp only [firstWithin]; omega
  · simpa using hr
  · simp only [prevE]
    by_cases h0 : K = 0
    · simp [h0]
    · simp [h0]
  · simp only [beq_iff_eq]; omega

/-- **Number of evaluations** `= min(first i (1-based) with force_err_i ≤ tol, max_evl)`. -/
theorem sd_eval_count (ofNat : ℕ → ℝ) (maxEvl : ℕ) (tol : ℝ) (nmol : ℕ) (recs : List (Rec ℝ))
    (h1 : 1 ≤ maxEvl) (hlen : maxEvl ≤ recs.length) :
    ∃ out, run ofNat maxEvl tol nmol recs = some out ∧
      out.nEvals = min (firstWithin tol recs) maxEvl := by
  obtain ⟨out, _, h, hn, _⟩ := run_spec ofNat maxEvl tol nmol recs h1 hlen
  exact ⟨out, h, hn⟩

/-- **Returned pair**: `force_err` is that of the last evaluated record; `energy_err` is
`Σ_k (E_last[k] − Lold[k]) / nmol` with `Lold` the energies of the evaluation before, and
— forced edge — `Lold = 0` when the first evaluation already stops, in which case the returned
"energy change" is the mean total energy itself. -/
theorem sd_returns_last_evaluated (ofNat : ℕ → ℝ) (maxEvl : ℕ) (tol : ℝ) (nmol : ℕ)
    (recs : List (Rec ℝ)) (h1 : 1 ≤ maxEvl) (hlen : maxEvl ≤ recs.length) (out : Out ℝ)
    (h : run ofNat maxEvl tol nmol recs = some out) :
    ∃ r, recs[out.nEvals - 1]? = some r ∧ out.forceErr = r.forceErr ∧
      (out.nEvals = 1 → out.energyErr = energyErr (ofNat nmol) r.E (List.replicate nmol 0)) ∧
      (out.nEvals ≠ 1 → ∃ r', recs[out.nEvals - 2]? = some r' ∧
        out.energyErr = energyErr (ofNat nmol) r.E r'.E) := by
  obtain ⟨out', r, h', hn, hr, hf, he, _⟩ := run_spec ofNat maxEvl tol nmol recs h1 hlen
  rw [h] at h'; cases h'
  refine ⟨r, hr, hf, ?_, ?_⟩
  · intro h1'; rw [he, if_pos h1']
  · intro h1'
    have hlt : out.nEvals - 2 < recs.length := by
      have : out.nEvals ≤ maxEvl := by rw [hn]; exact min_le_right _ _
      omega
    refine ⟨recs[out.nEvals - 2], List.getElem?_eq_getElem hlt, ?_⟩
    rw [he, if_neg h1', List.getElem?_eq_getElem hlt]; rfl

/-- the mean-energy edge spelled out at `ℝ`: one molecule, first evaluation within tolerance -/
example : (run (fun k => (k : ℝ)) 5 (1/10) 1 [⟨1/100, [-40]⟩, ⟨1, [0]⟩, ⟨1, [0]⟩, ⟨1, [0]⟩, ⟨1, [0]⟩]).map
    (fun o => (o.nEvals, o.energyErr)) = some (1, -40) := by
  norm_num [run, loop, energyErr, sumL]

/-- **Message rule**: "not converged within … step" is printed iff the loop index reached
`max_evl − 1`, i.e. iff all `max_evl` evaluations were used — whatever the last stop test said. -/
theorem sd_message_rule (ofNat : ℕ → ℝ) (maxEvl : ℕ) (tol : ℝ) (nmol : ℕ) (recs : List (Rec ℝ))
    (h1 : 1 ≤ maxEvl) (hlen : maxEvl ≤ recs.length) (out : Out ℝ)
    (h : run ofNat maxEvl tol nmol recs = some out) :
    (out.notConverged = true ↔ out.nEvals = maxEvl) ∧
    (out.notConverged = true ↔ maxEvl ≤ firstWithin tol recs) := by
  obtain ⟨out', r, h', hn, _, _, _, hm⟩ := run_spec ofNat maxEvl tol nmol recs h1 hlen
  rw [h] at h'; cases h'
  refine ⟨hm, ?_⟩
  rw [hm, hn]; omega

/-- the "converged" message is never wrong: it implies `force_err ≤ tol` -/
theorem sd_converged_message_sound (ofNat : ℕ → ℝ) (maxEvl : ℕ) (tol : ℝ) (nmol : ℕ)
    (recs : List (Rec ℝ)) (h1 : 1 ≤ maxEvl) (hlen : maxEvl ≤ recs.length) (out : Out ℝ)
    (h : run ofNat maxEvl tol nmol recs = some out) (hc : out.notConverged = false) :
    out.forceErr ≤ tol := by
  obtain ⟨out', r, h', hn, hr, hf, _, hm⟩ := run_spec ofNat maxEvl tol nmol recs h1 hlen
  rw [h] at h'; cases h'
  have hne : out.nEvals ≠ maxEvl := fun he => by rw [hm.mpr he] at hc; cases hc
  have : out.nEvals = firstWithin tol recs := by rw [hn] at hne ⊢; omega
  rw [this] at hr
  rw [hf]; exact (firstWithin_spec tol recs).2 r hr

/-- FORCED EDGE: if the force first drops to the tolerance exactly at evaluation `max_evl`, the run
stops through the `break` with `force_err ≤ tol` — and still prints "not converged". -/
theorem sd_converged_at_cap_reports_not_converged (ofNat : ℕ → ℝ) (maxEvl : ℕ) (tol : ℝ) (nmol : ℕ)
    (recs : List (Rec ℝ)) (h1 : 1 ≤ maxEvl) (hlen : maxEvl ≤ recs.length)
    (hcap : firstWithin tol recs = maxEvl) :
    ∃ out, run ofNat maxEvl tol nmol recs = some out ∧ out.nEvals = maxEvl ∧
      out.notConverged = true ∧ out.forceErr ≤ tol := by
  obtain ⟨out, r, h, hn, hr, hf, _, hm⟩ := run_spec ofNat maxEvl tol nmol recs h1 hlen
  have hn' : out.nEvals = maxEvl := by rw [hn, hcap]; simp
  refine ⟨out, h, hn', hm.mpr hn', ?_⟩
  rw [hn', ← hcap] at hr
  rw [hf]; exact (firstWithin_spec tol recs).2 r hr

/-- non-vacuity of the edge: `max_evl = 3`, forces `1, 1/2, 1/20`, tolerance `1/10` -/
example : (run (fun k => (k : ℝ)) 3 (1/10) 1 [⟨1, [-1]⟩, ⟨1/2, [-2]⟩, ⟨1/20, [-3]⟩]).map
    (fun o => (o.nEvals, o.notConverged, o.forceErr, o.energyErr)) = some (3, true, 1/20, -1) := by
  norm_num [run, loop, energyErr, sumL]
/-- … the regular cases: converged before the cap, and cap reached without convergence -/
example : (run (fun k => (k : ℝ)) 5 (1/10) 1 [⟨1, [-1]⟩, ⟨1/2, [-2]⟩, ⟨1/20, [-3]⟩, ⟨0, [0]⟩, ⟨0, [0]⟩]).map
    (fun o => (o.nEvals, o.notConverged, o.forceErr, o.energyErr)) = some (3, false, 1/20, -1) := by
  norm_num [run, loop, energyErr, sumL]
example : (run (fun k => (k : ℝ)) 2 (1/10) 1 [⟨1, [-1]⟩, ⟨1/2, [-2]⟩, ⟨1/20, [-3]⟩]).map
    (fun o => (o.nEvals, o.notConverged, o.forceErr, o.energyErr)) = some (2, true, 1/2, -1) := by
  norm_num [run, loop, energyErr, sumL]

/-- `max_evl = 0`: the loop body never runs and `i`, `force_err`, `energy_err` are unbound
(Python raises `UnboundLocalError`); the model answers `none`. -/
theorem sd_max_evl_zero (ofNat : ℕ → ℝ) (tol : ℝ) (nmol : ℕ) (recs : List (Rec ℝ)) :
    run ofNat 0 tol nmol recs = none := by
  simp [run, loop]

/-! ## the loop with the force engine: stored coordinates -/

/-- the control flow of the real loop (`runFull`, engine as a parameter) is `run` applied to the
records `(max|F|, Etot)` of the geometries `x₀, x₁ = x₀ + αF(x₀), …` visited -/
theorem sd_full_control_flow (eval : List (List ℝ) → List (List ℝ) × List ℝ) (abs : ℝ → ℝ)
    (ofNat : ℕ → ℝ) (alpha : ℝ) (maxEvl : ℕ) (tol : ℝ) (xs : List (List ℝ)) :
    (runFull eval abs ofNat alpha maxEvl tol xs).2 =
      run ofNat maxEvl tol xs.length (records eval abs alpha xs maxEvl) := by
  unfold runFull run
  simp only
  rw [loopFull_snd]

/-- **Stored coordinates are one update past the last evaluated geometry.**  After `n_evals`
evaluations the coordinates are `x_{n_evals} = x_last + α·F(x_last)`, where
`x_last = x_{n_evals − 1}` is the geometry whose force and energy are returned. -/
theorem sd_coordinates_one_update_past (eval : List (List ℝ) → List (List ℝ) × List ℝ)
    (abs : ℝ → ℝ) (ofNat : ℕ → ℝ) (alpha : ℝ) (maxEvl : ℕ) (tol : ℝ) (xs coords : List (List ℝ))
    (out : Out ℝ) (h : runFull eval abs ofNat alpha maxEvl tol xs = (coords, some out)) :
    let xlast := (stepGeom eval alpha)^[out.nEvals - 1] xs
    coords = (stepGeom eval alpha)^[out.nEvals] xs ∧
    coords = updateBatch alpha xlast (eval xlast).1 ∧
    out.forceErr = maxAbs abs (eval xlast).1 := by
  intro xlast
  unfold runFull at h
  simp only [Prod.mk.injEq] at h
  obtain ⟨hc, ho⟩ := h
  have hf := loopFull_fst eval abs alpha tol (ofNat xs.length) maxEvl 0 xs
    (List.replicate xs.length 0) none (by intro l hl; cases hl)
  rcases hres : (loopFull eval abs alpha tol (ofNat xs.length) maxEvl 0 xs
    (List.replicate xs.length 0) none).2 with _ | r
  · rw [hres] at ho; cases ho
  · rw [hres] at ho hf
    simp only [Option.map_some, Option.some.injEq] at ho
    have hn : out.nEvals = r.1 + 1 := by rw [← ho]
    simp only [Nat.sub_zero] at hf
    have h1 : coords = (stepGeom eval alpha)^[out.nEvals] xs := by rw [← hc, hf, hn]
    have h2 : coords = updateBatch alpha xlast (eval xlast).1 := by
      rw [h1, hn, Function.iterate_succ_apply']
      simp [xlast, hn, stepGeom]
    refine ⟨h1, h2, ?_⟩
    -- the returned force error is the record of `xlast`
    have hcf := sd_full_control_flow eval abs ofNat alpha maxEvl tol xs
    have hrun : run ofNat maxEvl tol xs.length (records eval abs alpha xs maxEvl) = some out := by
      rw [← hcf]; unfold runFull; simp only; rw [hres]; simp [ho]
    have hme : 1 ≤ maxEvl := by
      by_contra hcon
      have : maxEvl = 0 := by omega
      subst this; simp [run, loop] at hrun
    obtain ⟨rr, hrr, hfe, _⟩ := sd_returns_last_evaluated ofNat maxEvl tol xs.length
      (records eval abs alpha xs maxEvl) hme (by simp [records]) out hrun
    rw [hfe]
    simp only [records, List.getElem?_map] at hrr
    have hlt : out.nEvals - 1 < maxEvl := by
      by_contra hcon
      rw [List.getElem?_eq_none (by simpa using not_lt.mp hcon)] at hrr
      simp at hrr
    rw [List.getElem?_range hlt] at hrr
    simp only [Option.map_some, Option.some.injEq] at hrr
    rw [← hrr]; rfl

/-! ## descent -/

/-- `Σ a_i b_i`, `|a|²`, `y − x` on flattened coordinates -/
noncomputable def dotL (a b : List ℝ) : ℝ := (List.zipWith (· * ·) a b).sum
noncomputable def normSq (a : List ℝ) : ℝ := dotL a a
def subL (y x : List ℝ) : List ℝ := List.zipWith (· - ·) y x

theorem subL_update (alpha : ℝ) (x F : List ℝ) (h : F.length = x.length) :
    subL (updateCoords alpha x F) x = F.map (alpha * ·) := by
  induction x generalizing F with
  | nil => cases F <;> simp_all [subL, updateCoords]
  | cons a x ih =>
    cases F with
    | nil => simp at h
    | cons f F =>
      have := ih F (by simpa using h)
      simp only [subL, updateCoords, List.zipWith_cons_cons, List.map_cons] at this ⊢
      rw [this]; congr 1; ring

theorem dotL_map_right (alpha : ℝ) (a b : List ℝ) : dotL a (b.map (alpha * ·)) = alpha * dotL a b := by
  unfold dotL
  induction a generalizing b with
  | nil => simp
  | cons x a ih =>
    cases b with
    | nil => simp
    | cons y b =>
      simp only [List.map_cons, List.zipWith_cons_cons, List.sum_cons, ih]; ring

theorem normSq_map (alpha : ℝ) (a : List ℝ) : normSq (a.map (alpha * ·)) = alpha ^ 2 * normSq a := by
  unfold normSq dotL
  induction a with
  | nil => simp
  | cons x a ih => simp only [List.map_cons, List.zipWith_cons_cons, List.sum_cons, ih]; ring

theorem normSq_nonneg (a : List ℝ) : 0 ≤ normSq a := by
  unfold normSq dotL
  induction a with
  | nil => simp
  | cons x a ih => simp only [List.zipWith_cons_cons, List.sum_cons]; nlinarith [mul_self_nonneg x]

/-- **Descent lemma** for one molecule.  `E` is its energy as a function of the flattened
coordinates, `F = −∇E(x)` the force at `x`; the hypothesis is the explicit `L`-smoothness
inequality at `x` (`E(y) ≤ E(x) + ∇E(x)·(y−x) + (L/2)|y−x|²`).  Then the model's update
`x + αF` satisfies `E(x + αF) ≤ E(x) − α(1 − Lα/2)|F|²`. -/
theorem descent_lemma (E : List ℝ → ℝ) (L alpha : ℝ) (x F : List ℝ) (hlen : F.length = x.length)
    (hsmooth : ∀ y : List ℝ, y.length = x.length →
      E y ≤ E x - dotL F (subL y x) + L / 2 * normSq (subL y x)) :
    E (updateCoords alpha x F) ≤ E x - alpha * (1 - L * alpha / 2) * normSq F := by
  have h := hsmooth (updateCoords alpha x F) (by simp [updateCoords, hlen])
  rw [subL_update alpha x F hlen, dotL_map_right, normSq_map] at h
  have : dotL F F = normSq F := rfl
  rw [this] at h
  linarith [h]

/-- **"With a sufficiently small step factor every iteration lowers (never raises) the energy"**:
for `0 < α ≤ 1/L` the decrease is at least `(α/2)|F|²`; hence the energy never rises, and strictly
falls unless the force vanishes. -/
theorem descent_step_decreases (E : List ℝ → ℝ) (L alpha : ℝ) (x F : List ℝ)
    (hlen : F.length = x.length) (hL : 0 < L) (ha : 0 < alpha) (haL : alpha ≤ 1 / L)
    (hsmooth : ∀ y : List ℝ, y.length = x.length →
      E y ≤ E x - dotL F (subL y x) + L / 2 * normSq (subL y x)) :
    E (updateCoords alpha x F) ≤ E x - alpha / 2 * normSq F ∧
    E (updateCoords alpha x F) ≤ E x ∧
    (0 < normSq F → E (updateCoords alpha x F) < E x) := by
  have h := descent_lemma E L alpha x F hlen hsmooth
  have hLa : L * alpha ≤ 1 := by
    have := mul_le_mul_of_nonneg_left haL hL.le
    rwa [mul_one_div_cancel hL.ne'] at this
  have hn := normSq_nonneg F
  have hkey : alpha / 2 * normSq F ≤ alpha * (1 - L * alpha / 2) * normSq F := by
    apply mul_le_mul_of_nonneg_right _ hn
    nlinarith
  have h1 : E (updateCoords alpha x F) ≤ E x - alpha / 2 * normSq F := by linarith
  have hpos : 0 ≤ alpha / 2 * normSq F := by positivity
  refine ⟨h1, by linarith, fun hF => ?_⟩
  have : 0 < alpha / 2 * normSq F := by positivity
  linarith

/-- non-vacuity: `E(a) = a²` in one dimension (`L = 2`), `x = 1`, `F = −E'(1) = −2`, `α = 1/4` -/
example :
    let E : List ℝ → ℝ := fun l => (l.headD 0) ^ 2
    (∀ y : List ℝ, y.length = [(1:ℝ)].length →
      E y ≤ E [1] - dotL [-2] (subL y [1]) + 2 / 2 * normSq (subL y [1])) ∧
    E (updateCoords (1/4) [1] [-2]) = 1/4 := by
  refine ⟨?_, by norm_num [updateCoords]⟩
  intro y hy
  match y, hy with
  | [b], _ =>
    simp only [dotL, normSq, subL, List.zipWith_cons_cons, List.zipWith_nil_right, List.sum_cons,
      List.sum_nil, List.headD_cons]
    nlinarith [sq_nonneg (b - 1)]

/-! ## padding atoms and batch mates -/

/-- **Padding atoms never move**: a coordinate whose force component is 0 is unchanged by the
update (`x + α·0 = x`), for any `α`. (Conversely a padding atom with a non-zero force entry WOULD
move: the optimiser has no mask; it relies on the engine returning zero forces there.) -/
theorem padding_never_moves (alpha : ℝ) (x F : List ℝ) (i : ℕ) (hF : F[i]? = some 0) :
    (updateCoords alpha x F)[i]? = x[i]? := by
  unfold updateCoords
  rw [List.getElem?_zipWith, hF]
  cases x[i]? <;> simp

/-- … and only then: with `α ≠ 0` a coordinate stays put iff its force component is 0 -/
theorem coordinate_fixed_iff_force_zero (alpha : ℝ) (ha : alpha ≠ 0) (x F : List ℝ) (i : ℕ) (xi fi : ℝ)
    (hx : x[i]? = some xi) (hF : F[i]? = some fi) :
    (updateCoords alpha x F)[i]? = some xi ↔ fi = 0 := by
  unfold updateCoords
  rw [List.getElem?_zipWith, hx, hF]
  simp [ha]

/-- the same through the batch update: molecule `k`, coordinate `i` -/
theorem padding_never_moves_batch (alpha : ℝ) (xs Fs : List (List ℝ)) (k i : ℕ) (x F : List ℝ)
    (hx : xs[k]? = some x) (hFk : Fs[k]? = some F) (hF : F[i]? = some 0) :
    ∃ x', (updateBatch alpha xs Fs)[k]? = some x' ∧ x'[i]? = x[i]? := by
  refine ⟨updateCoords alpha x F, ?_, padding_never_moves alpha x F i hF⟩
  unfold updateBatch
  rw [List.getElem?_zipWith, hx, hFk]

example : updateCoords (1/100 : ℝ) [1, 2, 0, 0] [5, -3, 0, 0] = [1 + 1/100 * 5, 2 + 1/100 * -3, 0, 0] := by
  norm_num [updateCoords]

/-- **The update of molecule `k` uses only `x_k` and `F_k`.** -/
theorem update_uses_own_force_only (alpha : ℝ) (xs Fs : List (List ℝ)) (k : ℕ) :
    (updateBatch alpha xs Fs)[k]? =
      match xs[k]?, Fs[k]? with
      | some x, some F => some (updateCoords alpha x F)
      | _, _ => none := by
  unfold updateBatch
  rw [List.getElem?_zipWith]
  cases xs[k]? <;> cases Fs[k]? <;> rfl

/-- one optimiser step of a single molecule with force field `f` -/
noncomputable def stepMol (f : List ℝ → List ℝ) (alpha : ℝ) (x : List ℝ) : List ℝ := updateCoords alpha x (f x)

/-- **The path of one molecule does not depend on its batch mates**: if the engine computes each
molecule's force from that molecule alone (`(eval xs).1 = xs.map f`, the engine's own batch
independence — a hypothesis here), then after `t` updates molecule `k` sits at `stepMol^[t] x_k`,
whatever the other molecules are. -/
theorem path_independent_of_batch_mates (eval : List (List ℝ) → List (List ℝ) × List ℝ)
    (f : List ℝ → List ℝ) (heval : ∀ xs, (eval xs).1 = xs.map f) (alpha : ℝ) (t : ℕ)
    (xs : List (List ℝ)) :
    (stepGeom eval alpha)^[t] xs = xs.map (stepMol f alpha)^[t] := by
  induction t generalizing xs with
  | zero => simp
  | succ t ih =>
    rw [Function.iterate_succ_apply, ih]
    have : stepGeom eval alpha xs = xs.map (stepMol f alpha) := by
      unfold stepGeom updateBatch stepMol
      rw [heval]
      induction xs with
      | nil => rfl
      | cons x xs ihx => simp only [List.map_cons, List.zipWith_cons_cons, ihx]
    rw [this, List.map_map]
    congr 1

theorem path_independent_of_batch_mates' (eval : List (List ℝ) → List (List ℝ) × List ℝ)
    (f : List ℝ → List ℝ) (heval : ∀ xs, (eval xs).1 = xs.map f) (alpha : ℝ) (t k : ℕ)
    (xs xs' : List (List ℝ)) (hk : xs[k]? = xs'[k]?) :
    ((stepGeom eval alpha)^[t] xs)[k]? = ((stepGeom eval alpha)^[t] xs')[k]? := by
  rw [path_independent_of_batch_mates eval f heval, path_independent_of_batch_mates eval f heval,
    List.getElem?_map, List.getElem?_map, hk]

/-- harmonic test engine: `E = ½|x|²` per molecule, `F = −x` -/
noncomputable def harmonic (xs : List (List ℝ)) : List (List ℝ) × List ℝ :=
  (xs.map (·.map (fun a => -a)), xs.map (fun x => (x.map (fun a => a * a / 2)).sum))

/-- **… but the LENGTH of the path is batch-global.**  The stop test uses the maximum force over
the whole batch: the molecule `x = 1/100` alone stops after one evaluation (stored `1/200`), next to
the mate `x = 1/5` it is evaluated twice and ends at `1/400`.  The geometry a molecule is left at
therefore depends on its batch mates, although every point of its path does not. -/
theorem path_length_is_batch_global :
    runFull harmonic (fun a => |a|) (fun k => (k : ℝ)) (1/2) 10 (1/10) [[1/100]] =
      ([[1/200]], some ⟨1, false, 1/100, 1/20000⟩) ∧
    runFull harmonic (fun a => |a|) (fun k => (k : ℝ)) (1/2) 10 (1/10) [[1/100], [1/5]] =
      ([[1/400], [1/20]], some ⟨2, false, 1/10, (1/80000 - 1/20000 + (1/200 - 1/50)) / 2⟩) := by
  constructor
  · norm_num [runFull, loopFull, harmonic, maxAbs, updateBatch, updateCoords, energyErr, sumL, abs_of_nonneg]
  · norm_num [runFull, loopFull, harmonic, maxAbs, updateBatch, updateCoords, energyErr, sumL, abs_of_nonneg]

end C20
