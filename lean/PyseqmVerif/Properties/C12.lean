import PyseqmVerif.Proofs.LangevinLemmas
import PyseqmVerif.Properties.C08
import Mathlib.Probability.Distributions.Gaussian.Real
import Mathlib.Probability.Independence.Basic
import Mathlib.Topology.Algebra.Order.Field
import Mathlib.Analysis.SpecificLimits.Basic
import Mathlib.Tactic.FieldSimp
import Mathlib.Tactic.IntervalCases
/-!
# C12 — the Langevin thermostat (Bussi–Parrinello splitting)

Statements about the executable model `Langevin` (`Model/Langevin.lean`, diffed against
`Molecular_Dynamics_Langevin.initialize/_apply_langevin_thermostat/one_step` through the driver ops
`langevin_c`, `langevin_apply`) instantiated at `ℝ` with `exp = Real.exp`,
`expm1 = Langevin.expm1R = fun x => Real.exp x - 1`, `sqrt = Real.sqrt`.
`τ` is `damp`, `mi` one entry of `mass_inverse`, `VEL = VEL_SCALE`; the target variance of a velocity
component is `σ² = T·mi·VEL²`.
-/
namespace C12
open Verlet Langevin MDL Finset Filter Topology

/-! ### fluctuation–dissipation -/

/-- `c1² σ² + c2² = σ²` with `σ² = T·minv·VEL²`, for all `dt, τ, T, minv ≥ 0` -/
theorem fluctuation_dissipation (dt τ T mi VEL : ℝ) (hdt : 0 ≤ dt) (hτ : 0 ≤ τ) (hT : 0 ≤ T) (hm : 0 ≤ mi) :
    langevinC1 Real.exp dt τ ^ 2 * (T * mi * VEL ^ 2)
      + langevinC2s expm1R Real.sqrt dt τ T VEL mi ^ 2 = T * mi * VEL ^ 2 := by
  rw [langevinC1_sq, langevinC2s_sq dt τ T VEL mi hdt hτ hT hm]; ring

/-! ### the Gaussian is invariant under the O-U half step -/
open MeasureTheory ProbabilityTheory NNReal in
theorem ou_invariant {Ω : Type*} [MeasurableSpace Ω] {P : Measure Ω}
    (σ2 : ℝ≥0) (c1 c2 : ℝ) (hfd : c1 ^ 2 * (σ2 : ℝ) + c2 ^ 2 = σ2)
    (V ξ : Ω → ℝ) (hind : IndepFun V ξ P)
    (hV : P.map V = gaussianReal 0 σ2) (hξ : P.map ξ = gaussianReal 0 1) :
    P.map (fun ω => V ω * c1 + c2 * ξ ω) = gaussianReal 0 σ2 := by
  have hVm : AEMeasurable V P := by
    apply AEMeasurable.of_map_ne_zero; simp [NeZero.ne, hV]
  have hξm : AEMeasurable ξ P := by
    apply AEMeasurable.of_map_ne_zero; simp [NeZero.ne, hξ]
  have h1 : P.map (fun ω => c1 * V ω) = gaussianReal 0 (.mk (c1 ^ 2) (sq_nonneg _) * σ2) := by
    have : (fun ω => c1 * V ω) = (fun x => c1 * x) ∘ V := rfl
    rw [this, ← AEMeasurable.map_map_of_aemeasurable (by fun_prop) hVm, hV, gaussianReal_map_const_mul]
    simp
  have h2 : P.map (fun ω => c2 * ξ ω) = gaussianReal 0 (.mk (c2 ^ 2) (sq_nonneg _) * 1) := by
    have : (fun ω => c2 * ξ ω) = (fun x => c2 * x) ∘ ξ := rfl
    rw [this, ← AEMeasurable.map_map_of_aemeasurable (by fun_prop) hξm, hξ, gaussianReal_map_const_mul]
    simp
  have hind' : IndepFun (fun ω => c1 * V ω) (fun ω => c2 * ξ ω) P :=
    hind.comp (φ := fun x => c1 * x) (ψ := fun x => c2 * x) (by fun_prop) (by fun_prop)
  have := gaussianReal_add_gaussianReal_of_indepFun hind' h1 h2
  have e : (fun ω => c1 * V ω) + (fun ω => c2 * ξ ω) = fun ω => V ω * c1 + c2 * ξ ω := by
    funext ω; simp [mul_comm]
  rw [e] at this
  rw [this]
  congr 1
  · simp
  · ext; simp; linarith [hfd]

/-- ... with the coefficients of the code: the thermostat update `v * c1 + c2 * xi` of one velocity
    component maps `N(0, T·minv·VEL²)` to itself -/
theorem ou_invariant_langevin {Ω : Type*} [MeasurableSpace Ω] {P : MeasureTheory.Measure Ω}
    (dt τ T mi VEL : ℝ) (hdt : 0 ≤ dt) (hτ : 0 ≤ τ) (hT : 0 ≤ T) (hm : 0 ≤ mi)
    (V ξ : Ω → ℝ) (hind : ProbabilityTheory.IndepFun V ξ P)
    (hV : P.map V = ProbabilityTheory.gaussianReal 0 ⟨T * mi * VEL ^ 2, by positivity⟩)
    (hξ : P.map ξ = ProbabilityTheory.gaussianReal 0 1) :
    P.map (fun ω => V ω * langevinC1 Real.exp dt τ + langevinC2s expm1R Real.sqrt dt τ T VEL mi * ξ ω)
      = ProbabilityTheory.gaussianReal 0 ⟨T * mi * VEL ^ 2, by positivity⟩ :=
  ou_invariant ⟨T * mi * VEL ^ 2, by positivity⟩ _ _
    (fluctuation_dissipation dt τ T mi VEL hdt hτ hT hm) V ξ hind hV hξ

open MeasureTheory ProbabilityTheory NNReal in
/-- non-vacuity of `ou_invariant`: independent `V ~ N(0,σ²)`, `ξ ~ N(0,1)` exist -/
example (σ2 : ℝ≥0) : ∃ (Ω : Type) (_ : MeasurableSpace Ω) (P : Measure Ω) (V ξ : Ω → ℝ),
    IndepFun V ξ P ∧ P.map V = gaussianReal 0 σ2 ∧ P.map ξ = gaussianReal 0 1 := by
  refine ⟨ℝ × ℝ, inferInstance, (gaussianReal 0 σ2).prod (gaussianReal 0 1), Prod.fst, Prod.snd, ?_, ?_, ?_⟩
  · exact indepFun_prod (X := fun x : ℝ => x) (Y := fun y : ℝ => y) measurable_id measurable_id
  · rw [Measure.map_fst_prod, measure_univ, one_smul]
  · rw [Measure.map_snd_prod, measure_univ, one_smul]

/-! ### contraction of the variance towards the target -/

/-- `s ↦ c1² s + c2²` has the fixed point `σ²` and contracts towards it by exactly `c1²` per
    thermostat application; `0 < c1 < 1` for `dt, τ > 0` -/
theorem variance_contraction (dt τ T mi VEL : ℝ) (hdt : 0 < dt) (hτ : 0 < τ) (hT : 0 ≤ T) (hm : 0 ≤ mi)
    (s0 : ℝ) (k : ℕ) :
    let c1 := langevinC1 Real.exp dt τ
    let c2 := langevinC2s expm1R Real.sqrt dt τ T VEL mi
    let σ2 := T * mi * VEL ^ 2
    varMap c1 c2 σ2 = σ2 ∧
    |(varMap c1 c2)^[k] s0 - σ2| = c1 ^ (2 * k) * |s0 - σ2| ∧
    0 < c1 ∧ c1 < 1 := by
  intro c1 c2 σ2
  have hfix : varMap c1 c2 σ2 = σ2 := fluctuation_dissipation dt τ T mi VEL hdt.le hτ.le hT hm
  refine ⟨hfix, ?_, langevinC1_pos dt τ, langevinC1_lt_one dt τ hdt hτ⟩
  rw [varMap_iterate c1 c2 σ2 hfix, abs_mul, abs_of_nonneg (pow_nonneg (langevinC1_pos dt τ).le _)]

section
variable {n : ℕ} {force : List ℝ → List ℝ} {minv : List ℝ} {s : State ℝ} (ACC dt : ℝ)

/-! ### the NVE limit -/

/-- algebraic part: with `(c1, c2) = (1, 0)` the Langevin step IS the velocity-Verlet step,
    whatever the random draws -/
theorem nve_limit (hs : Sized n s) (hm : minv.length = n) (hF : ForceSized n force)
    (xi1 xi2 : List ℝ) (h1 : xi1.length = n) (h2 : xi2.length = n) :
    langevinStep force ACC dt minv 1 (List.replicate n 0) xi1 xi2 s = vvStep force ACC dt minv s := by
  have hv := hs.2.1
  have hs1 := vvStep_sized ACC dt hs hm hF
  unfold langevinStep
  have e0 : thermostat 1 (List.replicate n 0) s.v xi1 = s.v := by
    have := thermostat_one_zero s.v xi1 (by rw [h1, hv]); rwa [hv] at this
  simp only [e0]
  have e1 : thermostat 1 (List.replicate n 0) (vvStep force ACC dt minv s).v xi2
      = (vvStep force ACC dt minv s).v := by
    have := thermostat_one_zero (vvStep force ACC dt minv s).v xi2 (by rw [h2, hs1.2.1])
    rwa [hs1.2.1] at this
  rw [e1]

/-- analytic part: the coefficients tend to `(1, 0)` as the damping time `τ → ∞` -/
theorem nve_limit_tendsto (dt T VEL mi : ℝ) :
    Tendsto (fun τ => langevinC1 Real.exp dt τ) atTop (𝓝 1) ∧
    Tendsto (fun τ => langevinC2s expm1R Real.sqrt dt τ T VEL mi) atTop (𝓝 0) := by
  have hS : Tendsto (fun τ => langevinS dt τ) atTop (𝓝 0) := by
    unfold langevinS
    exact tendsto_const_nhds.div_atTop tendsto_id
  constructor
  · have hc : Continuous (fun u : ℝ => Real.exp (0.5 * u)) := by fun_prop
    have := (hc.tendsto 0).comp hS
    simpa [langevinC1, Function.comp_def] using this
  · have hc : Continuous (fun u : ℝ => Real.sqrt (-(Real.exp u - 1) * T * mi) * VEL) := by fun_prop
    have := (hc.tendsto 0).comp hS
    simpa [langevinC2s, oneMinusE, expm1R, Function.comp_def] using this

/-- quantitative: `|1 - c1| ≤ dt / (2 τ)` -/
theorem nve_limit_bound (dt τ : ℝ) (hdt : 0 ≤ dt) (hτ : 0 ≤ τ) :
    |1 - langevinC1 Real.exp dt τ| ≤ dt / (2 * τ) := by
  rw [abs_of_nonneg (sub_nonneg.mpr (langevinC1_le_one dt τ hdt hτ)), langevinC1_eq]
  have := Real.add_one_le_exp (-(dt / τ) / 2)
  have e : dt / (2 * τ) = dt / τ / 2 := by rw [div_div, mul_comm]
  rw [e]; linarith

/-! ### zero temperature -/

/-- `Temp = 0`: no noise (`c2 = 0`) and `|c1 v| ≤ |v|` -/
theorem zero_temperature_only_removes_energy (dt τ VEL mi v : ℝ) (hdt : 0 ≤ dt) (hτ : 0 ≤ τ) :
    langevinC2s expm1R Real.sqrt dt τ 0 VEL mi = 0 ∧ |v * langevinC1 Real.exp dt τ| ≤ |v| := by
  constructor
  · simp [langevinC2s]
  · rw [abs_mul, abs_of_pos (langevinC1_pos dt τ)]
    exact mul_le_of_le_one_right (abs_nonneg v) (langevinC1_le_one dt τ hdt hτ)

/-- array form: at `Temp = 0` the thermostat only shrinks every velocity component, whatever `xi` -/
theorem zero_temperature_thermostat (dt τ VEL : ℝ) (hdt : 0 ≤ dt) (hτ : 0 ≤ τ) (v xi : List ℝ)
    (hmv : minv.length = v.length) (hxi : xi.length = v.length) (i : ℕ) :
    (thermostat (langevinC1 Real.exp dt τ) (langevinC2 expm1R Real.sqrt dt τ 0 VEL minv) v xi).getD i 0
      = v.getD i 0 * langevinC1 Real.exp dt τ ∧
    |(thermostat (langevinC1 Real.exp dt τ) (langevinC2 expm1R Real.sqrt dt τ 0 VEL minv) v xi).getD i 0|
      ≤ |v.getD i 0| := by
  have e : (thermostat (langevinC1 Real.exp dt τ) (langevinC2 expm1R Real.sqrt dt τ 0 VEL minv) v xi).getD i 0
      = v.getD i 0 * langevinC1 Real.exp dt τ := by
    rw [thermostat_getD _ _ _ _ (by rw [langevinC2_length, hmv]) hxi, langevinC2_getD,
      (zero_temperature_only_removes_energy dt τ VEL _ 0 hdt hτ).1]
    ring
  exact ⟨e, e ▸ (zero_temperature_only_removes_energy dt τ VEL 0 _ hdt hτ).2⟩

/-! ### padding atoms -/

/-- a component with `mass_inverse = 0` gets no noise, and if it is at rest with zero stored
    acceleration it is still so after `one_step` (thermostat, kicks with `acc = F·0·ACC`, drift),
    whatever the force entry and the random draws -/
theorem padding_atoms_stay_at_rest (hs : Sized n s) (hm : minv.length = n) (hF : ForceSized n force)
    (xi1 xi2 : List ℝ) (h1 : xi1.length = n) (h2 : xi2.length = n) (τ T VEL : ℝ)
    (i : ℕ) (hmi : minv.getD i 0 = 0) (hv : s.v.getD i 0 = 0) (ha : s.a.getD i 0 = 0) :
    (langevinC2 expm1R Real.sqrt dt τ T VEL minv).getD i 0 = 0 ∧
    (langevinStep force ACC dt minv (langevinC1 Real.exp dt τ)
        (langevinC2 expm1R Real.sqrt dt τ T VEL minv) xi1 xi2 s).v.getD i 0 = 0 ∧
    (langevinStep force ACC dt minv (langevinC1 Real.exp dt τ)
        (langevinC2 expm1R Real.sqrt dt τ T VEL minv) xi1 xi2 s).a.getD i 0 = 0 ∧
    (langevinStep force ACC dt minv (langevinC1 Real.exp dt τ)
        (langevinC2 expm1R Real.sqrt dt τ T VEL minv) xi1 xi2 s).x.getD i 0 = s.x.getD i 0 := by
  have hc2 : (langevinC2 expm1R Real.sqrt dt τ T VEL minv).getD i 0 = 0 := by
    rw [langevinC2_getD, hmi]; simp [langevinC2s]
  have hc2l : (langevinC2 expm1R Real.sqrt dt τ T VEL minv).length = n := by rw [langevinC2_length, hm]
  have hs0 := thermostat_sized (s := s) (langevinC1 Real.exp dt τ) _ xi1 hs hc2l h1
  have hs1 := vvStep_sized ACC dt hs0 hm hF
  have hv0 : (thermostat (langevinC1 Real.exp dt τ) (langevinC2 expm1R Real.sqrt dt τ T VEL minv) s.v xi1).getD i 0
      = 0 := by
    rw [thermostat_getD _ _ _ _ (by rw [hc2l, hs.2.1]) (by rw [h1, hs.2.1]), hv, hc2]; ring
  obtain ⟨ex, ev, ea⟩ := C08.vv_exact_forms ACC dt hs0 hm hF i
  simp only [] at ex ev ea
  rw [hmi] at ea
  have ea' := ea.trans (by ring : _ * (0 : ℝ) * ACC = 0)
  rw [ea', hv0, ha] at ev
  rw [hv0, ha] at ex
  refine ⟨hc2, ?_, ea', ?_⟩
  · unfold langevinStep
    simp only []
    rw [thermostat_getD _ _ _ _ (by rw [hc2l, hs1.2.1]) (by rw [h2, hs1.2.1]), ev, hc2]; ring
  · unfold langevinStep
    simp only []
    rw [ex]; ring

end
/-! ### the temperature the thermostat aims at -/

/-- Components of real atoms have `m·minv = 1`, padding components `m = 0`; `ndof` = number of
    real components (`3 × num_atoms`, the Langevin `set_dof`).  If every component has the target
    variance `σₖ² = T·minvₖ·VEL²`, the expected kinetic temperature `Σ ½ mₖ σₖ² · KES · TS / (½ ndof)`
    is `T · (VEL²·KES·TS)`. -/
theorem temperature_of_target_variance (T VEL KES TS : ℝ) (m minv : List ℝ) (L : ℕ)
    (hreal : ∀ k ∈ range L, m.getD k 0 * minv.getD k 0 = 1 ∨ m.getD k 0 = 0)
    (hdof : 0 < ((range L).filter (fun k => m.getD k 0 ≠ 0)).card) :
    temperature ((∑ k ∈ range L, 1 / 2 * m.getD k 0 * (T * minv.getD k 0 * VEL ^ 2)) * KES) TS
        (((range L).filter (fun k => m.getD k 0 ≠ 0)).card : ℝ)
      = T * (VEL ^ 2 * KES * TS) := by
  have hsum : ∑ k ∈ range L, 1 / 2 * m.getD k 0 * (T * minv.getD k 0 * VEL ^ 2)
      = 1 / 2 * T * VEL ^ 2 * (((range L).filter (fun k => m.getD k 0 ≠ 0)).card : ℝ) := by
    rw [← Finset.sum_boole, Finset.mul_sum]
    apply Finset.sum_congr rfl
    intro k hk
    rcases hreal k hk with h1 | h0
    · have hne : m.getD k 0 ≠ 0 := by
        intro h; rw [h] at h1; norm_num at h1
      rw [if_pos hne]; linear_combination (1 / 2 * T * VEL ^ 2) * h1
    · rw [if_neg (by simpa using h0), h0]; ring
  have hpos : (0 : ℝ) < (((range L).filter (fun k => m.getD k 0 ≠ 0)).card : ℝ) := by exact_mod_cast hdof
  rw [hsum]
  unfold temperature
  rw [half_eq]
  field_simp

/-- with the constants of the live code the aimed-at kinetic temperature is `T` up to `10⁻⁹` relative -/
theorem target_temperature_units (T : ℝ) :
    |T * ((Generated.Constants.VEL_SCALE : ℝ) ^ 2 * (Generated.Constants.KINETIC_ENERGY_SCALE : ℝ)
        * (Generated.Constants.TEMPERATURE_SCALE : ℝ)) - T| ≤ |T| * 1e-9 := by
  have h := C08.units_consistent.2
  have h' : |(Generated.Constants.VEL_SCALE : ℝ) ^ 2 * (Generated.Constants.KINETIC_ENERGY_SCALE : ℝ)
        * (Generated.Constants.TEMPERATURE_SCALE : ℝ) - 1| < 1e-9 := by
    have := (Rat.cast_lt (K := ℝ)).mpr h
    push_cast at this
    convert this using 1
  rw [show ∀ u : ℝ, T * u - T = T * (u - 1) from fun u => by ring, abs_mul]
  exact mul_le_mul_of_nonneg_left h'.le (abs_nonneg T)

/-- non-vacuity: one real atom (mass 2) and one padding atom -/
example : ∀ k ∈ range 6, ([2, 2, 2, 0, 0, 0] : List ℝ).getD k 0 * ([1 / 2, 1 / 2, 1 / 2, 0, 0, 0] : List ℝ).getD k 0 = 1
    ∨ ([2, 2, 2, 0, 0, 0] : List ℝ).getD k 0 = 0 := by
  intro k hk
  rw [Finset.mem_range] at hk
  interval_cases k <;> simp

/-! ### degrees of freedom -/

/-- `set_dof` of the three integrators: Basic subtracts the constraints, Langevin never does,
    XL-BOMD drops them iff a damping time is set -/
theorem set_dof_variants (N c : ℝ) :
    setDofBasic N c = 3 * N - c ∧ setDofLangevin N c = 3 * N ∧
    setDofXL true N c = 3 * N ∧ setDofXL false N c = 3 * N - c := by
  unfold setDofBasic setDofLangevin setDofXL
  norm_num

/-! ### non-vacuity on the spring system of `C08` (two real atoms and a padding atom) -/
section examples
open C08

/-- `nve_limit`: all hypotheses hold for the example state and any noise of the right length -/
example (dt : ℝ) (xi1 xi2 : List ℝ) (h1 : xi1.length = 9) (h2 : xi2.length = 9) :
    langevinStep springForce 1 dt minvEx 1 (List.replicate 9 0) xi1 xi2 sEx
      = vvStep springForce 1 dt minvEx sEx :=
  nve_limit 1 dt sEx_sized rfl springForce_sized xi1 xi2 h1 h2

/-- `padding_atoms_stay_at_rest`: component 6 belongs to the padding atom, whose force entry is
    `7 ≠ 0` and whose noise is arbitrary -/
example (dt τ T VEL : ℝ) (xi1 xi2 : List ℝ) (h1 : xi1.length = 9) (h2 : xi2.length = 9) :
    (langevinStep springForce 1 dt minvEx (langevinC1 Real.exp dt τ)
        (langevinC2 expm1R Real.sqrt dt τ T VEL minvEx) xi1 xi2 sEx).v.getD 6 0 = 0 :=
  (padding_atoms_stay_at_rest 1 dt sEx_sized rfl springForce_sized xi1 xi2 h1 h2 τ T VEL 6
    (by simp [minvEx]) (by simp [sEx]) (by simp [sEx, accel, springForce, minvEx])).2.1

/-- `variance_contraction`, `fluctuation_dissipation`: typical run parameters satisfy the hypotheses -/
example : (0 : ℝ) < 0.4 ∧ (0 : ℝ) < 50 ∧ (0 : ℝ) ≤ 300 ∧ (0 : ℝ) ≤ 1 / 12 := by norm_num

/-- `zero_temperature_thermostat` on a one-component array -/
example (xi : ℝ) : |(thermostat (langevinC1 Real.exp 0.4 50)
    (langevinC2 expm1R Real.sqrt 0.4 50 0 1 [1 / 12]) [2] [xi]).getD 0 0| ≤ |([2] : List ℝ).getD 0 0| :=
  (zero_temperature_thermostat (minv := [1 / 12]) 0.4 50 1 (by norm_num) (by norm_num) [2] [xi] rfl rfl 0).2

/-- `temperature_of_target_variance`: the number of real components is positive in the example -/
example : 0 < ((range 6).filter (fun k => ([2, 2, 2, 0, 0, 0] : List ℝ).getD k 0 ≠ 0)).card :=
  Finset.card_pos.mpr ⟨0, by simp⟩

end examples
end C12
