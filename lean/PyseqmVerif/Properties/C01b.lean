import Mathlib.Analysis.SpecialFunctions.ExpDeriv
import Mathlib.Analysis.SpecialFunctions.Log.Basic
import Mathlib.Analysis.SpecialFunctions.Sqrt
import Mathlib.Analysis.Calculus.Deriv.Inv
import Mathlib.Analysis.Calculus.Deriv.Mul
import Mathlib.Analysis.Calculus.Deriv.Pow
import Mathlib.Analysis.Calculus.Deriv.Add
import Mathlib.Analysis.Calculus.Deriv.Comp
import Mathlib.Topology.Order.OrderClosed
import Mathlib.Topology.MetricSpace.Pseudo.Defs
import Mathlib.Tactic.Ring
import Mathlib.Tactic.FieldSimp
import Mathlib.Tactic.Linarith
import Mathlib.Tactic.NormNum
import Mathlib.Tactic.Positivity
/-!
# C01b — forces are −∇E: the AM1-FS1 dispersion pair correction

Code: `seqm/seqm_functions/dispersion_am1_fs1.py`

* energy (`dispersion_am1_fs1`, l.27–34): `E_pair = −C6 · (a0·r)^(−6) · f_damp · κ`, `r = mol.rij` in **bohr**,
  `a0` the bohr→Å factor (`constants.py:9`), `κ = EV_PER_ATOM_PER_J_PER_MOL · 1e6`;
* damping (`dispersion_damping`, l.54–60, 67): `exp_arg = d·(a0·r/(S_R·R_vdw) − 1)`, `f = sigmoid(exp_arg)`,
  then `f = 1 where exp_arg > D_TOL`, then `f = 0 where exp_arg < −D_TOL`; `alpha = d·a0/(S_R·R_vdw)`;
* analytic derivative (`dEdisp_dr`, l.109–116): `inv_r7 = (a0·r)^(−7)`, `bracket = 6 − alpha·r·(1 − f)`,
  `dE_pair = C6·f·inv_r7·bracket·1e6·EV_PER_ATOM_PER_J_PER_MOL`; returns `−dE_pair · xij` (`xij` = unit vector
  of `X_j − X_i`).

**Convention of the callers** (`anal_grad.py:87–89`, `:278–280`, `XLESMD_gradient.py:181–183`,
`rcis_grad_batch.py:111–113`): the returned `(npairs, 3)` tensor is added to `pair_grad = core_core_der(…)`, which is
`∂E_pair/∂X_i` in **eV/Å** (`anal_grad.py:45` "in the units of ev/Angstrom"; `:503,524` `pair_grad = coreTerm · Xij`
with `Xij = xij·rij·a0` in Å; `:220–221` `+pair_grad` on atom `i`, `−pair_grad` on atom `j`).  With `R = a0·r = |X_j − X_i|`
(Å) one has `∂R/∂X_{i,c} = −xij_c`, hence `dE_pair` must be `dE/dR = dE/d(a0·r)`, the derivative with respect to the
distance in **Å**.  That is what the code computes: `alpha·r = (d/(S_R R_vdw))·(a0 r)`, so
`dE_pair = C6 κ f R^(−7) (6 − (d/ρ) R (1 − f)) = dE/dR`.  With respect to the bohr variable `r = mol.rij` the
constant is therefore **`c = a0`**: `d ePair / d r = a0 · dEcode r`.

Proved:
* `dispersion_derivative_unsaturated` (`c = a0`, bohr variable), `dispersion_derivative_saturated_one/_zero`,
  `dispersion_derivative_saturated`, `dispersion_derivative_off_clip`;
  `dispersion_derivative_angstrom` (`c = 1`, Å variable); `dispersion_force_cartesian` (the returned vector
  component `−dE_pair·xij_c` is `∂E_pair/∂X_{i,c}`).  No mismatch found away from the two clip points.
* `clip_jump_sizes`, `clip_error_uniform`, `clip_jump_le_1em12`: the clip changes `f` by at most
  `exp(−D_TOL) = 1e−12`.  `fDamp_not_continuousAt_upper_clip`, `ePair_not_differentiableAt_upper_clip`: at the clip
  point the energy really is discontinuous (so C01 fails there, on a set of measure zero, by `≤ 1e−12·C6κR^(−6)`).
* `unit_slip_witness` (+ `unit_slip_difference`, `unit_slip_invisible_saturated`): seeded defect "`r` converted to Å
  but `alpha` kept".
-/

namespace C01b
open Real Filter Topology

/-- per-pair parameters: `C6 = C6ij`, `a0` bohr→Å, `ρ = S_R·R_vdw` (Å), `d` (steepness, `1000.0`),
    `T = D_TOL`, `κ = EV_PER_ATOM_PER_J_PER_MOL·1e6` -/
structure Params where
  C6 : ℝ
  a0 : ℝ
  ρ : ℝ
  d : ℝ
  T : ℝ
  κ : ℝ

/-- `torch.sigmoid` -/
noncomputable def sigmoid (x : ℝ) : ℝ := 1 / (1 + exp (-x))

/-- l.54 `exp_arg = d * (a0 * mol.rij / (S_R * R_vdw) - 1.0)` -/
noncomputable def expArg (P : Params) (r : ℝ) : ℝ := P.d * (P.a0 * r / P.ρ - 1)

/-- l.56 `f_damp = torch.sigmoid(exp_arg)` (before clipping) -/
noncomputable def fDampRaw (P : Params) (r : ℝ) : ℝ := 1 / (1 + exp (-(P.d * (P.a0 * r / P.ρ - 1))))

/-- l.59–60: the two `torch.where` clips, in the order of the code -/
noncomputable def fDamp (P : Params) (r : ℝ) : ℝ :=
  let f1 := if expArg P r > P.T then 1 else fDampRaw P r
  if expArg P r < -P.T then 0 else f1

/-- l.67 `alpha = d * a0 / (S_R * R_vdw)` -/
noncomputable def alpha (P : Params) : ℝ := P.d * P.a0 / P.ρ

/-- l.30, 34 (per pair) `-C6ij * torch.pow(a0 * mol.rij, -6.0) * f_damp * (EV_PER_ATOM_PER_J_PER_MOL * 1e6)` -/
noncomputable def ePair (P : Params) (r : ℝ) : ℝ := -P.C6 * (P.a0 * r) ^ (-6 : ℤ) * fDamp P r * P.κ

/-- l.111–115 `dE_pair` (per pair), exactly as computed by `dEdisp_dr` -/
noncomputable def dEcode (P : Params) (r : ℝ) : ℝ :=
  let inv_r7 := (P.a0 * r) ^ (-7 : ℤ)
  let bracket := 6 - alpha P * r * (1 - fDamp P r)
  P.C6 * fDamp P r * inv_r7 * bracket * P.κ

/-- the unclipped energy (auxiliary) -/
noncomputable def ePairRaw (P : Params) (r : ℝ) : ℝ := -P.C6 * (P.a0 * r) ^ (-6 : ℤ) * fDampRaw P r * P.κ

/-! ## basic facts -/

theorem fDampRaw_eq_sigmoid (P : Params) (r : ℝ) : fDampRaw P r = sigmoid (expArg P r) := rfl

theorem zpow_neg6 (x : ℝ) : x ^ (-6 : ℤ) = (x ^ 6)⁻¹ := by
  rw [zpow_neg]; norm_cast

theorem zpow_neg7 (x : ℝ) : x ^ (-7 : ℤ) = (x ^ 7)⁻¹ := by
  rw [zpow_neg]; norm_cast

theorem sigmoid_pos (x : ℝ) : 0 < sigmoid x := by unfold sigmoid; positivity

theorem sigmoid_lt_one (x : ℝ) : sigmoid x < 1 := by
  unfold sigmoid
  rw [div_lt_one (by positivity)]
  linarith [exp_pos (-x)]

theorem one_sub_sigmoid_le (x : ℝ) : 1 - sigmoid x ≤ exp (-x) := by
  unfold sigmoid
  have hE : 0 < exp (-x) := exp_pos _
  have : 1 - 1 / (1 + exp (-x)) = exp (-x) / (1 + exp (-x)) := by field_simp; ring
  rw [this, div_le_iff₀ (by positivity)]
  nlinarith

theorem sigmoid_le_exp (x : ℝ) : sigmoid x ≤ exp x := by
  unfold sigmoid
  have hE : 0 < exp x := exp_pos _
  rw [div_le_iff₀ (by positivity), exp_neg]
  have : exp x * (1 + (exp x)⁻¹) = exp x + 1 := by field_simp
  rw [this]; linarith

theorem fDamp_unsat (P : Params) (r : ℝ) (hlo : -P.T ≤ expArg P r) (hhi : expArg P r ≤ P.T) :
    fDamp P r = fDampRaw P r := by
  simp only [fDamp, gt_iff_lt, not_lt.mpr hlo, not_lt.mpr hhi, if_false]

theorem fDamp_sat_one (P : Params) (r : ℝ) (hT : 0 ≤ P.T) (h : P.T < expArg P r) : fDamp P r = 1 := by
  have : ¬ expArg P r < -P.T := by linarith
  simp only [fDamp, gt_iff_lt, h, this, if_true, if_false]

theorem fDamp_sat_zero (P : Params) (r : ℝ) (h : expArg P r < -P.T) : fDamp P r = 0 := by
  simp only [fDamp, h, if_true]

theorem continuous_expArg (P : Params) : Continuous (expArg P) := by
  unfold expArg; fun_prop

/-! ## 2. the unsaturated (switching) window -/

/-- derivative of the unclipped energy with respect to `r` (bohr) -/
theorem ePairRaw_hasDerivAt (P : Params) (r : ℝ) (hr : P.a0 * r ≠ 0) :
    HasDerivAt (ePairRaw P)
      (P.a0 * (P.C6 * fDampRaw P r * (P.a0 * r) ^ (-7 : ℤ)
        * (6 - alpha P * r * (1 - fDampRaw P r)) * P.κ)) r := by
  have h1 : HasDerivAt (fun x : ℝ => P.a0 * x) P.a0 r := by
    simpa using (hasDerivAt_id r).const_mul P.a0
  have h6 : HasDerivAt (fun x : ℝ => ((P.a0 * x) ^ 6)⁻¹)
      (-((6 : ℕ) * (P.a0 * r) ^ (6 - 1) * P.a0) / ((P.a0 * r) ^ 6) ^ 2) r :=
    (h1.pow 6).inv (pow_ne_zero 6 hr)
  have he : HasDerivAt (fun x : ℝ => -(P.d * (P.a0 * x / P.ρ - 1))) (-(P.d * (P.a0 / P.ρ))) r :=
    (((h1.div_const P.ρ).sub_const 1).const_mul P.d).neg
  have hden : HasDerivAt (fun x : ℝ => 1 + exp (-(P.d * (P.a0 * x / P.ρ - 1))))
      (exp (-(P.d * (P.a0 * r / P.ρ - 1))) * -(P.d * (P.a0 / P.ρ))) r := he.exp.const_add 1
  have hpos : (1 + exp (-(P.d * (P.a0 * r / P.ρ - 1)))) ≠ 0 := by positivity
  have hsig : HasDerivAt (fun x : ℝ => 1 / (1 + exp (-(P.d * (P.a0 * x / P.ρ - 1)))))
      ((0 * (1 + exp (-(P.d * (P.a0 * r / P.ρ - 1))))
          - 1 * (exp (-(P.d * (P.a0 * r / P.ρ - 1))) * -(P.d * (P.a0 / P.ρ))))
        / (1 + exp (-(P.d * (P.a0 * r / P.ρ - 1)))) ^ 2) r :=
    (hasDerivAt_const r (1 : ℝ)).div hden hpos
  have hall : HasDerivAt (fun x : ℝ => -P.C6 * ((P.a0 * x) ^ 6)⁻¹
        * (1 / (1 + exp (-(P.d * (P.a0 * x / P.ρ - 1))))) * P.κ)
      ((-P.C6 * (-((6 : ℕ) * (P.a0 * r) ^ (6 - 1) * P.a0) / ((P.a0 * r) ^ 6) ^ 2)
          * (1 / (1 + exp (-(P.d * (P.a0 * r / P.ρ - 1)))))
        + -P.C6 * ((P.a0 * r) ^ 6)⁻¹
          * ((0 * (1 + exp (-(P.d * (P.a0 * r / P.ρ - 1))))
              - 1 * (exp (-(P.d * (P.a0 * r / P.ρ - 1))) * -(P.d * (P.a0 / P.ρ))))
            / (1 + exp (-(P.d * (P.a0 * r / P.ρ - 1)))) ^ 2)) * P.κ) r :=
    ((h6.const_mul (-P.C6)).mul hsig).mul_const P.κ
  have ha0 : P.a0 ≠ 0 := left_ne_zero_of_mul hr
  have hr0 : r ≠ 0 := right_ne_zero_of_mul hr
  have hfun : ePairRaw P = fun x : ℝ => -P.C6 * ((P.a0 * x) ^ 6)⁻¹
      * (1 / (1 + exp (-(P.d * (P.a0 * x / P.ρ - 1))))) * P.κ := by
    funext x; simp only [ePairRaw, fDampRaw, zpow_neg6]
  rw [hfun]
  refine hall.congr_deriv ?_
  simp only [fDampRaw, alpha, zpow_neg7]
  generalize exp (-(P.d * (P.a0 * r / P.ρ - 1))) = E at hpos ⊢
  field_simp
  ring

/-- **C01 for the dispersion term, switching window.**  For `r > 0` (bohr) strictly inside the unsaturated
    region `|exp_arg| < D_TOL`, the per-pair energy has derivative `a0 · dE_pair` with respect to `r = mol.rij`:
    the constant is `c = a0`, i.e. the code's `dE_pair` is `dE/d(a0 r)`, the derivative with respect to the
    distance in Å — which is what the callers need (see the header and `dispersion_force_cartesian`). -/
theorem dispersion_derivative_unsaturated (P : Params) (r : ℝ) (ha : 0 < P.a0) (hr : 0 < r)
    (hlo : -P.T < expArg P r) (hhi : expArg P r < P.T) :
    HasDerivAt (ePair P) (P.a0 * dEcode P r) r := by
  have hev : ePair P =ᶠ[𝓝 r] ePairRaw P := by
    have hmem : ∀ᶠ x in 𝓝 r, expArg P x ∈ Set.Ioo (-P.T) P.T :=
      (continuous_expArg P).continuousAt.eventually (Ioo_mem_nhds hlo hhi)
    filter_upwards [hmem] with x hx
    simp only [ePair, ePairRaw, fDamp_unsat P x hx.1.le hx.2.le]
  have h := (ePairRaw_hasDerivAt P r (mul_pos ha hr).ne').congr_of_eventuallyEq hev
  simpa only [dEcode, fDamp_unsat P r hlo.le hhi.le] using h

/-! ## 3. the saturated regions -/

/-- `exp_arg > D_TOL`: `f ≡ 1` locally, `E = −C6 κ (a0 r)^(−6)`, `dE/dr = 6 C6 κ a0 (a0 r)^(−7)`; the code's
    `bracket` is `6 − alpha·r·0 = 6`. -/
theorem dispersion_derivative_saturated_one (P : Params) (r : ℝ) (ha : 0 < P.a0) (hr : 0 < r)
    (hT : 0 ≤ P.T) (h : P.T < expArg P r) :
    HasDerivAt (ePair P) (P.a0 * dEcode P r) r ∧
      P.a0 * dEcode P r = 6 * P.C6 * P.κ * P.a0 * (P.a0 * r) ^ (-7 : ℤ) := by
  have hne : P.a0 * r ≠ 0 := (mul_pos ha hr).ne'
  have hval : P.a0 * dEcode P r = 6 * P.C6 * P.κ * P.a0 * (P.a0 * r) ^ (-7 : ℤ) := by
    simp only [dEcode, fDamp_sat_one P r hT h]; ring
  refine ⟨?_, hval⟩
  have hev : ePair P =ᶠ[𝓝 r] fun x => -P.C6 * ((P.a0 * x) ^ 6)⁻¹ * P.κ := by
    have hmem : ∀ᶠ x in 𝓝 r, expArg P x ∈ Set.Ioi P.T :=
      (continuous_expArg P).continuousAt.eventually (Ioi_mem_nhds h)
    filter_upwards [hmem] with x hx
    simp only [ePair, fDamp_sat_one P x hT hx, zpow_neg6, mul_one]
  have h1 : HasDerivAt (fun x : ℝ => P.a0 * x) P.a0 r := by
    simpa using (hasDerivAt_id r).const_mul P.a0
  have h6 : HasDerivAt (fun x : ℝ => ((P.a0 * x) ^ 6)⁻¹)
      (-((6 : ℕ) * (P.a0 * r) ^ (6 - 1) * P.a0) / ((P.a0 * r) ^ 6) ^ 2) r :=
    (h1.pow 6).inv (pow_ne_zero 6 hne)
  have hall := ((h6.const_mul (-P.C6)).mul_const P.κ).congr_of_eventuallyEq hev
  refine hall.congr_deriv ?_
  rw [hval, zpow_neg7]
  field_simp
  ring

/-- `exp_arg < −D_TOL`: `f ≡ 0` locally, `E ≡ 0`, derivative `0`; the code's prefactor `f` kills `dE_pair`. -/
theorem dispersion_derivative_saturated_zero (P : Params) (r : ℝ) (h : expArg P r < -P.T) :
    HasDerivAt (ePair P) (P.a0 * dEcode P r) r ∧ P.a0 * dEcode P r = 0 := by
  have hval : P.a0 * dEcode P r = 0 := by
    simp only [dEcode, fDamp_sat_zero P r h]; ring
  refine ⟨?_, hval⟩
  have hev : ePair P =ᶠ[𝓝 r] fun _ => (0 : ℝ) := by
    have hmem : ∀ᶠ x in 𝓝 r, expArg P x ∈ Set.Iio (-P.T) :=
      (continuous_expArg P).continuousAt.eventually (Iio_mem_nhds h)
    filter_upwards [hmem] with x hx
    simp only [ePair, fDamp_sat_zero P x hx, mul_zero, zero_mul]
  rw [hval]
  exact (hasDerivAt_const r (0 : ℝ)).congr_of_eventuallyEq hev

/-- both saturated regions -/
theorem dispersion_derivative_saturated (P : Params) (r : ℝ) (ha : 0 < P.a0) (hr : 0 < r) (hT : 0 ≤ P.T)
    (h : P.T < expArg P r ∨ expArg P r < -P.T) :
    HasDerivAt (ePair P) (P.a0 * dEcode P r) r := by
  rcases h with h | h
  · exact (dispersion_derivative_saturated_one P r ha hr hT h).1
  · exact (dispersion_derivative_saturated_zero P r h).1

/-- everywhere except at the two clip points `exp_arg = ±D_TOL` -/
theorem dispersion_derivative_off_clip (P : Params) (r : ℝ) (ha : 0 < P.a0) (hr : 0 < r) (hT : 0 ≤ P.T)
    (h1 : expArg P r ≠ P.T) (h2 : expArg P r ≠ -P.T) :
    HasDerivAt (ePair P) (P.a0 * dEcode P r) r := by
  rcases lt_trichotomy (expArg P r) P.T with h | h | h
  · rcases lt_trichotomy (expArg P r) (-P.T) with h' | h' | h'
    · exact dispersion_derivative_saturated P r ha hr hT (Or.inr h')
    · exact absurd h' h2
    · exact dispersion_derivative_unsaturated P r ha hr h' h
  · exact absurd h h1
  · exact dispersion_derivative_saturated P r ha hr hT (Or.inl h)

/-! ## the callers' convention: Å and Cartesian forms -/

/-- In terms of the distance `R = a0·r` in Å (the variable of `pair_grad`, eV/Å) the constant is `1`:
    `dE_pair` *is* `dE/dR`. -/
theorem dispersion_derivative_angstrom (P : Params) (R : ℝ) (ha : 0 < P.a0) (hR : 0 < R) (hT : 0 ≤ P.T)
    (h1 : expArg P (R / P.a0) ≠ P.T) (h2 : expArg P (R / P.a0) ≠ -P.T) :
    HasDerivAt (fun R => ePair P (R / P.a0)) (dEcode P (R / P.a0)) R := by
  have hin : HasDerivAt (fun R : ℝ => R / P.a0) (1 / P.a0) R := by
    simpa using (hasDerivAt_id R).div_const P.a0
  have hout := dispersion_derivative_off_clip P (R / P.a0) ha (div_pos hR ha) hT h1 h2
  have := hout.comp R hin
  refine this.congr_deriv ?_
  field_simp

/-- distance (Å) as a function of the displacement `t` of atom `i` along the axis whose pair-vector component
    is `a` (`X_j − X_i = (a, b, c)`) -/
theorem dist_hasDerivAt (a b c : ℝ) (h : a*a + b*b + c*c ≠ 0) :
    HasDerivAt (fun t => sqrt ((a - t)*(a - t) + b*b + c*c)) (-a / sqrt (a*a + b*b + c*c)) 0 := by
  have h1 : HasDerivAt (fun t : ℝ => a - t) (-1) 0 := by
    simpa using (hasDerivAt_id (0:ℝ)).const_sub a
  have h2 : HasDerivAt (fun t : ℝ => (a - t)*(a - t) + b*b + c*c) (-1 * (a - 0) + (a - 0) * -1) 0 :=
    ((h1.mul h1).add_const (b*b)).add_const (c*c)
  have h3 := h2.sqrt (by simpa using h)
  refine h3.congr_deriv ?_
  simp only [sub_zero]
  field_simp
  ring

/-- **What `dEdisp_dr` returns is `∂E_pair/∂X_{i,c}`** (eV/Å): with `X_j − X_i = (a, b, c)` in Å, `R = |X_j − X_i|`,
    `mol.rij = R/a0`, `mol.xij_c = a/R`, the returned component `−dE_pair · xij_c` is the derivative of the pair
    energy with respect to a displacement of atom `i` along axis `c` — the convention of `pair_grad`
    (`anal_grad.py:220`: `+pair_grad` on atom `i`). -/
theorem dispersion_force_cartesian (P : Params) (a b c : ℝ) (ha : 0 < P.a0) (hT : 0 ≤ P.T)
    (h : a*a + b*b + c*c ≠ 0)
    (h1 : expArg P (sqrt (a*a + b*b + c*c) / P.a0) ≠ P.T)
    (h2 : expArg P (sqrt (a*a + b*b + c*c) / P.a0) ≠ -P.T) :
    HasDerivAt (fun t => ePair P (sqrt ((a - t)*(a - t) + b*b + c*c) / P.a0))
      (-dEcode P (sqrt (a*a + b*b + c*c) / P.a0) * (a / sqrt (a*a + b*b + c*c))) 0 := by
  have hpos : 0 < a*a + b*b + c*c :=
    lt_of_le_of_ne (by nlinarith [mul_self_nonneg a, mul_self_nonneg b, mul_self_nonneg c]) (Ne.symm h)
  have hR : 0 < sqrt (a*a + b*b + c*c) := sqrt_pos.mpr hpos
  have hd := dist_hasDerivAt a b c h
  have hout := dispersion_derivative_angstrom P (sqrt (a*a + b*b + c*c)) ha hR hT h1 h2
  have hout' : HasDerivAt (fun R => ePair P (R / P.a0)) (dEcode P (sqrt (a*a + b*b + c*c) / P.a0))
      ((fun t => sqrt ((a - t)*(a - t) + b*b + c*c)) 0) := by
    simpa using hout
  have := hout'.comp 0 hd
  refine this.congr_deriv ?_
  ring

/-! ## 4. size of the discontinuity introduced by the clips -/

/-- at the two clip points the clipped `f` jumps from `sigmoid(±D_TOL)` to `1` / `0`; both jumps are
    `≤ exp(−D_TOL)` -/
theorem clip_jump_sizes (T : ℝ) :
    |1 - sigmoid T| ≤ exp (-T) ∧ |sigmoid (-T) - 0| ≤ exp (-T) := by
  constructor
  · rw [abs_of_nonneg (by linarith [sigmoid_lt_one T])]
    exact one_sub_sigmoid_le T
  · rw [sub_zero, abs_of_pos (sigmoid_pos _)]
    exact sigmoid_le_exp (-T)

/-- with the code's `D_TOL = 12·ln 10` the bound is `1e−12` -/
theorem exp_neg_dtol : exp (-(12 * log 10)) = 1 / 10 ^ 12 := by
  rw [exp_neg, show (12 : ℝ) * log 10 = ((12 : ℕ) : ℝ) * log 10 by norm_num, exp_nat_mul,
    exp_log (by norm_num)]
  norm_num

theorem clip_jump_le_1em12 :
    |1 - sigmoid (12 * log 10)| ≤ 1 / 10 ^ 12 ∧ |sigmoid (-(12 * log 10)) - 0| ≤ 1 / 10 ^ 12 := by
  have := clip_jump_sizes (12 * log 10)
  rwa [exp_neg_dtol] at this

/-- uniformly in `r`: clipping changes the damping function by at most `exp(−D_TOL)` -/
theorem clip_error_uniform (P : Params) (r : ℝ) (hT : 0 ≤ P.T) :
    |fDamp P r - fDampRaw P r| ≤ exp (-P.T) := by
  rcases lt_or_ge P.T (expArg P r) with h | h
  · rw [fDamp_sat_one P r hT h, fDampRaw_eq_sigmoid,
      abs_of_nonneg (by linarith [sigmoid_lt_one (expArg P r)])]
    exact (one_sub_sigmoid_le _).trans (exp_le_exp.mpr (by linarith))
  · rcases lt_or_ge (expArg P r) (-P.T) with h' | h'
    · rw [fDamp_sat_zero P r h', fDampRaw_eq_sigmoid, zero_sub, abs_neg, abs_of_pos (sigmoid_pos _)]
      exact (sigmoid_le_exp _).trans (exp_le_exp.mpr h'.le)
    · rw [fDamp_unsat P r h' h, sub_self, abs_zero]
      exact (exp_pos _).le

/-- the corresponding bound on the energy -/
theorem clip_energy_error (P : Params) (r : ℝ) (hT : 0 ≤ P.T) :
    |ePair P r - ePairRaw P r| ≤ |P.C6 * (P.a0 * r) ^ (-6 : ℤ) * P.κ| * exp (-P.T) := by
  have : ePair P r - ePairRaw P r = -(P.C6 * (P.a0 * r) ^ (-6 : ℤ) * P.κ) * (fDamp P r - fDampRaw P r) := by
    simp only [ePair, ePairRaw]; ring
  rw [this, abs_mul, abs_neg]
  exact mul_le_mul_of_nonneg_left (clip_error_uniform P r hT) (abs_nonneg _)

/-- The jump is real: for `d, a0, ρ > 0` the clipped damping function is discontinuous at the upper clip point
    (value `sigmoid D_TOL < 1` at the point, `1` immediately to the right). -/
theorem fDamp_not_continuousAt_upper_clip (P : Params) (r : ℝ) (ha : 0 < P.a0) (hρ : 0 < P.ρ) (hd : 0 < P.d)
    (hT : 0 ≤ P.T) (h : expArg P r = P.T) : ¬ ContinuousAt (fDamp P) r := by
  intro hc
  have hval : fDamp P r = sigmoid P.T := by
    rw [fDamp_unsat P r (by linarith) h.le, fDampRaw_eq_sigmoid, h]
  have hε : 0 < 1 - sigmoid P.T := by linarith [sigmoid_lt_one P.T]
  obtain ⟨δ, hδ, hball⟩ := Metric.continuousAt_iff.mp hc (1 - sigmoid P.T) hε
  have hx : dist (r + δ / 2) r < δ := by
    rw [Real.dist_eq, add_sub_cancel_left, abs_of_pos (by linarith)]; linarith
  have harg : P.T < expArg P (r + δ / 2) := by
    rw [← h]
    have : expArg P (r + δ / 2) - expArg P r = P.d * P.a0 * (δ / 2) / P.ρ := by
      simp only [expArg]; field_simp; ring
    have hp : 0 < P.d * P.a0 * (δ / 2) / P.ρ := by positivity
    linarith
  have := hball hx
  rw [fDamp_sat_one P _ hT harg, hval, Real.dist_eq, abs_of_pos hε] at this
  exact lt_irrefl _ this

/-- Consequently the pair energy is not differentiable at the upper clip point when `C6, κ ≠ 0`: C01 cannot hold
    there (a single distance per pair; the jump is bounded by `clip_energy_error`). -/
theorem ePair_not_differentiableAt_upper_clip (P : Params) (r : ℝ) (ha : 0 < P.a0) (hρ : 0 < P.ρ)
    (hd : 0 < P.d) (hT : 0 ≤ P.T) (hr : 0 < r) (hC : P.C6 ≠ 0) (hκ : P.κ ≠ 0) (h : expArg P r = P.T) :
    ¬ DifferentiableAt ℝ (ePair P) r := by
  intro hdiff
  apply fDamp_not_continuousAt_upper_clip P r ha hρ hd hT h
  have hc : ContinuousAt (ePair P) r := hdiff.continuousAt
  have hne : P.a0 * r ≠ 0 := (mul_pos ha hr).ne'
  have hg : ContinuousAt (fun x : ℝ => -P.C6 * ((P.a0 * x) ^ 6)⁻¹ * P.κ) r := by
    have : ContinuousAt (fun x : ℝ => ((P.a0 * x) ^ 6)⁻¹) r :=
      ContinuousAt.inv₀ (by fun_prop) (pow_ne_zero 6 hne)
    exact (continuousAt_const.mul this).mul continuousAt_const
  have hgne : -P.C6 * ((P.a0 * r) ^ 6)⁻¹ * P.κ ≠ 0 :=
    mul_ne_zero (mul_ne_zero (neg_ne_zero.mpr hC) (inv_ne_zero (pow_ne_zero 6 hne))) hκ
  have hq : ContinuousAt (fun x : ℝ => ePair P x / (-P.C6 * ((P.a0 * x) ^ 6)⁻¹ * P.κ)) r :=
    hc.div hg hgne
  refine hq.congr ?_
  have hmem : ∀ᶠ x in 𝓝 r, x ∈ Set.Ioi (0 : ℝ) := Ioi_mem_nhds hr
  filter_upwards [hmem] with x hx
  have hxne : P.a0 * x ≠ 0 := (mul_pos ha hx).ne'
  have hxg : -P.C6 * ((P.a0 * x) ^ 6)⁻¹ * P.κ ≠ 0 :=
    mul_ne_zero (mul_ne_zero (neg_ne_zero.mpr hC) (inv_ne_zero (pow_ne_zero 6 hxne))) hκ
  show ePair P x / (-P.C6 * ((P.a0 * x) ^ 6)⁻¹ * P.κ) = fDamp P x
  rw [div_eq_iff hxg]
  simp only [ePair, zpow_neg6]
  ring

/-! ## 5. seeded defect: unit slip in `bracket` -/

/-- `dEdisp_dr` with `r` converted to Å (`r := a0·r`) while `alpha` (which already contains `a0`) is kept:
    `bracket' = 6 − alpha·(a0 r)·(1 − f)` -/
noncomputable def dEcodeWrongUnits (P : Params) (r : ℝ) : ℝ :=
  let inv_r7 := (P.a0 * r) ^ (-7 : ℤ)
  let bracket := 6 - alpha P * (P.a0 * r) * (1 - fDamp P r)
  P.C6 * fDamp P r * inv_r7 * bracket * P.κ

/-- exact difference, everywhere -/
theorem unit_slip_difference (P : Params) (r : ℝ) :
    dEcodeWrongUnits P r - dEcode P r
      = -(P.C6 * fDamp P r * (P.a0 * r) ^ (-7 : ℤ) * P.κ * (alpha P * r * (1 - fDamp P r) * (P.a0 - 1))) := by
  simp only [dEcodeWrongUnits, dEcode]; ring

/-- the slip is invisible in both saturated regions -/
theorem unit_slip_invisible_saturated (P : Params) (r : ℝ) (hT : 0 ≤ P.T)
    (h : P.T < expArg P r ∨ expArg P r < -P.T) : dEcodeWrongUnits P r = dEcode P r := by
  rcases h with h | h
  · simp only [dEcodeWrongUnits, dEcode, fDamp_sat_one P r hT h]; ring
  · simp only [dEcodeWrongUnits, dEcode, fDamp_sat_zero P r h]; ring

/-- **Seeded defect.**  Inside the (closed) unsaturated region the slipped expression differs from the code's
    whenever `a0 ≠ 1` (and the pair interacts at all: `C6, κ, d ≠ 0`); it coincides with it in both saturated
    regions, so the slip is visible only in the switching window `|d (a0 r/ρ − 1)| ≤ D_TOL`, i.e.
    `|a0 r − ρ| ≤ ρ·D_TOL/d ≈ 0.0276·ρ` Å. -/
theorem unit_slip_witness (P : Params) (r : ℝ) (ha : 0 < P.a0) (hρ : 0 < P.ρ) (hr : 0 < r)
    (ha1 : P.a0 ≠ 1) (hC : P.C6 ≠ 0) (hκ : P.κ ≠ 0) (hd : P.d ≠ 0)
    (hlo : -P.T ≤ expArg P r) (hhi : expArg P r ≤ P.T) :
    dEcodeWrongUnits P r ≠ dEcode P r ∧
    dEcodeWrongUnits P r - dEcode P r
      = -(P.C6 * fDamp P r * (P.a0 * r) ^ (-7 : ℤ) * P.κ * (alpha P * r * (1 - fDamp P r) * (P.a0 - 1))) ∧
    (∀ r', 0 ≤ P.T → (P.T < expArg P r' ∨ expArg P r' < -P.T) → dEcodeWrongUnits P r' = dEcode P r') := by
  refine ⟨?_, unit_slip_difference P r, fun r' hT h => unit_slip_invisible_saturated P r' hT h⟩
  intro heq
  have hdiff := unit_slip_difference P r
  rw [heq, sub_self] at hdiff
  have hf : fDamp P r = sigmoid (expArg P r) := by rw [fDamp_unsat P r hlo hhi, fDampRaw_eq_sigmoid]
  have hf0 : fDamp P r ≠ 0 := by rw [hf]; exact (sigmoid_pos _).ne'
  have hf1 : 1 - fDamp P r ≠ 0 := by rw [hf]; linarith [sigmoid_lt_one (expArg P r)]
  have hz : (P.a0 * r) ^ (-7 : ℤ) ≠ 0 := zpow_ne_zero _ (mul_pos ha hr).ne'
  have hα : alpha P ≠ 0 := div_ne_zero (mul_ne_zero hd ha.ne') hρ.ne'
  have hprod : P.C6 * fDamp P r * (P.a0 * r) ^ (-7 : ℤ) * P.κ
      * (alpha P * r * (1 - fDamp P r) * (P.a0 - 1)) ≠ 0 :=
    mul_ne_zero (mul_ne_zero (mul_ne_zero (mul_ne_zero hC hf0) hz) hκ)
      (mul_ne_zero (mul_ne_zero (mul_ne_zero hα hr.ne') hf1) (sub_ne_zero.mpr ha1))
  exact hprod (neg_eq_zero.mp hdiff.symm)

/-- the slipped expression is therefore *not* the derivative of the energy in the switching window -/
theorem unit_slip_not_derivative (P : Params) (r : ℝ) (ha : 0 < P.a0) (hρ : 0 < P.ρ) (hr : 0 < r)
    (ha1 : P.a0 ≠ 1) (hC : P.C6 ≠ 0) (hκ : P.κ ≠ 0) (hd : P.d ≠ 0)
    (hlo : -P.T < expArg P r) (hhi : expArg P r < P.T) :
    ¬ HasDerivAt (ePair P) (P.a0 * dEcodeWrongUnits P r) r := by
  intro hw
  have hgood := dispersion_derivative_unsaturated P r ha hr hlo hhi
  have := hw.unique hgood
  exact (unit_slip_witness P r ha hρ hr ha1 hC hκ hd hlo.le hhi.le).1 (mul_left_cancel₀ ha.ne' this)

/-! ## 6. non-vacuity -/

/-- concrete parameters: `a0 = 0.529`, `ρ = 3 Å`, `d = 1000`, `D_TOL = 12 ln 10`, `C6 = κ = 1` -/
noncomputable def Pex : Params := ⟨1, 529 / 1000, 3, 1000, 12 * log 10, 1⟩

theorem Pex_T_pos : 0 < Pex.T := by
  have : (0 : ℝ) < log 10 := log_pos (by norm_num)
  simp only [Pex]; positivity

/-- the midpoint of the switching window, `a0 r = ρ`, where `exp_arg = 0` -/
theorem Pex_expArg_mid : expArg Pex (3000 / 529) = 0 := by
  simp only [expArg, Pex]; norm_num

/-- hypotheses of `dispersion_derivative_unsaturated` are satisfiable (`exp_arg = 0`, `f = 1/2`) -/
example : HasDerivAt (ePair Pex) (Pex.a0 * dEcode Pex (3000 / 529)) (3000 / 529) := by
  apply dispersion_derivative_unsaturated Pex (3000 / 529) (by simp only [Pex]; norm_num) (by norm_num)
  · rw [Pex_expArg_mid]; linarith [Pex_T_pos]
  · rw [Pex_expArg_mid]; exact Pex_T_pos

/-- … and the value there is non-trivial: `f = 1/2` -/
example : fDamp Pex (3000 / 529) = 1 / 2 := by
  rw [fDamp_unsat Pex _ (by rw [Pex_expArg_mid]; linarith [Pex_T_pos])
    (by rw [Pex_expArg_mid]; exact Pex_T_pos.le), fDampRaw_eq_sigmoid, Pex_expArg_mid]
  simp only [sigmoid, neg_zero, exp_zero]; norm_num

/-- upper saturated region is inhabited: `a0 r = 2ρ`, `exp_arg = 1000 > 12 ln 10` -/
theorem Pex_expArg_far : expArg Pex (6000 / 529) = 1000 := by
  simp only [expArg, Pex]; norm_num

theorem Pex_T_lt : Pex.T < 500 := by
  have h : log 10 ≤ 10 - 1 := log_le_sub_one_of_pos (by norm_num)
  simp only [Pex]; linarith

example : HasDerivAt (ePair Pex) (Pex.a0 * dEcode Pex (6000 / 529)) (6000 / 529) :=
  (dispersion_derivative_saturated_one Pex (6000 / 529) (by simp only [Pex]; norm_num) (by norm_num)
    Pex_T_pos.le (by rw [Pex_expArg_far]; linarith [Pex_T_lt])).1

/-- lower saturated region is inhabited: `a0 r = ρ/2`, `exp_arg = −500` -/
example : HasDerivAt (ePair Pex) (Pex.a0 * dEcode Pex (1500 / 529)) (1500 / 529) := by
  apply (dispersion_derivative_saturated_zero Pex (1500 / 529) _).1
  have : expArg Pex (1500 / 529) = -500 := by simp only [expArg, Pex]; norm_num
  rw [this]; linarith [Pex_T_lt]

/-- the seeded slip is detected at the window midpoint -/
example : dEcodeWrongUnits Pex (3000 / 529) ≠ dEcode Pex (3000 / 529) :=
  (unit_slip_witness Pex (3000 / 529) (by simp only [Pex]; norm_num) (by simp only [Pex]; norm_num)
    (by norm_num) (by simp only [Pex]; norm_num) (by simp only [Pex]; norm_num)
    (by simp only [Pex]; norm_num) (by simp only [Pex]; norm_num)
    (by rw [Pex_expArg_mid]; linarith [Pex_T_pos]) (by rw [Pex_expArg_mid]; exact Pex_T_pos.le)).1

/-- Cartesian form, hypotheses satisfiable: `X_j − X_i = (3, 0, 0)` Å -/
example : HasDerivAt (fun t => ePair Pex (sqrt ((3 - t)*(3 - t) + 0*0 + 0*0) / Pex.a0))
    (-dEcode Pex (sqrt (3*3 + 0*0 + 0*0) / Pex.a0) * (3 / sqrt (3*3 + 0*0 + 0*0))) 0 := by
  have hs : sqrt (3*3 + 0*0 + 0*0) = 3 := by
    rw [show (3:ℝ)*3 + 0*0 + 0*0 = 3^2 by norm_num]; exact sqrt_sq (by norm_num)
  have he : expArg Pex (sqrt (3*3 + 0*0 + 0*0) / Pex.a0) = 0 := by
    rw [hs]; simp only [expArg, Pex]; norm_num
  apply dispersion_force_cartesian Pex 3 0 0 (by simp only [Pex]; norm_num) Pex_T_pos.le (by norm_num)
  · rw [he]; exact Pex_T_pos.ne
  · rw [he]; linarith [Pex_T_pos]

/-- the upper clip point exists for the concrete parameters (`exp_arg` is onto) -/
example : ∃ r : ℝ, 0 < r ∧ expArg Pex r = Pex.T := by
  refine ⟨(Pex.T / 1000 + 1) * 3 / (529 / 1000), ?_, ?_⟩
  · have := Pex_T_pos; positivity
  · simp only [expArg, Pex]; field_simp; ring

end C01b
