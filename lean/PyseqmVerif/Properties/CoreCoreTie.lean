import PyseqmVerif.Generated.CoreCoreGen
import PyseqmVerif.Model.CoreCore
/-!
# Translator tie for the core–core repulsion and its hand-written derivative (C01, C06)

`Generated/CoreCoreGen.lean`: `pair_nuclear_energy` (branches MNDO and AM1/PM3, `seqm_functions/energy.py`) and `core_core_der`
(`seqm_functions/anal_grad.py`) as scalar programs for one atom pair, translated statement by statement on every run: the N-H/O-H mask, the
masked assignments (`t2[~XH] = …; t2[XH] = …`, `prefactor[XH] = …`), the re-used temporary `t3 = alpha[idxj] * t3`, the in-place additions to
`pair_grad`, the per-method returns, and the summands of the four Gaussian sums.

The theorems identify them with `Model/CoreCore.lean`, about which `C01.*` proves that `coreCoreDer` is the derivative of `pairNuclearEnergy`
(for every element pair, every method, with the exact `HasDerivAt` statement over ℝ) and `C06.*` that the energy is the published core term.
They hold for every scalar type; the only case split is on the value of the mask.  `xh_masks_agree`: the energy and the derivative use the
same N-H/O-H mask for all atomic numbers (a precedence slip in one of them fails here).
-/
set_option linter.unusedSectionVars false
namespace CoreCoreTie
open Generated CoreCore

section
variable {α : Type} [Add α] [Sub α] [Mul α] [Div α] [Neg α] [OfNat α 0] [OfScientific α]
variable (exp powNeg3 : α → α) (a0 rij toreI toreJ gam alphaI alphaJ t5 t6 t5der t6der xc wxc : α) (ni nj : Int)

theorem enucMNDO_is_model :
    CoreCoreGen.enucMNDO exp powNeg3 a0 rij toreI toreJ gam alphaI alphaJ t5 t6 t5der t6der xc wxc ni nj
      = pairNuclearEnergy exp .MNDO toreI toreJ gam alphaI alphaJ (rij * a0) (CoreCoreGen.xhEnergy ni nj) [] [] := by
  unfold CoreCoreGen.enucMNDO pairNuclearEnergy scaleG CoreCoreGen.xhEnergy
  generalize (((decide (ni = (7 : Int))) || (decide (ni = (8 : Int)))) && (decide (nj = (1 : Int)))) = b
  cases b <;> rfl

theorem enucAM1PM3_is_model (gi gj : List (Gauss α)) (m : Method) (hm : m ≠ .MNDO) :
    CoreCoreGen.enucAM1PM3 exp powNeg3 a0 rij toreI toreJ gam alphaI alphaJ (gaussSum exp (rij * a0) gi) (gaussSum exp (rij * a0) gj)
        t5der t6der xc wxc ni nj
      = pairNuclearEnergy exp m toreI toreJ gam alphaI alphaJ (rij * a0) (CoreCoreGen.xhEnergy ni nj) gi gj := by
  unfold CoreCoreGen.enucAM1PM3 pairNuclearEnergy scaleG CoreCoreGen.xhEnergy
  generalize (((decide (ni = (7 : Int))) || (decide (ni = (8 : Int)))) && (decide (nj = (1 : Int)))) = b
  cases m <;> first | exact absurd rfl hm | (cases b <;> rfl)

theorem derMNDO_is_model :
    CoreCoreGen.derMNDO exp powNeg3 a0 rij toreI toreJ gam alphaI alphaJ t5 t6 t5der t6der xc wxc ni nj
      = coreCoreDer exp powNeg3 .MNDO toreI toreJ gam alphaI alphaJ (rij * a0) (CoreCoreGen.xhDer ni nj) [] [] xc wxc := by
  unfold CoreCoreGen.derMNDO coreCoreDer scaleG CoreCoreGen.xhDer
  generalize (((decide (ni = (7 : Int))) || (decide (ni = (8 : Int)))) && (decide (nj = (1 : Int)))) = b
  cases b <;> rfl

theorem derAM1PM3_is_model (gi gj : List (Gauss α)) (m : Method) (hm : m ≠ .MNDO) :
    CoreCoreGen.derAM1PM3 exp powNeg3 a0 rij toreI toreJ gam alphaI alphaJ (gaussSum exp (rij * a0) gi) (gaussSum exp (rij * a0) gj)
        (gaussDerSum exp (rij * a0) gi) (gaussDerSum exp (rij * a0) gj) xc wxc ni nj
      = coreCoreDer exp powNeg3 m toreI toreJ gam alphaI alphaJ (rij * a0) (CoreCoreGen.xhDer ni nj) gi gj xc wxc := by
  unfold CoreCoreGen.derAM1PM3 coreCoreDer scaleG CoreCoreGen.xhDer
  generalize (((decide (ni = (7 : Int))) || (decide (ni = (8 : Int)))) && (decide (nj = (1 : Int)))) = b
  cases m <;> first | exact absurd rfl hm | (cases b <;> rfl)

theorem gaussSummand_is_model (r : α) (g : Gauss α) : CoreCoreGen.gaussSummand exp r g.K g.L g.M = gaussTerm exp r g := rfl

theorem gaussDerSummand_is_model (r : α) (g : Gauss α) : CoreCoreGen.gaussDerSummand exp r g.K g.L g.M = gaussDerTerm exp r g := rfl

end

/-- energy and derivative use the same N-H / O-H mask, for all atomic numbers -/
theorem xh_masks_agree (ni nj : Int) : CoreCoreGen.xhDer ni nj = CoreCoreGen.xhEnergy ni nj := by
  unfold CoreCoreGen.xhDer CoreCoreGen.xhEnergy
  by_cases h7 : ni = 7 <;> by_cases h8 : ni = 8 <;> by_cases h1 : nj = 1 <;> simp [h7, h8, h1]

/-- … and it is the published one: the heavier atom is N or O and the lighter one hydrogen -/
theorem xh_mask_spec (ni nj : Int) : CoreCoreGen.xhEnergy ni nj = true ↔ (ni = 7 ∨ ni = 8) ∧ nj = 1 := by
  unfold CoreCoreGen.xhEnergy
  simp

example : CoreCoreGen.xhEnergy 8 1 = true ∧ CoreCoreGen.xhEnergy 7 6 = false ∧ CoreCoreGen.xhDer 7 6 = false := by decide

end CoreCoreTie
