import PyseqmVerif.Model.Util
import PyseqmVerif.Model.MDOut
import PyseqmVerif.Proofs.MDOutLemmas
import PyseqmVerif.Properties.C11
import PyseqmVerif.Properties.C10
