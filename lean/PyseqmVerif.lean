import PyseqmVerif.Model.Util
import PyseqmVerif.Model.MDOut
