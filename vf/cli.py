"""./check entry point."""
from __future__ import annotations

import argparse
import importlib
import json
import os
import sys
import time
import traceback

from . import core


def all_props():
    d = os.path.join(core.VERIF, "vf", "props")
    return sorted(f[:-3].upper() for f in os.listdir(d) if f.startswith("c") and f[1:-3].isdigit() and f.endswith(".py"))


def load(prop: str):
    return importlib.import_module(f"vf.props.{prop.lower()}")


def setup() -> int:
    from . import leanproj
    from .translate import gen

    t0 = time.time()
    bad = 0
    for n, g in gen.GENERATORS.items():
        ok, det = g()
        print(f"[setup] translate {n}: {'ok' if ok else 'FAILED ' + det[-400:]}", flush=True)
        bad += 0 if ok else 1
    leanproj.gen_driver_index()
    ok, log = leanproj.lake_build(["PyseqmVerif", "driver"])
    print(f"[setup] lake build: {'ok' if ok else 'FAILED'} ({time.time()-t0:.0f}s)", flush=True)
    if not ok:
        print(log[-4000:])
    # setup never fails hard on a proof that no longer checks: the per-property check reports that
    # through the verdict protocol.  It fails only if the tool chain itself is unusable.
    okd, logd = leanproj.lake_build(["driver"])
    if not okd:
        print(logd[-3000:])
        return 1
    return 0


def manifest() -> int:
    checks = []
    na = []
    built = set(all_props())
    for p in all_props():
        m = load(p)
        meta = m.META
        if meta.get("not_applicable"):
            na.append({"property_id": p, "reason": meta["not_applicable"]})
            continue
        checks.append({
            "property_id": p,
            "quick_cmd": f"./check {p} --tier quick",
            "thorough_cmd": f"./check {p} --tier thorough",
            "evidence_file": f"/verif/evidence/{p}.json",
            "replay_cmd_template": f"./check {p} --replay {{path}}",
            "engine": "lean4-proof+correspondence",
            "level_claimed": {"category": "proof", "text": meta["level_text"], "design_ref": meta.get("design_ref", f"DESIGN.md section 5 {p}")},
            "level_note": meta["level_note"],
            "technique": meta["technique"],
        })
    allp = [json.loads(l)["id"] for l in open(os.path.join(core.VERIF, "properties.jsonl"))]
    for pid in allp:
        if pid not in built:
            na.append({"property_id": pid, "reason": "check not built yet (work in progress; the Lean model/theorems and harness for this property are planned in DESIGN.md section 5)"})
    import subprocess

    hooks_commits = []
    try:
        out = subprocess.run(["git", "-C", core.REPO, "log", "--format=%H %s"], capture_output=True, text=True).stdout
        hooks_commits = [l.split()[0] for l in out.splitlines() if " hook:" in l or l.split(" ", 1)[1].startswith("hook")]
    except Exception:
        pass
    man = {
        "version": 1,
        "setup_cmd": "./check --setup",
        "hooks": {
            "guard": core.GUARD,
            "enable": f"export {core.GUARD}=1 (set by ./check; hooks are read at import time by the harness only)",
            "baseline_off_cmd": "cd /repo && env -u LANL_PYSEQM_VERIF /venv/bin/python -m pytest -ra -q -p no:cacheprovider --timeout=900 --continue-on-collection-errors",
            "source_commits": hooks_commits,
            "add_only": True,
        },
        "engines": [{
            "name": "lean4-proof+correspondence",
            "path": "/verif/lean (Lean 4 model + theorems), /verif/vf (translator, correspondence harness, probes)",
            "serves_properties": [c["property_id"] for c in checks],
            "kind_free_text": "machine-checked proof in Lean 4 over a model tied to /repo by a per-run translator (Generated/*.lean) and a differential correspondence check (compiled Lean driver vs the real Python functions)",
        }],
        "checks": checks,
        "not_applicable": na,
        "notes": "Every check: S1 regenerate Generated/*.lean from live code, S2 lake build of the property's theorem module, S3 hygiene + #print axioms audit, S4 correspondence model<->implementation, S5 property probes on the real code; verdict protocol in DESIGN.md section 1. Known findings: /verif/known_findings.json.",
    }
    with open(os.path.join(core.VERIF, "MANIFEST.json"), "w") as fh:
        json.dump(man, fh, indent=1)
    print(f"MANIFEST.json: {len(checks)} checks, {len(na)} not_applicable")
    return 0


def run_check(prop: str, tier: str, seed: int) -> int:
    m = load(prop)
    ctx = core.Ctx(prop, tier, seed)
    try:
        m.run(ctx)
    except Exception:
        tb = traceback.format_exc()
        print(tb, file=sys.stderr)
        ctx.obligation("harness run completed", False, tb[-2000:], kind="harness")
    def widen(c: core.Ctx):
        """failing-input search after a broken tie: re-run the property's correspondence + probes on the thorough lattice
        with a different seed and merge what it finds (DESIGN section 1, verdict rule)"""
        c2 = core.Ctx(prop, tier, seed + 1000)
        c2.searching = True
        try:
            m.run(c2)
        except Exception:
            c.note("widened search raised: " + traceback.format_exc()[-800:])
        c.failures.extend(c2.failures)
        for k, v in c2.probes.items():
            p = c.probes.setdefault("search:" + k, {"cases": 0, "failures": 0, "nontrivial": 0})
            for kk in p:
                p[kk] += v[kk]
        c.distinct |= c2.distinct
        c.extra["search_wall_s"] = round(time.time() - c2.t0, 1)

    return core.finish(ctx, m.META, getattr(m, "search", None) or widen)


def replay(prop: str, path: str) -> int:
    m = load(prop)
    payload = json.load(open(path))
    if payload.get("kind") != "probe":
        print(f"replay: {path} names broken ties (no failing input was found); re-running the quick check")
        return run_check(prop, "quick", int(payload.get("seed", 0)))
    fn = m.PROBES[payload["probe"]]
    r = fn(payload["input"])
    print(json.dumps(core.jsonable({k: r.get(k) for k in ("ok", "observed", "expected", "predicate", "fields")}), indent=1)[:4000])
    if r["ok"]:
        print(f"replay: property {prop} holds on this input now")
        return 0
    f = core.match_finding(prop, dict(r.get("fields", {}), probe=payload["probe"]), core.load_findings())
    if f:
        print(f"KNOWN-FINDING: property={prop} {f['id']}: {f['what']}")
        return 0
    print(f"VIOLATION property={prop} replay={path}")
    return 1


def main(argv=None) -> int:
    ap = argparse.ArgumentParser()
    ap.add_argument("prop", nargs="?")
    ap.add_argument("--tier", default=os.environ.get("VERIF_TIER", "quick"))
    ap.add_argument("--replay")
    ap.add_argument("--setup", action="store_true")
    ap.add_argument("--manifest", action="store_true")
    a = ap.parse_args(argv)
    if a.setup:
        return setup()
    if a.manifest:
        return manifest()
    if not a.prop:
        ap.error("property id required")
    seed = int(os.environ.get("VERIF_SEED", "0"))
    if a.replay:
        return replay(a.prop.upper(), a.replay)
    return run_check(a.prop.upper(), a.tier, seed)


if __name__ == "__main__":
    sys.exit(main())
