"""Core of the verification harness: context, verdict protocol, evidence, replays, findings.

Verdict protocol (DESIGN.md section 1):
  * obligations (Lean theorems re-checked, regenerated tables, audits) and correspondences
    (model vs implementation on the same inputs) are *ties*; a broken tie is never a violation
    by itself: it triggers the failing-input search (the property's probes on the real code).
  * a probe failure is a concrete failing input on the real implementation.  If it matches an
    entry of known_findings.json with status "known" it is printed as KNOWN-FINDING, otherwise
    it is a VIOLATION with a replay file.
  * broken tie + no failing input  ->  VIOLATION ... no-failing-input-found (replay names the
    theorem / correspondence that no longer checks).
"""
from __future__ import annotations

import hashlib
import json
import os
import struct
import sys
import time
import traceback
from typing import Any, Callable, Dict, List, Optional

import numpy as np

VERIF = os.path.dirname(os.path.dirname(os.path.abspath(__file__)))
REPO = os.environ.get("VF_REPO", "/repo")
GUARD = "LANL_PYSEQM_VERIF"

TRUSTED_BASE = [
    "Lean 4.33.0 kernel (thorough tier: re-checked by leanchecker)",
    "Mathlib v4.33.0 as proved library; axioms allowed: propext, Classical.choice, Quot.sound",
    "no sorry/admit/native_decide/bv_decide/own axioms (grep + #print axioms audit on every run)",
    "translator vf/translate (live /repo objects -> Generated/*.lean) and correspondence harness vf/props (differential testing, validates the model only)",
    "Float <-> Real gap: theorems are over the reals / a field; IEEE double evaluation is validated by correspondence within stated tolerances, not proved",
    "external kernels (torch.linalg.eigh/pinv, torch.randn, h5py flush, os.replace) enter the models as parameters with explicit hypotheses",
]


def f2b(x: float) -> int:
    """float64 -> IEEE bit pattern (decimal integer token for the driver line protocol)."""
    return struct.unpack("<Q", struct.pack("<d", float(x)))[0]


def b2f(b: int) -> float:
    return struct.unpack("<d", struct.pack("<Q", int(b)))[0]


def ulp_diff(a: float, b: float) -> float:
    """distance in units in the last place (inf for nan mismatch)."""
    if a == b:
        return 0.0
    if np.isnan(a) or np.isnan(b):
        return 0.0 if (np.isnan(a) and np.isnan(b)) else float("inf")
    ia, ib = f2b(a), f2b(b)
    if (ia >> 63) != (ib >> 63):
        return float(abs(a - b) / max(np.spacing(max(abs(a), abs(b))), 5e-324))
    return float(abs(ia - ib))


def jsonable(x: Any) -> Any:
    if isinstance(x, dict):
        return {str(k): jsonable(v) for k, v in x.items()}
    if isinstance(x, (list, tuple)):
        return [jsonable(v) for v in x]
    if isinstance(x, (np.integer,)):
        return int(x)
    if isinstance(x, (np.floating,)):
        return float(x)
    if isinstance(x, np.ndarray):
        return x.tolist()
    if isinstance(x, (np.bool_,)):
        return bool(x)
    try:
        import torch

        if torch.is_tensor(x):
            return x.detach().cpu().tolist()
    except Exception:
        pass
    if isinstance(x, float) and (x != x or x in (float("inf"), float("-inf"))):
        return repr(x)
    if isinstance(x, (str, int, float, bool)) or x is None:
        return x
    return repr(x)


class Failure:
    """A concrete input on which the property predicate fails on the REAL implementation."""

    def __init__(self, probe: str, fields: Dict[str, Any], input: Any, observed: Any, expected: Any, predicate: str):
        self.probe = probe
        self.fields = dict(fields)
        self.fields.setdefault("probe", probe)
        self.input = input
        self.observed = observed
        self.expected = expected
        self.predicate = predicate


class Ctx:
    def __init__(self, prop: str, tier: str, seed: int):
        self.prop = prop
        self.tier = tier
        self.seed = seed
        self.rng = np.random.Generator(np.random.PCG64([seed, int(prop[1:])]))
        self.t0 = time.time()
        self.obligations: List[Dict[str, Any]] = []
        self.corr: Dict[str, Dict[str, Any]] = {}
        self.probes: Dict[str, Dict[str, Any]] = {}
        self.failures: List[Failure] = []
        self.samples: List[Any] = []
        self.notes: List[str] = []
        self.extra: Dict[str, Any] = {}
        self.distinct: set = set()
        self.strata: Dict[str, int] = {}
        self.searched = False
        self.searching = False  # widened failing-input search after a broken tie: generators use the thorough lattice

    @property
    def thorough(self) -> bool:
        return self.tier == "thorough" or self.searching

    # ---- ties -------------------------------------------------------------
    def obligation(self, name: str, ok: bool, detail: str = "", kind: str = "theorem"):
        self.obligations.append({"name": name, "ok": bool(ok), "detail": detail[:2000], "kind": kind})

    def corr_case(self, adapter: str, inp: Any, model: Any, impl: Any, ok: bool, nontrivial: bool = True, stratum: str = ""):
        c = self.corr.setdefault(adapter, {"cases": 0, "mismatches": [], "nontrivial": 0})
        c["cases"] += 1
        if nontrivial:
            c["nontrivial"] += 1
            self._distinct(("corr", adapter, inp))
        if stratum:
            self.strata[f"{adapter}:{stratum}"] = self.strata.get(f"{adapter}:{stratum}", 0) + 1
        if not ok and len(c["mismatches"]) < 20:
            c["mismatches"].append({"input": jsonable(inp), "model": jsonable(model), "impl": jsonable(impl)})
        if not ok:
            c["n_mismatch"] = c.get("n_mismatch", 0) + 1
        if len(self.samples) < 6 and c["cases"] <= 2:
            self.samples.append({"kind": "correspondence", "adapter": adapter, "input": jsonable(inp), "model": jsonable(model), "impl": jsonable(impl)})

    # ---- probes on the real code -----------------------------------------
    def probe_case(self, probe: str, inp: Any, ok: bool, fields: Optional[Dict[str, Any]] = None, observed: Any = None,
                   expected: Any = None, predicate: str = "", nontrivial: bool = True, stratum: str = ""):
        p = self.probes.setdefault(probe, {"cases": 0, "failures": 0, "nontrivial": 0})
        p["cases"] += 1
        if nontrivial:
            p["nontrivial"] += 1
            self._distinct(("probe", probe, inp))
        if stratum:
            self.strata[f"{probe}:{stratum}"] = self.strata.get(f"{probe}:{stratum}", 0) + 1
        if not ok:
            p["failures"] += 1
            self.failures.append(Failure(probe, fields or {}, jsonable(inp), jsonable(observed), jsonable(expected), predicate))
        if len(self.samples) < 10 and p["cases"] <= 1:
            self.samples.append({"kind": "probe", "probe": probe, "input": jsonable(inp), "observed": jsonable(observed), "ok": bool(ok)})

    def run_probe(self, name: str, fn, inp: Any, stratum: str = "", nontrivial: bool = True) -> Dict[str, Any]:
        """fn(inp) -> {ok, observed, expected, predicate, fields}; exceptions of the probe itself are a
        broken tie (harness could not evaluate the predicate), not a failing input."""
        try:
            r = fn(inp)
        except Exception:
            tb = traceback.format_exc()
            self.obligation(f"probe {name} evaluated", False, tb[-1500:], kind="harness")
            return {"ok": True, "error": tb}
        self.probe_case(name, inp, r["ok"], fields=r.get("fields", {}), observed=r.get("observed"), expected=r.get("expected"),
                        predicate=r.get("predicate", ""), nontrivial=nontrivial, stratum=stratum)
        return r

    def _distinct(self, key):
        try:
            h = hashlib.sha1(json.dumps(jsonable(key), sort_keys=True, default=repr).encode()).hexdigest()
        except Exception:
            h = hashlib.sha1(repr(key).encode()).hexdigest()
        self.distinct.add(h)

    def note(self, s: str):
        self.notes.append(s)

    # ---- status -----------------------------------------------------------
    def broken_ties(self) -> List[Dict[str, Any]]:
        out = [dict(o, tie="obligation") for o in self.obligations if not o["ok"]]
        for name, c in self.corr.items():
            if c.get("n_mismatch", 0) > 0:
                out.append({"tie": "correspondence", "name": name, "n_mismatch": c["n_mismatch"], "first": c["mismatches"][:3]})
        return out


# ---------------------------------------------------------------------------
def load_findings() -> List[Dict[str, Any]]:
    p = os.path.join(VERIF, "known_findings.json")
    if not os.path.exists(p):
        return []
    with open(p) as fh:
        return json.load(fh).get("findings", [])


def _match_value(pat, val) -> bool:
    if isinstance(pat, dict):
        if val is None:
            return False
        try:
            v = float(val)
        except Exception:
            return False
        if "min" in pat and v < pat["min"]:
            return False
        if "max" in pat and v > pat["max"]:
            return False
        return True
    if isinstance(pat, list):
        return val in pat
    return pat == val


def match_finding(prop: str, fields: Dict[str, Any], findings: List[Dict[str, Any]]) -> Optional[Dict[str, Any]]:
    for f in findings:
        if f.get("property") != prop or f.get("status") != "known":
            continue
        m = f.get("match", {})
        if m and all(k in fields and _match_value(v, fields[k]) for k, v in m.items()):
            return f
    return None


def write_replay(prop: str, payload: Dict[str, Any]) -> str:
    os.makedirs(os.path.join(VERIF, "replays"), exist_ok=True)
    blob = json.dumps(jsonable(payload), sort_keys=True, indent=1)
    h = hashlib.sha1(blob.encode()).hexdigest()[:12]
    path = os.path.join(VERIF, "replays", f"{prop}-{h}.json")
    with open(path, "w") as fh:
        fh.write(blob)
    return path


def finish(ctx: Ctx, meta: Dict[str, Any], search: Optional[Callable[[Ctx], None]] = None) -> int:
    """Apply the verdict protocol, write evidence, print lines, return exit code."""
    findings = load_findings()
    lines: List[str] = []
    broken = ctx.broken_ties()

    def classify():
        known, unknown = [], []
        for fl in ctx.failures:
            f = match_finding(ctx.prop, fl.fields, findings)
            (known if f else unknown).append((fl, f))
        return known, unknown

    known, unknown = classify()
    if broken and not unknown and search is not None and not ctx.searched:
        # a tie broke and the routine probes found nothing new: widen the search on the real code
        ctx.searched = True
        try:
            search(ctx)
        except Exception:
            ctx.note("search raised: " + traceback.format_exc()[-1500:])
        known, unknown = classify()

    seen_known = {}
    for fl, f in known:
        seen_known.setdefault(f["id"], (fl, f))
    for fid, (fl, f) in seen_known.items():
        lines.append(f"KNOWN-FINDING: property={ctx.prop} {f['id']}: {f['what']}")

    violations = 0
    exit_code = 0
    if unknown:
        # group by probe + fields signature, one replay per group (first failing input)
        groups: Dict[str, Failure] = {}
        for fl, _ in unknown:
            key = fl.probe + json.dumps(jsonable({k: v for k, v in fl.fields.items() if not isinstance(v, float)}), sort_keys=True)
            groups.setdefault(key, fl)
        for fl in groups.values():
            path = write_replay(ctx.prop, {
                "property": ctx.prop, "kind": "probe", "stage": "S5", "probe": fl.probe, "fields": fl.fields,
                "input": fl.input, "observed": fl.observed, "expected": fl.expected, "predicate": fl.predicate,
                "seed": ctx.seed, "tier": ctx.tier, "broken_ties": broken,
                "how_to_replay": f"./check {ctx.prop} --replay <this file>",
            })
            lines.append(f"VIOLATION property={ctx.prop} replay={path}")
            violations += 1
        exit_code = 1
    elif broken:
        path = write_replay(ctx.prop, {
            "property": ctx.prop, "kind": "obligation", "stage": "S1-S4",
            "broken": broken, "seed": ctx.seed, "tier": ctx.tier,
            "note": "a proof obligation / correspondence no longer checks and the search on the real code found no failing input",
            "search_ran": ctx.searched,
        })
        lines.append(f"VIOLATION property={ctx.prop} replay={path} no-failing-input-found")
        violations += 1
        exit_code = 1

    write_evidence(ctx, meta, violations, [f["id"] for _, f in seen_known.values()])
    for ln in lines:
        print(ln, flush=True)
    n_ob = len(ctx.obligations)
    n_ok = sum(1 for o in ctx.obligations if o["ok"])
    ncorr = sum(c["cases"] for c in ctx.corr.values())
    nprobe = sum(p["cases"] for p in ctx.probes.values())
    print(f"[{ctx.prop}] tier={ctx.tier} seed={ctx.seed} obligations {n_ok}/{n_ob} corr_cases={ncorr} "
          f"probe_cases={nprobe} failures={len(ctx.failures)} known={len(seen_known)} exit={exit_code} "
          f"wall={time.time()-ctx.t0:.1f}s", flush=True)
    return exit_code


def write_evidence(ctx: Ctx, meta: Dict[str, Any], violations: int, known_ids: List[str]):
    n_ob = len(ctx.obligations)
    n_ok = sum(1 for o in ctx.obligations if o["ok"])
    ncorr = sum(c["cases"] for c in ctx.corr.values())
    nprobe = sum(p["cases"] for p in ctx.probes.values())
    samples = ctx.samples[:10]
    for o in ctx.obligations[:3]:
        samples.append({"kind": "obligation", "name": o["name"], "ok": o["ok"]})
    ev = {
        "property_id": ctx.prop,
        "tier": ctx.tier,
        "seed": int(ctx.seed),
        "level": "proof",
        "coverage": {
            "obligations": n_ob,
            "discharged": n_ok,
            "checker_cmd": meta.get("checker_cmd", "cd /verif/lean && lake build PyseqmVerif.Properties.%s && lake env lean .audit/Audit_%s.lean" % (ctx.prop, ctx.prop)),
            "trusted_base": TRUSTED_BASE + meta.get("trusted_extra", []),
            "evaluations": int(ncorr + nprobe),
            "distinct_nontrivial": int(len(ctx.distinct)),
            "rule": meta.get("rule", "correspondence cases (model driver vs real function on the same input) and probe cases (property predicate on the real code); distinct = distinct serialized inputs; non-trivial per adapter rule"),
            "samples": samples if samples else [{"kind": "none"}],
            "theorems": [o["name"] for o in ctx.obligations if o.get("kind") == "theorem"],
            "other_obligations": [{"name": o["name"], "kind": o["kind"], "ok": o["ok"]} for o in ctx.obligations if o.get("kind") != "theorem"],
            "failed_obligations": [o for o in ctx.obligations if not o["ok"]],
            "correspondence": {k: {kk: vv for kk, vv in v.items() if kk != "mismatches"} | {"mismatch_examples": v["mismatches"][:3]} for k, v in ctx.corr.items()},
            "probes": ctx.probes,
            "strata": ctx.strata,
            "modelled": meta.get("modelled", {}),
            "known_findings_hit": known_ids,
            "search_ran": ctx.searched,
            "explanation": meta.get("explanation", ""),
            **ctx.extra,
        },
        "assumptions": meta.get("assumptions", []) + ctx.notes,
        "wall_s": round(time.time() - ctx.t0, 2),
        "violations": int(violations),
    }
    os.makedirs(os.path.join(VERIF, "evidence"), exist_ok=True)
    with open(os.path.join(VERIF, "evidence", f"{ctx.prop}.json"), "w") as fh:
        json.dump(jsonable(ev), fh, indent=1, sort_keys=True)
