"""MD harness: drives the REAL run loop / writers / checkpoint code of seqm.MolecularDynamics with
either the real force engine or a cheap deterministic stub engine, with crash injection.

Every segment (one process lifetime) runs in a forked child so that SIGKILL is real.
"""
from __future__ import annotations

import contextlib
import io
import json
import multiprocessing as mp
import os
import re
import shutil
import signal
import sys
import tempfile
import types
from typing import Any, Dict, List, Optional, Tuple

import numpy as np

from .core import REPO

if REPO not in sys.path:
    sys.path.insert(0, REPO)

import torch  # noqa: E402

torch.set_default_dtype(torch.float64)
torch.set_num_threads(1)

SCRATCH_ROOT = os.environ.get("VF_SCRATCH", "/root/scratch/vf")

ACTIONS = ["screen", "append_data", "append_vectors", "xyz", "flush", "ckpt_tmp", "ckpt_replace"]


def scratch_dir(tag: str) -> str:
    os.makedirs(SCRATCH_ROOT, exist_ok=True)
    return tempfile.mkdtemp(prefix=tag + "_", dir=SCRATCH_ROOT)


# --------------------------------------------------------------------------- stub engine
class StubEngine(torch.nn.Module):
    """Deterministic cheap stand-in for Electronic_Structure: harmonic springs between the real
    atoms of each molecule, plus a 'density' that depends on the geometry AND on the density it
    is handed (so that XL-BOMD history restoration matters)."""

    def __init__(self, seqm_parameters=None, *a, **k):
        super().__init__()
        self.seqm_parameters = seqm_parameters
        self.device = torch.device("cpu")
        ham = types.SimpleNamespace(eps=None)
        energy = types.SimpleNamespace(md=False, excited_states=None, hamiltonian=ham, namd=False, xlesmd=False)
        self.conservative_force = types.SimpleNamespace(energy=energy)
        self.calls = 0

    def forward(self, molecule, learned_parameters=None, xl_bomd_params=None, P0=None, dm_prop="SCF", cis_amp=None, *a, **k):
        self.calls += 1
        x = molecule.coordinates.detach()
        real = (molecule.species > 0)
        nmol, n, _ = x.shape
        d = x.unsqueeze(2) - x.unsqueeze(1)
        r = torch.sqrt((d * d).sum(-1) + 1e-300)
        pm = (real.unsqueeze(2) & real.unsqueeze(1)) & ~torch.eye(n, dtype=torch.bool).unsqueeze(0)
        kk, r0 = 3.0, 1.1
        e_pair = 0.5 * kk * (r - r0) ** 2 * pm
        dEdr = kk * (r - r0) * pm
        f = -(dEdr / r).unsqueeze(-1) * d
        force = f.sum(2)
        molecule.force = force
        G = (x.reshape(nmol, -1, 1) * x.reshape(nmol, 1, -1)) * 0.01
        if P0 is not None and torch.is_tensor(P0) and P0.shape == G.shape:
            dm = G + 0.25 * P0
        else:
            dm = G
        molecule.dm = dm
        e = 0.5 * e_pair.sum((1, 2)) + 1e-3 * (dm * dm).sum((1, 2))
        molecule.Etot = e
        molecule.Hf = e * 23.06
        molecule.Eelec = -e
        molecule.Enuc = 2 * e
        molecule.Eiso = torch.zeros_like(e)
        molecule.e_mo = None
        molecule.e_gap = torch.ones_like(e)
        molecule.dipole = (x * real.unsqueeze(-1)).sum(1)
        molecule.q = torch.zeros(nmol, n)
        if dm_prop == "XL-BOMD":
            molecule.Electronic_entropy = torch.zeros_like(e)
            molecule.dP2dt2 = 0.3 * (dm - P0) if P0 is not None else torch.zeros_like(dm)
            molecule.Krylov_Error = torch.zeros_like(e)
            molecule.Fermi_occ = None


# --------------------------------------------------------------------------- scenario
DEFAULT_MOLS = {
    "h2o": ([8, 1, 1], [[0.0, 0.0, 0.0], [0.96, 0.0, 0.0], [-0.24, 0.93, 0.0]]),
    "h2": ([1, 1], [[0.0, 0.0, 0.0], [0.74, 0.0, 0.1]]),
    "ch4": ([6, 1, 1, 1, 1], [[0.0, 0.0, 0.0], [0.63, 0.63, 0.63], [-0.63, -0.63, 0.63], [-0.63, 0.63, -0.63], [0.63, -0.63, -0.63]]),
    "co": ([8, 6], [[0.0, 0.0, 0.0], [1.13, 0.1, 0.0]]),
    "ch2o": ([8, 6, 1, 1], [[0.0, 0.0, 0.0], [1.22, 0.01, 0.02], [1.82, 0.94, 0.05], [1.81, -0.93, -0.04]]),
    "oh-": ([8, 1], [[0.0, 0.0, 0.0], [0.96, 0.03, 0.02]]),
    "h2s": ([16, 1, 1], [[0.0, 0.0, 0.0], [1.34, 0.03, 0.0], [-0.05, 1.34, 0.02]]),
    "sih4": ([14, 1, 1, 1, 1], [[0.0, 0.0, 0.0], [0.85, 0.85, 0.85], [-0.85, -0.85, 0.85], [-0.85, 0.85, -0.85], [0.85, -0.85, -0.85]]),
    "nh4+": ([7, 1, 1, 1, 1], [[0.0, 0.0, 0.0], [0.59, 0.59, 0.59], [-0.59, -0.59, 0.59], [-0.59, 0.59, -0.59], [0.59, -0.59, -0.59]]),
}


def build_batch(names: List[str]):
    n = max(len(DEFAULT_MOLS[m][0]) for m in names)
    sp = torch.zeros(len(names), n, dtype=torch.int64)
    xs = torch.zeros(len(names), n, 3)
    for i, m in enumerate(names):
        z, c = DEFAULT_MOLS[m]
        sp[i, : len(z)] = torch.tensor(z)
        xs[i, : len(z)] = torch.tensor(c)
    return sp, xs


def make_md(sc: Dict[str, Any], prefix: str):
    """sc keys: engine (basic|langevin|xl|ksa), stub (bool), mols, cad {data,coordinates,velocities,forces,xyz,print,ckpt},
    steps, dt, temp, damp, k, seed, molid, remove_com, seqm (overrides)"""
    import seqm.MolecularDynamics as MD
    from seqm.Molecule import Molecule
    from seqm.seqm_functions.constants import Constants

    if sc.get("stub", True):
        MD.esdriver = StubEngine
    species, coords = build_batch(sc.get("mols", ["h2o"]))
    sp = dict(method="AM1", scf_eps=1e-8, scf_converger=[1], sp2=[False])
    sp.update(sc.get("seqm", {}))
    cad = sc["cad"]
    out = {
        "molid": sc.get("molid", [0]),
        "prefix": prefix,
        "print every": cad.get("print", 0),
        "checkpoint every": cad.get("ckpt", 0),
        "xyz": cad.get("xyz", 0),
        "h5": {k: cad.get(k, 0) for k in ("data", "coordinates", "velocities", "forces")},
    }
    if cad.get("tdm", 0):
        out["h5"]["transition_density_matrices"] = int(cad["tdm"])
    mkw = {}
    if sc.get("charges") is not None:
        mkw["charges"] = torch.as_tensor(sc["charges"], dtype=torch.float64)
    if sc.get("learned"):
        # re-parameterised run: tabulated value of the named parameters scaled, passed as learned parameters (tensors)
        tab = Molecule(Constants(), dict(sp, learned=[]), coords.clone(), species.clone(), **mkw).parameters
        sp["learned"] = sorted(sc["learned"])
        mkw["learned_parameters"] = {k: tab[k].detach().clone() * float(v) for k, v in sc["learned"].items()}
    mol = Molecule(Constants(), sp, coords, species, **mkw)
    mol._vf_learned = mkw.get("learned_parameters", {})
    eng = sc.get("engine", "basic")
    kw = dict(seqm_parameters=sp, timestep=sc.get("dt", 0.5), Temp=sc.get("temp", 300.0), output=out)
    if eng == "basic":
        md = MD.Molecular_Dynamics_Basic(**kw)
    elif eng == "langevin":
        md = MD.Molecular_Dynamics_Langevin(damp=sc.get("damp", 20.0), **kw)
    elif eng == "xl":
        md = MD.XL_BOMD(damp=sc.get("damp", None), xl_bomd_params={"k": sc.get("k", 4)}, **kw)
    elif eng == "ksa":
        xp = {"k": sc.get("k", 4), "max_rank": sc.get("max_rank", 2), "err_threshold": 0.0, "T_el": sc.get("T_el", 1500)}
        md = MD.KSA_XL_BOMD(damp=sc.get("damp", None), xl_bomd_params=xp, **kw)
    else:
        raise ValueError(eng)
    return mol, md


class _SoftCrash(RuntimeError):
    pass


def install_crash(crash: Optional[Dict[str, Any]], side: str):
    """crash = {step, upto, hard}.  Crash semantics: actions with index < upto of step `step`
    have executed.  Triggers at the entry of the first later action / the next integrator step.
    Also records screen lines and whether the crash fired in the side file."""
    import seqm.MolecularDynamics as MD

    state = {"step": 0, "seen": False}

    def log(line: str):
        fd = os.open(side, os.O_WRONLY | os.O_APPEND | os.O_CREAT)
        os.write(fd, (line + "\n").encode())
        os.close(fd)

    def fire():
        log("CRASH-FIRED")
        if crash["hard"]:
            os.kill(os.getpid(), signal.SIGKILL)
        raise _SoftCrash("injected crash")

    def due(action_idx: int) -> bool:
        if crash is None:
            return False
        s = state["step"]
        if action_idx < 0:  # integrator entry for step s
            if s == crash["step"]:
                state["seen"] = True
            return (s == crash["step"] and crash["upto"] == 0) or (s == crash["step"] + 1 and state["seen"])
        return s == crash["step"] and action_idx >= crash["upto"]

    def wrap_method(cls, name, idx):
        orig = getattr(cls, name)

        def w(self, *a, **k):
            if due(idx):
                fire()
            if idx == 0:
                log(f"SCREEN {a[0] + 1}")
            return orig(self, *a, **k)

        setattr(cls, name, w)

    orig_int = MD.Molecular_Dynamics_Basic._do_integrator_step
    orig_int_xl = MD.XL_BOMD._do_integrator_step

    def mk_int(orig):
        def w(self, i, *a, **k):
            state["step"] = i + 1
            if due(-1):
                fire()
            return orig(self, i, *a, **k)
        return w

    MD.Molecular_Dynamics_Basic._do_integrator_step = mk_int(orig_int)
    MD.XL_BOMD._do_integrator_step = mk_int(orig_int_xl)
    wrap_method(MD.Molecular_Dynamics_Basic, "_output_to_screen", 0)
    wrap_method(MD.HDF5Writer, "append_data", 1)
    wrap_method(MD.HDF5Writer, "append_vectors", 2)
    wrap_method(MD.XYZWriter, "write", 3)
    wrap_method(MD.Molecular_Dynamics_Basic, "_flush_all", 4)

    orig_save = torch.save
    orig_replace = os.replace

    def save_w(obj, path, *a, **k):
        if isinstance(path, str) and ".tmp_ckpt_" in path and due(5):
            fire()
        return orig_save(obj, path, *a, **k)

    def replace_w(src, dst, *a, **k):
        if isinstance(src, str) and ".tmp_ckpt_" in src and due(6):
            # temp file was written; the crash leaves it behind (SIGKILL) or the finally-block removes it (exception)
            fire()
        return orig_replace(src, dst, *a, **k)

    MD.torch.save = save_w
    MD.os.replace = replace_w


def _child(sc, prefix, crash, side, resume):
    try:
        import seqm.MolecularDynamics as MD

        if sc.get("stub", True):
            MD.esdriver = StubEngine
        install_crash(crash, side)
        with contextlib.redirect_stdout(io.StringIO()):
            if resume:
                MD.Molecular_Dynamics_Basic.run_from_checkpoint(prefix + ".restart.pt")
            else:
                mol, md = make_md(sc, prefix)
                md.run(mol, sc["steps"], seed=sc.get("seed", 1), remove_com=sc.get("remove_com"), reuse_P=sc.get("reuse_P", True),
                       **({"learned_parameters": mol._vf_learned} if mol._vf_learned else {}), **sc.get("run_kwargs", {}))
        os._exit(0)
    except _SoftCrash:
        os._exit(17)
    except BaseException as e:  # noqa
        import traceback

        with open(side + ".err", "a") as fh:
            fh.write(traceback.format_exc())
        os._exit(3)


def run_segment(sc, prefix, crash, resume, timeout=600) -> Dict[str, Any]:
    side = prefix + ".side"
    if os.path.exists(side):
        os.remove(side)
    ctx = mp.get_context("fork")
    p = ctx.Process(target=_child, args=(sc, prefix, crash, side, resume))
    p.start()
    p.join(timeout)
    if p.is_alive():
        p.kill()
        p.join()
        return {"exit": "timeout", "fired": False, "screen": []}
    lines = open(side).read().split("\n") if os.path.exists(side) else []
    err = open(side + ".err").read() if os.path.exists(side + ".err") else ""
    return {
        "exit": p.exitcode,
        "fired": "CRASH-FIRED" in lines,
        "screen": [int(l.split()[1]) for l in lines if l.startswith("SCREEN")],
        "err": err[-1500:],
    }


# --------------------------------------------------------------------------- observation
H5_STREAMS = ["data", "coordinates", "velocities", "forces"]


def read_h5(path: str) -> Dict[str, Any]:
    import h5py

    out: Dict[str, Any] = {}
    if not os.path.exists(path):
        return {k: {"labels": [], "values": None} for k in H5_STREAMS}
    try:
        h5py.File(path, "r").close()
    except OSError as e:
        # e.g. SIGKILL before the first flush leaves a file HDF5 cannot open
        return {k: {"labels": ["unreadable"], "values": None, "error": str(e)[:200]} for k in H5_STREAMS}
    with h5py.File(path, "r") as h:
        for g in H5_STREAMS:
            if g in h and "steps" in h[g]:
                steps = h[g + "/steps"][...]
                if g == "data":
                    vals = np.stack([h["data/thermo/T"][...], h["data/thermo/Ek"][...], h["data/thermo/Ep"][...]], axis=1)
                    vals = np.concatenate([vals, h["data/properties/ground_dipole"][...]], axis=1)
                else:
                    vals = h[g + "/values"][...]
                labels: List[Optional[int]] = []
                for i, s in enumerate(steps):
                    written = bool(np.any(vals[i] != 0)) or s != 0
                    labels.append(int(s) if written else None)
                out[g] = {"labels": labels, "values": vals}
            else:
                out[g] = {"labels": [], "values": None}
    return out


def read_xyz_labels(path: str) -> List[int]:
    if not os.path.exists(path):
        return []
    return [int(m.group(1)) for m in re.finditer(r"^step:\s+(\d+)", open(path).read(), re.M)]


def read_xyz_frames(path: str) -> List[Tuple[int, str]]:
    if not os.path.exists(path):
        return []
    txt = open(path).read()
    parts = re.split(r"(?m)^(?=\d+\n step:|\d+\nstep:)", txt)
    frames = []
    for p in parts:
        m = re.search(r"^step:\s+(\d+)", p, re.M)
        if m:
            frames.append((int(m.group(1)), p))
    return frames


def read_ckpt(prefix: str) -> Optional[Dict[str, Any]]:
    p = prefix + ".restart.pt"
    if not os.path.exists(p):
        return None
    ck = torch.load(p, map_location="cpu", weights_only=False)
    return ck


def observe(prefix: str, mol: int = 0) -> Dict[str, Any]:
    h5 = read_h5(f"{prefix}.{mol}.h5")
    ck = None
    try:
        c = read_ckpt(prefix)
        if c is not None:
            ck = int(c["step_done"])
    except Exception as e:  # torn / unreadable checkpoint is an observation in itself
        ck = "unreadable:" + type(e).__name__
    leftovers = [f for f in os.listdir(os.path.dirname(prefix)) if f.startswith(".tmp_ckpt_")]
    return {"h5": h5, "xyz": read_xyz_labels(f"{prefix}.{mol}.xyz"), "ckpt": ck, "tmp_left": leftovers}


def fmt_disk(obs: Dict[str, Any]) -> str:
    def rows(ls):
        return ",".join("-" if x is None else str(x) for x in ls)
    return "h5=" + "/".join(rows(obs["h5"][g]["labels"]) for g in H5_STREAMS) + " xyz=" + ",".join(map(str, obs["xyz"]))


def run_history(sc: Dict[str, Any], crashes: List[Dict[str, Any]], tag="hist", keep=False) -> Dict[str, Any]:
    """Run: segment with crash 1, resume-or-fresh with crash 2, ..., final uninterrupted segment.
    Returns per-segment observations.  `effective` = the crashes that actually fired."""
    d = scratch_dir(tag)
    prefix = os.path.join(d, "md")
    segs = []
    effective = []
    try:
        pending = list(crashes) + [None]
        for cr in pending:
            resume = os.path.exists(prefix + ".restart.pt")
            r = run_segment(sc, prefix, cr, resume)
            obs = observe(prefix, sc.get("molid", [0])[0])
            segs.append({"crash": cr, "resume": resume, "run": r, "obs": obs})
            if cr is not None and r["fired"]:
                effective.append(cr)
            if cr is None or not r["fired"]:
                break
        return {"segments": segs, "effective": effective, "dir": d}
    finally:
        if not keep:
            shutil.rmtree(d, ignore_errors=True)


def in_process_run(sc: Dict[str, Any], tag="run") -> Dict[str, Any]:
    """Uninterrupted run in this process (fast path for the cadence lattice and references)."""
    d = scratch_dir(tag)
    prefix = os.path.join(d, "md")
    import seqm.MolecularDynamics as MD

    old = MD.esdriver
    screens: List[int] = []
    orig_screen = MD.Molecular_Dynamics_Basic._output_to_screen

    def scr(self, step, *a, **k):
        screens.append(step + 1)
        return orig_screen(self, step, *a, **k)

    try:
        MD.Molecular_Dynamics_Basic._output_to_screen = scr
        mol, md = make_md(sc, prefix)
        if sc.get("preset_velocities"):
            g = np.random.default_rng(int(sc["preset_velocities"]))
            real = (mol.species > 0).unsqueeze(-1).to(mol.coordinates.dtype)
            v = torch.as_tensor(g.normal(size=tuple(mol.coordinates.shape)) * 0.01) * real
            mass = mol.mass
            v = (v - (mass * v).sum(1, keepdim=True) / mass.sum(1, keepdim=True)) * real
            mol.velocities = v
        with contextlib.redirect_stdout(io.StringIO()):
            md.run(mol, sc["steps"], seed=sc.get("seed", 1), remove_com=sc.get("remove_com"), reuse_P=sc.get("reuse_P", True), **sc.get("run_kwargs", {}))
        out = {}
        for m in sc.get("molid", [0]):
            out[m] = observe(prefix, m)
        out["screen"] = screens
        return out
    finally:
        MD.esdriver = old
        MD.Molecular_Dynamics_Basic._output_to_screen = orig_screen
        shutil.rmtree(d, ignore_errors=True)


# --------------------------------------------------------------------------- parallel map (fork)
def _pm_worker(fn, item, q, idx):
    try:
        q.put((idx, fn(item)))
    except BaseException as e:  # noqa
        import traceback

        q.put((idx, RuntimeError(traceback.format_exc()[-1500:])))


def pmap(fn, items, nproc: int = 0, timeout: float = 900.0):
    """fork-based parallel map; results in order; an item that raises yields the exception object"""
    import concurrent.futures as cf

    nproc = nproc or int(os.environ.get("VF_NPROC", "12"))
    if len(items) == 0:
        return []
    ctx = mp.get_context("fork")
    out = [None] * len(items)
    with cf.ProcessPoolExecutor(max_workers=min(nproc, len(items)), mp_context=ctx) as ex:
        futs = {ex.submit(_pm_call, fn, it): i for i, it in enumerate(items)}
        for f in cf.as_completed(futs, timeout=timeout):
            i = futs[f]
            try:
                out[i] = f.result()
            except BaseException as e:  # noqa
                out[i] = RuntimeError(repr(e))
    return out


def _pm_call(fn, it):
    try:
        return fn(it)
    except BaseException:  # noqa
        import traceback

        return RuntimeError(traceback.format_exc()[-1500:])


# --------------------------------------------------------------------------- surface hopping runs (real engine)
class _StopAfterCheckpoint(RuntimeError):
    pass


def _sh_child(sc, prefix, stop_at, q):
    try:
        import seqm.NonadiabaticDynamics as ND
        from seqm.Molecule import Molecule
        from seqm.seqm_functions.constants import Constants

        species, coords = build_batch(sc.get("mols", ["h2o"]))
        sp = {"method": "AM1", "scf_eps": 1e-8, "scf_converger": [1], "excited_states": {"n_states": sc.get("n_states", 2), "method": "cis"}}
        cad = sc["cad"]
        h5 = {k: cad.get(k, 0) for k in ("data", "coordinates", "velocities", "forces", "nonadiabatic") if cad.get(k, 0)}
        out = {"molid": sc.get("molid", [0]), "prefix": prefix, "print every": 0, "checkpoint every": cad.get("ckpt", 0), "xyz": cad.get("xyz", 0), "h5": h5}
        run_kw = {}
        resume = ND.SurfaceHoppingDynamics.run_from_checkpoint
        if sc.get("engine", "sh") == "xlesmd":
            # excited-state extended-Lagrangian engine (real engine only): the active excited state and its amplitudes are propagated alongside the density
            import seqm.MolecularDynamics as MD
            sp = {"method": "AM1", "scf_eps": 1e-10, "scf_converger": [2], "excited_states": {"n_states": sc.get("n_states", 3), "cis_tol": 1e-9}, "active_state": 1, "analytical_gradient": [True]}
            h5 = {k: v for k, v in h5.items() if k != "nonadiabatic"}
            out["h5"] = h5
            mol = Molecule(Constants(), sp, coords, species)
            xp = {"k": sc.get("k", 6)}
            if sc.get("max_rank"):
                xp.update({"max_rank": int(sc["max_rank"]), "err_threshold": 0.0, "T_el": sc.get("T_el", 1500)})     # Krylov kernel
            dyn = MD.XL_ESMD(xl_bomd_params=xp, seqm_parameters=sp, timestep=sc.get("dt", 0.2), Temp=sc.get("temp", 300.0), output=out)
            run_kw = {"dmprop": "SCF"}
            resume = MD.XL_ESMD.run_from_checkpoint
        else:
            mol = Molecule(Constants(), sp, coords, species)
            dyn = ND.SurfaceHoppingDynamics(seqm_parameters=sp, timestep=sc.get("dt", 0.5), Temp=sc.get("temp", 300.0), output=out, initial_state=sc.get("initial_state", 1),
                                            **({"damp": float(sc["damp"])} if sc.get("damp") else {}))
        if stop_at is not None:
            orig = dyn.save_checkpoint

            def w(*a, **k):
                orig(*a, **k)
                if k.get("step_done") == stop_at:
                    raise _StopAfterCheckpoint()
            dyn.save_checkpoint = w
        with contextlib.redirect_stdout(io.StringIO()):
            try:
                dyn.run(mol, steps=sc["steps"], reuse_P=sc.get("reuse_P", True), remove_com=None, seed=sc.get("seed", 0), **run_kw)
            except _StopAfterCheckpoint:
                resume(prefix + ".restart.pt", device=torch.device("cpu"))
        q.put({"ok": True})
    except BaseException:
        import traceback
        q.put({"exc": traceback.format_exc()[-1500:]})


def surface_hopping_run(sc: Dict[str, Any], stop_at: Optional[int] = None, timeout=900, values: bool = False) -> Dict[str, Any]:
    """real SurfaceHoppingDynamics run (optionally stopped right after the checkpoint of step `stop_at` and resumed);
    returns the step labels of every HDF5 stream incl. /data/nonadiabatic and whether each NA row was written"""
    import h5py

    d = scratch_dir("sh")
    prefix = os.path.join(d, "md")
    try:
        ctx = mp.get_context("fork")
        q = ctx.Queue()
        p = ctx.Process(target=_sh_child, args=(sc, prefix, stop_at, q))
        p.start()
        res = q.get(timeout=timeout)
        p.join(10)
        if "exc" in res:
            raise RuntimeError(res["exc"])
        out = {}
        for m in sc.get("molid", [0]):
            with h5py.File(f"{prefix}.{m}.h5", "r") as f:
                o = {}
                for name, path in (("data", "data/steps"), ("coordinates", "coordinates/steps"), ("velocities", "velocities/steps"), ("forces", "forces/steps"),
                                   ("nonadiabatic", "data/nonadiabatic/steps")):
                    o[name] = f[path][...].tolist() if path in f else []
                if "data/nonadiabatic/active_surface" in f:
                    act = f["data/nonadiabatic/active_surface"][...]
                    amp = f["data/nonadiabatic/electronic_amplitudes"][...]
                    o["na_rows_written"] = [bool(a >= 1 and abs(float((x ** 2).sum()) - 1.0) < 1e-2) for a, x in zip(act, amp)]
                if values:
                    # every dataset of the file, by value (resumed = uninterrupted is a statement about all of them)
                    vals = {}
                    f.visititems(lambda name, obj: vals.__setitem__(name, obj[...]) if isinstance(obj, h5py.Dataset) and obj.dtype.kind in "fiub" else None)
                    o["values"] = vals
                out[m] = o
        return out
    finally:
        shutil.rmtree(d, ignore_errors=True)


# --------------------------------------------------------------------------- one call in a child with a wall-clock bound
class CallTimeout(RuntimeError):
    pass


def _cwt_child(fn, arg, q):
    try:
        q.put({"out": fn(arg)})
    except BaseException:
        import traceback
        q.put({"exc": traceback.format_exc()[-1500:]})


def call_with_timeout(fn, arg, timeout: float):
    """run fn(arg) in a forked child; raise CallTimeout if it does not return in `timeout` seconds (child is killed)"""
    ctx = mp.get_context("fork")
    q = ctx.Queue()
    p = ctx.Process(target=_cwt_child, args=(fn, arg, q))
    p.start()
    try:
        res = q.get(timeout=timeout)
    except Exception:
        p.kill()
        p.join()
        raise CallTimeout(f"no result within {timeout:.0f} s")
    p.join(5)
    if "exc" in res:
        raise RuntimeError(res["exc"])
    return res["out"]
