"""Independent NDDO energy functional and Fock operator (closed shell, s/sp basis) in plain numpy.

Used by C06: "... the Fock matrix for a given density ... and hence the SCF total energy ... equal those obtained by an independent
evaluation of the published NDDO equations".  The SCF solution is characterised variationally: a density P returned by the package
as converged must (1) give the reported electronic energy under the REFERENCE functional  E[P] = 1/2 tr P (H + F[P]),  and (2) be a
stationary point of it, [F_ref[P], P] = 0 — whichever solver, batch layout, packing shortcut or call path produced it.

Ingredients: the reference one-electron matrix of `oracle_nddo.hcore_reference` (own overlaps by quadrature, own rotation, own assembly),
the rotated two-centre two-electron integrals `w` of a SINGLE-molecule evaluation (validated entry by entry against the Lean model and the
point-charge specification by the C02/C06 adapters), and the shipped one-centre parameters g_ss, g_sp, g_pp, g_p2, h_sp with the textbook
MNDO one-centre Fock terms (Dewar & Thiel 1977; MOPAC `fock1`/`fock2`), written here from the equations, not from the package.
"""
from __future__ import annotations

import contextlib
import io
from typing import Any, Dict, List, Sequence

import numpy as np

from . import oracle_nddo as O


def _packed(mu: int, nu: int) -> int:
    a, b = (mu, nu) if mu >= nu else (nu, mu)
    return a * (a + 1) // 2 + b


def reference_fock(mol1, P: np.ndarray, H: np.ndarray = None):
    """mol1: single-molecule `Molecule` (no padding); P: (4 nat, 4 nat) total density in the 4-orbitals-per-atom layout.
    Returns (H_ref, F_ref)."""
    torch, _, _, hcore = O._pkg()
    Z, X, par = O._mol_arrays(mol1)
    nat = len(Z)
    with torch.no_grad(), contextlib.redirect_stdout(io.StringIO()):
        w = hcore(mol1)[1]
    if H is None:
        H = O.hcore_reference(mol1, w=w)
    w = w.detach().numpy()
    idxi = [int(i) for i in mol1.idxi.tolist()]
    idxj = [int(j) for j in mol1.idxj.tolist()]
    g = {k: mol1.parameters[k].detach().numpy().astype(float) for k in ("g_ss", "g_sp", "g_pp", "g_p2", "h_sp")}
    nao = [4 if z > 1 else 1 for z in Z]
    F = H.copy()
    # one-centre two-electron terms
    for A in range(nat):
        o = 4 * A
        gss, gsp, gpp, gp2, hsp = (g[k][A] for k in ("g_ss", "g_sp", "g_pp", "g_p2", "h_sp"))
        Pss = P[o, o]
        F[o, o] += 0.5 * Pss * gss
        if nao[A] == 4:
            Ppp = [P[o + i, o + i] for i in (1, 2, 3)]
            F[o, o] += sum(Ppp) * (gsp - 0.5 * hsp)
            for i in (1, 2, 3):
                others = sum(Ppp) - Ppp[i - 1]
                F[o + i, o + i] += Pss * (gsp - 0.5 * hsp) + 0.5 * Ppp[i - 1] * gpp + others * (1.25 * gp2 - 0.25 * gpp)
                F[o, o + i] += P[o, o + i] * (1.5 * hsp - 0.5 * gsp)
                F[o + i, o] += P[o + i, o] * (1.5 * hsp - 0.5 * gsp)
                for j in (1, 2, 3):
                    if j != i:
                        F[o + i, o + j] += P[o + i, o + j] * (0.75 * gpp - 1.25 * gp2)
    # two-centre terms
    for k, (A, B) in enumerate(zip(idxi, idxj)):
        oa, ob = 4 * A, 4 * B
        na, nb = nao[A], nao[B]
        for mu in range(na):
            for nu in range(na):
                # Coulomb: electrons of B seen by the pair (mu nu) on A
                F[oa + mu, oa + nu] += sum(P[ob + la, ob + si] * w[k, _packed(mu, nu), _packed(la, si)] for la in range(nb) for si in range(nb))
        for la in range(nb):
            for si in range(nb):
                F[ob + la, ob + si] += sum(P[oa + mu, oa + nu] * w[k, _packed(mu, nu), _packed(la, si)] for mu in range(na) for nu in range(na))
        for mu in range(na):
            for la in range(nb):
                ex = sum(P[oa + nu, ob + si] * w[k, _packed(mu, nu), _packed(la, si)] for nu in range(na) for si in range(nb))
                F[oa + mu, ob + la] -= 0.5 * ex
                F[ob + la, oa + mu] -= 0.5 * ex
    return H, F


def check_member(names: Sequence[str], k: int, sp: Dict[str, Any], coords=None, pad_to=None) -> Dict[str, Any]:
    """evaluate the batch `names` with the real package (settings sp), then judge member k against the reference functional"""
    from . import esh

    r = esh.run_named(list(names), sp, coords=coords, pad_to=pad_to)
    nm = names[k]
    z, x0 = esh.geom(nm)
    x = x0 if coords is None else np.asarray(coords[k], dtype=float)
    nat = len(z)
    P = r["dm"][k][: 4 * nat, : 4 * nat]
    mol1 = O.build_molecule(sp["method"], z, x)
    H, F = reference_fock(mol1, P)
    E_ref = 0.5 * float(np.sum(P * (H + F)))
    com = float(np.abs(F @ P - P @ F).max())
    out = {"E_pkg": float(r["Eelec"][k]), "E_ref": E_ref, "dE": abs(float(r["Eelec"][k]) - E_ref), "commutator": com, "notconverged": bool(np.asarray(r["notconverged"])[k]),
           "trace": float(np.trace(P)), "sym": float(np.abs(P - P.T).max())}
    return out
