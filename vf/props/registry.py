"""Theorem registry: property id -> fully qualified theorem names audited with #print axioms.
(kept in one file so that the lists can be filled as the Lean modules land)"""

THEOREMS_C09 = [
    "C09.buffer_refines_history", "C09.buffer_refines_history_ksa", "C09.buffer_refines_history_executed", "C09.executed_coeff_hyps",
    "C09.restart_restores_newest", "C09.resume_equals_uninterrupted",
    "C09.table_orders", "C09.table_k_range", "C09.coeff_sum_zero", "C09.window_is_rotation", "C09.effective_weights_match",
    "C09.fixed_point_weight_sum", "C09.fixed_point_weight_sum_sharp", "C09.published_scheme", "C09.coeff_matches_init", "C09.weight_sum_exact",
    "C09.fixed_point_step", "C09.fixed_point_step_ksa", "C09.stationary_forever", "C09.stationary_from_any_phase", "C09.stationary_forever_ksa",
    "C09.stationary_forever_general",
    "C09.shadow_energy_consistent", "C09.shadow_energy_consistent_any_F", "C09.shadow_energy_docstring", "C09.shadow_energy_grad_D",
    "C09.chi_is_characteristic", "C09.chi_at_one", "C09.chi_at_minus_one", "C09.root_product", "C09.linear_response",
    "Lyap.concave_quad_nonneg", "Lyap.interval_of_endpoints", "Lyap.cover",
    "C09.k3_stable_on_interval", "C09.k3_stable_on_interval_0", "C09.k3_intervals_cover", "C09.k3_stable", "C09.k3_trajectories_decay",
    "C09.k3_linear_response_converges", "C09.next3_eq_mkTmp", "C09.k3_constants",
    "LyapK3.cert_0_lo", "LyapK3.cert_0_hi", "LyapK3.V_0_pos", "LyapK3.cert_51_lo", "LyapK3.cert_51_hi", "LyapK3.V_51_pos",
]
THEOREMS_C10 = ["MDOut.resume_any_history", "MDOut.disk_invariant_along_history", "MDOut.resume_eq_uninterrupted", "MDOut.specDisk_inv", "MDOut.segment_inv", "MDOut.segment_complete"]
THEOREMS_C11 = ["MDOut.mem_due", "MDOut.due_zero_cadence", "MDOut.due_sorted", "MDOut.due_length", "MDOut.cap_eq_due_length", "MDOut.cap_eq_generated",
                "MDOut.fresh_stream", "MDOut.uninterrupted_run", "MDOut.uninterrupted_screen", "MDOut.gatedRun_true"]

THEOREMS_C08 = ["C08.vv_exact_forms", "C08.vv_reversible", "C08.vv_reversible_n", "C08.vv_linear_momentum_idx", "C08.vv_linear_momentum", "C08.vv_angular_momentum",
                "C08.vv_harmonic_shadow", "C08.thermo_consistent", "C08.kinetic_nonneg", "C08.temperature_nonneg", "C08.units_consistent", "C08.units_consistent_sensitive"]
THEOREMS_C12 = ["C12.fluctuation_dissipation", "C12.ou_invariant", "C12.ou_invariant_langevin", "C12.variance_contraction", "C12.nve_limit", "C12.nve_limit_tendsto",
                "C12.nve_limit_bound", "C12.zero_temperature_only_removes_energy", "C12.zero_temperature_thermostat", "C12.padding_atoms_stay_at_rest",
                "C12.temperature_of_target_variance", "C12.target_temperature_units", "C12.set_dof_variants"]
THEOREMS_C13 = ["C13.rescale_exact_temperature", "C13.init_velocity_exact_temperature", "C13.zero_temperature_velocities_zero", "C13.linear_momentum_removed",
                "C13.padding_velocity_counterexample", "C13.padding_velocity_witness", "C13.angular_momentum_removed", "C13.linear_kept", "C13.ke_restored",
                "C13.masked_padding_stays_zero", "C13.masked_momentum_removed", "C13.zero_com_spec"]

THEOREMS_C02 = ["C02." + t for t in """rot_orthonormal rot_det_one rot_row0 antipodal_frame_frozen antipodal_row0_iff antipodal_row0_ne antipodal_cone_counterexample antipodal_grad_zero
two_chart_rotation_total two_chart_same_w_on_regular_chart pair_vector_translation_invariant pair_vector_rotation_covariant pppp_transverse_frame_independent pppp_transverse_poly
pppp_poly projD_of_cols pppp_needs_axial_identity w_elem_frame_independent w_rot_depends_on_row0_only net_force_zero_of_pairwise assemble_unpaired_zero net_torque_zero_of_central""".split()]
THEOREMS_C01 = ["C01." + t for t in """energy_expansion hf_stationary hf_stationary_P hf_defect_identity energy_affine_in_integrals elecEnergy_model_eq_trace hFromUpper_symm
core_core_der_is_derivative core_core_der_is_derivative_radial core_core_der_is_derivative_cartesian rotq_grad_is_derivative rotq_grad_is_partial_derivative
hpp_mismatch_iff hpp_preprocessing_consistent_partial hpp_preprocessing_mismatch_witness hpp_preprocessing_consistent_counterexample padding_force_zero padding_grad_zero_assembled net_force_zero""".split()]
THEOREMS_C05 = ["C05." + t for t in """compaction_bijection pairs_concat pairs_no_cross pairs_single_vs_batch pairs_of_molecule batch_is_concat_of_alone nocc_single_vs_batch
padding_independent_close padding_independent_growth maskd_addresses_block maskd_injective maskd_nodup mask_addresses_block mask_injective block_is_atom_pair_submatrix
block_view_roundtrip pack_unpack unpack_pack pack_symmetric unpack_symmetric same_element_relabel same_element_swap forward_is_run""".split()]
THEOREMS_C14 = ["C14." + t for t in """etot_eq_eelec_plus_enuc etot_with_excitation hf_identity eiso_atom_formula gap_is_lumo_minus_homo charges_sum_to_molecular_charge charge_of_atom
dipole_is_charges_plus_hybrid dipole_translation_law dipole_invariant_iff_neutral dipole_charge_eq_sum_of_atomic_charges symmetrizeUpper_symm elec_energy_symmetric_form""".split()]
THEOREMS_C19 = ["C19." + t for t in """finite_cutoff_exact cutoff_in_distance cutoff_strict default_cutoff_drops_nothing bounded_coordinates_are_close monopole_cancellation monopole_sum_neutral
klopman_ohno_bounds klopman_ohno_asymptotic""".split()]

THEOREMS_C03 = ["C03." + t for t in """flag_truthful flag_truthful_forward0 flag_truthful_forward1 flag_truthful_forward2 flag_sticky flag_sticky_returned not_converged_reported
cap_or_all_converged loop_bounded loop_bounded_forward1 stale_dm_error_witness stale_only_when_not_converged converged_implies_fresh unordered_errors_reported_converged
aufbau_density aufbauP_apply occDiag_mul_self occDiag_trace charges_sum charges_sum_aufbau mixing_preserves_symmetry_trace mixing_idempotency_defect
mixing_idempotency_defect_convex mixing_idempotency_defect_bound mixing_commutator_defect sp2_range sp2_monotone sp2_fixed_points sp2_order_preserved sp2_is_aufbau
sp2_degenerate_never_stops sp2_degenerate_never_stops_any_eps sp2_degenerate_hits_cap sp2_padding_stays_empty sp2_capped_terminates sp2_live_bounded
eigenvalue_le_gershgorin padding_shift_gershgorin padding_multiplier_pos max_iter_value max_iter_tied dm_error_factor_value dm_error_factor_tied dm_element_factor_value
dm_element_factor_tied diis_factor_value diis_factor_tied model_literals_tied sp2_eps_tied sp2_max_iter_value sp2_max_iter_tied padding_shift_constants""".split()]
THEOREMS_C04 = ["C04." + t for t in """mixing_fixed_points mixing_alpha_one_all_fixed adaptive_mix_identity_at_fixed_point adaptive_mix_small_trace_counterexample diis_affine
diis_coefficients_sum_one uhf_singlet_fock_equals_rhf uhf_singlet_one_center_terms same_stopping_rule passed_mono""".split()]

THEOREMS_C06 = ["C06." + t for t in """ko_symmetric ko_positive ko_le_coulomb ko_lt_coulomb ko_one_center_limit ko_eq ri_ss_ss_is_ko ri_eq_multipole_sums riHH_eq_riSpec
ri21_axial_identity ri21_closed specQxyQxy_closed ri21_ne_square_quadrupole_counterexample riXH_eq_multipole_sums riXH_eq_riHH_prefix riHyd_eq
K_ind_4_is_tril_index K_ind_4_symmetric K_ind_4_range WEIGHT_10_spec TRIL_IDX_4_row_major TRIL_IDX_4_onto K_ind_4_inverts_TRIL table_shapes eri_bra_ket_symmetry eri_pair_symmetry
two_center_G_linear G_linear two_center_eq_textbook two_center_G_symmetric G_self_adjoint one_center_factors_published one_center_entries oneCenterERI_symmetry oneCenterERI_values
rho_residual_characterisation dipole_self_interaction quadrupole_self_interaction hspOfD_of_rho hppOfQ_of_rho rho1_residual_strictAnti rho1_unique rho2_residual_strictAnti rho2_unique""".split()] + \
    [f"C06.ri_eq_spec_{k}" for k in range(22)]

THEOREMS_C07 = ["C07." + t for t in """implicit_adjoint picard_fixed_point_is_adjoint adjoint_solution_exists adjoint_solution_unique picard_error_step picardIter_zero_eq_neumann picard_converges
root_implicit_derivative h1_hasDerivAt_curve h2_hasDerivAt_curve dh1dρ_neg rho_backward_true_correct rho1_backward_true_correct_branch rho2_backward_true_correct_branch
rho1_code_times_true rho2_code_times_true rho_backward_code_is_reciprocal_counterexample residual_forms_agree residual_forms_agree2 ParamPack.param_identity_preserved_iff_no_copy""".split()]
THEOREMS_C15 = ["C15." + t for t in """nested_histories_noninterfering nested_after_any_prefix nested_prefix_characterisation interleaving_leak_counterexample fixed_model_noninterfering nested_imp_preceded""".split()]
THEOREMS_C16 = ["C16." + t for t in """ritz_residual_bound rayleigh_upper_bound ritz_value_ge_of_spectrum_ge residual_two_norm_le davidson_terminates returned_residuals_partial
empty_expansion_exit_witness rpa_le_cis_2x2""".split()]
THEOREMS_C18 = ["C18." + t for t in """accepts_implies_wellformed_partial missing_nocc_guard_counterexample wellformed_implies_acceptsPreFix overcharged_rhf_accepted accepts_iff_wellformed_of_mult_pos
wellformed_implies_accepts nonpositive_multiplicity_accepted_counterexample acceptsFixed_iff_wellformed guards_fire_before_results illformed_yields_no_result firstError_error_iff
rowSorted_iff tda_alias_rejected_on_heterogeneous_witness""".split()]
THEOREMS_C17 = ["C17." + t for t in """hop_prob_bounds hop_prob_sum_eq_one_of_normalised hop_prob_active_zero chooseHop_target_has_positive_probability chooseHop_zero_draw_counterexample
rescale_fixed_conserves_energy rescale_conserves_energy rescale_sign_zero_defect rescale_sign_zero_counterexample frustrated_hop_untouched accepted_iff flow_conserves_norm
rk4_two_state_norm_defect rk4_two_state_norm_defect_propagate relabel_is_permutation_iff_bijective relabel_perm_of_bijective relabel_is_permutation_iff_involution
relabel_three_cycle_counterexample rowwise_isolation isolation_up_to_nsub nsub_batch_global_counterexample nsub_changes_other_trajectory""".split()]
THEOREMS_C20 = ["C20." + t for t in """firstWithin_spec run_spec sd_eval_count sd_returns_last_evaluated sd_message_rule sd_converged_message_sound sd_converged_at_cap_reports_not_converged
sd_max_evl_zero sd_full_control_flow sd_coordinates_one_update_past descent_lemma descent_step_decreases padding_never_moves coordinate_fixed_iff_force_zero padding_never_moves_batch
update_uses_own_force_only path_independent_of_batch_mates path_length_is_batch_global""".split()]

THEOREMS_C03 += ["Census.all_while_loops_capped", "Census.sp2_loop_in_census"]
THEOREMS_C18 += ["Census.documented_guards_present", "Census.documented_guard_conditions"]
THEOREMS_C15 += ["Census.process_state_is_audited", "Census.scf_registers_in_census"]

THEOREMS_C06B = ["C06b." + t for t in """aintgs_recurrence aintgs_closed_form bintgs_recurrence bintgs_at_zero bintgs_series_is_truncated_maclaurin bintgs_parity exact_B_relation
bintgs_recursion_satisfies_relation bintgs_zero_satisfies_relation bintgs_series_violates_exact_recurrence overlap_1s1s_equal_zeta overlap_22_equal_zeta overlap_33_equal_zeta
poly11ss_spec poly21ss_spec poly21ps_spec poly22ss_spec poly22ps_spec poly22sp_spec poly22sig_spec poly22pi_spec poly31ss_spec poly31ps_spec poly32ss_spec poly32ps_spec poly32sp_spec
poly32sig_spec poly32pi_spec poly33ss_spec poly33ps_spec poly33sp_spec poly33sig_spec poly33pi_spec local_eq_spec_11 local_eq_spec_21 local_eq_spec_22 local_eq_spec_31 local_eq_spec_32
local_eq_spec_33 local_swap_11 local_swap_22 local_swap_33""".split()]

# --- second round of Lean work -------------------------------------------------------------------------------------------------------
THEOREMS_C02B = ["C02b." + t for t in """combos_get wRot_getD wRot_length W4_symm_left W4_symm_right W4_eq_idx frameD_eq_transverse W4idx_covariant w4_covariant_nested w4_covariant
w_block_covariant w_block_covariant_code w_block_covariant_two_chart coulomb_matrix_covariant two_center_coulomb_energy_invariant core_electron_attraction_covariant
R345_orthogonal Rz90_orthogonal Mxy_orthogonal riEx_axial w_block_not_invariant w_block_covariant_needs_axial_identity""".split()] + \
    ["Covariance." + t for t in "cov_f1 cov_f2 cov_f3 cov_f4 cov_transverse coulombJ_covariant coulomb_energy_invariant orbRot_mem_orthogonalGroup".split()]
THEOREMS_C10B = ["MDState." + t for t in """ckptComplete_of_left_inverse erase_agrees_with_MDOut state_at_write state_at_write_resumed values_are_state_at_label values_are_state_at_label_fresh
uninterrupted_run_values resume_any_history_values resume_eq_uninterrupted_values same_snapshot writes_of_one_step_read_one_state thermo_of_written_phase
incomplete_checkpoint_breaks_resume na_fresh_stream na_resume_stream crash_keeps_na_consistent disk_invariant_along_history_with_na resume_any_history_with_na
resume_eq_uninterrupted_with_na with_na_base_is_MDOut erase_agrees_with_Proc5 values_are_state_at_label_na naAt_eq_obs resume_any_history_values_with_na
resume_eq_uninterrupted_values_with_na na_double_offset_invisible_without_resume na_double_offset_counterexample""".split()]
# the value-level statements that belong to C11 (stored values are those of the labelled step) and C08 (thermo row is that of the stored phase point)
THEOREMS_C11B = ["MDState." + t for t in "values_are_state_at_label_fresh uninterrupted_run_values same_snapshot na_fresh_stream values_are_state_at_label_na".split()]
THEOREMS_C08B = ["MDState." + t for t in "thermo_of_written_phase writes_of_one_step_read_one_state".split()]
THEOREMS_C08C = ["C08b." + t for t in """shadowE_explicit shadowE_matrix_form shadowE_one_dim vv_harmonic_shadow_nd vv_harmonic_shadow_nd_iterate vv_energy_error_bounded_no_drift
vv_energy_error_uniform_bound vv_energy_error_uniform_bound_trace vv_matches_exact_flow_to_second_order_nd vv_symplectic_nd vv_harmonic_step_1d vv_symplectic_1d
vv_matches_exact_flow_to_second_order exact_flow_solves vv_second_order_local_error_harmonic ex_hL""".split()]
THEOREMS_C05B = ["C05b." + t for t in """get_error_rowwise rowWise_of_pointwise pointwise_of_rowWise row_independence_two_batches row_independence_forward0 row_independence_forward12_of_rowWise
batch_is_concat_of_alone_forward0 batch_permutation_equivariance_forward0 adaptive_mix_row_independence_partial row_independence_forward1_partial row_independence_forward2_partial
pulay_same_fixed_points sp2_batch_rowwise sp2_batch_permutation adaptive_mix_batch_coupling_witness adaptive_mix_batch_small_trace_witness adaptive_mix_small_trace_oracle_realised
pulay_batch_coupling_witness row_independence_needs_rowwise""".split()]
THEOREMS_C17B = ["C17b." + t for t in """detectAlone_eq_detectOne crossing_isolation crossing_isolation_between_batches crossing_rows_are_involutions crossing_rows_not_involution_witness
row_eq_hop_buildSwap wrong_index_map_witness wrong_index_map_invisible_without_holdoff wrong_index_map_invisible_no_history none_iff none_iff_explicit""".split()]
THEOREMS_C09C = ["C09c." + t for t in "histTerm_sum propagate_sum propagateKSA_sum aux_invariant_step aux_invariant_step_ksa aux_invariant_ksa_defect".split()]
THEOREMS_C16B = ["C16b." + t for t in """rpa_product_selfadjoint rpa_eigenvalues_positive rpa_eigenvalues_real_pos rpa_of_cis_when_B_zero rpa_reduces_to_cis_when_B_zero rpa_pair_structure
rpa_pair_common_flip rpa_norm_blind_to_X_flip flip_X_only_breaks_solution flip_X_only_stable rpa_pair_norm_pos exists_min_eigenpair card_le_card_eigenvalues_le sqrtMat_isSymm sqrtMat_mul_self
symProd_eig_to_rpa rpa_eig_to_symProd symProd_charpoly symProd_eigenvalue_isRPAEig symProd_eigenvalues_pos rpa_lowest_variational rpa_lowest_le_cis_lowest rpa_count_ge_cis_count
rpa_le_cis_all_roots rpa_code_amplitudes ex_sum_posDef ex_diff_posDef""".split()]
THEOREMS_C19B = ["C19b." + t for t in """pairG_dropped oneCentreG_decoupled fock_blockdiag energy_additive_blockdiag energy_additive_any_density total_energy_additive commutator_blockdiag
stationary_of_fragments fragments_of_stationary aufbau_rayleigh aufbau_unique_of_gap aufbauP_fromBlocks aufbauData_fromBlocks aufbau_of_fragments aufbau_of_fragments_fermi alignment_of_aufbau
aufbau_iff_aligned aufbau_needs_level_alignment forces_decouple""".split()]
THEOREMS_C06B += ["C06b." + t for t in "bintgs_series_branch bintgs_at_zero_is_integral bintgs_near_zero bintgs_series_relation_defect bintgs_series_relation_iff bintgs_series_hasDerivAt bintgs_odd_slope_at_zero bintgsOld_eq_outside_window old_branch_dropped_slope".split()]
THEOREMS_RESUMETIE = ["ResumeTie." + t for t in "iData_is_model_cursor iVec_eq_iData iTdm_eq_iData iNa_is_model_cursor xlSlot_is_restoreIndex".split()]
THEOREMS_BASISTIE = ["BasisTie." + t for t in "all_sites_count_the_basis classes_partition_sp classes_partition_d padding_in_no_class basis_of_species_sp basis_of_species_d d_class_vs_table".split()]
THEOREMS_STEPTIE = ["StepTie." + t for t in "basic_is_vvStep langevin_is_wrapped_vvStep xl_is_vvStep_on_propagated_aux xl_damped_is_wrapped xl_cavity_force_is_added esmd_is_xl_without_cavity langevin_is_langevinStep".split()]
THEOREMS_SCALARTIE = ["ScalarTie." + t for t in "rescaleAlpha_is_model applyAlpha_is_model applyAlpha1_form langevinC1_is_model langevinC2_is_model".split()]
THEOREMS_THERMOTIE = ["ThermoTie." + t for t in "kineticEnergy_is_model temperature_is_model setDofBasic_is_model setDofLangevin_is_model setDofXL_is_model mbScale_is_model rescale_is_model".split()]
THEOREMS_CORECORETIE = ["CoreCoreTie." + t for t in "enucMNDO_is_model enucAM1PM3_is_model derMNDO_is_model derAM1PM3_is_model gaussSummand_is_model gaussDerSummand_is_model xh_masks_agree xh_mask_spec".split()]
THEOREMS_OBSTIE = ["ObsTie." + t for t in "totalEnergy_is_model heatFormation_is_model eisoAtom_is_model elecEnergy_is_model eelecSummandU_form eelecFactorU_eq".split()]
THEOREMS_SDTIE = ["SDTie." + t for t in "onestep_order loop_order returned_pair update_is_model continue_is_model capHit_is_model".split()]
THEOREMS_ROTTIE = ["RotTie." + t for t in "rotForward_is_model eps64_is_model".split()]
THEOREMS_ROOTTIE = ["RootTie." + t for t in "rho1Backward_is_model rho2Backward_is_model rho1Step_is_model rho2Step_is_model trips rho1Forward_is_model rho2Forward_is_model".split()]
THEOREMS_C04B = ["C04b." + t for t in "mix_sub_self norm_mix_sub_self mix_lipschitz residual_bound fixed_point_unique mix_fixedPoint_eq stopped_mixing_bound two_solvers_agree tighter_is_closer".split()]
THEOREMS_C16C = ["C16c." + t for t in "ritz_exact_of_invariant zero_residuals_miss_a_lower_root".split()]
THEOREMS_CONSTTIE = ["ConstTie." + t for t in "overlap_cutoff_beyond_c06_range overlap_cutoff_inside_c19_probe_range".split()]
THEOREMS_C11TDM = ["MDOut." + t for t in "tdmDue_succ tdmDue_length_le tdmRun_capacity tdmRun_labels tdm_stream tdm_eq_spec_iff tdm_exact_of_dvd tdm_data_off tdm_filler_count tdm_resume_cursor_exact gateTdm_is_isDue".split()]
THEOREMS_GATESTIE = ["GatesTie." + t for t in "gateData_is_isDue gateCkpt_is_isDue gateVec_is_isDue gateXyz_is_isDue gateScreen_is_isDue gateNa_is_isDue naLabel_is_step".split()]
THEOREMS_C05C = ["C05c." + t for t in "same_all_eq packBatch_rowwise packBatch_row_independent coarse_shortcut_witness coarse_first_row_ok".split()]
THEOREMS_C17C = ["C17c." + t for t in "gap_depends_on_own_row gaps_fst position_gather_witness position_gather_invisible_on_prefix".split()]
THEOREMS_C03C = ["C03c.getError_accepts_imp_ksa_accepts", "C03c.ksa_accepts_unconverged_density"]
THEOREMS_C01B = ["C01b." + t for t in """dispersion_derivative_unsaturated dispersion_derivative_saturated_one dispersion_derivative_saturated_zero dispersion_derivative_saturated dispersion_derivative_off_clip
dispersion_derivative_angstrom dispersion_force_cartesian clip_jump_sizes clip_jump_le_1em12 clip_error_uniform clip_energy_error fDamp_not_continuousAt_upper_clip ePair_not_differentiableAt_upper_clip
unit_slip_difference unit_slip_invisible_saturated unit_slip_witness unit_slip_not_derivative""".split()]
