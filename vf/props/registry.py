"""Theorem registry: property id -> fully qualified theorem names audited with #print axioms.
(kept in one file so that the lists can be filled as the Lean modules land)"""
THEOREMS_C14 = []

THEOREMS_C09 = [
    "C09.buffer_refines_history", "C09.buffer_refines_history_ksa", "C09.buffer_refines_history_executed", "C09.executed_coeff_hyps",
    "C09.restart_restores_newest", "C09.resume_equals_uninterrupted",
    "C09.table_orders", "C09.table_k_range", "C09.coeff_sum_zero", "C09.window_is_rotation", "C09.effective_weights_match",
    "C09.fixed_point_weight_sum", "C09.fixed_point_weight_sum_sharp", "C09.published_scheme", "C09.coeff_matches_init", "C09.weight_sum_exact",
    "C09.fixed_point_step", "C09.fixed_point_step_ksa", "C09.stationary_forever", "C09.stationary_from_any_phase", "C09.stationary_forever_ksa",
    "C09.stationary_forever_general",
    "C09.shadow_energy_consistent", "C09.shadow_energy_consistent_any_F", "C09.shadow_energy_docstring", "C09.shadow_energy_grad_D",
    "C09.chi_is_characteristic", "C09.chi_at_one", "C09.chi_at_minus_one", "C09.root_product", "C09.linear_response",
    "Lyap.concave_quad_nonneg", "Lyap.interval_of_endpoints", "Lyap.cover",
    "C09.k3_stable_on_interval", "C09.k3_stable_on_interval_0", "C09.k3_intervals_cover", "C09.k3_stable", "C09.k3_trajectories_decay",
    "C09.k3_linear_response_converges", "C09.next3_eq_mkTmp", "C09.k3_constants",
    "LyapK3.cert_0_lo", "LyapK3.cert_0_hi", "LyapK3.V_0_pos", "LyapK3.cert_51_lo", "LyapK3.cert_51_hi", "LyapK3.V_51_pos",
]
THEOREMS_C10 = ["MDOut.resume_any_history", "MDOut.disk_invariant_along_history", "MDOut.resume_eq_uninterrupted", "MDOut.specDisk_inv", "MDOut.segment_inv", "MDOut.segment_complete"]
THEOREMS_C11 = ["MDOut.mem_due", "MDOut.due_zero_cadence", "MDOut.due_sorted", "MDOut.due_length", "MDOut.cap_eq_due_length", "MDOut.cap_eq_generated",
                "MDOut.fresh_stream", "MDOut.uninterrupted_run", "MDOut.uninterrupted_screen", "MDOut.gatedRun_true"]

THEOREMS_C08 = ["C08.vv_exact_forms", "C08.vv_reversible", "C08.vv_reversible_n", "C08.vv_linear_momentum_idx", "C08.vv_linear_momentum", "C08.vv_angular_momentum",
                "C08.vv_harmonic_shadow", "C08.thermo_consistent", "C08.kinetic_nonneg", "C08.temperature_nonneg", "C08.units_consistent", "C08.units_consistent_sensitive"]
THEOREMS_C12 = ["C12.fluctuation_dissipation", "C12.ou_invariant", "C12.ou_invariant_langevin", "C12.variance_contraction", "C12.nve_limit", "C12.nve_limit_tendsto",
                "C12.nve_limit_bound", "C12.zero_temperature_only_removes_energy", "C12.zero_temperature_thermostat", "C12.padding_atoms_stay_at_rest",
                "C12.temperature_of_target_variance", "C12.target_temperature_units", "C12.set_dof_variants"]
THEOREMS_C13 = ["C13.rescale_exact_temperature", "C13.init_velocity_exact_temperature", "C13.zero_temperature_velocities_zero", "C13.linear_momentum_removed",
                "C13.padding_velocity_counterexample", "C13.padding_velocity_witness", "C13.angular_momentum_removed", "C13.linear_kept", "C13.ke_restored",
                "C13.masked_padding_stays_zero", "C13.masked_momentum_removed", "C13.zero_com_spec"]
