"""C08 - NVE dynamics is a second-order, time-reversible, momentum-conserving integrator."""
from __future__ import annotations

import contextlib
import io
import os
import shutil
from typing import Any, Dict, List

import numpy as np

from .. import esh, leanproj, mdh
from ..core import Ctx, b2f, f2b

MODULE = "PyseqmVerif.Properties.C08"
try:
    from .registry import THEOREMS_C08 as THEOREMS  # type: ignore
except Exception:  # pragma: no cover
    THEOREMS = []

META = {
    "technique": "Lean 4 proof over the scalar-polymorphic model of one_step (exact update forms, reversibility by induction, linear/angular momentum conservation, harmonic shadow invariant, unit-constant identities from regenerated constants) + <= 4 ulp step correspondence with recorded real forces + reversal / dt-halving / conservation probes",
    "level_text": "Theorems (any number of atoms, any dt, any force field): x' = x + v dt + a dt^2/2, v' = v + (a+a') dt/2; a step, velocity reversal, a step, reversal returns the initial state exactly (n steps by induction); linear (angular) momentum is conserved when the net force (torque) vanishes; the harmonic shadow energy is conserved exactly (second-order, no drift); ACC_SCALE*KINETIC_ENERGY_SCALE = 1 and VEL_SCALE^2*KES*TS = 1 within 1e-9 for the constants regenerated from the code. Tied to the code by feeding the forces recorded from the real engine through the compiled Float model (positions, velocities, accelerations within 4 ulp; Ek/T within 1e-12) and by reversal, dt-halving, momentum and bookkeeping probes on real trajectories. Round 2 (C08b, C10b): N-dimensional harmonic shadow energy conserved exactly for every symmetric stiffness matrix and step; the energy error equals dt^2/4 (q(x_n) - q(x_0)) for all n (no secular drift) with a uniform bound under the stability condition; local error of one step <= C |w dt|^3 against the exact cos/sin flow; symplecticity; the thermo row written for a step is that of the stored phase point (value-level output model). Translator tie: the phase-space statements of one_step as they stand in the source are the model's vvStep (StepTie.basic_is_vvStep, rfl); kinetic energy summand / reduction axes / factor, temperature and set_dof are the model's (ThermoTie).",
    "level_note": "Trusted: Lean kernel; harness; Float<->Real gap measured by the <=4 ulp correspondence. Partial: global second order for arbitrary smooth forces is standard numerical analysis, validated by the dt-halving ratio, not proved. Known finding F2 (angular momentum lost for axis-aligned bonds) is shared with C02.",
    "design_ref": "DESIGN.md section 5 C08",
}


def _md(names, dt, temp, seed, stub, steps, velocities=None, coords=None, remove_com=None, sp_over=None, engine="basic", k=4, record=False, molid=None, reuse_P=True):
    """run the REAL integrator in-process; returns per-step phase space (from HDF5) + thermo"""
    import torch

    import seqm.MolecularDynamics as MD
    from seqm.Molecule import Molecule
    from seqm.seqm_functions.constants import Constants

    d = mdh.scratch_dir("c08")
    old = MD.esdriver
    try:
        if stub:
            MD.esdriver = mdh.StubEngine
        s, x, ch, mu = esh.batch(names)
        if coords is not None:
            x = np.array(coords, dtype=float)
        sp = dict(method="AM1", scf_eps=1e-10, scf_converger=[1], sp2=[False])
        sp.update(sp_over or {})
        out = {"molid": list(molid) if molid is not None else list(range(len(names))), "prefix": os.path.join(d, "md"), "print every": 0, "checkpoint every": 0, "xyz": 0,
               "h5": {"data": 1, "coordinates": 1, "velocities": 1, "forces": 1}}
        mol = Molecule(Constants(), sp, torch.as_tensor(x), torch.as_tensor(s))
        if velocities is not None:
            mol.velocities = torch.as_tensor(np.array(velocities, dtype=float))
        if engine == "basic":
            md = MD.Molecular_Dynamics_Basic(seqm_parameters=sp, timestep=dt, Temp=temp, output=out)
        elif engine == "xl":
            md = MD.XL_BOMD(xl_bomd_params={"k": k}, seqm_parameters=sp, timestep=dt, Temp=temp, output=out)
        rec = []
        if record:
            orig = md.one_step

            def w(molecule, *a, **kw):
                pre = (molecule.coordinates.detach().clone(), molecule.velocities.detach().clone(), molecule.acc.detach().clone())
                r = orig(molecule, *a, **kw)
                rec.append((pre, molecule.force.detach().clone(), (molecule.coordinates.detach().clone(), molecule.velocities.detach().clone(), molecule.acc.detach().clone())))
                return r
            md.one_step = w
        with contextlib.redirect_stdout(io.StringIO()):
            md.run(mol, steps, seed=seed, remove_com=remove_com, reuse_P=reuse_P)
        res = {"mass": mol.mass.detach().numpy()[..., 0].copy(), "minv": mol.mass_inverse.detach().numpy()[..., 0].copy(), "species": s, "rec": rec, "mols": {}}
        for m in (list(molid) if molid is not None else range(len(names))):
            o = mdh.read_h5(os.path.join(d, f"md.{m}.h5"))
            res["mols"][m] = {g: o[g]["values"] for g in mdh.H5_STREAMS}
        res["final"] = (mol.coordinates.detach().numpy().copy(), mol.velocities.detach().numpy().copy())
        res["ndof"] = float(np.asarray(md.n_dof).reshape(-1)[0]) if md.n_dof is not None else None
        res["ndof_all"] = np.asarray(md.n_dof, dtype=float).reshape(-1).tolist() if md.n_dof is not None else None
        return res
    finally:
        MD.esdriver = old
        shutil.rmtree(d, ignore_errors=True)


def probe_conservation(inp: Dict[str, Any]) -> Dict[str, Any]:
    """linear/angular momentum to round-off; thermo rows = function of the stored vectors of the same step"""
    import seqm.MolecularDynamics as MD

    r = _md(inp["names"], inp["dt"], inp.get("temp", 300.0), inp.get("seed", 1), inp.get("stub", False), inp["steps"], sp_over=dict({"method": inp.get("method", "AM1")}, **(inp.get("sp_over") or {})), molid=inp.get("molid"),
            remove_com=tuple(inp["remove_com"]) if inp.get("remove_com") else None, reuse_P=inp.get("reuse_P", True))
    bad = []
    kinds = set()
    C = MD.CONSTANTS
    for m, nm in enumerate(inp["names"]):
        if inp.get("molid") is not None and m not in inp["molid"]:
            continue
        nat = len(esh.GEOMS[nm][0])
        mass = r["mass"][m][:nat]
        X, V = r["mols"][m]["coordinates"], r["mols"][m]["velocities"]
        P = (mass[None, :, None] * V).sum(1)
        L = (mass[None, :, None] * np.cross(X, V)).sum(1)
        scale = float(np.abs(mass[None, :, None] * V).max()) + 1e-30
        if np.abs(P - P[0]).max() > 1e-11 * scale * nat:
            bad.append(f"mol{m}: linear momentum drifts by {np.abs(P - P[0]).max():.2e}"); kinds.add("linear")
        lscale = float(np.abs(mass[None, :, None] * np.cross(X, V)).max()) + 1e-30
        # (forces on an excited surface are torque free only to the accuracy of the iterative excited-state solver)
        if np.abs(L - L[0]).max() > inp.get("tol_L", 2e-7 if (inp.get("sp_over") or {}).get("excited_states") else 2e-9) * max(1.0, lscale):
            bad.append(f"mol{m}: angular momentum drifts by {np.abs(L - L[0]).max():.2e}"); kinds.add("angular")
        data = r["mols"][m]["data"]  # T, Ek, Ep, dipole
        Ek = (0.5 * mass[None, :, None] * V ** 2).sum((1, 2)) * C.KINETIC_ENERGY_SCALE
        if np.abs(Ek - data[:, 1]).max() > 1e-12 * max(1.0, np.abs(Ek).max()):
            bad.append(f"mol{m}: stored Ek is not the kinetic energy of the stored velocities of the same step ({np.abs(Ek - data[:, 1]).max():.2e})"); kinds.add("bookkeeping")
        # degrees of freedom in force for this run (3N, minus 3 or 6 when centre-of-mass motion is removed)
        T = Ek * C.TEMPERATURE_SCALE / (0.5 * ((r["ndof_all"][m] if len(r["ndof_all"]) > m else r["ndof_all"][0]) if r.get("ndof_all") and inp.get("remove_com") else 3 * nat))
        if np.abs(T - data[:, 0]).max() > 1e-10 * max(1.0, np.abs(T).max()):
            bad.append(f"mol{m}: stored T inconsistent with stored velocities ({np.abs(T - data[:, 0]).max():.2e})"); kinds.add("bookkeeping")
        if not inp.get("stub", False) and not inp.get("sp_over"):
            # potential energy row = energy of the stored coordinates: recompute two rows with the real engine
            for row in (0, len(X) - 1):
                e = esh.run(np.array([esh.GEOMS[nm][0]]), np.array([X[row]]), esh.settings(method=inp.get("method", "AM1"), eps=1e-10))["Etot"][0]
                if abs(e - data[row, 2]) > 1e-6:
                    bad.append(f"mol{m}: stored Ep of step {row} differs from the energy of the stored coordinates by {abs(e - data[row, 2]):.2e}"); kinds.add("bookkeeping")
    return {"ok": not bad, "observed": bad[:6], "expected": "momenta conserved to round-off; thermo rows consistent with stored vectors", "predicate": "sum m v, sum m x cross v constant; Ek,T,Ep recomputed",
            "fields": {"kinds": sorted(kinds), "stub": inp.get("stub", False)}}


def probe_reversal(inp: Dict[str, Any]) -> Dict[str, Any]:
    n = inp["steps"]
    a = _md(inp["names"], inp["dt"], inp.get("temp", 300.0), inp.get("seed", 1), inp.get("stub", True), n)
    x1, v1 = a["final"]
    b = _md(inp["names"], inp["dt"], 0.0, 1, inp.get("stub", True), n, velocities=-v1, coords=x1)
    x2, v2 = b["final"]
    x0 = np.stack([a["mols"][m]["coordinates"][0] for m in range(len(inp["names"]))]) if len(inp["names"]) == 1 else None
    bad = []
    if x0 is not None:
        nat = x0.shape[1]
        dx = float(np.abs(x2[0][:nat] - x0[0]).max())
        v0 = a["mols"][0]["velocities"][0]
        dv = float(np.abs(-v2[0][:nat] - v0).max())
        tol = inp.get("tol", 1e-9)
        if dx > tol:
            bad.append(f"reversed run misses the start by {dx:.2e} A")
        if dv > tol:
            bad.append(f"reversed run misses the initial velocities by {dv:.2e}")
    return {"ok": not bad, "observed": bad, "expected": "retraces its trajectory when velocities are reversed", "predicate": "run n, v -> -v, run n == start",
            "fields": {"kinds": ["reversal"] if bad else [], "stub": inp.get("stub", True)}}


def probe_order(inp: Dict[str, Any]) -> Dict[str, Any]:
    """dt -> dt/2: trajectory error and energy fluctuation both drop by ~4"""
    names, T = inp["names"], inp["time"]
    runs = {}
    for dt in (inp["dt"], inp["dt"] / 2, inp["dt"] / 4, inp["dt"] / 16):
        n = int(round(T / dt))
        runs[dt] = _md(names, dt, inp.get("temp", 400.0), inp.get("seed", 2), inp.get("stub", True), n)
    ref = runs[inp["dt"] / 16]["final"][0]
    e1 = float(np.abs(runs[inp["dt"]]["final"][0] - ref).max())
    e2 = float(np.abs(runs[inp["dt"] / 2]["final"][0] - ref).max())
    e3 = float(np.abs(runs[inp["dt"] / 4]["final"][0] - ref).max())
    bad = []

    def fluct(r):
        d = r["mols"][0]["data"]
        e = d[:, 1] + d[:, 2]
        return float(e.max() - e.min()), float(abs(e[-1] - e[0]))
    f1, d1 = fluct(runs[inp["dt"]])
    f2, d2 = fluct(runs[inp["dt"] / 2])
    r12 = e1 / max(e2, 1e-300)
    r23 = e2 / max(e3, 1e-300)
    if not (3.0 < r12 < 5.5) or not (3.0 < r23 < 6.0):
        bad.append(f"trajectory error ratios for dt halving are {r12:.2f}, {r23:.2f} (second order needs ~4)")
    rf = f1 / max(f2, 1e-300)
    if not (2.8 < rf < 5.5):
        bad.append(f"energy fluctuation ratio for dt halving is {rf:.2f} (needs ~4)")
    return {"ok": not bad, "observed": bad or [f"ratios {r12:.2f} {r23:.2f} fluct {rf:.2f}"], "expected": "error ~ dt^2", "predicate": "Richardson ratios in (3, 5.5)",
            "fields": {"kinds": ["order"] if bad else [], "stub": inp.get("stub", True)}}


def probe_energy_work(inp: Dict[str, Any]) -> Dict[str, Any]:
    """the stored potential energy changes by minus the work of the stored forces along the stored displacements (trapezoid rule, error ~ dt^2 over a
    fixed time): holds iff the forces that move the atoms are the gradient of the energy that is written, whatever optional terms are switched on"""
    names, T = inp["names"], inp["time"]
    out = {}
    for dt in (inp["dt"], inp["dt"] / 2):
        n = int(round(T / dt))
        r = _md(names, dt, inp.get("temp", 600.0), inp.get("seed", 2), False, n, sp_over=inp.get("sp_over"), coords=inp.get("coords"), velocities=inp.get("velocities"))
        D = 0.0
        for m, nm in enumerate(names):
            X, F, Ep = r["mols"][m]["coordinates"], r["mols"][m]["forces"], r["mols"][m]["data"][:, 2]
            for i in range(len(X) - 1):
                D += (Ep[i + 1] - Ep[i]) + 0.5 * float(((F[i] + F[i + 1]) * (X[i + 1] - X[i])).sum())
        out[dt] = D
    d1, d2 = abs(out[inp["dt"]]), abs(out[inp["dt"] / 2])
    bad = []
    if d1 > 1e-8 and not (d1 / max(d2, 1e-300) > 2.5):
        bad.append(f"potential-energy change and work of the stored forces disagree by {d1:.3e} eV at dt={inp['dt']} and {d2:.3e} eV at dt/2 (consistent forces: ratio ~4, found {d1 / max(d2, 1e-300):.2f})")
    return {"ok": not bad, "observed": bad or [f"work defect {d1:.2e} -> {d2:.2e}"], "expected": "dEp = -work of the stored forces up to O(dt^2)", "predicate": "defect(dt)/defect(dt/2) > 2.5 or defect < 1e-8 eV",
            "fields": {"kinds": ["energy_work"] if bad else [], "options": sorted((inp.get("sp_over") or {}).keys())}}


def probe_driver_reuse(inp: Dict[str, Any]) -> Dict[str, Any]:
    """one MD driver object used for a second system of the same padded shape (different species per slot): the second trajectory must be
    the one a fresh driver produces, and must conserve momentum"""
    import torch

    import seqm.MolecularDynamics as MD
    from seqm.Molecule import Molecule
    from seqm.seqm_functions.constants import Constants

    d = mdh.scratch_dir("c08reuse")
    old = MD.esdriver
    try:
        if inp.get("stub", True):
            MD.esdriver = mdh.StubEngine
        sp = dict(method="AM1", scf_eps=1e-10, scf_converger=[1], sp2=[False])

        def system(names):
            s, x, ch, mu = esh.batch(names)
            return Molecule(Constants(), sp, torch.as_tensor(x), torch.as_tensor(s)), s

        def driver(tag):
            out = {"molid": [0, 1], "prefix": os.path.join(d, tag), "print every": 0, "checkpoint every": 0, "xyz": 0, "h5": {"data": 1, "velocities": 1, "coordinates": 1}}
            return MD.Molecular_Dynamics_Basic(seqm_parameters=sp, timestep=inp["dt"], Temp=300.0, output=out)
        A, B = inp["first"], inp["second"]
        molA, _ = system(A)     # (the package wants a Molecule before any driver: it fills the element list of the settings)
        md = driver("reused")
        with contextlib.redirect_stdout(io.StringIO()):
            md.run(molA, inp["steps"], seed=5)
            molB, sB = system(B)
            md.run(molB, inp["steps"], seed=7)
            xr, vr = molB.coordinates.detach().numpy().copy(), molB.velocities.detach().numpy().copy()
            md2 = driver("fresh")
            molB2, _ = system(B)
            md2.run(molB2, inp["steps"], seed=7)
        xf, vf = molB2.coordinates.detach().numpy(), molB2.velocities.detach().numpy()
        bad = []
        dx = float(np.abs(xr - xf).max())
        if dx != 0.0:
            bad.append(f"second system on a re-used driver deviates from a fresh driver by {dx:.3e} A after {inp['steps']} steps")
        mass = molB.mass.detach().numpy()[..., 0]
        P = (mass[..., None] * vr).sum(1)
        if np.abs(P).max() > 1e-10 * (np.abs(mass[..., None] * vr).max() + 1e-30) * vr.shape[1]:
            bad.append(f"second system on a re-used driver has net linear momentum {np.abs(P).max():.3e}")
        return {"ok": not bad, "observed": bad, "expected": "trajectory independent of what the driver ran before; momentum conserved", "predicate": "reused driver == fresh driver (bitwise)",
                "fields": {"kinds": ["driver_reuse"] if bad else [], "stub": inp.get("stub", True)}}
    finally:
        MD.esdriver = old
        shutil.rmtree(d, ignore_errors=True)


PROBES = {"energy_work": probe_energy_work, "conservation": probe_conservation, "reversal": probe_reversal, "order": probe_order, "driver_reuse": probe_driver_reuse}


def corr_step(ctx: Ctx, drv):
    """record real one_step calls (real engine forces) and replay through the Float model"""
    import seqm.MolecularDynamics as MD

    C = MD.CONSTANTS
    for names, stub, dt in ([(["h2o"], False, 0.4), (["h2o", "h2"], True, 0.7), (["ch4"], True, 1.0)] if ctx.thorough else [(["h2o"], False, 0.4), (["h2o", "h2"], True, 0.7)]):
        r = _md(names, dt, 300.0, 5, stub, 4, record=True)
        for (pre, force, post) in r["rec"]:
            x, v, a = (t.numpy().reshape(-1) for t in pre)
            f = force.numpy().reshape(-1)
            minv = np.repeat(r["minv"].reshape(-1), 3)
            n = len(x)
            toks = ["vvstep", f2b(dt), f2b(C.ACC_SCALE), n] + [f2b(t) for t in x] + [f2b(t) for t in v] + [f2b(t) for t in a] + [f2b(t) for t in f] + [f2b(t) for t in minv]
            out = drv.ask(*toks)
            ok = len(out) == 3 * n
            worst = 0.0
            if ok:
                from ..core import ulp_diff
                got = np.array([b2f(t) for t in out])
                want = np.concatenate([t.numpy().reshape(-1) for t in post])
                worst = max(ulp_diff(float(g), float(w_)) for g, w_ in zip(got, want))
                ok = worst <= 4
            ctx.corr_case("one_step(recorded forces)", {"names": names, "dt": dt, "stub": stub, "n": n}, f"max ulp {worst}", "<= 4 ulp", ok, stratum="real" if not stub else "stub")
        # kinetic energy / temperature
        for m, nm in enumerate(names):
            nat = len(esh.GEOMS[nm][0])
            V = r["mols"][m]["velocities"][-1].reshape(-1)
            mass = np.repeat(r["mass"][m][:nat], 3)
            out = drv.ask("kinetic", f2b(C.KINETIC_ENERGY_SCALE), len(V), *[f2b(t) for t in mass], *[f2b(t) for t in V])
            ek = r["mols"][m]["data"][-1, 1]
            ok = len(out) == 1 and abs(b2f(out[0]) - ek) <= 1e-12 * max(1.0, abs(ek))
            ctx.corr_case("_kinetic_energy", {"names": names, "mol": m}, out, ek, ok)
            out = drv.ask("temperature", f2b(float(ek)), f2b(C.TEMPERATURE_SCALE), f2b(3.0 * nat))
            T = r["mols"][m]["data"][-1, 0]
            ok = len(out) == 1 and abs(b2f(out[0]) - T) <= 1e-12 * max(1.0, abs(T))
            ctx.corr_case("_calc_temperature", {"names": names, "mol": m}, out, T, ok)


def gen_cases(ctx: Ctx):
    rng = ctx.rng
    cases = []
    cases.append(("conservation", {"names": ["h2o"], "dt": 0.5, "steps": 8, "stub": False, "seed": int(rng.integers(1, 999))}))
    cases.append(("conservation", {"names": ["h2o", "ch4"], "dt": 0.8, "steps": 25, "stub": True, "seed": int(rng.integers(1, 999))}))
    # centre-of-mass removal modes and strides, density reuse off, excited active surface (real engine)
    extra = [{"names": ["h2o"], "remove_com": ["angular", 2], "reuse_P": True}, {"names": ["nh3", "h2o"], "remove_com": ["linear", 1], "reuse_P": False},
             {"names": ["h2o"], "sp_over": {"excited_states": {"n_states": 2, "method": "cis"}, "active_state": 1}}, {"names": ["ch4"], "remove_com": ["angular", 3], "reuse_P": False}]
    for e_ in (extra if ctx.thorough else [extra[ctx.seed % 2], extra[2]]):
        cases.append(("conservation", dict(e_, dt=float(rng.choice([0.25, 0.5])), steps=6, stub=False, seed=int(rng.integers(1, 999)), method=str(rng.choice(["AM1", "PM3"])))))
    # output restricted to a SUBSET of the batch (molid not [0..n-1]): the written thermo rows must still be those of the written molecule (real engine)
    cases.append(("conservation", {"names": [["ch4", "ch2o"], ["h2o", "h2", "nh3"]][ctx.seed % 2], "molid": [[1], [2, 0]][ctx.seed % 2], "dt": 0.5, "steps": 3, "stub": False, "seed": int(rng.integers(1, 999)),
                                   "method": str(rng.choice(["AM1", "PM3"]))}))
    cases.append(("reversal", {"names": ["h2o"], "dt": 0.5, "steps": 30, "stub": True, "seed": int(rng.integers(1, 999))}))
    cases.append(("reversal", {"names": ["h2"], "dt": 0.3, "steps": 6, "stub": False, "seed": 3, "tol": 1e-8}))
    # forces that move the atoms = gradient of the energy that is written, with the optional Hamiltonian terms on (pair corrections act between the two methanes)
    cases.append(("energy_work", {"names": ["ch4_dimer"], "dt": 0.5, "time": 3.0, "seed": int(rng.integers(1, 999)), "sp_over": {"dispersion": True}}))
    cases.append(("energy_work", {"names": [str(rng.choice(["h2o", "nh3", "ch2o"]))], "dt": 0.4, "time": 2.4, "seed": int(rng.integers(1, 999)), "sp_over": {"method": str(rng.choice(["AM1", "PM3", "MNDO", "PM6_SP"]))}}))
    # excited active surfaces beyond the first: the energy written must be the one whose gradient moves the atoms
    cases.append(("energy_work", {"names": [str(rng.choice(["ch2o", "h2o"]))], "dt": 0.4, "time": 2.4, "seed": int(rng.integers(1, 999)), "temp": 300.0,
                                  "sp_over": {"method": str(rng.choice(["AM1", "PM3"])), "excited_states": {"n_states": 3, "method": "cis", "tolerance": 1e-8}, "active_state": int(rng.choice([2, 3]))}}))
    # the hand-written force evaluators drive the dynamics too: a molecule with an N-X pair (its own core-core derivative mask), and a non-bonded contact that
    # crosses the switching distance of the dispersion damping during the run (two H2 approaching each other head-on)
    v0 = 0.016
    extra_w = [{"names": ["hcn"], "dt": 0.4, "time": 2.4, "temp": 300.0, "sp_over": {"method": str(rng.choice(["AM1", "PM3", "MNDO"])), "analytical_gradient": [[True], [True, "numerical"]][ctx.seed % 2]}},
               {"names": ["h2_pair"], "dt": 0.1, "time": 5.0, "temp": 0.0, "velocities": [[[v0, 0, 0], [v0, 0, 0], [-v0, 0, 0], [-v0, 0, 0]]],
                "sp_over": {"method": "AM1", "dispersion": True, "analytical_gradient": [[True], [True, "numerical"]][(ctx.seed + 1) % 2]}}]
    for e_ in extra_w:
        cases.append(("energy_work", dict(e_, seed=int(rng.integers(1, 999)))))
    # s,p,d basis: momenta of an isolated molecule (the d-orbital rotation matrices must be orthogonal for the torque to vanish)
    cases.append(("conservation", {"names": ["h2s"], "method": "PM6", "dt": 0.2, "steps": 8, "stub": False, "seed": int(rng.integers(1, 999)), "tol_L": 2e-8}))
    cases.append(("order", {"names": ["h2o"], "dt": 0.4, "time": 6.4, "stub": True, "seed": int(rng.integers(1, 999))}))
    cases.append(("driver_reuse", {"first": ["ch4", "h2o"], "second": ["h2o", "ch4"], "dt": 0.5, "steps": 8, "stub": True}))
    if ctx.thorough:
        cases.append(("driver_reuse", {"first": ["nh3", "h2"], "second": ["h2", "nh3"], "dt": 0.4, "steps": 4, "stub": False}))
        cases.append(("order", {"names": ["h2"], "dt": 0.4, "time": 3.2, "stub": False, "seed": 4}))
        cases.append(("conservation", {"names": ["nh3"], "dt": 0.3, "steps": 10, "stub": False, "seed": 9, "method": "PM3"}))
        cases.append(("conservation", {"names": ["ch2o", "h2"], "dt": 0.25, "steps": 8, "stub": False, "seed": 11, "method": "MNDO"}))
        for _ in range(6):
            cases.append(("reversal", {"names": [str(rng.choice(["h2o", "ch4", "nh3"]))], "dt": float(rng.choice([0.1, 0.5, 1.0])), "steps": int(rng.integers(5, 60)), "stub": True, "seed": int(rng.integers(1, 999))}))
            cases.append(("order", {"names": [str(rng.choice(["h2o", "ch4", "nh3"]))], "dt": float(rng.choice([0.2, 0.4])), "time": 6.4, "stub": True, "seed": int(rng.integers(1, 999))}))
    return cases


def _run_case(item):
    return PROBES[item[0]](item[1])


def run(ctx: Ctx):
    from ..translate import gen
    gen.regenerate(ctx, ["Constants", "StepBody", "Thermo"])
    leanproj.check_theorems(ctx, MODULE, THEOREMS)
    from .registry import THEOREMS_STEPTIE
    # translator tie: the statements of one_step as they stand in the source ARE the model's velocity-Verlet step
    leanproj.check_theorems(ctx, "PyseqmVerif.Properties.StepTie", [t for t in THEOREMS_STEPTIE if "basic" in t or "xl_is" in t or "esmd" in t])
    from .registry import THEOREMS_THERMOTIE
    # translator tie: the kinetic energy / temperature written for a step are the model's functions of the stored velocities
    leanproj.check_theorems(ctx, "PyseqmVerif.Properties.ThermoTie", [t for t in THEOREMS_THERMOTIE if "kinetic" in t or "temperature" in t or "setDofBasic" in t])
    from .registry import THEOREMS_C08B
    leanproj.check_theorems(ctx, "PyseqmVerif.Properties.C10b", THEOREMS_C08B)
    from .registry import THEOREMS_C08C
    leanproj.check_theorems(ctx, "PyseqmVerif.Properties.C08b", THEOREMS_C08C)
    drv = leanproj.Driver()
    try:
        try:
            corr_step(ctx, drv)
        except Exception:
            import traceback
            ctx.obligation("correspondence adapters C08 ran", False, traceback.format_exc()[-1500:], kind="harness")
    finally:
        drv.close()
    cases = gen_cases(ctx)
    results = mdh.pmap(_run_case, cases, timeout=1800)
    for (name, c), r in zip(cases, results):
        if isinstance(r, Exception) or r is None:
            ctx.obligation(f"probe {name} evaluated", False, repr(r)[-1500:], kind="harness")
            continue
        ctx.probe_case(name, c, r["ok"], fields=r["fields"], observed=r["observed"], expected=r["expected"], predicate=r["predicate"],
                       stratum=("stub" if c.get("stub") else "real"))
