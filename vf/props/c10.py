"""C10 - a run killed at any instant and resumed equals the uninterrupted run."""
from __future__ import annotations

import os
import shutil
from typing import Any, Dict, List

import numpy as np

from .. import leanproj, mdh
from ..core import Ctx
from ..translate import gen
from . import c11

MODULE = "PyseqmVerif.Properties.C10"
from .registry import THEOREMS_C10 as THEOREMS  # noqa: E402

META = {
    "technique": "Lean 4 state-machine invariant over arbitrary crash/resume histories (model MDOut: HDF5 cursors, XYZ buffer, atomic checkpoint cell) + crash-history correspondence with real SIGKILL/exception injection",
    "level_text": "Theorem resume_any_history: for every cadence configuration and every finite sequence of crashes (any step, any point inside the step's output/checkpoint sequence, exception or SIGKILL with arbitrary loss of unflushed data), resuming from the checkpoint and running to completion leaves exactly the files of an uninterrupted run; every intermediate disk satisfies the checkpoint invariant. The model is tied to the code by running the real engines (stub and real force engine) in child processes with crashes injected at the same points and diffing every HDF5 dataset label, XYZ frame and checkpoint step against the compiled model, segment by segment. Round 2 (C10b): value-level refinement - every written row holds the observation of the state at its label and the final files (values included) equal those of the uninterrupted run for every crash history, under the explicit hypothesis CkptComplete (load(save s) = s on reachable checkpoint states), whose audit against the real checkpoint code found F23-F25; a fifth (nonadiabatic) stream written inside the integrator step is covered; an incomplete checkpoint is proved to break resume.",
    "level_note": "Trusted: Lean kernel; harness (fork, SIGKILL, h5py/torch.load readers). Assumed, as explicit model structure: os.replace is atomic; a flushed HDF5 file stays openable after SIGKILL (library behaviour, validated in every hard-crash case, not proved); the dynamics is a deterministic function of the checkpointed state (validated bitwise against the reference run). The surface-hopping engine is covered by the sh_resume probe (stop right after a checkpoint, resume, every dataset compared by value with the uninterrupted run); it found F9 (the checkpoint did not store the molecular orbitals; repaired in 258ef68, which also makes the repository's own surface-hopping resume test pass); its nonadiabatic stream is in the value-level model (C10b), its crash points inside the step are not enumerated.",
    "design_ref": "DESIGN.md section 5 C10",
    "modelled": {"HDF5Writer._open_resume cursors": True, "XYZWriter append/truncate": True, "_flush_all + _atomic_save_checkpoint": True,
                 "run_from_checkpoint XL history restore": "C09 buffer theorem + bitwise probe", "NonadiabaticDynamics resume": False},
}

STREAMS = c11.STREAMS


def history_case(inp: Dict[str, Any]) -> Dict[str, Any]:
    """Run reference (uninterrupted) and the crash history on the REAL code; return observations."""
    sc, crashes = inp["sc"], inp["crashes"]
    mol = sc.get("molid", [0])[0]
    # reference run in a child as well (same code path as segments, no crash)
    dref = mdh.scratch_dir("c10ref")
    try:
        pref = os.path.join(dref, "md")
        r0 = mdh.run_segment(sc, pref, None, False)
        ref = mdh.observe(pref, mol)
        ref_xyz = mdh.read_xyz_frames(f"{pref}.{mol}.xyz")
        ref_exit = r0["exit"]
        ref_err = r0.get("err", "")
    finally:
        shutil.rmtree(dref, ignore_errors=True)
    h = mdh.run_history(sc, crashes, tag="c10", keep=True)
    try:
        pfx = os.path.join(h["dir"], "md")
        fin_xyz = mdh.read_xyz_frames(f"{pfx}.{mol}.xyz")
    finally:
        shutil.rmtree(h["dir"], ignore_errors=True)
    segs = []
    for s in h["segments"]:
        o = s["obs"]
        segs.append({
            "crash": s["crash"], "resume": s["resume"], "exit": s["run"]["exit"], "fired": s["run"]["fired"], "screen": s["run"]["screen"],
            "labels": {g: o["h5"][g]["labels"] for g in STREAMS}, "xyz": o["xyz"], "ckpt": o["ckpt"], "err": s["run"].get("err", ""),
        })
    fin = h["segments"][-1]["obs"]
    diffs = []
    for g in STREAMS:
        a, b = ref["h5"][g], fin["h5"][g]
        if a["labels"] != b["labels"]:
            diffs.append(f"{g}: labels {b['labels']} != reference {a['labels']}")
        elif a["values"] is not None and not np.array_equal(a["values"], b["values"]):
            rows = [i for i in range(len(a["values"])) if not np.array_equal(a["values"][i], b["values"][i])]
            diffs.append(f"{g}: values differ from the reference in rows {rows[:8]}")
    if [f[0] for f in fin_xyz] != [f[0] for f in ref_xyz]:
        diffs.append(f"xyz: frames {[f[0] for f in fin_xyz]} != reference {[f[0] for f in ref_xyz]}")
    elif [f[1] for f in fin_xyz] != [f[1] for f in ref_xyz]:
        diffs.append("xyz: frame text differs from the reference")
    if fin["ckpt"] != ref["ckpt"]:
        diffs.append(f"final checkpoint step {fin['ckpt']} != reference {ref['ckpt']}")
    unread = [i for i, s in enumerate(segs) if isinstance(s["ckpt"], str)]
    if unread:
        diffs.append(f"checkpoint unreadable after segment(s) {unread}")
    bad_exit = [(i, s["exit"]) for i, s in enumerate(segs) if s["exit"] not in (0, 17, -9)]
    if bad_exit or ref_exit != 0:
        diffs.append(f"segment failed: exits {bad_exit} ref_exit {ref_exit} {segs[bad_exit[0][0]]['err'][-300:] if bad_exit else ref_err[-300:]}")
    return {"segments": segs, "effective": h["effective"], "diffs": diffs,
            "ref_labels": {g: ref["h5"][g]["labels"] for g in STREAMS}, "ref_xyz": [f[0] for f in ref_xyz]}


def evaluate(inp, res) -> Dict[str, Any]:
    sc = inp["sc"]
    kinds = set()
    for d in res["diffs"]:
        kinds.add(d.split(":")[0].split(" ")[0])
    eff = res["effective"]
    return {
        "ok": not res["diffs"],
        "observed": res["diffs"][:6],
        "expected": "files after crash(es)+resume identical to the uninterrupted run; checkpoint always loadable",
        "predicate": "forall datasets: resumed == reference (bitwise); xyz frames each exactly once; ckpt loadable",
        "fields": {"kinds": sorted(kinds), "engine": sc["engine"], "stub": sc.get("stub", True),
                   "any_soft": any(not c["hard"] for c in eff), "any_hard": any(c["hard"] for c in eff),
                   "xyz_on": sc["cad"].get("xyz", 0) > 0, "n_crashes": len(eff)},
    }


def probe_history(inp):
    return evaluate(inp, history_case(inp))


def probe_sh_resume(inp):
    """surface-hopping engine: a run stopped right after a checkpoint and resumed must leave, dataset by dataset and value by value, the files of the
    uninterrupted run (electronic amplitudes, time-derivative couplings and active surface included)"""
    sc = inp["sc"]
    a = mdh.surface_hopping_run(sc, stop_at=None, values=True)
    try:
        b = mdh.surface_hopping_run(sc, stop_at=inp["stop_at"], values=True)
    except RuntimeError as e:
        # the uninterrupted run above succeeded: a stop-and-resume run that raises is a checkpoint that cannot be resumed
        return {"ok": False, "observed": ["the run stopped after the checkpoint of step %d cannot be resumed: %s" % (inp["stop_at"], str(e).strip().splitlines()[-1][:160])],
                "expected": "the checkpoint on disk is loadable and resuming from it finishes the planned number of steps", "predicate": "",
                "fields": {"kinds": ["resume_raises"], "engine": sc.get("engine", "sh"), "datasets": []}}
    bad = []
    worst = {}
    for m in sc.get("molid", [0]):
        va, vb = a[m]["values"], b[m]["values"]
        if sorted(va) != sorted(vb):
            bad.append(f"mol{m}: datasets differ: {sorted(set(va) ^ set(vb))[:6]}")
            continue
        for name in sorted(va):
            x, y = np.asarray(va[name], dtype=float), np.asarray(vb[name], dtype=float)
            if x.shape != y.shape:
                bad.append(f"mol{m}: {name} shape {x.shape} vs {y.shape}")
                continue
            d = float(np.abs(x - y).max()) if x.size else 0.0
            if d > inp.get("tol", 1e-8):
                first = int(np.argwhere(np.abs(x - y).reshape(x.shape[0], -1).max(1) > inp.get("tol", 1e-8))[0][0]) if x.ndim else 0
                bad.append(f"mol{m}: {name} differs by {d:.3e} (first differing row {first})")
                worst[name] = d
    return {"ok": not bad, "observed": bad[:8], "expected": "resumed surface-hopping run = uninterrupted run, every dataset by value",
            "predicate": "max |a - b| <= 1e-8 per dataset", "fields": {"kinds": ["sh_resume_values"] if bad else [], "engine": sc.get("engine", "sh"), "datasets": sorted(worst)[:6]}}


PROBES = {"crash_history": probe_history, "sh_resume": probe_sh_resume}


def model_line(sc, eff) -> str:
    toks = c11.model_line(sc).split()
    for c in eff:
        toks += [str(c["step"]), str(c["upto"]), "1" if c["hard"] else "0", str(c.get("mask", 0))]
    return " ".join(toks)


def seg_line(sc, s, full=True) -> str:
    def rows(ls):
        return ",".join("-" if x is None else str(x) for x in ls)
    ck = s["ckpt"]
    nx = len(c11.spec(sc["cad"].get("xyz", 0), ck)) if isinstance(ck, int) else 0
    ckt = f"{ck}:{nx}" if isinstance(ck, int) else ("-" if ck is None else str(ck))
    if not full:
        return "ckpt=" + ckt
    return ("h5=" + "/".join(rows(s["labels"][g]) for g in STREAMS) + " xyz=" + ",".join(map(str, s["xyz"])) + " ckpt=" + ckt +
            " screen=" + ",".join(map(str, s["screen"])))


def gen_cases(ctx: Ctx) -> List[Dict[str, Any]]:
    rng = ctx.rng
    cases = []

    def sc_(cad, steps, engine="basic", stub=True, mols=("h2o",), k=4, seed=3, damp=None):
        d = c11._scenario(cad, steps, engine=engine, mols=mols, stub=stub, k=k, seed=seed)
        if damp is not None:
            d["damp"] = damp
        return d
    # corpus: the historical XYZ duplicate (soft crash between checkpoints), the test-suite point, torn-checkpoint points
    cases.append({"sc": sc_(dict(data=1, coordinates=1, velocities=1, forces=1, xyz=1, print=1, ckpt=4), 10), "crashes": [dict(step=7, upto=0, hard=False)]})
    cases.append({"sc": sc_(dict(data=1, coordinates=1, velocities=1, forces=1, xyz=1, print=1, ckpt=3), 6), "crashes": [dict(step=4, upto=0, hard=False)]})
    cases.append({"sc": sc_(dict(data=2, coordinates=3, velocities=1, forces=2, xyz=2, print=0, ckpt=4), 11), "crashes": [dict(step=8, upto=6, hard=True)]})
    cases.append({"sc": sc_(dict(data=2, coordinates=3, velocities=1, forces=2, xyz=2, print=0, ckpt=4), 11), "crashes": [dict(step=8, upto=5, hard=False), dict(step=9, upto=3, hard=True)]})
    cases.append({"sc": sc_(dict(data=1, coordinates=2, velocities=0, forces=0, xyz=3, print=0, ckpt=5), 9), "crashes": [dict(step=3, upto=2, hard=True)]})  # before first checkpoint
    # hard kill right after a checkpoint whose interval held vector rows only (no /data row since the previous checkpoint): what was flushed at the checkpoint is what survives
    cases.append({"sc": sc_(dict(data=4, coordinates=1, velocities=1, forces=2, xyz=0, print=0, ckpt=2), 9), "crashes": [dict(step=7, upto=0, hard=True)]})
    cases.append({"sc": sc_(dict(data=3, coordinates=1, velocities=2, forces=0, xyz=1, print=0, ckpt=2), 8, engine=["langevin", "xl"][ctx.seed % 2]), "crashes": [dict(step=[3, 5][ctx.seed % 2], upto=0, hard=True)]})
    n_rand = 160 if ctx.thorough else 34
    engines = ["basic", "langevin", "xl", "ksa", "xl"]
    for i in range(n_rand):
        vals = [0, 1, 2, 3, 5]
        cad = dict(data=int(rng.choice([1, 1, 2, 3])), coordinates=int(rng.choice(vals)), velocities=int(rng.choice(vals)),
                   forces=int(rng.choice(vals)), xyz=int(rng.choice([0, 1, 2, 3])), print=int(rng.choice([0, 1, 2])), ckpt=int(rng.choice([1, 2, 3, 4, 5])))
        steps = int(rng.integers(6, 15))
        ncr = int(rng.choice([1, 1, 2, 3]))
        crashes = []
        lo = 1
        for _ in range(ncr):
            # crashes are ordered in wall-clock, but a resumed run restarts at the checkpoint: later crash steps may be smaller
            st = int(rng.integers(1, steps + 1))
            crashes.append(dict(step=st, upto=int(rng.integers(0, 8)), hard=bool(rng.integers(0, 2))))
        eng = engines[i % 5]
        sc = sc_(cad, steps, engine=eng, k=int(rng.integers(3, 10)), seed=int(rng.integers(1, 999)),
                 mols=("h2o", "h2") if i % 6 == 0 else ("h2o",), damp=(15.0 if (eng in ("xl", "ksa") and i % 2) else None))
        if eng == "langevin":
            sc["damp"] = 20.0
        cases.append({"sc": sc, "crashes": crashes})
    n_real = 5 if ctx.thorough else 2
    for i in range(n_real):
        cad = dict(data=1, coordinates=2, velocities=1, forces=3, xyz=1, print=0, ckpt=3)
        eng = ["basic", "xl", "langevin", "ksa", "xl"][i]
        # (KSA on an all-hydrogen molecule raises inside fock._two_center - "also seen" in DESIGN 10.3 - so KSA runs use water)
        sc = sc_(cad, 7, engine=eng, stub=False, mols=(("h2o",) if eng == "ksa" else ("h2",)), k=[4, 5, 4, 4, 9][i])
        if eng == "langevin":
            sc["damp"] = 20.0
        cases.append({"sc": sc, "crashes": [dict(step=5, upto=int(rng.integers(0, 7)), hard=bool(i % 2))]})
    # run options that act inside the step loop (velocity rescaling to a target temperature, energy-shift control with a reference energy taken
    # at the first step): a resumed run must keep applying them with the same reference
    opts = [{"scale_vel": [2, 400.0]}, {"control_energy_shift": True}, {"scale_vel": [3, 250.0]}]
    for i, rk in enumerate(opts if ctx.thorough else [opts[ctx.seed % 2], opts[(ctx.seed + 1) % 2]]):
        eng = ["basic", "langevin", "xl", "ksa"][(i + ctx.seed) % 4]
        sc = sc_(dict(data=1, coordinates=int(rng.choice([1, 2])), velocities=1, forces=0, xyz=int(rng.choice([0, 1])), print=0, ckpt=int(rng.choice([2, 3]))), 7, engine=eng, k=4, seed=int(rng.integers(1, 999)))
        if eng == "langevin":
            sc["damp"] = 20.0
        sc["run_kwargs"] = rk
        cases.append({"sc": sc, "crashes": [dict(step=int(rng.integers(3, 7)), upto=int(rng.integers(0, 8)), hard=bool(rng.integers(0, 2)))]})
        # interrupted repeatedly: the second crash comes after the RESUMED process has written checkpoints of its own
        sc2 = dict(sc, steps=10, cad=dict(sc["cad"], ckpt=2))
        cases.append({"sc": sc2, "crashes": [dict(step=3, upto=int(rng.integers(0, 8)), hard=bool(rng.integers(0, 2))), dict(step=int(rng.integers(6, 9)), upto=int(rng.integers(0, 8)), hard=False),
                                             dict(step=10, upto=int(rng.integers(0, 4)), hard=bool(rng.integers(0, 2)))][: int(rng.integers(2, 4))]})
    # periodic centre-of-mass removal (stride N >= 2) with a checkpoint that is not a multiple of N: the resumed run must remove at the same ABSOLUTE steps
    rc = [(("linear", 4), 3, "langevin"), (("angular", 3), 2, "xl"), (("linear", 3), 4, "ksa"), (("angular", 2), 3, "langevin")]
    for i, (mode, ck, eng) in enumerate(rc if ctx.thorough else [rc[ctx.seed % 2], rc[2 + ctx.seed % 2]]):
        sc = sc_(dict(data=1, coordinates=1, velocities=1, forces=0, xyz=0, print=0, ckpt=ck), 11, engine=eng, k=4, seed=int(rng.integers(1, 999)), mols=("h2o", "ch4") if i % 2 else ("h2o",), damp=15.0)
        sc["remove_com"] = list(mode)
        cases.append({"sc": sc, "crashes": [dict(step=int(rng.integers(ck + 1, 10)), upto=int(rng.integers(0, 8)), hard=bool(rng.integers(0, 2)))]})
    # excited-state surface (real CIS engine) and density reuse switched off
    ex = {"excited_states": {"n_states": 2, "method": "cis"}, "active_state": 1}
    xcases = [("basic", ex, True), ("xl", ex, True), ("basic", {}, False), ("langevin", ex, False)]
    for i, (eng, sq, reuse) in enumerate(xcases if ctx.thorough else [xcases[ctx.seed % 2], xcases[2]]):
        sc = sc_(dict(data=1, coordinates=1, velocities=1, forces=0, xyz=int(rng.choice([0, 1])), print=0, ckpt=2), 5, engine=eng, stub=False, mols=("h2o",), k=4)
        sc["seqm"] = dict(sq)
        sc["reuse_P"] = reuse
        if eng == "langevin":
            sc["damp"] = 20.0
        cases.append({"sc": sc, "crashes": [dict(step=int(rng.integers(3, 6)), upto=int(rng.integers(0, 7)), hard=bool(rng.integers(0, 2)))]})
    # re-parameterised runs (learned parameters given as tensors): the resumed run must use the same parameters
    lcases = [({"U_ss": 1.02}, "basic", ("h2o",)), ({"zeta_s": 1.03, "beta_s": 0.98}, "xl", ("h2o", "h2"))]
    for i, (lp, eng, mols) in enumerate(lcases if ctx.thorough else [lcases[ctx.seed % 2]]):
        sc = sc_(dict(data=1, coordinates=1, velocities=0, forces=0, xyz=0, print=0, ckpt=2), 5, engine=eng, stub=False, mols=mols, k=4)
        sc["learned"] = lp
        cases.append({"sc": sc, "crashes": [dict(step=4, upto=int(rng.integers(0, 7)), hard=False)]})
    # real engine on molecules whose state is more than (species, coordinates, velocities): ions (total charge), a batch with mixed charges
    ions = [(("oh-",), [-1]), (("h2o",), [2]), (("nh4+", "h2o"), [1, 0]), (("oh-", "h2"), [-1, 0])]
    for i, (mols, ch) in enumerate(ions if ctx.thorough else [ions[ctx.seed % 2], ions[2 + ctx.seed % 2]]):
        sc = sc_(dict(data=1, coordinates=1, velocities=1, forces=2, xyz=1, print=0, ckpt=2), 5, engine=["basic", "xl", "langevin", "basic"][(i + ctx.seed) % 4], stub=False, mols=mols, k=4)
        sc["charges"] = ch
        if sc["engine"] == "langevin":
            sc["damp"] = 20.0
        cases.append({"sc": sc, "crashes": [dict(step=4, upto=int(rng.integers(0, 7)), hard=False)]})
    return cases


def run(ctx: Ctx):
    gen.regenerate(ctx, ["Cadence", "ResumeIdx"])
    leanproj.check_theorems(ctx, MODULE, THEOREMS)
    from .registry import THEOREMS_RESUMETIE
    leanproj.check_theorems(ctx, "PyseqmVerif.Properties.ResumeTie", THEOREMS_RESUMETIE)
    from .registry import THEOREMS_C10B
    leanproj.check_theorems(ctx, "PyseqmVerif.Properties.C10b", THEOREMS_C10B)
    cases = gen_cases(ctx)
    results = mdh.pmap(probe_and_obs, cases, timeout=1500)
    drv = leanproj.Driver()
    try:
        for inp, res in zip(cases, results):
            if isinstance(res, Exception) or res is None:
                ctx.obligation("history_case harness", False, repr(res)[:800], kind="harness")
                continue
            sc = inp["sc"]
            eff = res["effective"]
            # model for mask = 0 (everything unflushed is lost) and mask = all ones (everything survives): final disk must agree
            lines = []
            for mask in (0, (1 << 40) - 1):
                effm = [dict(c, mask=mask) for c in eff]
                lines.append(" ".join(drv.ask(*model_line(sc, effm).split())).split(" ; "))
            m0, m1 = lines
            ok = True
            why = []
            if m0[-1] != m1[-1]:
                ok = False
                why.append("model final disk depends on the loss mask")
            if len(m0) != len(res["segments"]):
                ok = False
                why.append(f"segment count model {len(m0)} impl {len(res['segments'])}")
            else:
                for j, s in enumerate(res["segments"]):
                    last = j == len(res["segments"]) - 1
                    soft = s["crash"] is None or not s["crash"]["hard"] or not s["fired"]
                    if soft or last:
                        il = seg_line(sc, s, True)
                        if il != m0[j]:
                            ok = False
                            why.append(f"segment {j}: impl `{il}` model `{m0[j]}`")
                    else:
                        il = seg_line(sc, s, False)
                        if il not in m0[j]:
                            ok = False
                            why.append(f"segment {j} (hard): impl `{il}` model `{m0[j]}`")
            ctx.corr_case("crash_history_vs_model", {"cad": sc["cad"], "steps": sc["steps"], "engine": sc["engine"], "crashes": eff, "stub": sc.get("stub", True)},
                          m0, why if not ok else "equal", ok, nontrivial=len(eff) > 0,
                          stratum=("real" if not sc.get("stub", True) else sc["engine"]) + ("/hard" if any(c["hard"] for c in eff) else "/soft"))
            r = evaluate(inp, res)
            ctx.probe_case("crash_history", inp, r["ok"], fields=r["fields"], observed=r["observed"], expected=r["expected"], predicate=r["predicate"],
                           nontrivial=len(eff) > 0, stratum=sc["engine"])
    finally:
        drv.close()
    # the surface-hopping engine (real CIS engine; stop right after a checkpoint, resume, compare every dataset by value with the uninterrupted run)
    sh_cases = []
    for j in range(3 if ctx.thorough else 1):
        mols = [["ch2o"], ["h2o"], ["ch2o", "ch2o"]][(j + ctx.seed) % 3]
        ck = [2, 3, 2][(j + ctx.seed) % 3]
        sh_cases.append({"sc": dict(mols=mols, molid=list(range(len(mols))), cad=dict(data=1, coordinates=1, velocities=1, forces=1, nonadiabatic=1, ckpt=ck), steps=ck + 3, dt=0.5, temp=300.0,
                                    n_states=2 + (j % 2), seed=int(ctx.rng.integers(1, 999))), "stop_at": ck})
    # ... thermostatted surface hopping (the random numbers of the thermostat, of the coupling estimate and of the hop decision come from one generator)
    sh_cases.append({"sc": dict(mols=[["ch2o"], ["h2o"]][(ctx.seed + 1) % 2], molid=[0], cad=dict(data=1, coordinates=1, velocities=1, forces=1, nonadiabatic=1, ckpt=2), steps=5, dt=0.5, temp=300.0, n_states=2,
                                damp=float(ctx.rng.choice([10.0, 40.0])), seed=int(ctx.rng.integers(1, 999))), "stop_at": 2})
    # ... and the excited-state extended-Lagrangian engine XL_ESMD (its checkpoints could not be resumed at all before eb27277)
    sh_cases.append({"sc": dict(engine="xlesmd", mols=[["ch2o"], ["h2o"]][ctx.seed % 2], molid=[0], cad=dict(data=1, coordinates=1, velocities=1, forces=1, ckpt=[4, 3][ctx.seed % 2]), steps=[8, 7][ctx.seed % 2],
                                dt=0.2, temp=300.0, n_states=3, k=[6, 4][ctx.seed % 2], reuse_P=bool(ctx.seed % 2), seed=int(ctx.rng.integers(1, 999))), "stop_at": [4, 3][ctx.seed % 2]})
    # ... with the Krylov kernel (its excited-state kernel update was not checkpointed before af1f500)
    sh_cases.append({"sc": dict(engine="xlesmd", mols=["ch2o"], molid=[0], cad=dict(data=1, coordinates=1, velocities=1, forces=1, ckpt=4), steps=7, dt=0.2, temp=300.0, n_states=3, k=6,
                                max_rank=int(ctx.rng.integers(2, 4)), reuse_P=False, seed=int(ctx.rng.integers(1, 999))), "stop_at": 4})
    for inp, r in zip(sh_cases, mdh.pmap(probe_sh_resume, sh_cases, timeout=1500)):
        if isinstance(r, Exception) or r is None:
            ctx.obligation("sh_resume harness", False, repr(r)[:800], kind="harness")
            continue
        ctx.probe_case("sh_resume", inp, r["ok"], fields=r["fields"], observed=r["observed"], expected=r["expected"], predicate=r["predicate"], stratum=inp["sc"].get("engine", "sh"))
    effs = [r["effective"] for r in results if isinstance(r, dict)]
    ctx.extra["input_distribution"] = {
        "histories": len(cases),
        "crashes_fired": sum(len(e) for e in effs),
        "hard": sum(1 for e in effs for c in e if c["hard"]),
        "soft": sum(1 for e in effs for c in e if not c["hard"]),
        "by_upto": {str(u): sum(1 for e in effs for c in e if c["upto"] == u) for u in range(8)},
        "multi_crash_histories": sum(1 for e in effs if len(e) > 1),
        "before_first_checkpoint": sum(1 for inp, e in zip(cases, effs) if e and e[0]["step"] <= inp["sc"]["cad"]["ckpt"]),
        "engines": {e: sum(1 for c in cases if c["sc"]["engine"] == e) for e in ["basic", "langevin", "xl", "ksa"]},
        "real_engine": sum(1 for c in cases if not c["sc"].get("stub", True)),
    }


def probe_and_obs(inp):
    return history_case(inp)
