"""C11 - each output stream is written at exactly its own requested cadence."""
from __future__ import annotations

import os

import itertools
from typing import Any, Dict, List

import numpy as np

from .. import leanproj, mdh
from ..core import Ctx
from ..translate import gen

MODULE = "PyseqmVerif.Properties.C11"
from .registry import THEOREMS_C11 as THEOREMS  # noqa: E402

META = {
    "technique": "Lean 4 induction over run-loop steps (model MDOut; TDM stream with nested gates and capacity guard in C11Tdm) + AST-translated _n_timepoints and output gates (incl. do_tdm) + exhaustive/seeded cadence-lattice correspondence through the real run loop",
    "level_text": "Theorems (all cadence tuples incl. 0/coprime/larger-than-run, all run lengths): every HDF5/XYZ/screen/checkpoint stream of the modelled run loop equals the due-step specification, capacity = number of due rows, labels strictly increasing. The model is tied to the code by regenerating _n_timepoints from its Python AST on every run and by a differential check of the real run loop + HDF5Writer + XYZWriter (stub or real force engine) against the compiled Lean model on a lattice of cadence tuples.",
    "level_note": "Trusted: Lean kernel; translator for _n_timepoints; harness reading HDF5/XYZ/checkpoint files; the stub force engine replaces only the electronic-structure call (scheduling/writer code under test is the real one). Values stored per step are validated bitwise against a cadence-1 reference run (probe), not proved. The TDM stream is modelled (C11Tdm.lean: rows = steps due for both the data and the TDM cadence, exact iff every multiple of the TDM cadence in the run is a multiple of the data cadence; F10 witness) and tied by the AST translation of its do_tdm test and by differential runs of the real run loop with the CIS engine (labels and capacity on file vs the compiled model).",
    "design_ref": "DESIGN.md section 5 C11",
    "modelled": {"OutputConfig.from_dict": True, "HDF5Writer._n_timepoints": "AST-translated", "append_data/append_vectors gates": True,
                 "XYZWriter": True, "screen/checkpoint cadence": True, "nonadiabatic stream": "gate AST-translated (GatesTie) + MDState.na_fresh_stream", "TDM stream": "MDOut.tdmRun (theorems C11Tdm): nested gates + capacity guard; gate AST-translated (gateTdm); differential runs of the real CIS engine against the compiled model"},
    "assumptions": ["record stored for step s is a function of the state at step s (writers do not mutate the state): validated bitwise against a cadence-1 reference"],
}

STREAMS = ["data", "coordinates", "velocities", "forces"]


def spec(e: int, n: int) -> List[int]:
    return [s for s in range(n + 1) if e > 0 and s % e == 0]


def _scenario(cad, steps, engine="basic", mols=("h2o",), molid=(0,), stub=True, k=4, seed=1) -> Dict[str, Any]:
    return dict(engine=engine, stub=stub, mols=list(mols), molid=list(molid), cad=dict(cad), steps=int(steps), k=k, seed=seed)


def cadence_case(sc: Dict[str, Any]) -> Dict[str, Any]:
    """Run the REAL run loop with cadences `sc.cad` and again with every cadence = 1 (reference)."""
    run = mdh.in_process_run(sc, tag="c11")
    ref_sc = dict(sc, cad=dict(data=1, coordinates=1, velocities=1, forces=1, xyz=1, print=0, ckpt=0))
    ref = mdh.in_process_run(ref_sc, tag="c11r")
    res = {"mol": {}, "screen": run["screen"]}
    for m in sc["molid"]:
        o, r = run[m], ref[m]
        streams = {}
        for g in STREAMS:
            labels = o["h5"][g]["labels"]
            vals = o["h5"][g]["values"]
            same = True
            if vals is not None:
                for i, s in enumerate(labels):
                    if s is None:
                        continue
                    rv = r["h5"][g]["values"]
                    if s >= len(rv) or not np.array_equal(vals[i], rv[s]):
                        same = False
            streams[g] = {"labels": labels, "values_match_ref": same}
        res["mol"][m] = {"streams": streams, "xyz": o["xyz"], "ckpt": o["ckpt"]}
    return res


def evaluate(sc: Dict[str, Any], res: Dict[str, Any]) -> Dict[str, Any]:
    """the property predicate on the observed files"""
    n = sc["steps"]
    cad = sc["cad"]
    bad = []
    kinds = set()
    for m, mo in res["mol"].items():
        for g in STREAMS:
            e = cad.get(g, 0)
            want = spec(e, n)
            got = mo["streams"][g]["labels"]
            if got != want:
                bad.append(f"mol{m}:{g} labels {got} != due {want}")
                kinds.add("labels:" + ("vector" if g != "data" else "data"))
            if not mo["streams"][g]["values_match_ref"]:
                bad.append(f"mol{m}:{g} stored values differ from the state at the labelled step")
                kinds.add("values")
        if mo["xyz"] != spec(cad.get("xyz", 0), n):
            bad.append(f"mol{m}:xyz frames {mo['xyz']} != due {spec(cad.get('xyz', 0), n)}")
            kinds.add("labels:xyz")
        ck = [s for s in spec(cad.get("ckpt", 0), n) if s > 0]
        wantck = ck[-1] if ck else None
        if mo["ckpt"] != wantck:
            bad.append(f"mol{m}:checkpoint step {mo['ckpt']} != {wantck}")
            kinds.add("ckpt")
    wantscr = [s for s in spec(cad.get("print", 0), n) if s > 0]
    if res["screen"] != wantscr:
        bad.append(f"screen {res['screen']} != {wantscr}")
        kinds.add("screen")
    vec = [cad.get(g, 0) for g in STREAMS[1:] if cad.get(g, 0) > 0]
    return {
        "ok": not bad,
        "observed": bad[:6],
        "expected": "every stream = initial snapshot + multiples of its own cadence; values = state at that step",
        "predicate": "labels(stream) == [s <= N | e>0 and e|s] and values(row s) == reference(s)",
        "fields": {"kinds": sorted(kinds), "engine": sc["engine"], "stub": sc["stub"],
                   "vector_cadences_distinct": len(set(vec)) > 1},
    }


def probe_cadence_run(inp):
    return evaluate(inp, cadence_case(inp))


def probe_na_stream(inp):
    """surface-hopping engine: the nonadiabatic stream (and the others) hold the initial snapshot + multiples of their own cadence
    with absolute labels, every allocated row written - for a fresh run and for a run stopped after a checkpoint and resumed"""
    sc = inp["sc"]
    obs = mdh.surface_hopping_run(sc, stop_at=inp.get("stop_at"))
    bad = []
    for m, o in obs.items():
        for g in ("data", "coordinates", "velocities", "forces", "nonadiabatic"):
            want = spec(sc["cad"].get(g, 0), sc["steps"])
            if o.get(g, []) != want:
                bad.append(f"mol{m}:{g} labels {o.get(g)} != due {want}")
        if not all(o.get("na_rows_written", [])):
            bad.append(f"mol{m}: unwritten nonadiabatic rows {o.get('na_rows_written')}")
    return {"ok": not bad, "observed": bad[:6], "expected": "every stream = initial snapshot + multiples of its own cadence, absolute labels", "predicate": "labels(stream) == due",
            "fields": {"kinds": ["labels:nonadiabatic"] if any("nonadiabatic" in b for b in bad) else (["labels"] if bad else []), "engine": "surface_hopping", "resumed": inp.get("stop_at") is not None}}


def tdm_case(inp):
    """REAL excited-state engine (CIS, water) with the transition-density-matrix stream on: labels on file, capacity, which rows were ever written"""
    import contextlib
    import glob
    import io
    import shutil

    import h5py

    d = mdh.scratch_dir("c11tdm")
    try:
        sc = dict(engine="basic", stub=False, mols=["h2o"], molid=[0], steps=inp["steps"], temp=300.0, dt=0.4,
                  cad=dict(data=inp["data"], tdm=inp["tdm"], coordinates=0, velocities=0, forces=0, xyz=0, print=0, ckpt=0),
                  seqm={"excited_states": {"n_states": 2, "method": "cis"}, "active_state": 1})
        mol, md = mdh.make_md(sc, os.path.join(d, "md"))
        with contextlib.redirect_stdout(io.StringIO()):
            md.run(mol, sc["steps"], seed=1)
        fs = glob.glob(os.path.join(d, "*.h5"))
        with h5py.File(fs[0], "r") as h:
            if "data" not in h or "excitation" not in h["data"] or "transition_density_matrices" not in h["data/excitation"]:
                return {"labels": [], "cap": 0}
            g = h["data/excitation/transition_density_matrices"]
            steps = [int(v) for v in g["steps"][:]]
            written = [bool(np.abs(g["values"][i]).max() > 0) for i in range(len(steps))]
        return {"labels": [s_ for s_, w in zip(steps, written) if w], "cap": len(steps), "written": written}
    finally:
        shutil.rmtree(d, ignore_errors=True)


def _observer_child(inp):
    """real engine (ground or excited surface, with every stream on): wrap every output action and compare the molecule's state before/after;
    then cross-check the streams of one step against each other"""
    import contextlib
    import io
    import re
    import shutil

    import h5py
    import torch

    import seqm.MolecularDynamics as MD

    d = mdh.scratch_dir("c11obs")
    try:
        sc = dict(engine=inp.get("engine", "basic"), stub=False, mols=inp["mols"], molid=list(range(len(inp["mols"]))), steps=inp["steps"], temp=300.0, k=4, dt=0.4,
                  cad=dict(data=inp["data"], coordinates=1, velocities=1, forces=1, xyz=inp["xyz"], print=0, ckpt=inp.get("ckpt", 0)), seqm=dict(inp.get("seqm", {})))
        mol, md = mdh.make_md(sc, os.path.join(d, "md"))
        names = ("Etot", "coordinates", "velocities", "force", "dm", "cis_energies", "acc")

        def snap():
            out = {}
            for k in names:
                v = getattr(mol, k, None)
                if torch.is_tensor(v):
                    out[k] = v.detach().clone()
            return out
        touched = []

        def guard(obj, meth, label):
            orig = getattr(obj, meth)

            def w(*a, **k):
                before = snap()
                r = orig(*a, **k)
                after = snap()
                for kk in before:
                    if kk in after and before[kk].shape == after[kk].shape and not torch.equal(before[kk], after[kk]):
                        touched.append(f"{label} changes molecule.{kk} by {float((before[kk] - after[kk]).abs().max()):.3e}")
                return r
            setattr(obj, meth, w)
        with contextlib.redirect_stdout(io.StringIO()):
            md.initialize(mol, remove_com=None, learned_parameters={}, steps=inp["steps"]) if False else None
        # the writers exist only after initialize(); wrap lazily through run's first use
        orig_init = md.initialize

        def init_w(*a, **k):
            r = orig_init(*a, **k)
            if md._h5_writer is not None:
                guard(md._h5_writer, "append_data", "HDF5 append_data")
                guard(md._h5_writer, "append_vectors", "HDF5 append_vectors")
            if md._xyz_writer is not None:
                guard(md._xyz_writer, "write", "XYZ write")
            return r
        md.initialize = init_w
        guard(md, "save_checkpoint", "save_checkpoint")
        with contextlib.redirect_stdout(io.StringIO()):
            md.run(mol, inp["steps"], seed=3)
        bad = list(dict.fromkeys(touched))[:6]
        # cross-stream consistency of one step
        for m in range(len(inp["mols"])):
            with h5py.File(os.path.join(d, f"md.{m}.h5"), "r") as f:
                steps = f["data/steps"][...].tolist()
                Ek, Ep = f["data/thermo/Ek"][...], f["data/thermo/Ep"][...]
                se = f["data/excitation/state_energies"][...] if "data/excitation/state_energies" in f else None
            act = int(inp.get("seqm", {}).get("active_state", 0))
            if se is not None:
                dmax = float(np.abs(se[:, act] - Ep).max())
                if dmax > 1e-9:
                    bad.append(f"mol{m}: stored energy of the active state differs from the stored potential energy by {dmax:.3e} eV")
            if inp["xyz"] > 0:
                txt = open(os.path.join(d, f"md.{m}.xyz")).read()
                for st, et in re.findall(r"step:\s*(\d+)\s+E_total =\s*(-?[0-9.]+)", txt):
                    st, et = int(st), float(et)
                    if st in steps:
                        i = steps.index(st)
                        if abs(et - (Ek[i] + Ep[i])) > 2e-8:
                            bad.append(f"mol{m}: XYZ frame of step {st} says E_total = {et:.9f}, the thermo row of the same step says {Ek[i] + Ep[i]:.9f}")
                            break
            if abs(float(mol.Etot[m]) - Ep[-1]) > 1e-9 and steps[-1] == inp["steps"]:
                bad.append(f"mol{m}: molecule.Etot after the run ({float(mol.Etot[m]):.9f}) is not the stored potential energy of the last step ({Ep[-1]:.9f})")
        return bad
    finally:
        shutil.rmtree(d, ignore_errors=True)


def probe_writers_observe(inp):
    mdh.DEFAULT_MOLS.setdefault("ch2o", ([8, 6, 1, 1], [[1.21, 0.03, 0.0], [0.0, 0.0, 0.02], [-0.58, 0.94, 0.0], [-0.58, -0.94, 0.03]]))
    bad = mdh.call_with_timeout(_observer_child, inp, 900)
    return {"ok": not bad, "observed": bad[:6], "expected": "output actions only read the molecule; all streams of a step describe the same state", "predicate": "",
            "fields": {"kinds": ["writers_observe"] if bad else [], "excited": bool(inp.get("seqm", {}).get("active_state", 0))}}


PROBES = {"writers_observe": probe_writers_observe, "cadence_run": probe_cadence_run, "na_stream": probe_na_stream}


def model_line(sc) -> str:
    c = sc["cad"]
    return "mdout %d %d %d %d %d %d %d %d" % (c.get("data", 0), c.get("coordinates", 0), c.get("velocities", 0), c.get("forces", 0),
                                            c.get("xyz", 0), c.get("print", 0), c.get("ckpt", 0), sc["steps"])


def impl_line(sc, res, m) -> str:
    mo = res["mol"][m]

    def rows(ls):
        return ",".join("-" if x is None else str(x) for x in ls)
    nx = len(spec(sc["cad"].get("xyz", 0), mo["ckpt"])) if isinstance(mo["ckpt"], int) else 0
    return ("h5=" + "/".join(rows(mo["streams"][g]["labels"]) for g in STREAMS) + " xyz=" + ",".join(map(str, mo["xyz"])) +
            " ckpt=" + (f"{mo['ckpt']}:{nx}" if mo["ckpt"] is not None else "-") + " screen=" + ",".join(map(str, res["screen"])))


def gen_cases(ctx: Ctx) -> List[Dict[str, Any]]:
    rng = ctx.rng
    cases = []
    # corpus of past failures first
    cases.append(_scenario(dict(data=3, coordinates=2, velocities=3, forces=5, xyz=4, print=2, ckpt=4), 12))
    cases.append(_scenario(dict(data=1, coordinates=2, velocities=3, forces=5, xyz=0, print=0, ckpt=0), 13))
    cases.append(_scenario(dict(data=0, coordinates=0, velocities=7, forces=0, xyz=3, print=5, ckpt=0), 10))
    cases.append(_scenario(dict(data=2, coordinates=0, velocities=0, forces=0, xyz=0, print=0, ckpt=3), 7))
    cases.append(_scenario(dict(data=5, coordinates=20, velocities=4, forces=6, xyz=20, print=20, ckpt=20), 9))  # larger than run
    vals = [0, 1, 2, 3, 4, 5, 7]
    n_rand = 700 if ctx.thorough else 110
    engines = ["basic", "langevin", "xl", "ksa"]
    for i in range(n_rand):
        cad = dict(data=int(rng.choice(vals)), coordinates=int(rng.choice(vals)), velocities=int(rng.choice(vals)),
                   forces=int(rng.choice(vals)), xyz=int(rng.choice(vals)), print=int(rng.choice(vals)), ckpt=int(rng.choice([0, 0, 2, 3, 4, 5])))
        if i % 7 == 0:  # pairwise coprime vector cadences
            a = list(rng.permutation([2, 3, 5, 7]))[:3]
            cad.update(coordinates=int(a[0]), velocities=int(a[1]), forces=int(a[2]))
        if i % 11 == 0:
            cad[str(rng.choice(STREAMS))] = int(rng.integers(13, 30))  # larger than the run
        steps = int(rng.integers(1, 14))
        eng = engines[i % 4] if i % 3 == 0 else "basic"
        if i % 5 == 0:
            mols, molid = ("h2o", "h2"), ([0, 1] if i % 10 == 0 else [1])
        else:
            mols, molid = ("h2o",), [0]
        cases.append(_scenario(cad, steps, engine=eng, mols=mols, molid=molid, k=int(rng.integers(3, 10)), seed=int(rng.integers(1, 1000))))
    if ctx.thorough:
        # exhaustive small lattice over the three vector cadences (the historical defect lives here)
        for co, ve, fo in itertools.product([0, 1, 2, 3, 5], repeat=3):
            cases.append(_scenario(dict(data=2, coordinates=co, velocities=ve, forces=fo, xyz=3, print=0, ckpt=0), 11))
    # a few runs with the REAL electronic-structure engine
    n_real = 6 if ctx.thorough else 2
    for i in range(n_real):
        cad = dict(data=int(rng.choice([1, 2, 3])), coordinates=2, velocities=3, forces=int(rng.choice([2, 5])), xyz=2, print=0, ckpt=0)
        cases.append(_scenario(cad, 6, engine=["basic", "xl"][i % 2], mols=("h2",), stub=False))
    return cases


def run(ctx: Ctx):
    gen.regenerate(ctx, ["Cadence", "Gates"])
    leanproj.check_theorems(ctx, MODULE, THEOREMS)
    from .registry import THEOREMS_GATESTIE
    leanproj.check_theorems(ctx, "PyseqmVerif.Properties.GatesTie", THEOREMS_GATESTIE)
    from .registry import THEOREMS_C11TDM
    leanproj.check_theorems(ctx, "PyseqmVerif.Properties.C11Tdm", THEOREMS_C11TDM)
    from .registry import THEOREMS_C11B
    leanproj.check_theorems(ctx, "PyseqmVerif.Properties.C10b", THEOREMS_C11B)
    drv = leanproj.Driver()
    try:
        # (a) _n_timepoints vs model cap, exhaustive small grid (integers: exact)
        from seqm.MolecularDynamics import HDF5Writer

        for n in range(0, 41):
            for e in range(0, 13):
                impl = HDF5Writer._n_timepoints(n, e, include_initial=True)
                mod = int(drv.ask("ntimepoints", n, e)[0])
                ctx.corr_case("_n_timepoints", [n, e], mod, impl, mod == impl, nontrivial=e > 0)
        # (b) the run loop itself
        cases = gen_cases(ctx)
        results = mdh.pmap(cadence_case, cases)
        for sc, res in zip(cases, results):
            if isinstance(res, Exception) or res is None:
                ctx.obligation("cadence_case harness", False, repr(res)[:800], kind="harness")
                continue
            mline = " ".join(drv.ask(*model_line(sc).split()))
            for m in sc["molid"]:
                iline = impl_line(sc, res, m)
                c = sc["cad"]
                nontrivial = sum(1 for g in STREAMS if c.get(g, 0) > 0) >= 1 and sc["steps"] >= 2
                ctx.corr_case("run_loop_outputs", {"cad": c, "steps": sc["steps"], "engine": sc["engine"], "mol": m, "stub": sc["stub"]},
                              mline, iline, mline == iline, nontrivial=nontrivial,
                              stratum=("real" if not sc["stub"] else sc["engine"]))
            r = evaluate(sc, res)
            ctx.probe_case("cadence_run", sc, r["ok"], fields=r["fields"], observed=r["observed"], expected=r["expected"],
                           predicate=r["predicate"], stratum=("real" if not sc["stub"] else sc["engine"]))
    finally:
        drv.close()
    # surface-hopping engine: nonadiabatic stream, fresh and resumed (real engine; the stream is an instance of the single-stream machine of the model)
    rng = ctx.rng
    na_cases = [{"sc": dict(mols=["h2o"], molid=[0], cad=dict(data=1, coordinates=3, nonadiabatic=2, ckpt=3), steps=6, seed=1), "stop_at": 3},
                {"sc": dict(mols=["h2o"], molid=[0], cad=dict(data=2, coordinates=1, nonadiabatic=int(rng.choice([1, 2, 3])), ckpt=0), steps=int(rng.integers(4, 7)), seed=2)}]
    if ctx.thorough:
        na_cases += [{"sc": dict(mols=["h2o", "h2o"], molid=[0, 1], cad=dict(data=1, coordinates=2, nonadiabatic=int(rng.choice([1, 2, 3])), ckpt=int(rng.choice([2, 4]))), steps=7, seed=int(rng.integers(1, 99))),
                     "stop_at": None} for _ in range(3)]
        for c in na_cases[2:]:
            c["stop_at"] = c["sc"]["cad"]["ckpt"]
    for c, r in zip(na_cases, mdh.pmap(probe_na_stream, na_cases, nproc=4, timeout=1500)):
        if isinstance(r, Exception) or r is None:
            ctx.obligation("probe na_stream evaluated", False, repr(r)[-1200:], kind="harness")
            continue
        ctx.probe_case("na_stream", c, r["ok"], fields=r["fields"], observed=r["observed"], expected=r["expected"], predicate=r["predicate"], stratum="resumed" if c.get("stop_at") else "fresh")
    # the transition-density-matrix stream: the real run loop + append_data against the Lean model `MDOut.tdmRun` (theorems in C11Tdm.lean). The stream is
    # not among those C11 enumerates (finding F10 is reported, not raised): a disagreement here is a broken correspondence for the model, no property predicate
    tdm_cases = [dict(data=2, tdm=3, steps=6), dict(data=1, tdm=2, steps=5), dict(data=2, tdm=4, steps=8), dict(data=3, tdm=7, steps=6)]
    if ctx.thorough:
        tdm_cases += [dict(data=int(rng.integers(1, 4)), tdm=int(rng.integers(1, 6)), steps=int(rng.integers(3, 10))) for _ in range(6)]
    drv = leanproj.Driver()
    try:
        for c, r in zip(tdm_cases, mdh.pmap(tdm_case, tdm_cases, nproc=4, timeout=1500)):
            if isinstance(r, Exception) or r is None:
                ctx.obligation("tdm_case harness", False, repr(r)[-1200:], kind="harness")
                continue
            mline = " ".join(drv.ask("tdm", c["data"], c["tdm"], c["steps"]))
            iline = "labels=" + ",".join(map(str, r["labels"])) + " cap=" + str(r["cap"])
            ctx.corr_case("tdm_stream", c, mline, iline, " ".join(mline.split()) == " ".join(iline.split()), nontrivial=len(r["labels"]) >= 2,
                          stratum="exact" if c["tdm"] % c["data"] == 0 else "lcm")
    finally:
        drv.close()
    # output actions are observers (real engine; ground and excited surface; every stream on)
    ex = {"excited_states": {"n_states": 2, "method": "cis"}, "active_state": 1}
    ob_cases = [dict(mols=["ch2o"], steps=3, data=1, xyz=1, ckpt=2, seqm=ex), dict(mols=["h2o"], steps=4, data=int(rng.choice([1, 2])), xyz=1, ckpt=0, engine=str(rng.choice(["basic", "xl"])))]
    if ctx.thorough:
        ob_cases += [dict(mols=["h2o", "h2o"], steps=4, data=2, xyz=2, ckpt=2, seqm=dict(ex, active_state=2)), dict(mols=["h2o"], steps=3, data=1, xyz=1, ckpt=1, engine="xl", seqm=ex)]
    for c, r in zip(ob_cases, mdh.pmap(probe_writers_observe, ob_cases, nproc=4, timeout=1500)):
        if isinstance(r, Exception) or r is None:
            ctx.obligation("probe writers_observe evaluated", False, repr(r)[-1200:], kind="harness")
            continue
        ctx.probe_case("writers_observe", c, r["ok"], fields=r["fields"], observed=r["observed"], expected=r["expected"], predicate=r["predicate"], stratum="excited" if c.get("seqm") else "ground")
    ctx.extra["input_distribution"] = {
        "cases": len(cases),
        "coprime_vector_tuples": sum(1 for s in cases if len({s["cad"].get(g, 0) for g in STREAMS[1:]} - {0}) == 3),
        "with_zero_cadence": sum(1 for s in cases if 0 in [s["cad"].get(g, 0) for g in STREAMS]),
        "cadence_larger_than_run": sum(1 for s in cases if any(s["cad"].get(g, 0) > s["steps"] for g in STREAMS)),
        "batch_molid_subsets": sum(1 for s in cases if len(s["mols"]) > 1),
        "engines": {e: sum(1 for s in cases if s["engine"] == e) for e in ["basic", "langevin", "xl", "ksa"]},
        "real_engine_runs": sum(1 for s in cases if not s["stub"]),
    }
