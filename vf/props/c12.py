"""C12 - the Langevin thermostat samples the canonical ensemble at the target temperature."""
from __future__ import annotations

import contextlib
import io
from typing import Any, Dict, List

import numpy as np

from .. import esh, leanproj, mdh
from ..core import Ctx, b2f, f2b
from . import c08

MODULE = "PyseqmVerif.Properties.C12"
try:
    from .registry import THEOREMS_C12 as THEOREMS  # type: ignore
except Exception:  # pragma: no cover
    THEOREMS = []

META = {
    "technique": "Lean 4 proof (exact fluctuation-dissipation identity for all dt, tau, T, m; Gaussian invariance of the O-U half step via Mathlib probability; geometric variance contraction; NVE limit; T=0 only removes energy; padding atoms at rest) + correspondence of c1, c2 and the thermostat update with the real code + variance / mean-temperature probes with 5-sigma bands from the theorem's variance",
    "level_text": "Theorems over the reals: c1^2 sigma^2 + c2^2 = sigma^2 with sigma^2 = T/m * VEL_SCALE^2 for every dt, tau, T, m >= 0; if V ~ N(0, sigma^2) and xi ~ N(0,1) are independent then c1 V + c2 xi ~ N(0, sigma^2) (Maxwell-Boltzmann law invariant); the variance recursion contracts to sigma^2 at rate c1^2; at (c1,c2) = (1,0) the step is velocity Verlet; T = 0 gives c2 = 0 and |c1 v| <= |v|; mass-inverse 0 gives c2 = 0. With VEL_SCALE^2*KES*TS = 1 (regenerated constants) the stationary kinetic temperature under the 3N count equals the target. Tied to the code by comparing c1, c2 (real initialize) and the thermostat update (noise recovered by re-seeding) with the compiled Float model over dt/tau in [1e-4, 10] and all element masses, and by statistical probes on the real update. Translator tie: thermostat, velocity Verlet, thermostat in every thermostatted engine (StepTie.langevin_is_langevinStep, xl_damped_is_wrapped); c1, c2 of initialize are the model's (ScalarTie); thermostatted engines count 3N degrees of freedom (ThermoTie).",
    "level_note": "Trusted: Lean kernel; harness; torch.randn is standard normal and independent (hypothesis of the invariance theorem). Partial: ergodicity of the full dynamics is not provable here; long-run mean temperature is validated within 5 sigma of the estimator.",
    "design_ref": "DESIGN.md section 5 C12",
}


def _langevin(names, dt, damp, temp, engine="langevin"):
    import torch

    import seqm.MolecularDynamics as MD
    from seqm.Molecule import Molecule
    from seqm.seqm_functions.constants import Constants

    s, x, ch, mu = esh.batch(names)
    sp = dict(method="AM1", scf_eps=1e-8, scf_converger=[1], sp2=[False])
    out = {"molid": [0], "prefix": "/nonexistent/x", "print every": 0, "checkpoint every": 0, "xyz": 0, "h5": {}}
    mol = Molecule(Constants(), sp, torch.as_tensor(x), torch.as_tensor(s))
    old = MD.esdriver
    MD.esdriver = mdh.StubEngine
    try:
        if engine == "xl":
            md = MD.XL_BOMD(damp=damp, xl_bomd_params={"k": 4}, seqm_parameters=sp, timestep=dt, Temp=temp, output=out)
        elif engine == "ksa":
            md = MD.KSA_XL_BOMD(damp=damp, xl_bomd_params={"k": 4, "max_rank": 2, "err_threshold": 0.0, "T_el": 1500}, seqm_parameters=sp, timestep=dt, Temp=temp, output=out)
        else:
            md = MD.Molecular_Dynamics_Langevin(damp=damp, seqm_parameters=sp, timestep=dt, Temp=temp, output=out)
        with contextlib.redirect_stdout(io.StringIO()):
            md.initialize(mol)
    finally:
        MD.esdriver = old
    return md, mol


def probe_fdt(inp: Dict[str, Any]) -> Dict[str, Any]:
    """fluctuation-dissipation on the REAL c1, c2 + variance of repeated application"""
    import torch

    import seqm.MolecularDynamics as MD

    md, mol = _langevin(inp["names"], inp["dt"], inp["damp"], inp["temp"], engine=inp.get("engine", "langevin"))
    if inp.get("reconfigure"):
        # the same driver object re-used with changed settings: the coefficients in force must follow the CURRENT attributes
        import seqm.MolecularDynamics as MDm
        md, mol = _langevin(inp["names"], inp["reconfigure"]["dt"], inp["reconfigure"]["damp"], inp["reconfigure"]["temp"])
        md.timestep, md.damp, md.Temp = inp["dt"], inp["damp"], inp["temp"]
        old_ = MDm.esdriver
        MDm.esdriver = mdh.StubEngine
        try:
            with contextlib.redirect_stdout(io.StringIO()):
                md.initialize(mol)
        finally:
            MDm.esdriver = old_
    if inp.get("rebatch"):
        # the same driver object initialised again for ANOTHER batch of the same tensor shape (other elements / order / padding pattern), settings unchanged:
        # the noise amplitudes in force must be those of the CURRENT masses
        import torch as _t
        import seqm.MolecularDynamics as MDm
        from seqm.Molecule import Molecule
        from seqm.seqm_functions.constants import Constants
        s2, x2, _, _ = esh.batch(inp["rebatch"])
        sp2_ = {k: v for k, v in mol.seqm_parameters.items() if k != "elements"}
        mol = Molecule(Constants(), sp2_, _t.as_tensor(x2), _t.as_tensor(s2))
        old_ = MDm.esdriver
        MDm.esdriver = mdh.StubEngine
        try:
            with contextlib.redirect_stdout(io.StringIO()):
                md.initialize(mol)
        finally:
            MDm.esdriver = old_
    c1 = float(md.langevin_c1)
    c2 = md.langevin_c2.numpy()[..., 0]
    minv = mol.mass_inverse.numpy()[..., 0]
    sig2 = inp["temp"] * minv * MD.CONSTANTS.VEL_SCALE ** 2
    bad = []
    kinds = set()
    real = minv > 0
    d = np.abs(c1 ** 2 * sig2 + c2 ** 2 - sig2)[real] / np.maximum(sig2[real], 1e-300)
    if inp["temp"] > 0 and d.max() > 1e-12:
        bad.append(f"c1^2 s^2 + c2^2 != s^2: relative defect {d.max():.2e}"); kinds.add("fdt")
    if np.abs(c2[~real]).max(initial=0.0) != 0.0:
        bad.append("padding atoms have a non-zero noise amplitude"); kinds.add("padding")
    if not (0.0 < c1 <= 1.0):
        bad.append(f"friction factor c1 = {c1} outside (0,1]"); kinds.add("c1")
    want_c1 = np.exp(-0.5 * inp["dt"] / inp["damp"])
    if abs(c1 - want_c1) > 1e-14:
        bad.append(f"c1 = {c1} is not exp(-dt/(2 tau)) = {want_c1}"); kinds.add("c1")
    # stationary variance of the executed update: many independent chains, few applications
    if inp["temp"] > 0 and inp.get("stat", True):
        torch.manual_seed(inp.get("seed", 0))
        nrep = 2000
        v = torch.zeros(nrep, *mol.coordinates.shape[1:])
        molns = type("M", (), {})()
        molns.velocities = v + 0.0
        # start from the stationary law, apply the real thermostat update k times, variance must stay sig2
        molns.velocities = torch.randn_like(v) * torch.sqrt(torch.as_tensor(sig2[0])).unsqueeze(-1)
        saved_c2 = md.langevin_c2
        md.langevin_c2 = md.langevin_c2[0:1]
        for _ in range(inp.get("napply", 3)):
            md._apply_langevin_thermostat(molns)
        md.langevin_c2 = saved_c2
        var = molns.velocities.numpy().var(axis=(0, 2))  # per atom
        n = nrep * 3
        for a_ in range(len(var)):
            if sig2[0][a_] == 0:
                continue
            z = (var[a_] / sig2[0][a_] - 1.0) / np.sqrt(2.0 / n)
            if abs(z) > 5.0:
                bad.append(f"atom {a_}: velocity variance after the thermostat is {var[a_]/sig2[0][a_]:.4f} x target ({z:+.1f} sigma)"); kinds.add("variance")
    return {"ok": not bad, "observed": bad[:5], "expected": "exact fluctuation-dissipation; stationary variance = kT/m", "predicate": "c1^2 s2 + c2^2 = s2; 5-sigma variance band",
            "fields": {"kinds": sorted(kinds), "dt_over_tau": inp["dt"] / inp["damp"]}}


def probe_mean_temperature(inp: Dict[str, Any]) -> Dict[str, Any]:
    """long stub-engine Langevin run: mean kinetic temperature = target within the estimator's 5 sigma"""
    r = c08._md  # noqa
    import torch

    import seqm.MolecularDynamics as MD
    from seqm.Molecule import Molecule
    from seqm.seqm_functions.constants import Constants

    s, x, ch, mu = esh.batch(inp["names"])
    sp = dict(method="AM1", scf_eps=1e-8, scf_converger=[1], sp2=[False])
    out = {"molid": [0], "prefix": "/nonexistent/x", "print every": 0, "checkpoint every": 0, "xyz": 0, "h5": {}}
    mol = Molecule(Constants(), sp, torch.as_tensor(x), torch.as_tensor(s))
    old = MD.esdriver
    MD.esdriver = mdh.StubEngine
    Ts = []
    try:
        md = MD.Molecular_Dynamics_Langevin(damp=inp["damp"], seqm_parameters=sp, timestep=inp["dt"], Temp=inp["temp"], output=out)
        torch.manual_seed(inp.get("seed", 0))
        with contextlib.redirect_stdout(io.StringIO()):
            md.initialize(mol)
            for i in range(inp["steps"]):
                md.one_step(mol)
                if i >= inp["steps"] // 10:
                    Ts.append(md._calc_temperature(md._kinetic_energy(mol)).numpy().copy())
    finally:
        MD.esdriver = old
    Ts = np.array(Ts)  # (nsamp, nmol)
    bad = []
    nat = [len(esh.GEOMS[n][0]) for n in inp["names"]]
    for m in range(Ts.shape[1]):
        mean = Ts[:, m].mean()
        # per-sample relative std of T for 3N Gaussian dof = sqrt(2/(3N)); correlation time ~ tau/dt steps (+ oscillation): conservative n_eff
        tau_steps = max(1.0, inp["damp"] / inp["dt"])
        neff = len(Ts) / (2.0 * tau_steps + 1.0)
        sd = inp["temp"] * np.sqrt(2.0 / (3 * nat[m])) / np.sqrt(max(neff, 1.0))
        # discretisation bias of the BAOAB-like splitting on the kinetic temperature is O((w dt)^2): allow 3 %
        if abs(mean - inp["temp"]) > 5 * sd + 0.03 * inp["temp"]:
            bad.append(f"mol{m}: mean kinetic temperature {mean:.1f} K vs target {inp['temp']} K ({(mean-inp['temp'])/sd:+.1f} sigma, n_eff={neff:.0f})")
    return {"ok": not bad, "observed": bad or [f"mean T {Ts.mean(0)}"], "expected": "long-run mean kinetic temperature = target", "predicate": "5-sigma band",
            "fields": {"kinds": ["mean_temperature"] if bad else []}}


def probe_limits(inp: Dict[str, Any]) -> Dict[str, Any]:
    """tau -> infinity coincides with NVE; T = 0 only removes energy"""
    import torch

    import seqm.MolecularDynamics as MD
    from seqm.Molecule import Molecule
    from seqm.seqm_functions.constants import Constants

    bad = []
    kinds = set()
    s, x, ch, mu = esh.batch(inp["names"])
    sp = dict(method="AM1", scf_eps=1e-8, scf_converger=[1], sp2=[False])
    out = {"molid": [0], "prefix": "/nonexistent/x", "print every": 0, "checkpoint every": 0, "xyz": 0, "h5": {}}
    old = MD.esdriver
    MD.esdriver = mdh.StubEngine
    try:
        rng = np.random.default_rng(inp.get("seed", 0))
        v0 = rng.normal(size=x.shape) * 0.01 * (s > 0)[..., None]

        def traj(cls, n, temp, **kw):
            mol = Molecule(Constants(), dict(sp), torch.as_tensor(x.copy()), torch.as_tensor(s))
            mol.velocities = torch.as_tensor(v0.copy())
            md = cls(seqm_parameters=dict(sp), timestep=inp["dt"], Temp=temp, output=out, **kw)
            torch.manual_seed(1)
            eks = []
            with contextlib.redirect_stdout(io.StringIO()):
                md.initialize(mol)
                for _ in range(n):
                    md.one_step(mol)
                    eks.append(float(md._kinetic_energy(mol).sum()) + float(mol.Etot.sum()))
            return mol.coordinates.detach().numpy().copy(), mol.velocities.detach().numpy().copy(), eks
        xa, va, _ = traj(MD.Molecular_Dynamics_Basic, 20, 300.0)
        xb, vb, _ = traj(MD.Molecular_Dynamics_Langevin, 20, 300.0, damp=1e13)
        xc, vc, _ = traj(MD.Molecular_Dynamics_Langevin, 20, 300.0, damp=1e9)
        d = float(np.abs(xa - xb).max())
        d9 = float(np.abs(xa - xc).max())
        # the noise amplitude scales like sqrt(dt/tau): the deviation must vanish at that rate (factor 100 between 1e9 and 1e13)
        if d > 2e-6 or not (d < d9 / 20.0):
            bad.append(f"Langevin does not approach NVE as tau grows: deviation {d9:.2e} A at tau=1e9, {d:.2e} A at tau=1e13"); kinds.add("nve_limit")
        _, _, e = traj(MD.Molecular_Dynamics_Langevin, 60, 0.0, damp=inp.get("damp", 10.0))
        # at T = 0 the thermostat only removes energy: total energy non-increasing up to the integrator's O(dt^2) fluctuation
        e = np.array(e)
        rise = float((e[1:] - e[:-1]).max())
        span = float(e[0] - e[-1])
        if span <= 0 or rise > 0.05 * abs(span) + 1e-9:
            bad.append(f"T=0: total energy rises by {rise:.2e} (net change {-span:.2e})"); kinds.add("zero_T")
    finally:
        MD.esdriver = old
    return {"ok": not bad, "observed": bad, "expected": "NVE limit; T=0 dissipative", "predicate": "", "fields": {"kinds": sorted(kinds)}}


def probe_thermostat_resume(inp: Dict[str, Any]) -> Dict[str, Any]:
    """a thermostatted run (Langevin / damped XL-BOMD / damped KSA) that is interrupted and resumed keeps its thermostat: files identical to the uninterrupted run"""
    from . import c10, c11
    sc = c11._scenario(dict(data=1, coordinates=1, velocities=1, forces=0, xyz=0, print=0, ckpt=2), inp.get("steps", 7), engine=inp["engine"], mols=("h2o",), stub=True, k=4, seed=inp.get("seed", 3))
    sc["damp"] = inp["damp"]
    sc["temp"] = inp.get("temp", 300.0)
    r = c10.probe_history({"sc": sc, "crashes": [dict(step=inp.get("crash_step", 4), upto=inp.get("upto", 0), hard=False)]})
    return {"ok": r["ok"], "observed": r["observed"], "expected": "resumed thermostatted run == uninterrupted run", "predicate": "bitwise", "fields": {"kinds": ["thermostat_resume"] if not r["ok"] else [], "engine": inp["engine"], "dt_over_tau": 0.5 / inp["damp"]}}


PROBES = {"thermostat_resume": probe_thermostat_resume, "fdt": probe_fdt, "mean_temperature": probe_mean_temperature, "limits": probe_limits}


def corr_c1c2(ctx: Ctx, drv):
    import torch

    import seqm.MolecularDynamics as MD

    rng = ctx.rng
    mols = [["h2o"], ["ch3cl", "h2"], ["so2"], ["sih4"], ["alh3", "hf"]]
    n = 40 if ctx.thorough else 14
    for i in range(n):
        names = mols[i % len(mols)]
        ratio = float(10 ** rng.uniform(-4, 1))
        dt = float(rng.choice([0.05, 0.25, 0.5, 1.0]))
        damp = dt / ratio
        temp = float(rng.choice([0.0, 50.0, 300.0, 1200.0]))
        md, mol = _langevin(names, dt, damp, temp)
        minv = mol.mass_inverse.numpy().reshape(-1)
        out = drv.ask("langevin_c", f2b(dt), f2b(damp), f2b(temp), f2b(MD.CONSTANTS.VEL_SCALE), len(minv), *[f2b(t) for t in minv])
        c2 = md.langevin_c2.numpy().reshape(-1)
        ok = len(out) == 1 + len(minv)
        if ok:
            ok = abs(b2f(out[0]) - float(md.langevin_c1)) <= 2e-16 * 4
            for o, w in zip(out[1:], c2):
                ok = ok and abs(b2f(o) - w) <= 1e-12 * max(abs(w), 1e-300) + (0 if w else 0)
        ctx.corr_case("langevin c1,c2", {"names": names, "dt": dt, "damp": damp, "temp": temp}, [b2f(t) for t in out[:3]] if ok or len(out) > 2 else out,
                      [float(md.langevin_c1)] + c2[:2].tolist(), ok, nontrivial=temp > 0, stratum=f"dt/tau~1e{int(np.floor(np.log10(ratio)))}")
        # the update itself, noise recovered by re-seeding
        torch.manual_seed(77 + i)
        v = torch.randn_like(mol.coordinates.detach()) * 0.01
        mol.velocities = v.clone()
        torch.manual_seed(1234 + i)
        xi = torch.randn_like(mol.velocities)
        torch.manual_seed(1234 + i)
        md._apply_langevin_thermostat(mol)
        c2f = md.langevin_c2.expand_as(v).numpy().reshape(-1)
        out = drv.ask("langevin_apply", f2b(float(md.langevin_c1)), v.numel(), *[f2b(t) for t in v.numpy().reshape(-1)], *[f2b(t) for t in c2f], *[f2b(t) for t in xi.numpy().reshape(-1)])
        want = mol.velocities.numpy().reshape(-1)
        from ..core import ulp_diff
        ok = len(out) == len(want) and max(ulp_diff(b2f(o), float(w)) for o, w in zip(out, want)) <= 2
        ctx.corr_case("_apply_langevin_thermostat", {"names": names, "dt": dt, "damp": damp, "temp": temp}, "ulp<=2" if ok else out[:3], want[:3].tolist(), ok)


def corr_setdof(ctx: Ctx, drv):
    """degrees-of-freedom accounting of the three engines vs the model"""
    import torch

    import seqm.MolecularDynamics as MD
    from . import c13

    old = MD.esdriver
    MD.esdriver = mdh.StubEngine
    try:
        for eng, kind, damp in (("basic", 0, None), ("langevin", 1, 20.0), ("xl", 2, 15.0), ("xl", 3, None)):
            for cons in (0.0, 3.0, 6.0):
                md, mol, s = c13._setup(["ch4", "h2o"], 300.0, engine=eng, damp=damp)
                md.set_dof(mol, cons)
                want = md.n_dof.numpy() if torch.is_tensor(md.n_dof) else np.asarray(md.n_dof)
                for m in range(len(want)):
                    out = drv.ask("setdof", kind, f2b(float(mol.num_atoms[m])), f2b(cons))
                    ok = len(out) == 1 and out[0] != "bad-op" and b2f(out[0]) == float(want[m])
                    ctx.corr_case("set_dof", {"engine": eng, "damp": damp, "constraints": cons, "mol": m}, out, float(want[m]), ok)
    finally:
        MD.esdriver = old


def gen_cases(ctx: Ctx):
    rng = ctx.rng
    cases = []
    n = 30 if ctx.thorough else 10
    for i in range(n):
        ratio = float(10 ** rng.uniform(-4, 1))
        dt = float(rng.choice([0.1, 0.5, 1.0]))
        cases.append(("fdt", {"names": [["h2o"], ["ch3cl", "h2"], ["sih4"]][i % 3], "dt": dt, "damp": dt / ratio, "temp": float(rng.choice([0.0, 100.0, 300.0, 2000.0])),
                              "seed": int(rng.integers(0, 10**6)), "napply": int(rng.integers(1, 6))}))
    for i in range(4 if ctx.thorough else 2):
        dt = float(rng.choice([0.25, 0.5, 1.0]))
        cases.append(("fdt", {"names": ["h2o"], "dt": dt, "damp": float(dt / 10 ** rng.uniform(-3, 0.5)), "temp": 300.0, "seed": int(rng.integers(0, 10**6)), "stat": False,
                              "reconfigure": {"dt": float(rng.choice([0.1, 2.0])), "damp": float(rng.choice([5.0, 500.0])), "temp": 77.0}}))
    # the damped XL-BOMD / KSA drivers inherit the update: same identities on their constants
    for eng in (("xl", "ksa") if ctx.thorough else (["xl", "ksa"][ctx.seed % 2],)):
        dt = float(rng.choice([0.25, 0.5]))
        cases.append(("fdt", {"names": [["h2o"], ["ch3cl", "h2"]][int(rng.integers(0, 2))], "engine": eng, "dt": dt, "damp": float(dt / 10 ** rng.uniform(-3, 0.5)), "temp": float(rng.choice([100.0, 300.0])),
                              "seed": int(rng.integers(0, 10**6)), "stat": True, "napply": 2}))
    # driver object re-used for another batch of the same shape (H2O -> H2S; permuted batch; other padding pattern)
    reb = [(["h2o"], ["h2s"]), (["h2o", "h2"], ["h2", "h2o"]), (["ch4", "h2o"], ["sih4", "h2s"])]
    for a, b in (reb if ctx.thorough else [reb[ctx.seed % 3]]):
        dt = float(rng.choice([0.25, 0.5, 1.0]))
        cases.append(("fdt", {"names": a, "rebatch": b, "dt": dt, "damp": float(dt / 10 ** rng.uniform(-2, 0)), "temp": 300.0, "seed": int(rng.integers(0, 10**6)), "stat": False}))
    for eng in (["langevin", "xl", "ksa"] if ctx.thorough else [["xl", "ksa", "langevin"][ctx.seed % 3], "xl" if ctx.seed % 3 else "ksa"]):
        cases.append(("thermostat_resume", {"engine": eng, "damp": float(rng.choice([5.0, 15.0, 40.0])), "temp": float(rng.choice([0.0, 300.0])), "seed": int(rng.integers(1, 999)), "crash_step": int(rng.integers(3, 7)), "upto": int(rng.integers(0, 8))}))
    cases.append(("mean_temperature", {"names": ["h2o"], "dt": 0.5, "damp": 5.0, "temp": 300.0, "steps": 6000 if ctx.thorough else 2500, "seed": int(rng.integers(0, 999))}))
    if ctx.thorough:
        cases.append(("mean_temperature", {"names": ["ch4"], "dt": 0.25, "damp": 2.0, "temp": 500.0, "steps": 8000, "seed": int(rng.integers(0, 999))}))
    cases.append(("limits", {"names": ["h2o"], "dt": 0.5, "seed": int(rng.integers(0, 999))}))
    return cases


def _run_case(item):
    return PROBES[item[0]](item[1])


def run(ctx: Ctx):
    from ..translate import gen
    gen.regenerate(ctx, ["Constants", "StepBody", "HopAlpha", "Thermo"])
    leanproj.check_theorems(ctx, MODULE, THEOREMS)
    from .registry import THEOREMS_STEPTIE
    # translator tie: thermostat, velocity Verlet, thermostat - in that order, in every engine that has a thermostat
    leanproj.check_theorems(ctx, "PyseqmVerif.Properties.StepTie", [t for t in THEOREMS_STEPTIE if "langevin" in t or "damped" in t or "basic" in t])
    from .registry import THEOREMS_SCALARTIE
    # translator tie: the coefficients computed by Molecular_Dynamics_Langevin.initialize are the model's c1, c2
    leanproj.check_theorems(ctx, "PyseqmVerif.Properties.ScalarTie", [t for t in THEOREMS_SCALARTIE if "langevin" in t])
    from .registry import THEOREMS_THERMOTIE
    # translator tie: thermostatted engines count 3N degrees of freedom (no constraint subtracted), as the stationary-temperature theorem assumes
    leanproj.check_theorems(ctx, "PyseqmVerif.Properties.ThermoTie", [t for t in THEOREMS_THERMOTIE if "setDof" in t or "temperature" in t])
    drv = leanproj.Driver()
    try:
        try:
            corr_c1c2(ctx, drv)
            corr_setdof(ctx, drv)
        except Exception:
            import traceback
            ctx.obligation("correspondence adapters C12 ran", False, traceback.format_exc()[-1500:], kind="harness")
    finally:
        drv.close()
    cases = gen_cases(ctx)
    results = mdh.pmap(_run_case, cases, timeout=1800)
    for (name, c), r in zip(cases, results):
        if isinstance(r, Exception) or r is None:
            ctx.obligation(f"probe {name} evaluated", False, repr(r)[-1500:], kind="harness")
            continue
        ctx.probe_case(name, c, r["ok"], fields=r["fields"], observed=r["observed"], expected=r["expected"], predicate=r["predicate"])
