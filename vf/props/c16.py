"""C16 - CIS/RPA excited states are true eigenpairs of the response problem."""
from __future__ import annotations

import contextlib
import io
from typing import Any, Dict, List

import numpy as np

from .. import esh, leanproj, mdh
from ..core import Ctx

MODULE = "PyseqmVerif.Properties.C16"
try:
    from .registry import THEOREMS_C16 as THEOREMS  # type: ignore
except Exception:  # pragma: no cover
    THEOREMS = []

META = {
    "technique": "Lean 4 linear algebra (residual bound for Ritz pairs via the spectral theorem, Rayleigh upper bound, Davidson control-flow termination, RPA <= CIS for 1x1 blocks) + dense-reference probes: the response matrices are assembled column by column and cross-validated against the ground-state Fock response, then diagonalised with LAPACK",
    "level_text": "Theorems: for symmetric A, unit x and r = A x - theta x some eigenvalue lies within |r| of theta (so a small residual certifies a true eigenvalue); Ritz values are upper bounds; the modelled Davidson loop terminates within max_iter+1 iterations or raises; omega_RPA <= omega_CIS for 1x1 blocks with |B| <= A. Tied to the code by dense-reference probes on molecules with <= ~40 occupied-virtual pairs: the dense A and B are assembled from the package's sigma-vector routine, (A+B) is cross-checked against an independent construction from the ground-state Fock operator (C06/C01-validated), and the returned energies (ascending, positive, lowest), amplitudes (orthonormal, residual <= tolerance), independence of the start guess / amplitude reuse / batch composition and RPA <= CIS are checked.",
    "level_note": "Trusted: Lean kernel; harness; LAPACK eigh for the dense reference. Partial: 'lowest roots' and the general RPA <= CIS inequality are validated against the dense reference, not proved; the A-B (pure exchange) part of the sigma build has no independent reference beyond symmetry and RPA/CIS consistency.",
    "design_ref": "DESIGN.md section 5 C16",
}


def _dense(mol):
    import torch

    from seqm.seqm_functions.rcis_batch import get_occ_virt, matrix_vector_product_batched

    with torch.no_grad():
        nocc, nvirt, Cocc, Cvirt, ea_ei = get_occ_virt(mol, None, mol.e_mo)
        nov = nocc * nvirt
        I = torch.eye(nov).unsqueeze(0).expand(int(mol.nmol), nov, nov).contiguous()
        A, B = matrix_vector_product_batched(mol, I, mol.w.detach(), ea_ei, Cocc, Cvirt, makeB=True)
    d = lambda t: t.detach().numpy()  # noqa: E731
    return d(A), d(B), nocc, nvirt, d(Cocc), d(Cvirt), d(ea_ei)


def _apb_from_fock(mol, nocc, nvirt, Cocc, Cvirt, ea_ei, m=0):
    """(A+B) X = de X + 2 Cocc^T G(T + T^T) Cvirt with G the ground-state two-electron Fock response (linear in P)"""
    import torch

    from seqm.seqm_functions.fock import fock

    nov = nocc * nvirt
    p = mol.parameters

    from seqm.seqm_functions.pack import pack, unpack

    def G(Psym):
      with torch.no_grad():
        P = torch.zeros_like(mol.dm)
        # packed orbital basis -> padded 4-per-atom basis of the Fock build
        P[m] = unpack(torch.as_tensor(Psym).unsqueeze(0), mol.nHeavy[m:m + 1], mol.nHydro[m:m + 1], 4 * mol.molsize)[0]
        M0 = torch.zeros(int(mol.nmol) * mol.molsize * mol.molsize, 4, 4)
        F = fock(int(mol.nmol), mol.molsize, P, M0, mol.maskd, mol.mask, mol.idxi, mol.idxj, mol.w.detach(), None, p["g_ss"].detach(), p["g_pp"].detach(), p["g_sp"].detach(),
                 p["g_p2"].detach(), p["h_sp"].detach(), mol.method, None, None, None, None, None, None)
        nb = Psym.shape[0]
        return pack(F[m:m + 1], mol.nHeavy[m:m + 1], mol.nHydro[m:m + 1])[0][:nb, :nb].numpy()
    cols = []
    n4 = Cocc.shape[1]
    for k in range(nov):
        X = np.zeros(nov)
        X[k] = 1.0
        Xm = X.reshape(nocc, nvirt)
        T = Cocc[m] @ Xm @ Cvirt[m].T
        g = G(T + T.T)
        cols.append((ea_ei[m].reshape(-1) * X + 2.0 * (Cocc[m].T @ g @ Cvirt[m]).reshape(-1)))
    return np.array(cols).T


def probe_eigenpairs(inp: Dict[str, Any]) -> Dict[str, Any]:
    import torch

    names = inp["names"]
    method = inp.get("xmethod", "cis")
    tol = inp.get("tolerance", 1e-8)
    sp = esh.settings(method=inp.get("method", "AM1"), eps=1e-11, converger=[1], excited={"n_states": inp["n_states"], "method": method, "tolerance": tol})
    coords = None
    if inp.get("symmetric"):
        coords = [np.array(inp["symmetric"])]
    r = esh.run_named(names, sp, coords=coords)
    mol = r["_mol"]
    bad: List[str] = []
    kinds = set()
    A, B, nocc, nvirt, Cocc, Cvirt, ea_ei = _dense(mol)
    nov = nocc * nvirt
    E = r["cis_energies"]
    for m in range(len(names)):
        Am, Bm = A[m], B[m]
        if np.abs(Am - Am.T).max() > 1e-10 or np.abs(Bm - Bm.T).max() > 1e-10:
            bad.append(f"mol{m}: dense A/B not symmetric"); kinds.add("symmetry")
        if method in ("cis", "tda"):
            ref = np.linalg.eigvalsh(0.5 * (Am + Am.T))
        else:
            M = (Am - Bm) @ (Am + Bm)
            ev = np.linalg.eigvals(M)
            ref = np.sort(np.sqrt(np.abs(ev.real)))
        n = inp["n_states"]
        d = float(np.abs(E[m][:n] - ref[:n]).max())
        if d > max(20 * tol, 5e-7):
            bad.append(f"mol{m}: returned energies differ from the lowest dense eigenvalues by {d:.2e}: {E[m][:n].round(6).tolist()} vs {ref[:n].round(6).tolist()}"); kinds.add("lowest")
        if (np.diff(E[m][:n]) < -1e-9).any():
            bad.append(f"mol{m}: energies not ascending"); kinds.add("order")
        if (E[m][:n] <= 0).any():
            bad.append(f"mol{m}: non-positive excitation energy"); kinds.add("positive")
        amp = mol.cis_amplitudes
        if method in ("cis", "tda"):
            X = amp[m].detach().numpy()[:n].reshape(n, -1)
            if np.abs(X @ X.T - np.eye(n)).max() > max(1e-6, 100 * tol):
                bad.append(f"mol{m}: amplitudes not orthonormal ({np.abs(X @ X.T - np.eye(n)).max():.2e})"); kinds.add("orthonormal")
            res = np.linalg.norm(Am @ X.T - X.T * E[m][:n][None, :], axis=0).max()
            if res > max(50 * tol, 1e-6):
                bad.append(f"mol{m}: residual {res:.2e} above the tolerance {tol}"); kinds.add("residual")
        if inp.get("check_apb", True) and m == 0:
            apb = _apb_from_fock(mol, nocc, nvirt, Cocc, Cvirt, ea_ei, m)
            dd = float(np.abs(apb - (Am + Bm)).max())
            if dd > 1e-8:
                bad.append(f"dense (A+B) from the sigma routine differs from the ground-state Fock response by {dd:.2e}"); kinds.add("apb")
    # RPA never above CIS
    if inp.get("check_rpa_le_cis") and method in ("cis", "tda"):
        sp2 = esh.settings(method=inp.get("method", "AM1"), eps=1e-11, converger=[1], excited={"n_states": inp["n_states"], "method": "rpa", "tolerance": tol})
        r2 = esh.run_named(names, sp2, coords=coords)
        if (r2["cis_energies"][:, : inp["n_states"]] > E[:, : inp["n_states"]] + max(1e-7, 20 * tol)).any():
            bad.append("an RPA energy exceeds the corresponding CIS energy"); kinds.add("rpa_le_cis")
    return {"ok": not bad, "observed": bad[:6], "expected": "lowest eigenpairs of the dense response matrices", "predicate": "",
            "fields": {"kinds": sorted(kinds), "xmethod": method, "method": inp.get("method", "AM1")}}


def probe_guess_independence(inp: Dict[str, Any]) -> Dict[str, Any]:
    """energies at geometry B do not depend on whether amplitudes from geometry A were reused"""
    import torch

    from seqm.ElectronicStructure import Electronic_Structure
    from seqm.Molecule import Molecule
    from seqm.seqm_functions.constants import Constants

    name = inp["name"]
    z, x = esh.geom(name)
    rng = np.random.default_rng(inp["seed"])
    xb = x + rng.normal(size=x.shape) * inp.get("disp", 0.03)
    sp = esh.settings(method=inp.get("method", "AM1"), eps=1e-11, converger=[1], excited={"n_states": inp["n_states"], "method": inp.get("xmethod", "cis"), "tolerance": 1e-8})
    cold = esh.run(np.array([z]), np.array([xb]), sp)["cis_energies"]
    import copy
    spc = copy.deepcopy(sp)
    with contextlib.redirect_stdout(io.StringIO()):
        mol = Molecule(Constants(), spc, torch.as_tensor(np.array([x])), torch.as_tensor(np.array([z])))
        es = Electronic_Structure(spc)
        es(mol)
        with torch.no_grad():
            mol.coordinates.copy_(torch.as_tensor(np.array([xb])))
        try:
            es(mol, P0=mol.dm, cis_amp=mol.cis_amplitudes)
        except RuntimeError as e:
            return {"ok": False, "observed": [f"amplitude reuse raises {type(e).__name__}: {str(e)[:120]}"], "expected": "independent of starting guess", "predicate": "",
                    "fields": {"kinds": ["reuse_raises"], "xmethod": inp.get("xmethod", "cis")}}
    warm = mol.cis_energies.numpy()
    d = float(np.abs(warm - cold).max())
    bad = []
    if d > 1e-6:
        bad.append(f"excitation energies depend on amplitude reuse: {d:.2e} ({warm.round(6).tolist()} vs {cold.round(6).tolist()})")
    return {"ok": not bad, "observed": bad, "expected": "independent of starting guess", "predicate": "", "fields": {"kinds": ["guess"] if bad else [], "xmethod": inp.get("xmethod", "cis")}}


PROBES = {"eigenpairs": probe_eigenpairs, "guess_independence": probe_guess_independence}

NH3_SYM = [[0.0, 0, 0.1173], [0, 0.9377, -0.2737], [0.8121, -0.4689, -0.2737], [-0.8121, -0.4689, -0.2737]]


def gen_cases(ctx: Ctx):
    rng = ctx.rng
    cases = []
    cases.append(("eigenpairs", {"names": ["h2o"], "n_states": 8, "xmethod": "cis", "check_rpa_le_cis": True}))   # all roots (nov = 8)
    cases.append(("eigenpairs", {"names": ["nh3"], "n_states": 5, "xmethod": "cis", "symmetric": NH3_SYM, "check_rpa_le_cis": True}))  # degenerate pairs
    cases.append(("eigenpairs", {"names": ["ch2o"], "n_states": 4, "xmethod": "rpa"}))
    cases.append(("eigenpairs", {"names": ["h2o", "h2o"], "n_states": 3, "xmethod": "cis", "method": "PM3"}))
    pool = ["h2o", "nh3", "ch2o", "hcn", "hf", "h2s", "co", "ch4"]
    n = 14 if ctx.thorough else 3
    for i in range(n):
        nm = str(rng.choice(pool))
        cases.append(("eigenpairs", {"names": [nm], "n_states": int(rng.integers(1, 7)), "xmethod": ["cis", "rpa"][i % 2], "method": ["AM1", "PM3", "MNDO"][i % 3],
                                     "tolerance": float(rng.choice([1e-6, 1e-8])), "check_rpa_le_cis": i % 2 == 0, "check_apb": i % 3 == 0}))
    for i in range(4 if ctx.thorough else 2):
        cases.append(("guess_independence", {"name": str(rng.choice(["h2o", "ch2o", "nh3"])), "n_states": int(rng.integers(2, 5)), "seed": int(rng.integers(0, 10**6)), "xmethod": ["cis", "rpa"][i % 2]}))
    return cases


def _run_case(item):
    return PROBES[item[0]](item[1])


def run(ctx: Ctx):
    leanproj.check_theorems(ctx, MODULE, THEOREMS)
    cases = gen_cases(ctx)
    results = mdh.pmap(_run_case, cases, timeout=2400)
    for (name, c), r in zip(cases, results):
        if isinstance(r, Exception) or r is None:
            ctx.obligation(f"probe {name} evaluated", False, repr(r)[-1500:], kind="harness")
            continue
        ctx.probe_case(name, c, r["ok"], fields=r["fields"], observed=r["observed"], expected=r["expected"], predicate=r["predicate"], stratum=name + "/" + str(c.get("xmethod")))
