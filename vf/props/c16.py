"""C16 - CIS/RPA excited states are true eigenpairs of the response problem."""
from __future__ import annotations

import contextlib
import io
from typing import Any, Dict, List

import numpy as np

from .. import esh, leanproj, mdh
from ..core import Ctx

MODULE = "PyseqmVerif.Properties.C16"
try:
    from .registry import THEOREMS_C16 as THEOREMS  # type: ignore
except Exception:  # pragma: no cover
    THEOREMS = []

META = {
    "technique": "Lean 4 linear algebra (residual bound for Ritz pairs via the spectral theorem, Rayleigh upper bound, Davidson control-flow termination, RPA <= CIS for every root in general dimension: C16b.rpa_le_cis_all_roots) + dense-reference probes: the response matrices are assembled column by column and cross-validated against the ground-state Fock response, then diagonalised with LAPACK",
    "level_text": "Theorems: for symmetric A, unit x and r = A x - theta x some eigenvalue lies within |r| of theta (so a small residual certifies a true eigenvalue); Ritz values are upper bounds; the modelled Davidson loop terminates within max_iter+1 iterations or raises; omega_RPA <= omega_CIS for 1x1 blocks with |B| <= A. Tied to the code by dense-reference probes on molecules with <= ~40 occupied-virtual pairs: the dense A and B are assembled from the package's sigma-vector routine, (A+B) is cross-checked against an independent construction from the ground-state Fock operator (C06/C01-validated), and the returned energies (ascending, positive, lowest), amplitudes (orthonormal, residual <= tolerance), independence of the start guess / amplitude reuse / batch composition and RPA <= CIS are checked. Round 2 (C16b): with A+B and A-B positive definite every RPA eigenvalue is real and positive, sqrt(lambda_k(S(A+B)S)) <= lambda_k(A) for EVERY root k in general dimension (RPA never exceeds CIS), the code's square-root/symmetrised product has exactly the RPA spectrum, and flipping the sign of X alone preserves the normalisation but destroys every solution with Y != 0. Round 4 (C16c, formal content of F20/F20b): Ritz pairs of a search space that is invariant under A are exact eigenpairs (all residuals vanish, the solver stops in its first iteration inside the block it started in), and a 3 x 3 witness in which both requested pairs have residual exactly 0 while a lower eigenvalue is never looked at: lowest-ness cannot follow from the solver's stopping test, which is why the probes compare with a dense diagonalisation.",
    "level_note": "Trusted: Lean kernel; harness; LAPACK eigh for the dense reference. Partial: 'lowest roots' and the general RPA <= CIS inequality are validated against the dense reference, not proved; the A-B (pure exchange) part of the sigma build has no independent reference beyond symmetry and RPA/CIS consistency.",
    "design_ref": "DESIGN.md section 5 C16",
}


def _dense(mol, window=None):
    import torch

    from seqm.seqm_functions.rcis_batch import get_occ_virt, matrix_vector_product_batched

    with torch.no_grad():
        nocc, nvirt, Cocc, Cvirt, ea_ei = get_occ_virt(mol, window, mol.e_mo)
        nov = nocc * nvirt
        I = torch.eye(nov).unsqueeze(0).expand(int(mol.nmol), nov, nov).contiguous()
        A, B = matrix_vector_product_batched(mol, I, mol.w.detach(), ea_ei, Cocc, Cvirt, makeB=True)
    d = lambda t: t.detach().numpy()  # noqa: E731
    return d(A), d(B), nocc, nvirt, d(Cocc), d(Cvirt), d(ea_ei)


def _apb_from_fock(mol, nocc, nvirt, Cocc, Cvirt, ea_ei, m=0):
    """(A+B) X = de X + 2 Cocc^T G(T + T^T) Cvirt with G the ground-state two-electron Fock response (linear in P)"""
    import torch

    from seqm.seqm_functions.fock import fock

    nov = nocc * nvirt
    p = mol.parameters

    from seqm.seqm_functions.pack import pack, unpack

    def G(Psym):
      with torch.no_grad():
        P = torch.zeros_like(mol.dm)
        # packed orbital basis -> padded 4-per-atom basis of the Fock build
        P[m] = unpack(torch.as_tensor(Psym).unsqueeze(0), mol.nHeavy[m:m + 1], mol.nHydro[m:m + 1], 4 * mol.molsize)[0]
        M0 = torch.zeros(int(mol.nmol) * mol.molsize * mol.molsize, 4, 4)
        F = fock(int(mol.nmol), mol.molsize, P, M0, mol.maskd, mol.mask, mol.idxi, mol.idxj, mol.w.detach(), None, p["g_ss"].detach(), p["g_pp"].detach(), p["g_sp"].detach(),
                 p["g_p2"].detach(), p["h_sp"].detach(), mol.method, None, None, None, None, None, None)
        nb = Psym.shape[0]
        return pack(F[m:m + 1], mol.nHeavy[m:m + 1], mol.nHydro[m:m + 1])[0][:nb, :nb].numpy()
    cols = []
    n4 = Cocc.shape[1]
    for k in range(nov):
        X = np.zeros(nov)
        X[k] = 1.0
        Xm = X.reshape(nocc, nvirt)
        T = Cocc[m] @ Xm @ Cvirt[m].T
        g = G(T + T.T)
        cols.append((ea_ei[m].reshape(-1) * X + 2.0 * (Cocc[m].T @ g @ Cvirt[m]).reshape(-1)))
    return np.array(cols).T


def _to_window(X, nov, dims):
    """amplitudes may be stored in the full occupied x virtual space although the active space is a window: cut the window out (and insist that
    nothing lives outside it)"""
    if X.shape[1] == nov or dims is None:
        return X, 0.0
    nocc_f, nvirt_f, n_below, m_above = dims
    Xf = X.reshape(X.shape[0], nocc_f, nvirt_f)
    inside = Xf[:, nocc_f - n_below:, :m_above]
    outside = float(np.sqrt(max(0.0, (Xf ** 2).sum() - (inside ** 2).sum())))
    return inside.reshape(X.shape[0], -1), outside


def _rpa_pair_checks(amp, m, n, Am, Bm, w, tol, dims=None):
    """RPA eigenvectors (X, Y): A X + B Y = w X, B X + A Y = -w Y, X.X - Y.Y = 1 (state by state and between states)"""
    X = amp[0][m].detach().numpy()[:n].reshape(n, -1)
    Y = amp[1][m].detach().numpy()[:n].reshape(n, -1)
    X, ox = _to_window(X, Am.shape[0], dims)
    Y, oy = _to_window(Y, Am.shape[0], dims)
    if max(ox, oy) > 1e-8:
        return [f"amplitude weight {max(ox, oy):.2e} outside the requested orbital window"], {"window"}
    bad, kinds = [], set()
    r1 = np.linalg.norm(Am @ X.T + Bm @ Y.T - X.T * w[None, :], axis=0).max()
    r2 = np.linalg.norm(Bm @ X.T + Am @ Y.T + Y.T * w[None, :], axis=0).max()
    if max(r1, r2) > max(200 * tol, 5e-6):
        bad.append(f"RPA residual {max(r1, r2):.2e} above the tolerance {tol}"); kinds.add("residual")
    N = X @ X.T - Y @ Y.T
    if np.abs(N - np.eye(n)).max() > max(1e-5, 1000 * tol):
        bad.append(f"RPA amplitudes not (X.X - Y.Y)-orthonormal ({np.abs(N - np.eye(n)).max():.2e})"); kinds.add("orthonormal")
    return bad, kinds


def probe_eigenpairs(inp: Dict[str, Any]) -> Dict[str, Any]:
    import torch

    names = inp["names"]
    method = inp.get("xmethod", "cis")
    tol = inp.get("tolerance", 1e-8)
    xd = {"n_states": inp["n_states"], "method": method, "tolerance": tol}
    if inp.get("window"):
        xd["orbital_window"] = list(inp["window"])     # active space: the top n occupied and the lowest m virtual orbitals
    sp = esh.settings(method=inp.get("method", "AM1"), eps=1e-11, converger=[1], excited=xd)
    coords = None
    if inp.get("symmetric"):
        coords = [np.array(inp["symmetric"])]
    if inp.get("explicit_coords"):
        coords = [np.array(c) for c in inp["explicit_coords"]]
    if inp.get("distort"):
        # homogeneous batch of different conformers: molecule i distorted by distort[i] (different amounts -> the iterative solver finishes them in different iterations)
        rngd = np.random.default_rng(inp.get("seed", 0))
        coords = [esh.geom(nm)[1] + rngd.normal(size=esh.geom(nm)[1].shape) * float(dd) for nm, dd in zip(names, inp["distort"])]
    try:
        r = esh.run_named(names, sp, coords=coords)
    except Exception as e:
        if "negative eigenvalues" in str(e) and method == "rpa" and (inp.get("distort") or inp.get("explicit_coords")):
            # the package refuses an unstable reference loudly (A-B not positive definite at a strongly distorted conformer): outside the quantifier
            return {"ok": True, "observed": ["unstable reference rejected by the package: " + str(e)[:80]], "expected": "", "predicate": "",
                    "fields": {"kinds": [], "xmethod": method}, "nontrivial": False}
        raise
    mol = r["_mol"]
    bad: List[str] = []
    kinds = set()
    A, B, nocc, nvirt, Cocc, Cvirt, ea_ei = _dense(mol, inp.get("window"))
    nov = nocc * nvirt
    E = r["cis_energies"]
    wdims = None
    if inp.get("window"):
        wdims = (int(mol.nocc[0]), int(mol.norb[0]) - int(mol.nocc[0]), int(inp["window"][0]), int(inp["window"][1]))
    unstable: List[int] = []
    for m in range(len(names)):
        Am, Bm = A[m], B[m]
        if np.abs(Am - Am.T).max() > 1e-10 or np.abs(Bm - Bm.T).max() > 1e-10:
            bad.append(f"mol{m}: dense A/B not symmetric"); kinds.add("symmetry")
        if method in ("cis", "tda"):
            ref = np.linalg.eigvalsh(0.5 * (Am + Am.T))
        else:
            M = (Am - Bm) @ (Am + Bm)
            ev = np.linalg.eigvals(M)
            ref = np.sort(np.sqrt(np.abs(ev.real)))
        n = inp["n_states"]
        if ref[0] <= 1e-4:
            # the dense response matrix has a non-positive eigenvalue: the reference is unstable at this (strongly distorted) geometry -
            # outside the property's quantifier ("positive for a stable reference"); nothing is demanded of this member
            unstable.append(m)
            continue
        d = float(np.abs(E[m][:n] - ref[:n]).max())
        if d > max(20 * tol, 5e-7):
            bad.append(f"mol{m}: returned energies differ from the lowest dense eigenvalues by {d:.2e}: {E[m][:n].round(6).tolist()} vs {ref[:n].round(6).tolist()}"); kinds.add("lowest")
        if (np.diff(E[m][:n]) < -1e-9).any():
            bad.append(f"mol{m}: energies not ascending"); kinds.add("order")
        if (E[m][:n] <= 0).any():
            bad.append(f"mol{m}: non-positive excitation energy"); kinds.add("positive")
        amp = mol.cis_amplitudes
        if method in ("cis", "tda"):
            X = amp[m].detach().numpy()[:n].reshape(n, -1)
            X, ow = _to_window(X, Am.shape[0], wdims)
            if ow > 1e-8:
                bad.append(f"mol{m}: amplitude weight {ow:.2e} outside the requested orbital window"); kinds.add("window")
            if np.abs(X @ X.T - np.eye(n)).max() > max(1e-6, 100 * tol):
                bad.append(f"mol{m}: amplitudes not orthonormal ({np.abs(X @ X.T - np.eye(n)).max():.2e})"); kinds.add("orthonormal")
            res = np.linalg.norm(Am @ X.T - X.T * E[m][:n][None, :], axis=0).max()
            if res > max(50 * tol, 1e-6):
                bad.append(f"mol{m}: residual {res:.2e} above the tolerance {tol}"); kinds.add("residual")
        if method == "rpa" and amp is not None and amp.dim() == 4:
            bad_r, kinds_r = _rpa_pair_checks(amp, m, n, Am, Bm, E[m][:n], tol, dims=wdims)
            bad += [f"mol{m}: " + b for b in bad_r]
            kinds |= kinds_r
        if inp.get("check_apb", True) and m == 0:
            apb = _apb_from_fock(mol, nocc, nvirt, Cocc, Cvirt, ea_ei, m)
            dd = float(np.abs(apb - (Am + Bm)).max())
            if dd > 1e-8:
                bad.append(f"dense (A+B) from the sigma routine differs from the ground-state Fock response by {dd:.2e}"); kinds.add("apb")
    # RPA never above CIS
    if inp.get("check_rpa_le_cis") and method in ("cis", "tda"):
        sp2 = esh.settings(method=inp.get("method", "AM1"), eps=1e-11, converger=[1], excited={"n_states": inp["n_states"], "method": "rpa", "tolerance": tol})
        r2 = esh.run_named(names, sp2, coords=coords)
        if (r2["cis_energies"][:, : inp["n_states"]] > E[:, : inp["n_states"]] + max(1e-7, 20 * tol)).any():
            bad.append("an RPA energy exceeds the corresponding CIS energy"); kinds.add("rpa_le_cis")
    return {"ok": not bad, "observed": bad[:6], "expected": "lowest eigenpairs of the dense response matrices", "predicate": "",
            "fields": {"kinds": sorted(kinds), "xmethod": method, "method": inp.get("method", "AM1"), "molecule": "+".join(names), "n_states": inp["n_states"], "window": bool(inp.get("window"))}}


def probe_guess_independence(inp: Dict[str, Any]) -> Dict[str, Any]:
    """energies at geometry B do not depend on whether amplitudes from geometry A were reused"""
    import torch

    from seqm.ElectronicStructure import Electronic_Structure
    from seqm.Molecule import Molecule
    from seqm.seqm_functions.constants import Constants

    name = inp["name"]
    z, x = esh.geom(name)
    rng = np.random.default_rng(inp["seed"])
    xb = x + rng.normal(size=x.shape) * inp.get("disp", 0.03)
    sp = esh.settings(method=inp.get("method", "AM1"), eps=1e-11, converger=[1], excited={"n_states": inp["n_states"], "method": inp.get("xmethod", "cis"), "tolerance": 1e-8})
    cold = esh.run(np.array([z]), np.array([xb]), sp)["cis_energies"]
    import copy
    spc = copy.deepcopy(sp)
    with contextlib.redirect_stdout(io.StringIO()):
        mol = Molecule(Constants(), spc, torch.as_tensor(np.array([x])), torch.as_tensor(np.array([z])))
        es = Electronic_Structure(spc)
        es(mol)
        with torch.no_grad():
            mol.coordinates.copy_(torch.as_tensor(np.array([xb])))
        try:
            es(mol, P0=mol.dm, cis_amp=mol.cis_amplitudes)
        except RuntimeError as e:
            return {"ok": False, "observed": [f"amplitude reuse raises {type(e).__name__}: {str(e)[:120]}"], "expected": "independent of starting guess", "predicate": "",
                    "fields": {"kinds": ["reuse_raises"], "xmethod": inp.get("xmethod", "cis")}}
    warm = mol.cis_energies.numpy()
    d = float(np.abs(warm - cold).max())
    bad = []
    if d > 1e-6:
        bad.append(f"excitation energies depend on amplitude reuse: {d:.2e} ({warm.round(6).tolist()} vs {cold.round(6).tolist()})")
    return {"ok": not bad, "observed": bad, "expected": "independent of starting guess", "predicate": "", "fields": {"kinds": ["guess"] if bad else [], "xmethod": inp.get("xmethod", "cis")}}


def _solver_iterations(names, coords, n_states, xmethod, method, tol):
    """Davidson iteration count per molecule as printed by the real routine (CIS: one tensor line, RPA: one line per molecule)"""
    import re

    import torch
    from seqm.ElectronicStructure import Electronic_Structure
    from seqm.Molecule import Molecule
    from seqm.seqm_functions.constants import Constants

    sp = esh.settings(method=method, eps=1e-11, converger=[1], excited={"n_states": n_states, "method": xmethod, "tolerance": tol})
    s_, x_, _, _ = esh.batch(names, coords=coords)
    buf = io.StringIO()
    with contextlib.redirect_stdout(buf):
        mol = Molecule(Constants(), sp, torch.as_tensor(x_), torch.as_tensor(s_))
        mol.verbose = True
        Electronic_Structure(sp)(mol)
    t = buf.getvalue()
    m = re.search(r"Number of davidson iterations: tensor\(\[([0-9, ]+)\]\)", t)
    if m:
        return [int(v) for v in m.group(1).split(",")]
    return [int(v) for v in re.findall(r"Number of davidson iterations: (\d+)", t)][-len(names):]


def probe_staggered_batch(inp: Dict[str, Any]) -> Dict[str, Any]:
    """coverage-directed: from a pool of conformers pick a batch in which the iterative solver finishes the molecules in DIFFERENT iterations
    (an early-indexed one before a later-indexed one and the other way round), then demand the dense-reference eigenpairs for every member"""
    nm, xm, method = inp["name"], inp.get("xmethod", "rpa"), inp.get("method", "AM1")
    rng = np.random.default_rng(inp["seed"])
    x0 = esh.geom(nm)[1]
    pool = [x0] + [x0 + rng.normal(size=x0.shape) * d for d in (0.02, 0.06, 0.12, 0.2, 0.3, 0.15, 0.25)]
    tried = []
    found = None
    # search the solver settings for one under which the conformers need different numbers of iterations
    for n, tol in [(inp["n_states"], inp.get("tolerance", 1e-7)), (inp["n_states"] + 1, 1e-6), (max(1, inp["n_states"] - 1), 1e-9), (inp["n_states"] + 2, 1e-8), (1, 1e-6), (inp["n_states"], 1e-5)]:
        its = []
        for xx in pool:
            try:
                its.append(_solver_iterations([nm], [xx], n, xm, method, tol)[0])
            except Exception:
                its.append(None)
        tried.append((n, tol, its))
        ok_idx = [i for i, v in enumerate(its) if v is not None]
        order = sorted(ok_idx, key=lambda i: its[i])
        if len(order) >= 3 and its[order[0]] != its[order[-1]]:
            found = (n, tol)
            break
    if found is None:
        return {"ok": True, "observed": [f"no solver setting with different iteration counts found: {tried}"], "expected": "", "predicate": "", "fields": {"kinds": [], "xmethod": xm}, "nontrivial": False}
    n, tol = found
    inp = dict(inp, n_states=n, tolerance=tol)
    lo, hi, mid = order[0], order[-1], order[len(order) // 2]
    pick = [lo, hi, mid, lo] if inp.get("layout", 0) == 0 else [hi, lo, hi, mid]
    sub = dict(inp, names=[nm] * len(pick), distort=None, check_apb=False)
    # reuse the eigenpair predicate with explicit coordinates
    sub["explicit_coords"] = [pool[i].tolist() for i in pick]
    try:
        r = probe_eigenpairs(sub)
    except Exception as e:
        # every member is solvable alone (its[] above): a batch-only failure is a dependence on batch composition
        return {"ok": False, "observed": [f"each conformer is solved alone (iterations {[its[i] for i in pick]}), but the batch raises {type(e).__name__}: {str(e)[:120]}"], "expected": "", "predicate": "",
                "fields": {"kinds": ["batch_raises"], "xmethod": xm, "molecule": nm, "n_states": n, "method": method}}
    r["observed"] = (r["observed"] or []) + [f"iterations alone {[its[i] for i in pick]}"]
    r["nontrivial"] = True
    return r


def probe_second_evaluation(inp: Dict[str, Any]) -> Dict[str, Any]:
    """the same Molecule object evaluated again after its coordinates moved (what MD, optimisation and scans do; no explicit guess passed):
    energies must be those of a fresh object at the new geometry, amplitudes true eigenvectors in the object's own orbital basis"""
    import copy

    import torch
    from seqm.ElectronicStructure import Electronic_Structure
    from seqm.Molecule import Molecule
    from seqm.seqm_functions.constants import Constants

    names = inp["names"]
    method = inp.get("xmethod", "cis")
    n = inp["n_states"]
    tol = 1e-8
    rng = np.random.default_rng(inp["seed"])
    sp = esh.settings(method=inp.get("method", "AM1"), eps=1e-11, converger=[1], excited={"n_states": n, "method": method, "tolerance": tol})
    s_, x0, ch, mu = esh.batch(names)
    bad, kinds = [], set()
    with contextlib.redirect_stdout(io.StringIO()):
        spc = copy.deepcopy(sp)
        mol = Molecule(Constants(), spc, torch.as_tensor(x0.copy()), torch.as_tensor(s_))
        es = Electronic_Structure(spc)
        es(mol)
    x = x0.copy()
    for step in range(inp.get("steps", 3)):
        x = x + (s_ > 0)[..., None] * rng.normal(size=x.shape) * inp.get("disp", 0.04)
        with contextlib.redirect_stdout(io.StringIO()):
            with torch.no_grad():
                mol.coordinates.copy_(torch.as_tensor(x))
            try:
                es(mol)
            except Exception as e:
                return {"ok": False, "observed": [f"second evaluation on the same object raises {type(e).__name__}: {str(e)[:120]}"], "expected": "", "predicate": "",
                        "fields": {"kinds": ["second_eval_raises"], "xmethod": method}}
        fresh = esh.run(s_, x, sp)
        E, Ef = mol.cis_energies.detach().numpy(), fresh["cis_energies"]
        d = float(np.abs(E[:, :n] - Ef[:, :n]).max())
        if d > 1e-6:
            bad.append(f"evaluation {step + 2} on the same object: excitation energies differ from a fresh object at the same geometry by {d:.2e} eV"); kinds.add("history_energy")
        A, B, nocc, nvirt, Cocc, Cvirt, ea_ei = _dense(mol)
        amp = mol.cis_amplitudes
        for m in range(len(names)):
            if method == "rpa":
                b_, k_ = _rpa_pair_checks(amp, m, n, A[m], B[m], E[m][:n], tol)
            else:
                X = amp[m].detach().numpy()[:n].reshape(n, -1)
                b_, k_ = [], set()
                res = np.linalg.norm(A[m] @ X.T - X.T * E[m][:n][None, :], axis=0).max()
                if res > 1e-6:
                    b_.append(f"residual {res:.2e}"); k_.add("residual")
                if np.abs(X @ X.T - np.eye(n)).max() > 1e-6:
                    b_.append("amplitudes not orthonormal"); k_.add("orthonormal")
            bad += [f"evaluation {step + 2}, mol{m}: " + t for t in b_]
            kinds |= k_
        if bad:
            break
    return {"ok": not bad, "observed": bad[:5], "expected": "same-object re-evaluation = fresh evaluation; amplitudes stay eigenvectors", "predicate": "",
            "fields": {"kinds": sorted(kinds), "xmethod": method, "molecule": "+".join(names), "n_states": n}}


def probe_uninit_buffers(inp: Dict[str, Any]) -> Dict[str, Any]:
    """uninitialised scratch memory may hold ANY bit pattern: the staggered RPA batch is solved again with `torch.empty_like` of the solver module returning
    NaN-filled tensors (the worst the allocator can hand out). Every entry the solver reads must be one it has written (finding F34: the A*V / B*V buffers
    entered batched products multiplied by zero vectors, 0 * NaN = NaN, and the batch stopped with a LinAlgError that depended on the allocator)"""
    import torch

    import seqm.seqm_functions.rpa as R

    class _T:
        def __getattr__(self, k):
            return getattr(torch, k)

        def empty_like(self, x, *a, **k):
            return torch.full_like(x, float("nan"))
    old = R.torch
    R.torch = _T()
    try:
        r = probe_staggered_batch(dict(inp, xmethod="rpa"))
    finally:
        R.torch = old
    r["fields"] = dict(r.get("fields") or {}, probe="uninit_buffers")
    if not r["ok"]:
        r["fields"]["kinds"] = sorted(set(r["fields"].get("kinds", [])) | {"uninitialised_read"})
        r["observed"] = ["with NaN-filled uninitialised buffers: " + str(o)[:200] for o in r["observed"][:3]]
    return r


PROBES = {"uninit_buffers": probe_uninit_buffers, "staggered_batch": probe_staggered_batch, "second_evaluation": probe_second_evaluation, "eigenpairs": probe_eigenpairs, "guess_independence": probe_guess_independence}

CH4_TD = [[0.0, 0.0, 0.0], [0.629, 0.629, 0.629], [0.629, -0.629, -0.629], [-0.629, 0.629, -0.629], [-0.629, -0.629, 0.629]]
C2H4_D2H = [[0, 0, 0.6695], [0, 0, -0.6695], [0, 0.9289, 1.2321], [0, -0.9289, 1.2321], [0, 0.9289, -1.2321], [0, -0.9289, -1.2321]]
NH3_SYM = [[0.0, 0, 0.1173], [0, 0.9377, -0.2737], [0.8121, -0.4689, -0.2737], [-0.8121, -0.4689, -0.2737]]


def gen_cases(ctx: Ctx):
    rng = ctx.rng
    cases = []
    cases.append(("eigenpairs", {"names": ["h2o"], "n_states": 8, "xmethod": "cis", "check_rpa_le_cis": True}))   # all roots (nov = 8)
    cases.append(("eigenpairs", {"names": ["nh3"], "n_states": 5, "xmethod": "cis", "symmetric": NH3_SYM, "check_rpa_le_cis": True}))  # degenerate pairs
    # exactly symmetric molecules: triply degenerate states (T_d methane) and many states of D2h ethene - the Ritz ordering changes between iterations
    sym_cases = [("ch4", CH4_TD, 3), ("c2h4", C2H4_D2H, 12), ("ch4", CH4_TD, 1), ("c2h4", C2H4_D2H, 4), ("ch4", CH4_TD, 6)]
    for nm, geo, ns in (sym_cases if ctx.thorough else [sym_cases[ctx.seed % 2], sym_cases[2 + ctx.seed % 3]]):
        cases.append(("eigenpairs", {"names": [nm], "n_states": ns, "xmethod": "cis", "symmetric": geo, "check_apb": False, "tolerance": 1e-6}))
    cases.append(("eigenpairs", {"names": ["ch2o"], "n_states": 4, "xmethod": "rpa"}))
    cases.append(("eigenpairs", {"names": ["h2o", "h2o"], "n_states": 3, "xmethod": "cis", "method": "PM3"}))
    cases.append(("eigenpairs", {"names": ["ch4"], "n_states": 4, "xmethod": "cis", "method": "AM1", "check_apb": False}))  # corpus: near-degenerate T2 set, 4th root skipped (known finding F20)
    # homogeneous batches of different conformers (one nearly at equilibrium, others strongly distorted: they converge in different iterations), both orders
    dist = [0.0, 0.12, 0.03, 0.2]
    for i, (nm, k) in enumerate([("ch2o", 3), ("h2o", 4), ("nh3", 3), ("hcn", 4)][: (4 if ctx.thorough else 2)]):
        d = dist[:k] if (i + ctx.seed) % 2 == 0 else dist[:k][::-1]
        cases.append(("eigenpairs", {"names": [nm] * k, "n_states": 3, "xmethod": "rpa", "method": ["AM1", "PM3"][i % 2], "distort": d, "seed": int(rng.integers(0, 10**6)), "check_apb": False}))
        cases.append(("eigenpairs", {"names": [nm] * k, "n_states": 3, "xmethod": "cis", "method": ["AM1", "PM3"][i % 2], "distort": d[::-1], "seed": int(rng.integers(0, 10**6)), "check_apb": False}))
    for i, (nm, ns) in enumerate([("ch2o", 2), ("hcn", 3), ("h2o", 2), ("ch2o", 4), ("co", 3), ("hcn", 2)][: (6 if ctx.thorough else 3)]):
        cases.append(("staggered_batch", {"name": nm, "n_states": ns, "xmethod": ["rpa", "cis"][(i + ctx.seed) % 2] if i else "rpa", "method": ["AM1", "PM3", "MNDO"][i % 3], "seed": int(rng.integers(0, 10**6)), "layout": (i + ctx.seed) % 2}))
    cases.append(("uninit_buffers", {"name": ["ch2o", "hcn", "h2o"][ctx.seed % 3], "n_states": 2, "method": ["AM1", "PM3"][ctx.seed % 2], "seed": int(rng.integers(0, 10**6)), "layout": ctx.seed % 2}))
    # orbital windows (restricted active space): the reference is the dense matrix in the SAME window
    for i, (nm, win, ns) in enumerate([("ch2o", [3, 2], 3), ("c2h4", [4, 3], 4), ("h2o", [2, 2], 2), ("hcn", [5, 1], 2)][: (4 if ctx.thorough else 2)]):
        cases.append(("eigenpairs", {"names": [nm] * (1 + i % 2), "n_states": ns, "xmethod": ["cis", "rpa"][(i + ctx.seed) % 2], "method": ["AM1", "PM3"][i % 2], "window": win, "check_apb": False,
                                     "distort": [0.0, 0.05][: 1 + i % 2], "seed": int(rng.integers(0, 10**6))}))
    # the same object re-evaluated along a sequence of nearby geometries
    for i, nm in enumerate(["ch2o", "ch4", "h2o", "nh3"][: (4 if ctx.thorough else 2)]):
        for xm in ("cis", "rpa"):
            cases.append(("second_evaluation", {"names": [nm], "n_states": 3, "xmethod": xm, "seed": int(rng.integers(0, 10**6)), "steps": 3, "method": ["AM1", "PM3"][i % 2]}))
    pool = ["h2o", "nh3", "ch2o", "hcn", "hf", "h2s", "co", "ch4"]
    n = 14 if ctx.thorough else 3
    def _nov(nm_):
        val = {1: 1, 6: 4, 7: 5, 8: 6, 9: 7, 16: 6, 17: 7}
        zs = esh.GEOMS[nm_][0]
        nocc = sum(val[z] for z in zs) // 2
        return nocc * (sum(1 if z == 1 else 4 for z in zs) - nocc)
    for i in range(n):
        nm = str(rng.choice(pool))
        cases.append(("eigenpairs", {"names": [nm], "n_states": min(int(rng.integers(1, 7)), _nov(nm)), "xmethod": ["cis", "rpa"][i % 2], "method": ["AM1", "PM3", "MNDO"][i % 3],
                                     "tolerance": float(rng.choice([1e-6, 1e-8])), "check_rpa_le_cis": i % 2 == 0, "check_apb": i % 3 == 0}))
    for i in range(4 if ctx.thorough else 2):
        cases.append(("guess_independence", {"name": str(rng.choice(["h2o", "ch2o", "nh3"])), "n_states": int(rng.integers(2, 5)), "seed": int(rng.integers(0, 10**6)), "xmethod": ["cis", "rpa"][i % 2]}))
    return cases


def _run_case(item):
    return PROBES[item[0]](item[1])


def _davidson_record(inp):
    """run the REAL rcis_batch and record, per iteration and molecule, which roots are above tolerance and how many
    expansion vectors survived orthogonalisation; plus the bookkeeping the routine reports"""
    import re

    import torch

    import seqm.seqm_functions.rcis_batch as R

    rec = {"resid": [], "kept": [], "maxsub": None, "nstart": None, "nroots": None}
    o_norm, o_orth, o_max, o_guess = torch.linalg.vector_norm, R.orthogonalize_to_current_subspace, R.getMaxSubspacesize, R.make_guess
    tol = inp.get("tolerance", 1e-8)

    def w_norm(x, *a, **k):
        out = o_norm(x, *a, **k)
        if k.get("ord", None) == torch.inf and k.get("dim", None) == 2:
            rec["resid"].append((out > tol).to(torch.int64).tolist())
            rec["kept"].append({})
        return out

    def w_orth(V, newsubspace, vend, vtol):
        ret = o_orth(V, newsubspace, vend, vtol)
        rec["kept"][-1][len(rec["kept"][-1])] = int(ret) - int(vend)
        return ret

    def w_max(*a, **k):
        v = o_max(*a, **k)
        if inp.get("maxsub"):
            v = min(int(v), int(inp["maxsub"]))
        rec["maxsub"] = int(v)
        return v

    def w_guess(approxH, nroots, maxSub, V, nmol, nov):
        ns, nr = o_guess(approxH, nroots, maxSub, V, nmol, nov)
        rec["nstart"], rec["nroots"], rec["nov"], rec["nmol"] = int(ns), int(nr), int(nov), int(nmol)
        return ns, nr
    torch.linalg.vector_norm, R.orthogonalize_to_current_subspace, R.getMaxSubspacesize, R.make_guess = w_norm, w_orth, w_max, w_guess
    buf = io.StringIO()
    try:
        sp = esh.settings(method=inp.get("method", "AM1"), eps=1e-11, converger=[1], excited={"n_states": inp["n_states"], "method": "cis", "tolerance": tol})
        s, x, ch, mu = esh.batch(inp["names"])
        from seqm.ElectronicStructure import Electronic_Structure
        from seqm.Molecule import Molecule
        from seqm.seqm_functions.constants import Constants
        with contextlib.redirect_stdout(buf):
            mol = Molecule(Constants(), sp, torch.as_tensor(x), torch.as_tensor(s))
            es = Electronic_Structure(sp)
            mol.verbose = True
            es(mol)
        outcome = "returned"
    except Exception as e:
        outcome = "raised:" + str(e)[:60]
    finally:
        torch.linalg.vector_norm, R.orthogonalize_to_current_subspace, R.getMaxSubspacesize, R.make_guess = o_norm, o_orth, o_max, o_guess
    m = re.search(r"Number of davidson iterations: tensor\(\[([0-9, ]+)\]\), number of subspace collapses: tensor\(\[([0-9, ]+)\]\)", buf.getvalue())
    rec["n_iters"] = [int(v) for v in m.group(1).split(",")] if m else None
    rec["n_coll"] = [int(v) for v in m.group(2).split(",")] if m else None
    rec["outcome"] = outcome
    return rec


def corr_davidson(ctx: Ctx, drv):
    rng = ctx.rng
    cases = [{"names": ["h2o"], "n_states": 3}, {"names": ["ch2o", "ch2o"], "n_states": 4}, {"names": ["nh3"], "n_states": 5, "maxsub": 8}, {"names": ["nh3"], "n_states": 3, "maxsub": 7}]
    if ctx.thorough:
        cases += [{"names": [str(rng.choice(["hcn", "co", "h2s", "ch4"]))], "n_states": int(rng.integers(1, 6)), "method": str(rng.choice(["AM1", "PM3"])),
                   "maxsub": int(rng.choice([0, 6, 10]))} for _ in range(6)]
    for c, rec in zip(cases, mdh.pmap(_davidson_record, cases, nproc=4)):
        if isinstance(rec, Exception) or rec is None or rec.get("nstart") is None:
            ctx.obligation("davidson recording evaluated", False, repr(rec)[-1000:], kind="harness")
            continue
        nmol, nroots, niter = rec["nmol"], rec["nroots"], len(rec["resid"])
        toks = ["davidson", nmol, nroots, rec["nstart"], rec["maxsub"], rec["nov"], 200, 0, niter]
        for it in range(niter):
            # kept counts are recorded in the order molecules were orthogonalised (ascending molecule index among the not-done ones)
            active = []
            for mi in range(nmol):
                active.append(mi)
            kept_list = list(rec["kept"][it].values())
            ki = 0
            for mi in range(nmol):
                r = rec["resid"][it][mi][:nroots]
                k = 0
                if any(r) and ki < len(kept_list):
                    # a molecule with unconverged roots that is not done gets orthogonalised; done molecules are skipped by the routine,
                    # their data is ignored by the model as well, so a zero is supplied
                    k = kept_list[ki] if _not_done_yet(rec, it, mi) else 0
                    ki += 1 if _not_done_yet(rec, it, mi) else 0
                toks += [max(k, 0)] + r
        ans = drv.ask(*toks)
        ok = False
        if ans and ans[0] == "returned" and rec["outcome"] == "returned" and rec["n_iters"] is not None:
            st = [a.split(",") for a in ans[2:]]
            ok = len(st) == nmol and all(int(st[m_][4]) == rec["n_iters"][m_] and int(st[m_][3]) == rec["n_coll"][m_] and st[m_][0] in ("1", "true") for m_ in range(nmol))
        if ans and ans[0] == "nomem" and rec["outcome"].startswith("raised:Insufficient memory"):
            ok = True
        if ans and ans[0] == "maxiter" and rec["outcome"].startswith("raised:Maximum iterations"):
            ok = True
        ctx.corr_case("rcis_batch Davidson control flow (recorded)", {"names": c["names"], "n_states": c["n_states"], "maxsub": rec["maxsub"], "iterations": niter},
                      ans[:6], {"outcome": rec["outcome"], "n_iters": rec["n_iters"], "n_coll": rec["n_coll"]}, ok, stratum="collapse" if rec["n_coll"] and max(rec["n_coll"]) > 0 else "plain")


def _not_done_yet(rec, it, mi):
    """a molecule is done once all its roots were below tolerance in an earlier (or this) iteration"""
    for j in range(it + 1):
        if not any(rec["resid"][j][mi]):
            return False
    return True


def run(ctx: Ctx):
    leanproj.check_theorems(ctx, MODULE, THEOREMS)
    from .registry import THEOREMS_C16B, THEOREMS_C16C
    leanproj.check_theorems(ctx, "PyseqmVerif.Properties.C16b", THEOREMS_C16B)
    # formal content of the known findings F20 / F20b: zero residuals certify eigenpairs, not that they are the lowest
    leanproj.check_theorems(ctx, "PyseqmVerif.Properties.C16c", THEOREMS_C16C)
    drv = leanproj.Driver()
    try:
        try:
            corr_davidson(ctx, drv)
        except Exception:
            import traceback
            ctx.obligation("correspondence adapters C16 ran", False, traceback.format_exc()[-1500:], kind="harness")
    finally:
        drv.close()
    cases = gen_cases(ctx)
    results = mdh.pmap(_run_case, cases, timeout=2400)
    for (name, c), r in zip(cases, results):
        if isinstance(r, Exception) or r is None:
            ctx.obligation(f"probe {name} evaluated", False, repr(r)[-1500:], kind="harness")
            continue
        ctx.probe_case(name, c, r["ok"], fields=r["fields"], observed=r["observed"], expected=r["expected"], predicate=r["predicate"], stratum=name + "/" + str(c.get("xmethod")), nontrivial=r.get("nontrivial", True))
