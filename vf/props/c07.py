"""C07 - outputs are correctly differentiable in coordinates and Hamiltonian parameters."""
from __future__ import annotations

import contextlib
import io
from typing import Any, Dict, List

import numpy as np

from .. import esh, leanproj, mdh
from ..core import Ctx, b2f, f2b

MODULE = "PyseqmVerif.Properties.C07"
try:
    from .registry import THEOREMS_C07 as THEOREMS  # type: ignore
except Exception:  # pragma: no cover
    THEOREMS = []

META = {
    "technique": "Lean 4 calculus/linear algebra (implicit-function adjoint identity solved by the Picard iteration, implicit derivative of the additive-term roots with the code's hand-written backward compared against it, identity-preserving parameter packing) + correspondence of the custom backward formulas + finite-difference lattice over parameter names x backward modes x outputs on the real code",
    "level_text": "Theorems: if (1 - A) is invertible the gradient v^T (1-A)^-1 B equals u^T B for the fixed point u = v + A^T u of the Picard map used by the implicit SCF backward; for a differentiable root rho(h, D) of r(rho, D) = h: d rho/d h = 1/d_rho r and d rho/d D = -d_D r/d_rho r, and the backward formulas of additive_term_rho1/2 are compared with these (code model = true derivative after the repair; the reciprocal form is refuted by a witness); a learned parameter receives a gradient iff the packed map keeps the caller's object (no copy interposed). Tied to the code by comparing the real custom backward passes with the compiled model and by central finite differences of Etot, Hf, gap, HOMO energy and charges with respect to every learnable parameter name, for leaf and non-leaf tensors, scf_backward in {0,1,2}, and parameters that are callables of the geometry. Translator tie (regenerated every run): start values, loop body, trip count, final expression and the hand-written backward of additive_term_rho1/rho2 are translated statement by statement; the backward is proved equal to the implicit-function derivative (the pre-repair reciprocal form is a different term), the forward to five secant steps on the residual functions (RootTie).",
    "level_note": "Trusted: Lean kernel; harness; FD tolerance 2e-4 relative + 2e-6 absolute. Partial: autograd graph semantics (what is saved/detached) are exhibited by the probes and modelled only through the 'partials w.r.t. direct inputs' hypothesis of the adjoint theorem; Hessian symmetry is probed (thorough), Schwarz's theorem is not re-proved.",
    "design_ref": "DESIGN.md section 5 C07",
}

PARAMS = {"PM6_SP": ["U_ss", "U_pp", "zeta_s", "zeta_p", "beta_s", "beta_p", "g_ss", "g_sp", "g_pp", "g_p2", "h_sp", "alpha"],
          "AM1": ["U_ss", "U_pp", "zeta_s", "zeta_p", "beta_s", "beta_p", "g_ss", "g_sp", "g_pp", "g_p2", "h_sp", "alpha", "Gaussian1_K", "Gaussian2_L", "Gaussian1_M"],
          "MNDO": ["U_ss", "U_pp", "zeta_s", "zeta_p", "beta_s", "beta_p", "g_ss", "g_sp", "g_pp", "g_p2", "h_sp", "alpha"],
          "PM3": ["U_ss", "U_pp", "zeta_s", "zeta_p", "beta_s", "beta_p", "g_ss", "g_sp", "g_pp", "g_p2", "h_sp", "alpha", "Gaussian1_K", "Gaussian2_L", "Gaussian2_M"]}


def _setup(names, method, param, mode, converger=None, uhf=False, bw_eps=1e-11, eps=1e-11):
    import torch

    from seqm.basics import Energy
    from seqm.Molecule import Molecule
    from seqm.seqm_functions.constants import Constants

    s, x, ch, mu = esh.batch(names)
    base_sp = esh.settings(method=method, eps=1e-11, converger=[1], uhf=uhf)
    with contextlib.redirect_stdout(io.StringIO()):
        m0 = Molecule(Constants(), dict(base_sp), torch.as_tensor(x), torch.as_tensor(s), **({"mult": torch.as_tensor(np.asarray(mu), dtype=torch.float64)} if uhf else {}))
    p0 = m0.parameters[param].detach().clone()
    sp = esh.settings(method=method, eps=eps, converger=list(converger or [1]), learned=[param], scf_backward=mode, scf_backward_eps=bw_eps, uhf=uhf)
    with contextlib.redirect_stdout(io.StringIO()):
        mol = Molecule(Constants(), sp, torch.as_tensor(x), torch.as_tensor(s), learned_parameters={param: p0.clone()},
                       **({"mult": torch.as_tensor(np.asarray(mu), dtype=torch.float64)} if uhf else {}))
        en = Energy(sp)
    return mol, en, p0, sp


def _outputs(mol, en, learned, which):
    import torch

    with contextlib.redirect_stdout(io.StringIO()):
        Hf, Etot, Eelec, Enuc, Eiso, EnucAB, e_gap, e, P, charge, notconv = en(mol, learned_parameters=learned, all_terms=True)
    if which == "Etot":
        return Etot.sum()
    if which == "Hf":
        return Hf.sum()
    if which == "gap":
        return e_gap.sum()
    if which == "homo":
        if e.dim() == 3:     # unrestricted: highest occupied alpha orbital
            return e[0, 0, int(mol.nocc[0, 0]) - 1]
        no = int(mol.nocc[0])
        return e[0, no - 1]
    if which == "charges":
        tore = mol.const.tore[mol.species]
        n = mol.species.shape[1]
        Pt = P if P.dim() == 3 else P.sum(dim=1)
        q = tore - Pt.diagonal(dim1=1, dim2=2).reshape(Pt.shape[0], n, 4).sum(-1)
        w = torch.arange(1, n + 1, dtype=q.dtype)
        return (q * w).sum()
    raise ValueError(which)


def probe_param_grad(inp: Dict[str, Any]) -> Dict[str, Any]:
    import torch

    names, method, param, mode, which = inp["names"], inp["method"], inp["param"], inp["mode"], inp["output"]
    mol, en, p0, sp = _setup(names, method, param, mode, converger=inp.get("converger"), uhf=bool(inp.get("uhf")), bw_eps=float(inp.get("bw_eps", 1e-11)))
    wgt = float(inp.get("weight", 1.0))      # loss = weight * output: the gradient is linear in the weight, however small the upstream gradient
    bad: List[str] = []
    kinds = set()
    leaf = inp.get("leaf", True)
    if inp.get("warm"):
        # a training loop re-uses the Molecule/Energy objects: take the gradient on a LATER call, not on the first one
        with torch.no_grad():
            for _ in range(int(inp["warm"])):
                _outputs(mol, en, {param: p0.clone()}, which)
    base = p0.clone().requires_grad_(True)
    t = base if leaf else base * torch.ones_like(base)  # non-leaf: output of an operation (as a network would produce)
    try:
        y = _outputs(mol, en, {param: t}, which)
    except Exception as e:
        return {"ok": False, "observed": [f"differentiable parameter tensor rejected: {type(e).__name__}: {str(e)[:120]}"], "expected": "accepted", "predicate": "",
                "fields": {"kinds": ["rejected"], "param": param, "mode": mode, "output": which, "leaf": leaf}}
    if not y.requires_grad:
        return {"ok": False, "observed": [f"{which} does not depend on the caller's {param} tensor in the autograd graph (requires_grad=False)"], "expected": "gradient reaches the caller's tensor", "predicate": "",
                "fields": {"kinds": ["detached"], "param": param, "mode": mode, "output": which, "leaf": leaf, "warm": bool(inp.get("warm"))}}
    (g,) = torch.autograd.grad(y * wgt, base, allow_unused=True)
    g = None if g is None else g / wgt
    # None = the output does not depend on this parameter in the graph (e.g. orbital energies on the core-core alpha): a zero gradient, checked against FD below
    g = np.zeros(len(p0)) if g is None else g.detach().numpy()
    # density-dependent outputs need scf_backward >= 1; with mode 0 only energies are expected to be right (Hellmann-Feynman)
    idxs = inp.get("atoms") or list(range(len(p0)))
    worst = 0.0
    for i in idxs:
        if float(p0[i]) == 0.0 and param.startswith(("U_pp", "zeta_p", "beta_p", "g_sp", "g_pp", "g_p2", "h_sp")):
            continue  # hydrogen has no p parameters
        h = 1e-4 * max(1.0, abs(float(p0[i])))
        vals = []
        for sgn in (+1, -1):
            pp = p0.clone()
            pp[i] += sgn * h
            with torch.no_grad():
                vals.append(float(_outputs(mol, en, {param: pp}, which)))
        fd = (vals[0] - vals[1]) / (2 * h)
        err = abs(fd - g[i])
        worst = max(worst, err)
        if err > 2e-4 * max(abs(fd), abs(g[i])) + 2e-6:
            bad.append(f"d{which}/d{param}[{i}]: autograd {g[i]:.8f} vs finite difference {fd:.8f}")
            kinds.add("wrong_value")
    return {"ok": not bad, "observed": bad[:4], "expected": "autograd = finite difference", "predicate": "central FD, h = 1e-4 max(1,|p|)",
            "fields": {"kinds": sorted(kinds), "param": param, "mode": mode, "output": which, "leaf": leaf, "method": method,
                       "density_dependent": which in ("gap", "homo", "charges")}}


def probe_grad_linearity(inp: Dict[str, Any]) -> Dict[str, Any]:
    """reverse-mode gradients are linear in the upstream gradient: grad(w * L) = w * grad(L) for any positive weight w, at an ordinary SCF threshold
    (the implicit backward pass solves a linear system iteratively and stops on a tolerance tied to that threshold: the stop test has to be relative)"""
    import torch

    names, method, param, mode, which, w = inp["names"], inp["method"], inp["param"], inp["mode"], inp["output"], float(inp["weight"])
    gs = []
    for wgt in (1.0, w):
        mol, en, p0, sp = _setup(names, method, param, mode, converger=inp.get("converger"), eps=float(inp["eps"]), bw_eps=float(inp["eps"]))
        base = p0.clone().requires_grad_(True)
        y = _outputs(mol, en, {param: base}, which)
        (g,) = torch.autograd.grad(y * wgt, base, allow_unused=True)
        gs.append(np.zeros(len(p0)) if g is None else (g / wgt).detach().numpy())
    scale = float(np.abs(gs[0]).max())
    d = float(np.abs(gs[0] - gs[1]).max())
    ok = d <= 2e-3 * scale + 1e-12
    return {"ok": ok, "observed": [] if ok else [f"grad({w:g} * {which}) / {w:g} differs from grad({which}) by {d:.3e} (largest component {scale:.3e}, scf_eps {inp['eps']:g})"],
            "expected": "gradient linear in the loss weight", "predicate": "|g_w / w - g_1| <= 2e-3 max|g_1|", "fields": {"kinds": [] if ok else ["linearity"], "mode": mode, "output": which, "method": method}}


def probe_geometry_dependent_params(inp: Dict[str, Any]) -> Dict[str, Any]:
    """parameters given as a callable of the geometry: forces include their geometry dependence"""
    import torch

    from seqm.ElectronicStructure import Electronic_Structure
    from seqm.Molecule import Molecule
    from seqm.seqm_functions.constants import Constants

    names, method, param = inp["names"], inp["method"], inp["param"]
    s, x, ch, mu = esh.batch(names)
    sp0 = esh.settings(method=method, eps=1e-11, converger=[1])
    with contextlib.redirect_stdout(io.StringIO()):
        m0 = Molecule(Constants(), dict(sp0), torch.as_tensor(x), torch.as_tensor(s))
    p0 = m0.parameters[param].detach().clone()

    def fn(species, coords):
        real = (species > 0)
        r2 = (coords ** 2).sum(-1)[real]
        return {param: p0 * (1.0 + 0.01 * r2)}
    sp = esh.settings(method=method, eps=1e-11, converger=[1], learned=[param])

    def E_and_F(xx):
        with contextlib.redirect_stdout(io.StringIO()):
            spx = dict(sp)
            mol = Molecule(Constants(), spx, torch.as_tensor(xx), torch.as_tensor(s), learned_parameters=fn)
            es = Electronic_Structure(spx)
            es(mol, learned_parameters=fn)
        # the package differentiates the heat of formation (basics.Force: L = Hf.sum()); with geometry-dependent parameters the
        # isolated-atom reference energy depends on the geometry too, so Hf (not Etot) is the potential whose gradient is the force
        return float(mol.Hf.sum()), mol.force.detach().numpy().copy()
    try:
        e0, F = E_and_F(x)
    except Exception as e:
        return {"ok": False, "observed": [f"callable parameters rejected: {type(e).__name__}: {str(e)[:120]}"], "expected": "accepted", "predicate": "", "fields": {"kinds": ["rejected"], "param": param}}
    rng = np.random.default_rng(inp.get("seed", 0))
    d = rng.normal(size=x.shape) * (s > 0)[..., None]
    d /= np.linalg.norm(d)
    h = 1e-3
    fd = (4 * (E_and_F(x + h / 2 * d)[0] - E_and_F(x - h / 2 * d)[0]) / h - (E_and_F(x + h * d)[0] - E_and_F(x - h * d)[0]) / (2 * h)) / 3
    an = -float((F * d).sum())
    bad = []
    if abs(fd - an) > 5e-6:
        bad.append(f"force with geometry-dependent {param}: -F.d = {an:.7f} vs dE/ds = {fd:.7f}")
    return {"ok": not bad, "observed": bad, "expected": "forces include the dependence of the parameters on the geometry", "predicate": "", "fields": {"kinds": ["geometry_params"] if bad else [], "param": param}}


def probe_hessian(inp: Dict[str, Any]) -> Dict[str, Any]:
    """unrolled back-propagation: Hessian symmetric and equal to the FD derivative of the forces"""
    import torch

    from seqm.basics import Energy
    from seqm.Molecule import Molecule
    from seqm.seqm_functions.constants import Constants

    names, method = inp["names"], inp["method"]
    s, x, ch, mu = esh.batch(names)
    if inp.get("near_symmetric"):
        # an exactly symmetric molecule whose coordinates carry noise of the size an optimiser leaves: orbital levels that are degenerate by symmetry are
        # split by tiny amounts, the regime where the derivative of the eigen-decomposition needs its degeneracy handling
        sym = {"ch4": [[0.0, 0.0, 0.0], [0.63, 0.63, 0.63], [-0.63, -0.63, 0.63], [-0.63, 0.63, -0.63], [0.63, -0.63, -0.63]],
               "nh3": [[0.0, 0, 0.1173], [0, 0.9377, -0.2737], [0.8121, -0.4689, -0.2737], [-0.8121, -0.4689, -0.2737]]}[names[0]]
        rngn = np.random.default_rng(inp.get("seed", 0))
        x = (np.array(sym) + rngn.normal(size=(len(sym), 3)) * float(inp["near_symmetric"]))[None]
    sp = esh.settings(method=method, eps=1e-12, converger=[0, 0.1], scf_backward=2)

    def grad_at(xx, create_graph=False):
        with contextlib.redirect_stdout(io.StringIO()):
            spx = dict(sp)
            mol = Molecule(Constants(), spx, torch.as_tensor(xx), torch.as_tensor(s))
            en = Energy(spx)
            out = en(mol, all_terms=True)
        (g,) = torch.autograd.grad(out[1].sum(), mol.coordinates, create_graph=create_graph)
        return g, mol
    g, mol = grad_at(x, True)
    n = g.numel()
    H = torch.stack([torch.autograd.grad(g.reshape(-1)[i], mol.coordinates, retain_graph=True)[0].reshape(-1) for i in range(n)]).numpy()
    bad = []
    asym = float(np.abs(H - H.T).max())
    if asym > 1e-5:
        bad.append(f"Hessian from unrolled back-propagation is not symmetric ({asym:.2e})")
    h = 1e-4
    for i in inp.get("cols", [0, 4]):
        dx = np.zeros(n)
        dx[i] = h
        gp = grad_at(x + dx.reshape(x.shape))[0].detach().numpy().reshape(-1)
        gm = grad_at(x - dx.reshape(x.shape))[0].detach().numpy().reshape(-1)
        fd = (gp - gm) / (2 * h)
        d = float(np.abs(fd - H[:, i]).max())
        if d > 5e-4:
            bad.append(f"Hessian column {i} differs from the finite-difference derivative of the gradient by {d:.2e}")
    return {"ok": not bad, "observed": bad, "expected": "symmetric Hessian = FD of forces", "predicate": "", "fields": {"kinds": ["hessian"] if bad else []}}


PROBES = {"grad_linearity": probe_grad_linearity, "param_grad": probe_param_grad, "geometry_dependent_params": probe_geometry_dependent_params, "hessian": probe_hessian}


def gen_cases(ctx: Ctx):
    rng = ctx.rng
    cases = []
    # corpus: the historical defects
    cases.append(("param_grad", {"names": ["h2o"], "method": "AM1", "param": "U_ss", "mode": 0, "output": "Etot", "leaf": True}))
    cases.append(("param_grad", {"names": ["h2o"], "method": "AM1", "param": "U_ss", "mode": 0, "output": "Etot", "leaf": False}))
    cases.append(("param_grad", {"names": ["h2o"], "method": "AM1", "param": "g_pp", "mode": 0, "output": "Etot", "leaf": True}))
    cases.append(("param_grad", {"names": ["h2o"], "method": "AM1", "param": "h_sp", "mode": 1, "output": "Etot", "leaf": True}))
    cases.append(("param_grad", {"names": ["h2o"], "method": "AM1", "param": "g_ss", "mode": 1, "output": "gap", "leaf": True}))
    cases.append(("param_grad", {"names": ["h2o"], "method": "AM1", "param": "g_ss", "mode": 2, "output": "gap", "leaf": True}))
    # corpus: Slater exponents of two atoms of the SAME element (the auxiliary B integrals are evaluated at x = 0.5 R (zeta_a - zeta_b) = 0 exactly; MNDO has zeta_s = zeta_p, so every
    # orbital pair of such atoms sits there): F27
    cases.append(("param_grad", {"names": ["c2h4"], "method": "MNDO", "param": "zeta_s", "mode": 0, "output": "Etot", "leaf": True, "atoms": [0, 1]}))
    cases.append(("param_grad", {"names": [str(rng.choice(["so2", "c2h4", "o2s"][:2]))], "method": "MNDO", "param": str(rng.choice(["zeta_s", "zeta_p"])), "mode": int(rng.choice([0, 1])), "output": str(rng.choice(["Etot", "Hf"])),
                                 "leaf": bool(rng.integers(0, 2)), "atoms": [1, 2] if False else [0, 1]}))
    # re-used objects: gradient taken on the second/third call on the same Molecule (density-dependent outputs with the implicit/unrolled backward)
    cases.append(("param_grad", {"names": ["h2o"], "method": "AM1", "param": "U_ss", "mode": 1, "output": "homo", "leaf": True, "warm": 1}))
    # unrestricted references x backward modes x density-dependent outputs (radicals: the two spin densities differ)
    ucases = [("oh", "AM1", "g_ss", 1, "charges"), ("no", "PM3", "U_pp", 1, "homo"), ("oh", "PM3", "g_p2", 2, "charges"), ("o2", "MNDO", "beta_p", 1, "gap"), ("no", "AM1", "g_pp", 0, "Etot")]
    cases.append(("param_grad", {"names": ["oh"], "method": ["AM1", "PM3"][ctx.seed % 2], "param": ["g_ss", "U_ss"][(ctx.seed // 2) % 2], "mode": 1, "output": "charges", "leaf": True, "uhf": True}))   # fixed in every run
    for j in range(len(ucases) if ctx.thorough else 2):
        nm, meth, par, mode, outp = ucases[(j + 2 * ctx.seed) % len(ucases)] if not ctx.thorough else ucases[j]
        cases.append(("param_grad", {"names": [nm], "method": meth, "param": par, "mode": mode, "output": outp, "leaf": True, "uhf": True}))
    for j in range(3 if ctx.thorough else 1):
        cases.append(("grad_linearity", {"names": [str(rng.choice(["ch2o", "h2o", "nh3"]))], "method": str(rng.choice(["AM1", "PM3"])), "param": str(rng.choice(["g_ss", "U_ss", "beta_s"])), "mode": 1,
                                         "output": str(rng.choice(["gap", "charges", "homo"])), "weight": float(rng.choice([1e-5, 1e-6])), "eps": 1e-6, "converger": [[2], [1]][j % 2]}))
    # a SMALL upstream gradient (a task weight, a mean over a batch): the gradient must scale with it (implicit backward solvers stop on a relative test)
    for j in range(3 if ctx.thorough else 1):
        cases.append(("param_grad", {"names": [str(rng.choice(["h2o", "nh3", "hcn"]))], "method": str(rng.choice(["AM1", "PM3"])), "param": str(rng.choice(["g_ss", "U_ss", "beta_s"])), "mode": 1,
                                     "output": str(rng.choice(["gap", "charges", "homo"])), "leaf": True, "weight": float(rng.choice([1e-5, 1e-6])), "bw_eps": 1e-7}))
    cases.append(("param_grad", {"names": [str(rng.choice(["nh3", "ch2o", "hcn"]))], "method": str(rng.choice(["PM3", "MNDO"])), "param": str(rng.choice(["beta_s", "U_pp", "g_ss"])), "mode": int(rng.choice([1, 2])),
                                 "output": str(rng.choice(["homo", "gap"])), "leaf": bool(rng.integers(0, 2)), "warm": 2, "atoms": [0, 1]}))
    # elements whose hpp = (g_pp - g_p2)/2 lies below the 0.1 eV floor used by the integrals (PM3 Cl, PM6_SP F): the floor must be differentiated consistently
    cases.append(("param_grad", {"names": ["ch3cl"], "method": "PM3", "param": "g_pp", "mode": 0, "output": "Etot", "leaf": True, "atoms": [0, 1]}))
    cases.append(("param_grad", {"names": [["ch3cl"], ["ch3f"]][int(rng.integers(0, 2))], "method": ["PM3", "PM6_SP"][int(rng.integers(0, 2))], "param": str(rng.choice(["g_pp", "g_p2"])), "mode": 1,
                                 "output": str(rng.choice(["gap", "Etot"])), "leaf": bool(rng.integers(0, 2)), "atoms": [0, 1]}))
    n = 60 if ctx.thorough else 12
    for i in range(n):
        method = ["AM1", "PM3", "MNDO"][i % 3]
        param = str(rng.choice(PARAMS[method]))
        mode = int(rng.choice([0, 1, 2]))
        outs = ["Etot", "Hf"] if mode == 0 else ["Etot", "gap", "homo", "charges", "Hf"]
        cases.append(("param_grad", {"names": [str(rng.choice(["h2o", "nh3", "ch2o", "hcn"]))], "method": method, "param": param, "mode": mode, "output": str(rng.choice(outs)),
                                     "leaf": bool(rng.integers(0, 2)), "atoms": [0, 1]}))
    # every SCF solver has its own unrolled graph (scf_backward = 2) and feeds the implicit backward (1): density-dependent outputs under each solver
    for i, conv in enumerate([[2], [0, 0.3], [1, 0.5, 0.1, 12]] if ctx.thorough else [[2], [[0, 0.3], [1, 0.5, 0.1, 12]][ctx.seed % 2]]):
        for mode in ((1, 2) if ctx.thorough or i == 0 else (2,)):
            cases.append(("param_grad", {"names": [str(rng.choice(["h2o", "nh3", "hcn"]))], "method": str(rng.choice(["AM1", "PM3", "MNDO"])), "param": str(rng.choice(["U_ss", "beta_s", "g_ss", "U_pp"])), "mode": mode,
                                         "output": str(rng.choice(["gap", "homo", "charges"])), "leaf": True, "atoms": [0, 1], "converger": conv}))
    cases.append(("geometry_dependent_params", {"names": ["h2o"], "method": "AM1", "param": "U_ss", "seed": 1}))
    if ctx.thorough:
        cases.append(("geometry_dependent_params", {"names": ["nh3"], "method": "PM3", "param": "beta_s", "seed": 2}))
        cases.append(("hessian", {"names": ["h2o"], "method": "AM1", "cols": [0, 4, 7]}))
    else:
        cases.append(("hessian", {"names": ["h2"], "method": "AM1", "cols": [0, 4]}))
    # second derivatives of a nearly symmetric molecule (degenerate levels split by 1e-9 .. 1e-5 eV)
    cases.append(("hessian", {"names": ["ch4"], "method": str(rng.choice(["AM1", "PM3"])), "cols": [0, 4], "near_symmetric": float(rng.choice([1e-7, 1e-6])), "seed": int(rng.integers(0, 10**6))}))
    if ctx.thorough:
        cases.append(("hessian", {"names": ["nh3"], "method": "AM1", "cols": [0, 4], "near_symmetric": 1e-7, "seed": int(rng.integers(0, 10**6))}))
    return cases


def _run_case(item):
    return PROBES[item[0]](item[1])


def corr_rho(ctx: Ctx, drv):
    """custom autograd Functions additive_term_rho1/2 of the LIVE code: forward root and backward formulas vs the compiled model
    (`*_backward_true` = the formulas proved equal to the implicit derivative; the pre-repair reciprocal form is `*_backward_code`)"""
    import torch

    from seqm.seqm_functions.cal_par import additive_term_rho1, additive_term_rho2
    from seqm.seqm_functions.constants import ev

    rng = ctx.rng
    for it in range(40 if ctx.thorough else 14):
        for fn, name in ((additive_term_rho1, "rho1"), (additive_term_rho2, "rho2")):
            h = float(rng.uniform(1.0, 6.0)) / (4.0 if name == "rho2" else 1.0)
            D = float(rng.uniform(0.3, 1.6))
            g = float(rng.normal())
            ht = torch.tensor([h], requires_grad=True)
            Dt = torch.tensor([D], requires_grad=True)
            rho = fn.apply(ht, Dt)
            gh, gD = torch.autograd.grad(rho, (ht, Dt), grad_outputs=torch.tensor([g]))
            out = drv.ask(name + "_backward_true", f2b(float(rho)), f2b(D), f2b(g), f2b(float(ev)))
            ok = len(out) == 2 and abs(b2f(out[0]) - float(gh)) <= 1e-12 * abs(float(gh)) and abs(b2f(out[1]) - float(gD)) <= 1e-12 * abs(float(gD))
            ctx.corr_case(f"additive_term_{name}.backward", {"h_ev": h, "D": D, "g": g}, [b2f(o) for o in out] if len(out) == 2 else out, [float(gh), float(gD)], ok)
            fw = drv.ask(name + "_forward", f2b(h), f2b(D), f2b(float(ev)))
            okf = len(fw) == 1 and fw[0] != "bad-op" and abs(b2f(fw[0]) - float(rho)) <= 4e-15 * abs(float(rho))
            ctx.corr_case(f"additive_term_{name}.forward", {"h_ev": h, "D": D}, fw, float(rho), okf)
            # the returned root satisfies its defining equation (5 secant steps: residual <= 1e-8 relative)
            rs = drv.ask(name + "_residual", f2b(float(rho)), f2b(D), f2b(float(ev)))
            okr = len(rs) == 1 and rs[0] != "bad-op" and abs(b2f(rs[0]) - h) <= 1e-7 * abs(h)
            ctx.corr_case(f"additive_term_{name} root residual", {"h_ev": h, "D": D, "residual": True}, [b2f(rs[0]) - h] if okr or len(rs) == 1 and rs[0] != "bad-op" else rs, 0.0, okr)


def run(ctx: Ctx):
    from ..translate import gen as _gen
    _gen.regenerate(ctx, ["RootGen"])
    leanproj.check_theorems(ctx, MODULE, THEOREMS)
    from .registry import THEOREMS_ROOTTIE
    # translator tie: the hand-written backward of the additive terms, as it stands in the source, is the implicit-function derivative; the forward is
    # five secant steps on the residual functions from the translated start values
    leanproj.check_theorems(ctx, "PyseqmVerif.Properties.RootTie", THEOREMS_ROOTTIE)
    drv = leanproj.Driver()
    try:
        try:
            corr_rho(ctx, drv)
        except Exception:
            import traceback
            ctx.obligation("correspondence adapters C07 ran", False, traceback.format_exc()[-1500:], kind="harness")
    finally:
        drv.close()
    cases = gen_cases(ctx)
    results = mdh.pmap(_run_case, cases, timeout=2400)
    for (name, c), r in zip(cases, results):
        if isinstance(r, Exception) or r is None:
            ctx.obligation(f"probe {name} evaluated", False, repr(r)[-1500:], kind="harness")
            continue
        ctx.probe_case(name, c, r["ok"], fields=r["fields"], observed=r["observed"], expected=r["expected"], predicate=r["predicate"],
                       stratum=f"{name}/{c.get('param', '')}/mode{c.get('mode', '')}/{c.get('output', '')}")
