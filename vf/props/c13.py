"""C13 - initial conditions, centre-of-mass handling and seeding behave as documented."""
from __future__ import annotations

import contextlib
import io
from typing import Any, Dict, List

import numpy as np

from .. import esh, leanproj, mdh
from ..core import Ctx, b2f, f2b

MODULE = "PyseqmVerif.Properties.C13"
try:
    from .registry import THEOREMS_C13 as THEOREMS  # type: ignore
except Exception:  # pragma: no cover
    THEOREMS = []

META = {
    "technique": "Lean 4 algebra over the model of initialize_velocity/_zero_com (exact rescale to the target temperature, linear/angular momentum removal given I w = L, kinetic-energy restoration, padding mask) + re-seeding correspondence + step-0 / momentum / seeding probes",
    "level_text": "Theorems over the reals: after the rescale the kinetic temperature equals the target exactly (T1 > 0) under the dof count in force; after linear removal sum m v = 0, after angular removal sum m r x v = 0 with linear momentum still 0 (given I w = L); kinetic-energy restoration returns exactly the previous kinetic energy and keeps the momenta zero; the masked subtraction leaves padding atoms (mass 0) at rest while still removing the momentum (the unmasked variant is refuted by a witness); T = 0 gives zero velocities. Tied to the code by comparing the Maxwell-Boltzmann scale, rescale and COM removal with the compiled Float model using noise recovered by re-seeding, and by probing the step-0 state of real runs (temperature, momenta, padding rows), seed reproducibility after arbitrary prior RNG consumption, seed sensitivity and the handling of user-supplied velocities. Translator tie: Maxwell-Boltzmann scale, draw, exact-temperature factor, temperature and the three set_dof variants as the source computes them are the model's (ThermoTie).",
    "level_note": "Trusted: Lean kernel; harness; torch.linalg.pinv solves I w = L on range(I) (hypothesis). Bitwise reproducibility is runtime behaviour observed by the probe. Known finding F12: user-supplied velocities are stripped of rigid-body motion (a pure translation raises) although the manual says they are used directly.",
    "design_ref": "DESIGN.md section 5 C13",
}


def _setup(names, temp, engine="basic", pad_to=None, damp=None, k=4, remove_com=None, elements=None):
    import torch

    import seqm.MolecularDynamics as MD
    from seqm.Molecule import Molecule
    from seqm.seqm_functions.constants import Constants

    s, x, ch, mu = esh.batch(names, pad_to=pad_to, pad_coord=0.0)
    sp = dict(method="AM1", scf_eps=1e-8, scf_converger=[1], sp2=[False])
    if elements:
        sp["elements"] = list(elements)     # one driver for several systems: the element list is given up front
    out = {"molid": [0], "prefix": "/nonexistent/x", "print every": 0, "checkpoint every": 0, "xyz": 0, "h5": {}}
    mol = Molecule(Constants(), sp, torch.as_tensor(x), torch.as_tensor(s))
    kw = dict(seqm_parameters=sp, timestep=0.5, Temp=temp, output=out)
    if engine == "basic":
        md = MD.Molecular_Dynamics_Basic(**kw)
    elif engine == "langevin":
        md = MD.Molecular_Dynamics_Langevin(damp=damp or 20.0, **kw)
    elif engine == "xl":
        md = MD.XL_BOMD(damp=damp, xl_bomd_params={"k": k}, **kw)
    return md, mol, s


def _momenta(mol, s):
    mass = mol.mass.detach().numpy()[..., 0]
    V = mol.velocities.detach().numpy()
    X = mol.coordinates.detach().numpy()
    P = (mass[..., None] * V).sum(1)
    M = mass.sum(1, keepdims=True)
    rc = (mass[..., None] * X).sum(1) / M
    L = (mass[..., None] * np.cross(X - rc[:, None, :], V)).sum(1)
    return P, L, mass, V


def probe_initial(inp: Dict[str, Any]) -> Dict[str, Any]:
    import torch

    import seqm.MolecularDynamics as MD

    old = MD.esdriver
    MD.esdriver = mdh.StubEngine
    bad = []
    kinds = set()
    try:
        md, mol, s = _setup(inp["names"], inp["temp"], engine=inp.get("engine", "basic"), pad_to=inp.get("pad_to"), damp=inp.get("damp"),
                            elements=[0, 1, 6, 7, 8] if inp.get("prior") else None)
        if inp.get("prior"):
            # the SAME driver object has already initialised another run (other centre-of-mass mode / other molecule of the same padded size): nothing of it may survive
            from seqm.Molecule import Molecule
            from seqm.seqm_functions.constants import Constants
            pr = inp["prior"]
            s0, x0, _, _ = esh.batch(pr["names"], pad_to=mol.species.shape[1])
            mol0 = Molecule(Constants(), dict(md.seqm_parameters), torch.as_tensor(x0), torch.as_tensor(s0))
            with contextlib.redirect_stdout(io.StringIO()):
                md.initialize(mol0, remove_com=tuple(pr["remove_com"]) if pr.get("remove_com") else None)
        torch.manual_seed(inp.get("seed", 0))
        diat_ang = bool(inp.get("remove_com") and inp["remove_com"][0] == "angular" and all(len(esh.GEOMS[n][0]) == 2 for n in inp["names"]) and inp.get("engine", "basic") != "langevin")
        try:
            with contextlib.redirect_stdout(io.StringIO()):
                md.initialize(mol, remove_com=tuple(inp["remove_com"]) if inp.get("remove_com") else None)
        except Exception as e:
            return {"ok": False, "observed": [f"initialize raised {type(e).__name__}: {str(e)[:100]}"], "expected": "velocities at the requested temperature", "predicate": "step-0 state",
                    "fields": {"kinds": ["raised"], "engine": inp.get("engine", "basic"), "padded": bool(inp.get("pad_to")), "diatomic_angular": diat_ang}}
        P, L, mass, V = _momenta(mol, s)
        Ek = md._kinetic_energy(mol)
        T = md._calc_temperature(Ek).numpy()
        if inp["temp"] > 0:
            if np.abs(T - inp["temp"]).max() > 1e-9 * inp["temp"]:
                bad.append(f"initial temperature {T} != requested {inp['temp']}"); kinds.add("temperature")
            # ... and under the count of degrees of freedom in force for THIS run, computed here from the documented rule (3N, minus 3 / 6 when linear / angular
            # centre-of-mass motion is removed; thermostatted engines always count 3N), not read from the driver
            eng = inp.get("engine", "basic")
            cons = 0.0 if (not inp.get("remove_com") or eng == "langevin" or (eng == "xl" and inp.get("damp"))) else (6.0 if inp["remove_com"][0] == "angular" else 3.0)
            nat = (s > 0).sum(1).astype(float)
            T_own = Ek.numpy() * MD.CONSTANTS.TEMPERATURE_SCALE / (0.5 * (3.0 * nat - cons))
            if not diat_ang and np.abs(T_own - inp["temp"]).max() > 1e-9 * inp["temp"]:
                bad.append(f"initial temperature under the documented count of degrees of freedom is {T_own}, requested {inp['temp']}"); kinds.add("temperature_dof")
        else:
            if np.abs(V).max() != 0.0:
                bad.append("T = 0 but initial velocities are non-zero"); kinds.add("temperature")
        vs = float(np.abs(mass[..., None] * V).max()) + 1e-300
        if np.abs(P).max() > 1e-12 * vs * V.shape[1]:
            bad.append(f"net linear momentum {np.abs(P).max():.2e}"); kinds.add("linear")
        if np.abs(L).max() > 1e-9 * max(1.0, vs):
            bad.append(f"net angular momentum {np.abs(L).max():.2e}"); kinds.add("angular")
        pad = (s == 0)
        if pad.any() and np.abs(V[pad]).max() != 0.0:
            bad.append(f"padding atoms are given velocity {np.abs(V[pad]).max():.3e} A/fs"); kinds.add("padding")
        # periodic COM removal preserves the kinetic energy
        if inp["temp"] > 0:
            rng = np.random.default_rng(inp.get("seed", 0))
            real = torch.as_tensor((s > 0)[..., None].astype(float))
            mol.velocities.add_(torch.as_tensor(rng.normal(size=V.shape) * 0.002) * real)
            if inp.get("off_origin", True):
                # a drifting / user-placed molecule is not centred on the origin: momenta are defined about the centre of mass
                with torch.no_grad():
                    mol.coordinates.add_(torch.as_tensor(rng.normal(size=(V.shape[0], 1, 3)) * 3.0) * real)
            ek0 = md._kinetic_energy(mol).numpy().copy()
            md._zero_com(mol, remove_angular=bool(inp.get("angular", True)))
            ek1 = md._kinetic_energy(mol).numpy()
            P, L, mass, V2 = _momenta(mol, s)
            if np.abs(ek1 - ek0).max() > 1e-12 * np.abs(ek0).max():
                bad.append(f"COM removal changes the kinetic energy by {np.abs(ek1-ek0).max():.2e}"); kinds.add("ke")
            if np.abs(P).max() > 1e-12 * vs * V.shape[1]:
                bad.append(f"COM removal leaves linear momentum {np.abs(P).max():.2e}"); kinds.add("linear")
            if inp.get("angular", True) and np.abs(L).max() > 1e-9 * max(1.0, vs):
                bad.append(f"COM removal leaves angular momentum {np.abs(L).max():.2e}"); kinds.add("angular")
            if pad.any() and np.abs(V2[pad]).max() != 0.0:
                bad.append(f"COM removal gives padding atoms velocity {np.abs(V2[pad]).max():.3e} A/fs"); kinds.add("padding")
    finally:
        MD.esdriver = old
    return {"ok": not bad, "observed": bad[:6], "expected": "exact temperature, zero momenta, padding at rest, KE preserved", "predicate": "step-0 state",
            "fields": {"kinds": sorted(kinds), "engine": inp.get("engine", "basic"), "padded": bool(inp.get("pad_to"))}}


def probe_seeding(inp: Dict[str, Any]) -> Dict[str, Any]:
    import torch

    def traj(seed, burn):
        torch.manual_seed(999)
        if burn:
            torch.randn(burn)
        sc = dict(engine=inp.get("engine", "basic"), stub=True, mols=inp["names"], molid=[0], cad=dict(data=1, coordinates=1, velocities=1, forces=0, xyz=0, print=0, ckpt=0),
                  steps=5, temp=300.0, seed=seed, damp=10.0)
        if inp.get("preset"):
            # velocities preset by the user (zero net momentum); the stochastic engines still draw random numbers during the steps
            sc["preset_velocities"] = inp["preset"]
        r = mdh.in_process_run(sc, tag="c13")[0]
        return r["h5"]["coordinates"]["values"], r["h5"]["velocities"]["values"]
    a = traj(inp["seed"], 0)
    b = traj(inp["seed"], inp.get("burn", 1237))
    c = traj(inp["seed"] + 1, 0)
    bad = []
    kinds = set()
    if not (np.array_equal(a[0], b[0]) and np.array_equal(a[1], b[1])):
        bad.append("same seed gives a different trajectory after prior RNG consumption"); kinds.add("reproducible")
    if np.array_equal(a[1], c[1]):
        bad.append("different seeds give the same trajectory"); kinds.add("seed_sensitivity")
    return {"ok": not bad, "observed": bad, "expected": "seed determines the trajectory bit for bit; different seeds differ", "predicate": "", "fields": {"kinds": sorted(kinds), "engine": inp.get("engine", "basic")}}


def probe_user_velocities(inp: Dict[str, Any]) -> Dict[str, Any]:
    import torch

    import seqm.MolecularDynamics as MD

    old = MD.esdriver
    MD.esdriver = mdh.StubEngine
    bad = []
    kinds = set()
    try:
        md, mol, s = _setup(inp["names"], 300.0)
        rng = np.random.default_rng(inp.get("seed", 0))
        V = rng.normal(size=mol.coordinates.shape) * 0.01 * (s > 0)[..., None]
        if inp.get("mode") == "translation":
            V = np.zeros_like(V) + np.array([0.01, 0.0, 0.0]) * (s > 0)[..., None]
        elif inp.get("mode") == "zero_momentum":
            mass = mol.mass.numpy()
            V = V - (mass * V).sum(1, keepdims=True) / mass.sum(1, keepdims=True) * (s > 0)[..., None]
        mol.velocities = torch.as_tensor(V.copy())
        try:
            with contextlib.redirect_stdout(io.StringIO()):
                md.initialize(mol)
            d = float(np.abs(mol.velocities.numpy() - V).max())
            if d > 1e-15:
                bad.append(f"user-supplied velocities changed by {d:.3e} A/fs before step 0"); kinds.add("stripped")
        except Exception as e:
            bad.append(f"user-supplied velocities rejected: {type(e).__name__}: {str(e)[:80]}"); kinds.add("raised")
    finally:
        MD.esdriver = old
    return {"ok": not bad, "observed": bad, "expected": "velocities supplied by the user are the velocities the first step starts from", "predicate": "",
            "fields": {"kinds": sorted(kinds), "mode": inp.get("mode", "generic")}}


def probe_sh_start(inp: Dict[str, Any]) -> Dict[str, Any]:
    """surface-hopping engine (real excited-state engine): the velocities the first integrator step starts from are the drawn ones (exactly the
    requested temperature, zero net momentum) or, if supplied, the user's"""
    import torch

    import seqm.MolecularDynamics as MD
    import seqm.NonadiabaticDynamics as ND
    from seqm.Molecule import Molecule
    from seqm.seqm_functions.constants import Constants

    def work(_):
        s, x, ch, mu = esh.batch(inp["names"])
        sp = {"method": "AM1", "scf_eps": 1e-8, "scf_converger": [1], "excited_states": {"n_states": 2, "method": "cis"}}
        out = {"molid": [0], "prefix": "/nonexistent/x", "print every": 0, "checkpoint every": 0, "xyz": 0, "h5": {}}
        mol = Molecule(Constants(), sp, torch.as_tensor(x), torch.as_tensor(s))
        kw = {} if inp.get("damp") is None else {"damp": inp["damp"]}
        dyn = ND.SurfaceHoppingDynamics(seqm_parameters=sp, timestep=0.5, Temp=inp["temp"], output=out, initial_state=1, **kw)
        V = None
        if inp.get("user"):
            rng = np.random.default_rng(inp.get("seed", 0))
            V = rng.normal(size=x.shape) * 0.01 * (s > 0)[..., None]
            mass = mol.mass.numpy()
            V = V - (mass * V).sum(1, keepdims=True) / mass.sum(1, keepdims=True) * (s > 0)[..., None]
            # also free of rigid rotation about the centre of mass (the package strips translation and rotation from preset velocities: known finding F12)
            for m_ in range(V.shape[0]):
                w_ = mass[m_][:, 0]
                rc = x[m_] - (w_[:, None] * x[m_]).sum(0) / w_.sum()
                L = (w_[:, None] * np.cross(rc, V[m_])).sum(0)
                I = np.einsum("a,aij->ij", w_, np.einsum("ak,ak,ij->aij", rc, rc, np.eye(3)) - np.einsum("ai,aj->aij", rc, rc))
                om = np.linalg.lstsq(I, L, rcond=None)[0]
                V[m_] = (V[m_] - np.cross(om, rc)) * (s[m_] > 0)[:, None]
            mol.velocities = torch.as_tensor(V.copy())
        seen = {}

        class Stop(Exception):
            pass
        orig = dyn._do_integrator_step

        def w(i, molecule, *a, **k):
            seen["v"] = molecule.velocities.detach().numpy().copy()
            seen["dof"] = dyn.n_dof.detach().numpy().copy() if torch.is_tensor(dyn.n_dof) else np.asarray(dyn.n_dof)
            raise Stop()
        dyn._do_integrator_step = w
        with contextlib.redirect_stdout(io.StringIO()):
            try:
                dyn.run(mol, steps=1, reuse_P=True, remove_com=None, seed=inp.get("seed", 0))
            except Stop:
                pass
        return {"v": seen["v"], "dof": seen["dof"], "V": V, "mass": mol.mass.numpy()[..., 0], "species": s}
    r = mdh.call_with_timeout(work, None, 600)
    C = __import__("seqm.MolecularDynamics", fromlist=["CONSTANTS"]).CONSTANTS
    bad, kinds = [], set()
    v, mass = r["v"], r["mass"]
    if r["V"] is not None:
        d = float(np.abs(v - r["V"]).max())
        if d > 1e-12:
            bad.append(f"user-supplied (translation- and rotation-free) velocities changed by {d:.3e} A/fs before the first step of the surface-hopping engine"); kinds.add("sh_user_velocities")
    else:
        Ek = (0.5 * mass[..., None] * v ** 2).sum((1, 2)) * C.KINETIC_ENERGY_SCALE
        T = Ek * C.TEMPERATURE_SCALE / (0.5 * np.asarray(r["dof"], dtype=float).reshape(-1))
        if np.abs(T - inp["temp"]).max() > 1e-9 * max(1.0, inp["temp"]):
            bad.append(f"first step of the surface-hopping engine starts at T = {T.tolist()} K instead of {inp['temp']} K"); kinds.add("sh_temperature")
        P = (mass[..., None] * v).sum(1)
        if np.abs(P).max() > 1e-12 * (np.abs(mass[..., None] * v).max() + 1e-30) * v.shape[1]:
            bad.append(f"net linear momentum {np.abs(P).max():.2e} at the first step"); kinds.add("sh_momentum")
    return {"ok": not bad, "observed": bad, "expected": "first step starts from the drawn (exact T) or supplied velocities", "predicate": "", "fields": {"kinds": sorted(kinds), "engine": "surface_hopping", "user": bool(inp.get("user"))}}


PROBES = {"sh_start": probe_sh_start, "initial": probe_initial, "seeding": probe_seeding, "user_velocities": probe_user_velocities}


def corr_initvel(ctx: Ctx, drv):
    import torch

    import seqm.MolecularDynamics as MD

    rng = ctx.rng
    old = MD.esdriver
    MD.esdriver = mdh.StubEngine
    try:
        n = 20 if ctx.thorough else 8
        for i in range(n):
            names = [["h2o"], ["ch4", "h2"], ["so2"], ["hcl"]][i % 4]
            temp = float(rng.choice([50.0, 300.0, 1500.0]))
            md, mol, s = _setup(names, temp)
            md.set_dof(mol, 0.0)
            minv = mol.mass_inverse.numpy().reshape(-1)
            torch.manual_seed(55 + i)
            xi = torch.randn_like(mol.coordinates.detach())
            # Maxwell-Boltzmann scale
            scale = (torch.sqrt(temp * mol.mass_inverse) * MD.CONSTANTS.VEL_SCALE)
            v = (xi * scale).numpy().reshape(-1)
            minv3 = np.repeat(minv, 3)
            out = drv.ask("mbscale", f2b(temp), f2b(MD.CONSTANTS.VEL_SCALE), len(minv3), *[f2b(t) for t in minv3], *[f2b(t) for t in xi.numpy().reshape(-1)])
            from ..core import ulp_diff
            ok = len(out) == len(v) and max(ulp_diff(b2f(o), float(w)) for o, w in zip(out, v)) <= 2
            ctx.corr_case("maxwell_boltzmann_scale", {"names": names, "temp": temp}, "ulp<=2" if ok else out[:3], v[:3].tolist(), ok)
            # linear COM removal, one Cartesian component of one molecule (the code's unmasked/masked subtraction as it exists)
            mol.velocities = (xi * scale).clone()
            before = mol.velocities.numpy().copy()
            md._zero_com(mol, remove_angular=False, restore_kinetic_energy=False)
            after = mol.velocities.numpy()
            mass = mol.mass.numpy()[..., 0]
            for m0 in range(mass.shape[0]):
                for comp in range(3):
                    # live code = masked subtraction (padding atoms stay at rest); `zerocom_linear` (unmasked) is the pre-repair form
                    out = drv.ask("zerocom_linear_masked", mass.shape[1], *[f2b(t) for t in mass[m0]], *[f2b(t) for t in before[m0, :, comp]])
                    want = after[m0, :, comp]
                    ok = len(out) == len(want) and all(abs(b2f(o) - w) <= 1e-13 * max(1e-3, abs(w)) + 1e-18 for o, w in zip(out, want))
                    ctx.corr_case("_zero_com(linear)", {"names": names, "mol": m0, "comp": comp, "padded": bool((s[m0] == 0).any())}, [b2f(o) for o in out][:3] if len(out) == len(want) else out,
                                  want[:3].tolist(), ok, stratum="padded" if (s[m0] == 0).any() else "full")
            # exact rescale to the target temperature
            mol.velocities = (xi * scale).clone()
            Ek = md._kinetic_energy(mol)
            T1 = md._calc_temperature(Ek)
            v_before = mol.velocities.numpy().copy()
            alpha = torch.sqrt(temp / T1)
            v_after = (mol.velocities * alpha.reshape(-1, 1, 1)).numpy()
            out = drv.ask("rescale", f2b(temp), f2b(float(T1[0])), v_before[0].size, *[f2b(t) for t in v_before[0].reshape(-1)])
            want = v_after[0].reshape(-1)
            ok = len(out) == len(want) and max(ulp_diff(b2f(o), float(w)) for o, w in zip(out, want)) <= 2
            ctx.corr_case("rescale to target temperature", {"names": names, "temp": temp}, "ulp<=2" if ok else out[:3], want[:3].tolist(), ok)
    finally:
        MD.esdriver = old


def gen_cases(ctx: Ctx):
    rng = ctx.rng
    cases = []
    n = 24 if ctx.thorough else 8
    for i in range(n):
        names = [["h2o"], ["ch4", "h2"], ["hcn"], ["co"], ["h2o", "h2", "ch4"], ["so2"]][i % 6]  # hcn ~ linear, co linear diatomic
        c = {"names": names, "temp": float(rng.choice([0.0, 10.0, 300.0, 2000.0])), "engine": ["basic", "langevin", "xl"][i % 3], "seed": int(rng.integers(0, 10**6)),
             "angular": bool(i % 2 == 0)}
        if i % 4 == 1:
            c["remove_com"] = ["linear", 1]
        if i % 4 == 3:
            c["remove_com"] = ["angular", 2]
        cases.append(("initial", c))
    # a driver object that has already initialised ANOTHER run (other centre-of-mass mode, other molecule of the same padded size)
    pri = [({"names": ["ch4"], "remove_com": None}, {"names": ["ch4"], "remove_com": ["angular", 1]}), ({"names": ["ch4"], "remove_com": ["linear", 1]}, {"names": ["h2o"], "remove_com": None, "pad_to": 5}),
           ({"names": ["h2o"], "remove_com": ["angular", 2]}, {"names": ["nh3"], "remove_com": ["linear", 1], "pad_to": 4})]
    for j in range(3 if ctx.thorough else 1):
        pr, cur = pri[(j + ctx.seed) % 3]
        if pr["names"] != cur["names"]:
            pr = dict(pr)
        cases.append(("initial", dict(cur, temp=300.0, engine=["basic", "xl"][j % 2], seed=int(rng.integers(0, 10**6)), prior=pr, angular=False)))
    cases.append(("initial", {"names": ["h2", "h2o"], "temp": 300.0, "engine": "basic", "seed": 4, "pad_to": 4}))
    cases.append(("initial", {"names": ["h2"], "temp": 300.0, "engine": "basic", "seed": 5, "pad_to": 3, "angular": False}))
    for eng in (["basic", "langevin", "xl"] if ctx.thorough else ["basic", "langevin"]):
        cases.append(("seeding", {"names": ["h2o"], "seed": int(rng.integers(1, 10**5)), "engine": eng, "burn": int(rng.integers(1, 5000))}))
    cases.append(("seeding", {"names": ["h2o"], "seed": int(rng.integers(1, 10**5)), "engine": "langevin", "burn": int(rng.integers(1, 5000)), "preset": int(rng.integers(1, 99))}))
    # the surface-hopping engine has its own start-up (couplings from finite differences in time before the first step)
    cases.append(("sh_start", {"names": ["h2o"], "temp": float(rng.choice([150.0, 300.0, 600.0])), "seed": int(rng.integers(1, 999))}))
    cases.append(("sh_start", {"names": ["h2o"], "temp": 300.0, "seed": int(rng.integers(1, 999)), "user": True}))
    if ctx.thorough:
        cases.append(("sh_start", {"names": ["ch2o"], "temp": 300.0, "seed": int(rng.integers(1, 999)), "damp": 20.0}))
        cases.append(("sh_start", {"names": ["h2o", "h2o"], "temp": 400.0, "seed": int(rng.integers(1, 999)), "user": True, "damp": 20.0}))
    cases.append(("user_velocities", {"names": ["h2o"], "mode": "generic", "seed": 1}))
    cases.append(("user_velocities", {"names": ["h2o"], "mode": "translation", "seed": 2}))
    cases.append(("user_velocities", {"names": ["h2o"], "mode": "zero_momentum", "seed": 3}))
    return cases


def _run_case(item):
    return PROBES[item[0]](item[1])


def run(ctx: Ctx):
    from ..translate import gen as _gen
    _gen.regenerate(ctx, ["Thermo"])
    leanproj.check_theorems(ctx, MODULE, THEOREMS)
    from .registry import THEOREMS_THERMOTIE
    # translator tie: Maxwell-Boltzmann scale, exact-temperature factor, temperature and the count of degrees of freedom, as the source computes them now
    leanproj.check_theorems(ctx, "PyseqmVerif.Properties.ThermoTie", THEOREMS_THERMOTIE)
    drv = leanproj.Driver()
    try:
        try:
            corr_initvel(ctx, drv)
        except Exception:
            import traceback
            ctx.obligation("correspondence adapters C13 ran", False, traceback.format_exc()[-1500:], kind="harness")
    finally:
        drv.close()
    cases = gen_cases(ctx)
    results = mdh.pmap(_run_case, cases, timeout=1800)
    for (name, c), r in zip(cases, results):
        if isinstance(r, Exception) or r is None:
            ctx.obligation(f"probe {name} evaluated", False, repr(r)[-1500:], kind="harness")
            continue
        ctx.probe_case(name, c, r["ok"], fields=r["fields"], observed=r["observed"], expected=r["expected"], predicate=r["predicate"], stratum=name)
