"""C01 - reported forces are the exact negative gradient of the reported energy."""
from __future__ import annotations

from typing import Any, Dict, List

import numpy as np

from .. import esh, leanproj, mdh
from ..core import Ctx, f2b, b2f
from . import c02

MODULE = "PyseqmVerif.Properties.C01"
try:
    from .registry import THEOREMS_C01 as THEOREMS  # type: ignore
except Exception:  # pragma: no cover
    THEOREMS = []

META = {
    "technique": "Lean 4 proofs (exact second-order energy expansion, Hellmann-Feynman stationarity at self-consistency, Dewar-Yamaguchi contraction = exact variation in the integrals, core-core derivative = HasDerivAt of the core-core energy, preprocessing consistency) + function-level correspondence + Richardson finite-difference search over element x method x force-mode x solver x spin lattice",
    "level_text": "Theorems over the reals: E(P+D) = E(P) + <F(P),D> + 1/2<D,G D>; at a self-consistent idempotent P the first-order term vanishes on tangent variations, so the derivative at fixed P is the total derivative; the energy is affine in (h, w, Enuc) at fixed P, hence the analytical contraction is the exact integral variation; the modelled core_core_der is the derivative of the modelled pair_nuclear_energy for MNDO/AM1/PM3 incl. the N-H/O-H case; energy-side and derivative-side parameter preprocessing agree. Tied to the code by function-level correspondence (pair_nuclear_energy, rotation) and by directional Richardson finite differences of the REAL Etot against all three force evaluators over the configuration lattice, with bonds on the axes / in the cone over-sampled. Translator tie (regenerated every run): pair_nuclear_energy (MNDO, AM1/PM3) and the hand-written core_core_der are translated statement by statement into one-pair scalar programs and proved equal to the model functions whose derivative relation is proved; their N-H/O-H masks agree for all atomic numbers (CoreCoreTie).",
    "level_note": "Trusted: Lean kernel; harness; FD tolerance max(50*scf_eps, 4e-6) eV/A. Overlap derivatives are finite differences inside the code itself; excited-state Z-vector and UHF Fock are probe-only. Known finding F2 (cone around +-x) is shared with C02.",
    "design_ref": "DESIGN.md section 5 C01",
}


def probe_force_fd(inp: Dict[str, Any]) -> Dict[str, Any]:
    names = inp["names"]
    k = inp.get("target", 0)
    sp = esh.settings(method=inp["method"], eps=inp.get("eps", 1e-10), converger=inp.get("converger", [1]), sp2=inp.get("sp2"), uhf=inp.get("uhf", False),
                      analytical=inp.get("analytical"), excited=inp.get("excited"), active_state=inp.get("active_state", 0),
                      **({"scf_backward": inp["scf_backward"]} if "scf_backward" in inp else {}), **({"dispersion": True} if inp.get("dispersion") else {}))
    s, x, ch, mu = esh.batch(names, pad_to=inp.get("pad_to"), pad_coord=inp.get("pad_coord", 0.0))
    rng = np.random.default_rng(inp.get("seed", 0))
    z, x0 = esh.geom(names[k])
    nat = len(z)
    x[k, :nat] = c02.orient(x0, inp.get("stratum", "generic:"), bond=tuple(inp.get("bond", (0, 1))), rng=rng, delta=inp.get("delta", 2e-4))
    uhf = bool(inp.get("uhf", False))
    kw = dict(charges=ch, mult=(mu if uhf else None))
    r0 = esh.run(s, x, sp, **kw)
    F = r0["force"][k][:nat]
    bad: List[str] = []
    kinds = set()
    if bool(np.asarray(r0["notconverged"])[k]):
        return {"ok": True, "observed": ["not converged: skipped"], "expected": "", "predicate": "", "fields": {"skipped": True}}
    d = rng.normal(size=(nat, 3))
    d /= np.linalg.norm(d)
    h = inp.get("h", 2e-3)

    def E(step):
        xx = x.copy()
        xx[k, :nat] += step * d
        return float(esh.run(s, xx, sp, **kw)["Etot"][k])
    D1 = (E(h) - E(-h)) / (2 * h)
    D2 = (E(h / 2) - E(-h / 2)) / h
    fd = (4 * D2 - D1) / 3
    an = -float((F * d).sum())
    tol = max(50 * inp.get("eps", 1e-10), inp.get("tol", 4e-6))
    if (inp.get("sp2") or [False])[0]:
        # the purified density is only accurate to the SP2 tolerance (part of the requested thresholds); forces are first order in that error
        tol = max(tol, 200 * float(inp["sp2"][1]))
    if abs(fd - an) > tol:
        bad.append(f"-F.d = {an:.8f} but dE/ds = {fd:.8f} (diff {abs(fd - an):.3e}, Richardson h={h})")
        kinds.add("fd")
    # cross-evaluator agreement on the same geometry
    if inp.get("cross", True) and not inp.get("excited") and not uhf:
        for mode in ([True], [True, "numerical"], None):
            if mode == inp.get("analytical"):
                continue
            sp2_ = dict(sp)
            sp2_.pop("analytical_gradient", None)
            if mode is not None:
                sp2_["analytical_gradient"] = mode
            F2 = esh.run(s, x, sp2_, **kw)["force"][k][:nat]
            dd = float(np.max(np.abs(F2 - F)))
            if dd > max(tol, 1e-5):
                bad.append(f"evaluator {mode or 'autodiff'} differs from {inp.get('analytical') or 'autodiff'} by {dd:.3e}")
                kinds.add("cross")
    pad = r0["force"][k][nat:]
    if pad.size and np.abs(pad).max() != 0.0:
        bad.append(f"padding atoms get force {np.abs(pad).max():.3e}")
        kinds.add("padding")
    kind, _, ax = inp.get("stratum", "generic:").partition(":")
    els = sorted(set(int(v) for v in z))
    return {"ok": not bad, "observed": bad[:6], "expected": "force = -dE/dx for every evaluator",
            "predicate": "|(-F.d) - Richardson FD of Etot along d| <= tol; evaluators agree; padding force = 0",
            "fields": {"kinds": sorted(kinds), "method": inp["method"], "stratum_kind": kind, "axis": ax, "elements": els,
                       "force_mode": "autodiff" if not inp.get("analytical") else ("numerical" if len(inp["analytical"]) > 1 else "analytical"),
                       "uhf": uhf, "excited": bool(inp.get("excited"))}}


def probe_dispersion_window(inp: Dict[str, Any]) -> Dict[str, Any]:
    """optional pair correction with a switching function: place a non-bonded pair exactly in the switching window (found from the package's own
    damping function by bisection) and compare the three force evaluators there; reverse mode is the exact derivative of the coded energy"""
    import contextlib
    import io

    import torch
    from seqm.Molecule import Molecule
    from seqm.seqm_functions.constants import Constants
    from seqm.seqm_functions.dispersion_am1_fs1 import dispersion_damping

    za, zb = inp["pair"]

    def fd(r):
        sp0 = esh.settings(method="AM1", dispersion=True)
        with contextlib.redirect_stdout(io.StringIO()):
            val = {1: 1, 6: 4, 7: 5, 8: 6, 9: 7, 16: 6, 17: 7}
            odd = (val[za] + val[zb]) % 2
            m = Molecule(Constants(), sp0, torch.tensor([[[0.0, 0.0, 0.0], [r, 0.0, 0.0]]]), torch.tensor([[max(za, zb), min(za, zb)]]), charges=torch.tensor([float(odd)]))
        return float(dispersion_damping(m)[0][0])
    lo, hi = 0.8, 6.0
    for _ in range(60):
        mid = 0.5 * (lo + hi)
        lo, hi = (mid, hi) if fd(mid) < 0.5 else (lo, mid)
    rstar = 0.5 * (lo + hi)
    # CH4 (or H2O) + H2 super-molecule, species sorted; the partner atom of the window pair is the first H of H2
    host = inp.get("host", "ch4")
    zh, xh = esh.geom(host)
    ia = [i for i, z in enumerate(zh) if z == za][0]
    rng = np.random.default_rng(inp.get("seed", 0))
    u = rng.normal(size=3)
    u /= np.linalg.norm(u)
    bad, kinds, worst = [], set(), 0.0
    for delta in inp.get("deltas", (-0.004, 0.0, 0.003)):
        h1 = xh[ia] + u * rstar * (1.0 + delta)
        v = np.cross(u, rng.normal(size=3))
        v /= np.linalg.norm(v)
        h2 = h1 + 0.74 * (0.6 * u + 0.8 * v)
        z = list(zh) + [1, 1]
        x = np.vstack([xh, h1, h2])
        order = np.argsort(-np.array(z), kind="stable")
        z, x = [z[i] for i in order], x[order]
        F = {}
        for mode in (None, [True], [True, "numerical"]):
            sp = esh.settings(method="AM1", eps=1e-10, dispersion=True, analytical=mode)
            F[str(mode)] = esh.run(np.array([z]), np.array([x]), sp)["force"][0]
        for mode in ("[True]", "[True, 'numerical']"):
            dd = float(np.abs(F[mode] - F["None"]).max())
            worst = max(worst, dd)
            if dd > 1e-5:
                bad.append(f"pair Z=({za},{zb}) at {rstar * (1 + delta):.4f} A (switching distance {rstar:.4f} A): evaluator {mode} differs from reverse mode by {dd:.3e} eV/A")
                kinds.add("cross")
    return {"ok": not bad, "observed": bad[:4] or [f"switching distance {rstar:.4f} A, max evaluator difference {worst:.1e}"], "expected": "evaluators agree inside the switching window", "predicate": "",
            "fields": {"kinds": sorted(kinds), "method": "AM1", "stratum_kind": "dispersion_window", "axis": "", "elements": sorted({za, zb}), "force_mode": "cross", "uhf": False, "excited": False}}


def probe_post_hop_force(inp: Dict[str, Any]) -> Dict[str, Any]:
    """surface-hopping engine (real): after some steps on one surface, the force recomputed for ANOTHER active state at the current geometry (what an
    accepted hop does, from quantities cached on the molecule object) equals the force of a fresh evaluation on that state"""
    import contextlib
    import io

    import torch

    def work(_):
        import seqm.NonadiabaticDynamics as ND
        from seqm.Molecule import Molecule
        from seqm.seqm_functions.constants import Constants

        s, x, ch, mu = esh.batch(inp["names"])
        ns = inp.get("n_states", 3)
        sp = {"method": inp["method"], "scf_eps": 1e-10, "scf_converger": [1], "excited_states": {"n_states": ns, "method": "cis", "tolerance": 1e-8}}
        out = {"molid": [0], "prefix": "/nonexistent/x", "print every": 0, "checkpoint every": 0, "xyz": 0, "h5": {}}
        mol = Molecule(Constants(), sp, torch.as_tensor(x), torch.as_tensor(s))
        dyn = ND.SurfaceHoppingDynamics(seqm_parameters=sp, timestep=0.5, Temp=600.0, output=out, initial_state=inp.get("initial_state", 2))
        new = int(inp.get("new_state", 1))
        calls = {"n": 0}
        seen = {}

        def hop(*a, **k):
            # the random draw is replaced: request the hop to `new` for every trajectory at the chosen step, none otherwise (a downward hop is never frustrated)
            calls["n"] += 1
            t = torch.full((dyn._active_states.shape[0],), -1, dtype=torch.long)
            if calls["n"] == inp.get("hop_at", 3):
                t[:] = new - 1
            return t
        dyn._attempt_hop = hop
        orig = dyn._recompute_active_force

        def rec(molecule):
            r_ = orig(molecule)
            seen["F"] = molecule.force.detach().numpy().copy()
            seen["x"] = molecule.coordinates.detach().numpy().copy()
            seen["active"] = dyn._active_states.numpy().copy()
            return r_
        dyn._recompute_active_force = rec
        with contextlib.redirect_stdout(io.StringIO()):
            dyn.run(mol, steps=inp.get("steps", 4), reuse_P=True, remove_com=None, seed=inp.get("seed", 0))
        if "F" not in seen:
            return {"skipped": True}
        F = seen["F"]
        xx = seen["x"]
        spf = esh.settings(method=inp["method"], eps=1e-10, converger=[1], excited={"n_states": ns, "method": "cis", "tolerance": 1e-8}, active_state=new, analytical=[True])
        with contextlib.redirect_stdout(io.StringIO()):
            fresh = esh.run(s, xx, spf)["force"]
        return {"F": F, "fresh": fresh, "moved": float(np.abs(xx - x).max())}
    r = mdh.call_with_timeout(work, None, 900)
    if r.get("skipped"):
        return {"ok": True, "observed": ["no accepted hop: skipped"], "expected": "", "predicate": "", "fields": {"kinds": [], "skipped": True, "method": inp["method"]}}
    d = float(np.abs(r["F"] - r["fresh"]).max())
    bad = []
    if d > inp.get("tol", 2e-5):
        bad.append(f"force recomputed for state S{inp.get('new_state', 1)} after {inp.get('steps', 3)} steps differs from a fresh evaluation at the same geometry by {d:.3e} eV/A (atoms moved {r['moved']:.3f} A since step 0)")
    return {"ok": not bad, "observed": bad or [f"max difference {d:.1e}"], "expected": "post-hop force = force of the new state at the current geometry", "predicate": "",
            "fields": {"kinds": ["post_hop"] if bad else [], "method": inp["method"], "stratum_kind": "post_hop", "axis": "", "elements": [], "force_mode": "analytical", "uhf": False, "excited": True}}


def probe_evaluator_history(inp: Dict[str, Any]) -> Dict[str, Any]:
    """in ONE process: the same atom list evaluated analytically under a sequence of Hamiltonians (and semi-numerically); each force must equal the
    reverse-mode force of the same Hamiltonian (the evaluators share no hidden state keyed on the atom list alone)"""
    names = inp["names"]
    bad = []
    for method in inp["methods"]:
        for mode in inp.get("modes", [[True]]):
            fa = esh.run_named(names, esh.settings(method=method, eps=1e-10, analytical=mode))["force"]
            fr = esh.run_named(names, esh.settings(method=method, eps=1e-10))["force"]
            d = float(np.abs(fa - fr).max())
            if d > 2e-5:
                bad.append(f"{method} {('semi-numerical' if len(mode) > 1 else 'analytical')} force after the sequence {inp['methods'][:inp['methods'].index(method)]} differs from autodiff by {d:.3e} eV/A")
    return {"ok": not bad, "observed": bad[:4], "expected": "evaluators agree whatever ran before in the process", "predicate": "analytical == autodiff along a history of Hamiltonians",
            "fields": {"kinds": ["evaluator_history"] if bad else [], "molecule": "+".join(names)}}


PROBES = {"post_hop_force": probe_post_hop_force, "force_fd": probe_force_fd, "evaluator_history": probe_evaluator_history, "dispersion_window": probe_dispersion_window}


def _dispatch(c):
    return PROBES[c.get("_probe", "force_fd")](c)


def gen_cases(ctx: Ctx):
    rng = ctx.rng
    cases = []
    # corpus: the clamp defect (PM3 CH3Cl analytical, PM6_SP CH3F)
    cases.append({"names": ["ch3cl"], "method": "PM3", "analytical": [True], "stratum": "generic:", "seed": 1})
    cases.append({"names": ["ch3f"], "method": "PM6_SP", "analytical": [True], "stratum": "generic:", "seed": 2})
    pool = {"AM1": ["h2", "h2o", "nh3", "ch4", "ch2o", "hcn", "co", "hf", "ch3cl", "ch3f", "h2s", "so2", "sih4", "ph3", "c2h4", "oh-", "nh4+", "bh3", "alh3", "hcl"],
            "MNDO": ["h2o", "nh3", "ch2o", "hcn", "hf", "ch3cl", "h2s", "so2", "sih4", "ph3", "lih", "bh3", "alh3", "hcl", "oh-", "nh4+"],
            "PM3": ["h2o", "nh3", "ch2o", "hcn", "hf", "ch3cl", "ch3f", "h2s", "so2", "sih4", "ph3", "lih", "alh3", "hcl", "oh-", "nh4+"],
            "PM6_SP": ["h2o", "nh3", "ch2o", "hcn", "hf", "ch3cl", "ch3f", "h2s", "so2", "sih4", "ph3", "lih", "bh3", "alh3", "hcl", "c2h4"]}
    methods = list(pool)
    strata = ["generic:", "generic:", "generic:", "axis:+y", "axis:-z", "axis:+x", "cone:-x", "cone:+z", "axis:-y", "generic:"]
    modes = [None, [True], [True, "numerical"]]
    convs = [[1], [0, 0.3], [2], [1]]
    n = 110 if ctx.thorough else 22
    for i in range(n):
        m = methods[i % 4]
        nm = str(rng.choice(pool[m]))
        c = {"names": [nm], "method": m, "analytical": modes[i % 3], "converger": convs[(i // 3) % 4], "stratum": strata[i % len(strata)],
             "seed": int(rng.integers(0, 10**6)), "cross": i % 4 == 0}
        if i % 9 == 8:
            mate = str(rng.choice(["h2", "h2o", "ch4"]))
            c["names"] = [mate, nm]
            c["target"] = 1
            c["pad_to"] = max(len(esh.GEOMS[nm][0]), len(esh.GEOMS[mate][0])) + 1
            c["pad_coord"] = 4.2
        if i % 11 == 10 and c["analytical"] is None:
            c["sp2"] = [True, 1e-7]
        cases.append(c)
    # optional Hamiltonian terms: the AM1 dispersion correction (pairs beyond its damping distance: a methane dimer 4.6 A apart)
    cases.append({"names": ["ch4_dimer"], "method": "AM1", "dispersion": True, "stratum": "generic:", "seed": int(rng.integers(0, 10**6)), "cross": False, "tol": 4e-6})
    if ctx.thorough:
        cases.append({"names": ["ch4_dimer"], "method": "AM1", "dispersion": True, "analytical": [True], "stratum": "generic:", "seed": int(rng.integers(0, 10**6)), "cross": False})
    cases.append({"_probe": "dispersion_window", "pair": [[6, 1], [1, 1], [8, 1]][ctx.seed % 3], "host": ["ch4", "ch4", "h2o"][ctx.seed % 3], "seed": int(rng.integers(0, 10**6))})
    if ctx.thorough:
        cases.append({"_probe": "dispersion_window", "pair": [1, 1], "host": "h2o", "seed": int(rng.integers(0, 10**6))})
        cases.append({"_probe": "dispersion_window", "pair": [7, 1], "host": "nh3", "seed": int(rng.integers(0, 10**6))})
    cases.append({"_probe": "post_hop_force", "names": [["ch2o"], ["h2o"]][ctx.seed % 2], "method": ["AM1", "PM3", "MNDO"][ctx.seed % 3], "steps": 4, "hop_at": 3, "initial_state": 2, "new_state": 1, "seed": int(rng.integers(0, 999))})
    # open shells (UHF doublet / triplet), ions are in the pools
    for nm, m in ([("no", "AM1"), ("oh", "PM3"), ("o2", "MNDO")] if ctx.thorough else [("oh", "AM1")]):
        cases.append({"names": [nm], "method": m, "uhf": True, "stratum": "generic:", "seed": 7, "cross": False, "eps": 1e-9})
    # unrestricted references in BATCHES with the analytical / semi-numerical evaluators (homogeneous and zero-padded mixed)
    cases.append({"names": ["oh", "oh"], "target": int(rng.integers(0, 2)), "method": "AM1", "uhf": True, "analytical": [True], "stratum": "generic:", "seed": int(rng.integers(0, 10**6)), "cross": False, "eps": 1e-10})
    cases.append({"names": ["no", "oh"], "target": int(rng.integers(0, 2)), "method": str(rng.choice(["PM3", "MNDO"])), "uhf": True, "analytical": [[True], [True, "numerical"]][int(rng.integers(0, 2))],
                  "stratum": "generic:", "seed": int(rng.integers(0, 10**6)), "cross": False, "eps": 1e-10, "pad_to": 2})
    # excited states (analytical Z-vector gradient; and autodiff through scf_backward=1)
    cases.append({"names": ["ch2o"], "method": "AM1", "excited": {"n_states": 3, "method": "cis", "tolerance": 1e-8}, "active_state": 1, "stratum": "generic:", "seed": 4, "eps": 1e-11, "tol": 2e-5})
    if ctx.thorough:
        cases.append({"names": ["h2o"], "method": "AM1", "excited": {"n_states": 2, "method": "rpa", "tolerance": 1e-8}, "active_state": 2, "stratum": "generic:", "seed": 5, "eps": 1e-11, "tol": 2e-5})
    return cases


def corr_enuc(ctx: Ctx, drv):
    """real pair_nuclear_energy vs the Lean CoreCore model, per element pair of each method"""
    import torch

    from seqm.seqm_functions.constants import Constants
    from seqm.seqm_functions.energy import pair_nuclear_energy
    from seqm.seqm_functions.parameters import params
    import seqm, os

    const = Constants()
    rng = ctx.rng
    root = os.path.join(os.path.dirname(seqm.__file__), "params") + "/"
    for mi, (method, ng) in enumerate([("MNDO", 0), ("AM1", 4), ("PM3", 2)]):
        els = [1, 6, 7, 8, 9, 16, 17] if method != "MNDO" else [1, 6, 7, 8, 9, 16, 17]
        names = ["alpha"] + [f"Gaussian{i}_{c}" for i in range(1, ng + 1) for c in "KLM"]
        p = params(method=method, elements=[0] + els, root_dir=root, parameters=names)
        npairs = 40 if ctx.thorough else 12
        for _ in range(npairs):
            zi, zj = sorted([int(rng.choice(els)), int(rng.choice(els))], reverse=True)
            r_ang = float(rng.uniform(0.6, 6.0))
            gam = float(rng.uniform(2.0, 12.0))
            Z = torch.tensor([zi, zj])
            alpha = p[Z, 0]
            if ng:
                K = torch.stack([p[Z, 1 + 3 * g] for g in range(ng)], dim=1)
                L = torch.stack([p[Z, 2 + 3 * g] for g in range(ng)], dim=1)
                M = torch.stack([p[Z, 3 + 3 * g] for g in range(ng)], dim=1)
                par = (alpha, K, L, M)
            else:
                par = (alpha,)
            from seqm.seqm_functions.constants import a0
            rij = torch.tensor([r_ang / a0])
            rija = float((rij * a0)[0])
            E = pair_nuclear_energy(Z, const, 1, torch.tensor([zi]), torch.tensor([zj]), torch.tensor([0]), torch.tensor([1]), rij,
                                    None, None, None, None, gam=torch.tensor([gam]), method=method, parameters=par)
            tore = const.tore
            isxh = int(zi in (7, 8) and zj == 1)
            toks = ["enuc", mi, f2b(float(tore[zi])), f2b(float(tore[zj])), f2b(gam), f2b(float(alpha[0])), f2b(float(alpha[1])), f2b(rija), isxh, ng]
            if ng:
                for t in (K[0], L[0], M[0], K[1], L[1], M[1]):
                    toks += [f2b(float(v)) for v in t]
            out = drv.ask(*toks)
            ok = len(out) == 1 and out[0] != "bad-op" and abs(b2f(out[0]) - float(E[0])) <= 1e-12 * max(1.0, abs(float(E[0])))
            ctx.corr_case("pair_nuclear_energy", {"method": method, "zi": zi, "zj": zj, "r": r_ang, "gam": gam}, out, float(E[0]), ok,
                          stratum=method + ("/XH" if isxh else ""))
            # analytical derivative core_core_der for the same pair (d gam/dx supplied through w_x as the code does)
            import types
            from seqm.seqm_functions.anal_grad import core_core_der
            dvec = rng.normal(size=3)
            dvec /= np.linalg.norm(dvec)
            xij = torch.as_tensor(dvec).reshape(1, 3)
            molns = types.SimpleNamespace(ni=torch.tensor([zi]), nj=torch.tensor([zj]), idxi=torch.tensor([0]), idxj=torch.tensor([1]), xij=xij, rij=rij, const=const)
            w_x = torch.as_tensor(rng.normal(size=(1, 3, 10, 10)))
            pg = core_core_der(molns, torch.tensor([gam]), w_x, method, par)
            Xij = (xij * rij.unsqueeze(1) * a0)
            for c in range(3):
                t2 = ["enucder"] + toks[1:9] + [f2b(float(Xij[0, c])), f2b(float(w_x[0, c, 0, 0])), ng] + toks[10:]
                o = drv.ask(*t2)
                want = float(pg[0, c])
                okd = len(o) == 1 and o[0] != "bad-op" and abs(b2f(o[0]) - want) <= 1e-11 * max(1.0, abs(want))
                ctx.corr_case("core_core_der", {"method": method, "zi": zi, "zj": zj, "r": r_ang, "c": c}, o, want, okd, stratum=method + ("/XH" if isxh else ""))
    # elec_energy (restricted / unrestricted, triangular Hcore handling)
    from seqm.seqm_functions.energy import elec_energy
    for n in (1, 3, 8):
        P, F, H = (torch.as_tensor(rng.normal(size=(1, n, n))) for _ in range(3))
        for tr in (0, 1):
            e = float(elec_energy(P, F, H, doTriu=bool(tr))[0])
            o = drv.ask("eelec", n, tr, *[f2b(float(v)) for T in (P, F, H) for v in T.reshape(-1)])
            ctx.corr_case("elec_energy", {"n": n, "doTriu": tr}, o, e, len(o) == 1 and o[0] != "bad-op" and abs(b2f(o[0]) - e) <= 1e-12 * max(1.0, abs(e)))
        Pu, Fu = torch.as_tensor(rng.normal(size=(1, 2, n, n))), torch.as_tensor(rng.normal(size=(1, 2, n, n)))
        e = float(elec_energy(Pu, Fu, H)[0])
        o = drv.ask("eelec_uhf", n, 1, *[f2b(float(v)) for T in (Pu[0, 0], Pu[0, 1], Fu[0, 0], Fu[0, 1], H) for v in T.reshape(-1)])
        ctx.corr_case("elec_energy(UHF)", {"n": n}, o, e, len(o) == 1 and o[0] != "bad-op" and abs(b2f(o[0]) - e) <= 1e-12 * max(1.0, abs(e)))


def run(ctx: Ctx):
    from ..translate import gen as _gen
    _gen.regenerate(ctx, ["CoreCoreGen"])
    leanproj.check_theorems(ctx, MODULE, THEOREMS)
    from .registry import THEOREMS_C01B, THEOREMS_CORECORETIE
    # translator tie: pair_nuclear_energy and the hand-written core_core_der, as they stand in the source, are the model's functions (whose
    # derivative relation C01.* proves), and they use the same N-H/O-H mask
    leanproj.check_theorems(ctx, "PyseqmVerif.Properties.CoreCoreTie", THEOREMS_CORECORETIE)
    leanproj.check_theorems(ctx, "PyseqmVerif.Properties.C01b", THEOREMS_C01B)
    drv = leanproj.Driver()
    try:
        try:
            corr_enuc(ctx, drv)
        except Exception:
            import traceback
            ctx.obligation("correspondence adapters C01 ran", False, traceback.format_exc()[-1500:], kind="harness")
    finally:
        drv.close()
    # histories of Hamiltonians on the same atom list inside one process
    hist = [{"names": ["ch3cl"], "methods": ["AM1", "PM3", "MNDO", "PM6_SP"], "modes": [[True]]},
            {"names": [str(ctx.rng.choice(["h2o", "ch2o", "h2s"]))], "methods": [str(v) for v in ctx.rng.permutation(["PM3", "AM1", "PM6_SP"])], "modes": [[True], [True, "numerical"]]}]
    for c, r in zip(hist, mdh.pmap(probe_evaluator_history, hist)):
        if isinstance(r, Exception) or r is None:
            ctx.obligation("probe evaluator_history evaluated", False, repr(r)[-1200:], kind="harness")
            continue
        ctx.probe_case("evaluator_history", c, r["ok"], fields=r["fields"], observed=r["observed"], expected=r["expected"], predicate=r["predicate"], stratum="history")
    cases = gen_cases(ctx)
    results = mdh.pmap(_dispatch, cases, timeout=2400)
    for c, r in zip(cases, results):
        if isinstance(r, Exception) or r is None:
            ctx.obligation("probe force_fd evaluated", False, repr(r)[-1500:], kind="harness")
            continue
        if c.get("_probe"):
            ctx.probe_case(c["_probe"], c, r["ok"], fields=r["fields"], observed=r["observed"], expected=r["expected"], predicate=r["predicate"], stratum=c["_probe"], nontrivial=not r["fields"].get("skipped", False))
            continue
        ctx.probe_case("force_fd", c, r["ok"], fields=r["fields"], observed=r["observed"], expected=r["expected"], predicate=r["predicate"],
                       nontrivial=not r["fields"].get("skipped", False), stratum=c["method"] + "/" + r["fields"].get("force_mode", "?") + "/" + c.get("stratum", ""))
    ctx.extra["elements_covered"] = sorted({e for c, r in zip(cases, results) if isinstance(r, dict) for e in r["fields"].get("elements", [])})
