"""C20 - steepest-descent geometry optimisation descends and stops truthfully."""
from __future__ import annotations

import contextlib
import io
import re
from typing import Any, Dict, List

import numpy as np

from .. import esh, leanproj, mdh
from ..core import Ctx, b2f, f2b

MODULE = "PyseqmVerif.Properties.C20"
try:
    from .registry import THEOREMS_C20 as THEOREMS  # type: ignore
except Exception:  # pragma: no cover
    THEOREMS = []

META = {
    "technique": "Lean 4 state-machine proof over the model of Geometry_Optimization_SD.run (evaluation count, truthful return values, message rule, coordinates one update past the last evaluation, descent lemma under L-smoothness, padding/path independence) + recorded-trace correspondence + descent probes on distorted geometries",
    "level_text": "Theorems: the number of evaluations is min(first i with max|F_i| <= tol, max_evl); the returned force error and energy change are those of the last evaluated geometry (with the stated first-evaluation edge); convergence exactly at the evaluation cap is reported as not converged (forced edge, stated); stored coordinates are one update past the last evaluated geometry; E(x + aF) <= E(x) - a(1 - La/2)|F|^2 under L-smoothness, hence descent for 0 < a <= 1/L; atoms with zero force never move; the update of molecule k uses only its own force (the run LENGTH is batch-global). Tied to the code by recording (x_i, F_i, E_i) of real runs, replaying the force maxima and energies through the compiled model (evaluation count, message, returned pair) and checking the coordinate update to <= 2 ulp; descent, truthful stop, padding and batch-independence are probed on distorted geometries over step factors 1e-4..2e-2, tolerances and caps. Translator tie (regenerated every run): the order evaluate / read force / move / return of onestep, the coordinate update, the loop range, force_err = max|F| over the batch, energy_err, the continue test with what each branch does, the not-converged test and the returned pair are extracted from the source and identified with the loop model (SDTie).",
    "level_note": "Trusted: Lean kernel; harness. L-smoothness of the real potential energy surface is a hypothesis of the descent lemma (validated by the monotone-energy probe for small step factors).",
    "design_ref": "DESIGN.md section 5 C20",
}


def _sd(names, alpha, tol, max_evl, seed, method="AM1", distort=0.05, converger=None, pad_to=None, coords=None, analytical=None, shift=None):
    import torch

    import seqm.MolecularDynamics as MD
    from seqm.Molecule import Molecule
    from seqm.seqm_functions.constants import Constants

    s, x, ch, mu = esh.batch(names, pad_to=pad_to, pad_coord=0.0, coords=coords)
    rng = np.random.default_rng(seed)
    x = x + (s > 0)[..., None] * rng.normal(size=x.shape) * distort
    if shift is not None:
        # the real atoms far from the origin (a fragment cut out of a large structure): nothing in the optimiser may depend on where the molecule sits
        x = x + (s > 0)[..., None] * np.asarray(shift, dtype=float)
    sp = dict(method=method, scf_eps=1e-9, scf_converger=converger or [1], sp2=[False])
    if analytical:
        sp["analytical_gradient"] = list(analytical)
    mol = Molecule(Constants(), sp, torch.as_tensor(x.copy()), torch.as_tensor(s))
    opt = MD.Geometry_Optimization_SD(sp, alpha=alpha, force_tol=tol, max_evl=max_evl)
    rec = []
    orig = opt.onestep

    def w(molecule, *a, **k):
        x_before = molecule.coordinates.detach().clone()
        f, e = orig(molecule, *a, **k)
        rec.append((x_before.numpy().copy(), f.detach().numpy().copy(), e.detach().numpy().copy(), molecule.coordinates.detach().numpy().copy()))
        return f, e
    opt.onestep = w
    buf = io.StringIO()
    with contextlib.redirect_stdout(buf):
        ferr, eerr = opt.run(mol, log=True)
    return {"rec": rec, "ferr": float(ferr), "eerr": float(eerr), "log": buf.getvalue(), "x_final": mol.coordinates.detach().numpy().copy(), "species": s,
            "E_final_attr": mol.Etot.detach().numpy().copy(), "F_final_attr": mol.force.detach().numpy().copy()}


def probe_sd(inp: Dict[str, Any]) -> Dict[str, Any]:
    r = _sd(inp["names"], inp["alpha"], inp["tol"], inp["max_evl"], inp.get("seed", 0), method=inp.get("method", "AM1"), distort=inp.get("distort", 0.05),
            converger=inp.get("converger"), pad_to=inp.get("pad_to"), analytical=inp.get("analytical"), shift=inp.get("shift"))
    rec = r["rec"]
    bad: List[str] = []
    kinds = set()
    n = len(rec)
    fmax = [float(np.abs(f).max()) for (_, f, _, _) in rec]
    E = np.array([e for (_, _, e, _) in rec])  # (n, nmol)
    # stop rule
    first = next((i for i, v in enumerate(fmax) if v <= inp["tol"]), None)
    want_n = min(first + 1, inp["max_evl"]) if first is not None else inp["max_evl"]
    if n != want_n:
        bad.append(f"{n} evaluations, expected {want_n} (first max|F|<=tol at {first}, cap {inp['max_evl']})"); kinds.add("stop")
    if abs(r["ferr"] - fmax[-1]) > 0:
        bad.append(f"returned force error {r['ferr']} is not that of the last evaluated geometry {fmax[-1]}"); kinds.add("return")
    want_de = float((E[-1] - (E[-2] if n > 1 else 0.0)).sum() / E.shape[1])
    if abs(r["eerr"] - want_de) > 1e-12 * max(1.0, abs(want_de)):
        bad.append(f"returned energy change {r['eerr']} != {want_de}"); kinds.add("return")
    capped = first is None or first + 1 > inp["max_evl"]
    said_not = "not converged" in r["log"]
    if capped and not said_not:
        bad.append("evaluation cap reached but not reported as not converged"); kinds.add("report")
    if (not capped) and said_not and not (first + 1 == inp["max_evl"]):
        bad.append("reported as not converged although the tolerance was met before the cap"); kinds.add("report")
    # descent for every molecule (small step factor)
    # "sufficiently small step factor": descent is guaranteed for alpha <= 1/L; the stiffest bonds here (C=O, H-F) have L ~ 150 eV/A^2
    # The descent lemma (C20.descent_step) needs alpha <= 1/L, L = Lipschitz constant of the force along the step.  |F_{i+1} - F_i| / |x_{i+1} - x_i| of the
    # recorded step is a LOWER bound of L for that molecule: where alpha times it exceeds 1 (descent needs alpha < 2/L) the step factor is not "sufficiently small" for that molecule
    # (N2: L ~ 300-400 eV/A^2, so 5e-3 is too large for it while it is small for water) and a rise there is not a violation.
    if inp.get("check_descent", True) and inp["alpha"] <= 5e-3:
        dE = np.diff(E, axis=0)
        worst = None
        for i in range(dE.shape[0]):
            for m in range(dE.shape[1]):
                dx = rec[i + 1][0][m] - rec[i][0][m]
                dF = rec[i + 1][1][m] - rec[i][1][m]
                L_low = float(np.linalg.norm(dF) / max(np.linalg.norm(dx), 1e-300))
                if inp["alpha"] * L_low <= 1.0 and dE[i, m] > 1e-9 and (worst is None or dE[i, m] > worst[0]):
                    worst = (float(dE[i, m]), i, m, L_low)
        if worst is not None:
            bad.append(f"energy of molecule {worst[2]} rises by {worst[0]:.3e} eV at iteration {worst[1]+2} (alpha={inp['alpha']}, alpha*L >= {inp['alpha'] * worst[3]:.2f} on that step)"); kinds.add("descent")
    # update rule and padding
    s = r["species"]
    update_ok = True
    for (xb, f, e, xa) in rec:
        upd = xb + inp["alpha"] * f
        if np.abs(xa - upd).max() > 1e-15 * max(1.0, np.abs(upd).max()):
            # the model's update rule (SteepestDescent.step: x + alpha*F) no longer describes the code: a broken tie, not by itself a violation
            # (a per-molecule step safeguard would keep every clause of the property); the probes decide
            update_ok = False
        if (s == 0).any() and np.abs(xa[s == 0] - xb[s == 0]).max() != 0.0:
            bad.append("padding atoms moved"); kinds.add("padding"); break
    # stored coordinates one update past the last evaluated geometry; attributes belong to the last evaluation
    if np.abs(r["x_final"] - rec[-1][3]).max() != 0.0:
        bad.append("final coordinates are not those left by the last update"); kinds.add("update")
    if np.abs(r["E_final_attr"] - rec[-1][2]).max() != 0.0:
        bad.append("molecule.Etot after the run is not the energy of the last evaluated geometry"); kinds.add("return")
    return {"ok": not bad, "observed": bad[:6], "expected": "descent; truthful stop and report", "predicate": "recorded (x_i,F_i,E_i) vs stop rule/returns/log",
            "fields": {"kinds": sorted(kinds), "alpha": inp["alpha"], "method": inp.get("method", "AM1")}, "trace": {"update_ok": update_ok, "fmax": fmax, "E": E.tolist(), "ferr": r["ferr"], "eerr": r["eerr"], "notconv": said_not}}


def probe_batch_path(inp: Dict[str, Any]) -> Dict[str, Any]:
    """path of molecule k independent of batch mates (compare the common prefix of iterations)"""
    k = inp["target"]
    # per-molecule start geometries: the target mildly, its batch mates possibly strongly distorted (large forces next to small ones)
    rng = np.random.default_rng(inp.get("seed", 0))
    xs = []
    for i, nm in enumerate(inp["names"]):
        x0 = esh.geom(nm)[1]
        xs.append(x0 + rng.normal(size=x0.shape) * (inp.get("distort_target", 0.0) if i == k else inp.get("distort_mates", 0.0)))
    kw = dict(method=inp.get("method", "AM1"), converger=inp.get("converger"), analytical=inp.get("analytical"))
    a = _sd([inp["names"][k]], inp["alpha"], 0.0, inp["n"], 0, distort=0.0, coords=[xs[k]], **kw)
    b = _sd(inp["names"], inp["alpha"], 0.0, inp["n"], 0, distort=0.0, coords=xs, pad_to=inp.get("pad_to"), **kw)
    nat = len(esh.GEOMS[inp["names"][k]][0])
    bad = []
    for i in range(inp["n"]):
        d = float(np.abs(a["rec"][i][3][0][:nat] - b["rec"][i][3][k][:nat]).max())
        if d > 1e-9:
            bad.append(f"iteration {i+1}: path of molecule {k} differs alone vs in batch by {d:.2e} A")
            break
    fm = float(max(np.abs(r[1]).max() for r in b["rec"]))
    return {"ok": not bad, "observed": bad or [f"largest force component in the batch {fm:.1f} eV/A"], "expected": "path independent of batch mates", "predicate": "", "fields": {"kinds": ["batch_path"] if bad else []}}


PROBES = {"sd_run": probe_sd, "batch_path": probe_batch_path}


def gen_cases(ctx: Ctx):
    rng = ctx.rng
    cases = []
    mols = [["h2o"], ["nh3"], ["ch4", "h2"], ["h2o", "hf"], ["ch2o"], ["h2", "h2o", "nh3"]]
    n = 20 if ctx.thorough else 7
    for i in range(n):
        names = mols[i % len(mols)]
        alpha = float(rng.choice([1e-4, 1e-3, 5e-3, 2e-2]))
        c = {"names": names, "alpha": alpha, "tol": float(rng.choice([0.5, 0.2, 0.05])), "max_evl": int(rng.choice([3, 6, 12, 25])), "seed": int(rng.integers(0, 10**6)),
             "method": ["AM1", "PM3", "MNDO", "PM6_SP"][i % 4], "converger": [[1], [0, 0.2], [2]][i % 3], "distort": float(rng.choice([0.02, 0.06]))}
        if len(names) > 1:
            c["pad_to"] = max(len(esh.GEOMS[v][0]) for v in names) + 1
        cases.append(("sd_run", c))
    # the selectable force evaluators drive the optimiser too (descent needs force = -grad E for each of them); molecules with N/O-X and X-H pair types
    for i, (names, an) in enumerate([(["hcn"], [True]), (["n2", "h2o"], [True, "numerical"]), (["ch2o"], [True]), (["co", "nh3"], [True])][: (4 if ctx.thorough else 2)]):
        cases.append(("sd_run", {"names": names, "alpha": float(rng.choice([1e-3, 5e-3])), "tol": 0.05, "max_evl": int(rng.choice([6, 10])), "seed": int(rng.integers(0, 10**6)), "method": ["AM1", "PM3", "MNDO"][(i + ctx.seed) % 3],
                                 "converger": [[1], [0, 0.2]][i % 2], "distort": 0.05, "analytical": an, "pad_to": (max(len(esh.GEOMS[v][0]) for v in names) if len(names) > 1 else None)}))
    # molecules far from the origin x small step factors (tiny moves next to large coordinate values)
    cases.append(("sd_run", {"names": [str(rng.choice(["h2o", "nh3", "ch4"]))], "alpha": float(rng.choice([2e-5, 5e-5])), "tol": 0.05, "max_evl": 8, "seed": int(rng.integers(0, 10**6)), "method": str(rng.choice(["AM1", "PM3"])),
                             "shift": [float(v) for v in rng.choice([-1.0, 1.0], size=3) * rng.uniform(40.0, 80.0, size=3)]}))
    cases.append(("sd_run", {"names": ["h2o", "ch4"], "alpha": 5e-3, "tol": 0.05, "max_evl": 25, "seed": int(rng.integers(0, 10**6)), "method": "AM1", "pad_to": 5, "distort": 0.03,
                             "shift": [float(v) for v in rng.choice([-1.0, 1.0], size=3) * rng.uniform(40.0, 80.0, size=3)]}))
    # cap hit exactly at convergence (forced edge) and immediate convergence
    cases.append(("sd_run", {"names": ["h2o"], "alpha": 5e-3, "tol": 50.0, "max_evl": 1, "seed": 3}))
    cases.append(("sd_run", {"names": ["h2o"], "alpha": 5e-3, "tol": 50.0, "max_evl": 5, "seed": 3}))
    cases.append(("batch_path", {"names": ["h2o", "ch4"], "target": 0, "alpha": 5e-3, "n": 4, "seed": 1}))
    # batch mates with the same number of orbitals but another heavy/hydrogen split
    cases.append(("batch_path", {"names": [["co", "ch4"], ["ch4", "n2", "co"]][ctx.seed % 2], "target": 1 + int(rng.integers(0, 1 + ctx.seed % 2)), "alpha": 5e-3, "n": 3, "seed": int(rng.integers(0, 10**6)), "distort_target": 0.03, "distort_mates": 0.05,
                                 "method": str(rng.choice(["AM1", "PM3", "MNDO"])), "converger": [[1], [0, 0.2]][int(rng.integers(0, 2))]}))
    # a batch mate far from equilibrium (forces of tens of eV/A) next to a mildly distorted target, large step factor
    cases.append(("batch_path", {"names": ["ch4", "h2o", "nh3"], "target": int(rng.integers(0, 3)), "alpha": 1e-2, "n": 4, "seed": int(rng.integers(0, 10**6)), "distort_target": 0.02, "distort_mates": 0.25,
                                 "method": str(rng.choice(["AM1", "PM3", "MNDO"])), "converger": [[1], [0, 0.2]][int(rng.integers(0, 2))], "pad_to": 6}))
    if ctx.thorough:
        for i in range(4):
            nm = [str(v) for v in rng.choice(["h2o", "ch4", "nh3", "hf", "ch2o", "h2"], size=3)]
            cases.append(("batch_path", {"names": nm, "target": int(rng.integers(0, 3)), "alpha": float(rng.choice([5e-3, 1e-2, 2e-2])), "n": 5, "seed": int(rng.integers(0, 10**6)),
                                         "distort_target": 0.03, "distort_mates": float(rng.choice([0.1, 0.25, 0.4])), "method": ["AM1", "PM3", "MNDO", "PM6_SP"][i]}))
    return cases


def _run_case(item):
    return PROBES[item[0]](item[1])


def run(ctx: Ctx):
    from ..translate import gen as _gen
    _gen.regenerate(ctx, ["SDGen"])
    leanproj.check_theorems(ctx, MODULE, THEOREMS)
    from .registry import THEOREMS_SDTIE
    # translator tie: order of evaluate / move / return, the update, the loop range, the stop test and the not-converged test of the source are the loop model's
    leanproj.check_theorems(ctx, "PyseqmVerif.Properties.SDTie", THEOREMS_SDTIE)
    cases = gen_cases(ctx)
    results = mdh.pmap(_run_case, cases, timeout=1800)
    drv = leanproj.Driver()
    try:
        for (name, c), r in zip(cases, results):
            if isinstance(r, Exception) or r is None:
                ctx.obligation(f"probe {name} evaluated", False, repr(r)[-1500:], kind="harness")
                continue
            ctx.probe_case(name, c, r["ok"], fields=r["fields"], observed=r["observed"], expected=r["expected"], predicate=r["predicate"], stratum=name)
            if name == "sd_run":
                tr = r["trace"]
                ctx.corr_case("Geometry_Optimization_SD.onestep update rule", {"alpha": c["alpha"], "names": c["names"]}, "x + alpha*F" if tr["update_ok"] else "something else", "x + alpha*F", tr["update_ok"])
                try:
                    # replay: the model is fed the records the real run would see if it never stopped early: pad with the last record up to max_evl
                    E = tr["E"]
                    fm = tr["fmax"]
                    nmol = len(E[0])
                    recs = list(zip(fm, E))
                    while len(recs) < c["max_evl"]:
                        recs.append(recs[-1])
                    toks = ["sd_run", c["max_evl"], f2b(c["tol"]), nmol, len(recs)]
                    for f_, e_ in recs:
                        toks += [f2b(f_)] + [f2b(v) for v in e_]
                    out = drv.ask(*toks)
                    ok = len(out) == 4 and int(out[0]) == len(fm) and int(out[1]) == (1 if tr["notconv"] else 0) and b2f(out[2]) == tr["ferr"] and abs(b2f(out[3]) - tr["eerr"]) <= 1e-13 * max(1.0, abs(tr["eerr"]))
                    ctx.corr_case("Geometry_Optimization_SD.run(recorded)", {"max_evl": c["max_evl"], "tol": c["tol"], "n_evals": len(fm)}, out, [len(fm), int(tr["notconv"]), tr["ferr"], tr["eerr"]], ok)
                except Exception:
                    import traceback
                    ctx.obligation("correspondence adapter sd_run ran", False, traceback.format_exc()[-1200:], kind="harness")
    finally:
        drv.close()
