"""C18 - invalid requests are rejected loudly; valid ones yield finite results."""
from __future__ import annotations

import contextlib
import io
from typing import Any, Dict, List

import numpy as np

from .. import esh, leanproj, mdh
from ..core import Ctx

MODULE = "PyseqmVerif.Properties.C18"
try:
    from .registry import THEOREMS_C18 as THEOREMS  # type: ignore
except Exception:  # pragma: no cover
    THEOREMS = []

META = {
    "technique": "Lean 4 decision-logic proof over the model of the package's guards in firing order (accepts <-> documented precondition) + accept/reject correspondence on malformed variants of valid inputs + finiteness probes over stretched/compressed/charged inputs",
    "level_text": "Theorems: the modelled guard sequence accepts exactly the inputs satisfying the documented preconditions (sorted species, electron-count parity for RHF, integral alpha/beta occupations within 0..norb, supported UHF/solver/excited-state combinations, homogeneous batches where required, excited active state needs settings, known COM-removal mode), and rejects before any result is produced. Tied to the code by comparing the accept/reject class of Molecule(...)/Electronic_Structure.forward/MD.initialize with the model on malformed variants along each precondition, and by checking that every accepted input yields finite energies/forces/charges or an explicit non-convergence flag over distances 0.5-30 A, highly charged ions and edge-of-table elements. The regenerated guard census includes the condition under which each documented guard fires (Census.documented_guard_conditions); malformed variants are generated along each precondition and classified by the proved guard model.",
    "level_note": "Trusted: Lean kernel; harness. Finiteness over ALL accepted inputs is validated on the sampled lattice, not proved.",
    "design_ref": "DESIGN.md section 5 C18",
}


def _attempt(inp: Dict[str, Any]) -> Dict[str, Any]:
    """run one (possibly malformed) request; classify outcome"""
    import torch

    kind = inp["kind"]
    produced = None
    try:
        with contextlib.redirect_stdout(io.StringIO()):
            if kind == "unsorted":
                r = esh.run(np.array([inp["species"]]), np.array([inp["coords"]]), esh.settings(method=inp.get("method", "AM1")))
            elif kind == "remove_com":
                from .. import mdh as M
                sc = dict(engine="basic", stub=True, mols=["h2o"], cad=dict(data=0), steps=1, remove_com=(inp["mode"], 1))
                M.in_process_run(sc, tag="c18")
                r = {"Etot": np.zeros(1)}
            else:
                sp = esh.settings(method=inp.get("method", "AM1"), eps=1e-8, converger=inp.get("converger", [1]), sp2=inp.get("sp2"), uhf=inp.get("uhf", False),
                                  excited=inp.get("excited"), active_state=inp.get("active_state", 0), analytical=inp.get("analytical"))
                s, x, ch, mu = esh.batch(inp["names"])
                if "charge" in inp:
                    ch = np.array(inp["charge"], dtype=float)
                if "mult" in inp:
                    mu = np.array(inp["mult"], dtype=float)
                if inp.get("entry", "full") == "full":
                    r = esh.run(s, x, sp, charges=ch, mult=(mu if inp.get("uhf") else None), active=inp.get("active_tensor"))
                else:
                    # the other public entry points: the driver without forces, and the energy class used directly (as training scripts do)
                    from seqm.basics import Energy
                    from seqm.ElectronicStructure import Electronic_Structure
                    from seqm.Molecule import Molecule
                    from seqm.seqm_functions.constants import Constants
                    import copy as _copy
                    spc = _copy.deepcopy(sp)
                    kwm = {"charges": torch.as_tensor(ch)}
                    if inp.get("uhf"):
                        kwm["mult"] = torch.as_tensor(mu)
                    mol = Molecule(Constants(), spc, torch.as_tensor(x), torch.as_tensor(s), **kwm)
                    if "active_tensor" in inp:
                        mol.active_state = torch.as_tensor(np.asarray(inp["active_tensor"]), dtype=torch.int64)
                    if inp["entry"] == "no_force":
                        Electronic_Structure(spc)(mol, do_force=False)
                        r = {"Etot": mol.Etot.detach().numpy()}
                    else:
                        out_ = Energy(spc)(mol, all_terms=True)
                        r = {"Etot": out_[1].detach().numpy()}
        produced = {"Etot": np.asarray(r["Etot"]).tolist()}
        return {"raised": None, "produced": produced}
    except BaseException as e:  # noqa
        # deliberate guard (a `raise` statement of the package) or incidental failure deeper down (torch indexing etc.)?
        import linecache
        import traceback as _tb
        fr = _tb.extract_tb(e.__traceback__)[-1]
        line = (fr.line or linecache.getline(fr.filename, fr.lineno)).strip()
        guard = ("/seqm/" in fr.filename) and line.startswith("raise")
        return {"raised": type(e).__name__, "msg": str(e)[:200], "produced": None, "guard": bool(guard)}


def probe_reject(inp: Dict[str, Any]) -> Dict[str, Any]:
    out = _attempt(inp)
    want_reject = inp["expect"] == "reject"
    deliberate = out["raised"] in ("ValueError", "NotImplementedError", "Exception", "RuntimeError", "TypeError", "KeyError")
    if want_reject:
        ok = out["raised"] is not None and deliberate and out["raised"] not in ("IndexError",)
        obs = f"raised {out['raised']}: {out.get('msg', '')}" if out["raised"] else f"accepted and produced {out['produced']}"
    else:
        ok = out["raised"] is None
        obs = "accepted" if ok else f"valid input rejected with {out['raised']}: {out.get('msg', '')}"
    fields = {"precondition": inp["precondition"], "expect": inp["expect"], "raised": out["raised"], "guard": out.get("guard", False)}
    if inp.get("kind") == "es" and len(inp.get("names", [])) == 1 and inp["names"][0] in esh.GEOMS:
        # does the request fill a spin channel completely (no virtual orbital left)?  Boundary of the occupation range.
        zs = esh.GEOMS[inp["names"][0]][0]
        val = {1: 1, 3: 1, 4: 2, 5: 3, 6: 4, 7: 5, 8: 6, 9: 7, 11: 1, 12: 2, 13: 3, 14: 4, 15: 5, 16: 6, 17: 7}
        nel = sum(val[z] for z in zs) - int(inp.get("charge", [esh.CHARGE.get(inp["names"][0], 0)])[0])
        norb = sum(1 if z == 1 else 4 for z in zs)
        mult = int(inp.get("mult", [1])[0]) if inp.get("uhf") else 1
        na = (nel + mult - 1) // 2 if inp.get("uhf") else nel // 2
        fields["full_shell"] = bool(na == norb)
        fields["empty_shell"] = bool(nel == 0 or (inp.get("uhf") and nel - na == 0))
    return {"ok": ok, "observed": [obs], "expected": inp["expect"], "predicate": "documented precondition violated => error before any result; valid => accepted",
            "fields": fields}


def probe_finite(inp: Dict[str, Any]) -> Dict[str, Any]:
    sp = esh.settings(method=inp["method"], eps=1e-7, converger=inp.get("converger", [1]), uhf=inp.get("uhf", False), analytical=inp.get("analytical"),
                      **({"dispersion": True} if inp.get("dispersion") else {}))
    z, x = esh.geom(inp["name"])
    x = x * inp.get("scale", 1.0)
    ch = np.array([inp.get("charge", esh.CHARGE.get(inp["name"], 0))], dtype=float)
    mu = np.array([inp.get("mult", esh.MULT.get(inp["name"], 1))], dtype=float)
    try:
        with contextlib.redirect_stdout(io.StringIO()):
            r = esh.run(np.array([z]), np.array([x]), sp, charges=ch, mult=(mu if inp.get("uhf") else None))
    except (ValueError, NotImplementedError, RuntimeError, IndexError) as e:
        # loud failure (an error, not a silent NaN): allowed by the property for inputs the package cannot handle
        return {"ok": True, "observed": [f"rejected: {type(e).__name__}"], "expected": "", "predicate": "", "fields": {"outcome": "rejected"}}
    bad = []
    nc = bool(np.asarray(r["notconverged"]).any())
    for k in ("Etot", "force", "q", "Hf"):
        if not np.isfinite(r[k]).all() and not nc:
            bad.append(f"{k} is not finite and no non-convergence flag is set")
    return {"ok": not bad, "observed": bad or [f"finite (notconverged={nc})"], "expected": "finite results or explicit flag", "predicate": "isfinite(E,F,q) or notconverged",
            "fields": {"outcome": "nonfinite" if bad else "finite", "method": inp["method"], "scale": inp.get("scale", 1.0)}}


PROBES = {"reject": probe_reject, "finite": probe_finite}


def gen_cases(ctx: Ctx):
    rng = ctx.rng
    cases = []
    R = "reject"
    # 1 unsorted species
    cases.append(("reject", {"kind": "unsorted", "species": [1, 8, 1], "coords": [[0.96, 0, 0], [0, 0, 0], [-0.24, 0.93, 0]], "precondition": "sorted_species", "expect": R}))
    cases.append(("reject", {"kind": "unsorted", "species": [6, 1, 1, 8], "coords": [[0, 0, 0], [-0.6, 0.9, 0], [-0.6, -0.9, 0], [1.2, 0, 0]], "precondition": "sorted_species", "expect": R}))
    cases.append(("reject", {"kind": "unsorted", "species": [8, 1, 0, 1], "coords": [[0, 0, 0], [0.96, 0, 0], [0, 0, 0], [-0.24, 0.93, 0]], "precondition": "sorted_species", "expect": R}))
    # 2 odd electron count with RHF
    cases.append(("reject", {"kind": "es", "names": ["oh"], "precondition": "rhf_parity", "expect": R}))
    cases.append(("reject", {"kind": "es", "names": ["h2o"], "charge": [1], "precondition": "rhf_parity", "expect": R}))
    cases.append(("reject", {"kind": "es", "names": ["h2o", "no"], "precondition": "rhf_parity", "expect": R}))
    # 3 impossible charge / multiplicity
    cases.append(("reject", {"kind": "es", "names": ["h2o"], "uhf": True, "mult": [2], "precondition": "charge_mult", "expect": R}))
    cases.append(("reject", {"kind": "es", "names": ["oh"], "uhf": True, "mult": [1], "precondition": "charge_mult", "expect": R}))
    cases.append(("reject", {"kind": "es", "names": ["h2o"], "uhf": True, "mult": [9], "precondition": "charge_mult_range", "expect": R}))
    cases.append(("reject", {"kind": "es", "names": ["h2"], "uhf": True, "mult": [5], "precondition": "charge_mult_range", "expect": R}))
    cases.append(("reject", {"kind": "es", "names": ["h2"], "charge": [4], "precondition": "charge_mult_range", "expect": R}))
    cases.append(("reject", {"kind": "es", "names": ["h2o"], "charge": [-6], "precondition": "charge_mult_range", "expect": R}))
    # 4 unsupported UHF combinations
    cases.append(("reject", {"kind": "es", "names": ["oh"], "uhf": True, "mult": [2], "sp2": [True, 1e-5], "precondition": "uhf_sp2", "expect": R}))
    cases.append(("reject", {"kind": "es", "names": ["oh"], "uhf": True, "mult": [2], "method": "PM6", "precondition": "uhf_pm6", "expect": R}))
    cases.append(("reject", {"kind": "es", "names": ["oh"], "uhf": True, "mult": [2], "converger": [2], "precondition": "uhf_pulay", "expect": R}))
    cases.append(("reject", {"kind": "es", "names": ["oh"], "uhf": True, "mult": [2], "excited": {"n_states": 2}, "precondition": "uhf_excited", "expect": R}))
    # 5 heterogeneous batches where homogeneous ones are needed
    cases.append(("reject", {"kind": "es", "names": ["h2o", "ch2o"], "excited": {"n_states": 2, "method": "rpa"}, "precondition": "hetero_rpa", "expect": R}))
    cases.append(("reject", {"kind": "es", "names": ["h2o", "ch2o"], "excited": {"n_states": 2, "method": "cis"}, "active_state": 1, "analytical": [True], "precondition": "hetero_excited_gradient", "expect": R}))
    # ... heterogeneous in the ELECTRON COUNT only (same species rows, different charges: same number of orbitals, different occupations)
    cases.append(("reject", {"kind": "es", "names": ["h2o", "h2o"], "charge": [0, 2], "excited": {"n_states": 2, "method": "cis"}, "precondition": "hetero_cis_charge", "expect": R}))
    cases.append(("reject", {"kind": "es", "names": ["ch2o", "ch2o"], "charge": [2, 0], "excited": {"n_states": 2, "method": "rpa"}, "precondition": "hetero_rpa_charge", "expect": R}))
    # 6 excited active state without settings
    cases.append(("reject", {"kind": "es", "names": ["h2o"], "active_state": 1, "precondition": "active_state_needs_settings", "expect": R}))
    # ... also when the request is a per-molecule tensor in which only SOME members of the batch ask for an excited surface (seed C18_J: the guard
    # rewritten as "no member is in the ground state" accepted these and returned ground-state numbers for the excited members)
    for act in ([0, 1], [2, 0], [1, 2]):
        cases.append(("reject", {"kind": "es", "names": ["h2o", "h2o"], "active_tensor": list(act), "precondition": "active_state_needs_settings_mixed", "expect": R}))
    # 7 unknown COM mode
    cases.append(("reject", {"kind": "remove_com", "mode": "rotational", "precondition": "remove_com_mode", "expect": R}))
    cases.append(("reject", {"kind": "remove_com", "mode": "angular", "precondition": "remove_com_mode", "expect": "accept"}))
    # the same malformed requests through the other public entry points (energy without forces; the energy class directly)
    es_rejects = [c for n_, c in cases if n_ == "reject" and c.get("kind") == "es" and c["expect"] == R]
    for j, c in enumerate(es_rejects):
        if ctx.thorough or (j + ctx.seed) % 3 == 0:
            cases.append(("reject", dict(c, entry=["no_force", "energy_class"][(j + ctx.seed) % 2])))
    # generated malformed mode strings: fragments, concatenations, typos of the valid names (the code lower-cases and strips, so case/space variants are valid)
    valid = ["linear", "angular"]
    bad_modes = set(["", "linearangular", "angularlinear", "both", "none", "lin", "ang", "r", "l", "a"])
    for _ in range(12 if ctx.thorough else 5):
        w = str(rng.choice(valid))
        i, j = sorted(int(v) for v in rng.integers(0, len(w) + 1, size=2))
        bad_modes.add(w[i:j])                                  # substring
        bad_modes.add(w[:i] + w[i + 1:])                       # deletion
        bad_modes.add(w[:i] + "x" + w[i:])                     # insertion
        bad_modes.add(w + str(rng.choice(valid)))              # concatenation
    bad_modes -= set(valid)
    pick = sorted(bad_modes)
    for m in ([pick[int(k)] for k in rng.choice(len(pick), size=8, replace=False)] if not ctx.thorough else pick):
        cases.append(("reject", {"kind": "remove_com", "mode": m, "precondition": "remove_com_mode", "expect": R}))
    for m in (" Linear", "ANGULAR ", "linear"):
        cases.append(("reject", {"kind": "remove_com", "mode": m, "precondition": "remove_com_mode", "expect": "accept"}))
    # generated unsorted species rows (every non-sorted permutation of a sorted row, incl. padding zeros in the middle)
    for _ in range(6 if ctx.thorough else 2):
        nm = str(rng.choice(["ch2o", "hcn", "ch3cl", "so2", "h2o"]))
        z, x = esh.geom(nm)
        if rng.uniform() < 0.4:
            z, x = z + [0], np.vstack([x, [[0.0, 0.0, 0.0]]])
        for _try in range(20):
            perm = rng.permutation(len(z))
            zz = [z[int(k)] for k in perm]
            if any(zz[k] < zz[k + 1] for k in range(len(zz) - 1)):
                cases.append(("reject", {"kind": "unsorted", "species": zz, "coords": x[perm].tolist(), "precondition": "sorted_species", "expect": R}))
                break
    # generated charge / multiplicity requests; the expected class is whatever the PROVED guard model says (filled in by run())
    for _ in range(16 if ctx.thorough else 6):
        nm = str(rng.choice(["h2o", "oh", "no", "o2", "h2", "ch4", "nh3", "co"]))
        uhf = bool(rng.integers(0, 2))
        cases.append(("reject", {"kind": "es", "names": [nm], "uhf": uhf, "charge": [int(rng.integers(-4, 7))], "mult": [int(rng.integers(1, 8))], "precondition": "charge_mult_generated", "expect": "model"}))
    # valid counterparts must be accepted (no false rejections)
    cases.append(("reject", {"kind": "es", "names": ["oh"], "uhf": True, "mult": [2], "precondition": "charge_mult", "expect": "accept"}))
    cases.append(("reject", {"kind": "es", "names": ["o2"], "uhf": True, "mult": [3], "precondition": "charge_mult", "expect": "accept"}))
    cases.append(("reject", {"kind": "es", "names": ["h2o"], "uhf": True, "mult": [3], "precondition": "charge_mult", "expect": "accept"}))
    cases.append(("reject", {"kind": "es", "names": ["h2o"], "charge": [2], "precondition": "rhf_parity", "expect": "accept"}))
    cases.append(("reject", {"kind": "es", "names": ["h2o", "ch2o"], "excited": {"n_states": 2, "method": "cis"}, "precondition": "hetero_cis", "expect": "accept"}))
    cases.append(("reject", {"kind": "es", "names": ["ch2o", "ch2o"], "excited": {"n_states": 2, "method": "rpa"}, "precondition": "hetero_rpa", "expect": "accept"}))
    # finiteness
    pool = ["h2", "h2o", "nh3", "ch4", "co", "hf", "hcl", "h2s", "sih4", "ph3", "alh3", "lih", "bh3", "so2", "oh-", "nh4+"]
    methods = ["AM1", "MNDO", "PM3", "PM6_SP"]
    n = 60 if ctx.thorough else 16
    for i in range(n):
        nm = str(rng.choice(pool))
        c = {"name": nm, "method": methods[i % 4], "scale": float(rng.choice([0.55, 0.7, 1.0, 1.6, 3.0, 8.0, 25.0])), "converger": [[1], [0, 0.3], [2]][i % 3]}
        if i % 6 == 5:
            c["charge"] = int(rng.choice([2, -2, 4]))
        if c["method"] == "AM1" and i % 8 == 0:
            c["dispersion"] = True      # optional Hamiltonian term (AM1-FS1 pair correction with a damping function)
        if i % 5 == 3:
            c["analytical"] = [True]
        cases.append(("finite", c))
    # optional pair corrections at compressed geometries (damping functions saturate there), both force routes
    for nm, sc in (("h2", 0.6), ("h2o", 0.6), ("ch4", 0.65)) if ctx.thorough else (("h2", 0.6), ("h2o", 0.6)):
        cases.append(("finite", {"name": nm, "method": "AM1", "scale": sc, "dispersion": True}))
    cases.append(("finite", {"name": "h2o", "method": "AM1", "scale": 0.6, "dispersion": True, "analytical": [True]}))
    return cases


def _run_case(item):
    return PROBES[item[0]](item[1])


def _encode(inp: Dict[str, Any]):
    """request -> token list of the Lean `validate_class` operation (None if the request kind is not modelled)"""
    methods = {"MNDO": 0, "AM1": 1, "PM3": 2, "PM6": 3, "PM6_SP": 4}
    if inp["kind"] == "remove_com":
        com = {"linear": 1, "angular": 2}.get(str(inp["mode"]).lower().strip(), 3)
        return ["validate_class", 0, 1, 0, 1, 0, 0, 0, 0, 0, com, 1, 0, 1, 3, 8, 1, 1]
    if inp["kind"] == "unsorted":
        z = inp["species"]
        return ["validate_class", 0, methods.get(inp.get("method", "AM1"), 1), 0, 1, 0, 0, 0, 0, 0, 0, 1, 0, 1, len(z)] + list(z)
    exc = inp.get("excited")
    xm = 0 if not exc else {"cis": 1, "tda": 2, "rpa": 3}.get(exc.get("method", "cis"), 4)
    toks = ["validate_class", int(bool(inp.get("uhf"))), methods.get(inp.get("method", "AM1"), 1), int(bool((inp.get("sp2") or [False])[0])), int(inp.get("converger", [1])[0]), 0,
            xm, int(bool(exc and "n_states" in exc)), int(max(inp["active_tensor"]) > 0 if "active_tensor" in inp else inp.get("active_state", 0)), int(bool(inp.get("analytical"))), 0, len(inp["names"])]
    for i, nm in enumerate(inp["names"]):
        z = esh.GEOMS[nm][0]
        ch = int(inp["charge"][i]) if "charge" in inp else int(esh.CHARGE.get(nm, 0))
        mu = int(inp["mult"][i]) if "mult" in inp else int(esh.MULT.get(nm, 1))
        toks += [ch, mu, len(z)] + list(z)
    return toks


def run(ctx: Ctx):
    from ..translate import gen
    gen.regenerate(ctx, ["Guards"])
    leanproj.check_theorems(ctx, MODULE, THEOREMS)
    cases = gen_cases(ctx)
    # generated requests: the expected class is the verdict of the proved guard model (= the documented preconditions)
    drv = leanproj.Driver()
    try:
        for name, c in cases:
            if c.get("expect") == "model":
                c["expect"] = "accept" if drv.ask(*_encode(c)) == ["ok"] else "reject"
    finally:
        drv.close()
    results = mdh.pmap(_run_case, cases, timeout=1800)
    drv = leanproj.Driver()
    try:
        for (name, c), r in zip(cases, results):
            if name != "reject" or not isinstance(r, dict):
                continue
            try:
                toks = _encode(c)
                ans = drv.ask(*toks)
                raised = r["fields"].get("raised")
                # the model is about the package's guards: an incidental failure behind them means "every guard accepted"
                want = "ok" if (raised is None or not r["fields"].get("guard", True)) else raised
                # incidental torch index errors surface as RuntimeError/IndexError: the model only knows deliberate guards
                ok = len(ans) == 1 and ans[0] == want
                ctx.corr_case("guards: accept/reject class", {"precondition": c["precondition"], "tokens": toks[1:]}, ans, want, ok, stratum=c["precondition"])
            except Exception:
                import traceback
                ctx.obligation("correspondence adapter validate_class ran", False, traceback.format_exc()[-1200:], kind="harness")
    finally:
        drv.close()
    for (name, c), r in zip(cases, results):
        if isinstance(r, Exception) or r is None:
            ctx.obligation(f"probe {name} evaluated", False, repr(r)[-1500:], kind="harness")
            continue
        ctx.probe_case(name, c, r["ok"], fields=r["fields"], observed=r["observed"], expected=r["expected"], predicate=r["predicate"],
                       stratum=str(c.get("precondition", c.get("method"))))
