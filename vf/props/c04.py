"""C04 - the SCF answer does not depend on which solver path produced it."""
from __future__ import annotations

from typing import Any, Dict, List

import numpy as np

from .. import esh, leanproj, mdh
from ..core import Ctx

MODULE = "PyseqmVerif.Properties.C04"
try:
    from .registry import THEOREMS_C04 as THEOREMS  # type: ignore
except Exception:  # pragma: no cover
    THEOREMS = []

META = {
    "technique": "Lean 4 algebra (all mixing rules share the fixed points of the SCF map; DIIS affine combination; SP2 = aufbau; UHF singlet Fock = RHF Fock; one shared stopping rule) + solver-pair search on the real code",
    "level_text": "Theorems: alpha*P + (1-alpha)*g(P) = P iff g(P) = P for alpha != 1; the adaptive extrapolation is the identity at a fixed point; a DIIS combination with unit coefficient sum of equal Fock matrices is that matrix; SP2's limit is the aufbau projector; with P_alpha = P_beta = P/2 the unrestricted Fock operators equal the restricted one; every solver applies the same get_error, so any two converged results are eps-approximate fixed points of the same map. Uniqueness of the fixed point / monotone tightening is a property of the molecule and is validated, not proved (partial). Tied to the code by the C03 recorded-trace correspondence and by comparing pairs of solver configurations (fixed/adaptive/Pulay, SP2, UHF singlet, restarts from previous/perturbed densities, threshold ladders) on closed-shell molecules with gap > 2 eV. Round 4 (C04b): for an SCF map that is a contraction with constant q < 1 on a complete normed space, constant mixing with 0 <= alpha < 1 is a contraction with constant alpha + (1-alpha) q and has the same unique fixed point; ANY density with residual |g(P) - P| <= r lies within r/(1-q) of it (solver independence with an explicit constant); a mixing run stopped when the density changed by <= eps is within eps/((1-alpha)(1-q)) - the factor K = 1/(1-alpha) the probes multiply the threshold with; two stopped runs agree within the sum of their bounds; the bound is monotone in the threshold.",
    "level_note": "Trusted: Lean kernel; harness; tolerances K*eps with K stated in the probe. Partial: uniqueness and monotone tightening validated only.",
    "design_ref": "DESIGN.md section 5 C04",
}

CONFIGS = {
    "fixed0": dict(converger=[0, 0.0]),
    "fixed3": dict(converger=[0, 0.3]),
    "fixed6": dict(converger=[0, 0.6]),
    "adaptive": dict(converger=[1]),
    "adaptive_adv": dict(converger=[1, 0.5, 0.1, 12]),
    "pulay": dict(converger=[2]),
    "adaptive_sp2": dict(converger=[1], sp2=[True, 1e-7]),
    "fixed_sp2": dict(converger=[0, 0.2], sp2=[True, 1e-7]),
    "adaptive_sp2_tight": dict(converger=[1], sp2=[True, 1e-9]),     # requested below the package's floor (1e-7 in float64): must behave like the floor, not worse
    # the differentiable SCF modes (implicit backward = 1, unrolled = 2) run their own copies of the solver loops
    "fixed0_bw2": dict(converger=[0, 0.0], scf_backward=2),
    "fixed1_bw2": dict(converger=[0, 0.1], scf_backward=2),
    "fixed6_bw1": dict(converger=[0, 0.6], scf_backward=1),
    "adaptive_bw2": dict(converger=[1], scf_backward=2),
    "pulay_bw1": dict(converger=[2], scf_backward=1),
    "uhf_singlet": dict(converger=[1], uhf=True),
    "uhf_singlet_fixed": dict(converger=[0, 0.3], uhf=True),
    # Krylov-subspace solver (known finding F29: energy-only stopping rule; finite electronic temperature 300 K ~ integer occupations for gaps > 2 eV)
    "ksa": dict(converger=[3, {"T_el": 300, "max_rank": 3, "k": 4, "err_threshold": 0.0}]),
}


def _run_cfg(names, method, eps, cfg, P0=None, coords=None):
    c = CONFIGS[cfg]
    sp = esh.settings(method=method, eps=eps, converger=c["converger"], sp2=c.get("sp2"), uhf=c.get("uhf", False), **({"scf_backward": c["scf_backward"]} if c.get("scf_backward") else {}))
    return esh.run_named(names, sp, P0=P0, coords=coords)


def probe_solver_pair(inp: Dict[str, Any]) -> Dict[str, Any]:
    import torch

    names, method, eps = inp["names"], inp["method"], float(inp["eps"])
    try:
        a = _run_cfg(names, method, eps, inp["a"])
    except RuntimeError as e:
        if inp["a"] != "ksa":
            raise
        return {"ok": False, "observed": [f"the KSA solver raises on this batch: {str(e)[-120:]}"], "expected": "", "predicate": "", "fields": {"kinds": ["raises"], "a": inp["a"], "b": inp["b"], "method": method, "restart": "cold", "ksa": True}}
    P0 = None
    if inp.get("restart"):
        # density from a neighbouring geometry (MD-like), optionally perturbed
        rng = np.random.default_rng(inp.get("seed", 0))
        xs = [esh.geom(n)[1] + rng.normal(size=(len(esh.GEOMS[n][0]), 3)) * 0.02 for n in names]
        prev = _run_cfg(names, method, eps, inp["b"], coords=xs)
        P0 = torch.as_tensor(prev["dm"]).clone()
        if inp["restart"] == "perturbed":
            nz = (P0.abs().sum(-1, keepdim=True) > 0) & (P0.abs().sum(-2, keepdim=True) > 0)
            noise = torch.as_tensor(rng.normal(size=tuple(P0.shape))) * 0.02
            P0 = P0 + 0.5 * (noise + noise.transpose(-1, -2)) * nz
    if inp.get("perm") and len(names) > 1 and P0 is None:
        # same process, same tensor shapes, the batch in reverse order: the second solver must still land on the same answers
        b = _run_cfg(names[::-1], method, eps, inp["b"])
        b = {k: (v[::-1] if isinstance(v, np.ndarray) and v.ndim >= 1 and v.shape[0] == len(names) else v) for k, v in b.items()}
    else:
        b = _run_cfg(names, method, eps, inp["b"], P0=P0)
    bad: List[str] = []
    kinds = set()
    if np.asarray(a["notconverged"]).any() or np.asarray(b["notconverged"]).any():
        return {"ok": True, "observed": ["a solver did not converge: flagged, skipped"], "expected": "", "predicate": "", "fields": {"skipped": True}}
    sp2 = "sp2" in inp["a"] or "sp2" in inp["b"]
    e_eff = max(eps, 1e-7) if sp2 else eps          # (the package floors the purification tolerance at 1e-7 in float64)
    tolE, tolF = max(2e-8, 500 * e_eff), max(2e-6, 5e4 * e_eff)
    for k, tol in (("Etot", tolE), ("Hf", tolE), ("force", tolF), ("q", tolF)):
        d = float(np.max(np.abs(a[k] - b[k])))
        if d > tol:
            bad.append(f"{k}: {inp['a']} vs {inp['b']} differ by {d:.3e} (tol {tol:.1e})")
            kinds.add(k)
    ea, eb = a["e_mo"], b["e_mo"]
    if ea is not None and eb is not None:
        if eb.ndim == 3:
            eb = eb[:, 0]
        if ea.ndim == 3:
            ea = ea[:, 0]
        for m in range(len(names)):
            nb = int(a["norb"][m])
            d = float(np.max(np.abs(ea[m][:nb] - eb[m][:nb])))
            if d > tolF:
                bad.append(f"e_mo[{m}] differ by {d:.3e}")
                kinds.add("e_mo")
    return {"ok": not bad, "observed": bad[:6], "expected": "same energy, forces, charges, orbital energies within K*eps",
            "predicate": "|out(cfg a) - out(cfg b)| <= K*eps", "fields": {"kinds": sorted(kinds), "a": inp["a"], "b": inp["b"], "method": method, "restart": inp.get("restart") or "cold", "ksa": "ksa" in (inp["a"], inp["b"])}}


def probe_sp2_ladder(inp: Dict[str, Any]) -> Dict[str, Any]:
    """tightening the purification tolerance (SCF threshold fixed and tight) moves the result monotonically toward the diagonalisation answer"""
    names, method = inp["names"], inp["method"]
    ref = esh.run_named(names, esh.settings(method=method, eps=1e-11, converger=[1]))
    ladder = [1e-4, 1e-5, 1e-6, 1e-7, 1e-8, 1e-10]
    errs = []
    for e in ladder:
        r = esh.run_named(names, esh.settings(method=method, eps=1e-10, converger=inp.get("converger", [1]), sp2=[True, e]))
        errs.append(float(np.max(np.abs(r["Etot"] - ref["Etot"]))))
    bad = []
    for i in range(1, len(errs)):
        if errs[i] > max(errs[i - 1] * 2.0, 2e-8):
            bad.append(f"tightening the SP2 tolerance {ladder[i-1]:g} -> {ladder[i]:g} makes the energy worse: {errs[i-1]:.2e} -> {errs[i]:.2e} eV")
    if errs[-1] > 5e-6:
        bad.append(f"at the tightest purification tolerance the energy is still {errs[-1]:.2e} eV from the diagonalisation result")
    return {"ok": not bad, "observed": bad or [f"errors {['%.1e' % v for v in errs]}"], "expected": "errors shrink as the purification tolerance is tightened", "predicate": "monotone within slack",
            "fields": {"kinds": ["sp2_ladder"] if bad else [], "cfg": "sp2", "method": method}}


def probe_tightening(inp: Dict[str, Any]) -> Dict[str, Any]:
    names, method, cfg = inp["names"], inp["method"], inp["cfg"]
    ref = _run_cfg(names, method, 1e-12, "adaptive")
    errs = []
    ladder = [1e-4, 1e-6, 1e-8, 1e-10]
    for e in ladder:
        r = _run_cfg(names, method, e, cfg)
        errs.append(float(np.max(np.abs(r["Etot"] - ref["Etot"]))))
    bad = []
    sp2_eps = (CONFIGS[cfg].get("sp2") or [False, 0.0])[1] if (CONFIGS[cfg].get("sp2") or [False])[0] else 0.0
    for e, err in zip(ladder, errs):
        # SP2 stops at its own tolerance, which is part of the requested thresholds
        if err > max(1e-9, 50 * max(e, sp2_eps)):
            bad.append(f"eps={e:g}: |E - E_limit| = {err:.3e} > 50 eps")
    for i in range(1, len(errs)):
        if errs[i] > max(errs[i - 1] * 1.5, 1e-9):
            bad.append(f"error grows when tightening {ladder[i-1]:g} -> {ladder[i]:g}: {errs[i-1]:.2e} -> {errs[i]:.2e}")
    return {"ok": not bad, "observed": bad, "expected": "errors shrink toward the same limit as eps is tightened", "predicate": "monotone within slack",
            "fields": {"kinds": ["tightening"], "cfg": cfg, "method": method}}


PROBES = {"solver_pair": probe_solver_pair, "tightening": probe_tightening, "sp2_ladder": probe_sp2_ladder}


def probe_sp2_vs_diag(inp: Dict[str, Any]) -> Dict[str, Any]:
    """density purification against diagonalisation on the SAME SCF problem, at the accuracy the purification tolerance buys: on the unchanged package the
    two differ by at most 11 x tolerance over the whole grid of this probe (energy, forces, charges); the bound is 25 x max(tolerance, scf_eps)"""
    nm, meth = inp["name"], inp["method"]
    ref = esh.run_named([nm], esh.settings(method=meth, eps=1e-10, converger=inp["converger"]))
    bad = []
    worst = 0.0
    for tol in inp["tols"]:
        r = esh.run_named([nm], esh.settings(method=meth, eps=1e-10, converger=inp["converger"], sp2=[True, tol]))
        if np.asarray(r["notconverged"]).any() or np.asarray(ref["notconverged"]).any():
            continue
        dE = abs(float(r["Etot"][0] - ref["Etot"][0]))
        dF = float(np.abs(r["force"] - ref["force"]).max())
        dq = float(np.abs(r["q"] - ref["q"]).max())
        ratio = max(dE, dF, dq) / max(tol, 1e-10)
        worst = max(worst, ratio)
        if ratio > 25.0:
            bad.append(f"sp2 tolerance {tol:.0e}: |dE| {dE:.2e} |dF| {dF:.2e} |dq| {dq:.2e} = {ratio:.0f} x tolerance away from the diagonalisation result")
    return {"ok": not bad, "observed": bad or [f"worst {worst:.1f} x tolerance"], "expected": "SP2 = diagonalisation within a small multiple of the purification tolerance",
            "predicate": "max(|dE|, |dF|, |dq|) <= 25 x tolerance", "fields": {"kinds": ["sp2_vs_diag"] if bad else [], "method": meth, "molecule": nm}}


PROBES["sp2_vs_diag"] = probe_sp2_vs_diag


def gen_cases(ctx: Ctx):
    rng = ctx.rng
    pool = ["h2o", "nh3", "ch4", "ch2o", "hcn", "hf", "ch3cl", "h2s", "c2h4", "hcl", "sih4", "co"]
    methods = ["AM1", "MNDO", "PM3", "PM6_SP"]
    cfgs = [c for c in CONFIGS if c != "ksa"]
    cases = []
    n = 70 if ctx.thorough else 18
    for i in range(n):
        a, b = [str(v) for v in rng.choice(cfgs, size=2, replace=False)]
        k = int(rng.integers(1, 3))
        names = [str(v) for v in rng.choice(pool, size=k)]
        if "uhf" in a or "uhf" in b:
            pass
        c = {"names": names, "method": methods[i % 4], "eps": float(rng.choice([1e-8, 1e-9, 1e-10])), "a": a, "b": b, "seed": int(rng.integers(0, 10**6)),
             "restart": [None, "previous", "perturbed"][i % 3]}
        c["perm"] = bool(k > 1 and c["restart"] is None)
        cases.append(("solver_pair", c))
    # unrestricted singlet against restricted on a mixed-size batch with the smaller molecule LAST (padding orbitals of every spin block), in every run
    cases.append(("solver_pair", {"names": [["ch2o", "h2o"], ["c2h4", "nh3", "h2"], ["so2", "hf"]][ctx.seed % 3], "method": methods[ctx.seed % 4], "eps": 1e-9, "a": ["uhf_singlet", "uhf_singlet_fixed"][ctx.seed % 2],
                                 "b": "adaptive", "seed": int(rng.integers(0, 10**6)), "restart": None}))
    # each differentiable-mode configuration against a plain one (quick: two of them)
    bwc = ["fixed0_bw2", "fixed1_bw2", "fixed6_bw1", "adaptive_bw2", "pulay_bw1"]
    for j in range(len(bwc) if ctx.thorough else 2):
        cases.append(("solver_pair", {"names": [str(rng.choice(["h2o", "nh3", "ch2o", "hcn"]))], "method": methods[j % 4], "eps": float(rng.choice([1e-8, 1e-9])), "a": bwc[(j + 2 * ctx.seed) % len(bwc)] if not ctx.thorough else bwc[j],
                                     "b": str(rng.choice(["adaptive", "pulay", "fixed3"])), "seed": int(rng.integers(0, 10**6)), "restart": None}))
    # both SP2 configurations on a mixed-size batch, second one on the reversed batch
    cases.append(("solver_pair", {"names": ["h2o", "ch2o", "c2h4"], "method": "AM1", "eps": 1e-9, "a": "adaptive_sp2", "b": "fixed_sp2", "seed": 1, "restart": None, "perm": True}))
    cases.append(("solver_pair", {"names": [str(rng.choice(["h2o", "nh3", "ch2o"]))], "method": str(rng.choice(["AM1", "PM3"])), "eps": float(rng.choice([1e-8, 1e-9])), "a": "ksa", "b": "adaptive", "seed": 1, "restart": None}))
    cases.append(("sp2_ladder", {"names": [str(rng.choice(pool))], "method": str(rng.choice(methods)), "converger": [[1], [2], [0, 0.2]][ctx.seed % 3]}))
    grid = [("ch4", "AM1"), ("ch2o", "PM3"), ("c2h4", "AM1"), ("so2", "PM3"), ("ch4_dimer", "AM1"), ("ch3cl", "PM3"), ("sih4", "AM1"), ("hcn", "MNDO")]
    for j in range(len(grid) if ctx.thorough else 3):
        nm, meth = grid[(j + 3 * ctx.seed) % len(grid)] if not ctx.thorough else grid[j]
        cases.append(("sp2_vs_diag", {"name": nm, "method": meth, "tols": [1e-5, 1e-6, 1e-7], "converger": [[1], [2], [0, 0.2]][j % 3]}))
    for i in range(4 if ctx.thorough else 1):
        cases.append(("tightening", {"names": [str(rng.choice(pool))], "method": methods[i % 4], "cfg": ["adaptive", "pulay", "fixed3", "adaptive_sp2"][i % 4]}))
    return cases


def _run_case(item):
    return PROBES[item[0]](item[1])


def run(ctx: Ctx):
    leanproj.check_theorems(ctx, MODULE, THEOREMS)
    from .registry import THEOREMS_C04B
    # the constant behind "a small multiple of the threshold": a-posteriori bounds for any stopped solver on a contracting SCF map
    leanproj.check_theorems(ctx, "PyseqmVerif.Properties.C04b", THEOREMS_C04B)
    cases = gen_cases(ctx)
    results = mdh.pmap(_run_case, cases, timeout=1800)
    for (name, c), r in zip(cases, results):
        if isinstance(r, Exception) or r is None:
            ctx.obligation(f"probe {name} evaluated", False, repr(r)[-1500:], kind="harness")
            continue
        ctx.probe_case(name, c, r["ok"], fields=r["fields"], observed=r["observed"], expected=r["expected"], predicate=r["predicate"],
                       nontrivial=not r["fields"].get("skipped", False), stratum=f"{c.get('a', c.get('cfg'))}~{c.get('b', '')}/{c.get('restart') or 'cold'}")
