"""C15 - results depend only on the call's inputs, not on process history or threads."""
from __future__ import annotations

import os

import contextlib
import copy
import io
import multiprocessing as mp
from typing import Any, Dict, List

import numpy as np

from .. import esh, leanproj, mdh
from ..core import Ctx

MODULE = "PyseqmVerif.Properties.C15"
try:
    from .registry import THEOREMS_C15 as THEOREMS  # type: ignore
except Exception:  # pragma: no cover
    THEOREMS = []

META = {
    "technique": "Lean 4 history model of the process-global registers (class attributes of SCF written by every forward, read by backward) with a non-interference theorem for nested histories, the interleaving leak as a witness and non-interference for all histories of the repaired semantics + fresh-process vs prefixed-history search on the real code (job pool with heterogeneous molecules/methods/solvers/spins/excited/MD/failing calls, object and dictionary reuse, thread counts)",
    "level_text": "Theorems: in the model of the package's process state, if every backward pass follows its own forward pass with no other forward in between, the registers it reads are its own for every prefix history (results are history independent); the interleaving [Forward a, Forward b, Backward a] reads b's registers (witness); under the semantics where backward reads values saved in its own context, non-interference holds for ALL histories. Tied to the code by the `history` correspondence (which tolerance/method a real backward pass used, observed by wrapping) and by comparing job J run first in a fresh process with J after seeded prefixes of other jobs, with reused drivers/dictionaries, repeated identical calls (bitwise) and 1..16 threads. Census obligation (regenerated from the AST on every run): every module-level container with the expression its entries are keyed by, every run-time write to a class attribute, mutable default, global statement and memoising decorator of the package is in the audited list (Census.process_state_is_audited).",
    "level_note": "Trusted: Lean kernel; harness (fork). Partial: thread-count independence and bitwise repeatability are runtime behaviour the model cannot exhibit; they are observed by the probes (threads within 1e-9, repeats bitwise).",
    "design_ref": "DESIGN.md section 5 C15",
}

JOBS: Dict[str, Dict[str, Any]] = {
    "w_am1": {"names": ["h2o"], "method": "AM1", "converger": [1]},
    "w_pm3_pulay": {"names": ["h2o"], "method": "PM3", "converger": [2]},
    "batch_mndo": {"names": ["ch4", "h2", "nh3"], "method": "MNDO", "converger": [0, 0.3]},
    "big_am1_sp2": {"names": ["c2h4"], "method": "AM1", "converger": [1], "sp2": [True, 1e-6]},
    "uhf_oh": {"names": ["oh"], "method": "AM1", "converger": [1], "uhf": True},
    "cis_ch2o": {"names": ["ch2o"], "method": "AM1", "converger": [1], "excited": {"n_states": 3, "method": "cis"}},
    # an SCF threshold looser than the excited-state solver needs: the package tightens it (and writes the tightened value into the caller's dictionary)
    "cis_ch2o_loose": {"names": ["ch2o"], "method": "AM1", "converger": [1], "eps": 1e-4, "excited": {"n_states": 3, "method": "cis"}},
    "rpa_h2o_loose": {"names": ["h2o"], "method": "PM3", "converger": [0, 0.3], "eps": 1e-5, "excited": {"n_states": 2, "method": "rpa"}},
    "pm6sp_so2_anal": {"names": ["so2"], "method": "PM6_SP", "converger": [1], "analytical": [True]},
    "fail_odd": {"names": ["oh"], "method": "AM1", "converger": [1], "fails": True},
    "loose": {"names": ["hcn"], "method": "AM1", "converger": [1], "eps": 1e-4},
    "md_h2": {"md": True},
    # optional pair corrections with per-element tables: same heaviest element, different element sets (anything memoised by the largest atomic number goes stale)
    "disp_w2": {"names": ["h2o_pair"], "method": "AM1", "converger": [1], "extra": {"dispersion": True}},
    "disp_ch4_h2o": {"names": ["ch4_h2o"], "method": "AM1", "converger": [1], "extra": {"dispersion": True}},
    # a system with pairs beyond the short-range cut-offs, analytical forces: scratch arrays that are only partly written must not leak old memory
    "far_anal": {"names": ["h2o_far"], "method": "AM1", "converger": [1], "analytical": [True]},
    "far_num": {"names": ["h2o_far"], "method": "PM3", "converger": [1], "analytical": [True, "numerical"]},
    # shape-collision pairs: same tensor shapes (batch size, padded atom/orbital counts), different contents/order - anything cached by shape goes stale
    "mix_sp2_a": {"names": ["h2o", "ch2o", "c2h4"], "method": "AM1", "converger": [1], "sp2": [True, 1e-7]},
    "mix_sp2_b": {"names": ["ch2o", "h2o", "c2h4"], "method": "AM1", "converger": [1], "sp2": [True, 1e-7]},
    "mix_a": {"names": ["h2o", "ch2o"], "method": "PM3", "converger": [1]},
    "mix_b": {"names": ["ch2o", "h2o"], "method": "PM3", "converger": [1]},
    "eqnorb_a": {"names": ["ch4", "co"], "method": "MNDO", "converger": [2]},
    "eqnorb_b": {"names": ["co", "ch4"], "method": "MNDO", "converger": [2]},
    "uhf_mix_a": {"names": ["ch2o", "oh"], "method": "AM1", "converger": [1], "uhf": True},
    "uhf_mix_b": {"names": ["no", "h2o"], "method": "AM1", "converger": [1], "uhf": True},
    # same molecule and method, one element re-parameterised through learned parameters: anything memoised per element goes stale
    "pm6_h2s": {"names": ["h2s"], "method": "PM6", "converger": [0, 0.2]},
    "pm6_h2s_zd": {"names": ["h2s"], "method": "PM6", "converger": [0, 0.2], "learned": {"zeta_d": 1.1}},
    "am1_h2o_zs": {"names": ["h2o"], "method": "AM1", "converger": [1], "learned": {"zeta_s": 1.05}},
    "pm3_hcl_b": {"names": ["hcl"], "method": "PM3", "converger": [1], "learned": {"beta_p": 0.9}},
}
COLLIDE = [("mix_sp2_a", "mix_sp2_b"), ("mix_a", "mix_b"), ("eqnorb_a", "eqnorb_b"), ("uhf_mix_a", "uhf_mix_b")]
KEYS = ["Etot", "force", "q", "e_gap", "Hf"]


def _run_job(j: Dict[str, Any], shared: Dict[str, Any] = None):
    if j.get("md"):
        sc = dict(engine="basic", stub=False, mols=["h2"], molid=[0], cad=dict(data=1), steps=2, temp=300.0, seed=1)
        mdh.in_process_run(sc, tag="c15")
        return None
    sp = esh.settings(method=j["method"], eps=j.get("eps", 1e-9), converger=j["converger"], sp2=j.get("sp2"), uhf=j.get("uhf", False), excited=j.get("excited"),
                      analytical=j.get("analytical"), **(j.get("extra") or {}))
    if j.get("learned"):
        # re-parameterised element: tabulated value of one parameter scaled, passed as a learned parameter (fresh objects for every job)
        import contextlib as _cl
        import io as _io

        import torch
        from seqm.ElectronicStructure import Electronic_Structure
        from seqm.Molecule import Molecule
        from seqm.seqm_functions.constants import Constants

        (pname, scale), = j["learned"].items()
        s_, x_, _, _ = esh.batch(j["names"])
        with _cl.redirect_stdout(_io.StringIO()):
            tab = Molecule(Constants(), dict(sp, learned=[]), torch.as_tensor(x_.copy()), torch.as_tensor(s_)).parameters[pname].detach().clone()
            spl = dict(sp, learned=[pname])
            lp = {pname: tab * scale}
            mol = Molecule(Constants(), spl, torch.as_tensor(x_.copy()), torch.as_tensor(s_), learned_parameters=lp)
            es = Electronic_Structure(spl)
            es(mol, learned_parameters=lp)
        return {"Etot": mol.Etot.detach().numpy().copy(), "force": mol.force.detach().numpy().copy(), "q": mol.q.detach().numpy().copy(), "e_gap": mol.e_gap.detach().numpy().copy(),
                "Hf": mol.Hf.detach().numpy().copy()}
    try:
        r = esh.run_named(j["names"], sp)
    except Exception:
        if j.get("fails"):
            return None
        raise
    return {k: (None if r[k] is None else np.asarray(r[k]).copy()) for k in KEYS + (["cis_energies"] if j.get("excited") else [])}


def _poison_heap():
    """fill freed heap blocks of many sizes with a huge finite value: a result that reads memory it never wrote (torch.empty scratch arrays that are
    only partly filled) then changes visibly instead of happening to see zeros"""
    import torch

    keep = []
    sizes = list(range(8, 4096, 8)) + [2 ** k for k in range(12, 21)] + [3 * 2 ** k for k in range(10, 19)]
    for n in sizes:
        for _ in range(3):
            keep.append(torch.full((n,), 1.0e300, dtype=torch.float64))
    del keep


def _child_seq(seq: List[str], nthreads, q, poison=False):
    try:
        import torch
        if nthreads:
            torch.set_num_threads(int(nthreads))
        out = None
        for i, name in enumerate(seq):
            if poison and i == len(seq) - 1:
                _poison_heap()
            out = _run_job(JOBS[name])
        q.put({"out": out})
    except BaseException:
        import traceback
        q.put({"exc": traceback.format_exc()[-1500:]})


def _in_fresh_process(seq: List[str], nthreads=1, timeout=600, poison=False):
    ctx = mp.get_context("fork")
    q = ctx.Queue()
    p = ctx.Process(target=_child_seq, args=(seq, nthreads, q, poison))
    p.start()
    res = q.get(timeout=timeout)
    p.join(10)
    if "exc" in res:
        raise RuntimeError(res["exc"])
    return res["out"]


def _diff(a, b):
    worst = 0.0
    for k in a:
        if a[k] is None or b[k] is None:
            continue
        worst = max(worst, float(np.max(np.abs(a[k] - b[k]))))
    return worst


def probe_history(inp: Dict[str, Any]) -> Dict[str, Any]:
    """job J first in a fresh process == J after a prefix of other jobs"""
    fresh = _in_fresh_process([inp["job"]])
    # (the heap is poisoned right before the job under test in the history runs: uninitialised reads cannot hide behind zero pages)
    after = _in_fresh_process(list(inp["prefix"]) + [inp["job"]], poison=True)
    again = _in_fresh_process([inp["job"]] * (4 if inp["job"].startswith("far_") else 2), poison=True)   # (uninitialised reads show up only when the block lands on poisoned memory: more tries)
    for lab, o in (("after the history", after), ("on repetition", again)):
        for k_, v_ in o.items():
            if v_ is not None and not np.isfinite(v_).all():
                return {"ok": False, "observed": [f"{k_} of {inp['job']} is not finite {lab} (fresh process: finite)"], "expected": "history independent", "predicate": "", "fields": {"kinds": ["history"], "job": inp["job"]}}
    bad = []
    kinds = set()
    d = _diff(fresh, after)
    if d > inp.get("tol", 0.0):
        bad.append(f"result of {inp['job']} changes by {d:.3e} after the history {inp['prefix']}"); kinds.add("history")
    d2 = _diff(fresh, again)
    if d2 != 0.0:
        bad.append(f"repeating the identical call changes the result by {d2:.3e}"); kinds.add("repeat")
    return {"ok": not bad, "observed": bad, "expected": "history independent, bitwise repeatable", "predicate": "", "fields": {"kinds": sorted(kinds), "job": inp["job"]}}


def probe_threads(inp: Dict[str, Any]) -> Dict[str, Any]:
    ref = _in_fresh_process([inp["job"]], nthreads=1)
    bad = []
    for t in inp["threads"]:
        r = _in_fresh_process([inp["job"]], nthreads=t)
        d = _diff(ref, r)
        if d > 1e-9:
            bad.append(f"{t} threads: result differs from 1 thread by {d:.3e}")
    return {"ok": not bad, "observed": bad, "expected": "independent of the number of compute threads", "predicate": "", "fields": {"kinds": ["threads"] if bad else [], "job": inp["job"]}}


def probe_dict_reuse(inp: Dict[str, Any]) -> Dict[str, Any]:
    """a settings dictionary used for job A and then for job B must give B's fresh-dictionary result (or raise loudly)"""
    a, b = JOBS[inp["a"]], JOBS[inp["b"]]
    spb = esh.settings(method=b["method"], eps=b.get("eps", 1e-9), converger=b["converger"], sp2=b.get("sp2"), uhf=b.get("uhf", False), excited=b.get("excited"), analytical=b.get("analytical"))
    fresh = esh.run_named(b["names"], copy.deepcopy(spb))
    shared = copy.deepcopy(spb)

    def raw_run(names, sp):
        # esh.run deep-copies the settings; here the SAME dict object must be reused, as a user would
        import torch
        from seqm.ElectronicStructure import Electronic_Structure
        from seqm.Molecule import Molecule
        from seqm.seqm_functions.constants import Constants
        s, x, ch, mu = esh.batch(names)
        with contextlib.redirect_stdout(io.StringIO()):
            mol = Molecule(Constants(), sp, torch.as_tensor(x), torch.as_tensor(s), charges=torch.as_tensor(ch))
            es = Electronic_Structure(sp)
            es(mol)
        return {"Etot": mol.Etot.detach().numpy().copy(), "force": mol.force.detach().numpy().copy()}
    bad = []
    kinds = set()
    try:
        raw_run(a["names"], shared)
        rb = raw_run(b["names"], shared)
        d = max(float(np.abs(rb["Etot"] - fresh["Etot"]).max()), float(np.abs(rb["force"] - fresh["force"]).max()))
        if d > 1e-9:
            bad.append(f"reusing the settings dictionary of {inp['a']} changes the result of {inp['b']} by {d:.3e} (dict now: elements={shared.get('elements')}, scf_eps={shared.get('scf_eps')})")
            kinds.add("dict_silent")
    except Exception as e:
        # a loud failure is not a silently different number; recorded separately
        bad.append(f"reusing the settings dictionary raises {type(e).__name__}: {str(e)[:100]}")
        kinds.add("dict_raises")
    return {"ok": not bad, "observed": bad, "expected": "a caller's settings dictionary is never altered in a way that changes later numbers", "predicate": "",
            "fields": {"kinds": sorted(kinds), "a": inp["a"], "b": inp["b"], "same_elements": sorted(set(sum((esh.GEOMS[n][0] for n in a["names"]), []))) == sorted(set(sum((esh.GEOMS[n][0] for n in b["names"]), [])))}}


def probe_interleaved_backward(inp: Dict[str, Any]) -> Dict[str, Any]:
    """forward a (tight), forward b (loose), one backward of the summed loss: grad of a must equal the isolated one"""
    import torch

    from seqm.ElectronicStructure import Electronic_Structure
    from seqm.Molecule import Molecule
    from seqm.seqm_functions.constants import Constants

    def make(names, eps, beps, method):
        sp = esh.settings(method=method, eps=eps, converger=[1], scf_backward=1, scf_backward_eps=beps)
        s, x, ch, mu = esh.batch(names)
        with contextlib.redirect_stdout(io.StringIO()):
            mol = Molecule(Constants(), sp, torch.as_tensor(x), torch.as_tensor(s))
            from seqm.basics import Energy
            en = Energy(sp)
        return mol, en

    def gap(mol, en):
        with contextlib.redirect_stdout(io.StringIO()):
            out = en(mol, all_terms=True)
        return out[6].sum()  # e_gap
    ma, ea = make(["h2o"], 1e-10, 1e-10, "AM1")
    ga = gap(ma, ea)
    (g_iso,) = torch.autograd.grad(ga, ma.coordinates)
    ma2, ea2 = make(["h2o"], 1e-10, 1e-10, "AM1")
    mb, eb = make(["hcn"], 1e-3, 1e-1, inp.get("method_b", "PM3"))
    la = gap(ma2, ea2)
    lb = gap(mb, eb)
    (g_int,) = torch.autograd.grad(la + lb, ma2.coordinates)
    d = float((g_int - g_iso).abs().max())
    bad = []
    if d > 1e-7:
        bad.append(f"gradient of the tight job changes by {d:.3e} when a loose job's forward pass runs before the common backward pass")
    return {"ok": not bad, "observed": bad, "expected": "backward uses the tolerance/method of its own forward", "predicate": "", "fields": {"kinds": ["interleaved_backward"] if bad else []}}


def probe_object_reuse(inp: Dict[str, Any]) -> Dict[str, Any]:
    """the same Electronic_Structure driver object (and settings dictionary) used for a sequence of different molecules:
    every result equals the fresh-object result, and coming back to the first molecule reproduces it bitwise"""
    import torch

    from seqm.ElectronicStructure import Electronic_Structure
    from seqm.Molecule import Molecule
    from seqm.seqm_functions.constants import Constants

    sp = esh.settings(method=inp["method"], eps=1e-9, converger=inp.get("converger", [1]), analytical=inp.get("analytical"))
    # an entry of `seq` is a molecule name or a "+"-joined batch of names
    sp["elements"] = [0] + sorted({z for n in inp["seq"] for part in n.split("+") for z in esh.GEOMS[part][0]})
    es = Electronic_Structure(sp)
    const = Constants()
    outs = []
    bad = []
    for nm in inp["seq"]:
        s, x, ch, mu = esh.batch(nm.split("+"))
        with contextlib.redirect_stdout(io.StringIO()):
            mol = Molecule(const, sp, torch.as_tensor(x), torch.as_tensor(s))
            es(mol)
        outs.append((nm, mol.Etot.detach().numpy().copy(), mol.force.detach().numpy().copy(), mol.q.detach().numpy().copy()))
    fresh = {}
    for nm in set(inp["seq"]):
        r = esh.run_named(nm.split("+"), esh.settings(method=inp["method"], eps=1e-9, converger=inp.get("converger", [1]), analytical=inp.get("analytical")))
        fresh[nm] = (r["Etot"], r["force"], r["q"])
    for nm, e, f, q in outs:
        d = max(float(np.abs(e - fresh[nm][0]).max()), float(np.abs(f - fresh[nm][1]).max()), float(np.abs(q - fresh[nm][2]).max()))
        if d > 1e-9:
            bad.append(f"{nm} on the re-used driver differs from a fresh driver by {d:.3e}")
    first = [o for o in outs if o[0] == inp["seq"][0]]
    if len(first) > 1 and not (np.array_equal(first[0][1], first[-1][1]) and np.array_equal(first[0][2], first[-1][2])):
        bad.append(f"returning to {inp['seq'][0]} on the same driver does not reproduce its first result bitwise")
    return {"ok": not bad, "observed": bad, "expected": "fresh or reused driver/dictionary objects give the same numbers", "predicate": "", "fields": {"kinds": ["object_reuse"] if bad else [], "method": inp["method"]}}


def probe_md_driver_reuse(inp: Dict[str, Any]) -> Dict[str, Any]:
    """one MD driver object runs trajectory A, then trajectory B (same tensor shapes, e.g. another conformer): B must be bitwise the
    trajectory a fresh driver produces (real force engine; XL engines carry auxiliary densities between steps)"""
    import contextlib
    import io

    import torch
    from seqm.Molecule import Molecule
    from seqm.seqm_functions.constants import Constants

    def work(_):
        mdh.DEFAULT_MOLS.update({k: (v[0], np.asarray(v[1]).tolist()) for k, v in esh.GEOMS.items() if k not in mdh.DEFAULT_MOLS})
        d = mdh.scratch_dir("c15reuse")
        sc = dict(engine=inp["engine"], stub=False, mols=inp["mols"], molid=[0], cad=dict(data=1), steps=inp["steps"], temp=300.0, k=inp.get("k", 4), dt=0.4,
                  seqm=dict(method=inp.get("method", "AM1"), scf_eps=1e-9, elements=[0, 1, 6, 8, 14, 16]))   # (one driver for several systems: the element list is given up front)
        rng = np.random.default_rng(inp["seed"])
        out = {}
        with contextlib.redirect_stdout(io.StringIO()):
            molA, md = mdh.make_md(sc, os.path.join(d, "reused"))
            md.run(molA, inp["steps"], seed=3)
            scB = dict(sc, mols=inp.get("mols2") or sc["mols"])
            molB, md2 = mdh.make_md(scB, os.path.join(d, "fresh"))
            xB = molB.coordinates.detach().clone()
            xB = xB + (molB.species > 0).unsqueeze(-1) * torch.as_tensor(rng.normal(size=tuple(xB.shape)) * 0.05)
            sp = md2.seqm_parameters if hasattr(md2, "seqm_parameters") else dict(method="AM1", scf_eps=1e-9, scf_converger=[1], sp2=[False])
            mB1 = Molecule(Constants(), dict(molB.seqm_parameters), xB.clone(), molB.species.clone())
            mB2 = Molecule(Constants(), dict(molB.seqm_parameters), xB.clone(), molB.species.clone())
            rk = dict(inp.get("run_kwargs2") or {})       # options of the SECOND run only (velocity / energy control): nothing of the first run may leak into them
            md.run(mB1, inp["steps"], seed=9, **rk)
            md2.run(mB2, inp["steps"], seed=9, **rk)
        for k_, m_ in (("reused", mB1), ("fresh", mB2)):
            out[k_] = (m_.coordinates.detach().numpy().copy(), m_.velocities.detach().numpy().copy(), m_.Etot.detach().numpy().copy())
        return out
    import os
    out = mdh.call_with_timeout(work, None, 900)
    bad = []
    dx = float(np.abs(out["reused"][0] - out["fresh"][0]).max())
    dE = float(np.abs(out["reused"][2] - out["fresh"][2]).max())
    if dx != 0.0 or dE != 0.0:
        bad.append(f"{inp['engine']}: second trajectory on a re-used driver differs from a fresh driver: |dx| = {dx:.3e} A, |dEtot| = {dE:.3e} eV after {inp['steps']} steps")
    return {"ok": not bad, "observed": bad, "expected": "a re-used MD driver gives the trajectory of a fresh one", "predicate": "reused == fresh (bitwise)",
            "fields": {"kinds": ["md_driver_reuse"] if bad else [], "engine": inp["engine"]}}


PROBES = {"md_driver_reuse": probe_md_driver_reuse, "history": probe_history, "object_reuse": probe_object_reuse, "threads": probe_threads, "dict_reuse": probe_dict_reuse, "interleaved_backward": probe_interleaved_backward}


def gen_cases(ctx: Ctx):
    rng = ctx.rng
    names = list(JOBS)
    targets = [n for n in names if not JOBS[n].get("fails") and not JOBS[n].get("md")]
    cases = []
    n = 14 if ctx.thorough else 5
    for i in range(n):
        job = targets[i % len(targets)]
        k = int(rng.integers(1, 5))
        prefix = [str(v) for v in rng.choice(names, size=k)]
        cases.append(("history", {"job": job, "prefix": prefix}))
    cases.append(("history", {"job": "w_am1", "prefix": ["loose", "fail_odd", "w_pm3_pulay", "md_h2"]}))
    cases.append(("history", {"job": "disp_ch4_h2o", "prefix": ["disp_w2"]}))
    cases.append(("history", {"job": COLLIDE[0][1], "prefix": [COLLIDE[0][0]]}))
    cases.append(("history", {"job": COLLIDE[0][0], "prefix": [COLLIDE[0][1]]}))
    for i, (a, b) in enumerate(COLLIDE[1:] if ctx.thorough else COLLIDE[1:3]):
        a, b = (a, b) if (ctx.seed + i) % 2 == 0 else (b, a)
        cases.append(("history", {"job": b, "prefix": [a]}))
    cases.append(("history", {"job": ["far_num", "far_anal"][ctx.seed % 2], "prefix": [str(v) for v in rng.choice(["w_am1", "mix_a", "batch_mndo"], size=2)]}))
    cases.append(("history", {"job": ["far_anal", "far_num"][ctx.seed % 2], "prefix": [str(v) for v in rng.choice(["batch_mndo", "w_am1", "big_am1_sp2", "cis_ch2o", "mix_a"], size=3)]}))
    cases.append(("history", {"job": "pm6_h2s_zd", "prefix": ["pm6_h2s"]}))
    cases.append(("history", {"job": ["w_am1", "pm6_h2s"][ctx.seed % 2], "prefix": [["am1_h2o_zs"], ["pm6_h2s_zd"]][ctx.seed % 2]}))
    if ctx.thorough:
        cases.append(("history", {"job": "am1_h2o_zs", "prefix": ["w_am1", "pm3_hcl_b"]}))
        cases.append(("history", {"job": "pm3_hcl_b", "prefix": ["am1_h2o_zs", "w_pm3_pulay"]}))
    # MD driver objects re-used: the same molecule again for the XL engines (auxiliary densities), ANOTHER molecule of the same shape for the thermostatted
    # and plain engines (per-mass constants), with the element list given up front
    plan = [("langevin", True), (["xl", "ksa"][ctx.seed % 2], False)]
    if ctx.thorough:
        plan = [("langevin", True), ("xl", False), ("ksa", False), ("basic", True), ("xl", True), ("langevin", False)]
    for i, (e, other) in enumerate(plan):
        j = (ctx.seed + i) % 2
        cases.append(("md_driver_reuse", {"engine": e, "mols": [["h2o"], ["h2o", "ch4"]][j], "mols2": [["h2s"], ["h2s", "sih4"]][j] if other else None, "steps": 6, "k": [4, 6][j], "seed": int(rng.integers(0, 10**6))}))
    # second run of a re-used driver with run options of its own (energy-shift control compares with the energy at ITS start)
    cases.append(("md_driver_reuse", {"engine": ["basic", "langevin"][ctx.seed % 2], "mols": ["h2o"], "mols2": [None, ["ch4"]][ctx.seed % 2], "steps": 5, "seed": int(rng.integers(0, 10**6)),
                                      "run_kwargs2": [{"control_energy_shift": True}, {"scale_vel": (2, 250.0)}][(ctx.seed // 2) % 2]}))
    cases.append(("threads", {"job": "batch_mndo", "threads": [2, 7, 16] if ctx.thorough else [4, 16]}))
    cases.append(("dict_reuse", {"a": "w_am1", "b": "w_am1"}))
    cases.append(("dict_reuse", {"a": "cis_ch2o", "b": "cis_ch2o"}))
    cases.append(("dict_reuse", {"a": ["cis_ch2o_loose", "rpa_h2o_loose"][ctx.seed % 2], "b": ["cis_ch2o_loose", "rpa_h2o_loose"][ctx.seed % 2]}))
    cases.append(("dict_reuse", {"a": "batch_mndo", "b": "batch_mndo"}))
    if ctx.thorough:
        cases.append(("dict_reuse", {"a": "pm6sp_so2_anal", "b": "pm6sp_so2_anal"}))
    cases.append(("interleaved_backward", {"method_b": "PM3"}))
    cases.append(("object_reuse", {"method": "AM1", "seq": ["h2o", "ch4", "nh3", "h2o"], "converger": [1]}))
    # the same driver for permuted batches: same shapes, same atom count, same multiset (even same sum) of atomic numbers, different order
    cases.append(("object_reuse", {"method": str(rng.choice(["AM1", "PM3", "MNDO"])), "seq": [["co+n2", "n2+co", "co+n2"], ["ch4+co", "co+ch4", "ch4+co"]][ctx.seed % 2], "converger": [1]}))
    cases.append(("object_reuse", {"method": str(rng.choice(["PM3", "MNDO", "PM6_SP"])), "seq": ["ch2o", "h2o", "ch2o"], "converger": [[2], [0, 0.3]][int(rng.integers(0, 2))], "analytical": [True]}))
    return cases


def _run_case(item):
    return PROBES[item[0]](item[1])


def _history_case(inp):
    """run a sequence of Forward/Backward ops of differentiable SCF jobs on the REAL code and observe which tolerance each backward used"""
    import torch

    import seqm.seqm_functions.scf_loop as S
    from seqm.basics import Energy
    from seqm.Molecule import Molecule
    from seqm.seqm_functions.constants import Constants

    jobs = inp["jobs"]  # list of (eps_exponent, method_index)
    methods = ["MNDO", "AM1", "PM3"]
    used = []
    orig = S.fixed_point_picard

    def w(fp_fun, u0, tol, *a, **k):
        used.append(float(tol))
        return orig(fp_fun, u0, tol, *a, **k)
    S.fixed_point_picard = w
    outs = {}
    res = []
    try:
        for op, j in inp["ops"]:
            ee, mi = jobs[j]
            if op == 0:
                sp = esh.settings(method=methods[mi], eps=10.0 ** -ee, converger=[1], scf_backward=1)
                s, x, ch, mu = esh.batch([["h2o"], ["hcn"], ["nh3"]][j % 3])
                with contextlib.redirect_stdout(io.StringIO()):
                    mol = Molecule(Constants(), sp, torch.as_tensor(x), torch.as_tensor(s))
                    out = Energy(sp)(mol, all_terms=True)
                outs[j] = (out[6].sum(), mol)
            else:
                if j not in outs:
                    res.append("-")
                    continue
                used.clear()
                y, mol = outs[j]
                torch.autograd.grad(y, mol.coordinates, retain_graph=True)
                res.append(used[-1] if used else None)
    finally:
        S.fixed_point_picard = orig
    return res


def corr_history(ctx: Ctx, drv):
    rng = ctx.rng
    cases = []
    for it in range(10 if ctx.thorough else 4):
        nj = int(rng.integers(2, 4))
        jobs = [(int(rng.integers(5, 11)), int(rng.integers(0, 3))) for _ in range(nj)]
        ops = [(0, j) for j in range(nj)]
        rng.shuffle(ops)
        ops = [tuple(o) for o in ops] + [(1, int(rng.integers(0, nj))) for _ in range(2)]
        if it % 2 == 0:  # interleave a fresh forward of another job between a job's forward and its backward
            ops.insert(len(ops) - 1, (0, int(rng.integers(0, nj))))
        cases.append({"jobs": jobs, "ops": [list(o) for o in ops]})
    results = mdh.pmap(_history_case, cases, nproc=6, timeout=1200)
    for c, r in zip(cases, results):
        if isinstance(r, Exception) or r is None:
            ctx.obligation("history correspondence evaluated", False, repr(r)[-1200:], kind="harness")
            continue
        toks = ["history", len(c["jobs"])]
        for ee, mi in c["jobs"]:
            toks += [ee, mi]
        toks += [len(c["ops"])]
        for op, j in c["ops"]:
            toks += [op, j]
        ans = drv.ask(*toks)
        # model answers `eps,method` per backward with eps given as the integer exponent token we passed
        want = []
        for v in r:
            want.append("-" if v == "-" else (None if v is None else int(round(-np.log10(v)))))
        got = [a.split(",")[0] for a in ans]
        ok = len(got) == len(want) and all((w_ == "-" and g_ == "-") or (w_ is not None and w_ != "-" and g_ != "-" and int(g_) == w_) for g_, w_ in zip(got, want))
        ctx.corr_case("SCF backward registers (history)", c, ans, want, ok, stratum="interleaved" if len(c["ops"]) > len(c["jobs"]) + 2 else "nested")


def run(ctx: Ctx):
    from ..translate import gen
    gen.regenerate(ctx, ["ProcState"])
    leanproj.check_theorems(ctx, MODULE, THEOREMS)
    drv = leanproj.Driver()
    try:
        try:
            corr_history(ctx, drv)
        except Exception:
            import traceback
            ctx.obligation("correspondence adapters C15 ran", False, traceback.format_exc()[-1500:], kind="harness")
    finally:
        drv.close()
    cases = gen_cases(ctx)
    # NOTE: this process has not run any calculation yet, so forked children start from a fresh package state
    results = mdh.pmap(_run_case, cases, nproc=8, timeout=2400)
    for (name, c), r in zip(cases, results):
        if isinstance(r, Exception) or r is None:
            ctx.obligation(f"probe {name} evaluated", False, repr(r)[-1500:], kind="harness")
            continue
        ctx.probe_case(name, c, r["ok"], fields=r["fields"], observed=r["observed"], expected=r["expected"], predicate=r["predicate"], stratum=name)
