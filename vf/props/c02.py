"""C02 - energies invariant / vectors covariant under rigid motions (all orientations incl. axis-aligned)."""
from __future__ import annotations

from typing import Any, Dict, List

import numpy as np

from .. import esh, leanproj, mdh
from ..core import Ctx, f2b, b2f

MODULE = "PyseqmVerif.Properties.C02"
try:
    from .registry import THEOREMS_C02 as THEOREMS  # type: ignore
except Exception:  # pragma: no cover
    THEOREMS = []

META = {
    "technique": "Lean 4 algebra over the model of rotate_with_quaternion (orthonormality, first row, antipodal chart) and pair geometry + rotation-strata correspondence (exact axes, cone, generic) + SO(3) x translation probes with the singular set over-sampled",
    "level_text": "Theorems: for every unit bond vector outside the antipodal branch the local->molecular frame is a proper rotation with first row = bond direction; inside the antipodal branch this holds iff v = (-1,0,0) (witness: the defect cone); pair vectors are translation invariant and rotation covariant; net force/torque vanish for pairwise central contributions; the transverse (pp|pp) block depends on the frame only through the bond direction. The model is compared with the real rotate_with_quaternion on generic, exact-axis, in-cone and cone-boundary unit vectors; whole-molecule rotations/translations are probed on the real code for all methods and force modes with bonds placed on +-x, +-y, +-z and inside the 4.5e-4 rad cone. Round 2: the rotated two-centre two-electron block is proved to transform as a rank-(2,2) tensor under every orthogonal R (C02b.w_block_covariant, all 256 index quadruples on the packed 10x10 layout), hence the two-centre Coulomb energy is invariant and the Coulomb / core-attraction matrices covariant; the axial identity of the local integrals is shown to be necessary. Translator tie (regenerated every run): the forward part of rotate_with_quaternion (column assignments, cat, antipodal mask and masked overwrite, norm, division, unbind, nine entries, dtype thresholds) is translated component by component and proved equal to the model's rotq (RotTie).",
    "level_note": "Trusted: Lean kernel; harness. Known findings: F2 (frame frozen inside the cone around +-x: sp methods) and F3 (d-orbital PM6 exact-axis bonds) are reported as KNOWN-FINDING; any other orientation/method failing is a VIOLATION. d-orbital kernels are unmodelled (probe only).",
    "design_ref": "DESIGN.md section 5 C02",
}

AXES = {"+x": [1, 0, 0], "-x": [-1, 0, 0], "+y": [0, 1, 0], "-y": [0, -1, 0], "+z": [0, 0, 1], "-z": [0, 0, -1]}


def orient(x: np.ndarray, stratum: str, bond=(0, 1), rng=None, delta=2e-4) -> np.ndarray:
    """rotate the whole molecule so that atom bond[0]->bond[1] lies on an axis / inside the cone around it"""
    rng = rng or np.random.default_rng(0)
    kind, _, ax = stratum.partition(":")
    if kind == "generic":
        return x @ esh.random_rotation(rng).T
    d = x[bond[1]] - x[bond[0]]
    target = np.array(AXES[ax], dtype=float)
    if kind == "cone":
        perp = np.cross(target, [0.3, 0.5, 0.8])
        perp /= np.linalg.norm(perp)
        target = target + delta * perp
        target /= np.linalg.norm(target)
    R = esh.rotation_taking(d, target)
    # spin about the bond by a random angle so that the rest of the molecule is generic
    th = float(rng.uniform(0, 2 * np.pi))
    a = target / np.linalg.norm(target)
    K = np.array([[0, -a[2], a[1]], [a[2], 0, -a[0]], [-a[1], a[0], 0]])
    S = np.eye(3) + np.sin(th) * K + (1 - np.cos(th)) * K @ K
    y = x @ (S @ R).T
    if kind == "axis":
        # make the alignment exact in floating point
        dd = y[bond[1]] - y[bond[0]]
        L = np.linalg.norm(dd)
        y = y - y[bond[0]]
        fix = np.array(AXES[ax], dtype=float) * L - dd
        # distribute: move atom bond[1] exactly onto the axis (tiny correction ~1e-16)
        y[bond[1]] = np.array(AXES[ax], dtype=float) * L
    return y


def probe_rigid_motion(inp: Dict[str, Any]) -> Dict[str, Any]:
    name, method = inp["name"], inp["method"]
    sp = esh.settings(method=method, eps=inp.get("eps", 1e-10), converger=inp.get("converger", [1]), analytical=inp.get("analytical"),
                      excited=inp.get("excited"), active_state=inp.get("active_state", 0), uhf=inp.get("uhf", False),
                      **({"pair_outer_cutoff": inp["cutoff"]} if inp.get("cutoff") else {}),
                      **({"nonadiabatic": {"compute_nac": True, "states": list(range(1, int(inp["excited"]["n_states"]) + 1))}} if inp.get("nac") else {}))
    z, x0 = esh.geom(name)
    rng = np.random.default_rng(inp.get("seed", 0))
    base = x0 @ esh.random_rotation(np.random.default_rng(12345)).T  # fixed generic reference orientation
    xr = orient(x0, inp["stratum"], bond=tuple(inp.get("bond", (0, 1))), rng=rng, delta=inp.get("delta", 2e-4))
    t = np.array(inp.get("shift", [0.0, 0.0, 0.0]))
    xr = xr + t
    # rotation that maps base -> xr - t (Kabsch; exact since both are rigid images of x0)
    A, B = base - base.mean(0), (xr - t) - (xr - t).mean(0)
    U, S, Vt = np.linalg.svd(A.T @ B)
    dsign = np.sign(np.linalg.det(U @ Vt))
    R = (U @ np.diag([1, 1, dsign]) @ Vt).T
    if inp.get("same_object"):
        # the rigid motion applied to the coordinates of ONE object that is then evaluated again (what a scan / a rotating MD frame does)
        s_, _, ch_, mu_ = esh.batch([name])
        Rx = np.array([[1.0, 0, 0], [0, 0, -1], [0, 1, 0]])
        Rz = np.array([[0.0, -1, 0], [1, 0, 0], [0, 0, 1]])
        seq = esh.run_sequence(s_, [np.array([base]), np.array([xr]), np.array([base @ Rx.T]), np.array([xr @ Rz.T]), np.array([base])], sp, charges=ch_, mult=(mu_ if inp.get("uhf") else None))
        a, b = seq[0], seq[1]
        extra_scalars = seq[2:]
        for o in seq:
            if o["e_mo"] is not None and o["e_mo"].ndim == 2:
                o["e_mo"] = np.sort(o["e_mo"][:, : int(o["norb"][0])], axis=1)      # (re-used objects report tracked order: known finding F21 under C14; the SET must be invariant)
    else:
        a = esh.run_named([name], sp, coords=[base])
        b = esh.run_named([name], sp, coords=[xr])
    bad: List[str] = []
    kinds = set()
    te, tf = inp.get("tol_e", 2e-8), inp.get("tol_f", 2e-6)
    if inp.get("same_object"):
        for j, o in enumerate(extra_scalars):
            for k in ("Etot", "Hf", "e_gap", "e_mo"):
                if a[k] is None:
                    continue
                d = float(np.max(np.abs(a[k] - o[k])))
                if d > max(1e-6, te * float(np.max(np.abs(a[k])))):
                    bad.append(f"evaluation {j + 3} on the same object (quarter turns): {k} changes by {d:.3e}")
                    kinds.add("scalar")
    for k in ("Etot", "Eelec", "Enuc", "Hf", "e_gap"):
        if a[k] is None:
            continue
        d = float(np.max(np.abs(a[k] - b[k])))
        if d > te * max(1.0, float(np.max(np.abs(a[k])))):
            bad.append(f"{k} changes by {d:.3e}")
            kinds.add("scalar")
    if a["e_mo"] is not None and a["e_mo"].ndim == 2:
        nb = int(a["norb"][0])
        d = float(np.max(np.abs(a["e_mo"][0][:nb] - b["e_mo"][0][:nb])))
        if d > 1e-6:
            bad.append(f"e_mo change by {d:.3e}")
            kinds.add("scalar")
    d = float(np.max(np.abs(a["q"] - b["q"])))
    if d > 1e-6:
        bad.append(f"charges change by {d:.3e}")
        kinds.add("scalar")
    if a["cis_energies"] is not None:
        d = float(np.max(np.abs(a["cis_energies"] - b["cis_energies"])))
        if d > 1e-6:
            bad.append(f"excitation energies change by {d:.3e}")
            kinds.add("scalar")
    fa, fb = a["force"][0], b["force"][0]
    d = float(np.max(np.abs(fa @ R.T - fb)))
    if d > tf:
        bad.append(f"forces not covariant: {d:.3e}")
        kinds.add("force")
    if a["dipole"] is not None and name not in esh.CHARGE:
        d = float(np.max(np.abs(a["dipole"][0] @ R.T - b["dipole"][0])))
        if d > 1e-6:
            bad.append(f"dipole not covariant: {d:.3e}")
            kinds.add("dipole")
    if inp.get("nac") and not inp.get("same_object"):
        # nonadiabatic coupling vectors between the excited states: vector results, defined up to the sign of each state
        na_, nb_ = getattr(a["_mol"], "nac", None), getattr(b["_mol"], "nac", None)
        if not na_ or not nb_:
            bad.append("coupling vectors requested but not returned"); kinds.add("nac")
        else:
            for pair in sorted(na_):
                va, vb = na_[pair][0].detach().numpy() @ R.T, nb_[pair][0].detach().numpy()
                err = min(float(np.abs(va - vb).max()), float(np.abs(va + vb).max()))
                if err > 1e-5 * max(1.0, float(np.abs(vb).max())):
                    bad.append(f"coupling vector between states {pair[0] + 1} and {pair[1] + 1} not covariant: {err:.3e} (largest component {float(np.abs(vb).max()):.3f})"); kinds.add("nac")
    nf = float(np.max(np.abs(fb.sum(0))))
    if nf > tf:
        bad.append(f"net force {nf:.3e}")
        kinds.add("netforce")
    tq = float(np.max(np.abs(np.cross(xr, fb).sum(0))))
    if tq > 5 * tf:
        bad.append(f"net torque {tq:.3e}")
        kinds.add("torque")
    kind, _, ax = inp["stratum"].partition(":")
    return {"ok": not bad, "observed": bad[:6], "expected": "scalars invariant, vectors rotate with the molecule, net force/torque zero",
            "predicate": "f(Rx+t) = f(x) for scalars, R f(x) for vectors",
            "fields": {"kinds": sorted(kinds), "method": method, "stratum_kind": kind, "axis": ax, "force_mode": (inp.get("analytical") or ["autodiff"])[-1] if inp.get("analytical") else "autodiff",
                       "d_orbitals": method == "PM6"}}


PROBES = {"rigid_motion": probe_rigid_motion}


def gen_cases(ctx: Ctx):
    rng = ctx.rng
    cases = []
    mols = ["h2o", "so2", "ch2o", "nh3", "hcn", "ch3cl", "h2s", "c2h4", "co", "hf"]
    methods = ["AM1", "MNDO", "PM3", "PM6_SP"]
    strata = ["generic:"] * 3 + [f"axis:{a}" for a in AXES] + [f"cone:{a}" for a in AXES]
    n = 90 if ctx.thorough else 26
    for i in range(n):
        st = strata[i % len(strata)]
        c = {"name": str(rng.choice(mols)), "method": methods[i % 4], "stratum": st, "seed": int(rng.integers(0, 10**6)),
             "shift": [float(v) for v in rng.normal(size=3) * 3] if i % 2 else [0.0, 0.0, 0.0],
             "delta": float(rng.choice([5e-5, 2e-4, 4e-4]))}
        if i % 5 == 3:
            c["analytical"] = [True]
        elif i % 5 == 4:
            c["analytical"] = [True, "numerical"]
        cases.append(c)
    # d-orbital PM6 (probe only): generic + the axes the design names
    for st in (["generic:", "axis:+x", "axis:+z", "axis:+y"] if ctx.thorough else ["generic:", "axis:+z"]):
        cases.append({"name": "h2s", "method": "PM6", "stratum": st, "seed": 5, "tol_f": 5e-6})
    # finite pair cutoff: which pairs are dropped must not depend on the orientation (cutoff chosen between bonded and non-bonded distances)
    for nm, cut in ([("ch3cl", 2.0), ("c2h4", 2.3), ("so2", 1.8)] if ctx.thorough else [("ch3cl", 2.0), ("c2h4", 2.3)]):
        cases.append({"name": nm, "method": str(rng.choice(methods)), "stratum": "generic:", "seed": int(rng.integers(0, 10**6)), "cutoff": cut})
    # spin-polarised unrestricted references (radicals, triplet): the spin-density exchange terms must be rotation covariant too
    for nm, meth in ([("oh", "AM1"), ("no", "PM3"), ("o2", "MNDO"), ("oh", "MNDO")] if ctx.thorough else [("oh", "AM1"), ("no", "PM3")]):
        cases.append({"name": nm, "method": meth, "stratum": "generic:", "seed": int(rng.integers(0, 10**6)), "uhf": True, "eps": 1e-9, "tol_e": 2e-7, "tol_f": 1e-5})
    # excited state
    cases.append({"name": "ch2o", "method": "AM1", "stratum": "generic:", "seed": 3, "excited": {"n_states": 2, "method": "cis"}, "active_state": 1, "tol_f": 1e-5})
    # nonadiabatic coupling vectors (optional output of the excited-state engine): molecules with heavy-heavy pairs
    for nm, meth in ([("ch2o", "AM1"), ("hcn", "PM3"), ("c2h4", "AM1")] if ctx.thorough else [[("ch2o", "AM1"), ("hcn", "PM3")][ctx.seed % 2]]):
        cases.append({"name": nm, "method": meth, "stratum": "generic:", "seed": int(rng.integers(0, 10**6)), "excited": {"n_states": 3, "method": "cis", "tolerance": 1e-8}, "active_state": 1, "nac": True,
                      "tol_f": 1e-5, "shift": [1.7, -2.3, 0.9]})
    # the same object moved rigidly and evaluated again (large rotations: frontier p orbitals turn by more than 45 degrees)
    for nm, meth in ([("h2o", "AM1"), ("ch2o", "PM3"), ("c2h4", "MNDO")] if ctx.thorough else [[("h2o", "AM1"), ("ch2o", "PM3")][ctx.seed % 2]]):
        cases.append({"name": nm, "method": meth, "stratum": "generic:", "seed": int(rng.integers(0, 10**6)), "same_object": True, "shift": [0.3, -1.1, 2.0]})
    return cases


def corr_rotation(ctx: Ctx, drv):
    """real rotate_with_quaternion vs the Lean model on the singular set and generic unit vectors"""
    import torch

    from seqm.seqm_functions.two_elec_two_center_int import rotate_with_quaternion

    rng = ctx.rng
    vs = []
    for a in AXES.values():
        vs.append((np.array(a, float), "axis"))
    for _ in range(60 if ctx.thorough else 20):
        v = rng.normal(size=3)
        vs.append((v / np.linalg.norm(v), "generic"))
    for d in [1e-9, 1e-8, 1e-7, 3e-4, 4.4e-4, 4.6e-4, 1e-3]:
        for ax in ("+x", "-x"):
            v = np.array(AXES[ax], float) + d * np.array([0, 0.6, 0.8])
            vs.append((v / np.linalg.norm(v), "cone" if d < 4.5e-4 else "cone_boundary"))
    for v, st in vs:
        R = rotate_with_quaternion(torch.as_tensor(v).reshape(1, 3))[0].numpy().reshape(-1)
        out = drv.ask("rotq", *[f2b(t) for t in v])
        ok = len(out) == 9 and all(abs(b2f(o) - r) <= 4e-16 * max(1.0, abs(r)) for o, r in zip(out, R))
        ctx.corr_case("rotate_with_quaternion", {"v": v.tolist(), "stratum": st}, [b2f(o) for o in out] if len(out) == 9 else out, R.tolist(), ok, stratum=st)


def corr_w(ctx: Ctx, drv):
    """real w_withquaternion (rotation of the 22 local integrals) and the analytic dR/dv vs the compiled model"""
    import torch

    from seqm.seqm_functions.constants import Constants
    from seqm.seqm_functions.two_elec_two_center_int import rotate_with_quaternion, w_withquaternion

    rng = ctx.rng
    tore = Constants().tore
    vs = [np.array(a, float) for a in AXES.values()]
    for _ in range(30 if ctx.thorough else 10):
        v = rng.normal(size=3)
        vs.append(v / np.linalg.norm(v))
    for d in (1e-8, 3e-4, 6e-4):
        v = np.array([1.0, 0, 0]) + d * np.array([0, 0.6, 0.8])
        vs.append(v / np.linalg.norm(v))
    for v in vs:
        ri = rng.normal(size=22)
        empty = torch.zeros(0)
        e1b, e2a, wXH, w = w_withquaternion(None, tore, torch.tensor([8]), torch.tensor([6]), torch.as_tensor(v).reshape(1, 3), torch.zeros(0, 4), torch.as_tensor(ri).reshape(1, 22), torch.zeros(0))
        want = w.reshape(-1).numpy()
        out = drv.ask("wrot", *[f2b(t) for t in v], *[f2b(t) for t in ri])
        ok = len(out) == 100 and all(abs(b2f(o) - t) <= 1e-14 * max(1.0, abs(t)) for o, t in zip(out, want))
        on_axis = bool(np.isclose(np.abs(v).max(), 1.0, atol=1e-3))
        ctx.corr_case("w_withquaternion (heavy-heavy block)", {"xij": v.tolist()}, [b2f(o) for o in out[:3]] if len(out) == 100 else out, want[:3].tolist(), ok, stratum="axis/cone" if on_axis else "generic")
        rot, dR = rotate_with_quaternion(torch.as_tensor(v).reshape(1, 3), True)
        want = dR.reshape(-1).numpy()
        out = drv.ask("rotq_grad", *[f2b(t) for t in v])
        ok = len(out) == 27 and all(abs(b2f(o) - t) <= 4e-16 * max(1.0, abs(t)) for o, t in zip(out, want))
        ctx.corr_case("rotate_with_quaternion gradient", {"v": v.tolist()}, [b2f(o) for o in out[:3]] if len(out) == 27 else out, want[:3].tolist(), ok, stratum="axis/cone" if on_axis else "generic")


def run(ctx: Ctx):
    from ..translate import gen as _gen
    _gen.regenerate(ctx, ["RotGen"])
    leanproj.check_theorems(ctx, MODULE, THEOREMS)
    from .registry import THEOREMS_C02B, THEOREMS_ROTTIE
    # translator tie: the forward part of rotate_with_quaternion, translated component by component, is the model's rotq
    leanproj.check_theorems(ctx, "PyseqmVerif.Properties.RotTie", THEOREMS_ROTTIE)
    leanproj.check_theorems(ctx, "PyseqmVerif.Properties.C02b", THEOREMS_C02B)
    drv = leanproj.Driver()
    try:
        try:
            corr_rotation(ctx, drv)
            corr_w(ctx, drv)
        except Exception:
            import traceback
            ctx.obligation("correspondence adapters C02 ran", False, traceback.format_exc()[-1500:], kind="harness")
    finally:
        drv.close()
    cases = gen_cases(ctx)
    results = mdh.pmap(probe_rigid_motion, cases)
    for c, r in zip(cases, results):
        if isinstance(r, Exception) or r is None:
            ctx.obligation("probe rigid_motion evaluated", False, repr(r)[-1500:], kind="harness")
            continue
        ctx.probe_case("rigid_motion", c, r["ok"], fields=r["fields"], observed=r["observed"], expected=r["expected"], predicate=r["predicate"],
                       stratum=c["stratum"] + "/" + c["method"])
