"""C05 - batching, padding, ordering and atom relabelling are transparent."""
from __future__ import annotations

from typing import Any, Dict, List

import numpy as np

from .. import esh, leanproj, mdh
from ..core import Ctx

MODULE = "PyseqmVerif.Properties.C05"
try:
    from .registry import THEOREMS_C05 as THEOREMS  # type: ignore
except Exception:  # pragma: no cover
    THEOREMS = []

META = {
    "technique": "Lean 4 Nat/List index proofs over the model of Parser.forward and pack/unpack (any batch, any padding) + exact integer correspondence with the real Parser/pack + alone-vs-in-batch probes",
    "level_text": "Theorems (all batch sizes/paddings): real-atom compaction is an order-preserving bijection, the flat pair list is the concatenation of shifted per-molecule lists (no pair crosses molecules; per-molecule sublist = single-molecule list + offset), index maps are injective and address the right blocks, outputs are independent of padding coordinates/width, pack/unpack round-trip, same-element swap permutes pair multisets. The model is compared exactly (integers) with the real Parser.forward and pack on random batches incl. garbage padding coordinates; alone-vs-batch equality of every output is probed on the real code across methods, solvers and force modes. Round 2 (C05b): for kernels acting row-wise the constant-mixing SCF loop, get_error and the SP2 batch loop are proved batch transparent and permutation equivariant for every batch and position; adaptive_mix and the Pulay reset are proved NOT path-transparent (witnesses), with partial theorems under the exact no-interference hypotheses and a proof that the acceptance test is row-wise. Translator tie: the real-versus-padding orbital bound at every site of the source (BasisTie, shared with C03).",
    "level_note": "Trusted: Lean kernel; harness. Float sums over pairs are order dependent in IEEE arithmetic: alone-vs-batch is compared to 1e-9 (solvers 0/1) / K*eps (Pulay, whose DIIS reset is batch-global: stated coupling, DESIGN C05-7). SCF kernels themselves are parameters of the model.",
    "design_ref": "DESIGN.md section 5 C05",
}

KEYS = ["Etot", "Eelec", "Enuc", "Hf", "force", "q", "dipole", "e_gap"]


def _cmp(a: Dict[str, Any], ia: int, b: Dict[str, Any], ib: int, nat: int, norb: int, tol: float) -> List[str]:
    bad = []
    for k in KEYS:
        if a.get(k) is None or b.get(k) is None:
            continue
        va, vb = np.asarray(a[k][ia]), np.asarray(b[k][ib])
        if va.ndim >= 1 and k in ("force", "q"):
            va, vb = va[:nat], vb[:nat]
        d = float(np.max(np.abs(va - vb))) if va.size else 0.0
        if not d <= tol * max(1.0, float(np.max(np.abs(va))) if va.size else 1.0):
            bad.append(f"{k}: |alone - in batch| = {d:.3e}")
    if a.get("e_mo") is not None and b.get("e_mo") is not None:
        # RHF: (nmol, norb); UHF: (nmol, 2, norb) - compare the real orbitals of both spin channels
        d = float(np.max(np.abs(a["e_mo"][ia][..., :norb] - b["e_mo"][ib][..., :norb])))
        if d > tol * 50:
            bad.append(f"e_mo: {d:.3e}")
    if a.get("cis_energies") is not None and b.get("cis_energies") is not None:
        d = float(np.max(np.abs(a["cis_energies"][ia] - b["cis_energies"][ib])))
        if d > max(tol * 100, 1e-6):
            bad.append(f"cis_energies: {d:.3e}")
    return bad


def probe_alone_vs_batch(inp: Dict[str, Any]) -> Dict[str, Any]:
    sp = esh.settings(method=inp["method"], eps=inp.get("eps", 1e-10), converger=inp.get("converger", [1]), sp2=inp.get("sp2"),
                      analytical=inp.get("analytical"), excited=inp.get("excited"), uhf=inp.get("uhf", False))
    names = inp["names"]
    k = inp["target"]
    alone = esh.run_named([names[k]], sp)
    try:
        full = esh.run_named(names, sp, pad_to=inp.get("pad_to"), pad_coord=inp.get("pad_coord", 0.0))
    except Exception as e:
        # the molecule computes fine alone but the batch containing it fails: the batch mates are not transparent
        return {"ok": False, "observed": [f"computes alone, but inside the batch {names} the call raises {type(e).__name__}: {str(e)[:120]}"], "expected": "same result alone and in any batch",
                "predicate": "alone == in-batch", "fields": {"what": ["batch_raises"], "method": inp["method"], "converger": inp.get("converger", [1])[0],
                                                              "sp2": bool((inp.get("sp2") or [False])[0]), "excited": bool(inp.get("excited"))}}
    nat = len(esh.GEOMS[names[k]][0])
    norb = int(alone["norb"][0])
    tol = inp.get("tol", 1e-9)
    bad = _cmp(alone, 0, full, k, nat, norb, tol)
    pad_force = np.abs(full["force"][k][nat:]).max() if full["force"][k][nat:].size else 0.0
    if pad_force != 0.0:
        bad.append(f"padding atoms get force {pad_force:.3e}")
    if bool(alone["notconverged"][0]) != bool(full["notconverged"][k]):
        bad.append("convergence flag differs alone vs in batch")
    return {"ok": not bad, "observed": bad[:6], "expected": "results of a molecule identical alone and in any batch",
            "predicate": "forall outputs: alone == in-batch (tol %g); padding force == 0" % tol,
            "fields": {"what": sorted({b.split(":")[0] for b in bad}), "method": inp["method"], "converger": inp.get("converger", [1])[0],
                       "sp2": bool((inp.get("sp2") or [False])[0]), "excited": bool(inp.get("excited"))}}


def probe_same_element_swap(inp: Dict[str, Any]) -> Dict[str, Any]:
    sp = esh.settings(method=inp["method"], eps=1e-10, converger=inp.get("converger", [1]))
    name = inp["name"]
    z, x = esh.geom(name)
    i, j = inp["i"], inp["j"]
    assert z[i] == z[j]
    perm = list(range(len(z)))
    perm[i], perm[j] = perm[j], perm[i]
    a = esh.run_named([name], sp)
    b = esh.run_named([name], sp, coords=[x[perm]])
    bad = []
    for k in ("Etot", "Eelec", "Enuc", "Hf", "e_gap"):
        d = float(np.max(np.abs(a[k] - b[k])))
        if d > 1e-9:
            bad.append(f"{k} changes by {d:.3e} under a same-element swap")
    for k in ("force", "q"):
        d = float(np.max(np.abs(a[k][0][perm] - b[k][0])))
        if d > 1e-8:
            bad.append(f"{k} not permuted accordingly: {d:.3e}")
    d = float(np.max(np.abs(a["dipole"] - b["dipole"])))
    if d > 1e-8:
        bad.append(f"dipole changes by {d:.3e}")
    return {"ok": not bad, "observed": bad, "expected": "per-atom outputs permuted, nothing else changes", "predicate": "swap two same-element atoms",
            "fields": {"what": sorted({b.split(" ")[0] for b in bad}), "method": inp["method"]}}


def probe_md_alone_vs_batch(inp: Dict[str, Any]) -> Dict[str, Any]:
    """trajectory of molecule k independent of its batch mates (real engine, few steps)"""
    sc_a = dict(engine=inp.get("engine", "basic"), stub=False, mols=[inp["names"][inp["target"]]], molid=[0],
                cad=dict(data=1, coordinates=1, velocities=0, forces=1, xyz=0, print=0, ckpt=0), steps=inp.get("steps", 4), temp=float(inp.get("temp", 0.0)), seed=1, k=inp.get("k", 4),
                remove_com=(tuple(inp["remove_com"]) if inp.get("remove_com") else None), preset_velocities=inp.get("preset_velocities"),
                run_kwargs=({"scale_vel": tuple(inp["scale_vel"])} if inp.get("scale_vel") else {}),
                charges=[esh.CHARGE.get(inp["names"][inp["target"]], 0)], T_el=inp.get("T_el", 1500), dt=inp.get("dt", 0.5))
    sc_b = dict(sc_a, mols=list(inp["names"]), molid=[inp["target"]], charges=[esh.CHARGE.get(n, 0) for n in inp["names"]])
    mdh.DEFAULT_MOLS.update({k: (v[0], np.asarray(v[1]).tolist()) for k, v in esh.GEOMS.items() if k not in mdh.DEFAULT_MOLS})
    ra = mdh.in_process_run(sc_a, tag="c05a")[0]
    try:
        rb = mdh.in_process_run(sc_b, tag="c05b")[inp["target"]]
    except Exception as e:
        return {"ok": False, "observed": [f"MD of {inp['names'][inp['target']]} runs alone, but inside the batch {inp['names']} it raises {type(e).__name__}: {str(e)[-160:]}"],
                "expected": "trajectory of molecule k independent of batch mates", "predicate": "MD alone == MD in batch", "fields": {"what": ["md_batch_raises"], "engine": sc_a["engine"]}}
    bad = []
    for g in ("coordinates", "forces", "data"):
        va, vb = ra["h5"][g]["values"], rb["h5"][g]["values"]
        d = float(np.max(np.abs(va - vb)))
        if d > inp.get("tol", 1e-8):
            bad.append(f"{g}: trajectory differs alone vs in batch by {d:.3e}")
    return {"ok": not bad, "observed": bad, "expected": "trajectory of molecule k independent of batch mates", "predicate": "MD alone == MD in batch",
            "fields": {"what": ["md"], "engine": sc_a["engine"]}}


def probe_shared_driver_positions(inp: Dict[str, Any]) -> Dict[str, Any]:
    """one driver object evaluates the same molecules in different batch orders: every molecule keeps the result it has alone (position transparency
    also when driver objects are kept between calls, as scripts that loop over batches do)"""
    from . import c15
    r = c15.probe_object_reuse({"method": inp["method"], "seq": inp["seq"], "converger": inp.get("converger", [1])})
    r["fields"] = {"what": ["shared_driver_position"] if not r["ok"] else [], "method": inp["method"], "converger": inp.get("converger", [1])[0], "sp2": False, "excited": False}
    return r


PROBES = {"shared_driver_positions": probe_shared_driver_positions, "alone_vs_batch": probe_alone_vs_batch, "same_element_swap": probe_same_element_swap, "md_alone_vs_batch": probe_md_alone_vs_batch}


def gen_cases(ctx: Ctx):
    rng = ctx.rng
    pool = ["h2", "h2o", "nh3", "ch4", "ch2o", "hcn", "co", "hf", "ch3cl", "h2s", "so2", "c2h4", "oh-", "nh4+", "hcl"]
    methods = ["AM1", "MNDO", "PM3", "PM6_SP"]
    cases = []
    n = 70 if ctx.thorough else 18
    for i in range(n):
        k = int(rng.integers(2, 5))
        names = [str(x) for x in rng.choice(pool, size=k, replace=True)]
        conv = [[0, 0.3], [1], [1], [2]][i % 4]
        c = {"names": names, "target": int(rng.integers(0, k)), "method": methods[i % 4], "converger": conv,
             "pad_to": max(len(esh.GEOMS[x][0]) for x in names) + int(rng.integers(0, 3)),
             "pad_coord": float(rng.choice([0.0, 0.0, 5.5, -123.0, 1e6])), "tol": 1e-9 if conv[0] != 2 else 1e-7}
        if i % 6 == 5:
            c["sp2"] = [True, 1e-6]
            c["tol"] = 1e-6
            c["names"] = [nm for nm in names if nm not in ("oh-",)] or ["h2o", "ch4"]  # anion + padding + SP2: known non-termination (C03)
            c["target"] = min(c["target"], len(c["names"]) - 1)
            c["pad_to"] = max(len(esh.GEOMS[x][0]) for x in c["names"])
        if i % 5 == 4:
            c["analytical"] = [True] if i % 2 else [True, "numerical"]
        cases.append(("alone_vs_batch", c))
    # adversarial stratum: batch mates with the SAME number of orbitals but a different heavy/hydrogen split (CH4: 1+4, CO: 2+0 -> 8 orbitals;
    # SO2: 3+0, C2H4: 2+4 -> 12): any shortcut keyed on the orbital count alone mixes their layouts
    for i, names in enumerate([["ch4", "co"], ["co", "ch4"], ["so2", "c2h4"], ["c2h4", "so2", "ch4", "co"]][: (4 if ctx.thorough else 3)]):
        for tgt in range(len(names)):
            cases.append(("alone_vs_batch", {"names": names, "target": tgt, "method": methods[i % 4], "converger": [[1], [0, 0.2], [2]][i % 3], "tol": 1e-9 if i % 3 != 2 else 1e-7,
                                             "eps": 1e-10}))
    # unrestricted runs in mixed-size batches, the smaller (padded) molecule in either half of the batch; closed-shell singlets and radicals
    ucases = [(["ch2o", "h2o"], 1), (["h2o", "ch2o"], 0), (["ch4", "oh"], 1), (["c2h4", "no", "h2o"], 2), (["c2h4", "no", "h2o"], 1)]
    for i, (names, tgt) in enumerate(ucases[: (5 if ctx.thorough else 3)]):
        cases.append(("alone_vs_batch", {"names": names, "target": tgt, "method": methods[i % 3], "converger": [[1], [0, 0.3]][i % 2], "uhf": True, "tol": 1e-8, "eps": 1e-10,
                                         "analytical": [None, [True], [True, "numerical"]][(i + ctx.seed) % 3]}))
    # unrestricted x analytical / semi-numerical forces x batches of radicals with different spin densities
    cases.append(("alone_vs_batch", {"names": [["oh", "no"], ["no", "oh", "oh"]][ctx.seed % 2], "target": 1, "method": methods[ctx.seed % 3], "converger": [1], "uhf": True, "tol": 1e-7, "eps": 1e-10,
                                     "analytical": [[True], [True, "numerical"]][ctx.seed % 2]}))
    cases.append(("shared_driver_positions", {"method": methods[ctx.seed % 3], "seq": [["co+n2", "n2+co"], ["n2+co", "co+n2"], ["ch4+co", "co+ch4"]][ctx.seed % 3], "converger": [[1], [0, 0.3]][ctx.seed % 2]}))
    # excited states: homogeneous batch (same species, different coords handled via names repeated) and mixed
    cases.append(("alone_vs_batch", {"names": ["ch2o", "ch2o"], "target": 1, "method": "AM1", "converger": [1], "excited": {"n_states": 3, "method": "cis"}, "tol": 1e-8}))
    cases.append(("alone_vs_batch", {"names": ["h2o", "ch2o", "nh3"], "target": 1, "method": "AM1", "converger": [1], "excited": {"n_states": 2, "method": "cis"}, "tol": 1e-7}))
    for nm, i, j, meth in [("ch4", 1, 3, "AM1"), ("h2o", 1, 2, "PM3"), ("so2", 1, 2, "MNDO"), ("c2h4", 0, 1, "PM6_SP")][: (4 if ctx.thorough else 2)]:
        cases.append(("same_element_swap", {"name": nm, "i": i, "j": j, "method": meth}))
    cases.append(("md_alone_vs_batch", {"names": ["h2", "h2o"], "target": 0, "engine": "basic", "steps": 3}))
    cases.append(("md_alone_vs_batch", {"names": ["ch4", "oh-"], "target": 1, "engine": "ksa", "steps": 3, "k": 4}))
    # finite temperature + angular-momentum removal with a DIATOMIC batch mate: the count of degrees of freedom (reported temperature, initial velocity
    # rescale) of a molecule must not depend on who else is in the batch (seed C05_J: 6 -> 5 removed degrees of freedom decided batch-globally).
    # The target is the first and largest member, so that its preset initial velocities are the same numbers alone and in the batch; velocities are preset
    # and rescaled to 300 K every step (a diatomic given package-drawn velocities is rejected under angular removal, alone and in a batch alike).
    cases.append(("md_alone_vs_batch", {"names": ["ch4", "h2"], "target": 0, "engine": "basic", "steps": 3, "temp": 300.0, "remove_com": ["angular", 1],
                                        "preset_velocities": 7, "scale_vel": [1, 300.0]}))
    # fractional occupations (high electronic temperature) on the padded member of a mixed batch: the response kernel must ignore padding orbitals
    cases.append(("md_alone_vs_batch", {"names": ["ch2o", "h2o"], "target": 1, "engine": "ksa", "steps": 6, "k": 4, "T_el": 20000, "tol": 1e-9}))
    if ctx.thorough:
        cases.append(("md_alone_vs_batch", {"names": ["h2o", "h2", "co"], "target": 1, "engine": "xl", "steps": 4, "k": 5}))
    return cases


def _run_case(item):
    name, inp = item
    return PROBES[name](inp)


def corr_parser(ctx: Ctx, drv):
    """exact integer correspondence of the real Parser.forward with the Lean model"""
    import types

    import torch

    from seqm.basics import Parser
    from seqm.seqm_functions.constants import Constants

    rng = ctx.rng
    const = Constants()
    n = 80 if ctx.thorough else 25
    for it in range(n):
        nmol = int(rng.integers(1, 5))
        molsize = int(rng.integers(1, 6))
        sp = np.zeros((nmol, molsize), dtype=np.int64)
        for m in range(nmol):
            k = int(rng.integers(1, molsize + 1))
            zs = sorted([int(z) for z in rng.choice([1, 1, 1, 6, 7, 8, 9, 16, 17], size=k)], reverse=True)
            # RHF needs an even electron count: fix parity with an extra H if room, else drop to H2-like
            sp[m, :k] = zs
        x = rng.normal(size=(nmol, molsize, 3)) * 2.0
        pad = sp == 0
        x[pad] = rng.choice([0.0, 7.7, -1e5, 3e9])  # garbage in padding slots
        cutoff = float(rng.choice([1e10, 2.5, 3.5]))
        sett = {"elements": [0] + sorted(set(sp.reshape(-1).tolist()) - {0}), "pair_outer_cutoff": cutoff, "UHF": True}
        tore = const.tore.numpy()
        nel = tore[sp].sum(1)
        mult = np.where(nel % 2 == 0, 1.0, 2.0)
        molns = types.SimpleNamespace(species=torch.as_tensor(sp), coordinates=torch.as_tensor(x), const=const,
                                      tot_charge=torch.zeros(nmol), mult=torch.as_tensor(mult))
        out = Parser(sett)(molns, "AM1", return_mask_l=True)
        (nmol_, molsize_, nSH, nHeavy, nHydro, nocc, Z, maskd, atom_molid, mask, mask_l, pair_molid, ni, nj, idxi, idxj, xij, rij) = out
        d2 = ((x[:, None, :, :] - x[:, :, None, :]) ** 2).sum(-1)  # [m, a, b] = |x_b - x_a|^2
        nflat = nmol * molsize
        close = np.zeros((nflat, nflat), dtype=int)
        for m in range(nmol):
            close[m * molsize:(m + 1) * molsize, m * molsize:(m + 1) * molsize] = (d2[m] < cutoff ** 2).astype(int)
        toks = ["parser", nmol, molsize] + sp.reshape(-1).tolist() + close.reshape(-1).tolist()
        ans = " ".join(drv.ask(*toks))

        def sec(v):
            return ",".join(str(int(t)) for t in v.reshape(-1).tolist())
        impl = (f"real={sec(torch.nonzero(torch.as_tensor(sp).reshape(-1) > 0).squeeze(1))} Z={sec(Z)} nHeavy={sec(nHeavy)} nHydro={sec(nHydro)} maskd={sec(maskd)} "
                f"atom_molid={sec(atom_molid)} idxi={sec(idxi)} idxj={sec(idxj)} mask={sec(mask)} mask_l={sec(mask_l)} pair_molid={sec(pair_molid)} ni={sec(ni)} nj={sec(nj)}")
        ctx.corr_case("Parser.forward", {"species": sp.tolist(), "cutoff": cutoff, "pad_garbage": True}, ans[:300], impl[:300], ans == impl,
                      nontrivial=int(idxi.numel()) > 0, stratum=("finite_cutoff" if cutoff < 1e9 else "default_cutoff"))


def corr_pack(ctx: Ctx, drv):
    """real pack/unpack on index-valued matrices and the occupation count of Parser.forward vs the model"""
    import types

    import torch

    from seqm.basics import Parser
    from seqm.seqm_functions.pack import pack, unpack

    rng = ctx.rng
    for it in range(30 if ctx.thorough else 10):
        nheavy, nhydro = int(rng.integers(0, 4)), int(rng.integers(0, 4))
        if nheavy + nhydro == 0:
            nhydro = 1
        molsize = nheavy + nhydro + int(rng.integers(0, 3))
        size = 4 * molsize
        X = (1 + torch.arange(size * size)).reshape(1, size, size).to(torch.float64)
        got = pack(X, torch.tensor([nheavy]), torch.tensor([nhydro]))[0].reshape(-1).to(torch.int64).tolist()
        ans = drv.ask("packidx", nheavy, nhydro, molsize)
        ctx.corr_case("pack (index map)", {"nheavy": nheavy, "nhydro": nhydro, "molsize": molsize}, ans[:6], got[:6], [int(a) for a in ans] == got if ans[0] != "bad-op" else False)
        norb = 4 * nheavy + nhydro
        X0 = (1 + torch.arange(norb * norb)).reshape(1, norb, norb).to(torch.float64)
        got = unpack(X0, torch.tensor([nheavy]), torch.tensor([nhydro]), size)[0].reshape(-1).to(torch.int64).tolist()
        ans = drv.ask("unpackidx", nheavy, nhydro, molsize, size)
        ctx.corr_case("unpack (index map)", {"nheavy": nheavy, "nhydro": nhydro, "molsize": molsize}, ans[:6], got[:6], [int(a) for a in ans] == got if ans[0] != "bad-op" else False)
    # pack/unpack on BATCHES: every row must be packed with its own heavy/hydrogen layout (rows with equal orbital count but different split included)
    for it in range(20 if ctx.thorough else 8):
        nm = int(rng.integers(2, 5))
        rows = []
        if it % 2 == 0:
            norb = int(rng.choice([8, 12]))
            while len(rows) < nm:
                nh_ = int(rng.integers(0, norb // 4 + 1))
                rows.append((nh_, norb - 4 * nh_))
        else:
            rows = [(int(rng.integers(0, 3)), int(rng.integers(0, 4))) for _ in range(nm)]
            rows = [(a if a + b > 0 else 1, b) for a, b in rows]
        molsize = max(a + b for a, b in rows) + int(rng.integers(0, 2))
        size = 4 * molsize
        X = (1 + torch.arange(size * size)).reshape(1, size, size).to(torch.float64).repeat(nm, 1, 1)
        nH_t, nHy_t = torch.tensor([a for a, b in rows]), torch.tensor([b for a, b in rows])
        got = pack(X, nH_t, nHy_t)
        nmax = int(got.shape[-1])
        ok = True
        for r_, (a, b) in enumerate(rows):
            ans = drv.ask("packidx", a, b, molsize, nmax)
            want = got[r_].reshape(-1).to(torch.int64).tolist()
            ok = ok and ans[0] != "bad-op" and [int(v) for v in ans] == want
        ctx.corr_case("pack (batch, per-row layout)", {"rows": rows, "molsize": molsize}, "per-row model", "real batch pack", ok,
                      stratum="equal_norb_different_split" if it % 2 == 0 else "mixed")
        # round trip through unpack on the batch
        back = unpack(got, nH_t, nHy_t, size)
        again = pack(back, nH_t, nHy_t)
        ctx.corr_case("pack(unpack(pack)) on a batch", {"rows": rows}, "idempotent", "real", bool(torch.equal(again, got)), stratum="equal_norb_different_split" if it % 2 == 0 else "mixed")
    # occupation numbers incl. every raising case (fake valence table as in the model's protocol)
    for it in range(120 if ctx.thorough else 40):
        uhf = int(rng.integers(0, 2))
        nval = int(rng.integers(1, 9))
        charge = int(rng.integers(-3, 4))
        mult = int(rng.integers(1, 6))
        nat = 2
        tore = torch.zeros(20, dtype=torch.float64)
        tore[6], tore[1] = float(nval - 1) if nval > 1 else 0.0, 1.0
        if nval == 1:
            species = torch.tensor([[1, 0]])
            norb = 1
        else:
            species = torch.tensor([[6, 1]])
            norb = 5
        const = types.SimpleNamespace(tore=tore, length_conversion_factor=1.0)
        molns = types.SimpleNamespace(species=species, coordinates=torch.tensor([[[0.0, 0, 0], [1.0, 0, 0]]]), const=const, tot_charge=torch.tensor([float(charge)]), mult=torch.tensor([float(mult)]))
        try:
            out = Parser({"elements": [0, 1, 6], "UHF": bool(uhf)})(molns, "AM1")
            nocc = out[5]
            want = " ".join(str(int(v)) for v in nocc.reshape(-1).tolist())
        except ValueError:
            want = "raise"
        ans = " ".join(drv.ask("nocc", uhf, nval, charge, mult, norb))
        ctx.corr_case("Parser.forward occupations", {"uhf": uhf, "nval": nval, "charge": charge, "mult": mult, "norb": norb}, ans, want, ans == want, stratum="raise" if want == "raise" else "ok")


def run(ctx: Ctx):
    from ..translate import gen as _gen
    _gen.regenerate(ctx, ["BasisCount"])
    leanproj.check_theorems(ctx, MODULE, THEOREMS)
    from .registry import THEOREMS_BASISTIE, THEOREMS_C05B, THEOREMS_C05C
    # translator tie: the bound between real and zero-padding orbitals, as every site of the source computes it now
    leanproj.check_theorems(ctx, "PyseqmVerif.Properties.BasisTie", [t for t in THEOREMS_BASISTIE if "d_class" not in t])
    leanproj.check_theorems(ctx, "PyseqmVerif.Properties.C05b", THEOREMS_C05B)
    leanproj.check_theorems(ctx, "PyseqmVerif.Properties.C05c", THEOREMS_C05C)
    drv = leanproj.Driver()
    try:
        try:
            corr_parser(ctx, drv)
            corr_pack(ctx, drv)
        except Exception:
            import traceback
            ctx.obligation("correspondence adapters C05 ran", False, traceback.format_exc()[-1500:], kind="harness")
    finally:
        drv.close()
    cases = gen_cases(ctx)
    results = mdh.pmap(_run_case, cases)
    for (name, c), r in zip(cases, results):
        if isinstance(r, Exception) or r is None:
            ctx.obligation(f"probe {name} evaluated", False, repr(r)[-1500:], kind="harness")
            continue
        ctx.probe_case(name, c, r["ok"], fields=r["fields"], observed=r["observed"], expected=r["expected"], predicate=r["predicate"],
                       stratum=str(c.get("method", "")) + "/" + str(c.get("converger", [""])[0]))
    # batch rows of surface-hopping dynamics: the hop step (velocity adjustment, acceptance) of a trajectory uses its OWN row of every batch tensor, also when
    # only some rows hop, so that the position among the hoppers differs from the batch index (the real orchestration routine; probe shared with C17)
    from . import c17 as _c17
    hcases = [{"seed": int(ctx.rng.integers(0, 10**6)), "nmol": int(ctx.rng.integers(2, 6)), "nstates": int(ctx.rng.integers(2, 5)), "natom": int(ctx.rng.integers(2, 5)), "trials": 20 if ctx.thorough else 10,
               "decoherence": bool(i % 2)} for i in range(4 if ctx.thorough else 2)]
    for c, r in zip(hcases, mdh.pmap(_c17.probe_hop_batch, hcases)):
        if isinstance(r, Exception) or r is None:
            ctx.obligation("probe sh_hop_rows evaluated", False, repr(r)[-1500:], kind="harness")
            continue
        ctx.probe_case("sh_hop_rows", c, r["ok"], fields=dict(r["fields"], probe_origin="c17.hop_batch"), observed=r["observed"], expected=r["expected"], predicate=r["predicate"], stratum="sh")
